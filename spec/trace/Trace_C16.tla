----------------------------- MODULE Trace_C16 ----------------------------
(* Trace specification for the storage layout contract (C16).  Stateless: every event carries the requested
   configuration name (cfg, from the driver) and the configuration macros the build actually saw (cm); an event
   whose cm differs from CfgExpect(cfg) is rejected, so a trace produced under another configuration than the one
   requested never passes.  Every event about a type instantiation repeats the header (kind, shape, element type,
   qualifier, sizeof, alignof), which is judged each time (HdrOK), followed by the facts of the operation:
     layout       byte offsets through operator[] (const / non-const), value_ptr, named members, columns; length()
     store_index  StoreViaIndex of tags, then the byte image and LoadViaValuePtr of the whole object
     store_ptr    StoreViaValuePtr over the whole object, then LoadViaIndex / named members
     store_named  stores through x y z w / r g b a / s t p q, then the byte image
     make         MakeFromPtr: make_vec* / make_mat* / make_quat from a raw array
     roundtrip    object -> value_ptr -> raw array -> make_* gives the object back
     make_vv      make_vecN(vecM) keeps the leading components
     alias        the named types of fwd.hpp, gtc/type_precision.hpp, gtc/type_aligned.hpp are what their name says *)
EXTENDS GlmLayout, TraceBase
VARIABLE l
vars == <<l>>

Cf(ev) == CfgRec(ev.cm)
CfgOK(ev) == Has(ev, "cfg") /\ Has(ev, "cm") /\ Len(ev.cm) = 9 /\ ev.cm = CfgExpect(ev.cfg)

Aligned(ev) == QualAligned(ev.q)
Stride(ev) == ev.sz \div (ev.C * ev.es)
LayOf(ev) == Lay(ev.C, ev.R, ev.es, Stride(ev))
N(ev) == Count(ev.C, ev.R)
Wxyz(ev) == Cf(ev).wxyz

\* the header of every type event
HdrOK(ev) ==
    /\ CfgOK(ev)
    /\ ev.k \in Kinds /\ ShapeOK(ev.k, ev.C, ev.R)
    /\ ev.t \in ElemTypes /\ (ev.t = "b" => ev.k = "vec")
    /\ ev.es = ElemSize(ev.t)
    /\ ev.q \in 0..QualCount(Cf(ev)) - 1
    /\ ev.qn = QualNames[ev.q + 1]
    /\ ev.ali = (IF Aligned(ev) THEN 1 ELSE 0)
    /\ ev.dq = (IF ev.q = DefaultQual(Cf(ev)) THEN 1 ELSE 0)
    /\ ev.sz = ev.C * Stride(ev) * ev.es                                   \* whole columns of whole elements
    /\ Stride(ev) \in Strides(ev.k, ev.t, ev.R, Aligned(ev))
    /\ AlignOK(ev.k, ev.t, ev.R, Aligned(ev), ev.es, Stride(ev) * ev.es, ev.al)

WordsOK(ws, n, es) == Len(ws) = n /\ \A i \in 1..n : WordOK(ws[i], es)
SeqOfIdx(ev, F(_, _)) == [i \in 1..N(ev) |-> F((i - 1) \div ev.R, (i - 1) % ev.R)]

LayoutOK(ev) ==
    LET lay == LayOf(ev) c == Cf(ev)
        offs == SeqOfIdx(ev, LAMBDA cc, rr : Off(lay, cc, rr))
    IN /\ ev.off = offs /\ ev.offc = offs
       /\ ev.vpo = 0 /\ ev.vpc = 0
       /\ ev.len = Length(ev.k, ev.C, ev.R)
       /\ ev.lsz = LengthTypeSize(c) /\ ev.lsg = LengthTypeSigned(c) /\ ev.lts = 1
       /\ IF ev.k = "mat"
          THEN /\ ev.co = [cc \in 1..ev.C |-> ColOff(lay, cc - 1)]
               /\ ev.csz = ColSize(lay) /\ ev.cal = ev.al
               /\ ev.len2 = ev.R /\ ev.cq = ev.q /\ ev.cR = ev.R /\ ev.ct = ev.t
          ELSE LET named == [j \in 1..ev.R |-> NamedSlot(ev.k, j - 1, c.wxyz) * ev.es]
               IN /\ ev.mx = named
                  /\ IF ev.k = "vec" /\ ~c.xyzw THEN Has(ev, "mr") /\ Has(ev, "ms") /\ ev.mr = named /\ ev.ms = named
                     ELSE ~Has(ev, "mr") /\ ~Has(ev, "ms")

\* image after stores of the tags a (index order) into a zero-filled object; loads of the whole object through value_ptr
StoreIndexOK(ev) ==
    LET lay == LayOf(ev) mem == MemOf(lay, ev.a, ZeroWord(ev.es)) IN
    /\ WordsOK(ev.a, N(ev), ev.es)
    /\ ev.img = ImageOf(lay, mem)
    /\ ev.ld = [s \in 1..NSlots(lay) |-> LoadViaValuePtr(mem, s - 1)]

\* tags a written through value_ptr over the whole object; r = components through const operator[], rn = through the names
StorePtrOK(ev, nspare) ==
    LET lay == LayOf(ev) IN
    /\ WordsOK(ev.a, NSlots(lay) + nspare, ev.es)
    /\ LET mem == MakeFromPtr(lay, ev.a) IN
       /\ ev.r = Logical(mem, lay)
       /\ (ev.k # "mat" => ev.rn = [j \in 1..ev.R |-> LoadViaValuePtr(mem, NamedSlot(ev.k, j - 1, Wxyz(ev)))])

\* tags a (in the order x, y, z, w) written through the named members
StoreNamedOK(ev) ==
    LET lay == LayOf(ev)
        memtags == [s \in 1..ev.R |-> ev.a[(CHOOSE j \in 0..ev.R - 1 : NamedSlot(ev.k, j, Wxyz(ev)) = s - 1) + 1]]
        mem == MemOf(lay, memtags, ZeroWord(ev.es))
    IN /\ ev.k # "mat" /\ WordsOK(ev.a, ev.R, ev.es)
       /\ ev.set \in (IF ev.k = "vec" /\ ~Cf(ev).xyzw THEN 0..2 ELSE {0})
       /\ ev.img = ImageOf(lay, mem)
       /\ ev.r = memtags

MakeNames(ev) ==
    CASE ev.k = "vec" /\ ev.R = 2 -> {"make_vec2"} [] ev.k = "vec" /\ ev.R = 3 -> {"make_vec3"} [] ev.k = "vec" /\ ev.R = 4 -> {"make_vec4"}
      [] ev.k = "qua" -> {"make_quat"}
      [] ev.k = "mat" /\ ev.C = 2 /\ ev.R = 2 -> {"make_mat2x2", "make_mat2"} [] ev.k = "mat" /\ ev.C = 2 /\ ev.R = 3 -> {"make_mat2x3"}
      [] ev.k = "mat" /\ ev.C = 2 /\ ev.R = 4 -> {"make_mat2x4"} [] ev.k = "mat" /\ ev.C = 3 /\ ev.R = 2 -> {"make_mat3x2"}
      [] ev.k = "mat" /\ ev.C = 3 /\ ev.R = 3 -> {"make_mat3x3", "make_mat3"} [] ev.k = "mat" /\ ev.C = 3 /\ ev.R = 4 -> {"make_mat3x4"}
      [] ev.k = "mat" /\ ev.C = 4 /\ ev.R = 2 -> {"make_mat4x2"} [] ev.k = "mat" /\ ev.C = 4 /\ ev.R = 3 -> {"make_mat4x3"}
      [] ev.k = "mat" /\ ev.C = 4 /\ ev.R = 4 -> {"make_mat4x4", "make_mat4"}
      [] OTHER -> {}
MakeOK(ev) == ev.dq = 1 /\ ev.f \in MakeNames(ev) /\ StorePtrOK(ev, 2)

RoundTripOK(ev) ==
    LET lay == LayOf(ev) mem == MemOf(lay, ev.o, ZeroWord(ev.es)) IN
    /\ ev.dq = 1 /\ ev.f \in MakeNames(ev)
    /\ WordsOK(ev.o, N(ev), ev.es) /\ WordsOK(ev.raw, NSlots(lay) + 1, ev.es)
    /\ SubSeq(ev.raw, 1, NSlots(lay)) = RawOf(mem)                         \* the raw array is the object, element by element
    /\ ev.o2 = ev.o                                                         \* and make_* gives the object back
    /\ ev.o2 = Logical(MakeFromPtr(lay, ev.raw), lay)
    /\ ev.img = ImageOf(lay, mem) /\ ev.img2 = ev.img

MakeVVOK(ev) ==
    /\ ev.k = "vec" /\ ev.M \in 1..4 /\ WordsOK(ev.a, ev.M, ev.es) /\ WordsOK(ev.r, ev.R, ev.es)
    /\ \A i \in 1..(IF ev.M < ev.R THEN ev.M ELSE ev.R) : ev.r[i] = ev.a[i]

AliasOK(ev) ==
    LET c == Cf(ev) IN
    /\ ev.t = ev.dt /\ ev.k = ev.dk /\ ev.C = ev.dC /\ ev.R = ev.dR
    /\ ev.len = Length(ev.k, ev.C, ev.R)
    \* packed_* / aligned_* names say it; highp_ / mediump_ / lowp_ names are packed (highp = packed_highp ...);
    \* only the unqualified names follow the default qualifier
    /\ Aligned(ev) = (CASE ev.dal = 0 -> FALSE [] ev.dal = 1 -> TRUE [] OTHER -> (ev.dp = 3 /\ c.da))
    /\ QualPrecision(ev.q) = (IF ev.dp = 3 THEN 0 ELSE ev.dp)

ConfigOK(ev) ==
    LET c == Cf(ev) IN
    /\ CfgOK(ev)
    /\ ev.lsz = LengthTypeSize(c) /\ ev.lsg = LengthTypeSigned(c)
    /\ ev.chb = 8 /\ ev.bsz = 1
    /\ ev.dq = DefaultQual(c) /\ ev.dqn = QualNames[ev.dq + 1]

TypeOps == {"layout", "store_index", "store_ptr", "store_named", "make", "roundtrip", "make_vv", "alias"}
Verdict(ev) ==
    IF ~Has(ev, "op") THEN VBad
    ELSE IF ev.op = "config" THEN VBool(ConfigOK(ev))
    ELSE IF ev.op \notin TypeOps THEN VBad
    ELSE IF ~HdrOK(ev) THEN VBad
    ELSE VBool(CASE ev.op = "layout" -> LayoutOK(ev)
                 [] ev.op = "store_index" -> StoreIndexOK(ev)
                 [] ev.op = "store_ptr" -> StorePtrOK(ev, 0)
                 [] ev.op = "store_named" -> StoreNamedOK(ev)
                 [] ev.op = "make" -> MakeOK(ev)
                 [] ev.op = "roundtrip" -> RoundTripOK(ev)
                 [] ev.op = "make_vv" -> MakeVVOK(ev)
                 [] ev.op = "alias" -> AliasOK(ev))

\* short on purpose: TLC wraps printed tuples longer than 80 characters over several lines, which the driver cannot parse
Info(ev) == IF Has(ev, "op") /\ Has(ev, "k") /\ Has(ev, "t") /\ Has(ev, "qn")
            THEN ev.op \o "/" \o ev.k \o "/" \o ev.t \o "/" \o ev.qn ELSE IF Has(ev, "op") THEN ev.op ELSE "?"

Init == l = 1 /\ RegInit
Next == /\ l <= NTrace
        /\ LET ev == TraceLog[l] IN
           IF IsMarker(ev) THEN Bump(3) ELSE Record(l, Verdict(ev), Info(ev))
        /\ l' = l + 1
Spec == Init /\ [][Next]_vars
Accepted == Summary
=============================================================================
