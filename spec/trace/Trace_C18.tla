----------------------------- MODULE Trace_C18 ----------------------------
(* Trace specification for the power-of-two / multiple / n-th-bit utilities, the gtc/gtx
   integer functions and the gtc/bitfield utilities (C18).  Every component of every event is
   judged exactly; components outside the documented domain (x < 1 for the power-of-two
   family, multiple < 1, results that are not representable in the element type, shift counts
   outside 1..W-1) constrain nothing. *)
EXTENDS GlmRound, KnownDeviations, TraceBase
VARIABLE l
vars == <<l>>

W(ev) == TypeW(ev.t)
Sg(ev) == TypeSigned(ev.t)
NComp(ev) == IF ev.n = 0 THEN 1 ELSE ev.n
CompW(ev, argi, i) == WFromLimbs(ev.a[argi][IF Len(ev.a[argi]) = 1 THEN 1 ELSE i])
CompZ(ev, argi, i) == WToZ(W(ev), Sg(ev), CompW(ev, argi, i))
ArgI32(ev, argi, i) == ZToInt(WToZ(32, TRUE, WFromLimbs(ev.a[argi][IF Len(ev.a[argi]) = 1 THEN 1 ELSE i])))
ResW(ev, i) == WFromLimbs(ev.r[i])
ResZ(ev, i) == WToZ(W(ev), Sg(ev), ResW(ev, i))
BoolW(b) == IF b THEN <<1>> ELSE << >>
I32W(n) == WFromInt(32, n)
Fits(ev, z) == ZInRange(W(ev), Sg(ev), z)
Tri(dom, good) == IF ~dom THEN "skip" ELSE IF good THEN "ok" ELSE "bad"

\* ---- per-component judgement: "ok" | "skip" | "bad"
Pow2Comp(ev, i) ==
    LET x == CompZ(ev, 1, i) m == x.m pos == ZSign(x) > 0 IN
    CASE ev.op = "isPowerOfTwo" -> Tri(pos, ResW(ev, i) = BoolW(IsPow2N(m)))
      [] ev.op \in {"nextPowerOfTwo", "ceilPowerOfTwo", "powerOfTwoAbove"} ->
            Tri(pos /\ Fits(ev, ZMk(FALSE, CeilPow2N(m))), ResW(ev, i) = CeilPow2N(m))
      [] ev.op \in {"prevPowerOfTwo", "floorPowerOfTwo", "powerOfTwoBelow"} -> Tri(pos, ResW(ev, i) = FloorPow2N(m))
      [] ev.op \in {"roundPowerOfTwo", "powerOfTwoNearest"} ->
            Tri(pos /\ \A c \in RoundPow2Set(m) : Fits(ev, ZMk(FALSE, c)), ResW(ev, i) \in RoundPow2Set(m))
      [] ev.op = "highestBitValue" -> Tri(TRUE, ResW(ev, i) = HighestBitValue(W(ev), CompW(ev, 1, i)))
      [] ev.op = "lowestBitValue"  -> Tri(TRUE, ResW(ev, i) = LowestBitValue(W(ev), CompW(ev, 1, i)))

MultIntComp(ev, i) ==
    LET x == CompZ(ev, 1, i) m == CompZ(ev, 2, i) dom == ZSign(m) > 0 IN
    IF ~dom THEN "skip" ELSE
    CASE ev.op = "isMultiple" -> Tri(TRUE, ResW(ev, i) = BoolW(IsMultipleZ(x, m)))
      [] ev.op \in {"nextMultiple", "ceilMultiple"} -> LET e == CeilMultipleZ(x, m) IN Tri(Fits(ev, e), ZEq(ResZ(ev, i), e))
      [] ev.op \in {"prevMultiple", "floorMultiple"} -> LET e == FloorMultipleZ(x, m) IN Tri(Fits(ev, e), ZEq(ResZ(ev, i), e))
      [] ev.op = "roundMultiple" -> LET S == RoundMultipleSet(x, m) IN Tri(\A e \in S : Fits(ev, e), \E e \in S : ZEq(ResZ(ev, i), e))

\* floating arguments: the exact multiple when it is representable (in particular x itself when it
\* already is a multiple), otherwise within two units in the last place of the larger of |x|, |result|
MultFloatComp(ev, i) ==
    LET f == TypeFmt(ev.t)
        xf == Fields(f, ev.a[1][IF Len(ev.a[1]) = 1 THEN 1 ELSE i])
        mf == Fields(f, ev.a[2][IF Len(ev.a[2]) = 1 THEN 1 ELSE i])
        rf == Fields(f, ev.r[i])
    IN IF ~IsFinite(f, xf) \/ ~IsFinite(f, mf) \/ IsZero(f, mf) \/ mf.s = 1 THEN "skip"
       ELSE IF ~IsFinite(f, rf) THEN "bad"
       ELSE LET x == QFromD(Val(f, xf)) m == QFromD(Val(f, mf)) r == QFromD(Val(f, rf))
                S == CASE ev.op = "ceilMultiple" -> {CeilMultipleQ(x, m)}
                       [] ev.op = "floorMultiple" -> {FloorMultipleQ(x, m)}
                       [] ev.op = "roundMultiple" -> RoundMultipleSetQ(x, m)
                big == IF QCmp(QAbs(x), QAbs(r)) >= 0 /\ QCmp(QAbs(x), m) >= 0 THEN xf
                       ELSE IF QCmp(QAbs(r), m) >= 0 THEN rf ELSE mf
                tol == QMulInt(QFromD(UlpOf(f, Val(f, big))), 2)
            IN Tri(TRUE, \E e \in S : IF QEq(e, x) THEN QEq(r, x) ELSE QNear(r, e, tol))

NSBComp(ev, i) ==
    LET n == ArgI32(ev, 2, i) IN Tri(n >= 1, ResW(ev, i) = I32W(FindNSB(W(ev), CompW(ev, 1, i), n)))

RotComp(ev, i) ==
    LET s == ArgI32(ev, 2, i) x == CompW(ev, 1, i) IN
    IF s < 1 \/ s >= W(ev) THEN "skip"
    ELSE LET right == RotateRight(W(ev), x, s) left == RotateLeft(W(ev), x, s)
             want == IF ev.op = "bitfieldRotateRight" THEN right ELSE left
             other == IF ev.op = "bitfieldRotateRight" THEN left ELSE right
         IN IF ResW(ev, i) = want THEN "ok" ELSE IF ResW(ev, i) = other THEN "swapped" ELSE "bad"

FillComp(ev, i) ==
    LET first == ArgI32(ev, 2, i) count == ArgI32(ev, 3, i) x == CompW(ev, 1, i) IN
    Tri(FieldOK(W(ev), first, count),
        ResW(ev, i) = (IF ev.op = "bitfieldFillOne" THEN FillOne(W(ev), x, first, count) ELSE FillZero(W(ev), x, first, count)))

MaskComp(ev, i) ==
    LET n == CompZ(ev, 1, i) IN Tri(ZSign(n) >= 0 /\ ZLe(n, ZFromInt(W(ev))), ResW(ev, i) = Mask(W(ev), ZToInt(n)))

\* ---- whole-event judgements
Combine(ev, F(_, _)) ==
    LET vs == {F(ev, i) : i \in 1..NComp(ev)}
    IN IF "bad" \in vs THEN VBad
       ELSE IF "swapped" \in vs THEN VKnown("KD-C18-bitfieldRotate-swapped")
       ELSE IF vs = {"skip"} THEN VSkip ELSE VOk

Interleave1(ev) ==
    LET w == W(ev) n == ev.n outW == 16 * Len(ev.r[1])
        ops == [k \in 1..n |-> WFromLimbs(ev.a[k][1])]
    IN VBool(ResW(ev, 1) = Interleave(w, ops, IF w = 8 /\ n = 2 THEN 16 ELSE outW))
InterleaveV(ev) ==
    LET w == W(ev) ops == [k \in 1..2 |-> WFromLimbs(ev.a[1][k])]
    IN VBool(ResW(ev, 1) = Interleave(w, ops, 2 * w))
Deinterleave1(ev) ==
    LET inW == W(ev) w == inW \div 2 x == WFromLimbs(ev.a[1][1])
    IN VBool(\A k \in 1..2 : WFromLimbs(ev.r[k]) = Deinterleave(w, x, inW, 2, k))

GtxInt(ev) ==
    LET x == CompZ(ev, 1, 1) IN
    CASE ev.op = "ipow" -> LET y == ZToInt(WToZ(32, FALSE, WFromLimbs(ev.a[2][1]))) e == ZPow(x, y)
                           IN IF ~Fits(ev, e) THEN VSkip
                              ELSE IF ZEq(ResZ(ev, 1), e) THEN VOk
                              ELSE IF KD_IpowNegativeBaseZeroExponent(x, y, ResZ(ev, 1)) THEN VKnown("KD-C18-ipow-negative-base-zero-exponent")
                              ELSE VBad
      [] ev.op = "isqrt" -> IF ZSign(x) < 0 THEN VSkip ELSE VBool(ZSign(ResZ(ev, 1)) >= 0 /\ IsFloorSqrt(ResZ(ev, 1).m, x.m))
      [] ev.op = "nlz" -> VBool(ResW(ev, 1) = NFromNat(Nlz(32, CompW(ev, 1, 1))))
      [] ev.op = "imod" -> LET y == CompZ(ev, 2, 1) IN IF ZSign(y) <= 0 THEN VSkip ELSE VBool(ZEq(ResZ(ev, 1), ZMod(x, y)))
      [] OTHER -> VBad

Log2Comp(ev, i) == LET x == CompZ(ev, 1, i) IN Tri(ZSign(x) > 0, ZEq(ResZ(ev, i), ZFromInt(FloorLog2N(x.m))))
FactComp(ev, i) == LET x == CompZ(ev, 1, i) IN
    IF ZSign(x) < 0 \/ ZLt(ZFromInt(20), x) THEN "skip"
    ELSE LET e == ZFact(ZToInt(x)) IN Tri(Fits(ev, e), ZEq(ResZ(ev, i), e))

Verdict(ev) ==
    CASE ev.op \in {"isPowerOfTwo", "nextPowerOfTwo", "ceilPowerOfTwo", "powerOfTwoAbove", "prevPowerOfTwo", "floorPowerOfTwo",
                    "powerOfTwoBelow", "roundPowerOfTwo", "powerOfTwoNearest", "highestBitValue", "lowestBitValue"} -> Combine(ev, Pow2Comp)
      [] ev.op \in {"isMultiple", "nextMultiple", "prevMultiple", "ceilMultiple", "floorMultiple", "roundMultiple"} ->
            IF TypeIsFloat(ev.t) THEN Combine(ev, MultFloatComp) ELSE Combine(ev, MultIntComp)
      [] ev.op = "findNSB" -> Combine(ev, NSBComp)
      [] ev.op \in {"bitfieldRotateRight", "bitfieldRotateLeft"} -> Combine(ev, RotComp)
      [] ev.op \in {"bitfieldFillOne", "bitfieldFillZero"} -> Combine(ev, FillComp)
      [] ev.op = "mask" -> Combine(ev, MaskComp)
      [] ev.op = "interleave" -> Interleave1(ev)
      [] ev.op = "interleaveV" -> InterleaveV(ev)
      [] ev.op = "deinterleave" -> Deinterleave1(ev)
      [] ev.op \in {"ipow", "isqrt", "nlz", "imod"} -> GtxInt(ev)
      [] ev.op = "ilog2" -> Combine(ev, Log2Comp)
      [] ev.op = "factorial" -> Combine(ev, FactComp)
      [] OTHER -> VBad

Init == l = 1 /\ RegInit
Next == /\ l <= NTrace
        /\ LET ev == TraceLog[l] IN IF IsMarker(ev) THEN Bump(3) ELSE Record(l, Verdict(ev), ev.op)
        /\ l' = l + 1
Spec == Init /\ [][Next]_vars
Accepted == Summary
=============================================================================
