----------------------------- MODULE Trace_C17 ----------------------------
(***************************************************************************)
(* Trace specification for C17: swizzles and constructors select and place *)
(* exactly the named components.  Stateless: every event is judged on its  *)
(* own, exactly (bit patterns); the only latitude is the one the C++       *)
(* standard gives static_cast (GlmCtor.Cast: undefined conversions         *)
(* constrain nothing, an inexact conversion to a floating type may round   *)
(* either way).                                                            *)
(*                                                                         *)
(*  swz   t set nm a=[src]            r = the named components in order    *)
(*  swzw  t set nm a=[dst, val]       r = dst after  dst.NAME = val        *)
(*  swzf  t set nm a=[dst, [scalar]]  r = dst after  dst.NAME = scalar     *)
(*  swzs  t set nm a=[dst, other]     r = dst after  dst.NAME = other.NAME *)
(*  swzcrash t q set nm addr16 sig a=[src]   the read raised a signal      *)
(*  cvec  n t parts at a=[args...]    r = vec<n,t>(args...)                *)
(*  cswz  n t set parts a             r = vec<n,t>(swizzle / scalar args)  *)
(*  cmat  kind C R C2 R2 t at a       r = mat<C,R,t>(...) column-major     *)
(*  cqua  kind t at a                 r = qua<t>(...) listed w,x,y,z       *)
(*  absent  (written by the driver, one per batch of accessors /           *)
(*          constructor shapes that does not compile)  classified here:    *)
(*          absent by design -> constrains nothing; a recorded hole in a   *)
(*          family that otherwise exists -> known deviation; else bad      *)
(***************************************************************************)
EXTENDS GlmSwizzle, GlmCtor, TraceBase
VARIABLE l
vars == <<l>>

SameSeq(r, e) == Len(r) = Len(e) /\ \A i \in 1..Len(e) : r[i] = e[i]
IsLetters(nm) == Len(nm) \in 1..4

(* ---- swizzles ---- *)
SwzReadV(ev) ==
    LET idx == IdxOf(ev.set, ev.nm) src == ev.a[1]
    IN VBool(ev.set \in SetNames /\ IsLetters(ev.nm) /\ ValidIdx(Len(src), idx) /\ SameSeq(ev.r, Swz(idx, src)))

WriteOK(ev, idx, dst) == ev.set \in SetNames /\ IsLetters(ev.nm) /\ ValidIdx(Len(dst), idx) /\ Writable(idx)
SwzWriteV(ev) ==
    LET idx == IdxOf(ev.set, ev.nm) dst == ev.a[1] val == ev.a[2]
    IN VBool(WriteOK(ev, idx, dst) /\ Len(val) = Len(idx) /\ SameSeq(ev.r, SwzWrite(idx, dst, val)))
SwzFillV(ev) ==
    LET idx == IdxOf(ev.set, ev.nm) dst == ev.a[1]
    IN VBool(WriteOK(ev, idx, dst) /\ Len(ev.a[2]) = 1 /\ SameSeq(ev.r, SwzFill(idx, dst, ev.a[2][1])))
\* dst.NAME = other.NAME : the value assigned is the swizzle of the other vector
SwzSameV(ev) ==
    LET idx == IdxOf(ev.set, ev.nm) dst == ev.a[1] oth == ev.a[2]
    IN IF ~(WriteOK(ev, idx, dst) /\ Len(oth) = Len(dst)) THEN VBad
       ELSE IF SameSeq(ev.r, SwzWrite(idx, dst, Swz(idx, oth))) THEN VOk
       ELSE IF KD_SwizzleSameTypeAssign(ev.t, dst, oth, ev.r) THEN VKnown("KD-C17-swizzle-same-accessor-assign")
       ELSE VBad

(* Known deviation KD-C17-aligned-vec2-four-letter-overread: the SIMD operator() of a 4-letter accessor loads a whole __m128 from
   the source; an aligned vec2 is an 8-byte object with 8-byte alignment, so at an address = 8 (mod 16) the aligned load faults
   (SIGSEGV = 11) when the compiler emits movaps (g++ -O0).  Pinned: operator form, aligned qualifier, float / int / uint,
   vec2 source, 4 letters, address 8 mod 16, signal 11.  A fault anywhere else is bad. *)
SwzCrashV(ev) ==
    IF /\ ev.impl = "op" /\ ev.q \in {"aligned_highp", "aligned_mediump", "aligned_lowp"} /\ ev.t \in {"f32", "i32", "u32"}
       /\ Len(ev.a[1]) = 2 /\ Len(ev.nm) = 4 /\ ev.addr16 = 8 /\ ev.sig = 11
    THEN VKnown("KD-C17-aligned-vec2-four-letter-overread") ELSE VBad

(* ---- vector constructors ---- *)
PartsOK(parts) == Len(parts) \in 1..4 /\ \A i \in 1..Len(parts) : parts[i] \in PartKinds
CVecV(ev) ==
    IF ~(PartsOK(ev.parts) /\ ev.n \in 1..4) THEN VBad
    ELSE IF ~VecShapeOK(ev.n, ev.parts) THEN VBad
    ELSE VBool(/\ Len(ev.a) = Len(ev.parts) /\ Len(ev.at) = Len(ev.parts)
               /\ \A i \in 1..Len(ev.parts) : Len(ev.a[i]) = PartSize(ev.parts[i])
               /\ CtorOK(ev.t, VecSources(ev.n, ev.parts), ev.at, ev.a, ev.r))

\* constructor with swizzle operands: parts[i] = << >> for a scalar argument, the letters of the accessor otherwise
RECURSIVE SwzArgs(_, _, _, _)
SwzArgs(set, parts, a, i) ==
    IF i > Len(parts) THEN << >>
    ELSE (IF Len(parts[i]) = 0 THEN <<a[i][1]>> ELSE Swz(IdxOf(set, parts[i]), a[i])) \o SwzArgs(set, parts, a, i + 1)
CSwzV(ev) ==
    VBool(/\ Len(ev.a) = Len(ev.parts)
          /\ \A i \in 1..Len(ev.parts) : IF Len(ev.parts[i]) = 0 THEN Len(ev.a[i]) = 1 ELSE ValidIdx(Len(ev.a[i]), IdxOf(ev.set, ev.parts[i]))
          /\ Len(ev.r) = ev.n
          /\ SameSeq(ev.r, SwzArgs(ev.set, ev.parts, ev.a, 1)))

(* ---- matrices ---- *)
Dim(n) == n \in 2..4
CMatV(ev) ==
    IF ~(Dim(ev.C) /\ Dim(ev.R)) THEN VBad
    ELSE LET n == ev.C * ev.R IN
    CASE ev.kind = "diag" -> VBool(Len(ev.a) = 1 /\ Len(ev.a[1]) = 1 /\ Len(ev.at) = 1 /\ CtorOK(ev.t, MatDiagSources(ev.C, ev.R), ev.at, ev.a, ev.r))
      [] ev.kind = "scal" -> VBool(Len(ev.a) = n /\ Len(ev.at) = n /\ (\A i \in 1..n : Len(ev.a[i]) = 1)
                                   /\ CtorOK(ev.t, MatScalarSources(ev.C, ev.R), ev.at, ev.a, ev.r))
      [] ev.kind = "cols" -> VBool(Len(ev.a) = ev.C /\ Len(ev.at) = ev.C /\ (\A i \in 1..ev.C : Len(ev.a[i]) = ev.R)
                                   /\ CtorOK(ev.t, MatColSources(ev.C, ev.R), ev.at, ev.a, ev.r))
      [] ev.kind = "mat"  -> IF ~(Dim(ev.C2) /\ Dim(ev.R2) /\ Len(ev.a) = 1 /\ Len(ev.at) = 1 /\ Len(ev.a[1]) = ev.C2 * ev.R2) THEN VBad
                             ELSE VBool(CtorOK(ev.t, MatFromMatSources(ev.C, ev.R, ev.C2, ev.R2), ev.at, ev.a, ev.r))
      [] OTHER -> VBad

(* ---- quaternions ---- *)
QuaArgLens(kind) == CASE kind \in {"wxyz", "static_wxyz", "xyzw"} -> <<1, 1, 1, 1>> [] kind = "sv" -> <<1, 3>> [] kind = "conv" -> <<4>>
CQuaV(ev) ==
    IF ev.kind \notin {"wxyz", "static_wxyz", "xyzw", "sv", "conv"} THEN VBad
    ELSE LET lens == QuaArgLens(ev.kind)
             \* "at" carries one type per argument; CtorOK wants one per argument as well
         IN VBool(/\ Len(ev.a) = Len(lens) /\ Len(ev.at) = Len(lens)
                  /\ \A i \in 1..Len(lens) : Len(ev.a[i]) = lens[i]
                  /\ CtorOK(ev.t, QuaSources(ev.kind), ev.at, ev.a, ev.r))

(* ---- compile census ---- *)
AlignedQ == {"aligned_highp", "aligned_mediump", "aligned_lowp"}
AllIn(seq, S) == \A k \in 1..Len(seq) : seq[k] \in S
NoneIn(seq, S) == \A k \in 1..Len(seq) : seq[k] \notin S
HasLetter(nm, c) == \E k \in 1..Len(nm) : nm[k] = c
FreeHoles == {<<4, <<"x", "y", "z", "z">> >>}          \* xyz(vec4) and xyzz(vec3), absent from gtx/vec_swizzle.hpp, are defined in func_common.inl
AbsentSwz(ev) ==
    IF ev.set \notin SetNames \/ Len(ev.names) = 0 THEN VBad
    \* by design: vec1 declares no swizzle accessors; gtx/vec_swizzle has xyzw names only; GLM_FORCE_XYZW_ONLY removes rgba / stpq
    ELSE IF ev.what = "swz" /\ ev.impl \in {"fn", "op"} /\ ev.sl = 1 THEN VSkip
    ELSE IF ev.impl = "free" /\ ev.set # "xyzw" THEN VSkip
    ELSE IF ev.cfg = "xyzw" /\ ev.set # "xyzw" THEN VSkip
    \* holes in families that otherwise exist
    ELSE IF ev.what = "swz" /\ ev.impl = "free" /\ (\A k \in 1..Len(ev.names) : <<ev.sl, ev.names[k]>> \in FreeHoles)
        THEN VKnown("KD-C17-free-swizzle-missing")
    ELSE IF ev.what = "swz" /\ ev.impl = "op" /\ ev.sl = 2 /\ ev.rl = 3 THEN VKnown("KD-C17-operator-swizzle-unusable")
    ELSE IF ev.what = "swz" /\ ev.impl = "op" /\ ev.rl = 2 /\ AllIn(ev.qs, AlignedQ) /\ AllIn(ev.ts, {"u32"}) THEN VKnown("KD-C17-operator-swizzle-unusable")
    ELSE IF ev.what = "swz" /\ ev.impl = "op" /\ AllIn(ev.qs, AlignedQ) /\ NoneIn(ev.ts, {"f32", "i32", "u32"}) THEN VKnown("KD-C17-operator-swizzle-unusable")
    ELSE IF ev.what = "swzw" /\ ev.sl = 4 /\ ev.rl = 3 /\ (\A k \in 1..Len(ev.names) : HasLetter(ev.names[k], Letters(ev.set)[4]))
        THEN VKnown("KD-C17-operator-three-letter-w-not-assignable")
    ELSE VBad
AbsentVec(ev) ==
    IF ev.n = 4 /\ ev.parts = <<"s", "s", "s", "v1">> THEN VKnown("KD-C17-vec4-scalar-scalar-scalar-vec1-missing")
    \* by design: the scalar / vec1 mixes are declared with vec<1, A, Q>, Q the qualifier of the result
    ELSE IF ev.cfg \in {"fnx", "opx", "avx2x", "opgx"} /\ Len(ev.parts) >= 2 /\ AllIn(ev.parts, {"s", "v1"}) /\ ~AllIn(ev.parts, {"s"}) THEN VSkip
    ELSE VBad
AbsentV(ev) == CASE ev.what \in {"swz", "swzw"} -> AbsentSwz(ev) [] ev.what = "cvec" -> AbsentVec(ev) [] OTHER -> VBad

Verdict(ev) ==
    CASE ev.op = "swz"  -> SwzReadV(ev)
      [] ev.op = "swzw" -> SwzWriteV(ev)
      [] ev.op = "swzf" -> SwzFillV(ev)
      [] ev.op = "swzs" -> SwzSameV(ev)
      [] ev.op = "swzcrash" -> SwzCrashV(ev)
      [] ev.op = "cvec" -> CVecV(ev)
      [] ev.op = "cswz" -> CSwzV(ev)
      [] ev.op = "cmat" -> CMatV(ev)
      [] ev.op = "cqua" -> CQuaV(ev)
      [] ev.op = "absent" -> AbsentV(ev)
      [] OTHER -> VBad

Init == l = 1 /\ RegInit
Next == /\ l <= NTrace
        /\ LET ev == TraceLog[l] IN IF IsMarker(ev) THEN Bump(3) ELSE Record(l, Verdict(ev), ev.op)
        /\ l' = l + 1
Spec == Init /\ [][Next]_vars
Accepted == Summary
=============================================================================
