----------------------------- MODULE Trace_C17 ----------------------------
(***************************************************************************)
(* Trace specification for C17: swizzles and constructors select and place *)
(* exactly the named components.  Stateless: every event is judged on its  *)
(* own, exactly (bit patterns); the only latitude is the one the C++       *)
(* standard gives static_cast (GlmCtor.Cast: undefined conversions         *)
(* constrain nothing, an inexact conversion to a floating type may round   *)
(* either way).                                                            *)
(*                                                                         *)
(*  swz   t set nm a=[src]            r = the named components in order    *)
(*  swzw  t set nm a=[dst, val]       r = dst after  dst.NAME = val        *)
(*  swzf  t set nm a=[dst, [scalar]]  r = dst after  dst.NAME = scalar     *)
(*  swzs  t set nm a=[dst, other]     r = dst after  dst.NAME = other.NAME *)
(*  cvec  n t parts at a=[args...]    r = vec<n,t>(args...)                *)
(*  cswz  n t set parts a             r = vec<n,t>(swizzle / scalar args)  *)
(*  cmat  kind C R C2 R2 t at a       r = mat<C,R,t>(...) column-major     *)
(*  cqua  kind t at a                 r = qua<t>(...) listed w,x,y,z       *)
(***************************************************************************)
EXTENDS GlmSwizzle, GlmCtor, TraceBase
VARIABLE l
vars == <<l>>

SameSeq(r, e) == Len(r) = Len(e) /\ \A i \in 1..Len(e) : r[i] = e[i]
IsLetters(nm) == Len(nm) \in 1..4

(* ---- swizzles ---- *)
SwzReadV(ev) ==
    LET idx == IdxOf(ev.set, ev.nm) src == ev.a[1]
    IN VBool(ev.set \in SetNames /\ IsLetters(ev.nm) /\ ValidIdx(Len(src), idx) /\ SameSeq(ev.r, Swz(idx, src)))

WriteOK(ev, idx, dst) == ev.set \in SetNames /\ IsLetters(ev.nm) /\ ValidIdx(Len(dst), idx) /\ Writable(idx)
SwzWriteV(ev) ==
    LET idx == IdxOf(ev.set, ev.nm) dst == ev.a[1] val == ev.a[2]
    IN VBool(WriteOK(ev, idx, dst) /\ Len(val) = Len(idx) /\ SameSeq(ev.r, SwzWrite(idx, dst, val)))
SwzFillV(ev) ==
    LET idx == IdxOf(ev.set, ev.nm) dst == ev.a[1]
    IN VBool(WriteOK(ev, idx, dst) /\ Len(ev.a[2]) = 1 /\ SameSeq(ev.r, SwzFill(idx, dst, ev.a[2][1])))
\* dst.NAME = other.NAME : the value assigned is the swizzle of the other vector
SwzSameV(ev) ==
    LET idx == IdxOf(ev.set, ev.nm) dst == ev.a[1] oth == ev.a[2]
    IN IF ~(WriteOK(ev, idx, dst) /\ Len(oth) = Len(dst)) THEN VBad
       ELSE IF SameSeq(ev.r, SwzWrite(idx, dst, Swz(idx, oth))) THEN VOk
       ELSE IF KD_SwizzleSameTypeAssign(ev.t, dst, oth, ev.r) THEN VKnown("KD-C17-swizzle-same-accessor-assign")
       ELSE VBad

(* ---- vector constructors ---- *)
PartsOK(parts) == Len(parts) \in 1..4 /\ \A i \in 1..Len(parts) : parts[i] \in PartKinds
CVecV(ev) ==
    IF ~(PartsOK(ev.parts) /\ ev.n \in 1..4) THEN VBad
    ELSE IF ~VecShapeOK(ev.n, ev.parts) THEN VBad
    ELSE VBool(/\ Len(ev.a) = Len(ev.parts) /\ Len(ev.at) = Len(ev.parts)
               /\ \A i \in 1..Len(ev.parts) : Len(ev.a[i]) = PartSize(ev.parts[i])
               /\ CtorOK(ev.t, VecSources(ev.n, ev.parts), ev.at, ev.a, ev.r))

\* constructor with swizzle operands: parts[i] = << >> for a scalar argument, the letters of the accessor otherwise
RECURSIVE SwzArgs(_, _, _, _)
SwzArgs(set, parts, a, i) ==
    IF i > Len(parts) THEN << >>
    ELSE (IF Len(parts[i]) = 0 THEN <<a[i][1]>> ELSE Swz(IdxOf(set, parts[i]), a[i])) \o SwzArgs(set, parts, a, i + 1)
CSwzV(ev) ==
    VBool(/\ Len(ev.a) = Len(ev.parts)
          /\ \A i \in 1..Len(ev.parts) : IF Len(ev.parts[i]) = 0 THEN Len(ev.a[i]) = 1 ELSE ValidIdx(Len(ev.a[i]), IdxOf(ev.set, ev.parts[i]))
          /\ Len(ev.r) = ev.n
          /\ SameSeq(ev.r, SwzArgs(ev.set, ev.parts, ev.a, 1)))

(* ---- matrices ---- *)
Dim(n) == n \in 2..4
CMatV(ev) ==
    IF ~(Dim(ev.C) /\ Dim(ev.R)) THEN VBad
    ELSE LET n == ev.C * ev.R IN
    CASE ev.kind = "diag" -> VBool(Len(ev.a) = 1 /\ Len(ev.a[1]) = 1 /\ Len(ev.at) = 1 /\ CtorOK(ev.t, MatDiagSources(ev.C, ev.R), ev.at, ev.a, ev.r))
      [] ev.kind = "scal" -> VBool(Len(ev.a) = n /\ Len(ev.at) = n /\ (\A i \in 1..n : Len(ev.a[i]) = 1)
                                   /\ CtorOK(ev.t, MatScalarSources(ev.C, ev.R), ev.at, ev.a, ev.r))
      [] ev.kind = "cols" -> VBool(Len(ev.a) = ev.C /\ Len(ev.at) = ev.C /\ (\A i \in 1..ev.C : Len(ev.a[i]) = ev.R)
                                   /\ CtorOK(ev.t, MatColSources(ev.C, ev.R), ev.at, ev.a, ev.r))
      [] ev.kind = "mat"  -> VBool(Dim(ev.C2) /\ Dim(ev.R2) /\ Len(ev.a) = 1 /\ Len(ev.at) = 1 /\ Len(ev.a[1]) = ev.C2 * ev.R2
                                   /\ CtorOK(ev.t, MatFromMatSources(ev.C, ev.R, ev.C2, ev.R2), ev.at, ev.a, ev.r))
      [] OTHER -> VBad

(* ---- quaternions ---- *)
QuaArgLens(kind) == CASE kind \in {"wxyz", "static_wxyz", "xyzw"} -> <<1, 1, 1, 1>> [] kind = "sv" -> <<1, 3>> [] kind = "conv" -> <<4>>
CQuaV(ev) ==
    IF ev.kind \notin {"wxyz", "static_wxyz", "xyzw", "sv", "conv"} THEN VBad
    ELSE LET lens == QuaArgLens(ev.kind)
             \* "at" carries one type per argument; CtorOK wants one per argument as well
         IN VBool(/\ Len(ev.a) = Len(lens) /\ Len(ev.at) = Len(lens)
                  /\ \A i \in 1..Len(lens) : Len(ev.a[i]) = lens[i]
                  /\ CtorOK(ev.t, QuaSources(ev.kind), ev.at, ev.a, ev.r))

Verdict(ev) ==
    CASE ev.op = "swz"  -> SwzReadV(ev)
      [] ev.op = "swzw" -> SwzWriteV(ev)
      [] ev.op = "swzf" -> SwzFillV(ev)
      [] ev.op = "swzs" -> SwzSameV(ev)
      [] ev.op = "cvec" -> CVecV(ev)
      [] ev.op = "cswz" -> CSwzV(ev)
      [] ev.op = "cmat" -> CMatV(ev)
      [] ev.op = "cqua" -> CQuaV(ev)
      [] OTHER -> VBad

Init == l = 1 /\ RegInit
Next == /\ l <= NTrace
        /\ LET ev == TraceLog[l] IN IF IsMarker(ev) THEN Bump(3) ELSE Record(l, Verdict(ev), ev.op)
        /\ l' = l + 1
Spec == Init /\ [][Next]_vars
Accepted == Summary
=============================================================================
