----------------------------- MODULE Trace_X04 ----------------------------
(* Trace specification for stage X04 (rotation-form extras, attached to C04).
   Every event is one GLM call on floating inputs logged as bit patterns (harness/x04.cpp).  The expected value is computed
   here, exactly, from those inputs and from the small integers the inputs were encoded from ("cs" / "hcs" = (cn, sn, d) with
   cos = cn/d, sin = sn/d; "axi" = integer axis and its integer length; multiples of an angle = powers on the rational circle),
   with the dyadic twins of GlmX04 / GlmQuat (proved equal to the rational definitions on the state space of MC_X04 / MC_C04).
   The observed result must lie within k * eps * scale of it; k per operation is derived in notes/X04-notes.md.
   Exact operations (extractMatrixRotation, quat_identity, the relational functions) are compared as bit patterns.  Stateless. *)
EXTENDS GlmX04, TraceBase
VARIABLE l
vars == <<l>>

Fm(ev) == TypeFmt(ev.t)
EpsD(ev) == Eps(Fm(ev))
Tol(ev, k) == DMulInt(EpsD(ev), k)
TolS(ev, k, scale) == DMul(DMulInt(EpsD(ev), k), scale)
Args(ev) == IF Has(ev, "a") THEN ev.a ELSE << >>
Arg(ev, i) == DSeqW(ev.a[i])
Res(ev) == DSeqW(ev.r)
ExtraKeys == {"axis", "angle", "ocs", "back", "lg", "oexp"}
FinArgs(ev) == \A i \in 1..Len(Args(ev)) : AllFinF(ev.a[i])
FinOut(ev) == (Has(ev, "r") => AllFinF(ev.r)) /\ \A k \in ExtraKeys \cap DOMAIN ev : AllFinF(ev[k])
NearOne(ev, x, k) == DLe(DAbs(DSub(x, DOne)), Tol(ev, k))
UnitQ(ev, q) == NearOne(ev, DqNorm2(q), 4)
UnitOr(ev, q, v) == IF UnitQ(ev, q) THEN v ELSE VSkip           \* laws stated for unit quaternions only
ScaleV(v) == DMax(DOne, DvSum1(v))
VB(b) == VBool(b)
Zeros(n) == [i \in 1..n |-> DZero]
Abs(n) == IF n < 0 THEN 0 - n ELSE n
CeilDiv(n, d) == (n + d - 1) \div d                             \* n >= 0, d > 0
Cs(ev) == DTriples(DIntSeq(ev.cs))
Hcs(ev) == DTriples(DIntSeq(ev.hcs))
Axi(ev) == DIntSeq(ev.axi)                                      \* <<x, y, z, L>>
AxV(ev) == LET a == Axi(ev) IN << a[1], a[2], a[3] >>
AxL(ev) == Axi(ev)[4]
AxiOK(ev) == DSign(AxL(ev)) > 0 /\ DEq(DvNorm2(AxV(ev)), DSq(AxL(ev)))
Pad4Zero(m4) == \A k \in {4, 8, 12, 13, 14, 15} : DIsZero(m4[k])
Pad4(m4) == Pad4Zero(m4) /\ DEq(m4[16], DOne)
Rows4Zero(m4) == \A k \in {4, 8, 12} : DIsZero(m4[k])           \* last row 0 0 0 . of an affine matrix
Aff4(m4) == Rows4Zero(m4) /\ DEq(m4[16], DOne)
MatArg(s) == IF Len(s) = 9 THEN s ELSE M4Top3(s)
\* (obs_i s - exps_i)^2 <= bound s^2
DSqDiffLeS(obs, exps, bound, s) == Len(obs) = Len(exps) /\ \A i \in 1..Len(exps) : DLe(DSq(DSub(DMul(obs[i], s), exps[i])), DMul(bound, DSq(s)))

\* ================================================================ gtx/matrix_interpolation
\* Rodrigues entries  c + (1-c) x x,  (1-c) x y +- s z  from cos / sin of the rounded angle (|a| <= pi (1 + 2|k|), half an ulp of the angle plus
\* one ulp of libm: <= (|a|/2 + 1) eps each) and the normalised axis (2.5 eps per component): < 24 eps for k = 0, 8 eps more per full turn
KRot(k) == 24 + 8 * Abs(k)
JAam(ev) == LET v == Arg(ev, 1) t == Cs(ev)[1] r == Res(ev) L == IF ev.len = 0 THEN DOne ELSE DI(ev.len)
                ok == DTripleOK(t) /\ (IF ev.len = 0 THEN NearOne(ev, DvNorm2(v), 4) ELSE DEq(DvNorm2(v), DSq(L))) IN
    IF ~ok THEN VBad ELSE VB(Pad4(r) /\ DMaxDiffLeS(M4Top3(r), DRotAxiss(t, v, L), Tol(ev, KRot(ev.k)), DMul(t[3], DSq(L))))

\* axisAngle(M): the returned pair must rebuild M -- through the specification's own Rodrigues formula on the decoded (cos, sin) of the
\* returned angle ("ocs") and through GLM's axisAngleMatrix (the logged "back").  e = the largest entry error, sin = sine of M's angle
\* (from the antisymmetric part: |a|^2 = 4 sin^2).  Accepted:  e <= 32 eps;  or inside the conditioning of the documented formula
\* (angle = acos((trace - 1) / 2), axis = normalised antisymmetric part: both lose a factor 1 / sin)  e |sin| <= 16 eps  with e <= 8 sqrt(eps);
\* or where the function snaps to the angle 0 / pi (all three antisymmetric entries below its threshold 100 eps)  e <= 128 eps.
\* Inside the conditioning bound but beyond 8 sqrt(eps): the known loss of the general branch just outside that (too small) threshold,
\* where the antisymmetric part is mostly rounding noise (next to a half turn the axis is then wrong by up to 1 / 100).
JAa(ev) == LET m == Arg(ev, 1) m3 == M4Top3(m) axis == DSeqW(ev.axis) o == DSeqW(ev.ocs) b3 == M4Top3(DSeqW(ev.back))
               E == DRotAxiss(<< o[1], o[2], DOne >>, axis, DOne)
               av == DAntiVec(m3) s4 == DvNorm2(av) e2 == DSq(EpsD(ev))
               near(x, k) == DMaxDiffLe(x, m3, Tol(ev, k))
               model(x) == DSqDiffLe(x, m3, s4, DMulInt(e2, 4 * 16 * 16))                   \* e^2 (4 sin^2) <= 4 (16 eps)^2
               cap(x) == DSqDiffLe(x, m3, DOne, Tol(ev, 64))                               \* e <= 8 sqrt(eps)
               snap == \A i \in 1..3 : DLt(DAbs(av[i]), Tol(ev, 100))
               ok(x) == near(x, 32) \/ (model(x) /\ cap(x)) \/ (snap /\ near(x, 128)) IN
    IF ~DMaxDiffLe(Dm3Mul(m3, Dm3T(m3)), Dm3Id, Tol(ev, 8)) THEN VSkip                    \* the documentation speaks of the rotation of a matrix
    ELSE IF ~(NearOne(ev, DvNorm2(axis), 8) /\ Pad4(DSeqW(ev.back))) THEN VBad
    ELSE IF ok(E) /\ ok(b3) THEN VOk
    ELSE IF (ok(E) \/ model(E)) /\ (ok(b3) \/ model(b3)) THEN VKnown("KD-X04-axisangle-near-half-turn")
    ELSE VBad

\* extractMatrixRotation: bit patterns
JEmr(ev) == LET m == ev.a[1] one == IF ev.t = "f32" THEN <<0, 16256>> ELSE <<0, 0, 0, 16368>> zero == IF ev.t = "f32" THEN <<0, 0>> ELSE <<0, 0, 0, 0>> IN
    VB(Len(ev.r) = 16 /\ \A k \in 1..16 : ev.r[k] = (IF k \in {1, 2, 3, 5, 6, 7, 9, 10, 11} THEN m[k] ELSE IF k = 16 THEN one ELSE zero))

\* interpolate(M1, M2, j/m) with  M2rot M1rot^T = R(n, m psi):  rotation part  R(n, j psi) M1rot,  translation  t1 + delta (t2 - t1)  (4 eps of the terms),
\* last row exact.  Rotation tolerance: (32 + 8 ceil|j/m|) eps (axisAngleMatrix 24, the product with M1rot 3, the rounding of angle * delta pi |j/m|);
\* the angle and axis of the difference rotation lose a factor 1 / sin(m psi) (see JAa):  + 16 max(1, |j/m|) eps / |sin(m psi)|, capped at 8 sqrt(eps);
\* where the difference snaps to 0 / pi (|sin(m psi)| <= 128 eps)  + 128 max(1, |j/m|) eps, near pi either way round.
\* m psi outside [0, pi]: the function goes the other (shorter) way: only the end points j = 0, m are judged.
RECURSIVE PrincipalDRec(_, _)
PrincipalDRec(t, a) == a = 0 \/ (DSign(DCPows(t, a)[2]) >= 0 /\ PrincipalDRec(t, a - 1))
\* a psi in [0, pi] for 0 <= psi <= pi: no partial multiple has a negative sine (a step below pi cannot jump over (pi, 2 pi)); a step of exactly pi only once
PrincipalD(t, a) == PrincipalDRec(t, a) /\ ((DIsZero(t[2]) /\ DSign(t[1]) < 0) => a <= 1)
JInterp(ev) ==
    LET m1 == Arg(ev, 1) m2 == Arg(ev, 2) dl == Arg(ev, 3)[1] r == Res(ev) t == Cs(ev)[1] av == AxV(ev) L == AxL(ev)
        m == ev.sm j == ev.sj R1 == M4Top3(m1) R2 == M4Top3(m2)
        pm == DCPows(t, m) sM == DMul(pm[3], DSq(L))
        inputOK == /\ DTripleOK(t) /\ AxiOK(ev) /\ m > 0 /\ Aff4(m1) /\ Aff4(m2)
                   /\ DMaxDiffLeS(Dm3Mul(R2, Dm3T(R1)), DRotAxiss(pm, av, L), Tol(ev, 8), sM)
                   /\ DLe(DAbs(DSub(DMul(dl, DI(m)), DI(j))), DMul(Tol(ev, 1), DI(Abs(j))))
        pj == DCPows(t, j) sJ == DMul(pj[3], DSq(L))
        Epos == Dm3Mul(DRotAxiss(pj, av, L), R1)
        Eneg == Dm3Mul(DRotAxiss(DCConjs(pj), av, L), R1)
        obs == M4Top3(r)
        JM == CeilDiv(Abs(j), m) JM1 == IF JM = 0 THEN 1 ELSE JM
        K0 == 32 + 8 * JM
        S == DAbs(pm[2]) D == pm[3]                                   \* |sin(m psi)| = S / D
        plain(E) == DMaxDiffLeS(obs, E, Tol(ev, K0), sJ)
        \* | obs sJ - E | S <= eps (K0 S + 16 JM1 D) sJ   and   (obs sJ - E)^2 <= 64 eps sJ^2
        model(E) == \A i \in 1..9 : DLe(DMul(DAbs(DSub(DMul(obs[i], sJ), E[i])), S), DMul(DMul(EpsD(ev), DAdd(DMulInt(S, K0), DMulInt(D, 16 * JM1))), sJ))
        cap(E) == DSqDiffLeS(obs, E, Tol(ev, 64), sJ)
        snapzone == DLe(S, DMul(Tol(ev, 128), D))
        snapped(E) == DMaxDiffLeS(obs, E, Tol(ev, K0 + 128 * JM1), sJ)
        nearpi == DSign(pm[1]) < 0
        t1 == M4Trans(m1) t2 == M4Trans(m2) ot == M4Trans(r)
        transOK == \A i \in 1..3 : DLe(DAbs(DSub(ot[i], DAdd(t1[i], DMul(dl, DSub(t2[i], t1[i]))))),
                                       TolS(ev, 4, DAdd(DAbs(t1[i]), DMul(DAbs(dl), DAdd(DAbs(t2[i]), DAbs(t1[i]))))))
    IN IF ~inputOK THEN VBad
       ELSE IF ~(transOK /\ Aff4(r)) THEN VBad
       ELSE IF ~PrincipalD(t, m) /\ j # 0 /\ j # m THEN VSkip
       ELSE IF plain(Epos) \/ (model(Epos) /\ cap(Epos)) THEN VOk
       ELSE IF snapzone /\ (snapped(Epos) \/ (nearpi /\ snapped(Eneg))) THEN VOk
       ELSE IF model(Epos) THEN VKnown("KD-X04-axisangle-near-half-turn")
       ELSE VBad

\* ================================================================ gtx/rotate_normalized_axis
\* M * R: entries of R within (|a| + 12) eps <= 16 eps (+ 8 per turn) as in KRot without the normalisation of the axis but with the rounding
\* of the unit axis argument; the 3-term dot product with a row of M adds 2.5 eps: per entry (16 + 8|k|) eps times the row sum of |M|
JRnaM(ev) == LET m == Arg(ev, 1) u == Arg(ev, 3) t == Cs(ev)[1] av == AxV(ev) L == AxL(ev) r == Res(ev)
                 ok == DTripleOK(t) /\ AxiOK(ev) /\ DMaxDiffLeS(u, av, Tol(ev, 1), L)
                 s == DMul(t[3], DSq(L)) E == Dm43Mul(m, DRotAxiss(t, av, L)) IN
    IF ~ok THEN VBad
    ELSE VB(/\ \A k \in 1..12 : DNearS(r[k], E[k], TolS(ev, 16 + 8 * Abs(ev.k), Dm4RowAbs3(m, ((k - 1) % 4) + 1)), s)
            /\ \A k \in 13..16 : DEq(r[k], m[k]))
\* q * (cos a/2, sin a/2 n): (12 + 8|k|) eps of sum |q_i|
JRnaQ(ev) == LET q == Arg(ev, 1) u == Arg(ev, 3) h == Hcs(ev)[1] av == AxV(ev) L == AxL(ev)
                 ok == DTripleOK(h) /\ AxiOK(ev) /\ DMaxDiffLeS(u, av, Tol(ev, 1), L) IN
    IF ~ok THEN VBad
    ELSE VB(DMaxDiffLeS(Res(ev), DqMul(q, DAngleAxiss(h, av, L)), TolS(ev, 12 + 8 * Abs(ev.k), ScaleV(q)), DMul(h[3], L)))

\* ================================================================ gtx/quaternion
\* Hamilton product of arbitrary quaternions: 4 products and 3 additions per component: 4 eps of sum |p_i| max |q_j|
JCross(ev) == LET p == Arg(ev, 1) q == Arg(ev, 2) IN VB(DMaxDiffLe(Res(ev), DqMul(p, q), TolS(ev, 4, DMul(DvSum1(p), DMaxAbs(q)))))
\* extractRealComponent: r <= 0 and r^2 = max(0, 1 - |v|^2): three products and three subtractions (<= 2 eps max(1, |v|^2)), the root (1 eps of r^2): 4 eps
JErc(ev) == LET q == Arg(ev, 1) r == Res(ev)[1] v2 == DvNorm2(DQVec(q)) t == DSub(DOne, v2) tgt == IF DSign(t) < 0 THEN DZero ELSE t IN
    VB(DSign(r) <= 0 /\ DLe(DAbs(DSub(DSq(r), tgt)), TolS(ev, 4, DMax(DOne, v2))))
JLength2(ev) == LET n == DqNorm2(Arg(ev, 1)) IN VB(DLe(DAbs(DSub(Res(ev)[1], n)), TolS(ev, 4, n)))
\* the wrappers toMat3 / toMat4 / toQuat and rotate(q, v): the judgements of Trace_C04 for mat3_cast / mat4_cast / quat_cast / q * v
JMat3(ev) == LET q == Arg(ev, 1) IN UnitOr(ev, q, VB(DMaxDiffLe(Res(ev), DqToMat3(q), Tol(ev, 16))))
JMat4(ev) == LET q == Arg(ev, 1) r == Res(ev) IN UnitOr(ev, q, VB(Pad4(r) /\ DMaxDiffLe(M4Top3(r), DqToMat3(q), Tol(ev, 16))))
JQuatCast(ev) == LET m == MatArg(Arg(ev, 1)) r == Res(ev) IN
    VB(/\ DMaxDiffLe(DqToMat3(r), m, Tol(ev, 32))
       /\ NearOne(ev, DqNorm2(r), 16)
       /\ (Has(ev, "g") => LET g == DIntSeq(ev.g) gq == << g[1], g[2], g[3], g[4] >> IN
              DMaxDiffLeS(r, gq, Tol(ev, 16), g[5]) \/ DMaxDiffLeS(r, DvNeg(gq), Tol(ev, 16), g[5])))
RotExp(q, v) == IF Len(v) = 4 THEN DqRotate(q, DV3(v)) \o << v[4] >> ELSE DqRotate(q, v)
JQV(ev) == LET q == Arg(ev, 1) v == Arg(ev, 2) IN UnitOr(ev, q, VB(DMaxDiffLe(Res(ev), RotExp(q, v), TolS(ev, 16, ScaleV(DV3(v))))))

\* ================================================================ exp / log / pow / sqrt
\* exp(ln(ew) + phi n): the three components phi n_i are rounded (eps/2 each), Angle = length (2 eps), cos / sin of it: (2.5 |phi| + 1) eps,
\* v = u / Angle 1 eps, product 1 eps:  (8 + 4 |phi|) eps with |phi| <= 4 + 7 |k|  ->  (24 + 28 |k|) eps (times e^w = ew)
JExp(ev) == LET t == Cs(ev)[1] av == AxV(ev) L == AxL(ev) r == Res(ev) K == 24 + 28 * Abs(ev.k) ew == DI(ev.ew)
                E == DAngleAxiss(t, av, L) s == DMul(t[3], L) IN
    IF ~(DTripleOK(t) /\ AxiOK(ev) /\ ev.ew >= 1) THEN VBad
    ELSE IF DMaxDiffLeS(r, DvScale(E, ew), TolS(ev, K, ew), s) THEN VOk
    ELSE IF ev.ew # 1 /\ DMaxDiffLeS(r, E, Tol(ev, K), s) THEN VKnown("KD-X04-exp-ignores-real-part")
    ELSE VBad
\* exp of a tiny pure quaternion (no trigonometry needed): | cos s - 1 | <= s^2 / 2, | sin s n_i - s n_i | <= s^2 |s n_i|
JExpSmall(ev) == LET p == Arg(ev, 1) r == Res(ev) s2 == DvNorm2(DQVec(p)) IN
    IF ~DIsZero(p[1]) \/ DLt(DPow2(-8), s2) THEN VSkip
    ELSE VB(/\ DLe(DAbs(DSub(r[1], DOne)), DAdd(s2, Tol(ev, 2)))
            /\ \A i \in 2..4 : DLe(DAbs(DSub(r[i], p[i])), DAdd(DMul(s2, DAbs(p[i])), Tol(ev, 2))))
\* log(sc (cos phi + n sin phi)) = ln sc + phi' n',  phi' in [0, pi]: real part through "oexp" = expl(r.w) (8 eps relative), the angle through
\* "ocs" = (cos, sin) of the length of the vector part (16 eps), the direction: parallel to n with the sign of sin phi
JLog(ev) == LET q == Arg(ev, 1) t == Cs(ev)[1] av == AxV(ev) L == AxL(ev) r == Res(ev) o == DSeqW(ev.ocs) oe == DSeqW(ev.oexp)[1] sc == DI(ev.sc)
                s == DMul(t[3], L) rv == DQVec(r) sgn == DSign(t[2])
                inputOK == DTripleOK(t) /\ AxiOK(ev) /\ ev.sc >= 1 /\ DMaxDiffLeS(q, DvScale(DAngleAxiss(t, av, L), sc), TolS(ev, 1, sc), s)
                tinysin == DLe(DAbs(t[2]), DMul(Tol(ev, 2), t[3])) IN
    IF ~inputOK THEN VBad
    ELSE VB(/\ DLe(DAbs(DSub(oe, sc)), TolS(ev, 8, sc))
            /\ DNearS(o[1], t[1], Tol(ev, 16), t[3]) /\ DNearS(o[2], DAbs(t[2]), Tol(ev, 16), t[3])
            /\ (sgn = 0 \/ tinysin \/ (DMaxDiffLe(DvCross(rv, av), Zeros(3), TolS(ev, 64, L)) /\ DSign(DvDot(rv, av)) * sgn >= 0)))
\* exp(log(q)) = q: 24 eps |q|  (log: 12 eps on the vector part, exp: 8 more).  GLM's exp drops e^w: for |q| = sc # 1 the result is q / sc (pinned)
JExpLog(ev) == LET q == Arg(ev, 1) r == Res(ev) sc == DI(ev.sc) n2 == DqNorm2(q) IN
    IF DIsZero(n2) THEN VSkip
    ELSE IF ~DLe(DAbs(DSub(n2, DSq(sc))), TolS(ev, 8, DSq(sc))) THEN VSkip
    ELSE IF DMaxDiffLe(r, q, TolS(ev, 24, sc)) THEN VOk
    ELSE IF ev.sc # 1 /\ DMaxDiffLe(DvScale(r, sc), q, TolS(ev, 24, sc)) THEN VKnown("KD-X04-exp-ignores-real-part")
    ELSE VBad

\* pow(2^e (cos(a psi) + n sin(a psi)), b / a) = 2^(e b / a) (cos(b psi) + n sin(b psi))  when |a| psi <= pi (principal value) or b / a is an integer.
\* Tolerance (24 + 8 ceil|y|) eps of the magnitude: the angle comes from acos where |w| <= cos(1/2) (condition <= 2.1) and from asin elsewhere
\* (condition <= 1.14): 4 eps; times |y| plus the rounding of the new angle; sin / sin and the power of the magnitude (|y - 1| 2.5 eps + 1 ulp).
\* Pinned defect: for w / |q| < -cos(1/2) the asin branch returns the power of (-w, v) = -conj(q); for the real negative quaternion and a
\* non-integer exponent it returns (NaN, 0, 0, 0).
CosHalfLo == DMk(FALSE, NFromNat(875), 0)                      \* 0.875 < cos(1/2) = 0.87758 < 0.88
CosHalfHi == DMk(FALSE, NFromNat(880), 0)
Thousand == DI(1000)
JPow(ev) ==
    LET q == Arg(ev, 1) y == Arg(ev, 2)[1] t == Cs(ev)[1] av == AxV(ev) L == AxL(ev) a == ev.pa b == ev.pb e == ev.pe aa == Abs(a)
        pa == DCPows(t, a) pb == DCPows(t, b)
        inputOK == /\ a # 0 /\ DTripleOK(t) /\ AxiOK(ev)
                   /\ DMaxDiffLeS(q, DvScale(DAngleAxiss(pa, av, L), DPow2(e)), TolS(ev, 1, DPow2(e)), DMul(pa[3], L))
                   /\ DLe(DAbs(DSub(DMul(y, DI(a)), DI(b))), DMul(Tol(ev, 1), DI(Abs(b))))
        yint == (Abs(b) % aa) = 0
        eyint == (Abs(e * b) % aa) = 0
        ey == (IF (e * b < 0) # (a < 0) THEN -1 ELSE 1) * (Abs(e * b) \div aa)
        scale == DPow2(ey)
        K == 24 + 8 * CeilDiv(Abs(b), aa)
        good == DMaxDiffLeS(Res(ev), DvScale(DAngleAxiss(pb, av, L), scale), TolS(ev, K, scale), DMul(pb[3], L))
        wnegSure == DLt(DMul(pa[1], Thousand), DNeg(DMul(pa[3], CosHalfHi)))
        wposSure == DLt(DNeg(DMul(pa[3], CosHalfLo)), DMul(pa[1], Thousand))
        twoyint == (Abs(2 * b) % aa) = 0
        twoy == (IF (b < 0) # (a < 0) THEN -1 ELSE 1) * (Abs(2 * b) \div aa)
        W == DPowWrongAngles(t, b, twoy)
        pinned == DMaxDiffLeS(Res(ev), DvScale(DAngleAxiss(W, av, L), scale), TolS(ev, K, scale), DMul(W[3], L))
        \* 2y not an integer (unit q only): the wrong value r is irrational, but r^|a| = (-conj(q))^(+-|b|) is not  ((-conj(q))^-1 = -q)
        genpin == LET base == IF (a < 0) # (b < 0) THEN DvNeg(q) ELSE DvNeg(DqConj(q)) IN
                  DMaxDiffLe(DqPowN(Res(ev), aa), DqPowN(base, Abs(b)), Tol(ev, K * aa + 8 * Abs(b)))
        realneg == DIsZero(pa[2]) /\ DSign(pa[1]) < 0
        nanpinned == ~FinWF(ev.r[1]) /\ \A i \in 2..4 : FinWF(ev.r[i]) /\ DIsZero(DOfW(ev.r[i]))
    IN IF ~inputOK THEN VBad
       ELSE IF ~eyint THEN VSkip
       ELSE IF realneg /\ ~yint THEN (IF nanpinned THEN VKnown("KD-X04-pow-negative-real-part") ELSE VBad)
       ELSE IF ~FinOut(ev) THEN VBad
       ELSE IF ~yint /\ ~PrincipalD(t, aa) THEN VSkip
       ELSE IF good THEN VOk
       ELSE IF wposSure THEN VBad
       ELSE IF ~wnegSure THEN VSkip
       ELSE IF twoyint /\ pinned THEN VKnown("KD-X04-pow-negative-real-part")
       ELSE IF ~twoyint /\ e # 0 THEN VSkip
       ELSE IF ~twoyint /\ genpin THEN VKnown("KD-X04-pow-negative-real-part")
       ELSE VBad
\* integer exponent, arbitrary q # 0: the Hamilton power.  |q|^|y| <= max(1, |q|^2)^ceil(|y|/2) = S; negative y: r |q|^(2|y|) against conj(q)^|y|
W2Lo == DMk(FALSE, NFromNat(76), 0)                            \* 0.76 < cos(1/2)^2 = 0.7702 < 0.78
W2Hi == DMk(FALSE, NFromNat(78), 0)
Hundred == DI(100)
JPowI(ev) ==
    LET q == Arg(ev, 1) y == ev.y ay == Abs(y) r == Res(ev) n2 == DqNorm2(q) w2 == DMul(DSq(q[1]), Hundred)
        S == DPowInt(DMax(DOne, n2), CeilDiv(ay, 2)) K == 24 + 8 * ay
        nn == IF y < 0 THEN DPowInt(n2, ay) ELSE DOne                            \* r is compared after multiplication by |q|^(2|y|)
        base == IF y < 0 THEN DqConj(q) ELSE q
        E == DqPowN(base, ay)
        sg == IF ay % 2 = 0 THEN DOne ELSE DI(-1)
        Ew == DvScale(DqPowN(DqConj(base), ay), sg)                                \* the power of -conj(q)
        near(X) == \A i \in 1..4 : DLe(DAbs(DSub(DMul(r[i], nn), X[i])), TolS(ev, K, S))
        wnegSure == DSign(q[1]) < 0 /\ DLt(DMul(n2, W2Hi), w2)
        wposSure == DSign(q[1]) >= 0 \/ DLt(w2, DMul(n2, W2Lo))
    IN IF DIsZero(n2) \/ ~DEq(Arg(ev, 2)[1], DI(y)) THEN VSkip
       ELSE IF ~FinOut(ev) THEN VBad
       ELSE IF near(E) THEN VOk
       ELSE IF wposSure THEN VBad
       ELSE IF ~wnegSure THEN VSkip
       ELSE IF near(Ew) THEN VKnown("KD-X04-pow-negative-real-part")
       ELSE VBad
\* sqrt by its defining property: r r = q (32 eps max(1, |q|)), principal root (w >= 0).  Pinned defect as for pow: r r = -conj(q)
JSqrtSq(ev) ==
    LET q == Arg(ev, 1) r == Res(ev) n2 == DqNorm2(q) w2 == DMul(DSq(q[1]), Hundred)
        rr == DqMul(r, r) tol == TolS(ev, 32, DMax(DOne, DvSum1(q)))
        wnegSure == DSign(q[1]) < 0 /\ DLt(DMul(n2, W2Hi), w2)
        wposSure == DSign(q[1]) >= 0 \/ DLt(w2, DMul(n2, W2Lo))
        realneg == DvIsZero(DQVec(q)) /\ DSign(q[1]) < 0
        nanpinned == ~FinWF(ev.r[1]) /\ \A i \in 2..4 : FinWF(ev.r[i]) /\ DIsZero(DOfW(ev.r[i]))
    IN IF DIsZero(n2) THEN VSkip
       ELSE IF realneg THEN (IF nanpinned THEN VKnown("KD-X04-pow-negative-real-part") ELSE VBad)
       ELSE IF ~FinOut(ev) THEN VBad
       ELSE IF DMaxDiffLe(rr, q, tol) /\ DLe(DNeg(Tol(ev, 8)), r[1]) THEN VOk
       ELSE IF wposSure THEN VBad
       ELSE IF ~wnegSure THEN VSkip
       ELSE IF DMaxDiffLe(rr, DvNeg(DqConj(q)), tol) THEN VKnown("KD-X04-pow-negative-real-part")
       ELSE VBad

\* ================================================================ gtc/quaternion: relational (bit patterns; result component i belongs to x[i], i.e. to the
\* storage order "o" of the build) and quatLookAt
JRel(ev, op) == LET f == Fm(ev) x == ev.a[1] y == ev.a[2] idx == IF ev.o = "wxyz" THEN <<1, 2, 3, 4>> ELSE <<2, 3, 4, 1>> IN
    VB(Len(ev.r) = 4 /\ \A i \in 1..4 : ev.r[i] = (IF RelOp(op, f, Fields(f, x[idx[i]]), Fields(f, y[idx[i]])) THEN <<1>> ELSE <<0>>))
\* the rotation whose third column is -direction (RH) / +direction (LH) and whose first column points along w = up x third column.
\* Domain: direction normalised (documented), up not parallel to it.
\* up x c3: 1.5 eps |up| per component, normalisation 2 eps, quat_cast and back 24 eps:  | c1 x w | <= 32 eps sum|up_i|  (the conditioning
\* 1 / |w| of the direction of w cancels in this residual),  third column 32 eps.
\* Pinned defect: the function clamps |w|^2 from below at the constant 0.00001 instead of normalising w, so for a short up vector or
\* one within 0.18 degrees of the direction the matrix handed to quat_cast is  [k w, k c3 x w, c3]  with k = 1 / sqrt(0.00001): not a rotation,
\* the result is not a unit quaternion.  Pinned through the relations of quat_cast (GlmQuat: 4 r_b^2 = 1 + f_b(M), 4 r_b r_j = combo_j(M), both
\* linear in M) for some b, with k bracketed to 2^-100.
GuardC(ev) == IF ev.t = "f32" THEN DOfW(<<50604, 14119>>) ELSE DOfW(<<26865, 35043, 63669, 16100>>)            \* 0.00001 rounded to the type
GuardK(ev) == DMk(FALSE, IF ev.t = "f32" THEN <<19434, 3286, 1296, 27178, 11472, 7749, 28905, 9>> ELSE <<21244, 6086, 19974, 16958, 10613, 7615, 28905, 9>>, -100)
ASSUME \A tt \in {"f32", "f64"} : LET e == [t |-> tt] k == GuardK(e) c == GuardC(e) IN
          /\ DLe(DMul(DSq(k), c), DOne) /\ DLe(DOne, DMul(DSq(DAdd(k, DPow2(-100))), c))                            \* k <= 1 / sqrt(c) <= k + 2^-100
          /\ IsRNEQ(TypeFmt(tt), Fields(TypeFmt(tt), IF tt = "f32" THEN <<50604, 14119>> ELSE <<26865, 35043, 63669, 16100>>), QF(1, 100000))
JLookAt(ev) == LET d == Arg(ev, 1) u == Arg(ev, 2) r == Res(ev) c3 == IF ev.lh = 1 THEN d ELSE DvNeg(d) w == DvCross(u, c3) w2 == DvNorm2(w)
                   M == DqToMat3(r) c1 == << M[1], M[2], M[3] >>
                   good == /\ NearOne(ev, DqNorm2(r), 16)
                           /\ DMaxDiffLe(<< M[7], M[8], M[9] >>, c3, Tol(ev, 32))
                           /\ DMaxDiffLe(DvCross(c1, w), Zeros(3), TolS(ev, 32, DvSum1(u)))
                           /\ DSign(DvDot(c1, w)) > 0
                   regular == DLe(DvNorm2(u), DMulInt(w2, 16)) /\ DLe(DPow2(-4), DvNorm2(u))            \* sin(up, dir) >= 1/4, |up| >= 1/4
                   clampedSure == DLt(w2, DMul(GuardC(ev), DSub(DOne, DPow2(-16))))
                   cw == DvCross(c3, w) K == GuardK(ev)
                   Mw == << w[1], w[2], w[3], cw[1], cw[2], cw[3], DZero, DZero, DZero >>
                   Mc == << DZero, DZero, DZero, DZero, DZero, DZero, c3[1], c3[2], c3[3] >>
                   tolc == TolS(ev, 64, DAdd(DOne, DMul(K, DvSum1(u))))
                   rel(b) == /\ DSign(r[b]) > 0
                             /\ DLe(DAbs(DSub(DSub(DSub(DMulInt(DSq(r[b]), 4), DOne), DFour(Mc)[b]), DMul(K, DFour(Mw)[b]))), tolc)
                             /\ \A jx \in (1..4) \ {b} : DLe(DAbs(DSub(DSub(DMulInt(DMul(r[b], r[jx]), 4), DCombos(Mc, b)[jx]), DMul(K, DCombos(Mw, b)[jx]))), tolc) IN
    IF ~NearOne(ev, DvNorm2(d), 4) \/ DvIsZero(w) THEN VSkip
    ELSE IF good THEN VOk
    ELSE IF regular THEN VBad
    ELSE IF ~clampedSure THEN VSkip
    ELSE IF \E b \in 1..4 : rel(b) THEN VKnown("KD-X04-lookat-clamped-right")
    ELSE VBad

\* ================================================================ dispatch
Judge(ev) ==
    LET op == ev.op IN
    CASE op = "aam" -> JAam(ev)
      [] op = "aa" -> JAa(ev)
      [] op = "interp" -> JInterp(ev)
      [] op = "rnaM" -> JRnaM(ev)
      [] op = "rnaQ" -> JRnaQ(ev)
      [] op = "qcross" -> JCross(ev)
      [] op = "erc" -> JErc(ev)
      [] op = "length2" -> JLength2(ev)
      [] op = "toMat3" -> JMat3(ev)
      [] op = "toMat4" -> JMat4(ev)
      [] op \in {"toQuat3", "toQuat4"} -> JQuatCast(ev)
      [] op \in {"grot3", "grot4"} -> JQV(ev)
      [] op = "qid" -> VB(DvEq(Res(ev), DQId))
      [] op = "qexp" -> JExp(ev)
      [] op = "qexp_small" -> JExpSmall(ev)
      [] op = "qlog" -> JLog(ev)
      [] op = "explog" -> JExpLog(ev)
      [] op \in {"lookAt", "lookAtRH", "lookAtLH"} -> JLookAt(ev)
      [] OTHER -> VBad

\* non-finite arguments are outside the domain; a non-finite result for finite arguments is wrong (the pow family pins one such case itself)
Verdict(ev) ==
    LET op == ev.op IN
    IF op = "qlt" THEN JRel(ev, "lt") ELSE IF op = "qle" THEN JRel(ev, "le") ELSE IF op = "qgt" THEN JRel(ev, "gt") ELSE IF op = "qge" THEN JRel(ev, "ge")
    ELSE IF op = "emr" THEN JEmr(ev)
    ELSE IF ~FinArgs(ev) THEN VSkip
    ELSE IF op \in {"qpow", "qsqrt"} THEN JPow(ev)
    ELSE IF op = "qpowi" THEN JPowI(ev)
    ELSE IF op = "qsqrt_sq" THEN JSqrtSq(ev)
    ELSE IF ~FinOut(ev) THEN VBad
    ELSE Judge(ev)

Init == l = 1 /\ RegInit
Next == /\ l <= NTrace
        /\ LET ev == TraceLog[l] IN IF IsMarker(ev) THEN Bump(3) ELSE Record(l, Verdict(ev), ev.op)
        /\ l' = l + 1
Spec == Init /\ [][Next]_vars
Accepted == Summary
=============================================================================
