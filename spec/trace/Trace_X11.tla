----------------------------- MODULE Trace_X11 ----------------------------
(* Trace specification of stage X11 (scalar-function extras of C11): every event of harness/x11.cpp is judged against
   GlmX11.tla.  Verdict(ev) in VOk / VSkip / VBad / VKnown(id).  Tolerances: see GlmX11.tla and notes/X11-notes.md. *)
EXTENDS GlmX11, TraceBase
VARIABLE l
vars == <<l>>

Fm(ev) == TypeFmt(ev.t)
Fl(f, w) == Fields(f, w)
Vl(f, w) == Val(f, Fields(f, w))
Fin(f, w) == IsFinite(f, Fields(f, w))
Tiny(f) == DPow2(FEmin(f) - f.mb)
\* finite and zero or within 2^-R .. 2^R
ModR(f, w, R) == LET x == Fields(f, w) IN IsFinite(f, x) /\ (IsZero(f, x) \/ (x.e <= FBias(f) + R /\ x.e + R >= FBias(f)))
Mod(f, w) == ModR(f, w, 24)
RECURSIVE VAllFrom(_, _)
VAllFrom(s, i) == IF i > Len(s) THEN VOk ELSE VAnd(s[i], VAllFrom(s, i + 1))
VAll(s) == VAllFrom(s, 1)
IntOf(w, t) == WToZ(TypeW(t), TypeSigned(t), WFromLimbs(w))
\* | r * den - v | <= K * (eps * S + tiny * den)
\* (the first disjunct decides almost always; adding the 2^-1074 of binary64 costs thousand-bit alignments, so it is only tried second)
\* (e and diff are bound through singleton sets so that TLC evaluates them once)
ConfE(f, rw, e) == \E diff \in {DAbs(DSub(XI(Vl(f, rw), e.den), e.v))} :
                      DLe(diff, XI(DMul(Eps(f), e.S), e.K)) \/ DLe(diff, XI(DAdd(DMul(Eps(f), e.S), XI(Tiny(f), e.den)), e.K))
ConfD(f, rw, e0) == Fin(f, rw) /\ \E e \in {e0} : ConfE(f, rw, e)
AbsV(f, w) == DAbs(Vl(f, w))
SignBit(f, w) == Fields(f, w).s

----------------------------------------------------------------------------
Spline(ev) ==
    LET f == Fm(ev) L == Len(ev.r) sw == ev.a[5][1] IN
    IF ~Mod(f, sw) \/ \E j \in 1..4 : \E c \in 1..L : ~Mod(f, ev.a[j][c]) THEN VSkip
    ELSE \* (the weights are bound through singleton sets: TLC evaluates them once, instead of once per use under the quantifier)
         VBool(\E W \in {XSplineW(ev.fn, Vl(f, sw))} : \E A \in {XSplineA(ev.fn, Vl(f, sw))} :
               \A c \in 1..L : \E v \in {[j \in 1..4 |-> Vl(f, ev.a[j][c])]} : ConfD(f, ev.r[c], XER(XDot(W, v), XSplineDen(ev.fn), XDotAbs(A, v), XSplineK(ev.fn))))

Ease(ev) ==
    LET f == Fm(ev) aw == ev.a[1][1] rw == ev.r[1] IN
    IF ~Fin(f, aw) THEN VSkip
    ELSE LET a == Vl(f, aw) IN
    IF a.neg \/ DLt(XOne, a) THEN VSkip                                       \* "All functions take a parameter x in the range [0.0,1.0]"
    ELSE IF ~DIsZero(a) /\ DLt(a, DPow2(-160)) THEN VSkip                     \* (exact arithmetic on 1 - 2^-1000 is too expensive)
    ELSE IF ev.fn \in XEasePoly THEN
        LET two == ev.fn \in {"backEaseIn2", "backEaseOut2", "backEaseInOut2"} IN
        IF two /\ ~Mod(f, ev.a[2][1]) THEN VSkip
        ELSE LET on == IF two THEN Vl(f, ev.a[2][1]) ELSE DZero IN
             VBool(\E e \in XEase(ev.fn, a, on, 1, XI(Eps(f), 64)) : ConfD(f, rw, e))
    ELSE IF ev.fn \in XEasePointFns THEN
        LET S == XEasePoint(ev.fn, a) IN
        IF S = {} THEN VSkip ELSE VBool(Fin(f, rw) /\ \E t \in S : DLe(DSub(t.lo, XI(Eps(f), t.K)), Vl(f, rw)) /\ DLe(Vl(f, rw), DAdd(t.hi, XI(Eps(f), t.K))))
    ELSE IF ev.fn \in {"circularEaseIn", "circularEaseOut", "circularEaseInOut"} THEN
        IF ~Fin(f, rw) THEN VBad
        ELSE LET c == XCircular(ev.fn, a, Vl(f, rw)) tol == XI(DMul(Eps(f), IF c.rel THEN c.t ELSE XOne), c.K) diff == DAbs(DSub(XPow(c.w, 2), c.t)) IN
             VBool(DLe(DNeg(XI(Eps(f), c.K)), c.w) /\ (DLe(diff, tol) \/ DLe(diff, DAdd(tol, Tiny(f)))))
    ELSE VBad

\* the monomials a^n are monotone in floating point too (each rounding is monotone): a1 <= a2 => r1 <= r2
EaseMono(ev) ==
    LET f == Fm(ev) IN
    IF ~(Fin(f, ev.a[1][1]) /\ Fin(f, ev.a[2][1])) \/ ~DLe(Vl(f, ev.a[1][1]), Vl(f, ev.a[2][1])) THEN VSkip
    ELSE VBool(Fin(f, ev.r[1]) /\ Fin(f, ev.r[2]) /\ DLe(Vl(f, ev.r[1]), Vl(f, ev.r[2])))

RECURSIVE ZPow(_, _)
ZPow(z, n) == IF n = 0 THEN ZFromInt(1) ELSE ZMul(z, ZPow(z, n - 1))
PowOp(ev) ==
    LET n == ev.n x == ev.a[1] IN
    IF TypeIsInt(ev.t) THEN
        VAll([c \in 1..Len(x) |-> LET z == ZPow(IntOf(x[c], ev.t), n) IN
                                  IF ~ZInRange(TypeW(ev.t), TypeSigned(ev.t), z) THEN VSkip ELSE VBool(ZEq(IntOf(ev.r[c], ev.t), z))])
    ELSE LET f == Fm(ev) IN
        VAll([c \in 1..Len(x) |-> IF ~Mod(f, x[c]) THEN VSkip
                                  ELSE LET v == Vl(f, x[c]) IN VBool(ConfD(f, ev.r[c], XER(XPow(v, n), 1, XPow(DAbs(v), n), n - 1)))])

\* x * (1 - a) + y * a: 1 - a, two products, one sum
Lerp(ev) ==
    LET f == Fm(ev) L == Len(ev.r) aw(c) == ev.a[3][IF Len(ev.a[3]) = 1 THEN 1 ELSE c] IN
    VAll([c \in 1..L |-> IF ~(Mod(f, ev.a[1][c]) /\ Mod(f, ev.a[2][c]) /\ Mod(f, aw(c))) THEN VSkip
                         ELSE LET x == Vl(f, ev.a[1][c]) y == Vl(f, ev.a[2][c]) a == Vl(f, aw(c)) na == DSub(XOne, a) IN
                              VBool(ConfD(f, ev.r[c], XER(DAdd(DMul(x, na), DMul(y, a)), 1, DAdd(DMul(DAbs(x), DAbs(na)), DMul(DAbs(y), DAbs(a))), 4)))])

\* clamp(x, 0, 1): one of x, 0, 1 -- bit-exactly x inside (0, 1)
Saturate(ev) ==
    LET f == Fm(ev) IN
    VAll([c \in 1..Len(ev.r) |-> LET x == Fl(f, ev.a[1][c]) r == Fl(f, ev.r[c]) IN
            IF IsNaN(f, x) THEN VSkip
            ELSE IF IsZero(f, x) \/ x.s = 1 THEN VBool(IsZero(f, r))
            ELSE IF IsInf(f, x) \/ DLe(XOne, Val(f, x)) THEN VBool(r = FOne(f))
            ELSE VBool(r = x)])

IsFiniteOp(ev) ==
    IF TypeIsInt(ev.t) THEN VBool(\A c \in 1..Len(ev.r) : ev.r[c] = <<1>>)
    ELSE LET f == Fm(ev) IN VBool(\A c \in 1..Len(ev.r) : (ev.r[c] = <<1>>) = Fin(f, ev.a[1][c]) /\ ev.r[c] \in {<<0>>, <<1>>})

\* atan2(y, x): "an angle whose tangent is y/x", quadrant from the signs, range [-pi, pi]; libm accuracy 1 ulp => 2 eps relative
QuarterPiLo == SDivI(XHalfPiLo, 2)
QuarterPiHi == SDivI(XHalfPiHi, 2)
AtanEncl(q) ==        \* enclosure of atan(q), q > 0 a quotient of dyadics
    LET e8 == SI(1, 8) IN
    IF SLe(q, e8) THEN <<XAtanLo(q), XAtanHi(q)>>
    ELSE IF SLe(SI(8, 1), q) THEN LET y == SInv(q) IN <<SSub(XHalfPiLo, XAtanHi(y)), SSub(XHalfPiHi, XAtanLo(y))>>
    ELSE IF SEq(q, SOne) THEN <<QuarterPiLo, QuarterPiHi>>
    ELSE IF SLt(q, SOne) THEN <<XAtanLo(e8), QuarterPiHi>>
    ELSE <<QuarterPiLo, SSub(XHalfPiHi, XAtanLo(e8))>>
Atan2C(f, yw, xw, rw) ==
    LET y == Fl(f, yw) x == Fl(f, xw) r == Fl(f, rw) IN
    IF ~ModR(f, yw, 60) \/ ~ModR(f, xw, 60) \/ (IsZero(f, y) /\ IsZero(f, x)) THEN VSkip
    ELSE IF ~IsFinite(f, r) THEN VBad
    ELSE LET rq == DAbs(Val(f, r)) IN
         IF IsZero(f, y) THEN (IF x.s = 0 THEN VBool(IsZero(f, r)) ELSE VBool(XInRel(f, rq, XPiLo, XPiHi, 2)))
         ELSE IF IsZero(f, x) THEN VBool(r.s = y.s /\ XInRel(f, rq, XHalfPiLo, XHalfPiHi, 2))
         ELSE LET q == SMk(DAbs(Val(f, y)), DAbs(Val(f, x))) en == AtanEncl(q)
                  lo == IF x.s = 0 THEN en[1] ELSE SSub(XPiLo, en[2]) hi == IF x.s = 0 THEN en[2] ELSE SSub(XPiHi, en[1])
              IN VBool(r.s = y.s /\ XInRel(f, rq, lo, hi, 2))
Atan2(ev) == LET f == Fm(ev) IN VAll([c \in 1..Len(ev.r) |-> Atan2C(f, ev.a[1][c], ev.a[2][c], ev.r[c])])

\* gtx/scalar_multiplication: s * v, v * s = v * float(s) (conversion, product: K = 2); v / s = v * (1.0f / float(s)) (K = 3)
ScalMul(ev) ==
    LET f == F32
        sIsInt == TypeIsInt(ev.ts)
        s == IF sIsInt THEN DFromZ(IntOf(ev.s[1], ev.ts)) ELSE Vl(F64, ev.s[1])
        sOK == IF sIsInt THEN NBitLen(s.m) <= 24 ELSE ModR(F64, ev.s[1], 24)
    IN IF ~sOK THEN VSkip ELSE
       VAll([c \in 1..Len(ev.r) |->
            IF ~Mod(f, ev.a[1][c]) THEN VSkip
            ELSE LET v == Vl(f, ev.a[1][c]) IN
                 IF ev.k = "div_vs" THEN (IF DIsZero(s) THEN VSkip
                                          ELSE VBool(Fin(f, ev.r[c]) /\ LET diff == DAbs(DSub(DMul(Vl(f, ev.r[c]), s), v)) IN
                                                      DLe(diff, XI(DMul(Eps(f), DAbs(v)), 3)) \/ DLe(diff, XI(DAdd(DMul(Eps(f), DAbs(v)), DMul(Tiny(f), DAbs(s))), 3))))
                 ELSE VBool(ConfD(f, ev.r[c], XER(DMul(v, s), 1, DAbs(DMul(v, s)), 2)))])

----------------------------------------------------------------------------
(* selection *)
KeyOrd(tk, w) == IF TypeIsInt(tk) THEN IntOf(w, tk) ELSE OrdC(TypeFmt(tk), Fields(TypeFmt(tk), w))
KeyNaN(tk, w) == ~TypeIsInt(tk) /\ IsNaN(TypeFmt(tk), Fields(TypeFmt(tk), w))
\* conversion of a value word between the value type and the key type (C++ conversions: float -> int truncates, int -> float rounds)
Conv(from, to, w) ==
    IF from = to THEN w
    ELSE IF TypeIsInt(from) THEN Pattern(TypeFmt(to), RoundD(TypeFmt(to), DFromZ(IntOf(w, from)), 0))
    ELSE IF TypeIsInt(to) THEN WToLimbs(WFromZ(TypeW(to), TruncZ(Vl(TypeFmt(from), w))), TypeW(to))
    ELSE w
Assoc(ev) ==
    LET n == ev.n lk == ev.lk L == Len(ev.r) isMin == ev.op = "assocMin"
        key(j, c) == ev.k[(j - 1) * lk + (IF lk = 1 THEN 1 ELSE c)]
        valw(j, c) == ev.a[j][IF Len(ev.a[j]) = 1 THEN 1 ELSE c]
        cand(c) == {valw(j, c) : j \in XBestJ([j \in 1..n |-> KeyOrd(ev.tk, key(j, c))], isMin)}
        nan(c) == \E j \in 1..n : KeyNaN(ev.tk, key(j, c))
        ok(c) == ev.tr = ev.t /\ ev.r[c] \in cand(c)
        \* scalar keys + vector values: declared to return vec<L, T> (the KEY type); vector keys + scalar values: computed in a vec<L, T>
        kdSV == isMin = FALSE /\ ev.form = "sv" /\ n \in {2, 3} /\ ev.tr = ev.tk /\ ev.tk # ev.t
        kdVS == isMin = FALSE /\ ev.form = "vs" /\ n \in {2, 3} /\ ev.tr = ev.t /\ ev.tk # ev.t
        kd(c) == \/ kdSV /\ ev.r[c] \in {Conv(ev.t, ev.tk, w) : w \in cand(c)}
                 \/ kdVS /\ ev.r[c] \in {Conv(ev.tk, ev.t, Conv(ev.t, ev.tk, w)) : w \in cand(c)}
        live == {c \in 1..L : ~nan(c)}
    IN IF live = {} THEN VSkip
       ELSE IF \A c \in live : ok(c) THEN VOk
       ELSE IF \A c \in live : ok(c) \/ kd(c) THEN VKnown(IF kdSV THEN "KD-X11-assocmax-scalarkey-returns-keytype" ELSE "KD-X11-assocmax-veckey-computes-in-keytype")
       ELSE VBad

MinMax(ev) ==
    LET n == Len(ev.a) isMin == ev.op = "min" IN
    IF TypeIsInt(ev.t) THEN
        VBool(\A c \in 1..Len(ev.r) : LET o == [j \in 1..n |-> IntOf(ev.a[j][c], ev.t)] IN \E j \in XBestJ(o, isMin) : ev.r[c] = ev.a[j][c])
    ELSE LET f == Fm(ev) IN
        VAll([c \in 1..Len(ev.r) |-> LET S == {Fl(f, ev.a[j][c]) : j \in 1..n} IN
                IF \E x \in S : IsNaN(f, x) THEN VSkip ELSE VBool(Fl(f, ev.r[c]) \in (IF isMin THEN MinSet(f, S) ELSE MaxSet(f, S)))])
\* NaN-aware: the extreme of the non-NaN operands (bit-exactly one of them), NaN only when every operand is NaN
FMinMax(ev) ==
    LET n == Len(ev.a) f == Fm(ev) IN
    VBool(\A c \in 1..Len(ev.r) : LET S == {Fl(f, ev.a[j][c]) : j \in 1..n} NN == {x \in S : ~IsNaN(f, x)} r == Fl(f, ev.r[c]) IN
            IF NN = {} THEN IsNaN(f, r) ELSE r \in (IF ev.op = "fmin" THEN MinSet(f, NN) ELSE MaxSet(f, NN)))

----------------------------------------------------------------------------
(* log(x, base) on exact powers x = base^k: log within 1 ulp twice, one division: 2.5 eps, K = 5 *)
LogExpected(f, xw, bw, bn, bd, k) ==     \* "ok" when x = (bn/bd)^k and base = bn/bd exactly
    LET ak == IF k < 0 THEN -k ELSE k x == Vl(f, xw) b == Vl(f, bw) IN
    /\ DEq(XI(b, bd), DFromInt(bn))
    /\ IF k >= 0 THEN DEq(DMul(x, XPow(DFromInt(bd), ak)), XPow(DFromInt(bn), ak)) ELSE DEq(DMul(x, XPow(DFromInt(bn), ak)), XPow(DFromInt(bd), ak))
LogNear(f, rw, k) == Fin(f, rw) /\ (IF k = 0 THEN IsZero(f, Fl(f, rw)) ELSE DLe(DAbs(DSub(Vl(f, rw), DFromInt(k))), XI(Eps(f), 5 * (IF k < 0 THEN -k ELSE k))))
LogB(ev) ==
    LET f == Fm(ev) IN
    IF ~(Fin(f, ev.a[1][1]) /\ Fin(f, ev.a[2][1])) \/ ev.bn = ev.bd \/ ~LogExpected(f, ev.a[1][1], ev.a[2][1], ev.bn, ev.bd, ev.k) THEN VSkip
    ELSE IF ev.op = "logb" THEN VBool(LogNear(f, ev.r[1], ev.k))
    ELSE \* vector form on (x, base, 1) with base (b, b, b): (k, 1, 0)
         VBool(DEq(Vl(f, ev.a[1][2]), Vl(f, ev.a[2][1])) /\ DEq(Vl(f, ev.a[1][3]), XOne) /\ \A c \in 1..3 : DEq(Vl(f, ev.a[2][c]), Vl(f, ev.a[2][1]))
               /\ LogNear(f, ev.r[1], ev.k) /\ LogNear(f, ev.r[2], 1) /\ LogNear(f, ev.r[3], 0))

----------------------------------------------------------------------------
(* gtc/reciprocal *)
AbsI(k) == IF k < 0 THEN -k ELSE k
\* pi/2 as the code writes it: the double 3.14159.../2.0 converted to the type
HalfPi64 == RoundQ(F64, SToQ(XHalfPiLo), 0)
HalfPiT(f) == IF f = F64 THEN HalfPi64 ELSE RoundD(f, Val(F64, HalfPi64), 0)
NegSign(f, w) == Fields(f, w).s = 1

RecipPyth(ev) ==
    LET f == Fm(ev) cn == ev.cn sn == ev.sn d == ev.d rw == ev.r[1] IN
    IF cn * cn + sn * sn # d * d THEN VBad
    ELSE IF ~Fin(f, rw) THEN (IF (ev.fn = "sec" /\ cn = 0) \/ (ev.fn # "sec" /\ sn = 0) THEN VSkip ELSE VBad)
    ELSE LET r == Vl(f, rw) e == Eps(f) IN
    CASE ev.fn = "sec" -> IF cn = 0 THEN VSkip       \* pole
                          ELSE VBool(DLe(XI(DAbs(DSub(XI(r, cn), DFromInt(d))), AbsI(cn)), XI(e, d * (2 * AbsI(cn) + 4 * AbsI(sn)))))
      [] ev.fn = "csc" -> IF sn = 0 THEN VSkip
                          ELSE VBool(DLe(XI(DAbs(DSub(XI(r, sn), DFromInt(d))), AbsI(sn)), XI(e, d * (2 * AbsI(sn) + 4 * AbsI(cn)))))
      [] ev.fn = "cot" -> IF sn = 0 THEN VSkip
                          ELSE VBool(DLe(DAbs(DSub(XI(r, sn * sn), DFromInt(cn * sn))), XI(e, 2 * AbsI(cn * sn) + 4 * d * d)))

\* the implementation formula of cot, tan(pi/2 - x) with pi/2 rounded to the type: an exact description of what is computed
CotViaHalfPi(f, xw, rw) ==
    LET y == FSub(f, HalfPiT(f), Fl(f, xw))
        lo == SSub(XHalfPiLo, SD(Val(f, y))) hi == SSub(XHalfPiHi, SD(Val(f, y)))          \* pi/2 - y, the angle whose cotangent tan(y) is
        pos == SSign(lo) > 0 neg == SSign(hi) < 0
        bl == IF pos THEN lo ELSE SNeg(hi) bu == IF pos THEN hi ELSE SNeg(lo)
    IN /\ IsFinite(f, y) /\ (pos \/ neg) /\ SLe(bu, SI(1, 8))
       /\ NegSign(f, rw) = neg
       /\ XInRelInv(f, AbsV(f, rw), XTanLo(bl), XTanHi(bu), 3)
\* the implementation formula of acot, pi/2 - atan(x), for large x: absolute accuracy of pi/2 instead of relative accuracy of 1/x
AcotViaHalfPi(f, y, rw) ==
    LET h == SD(Val(f, HalfPiT(f))) IN
    XInAbs(f, Vl(f, rw), SAdd(SSub(h, XHalfPiHi), XAtanLo(y)), SAdd(SSub(h, XHalfPiLo), XAtanHi(y)), 2, XOne)

RecipSmall(ev) ==
    LET f == Fm(ev) xw == ev.a[1][1] rw == ev.r[1] IN
    IF ~Fin(f, xw) \/ IsZero(f, Fl(f, xw)) \/ ~DLe(AbsV(f, xw), DPow2(-3)) THEN VSkip
    ELSE IF ~Fin(f, rw) THEN VBad
    ELSE LET ax == SD(AbsV(f, xw)) ar == AbsV(f, rw) neg == NegSign(f, xw) IN
    CASE ev.fn = "sec" -> VBool(~NegSign(f, rw) /\ XInRelInv(f, ar, XCosLo(ax), XCosHi(ax), 3))
      [] ev.fn = "csc" -> VBool(NegSign(f, rw) = neg /\ XInRelInv(f, ar, XSinLo(ax), XSinHi(ax), 3))
      [] ev.fn = "cot" -> IF NegSign(f, rw) = neg /\ XInRelInv(f, ar, XTanLo(ax), XTanHi(ax), 3) THEN VOk
                          ELSE IF CotViaHalfPi(f, xw, rw) THEN VKnown("KD-X11-cot-small-angle-cancellation") ELSE VBad
      [] ev.fn = "acot" -> \* pi/2 - atan(x) in (0, pi), or the other branch convention atan(1/x) in (-pi/2, pi/2]
            LET lo1 == IF neg THEN SAdd(XHalfPiLo, XAtanLo(ax)) ELSE SSub(XHalfPiLo, XAtanHi(ax))
                hi1 == IF neg THEN SAdd(XHalfPiHi, XAtanHi(ax)) ELSE SSub(XHalfPiHi, XAtanLo(ax))
            IN VBool((~NegSign(f, rw) /\ XInRel(f, ar, lo1, hi1, 3))
                     \/ (neg /\ NegSign(f, rw) /\ XInRel(f, ar, SSub(XHalfPiLo, XAtanHi(ax)), SSub(XHalfPiHi, XAtanLo(ax)), 3)))

PiFrac(n, m) == <<SDivI(SMulI(XPiLo, n), m), SDivI(SMulI(XPiHi, n), m)>>
RecipPoint(ev) ==
    LET f == Fm(ev) xw == ev.a[1][1] rw == ev.r[1] IN
    IF ~Fin(f, xw) THEN VSkip ELSE IF ~Fin(f, rw) THEN VBad ELSE
    LET x == Vl(f, xw) ar == AbsV(f, rw) rneg == NegSign(f, rw)
        is(k) == DEq(x, DFromInt(k))
        near(p, neg) == (rneg = neg \/ IsZero(f, Fl(f, rw))) /\ XInRel(f, ar, p[1], p[2], 3)
    IN CASE ev.fn = "asec" -> IF is(1) THEN VBool(IsZero(f, Fl(f, rw))) ELSE IF is(-1) THEN VBool(near(PiFrac(1, 1), FALSE))
                              ELSE IF is(2) THEN VBool(near(PiFrac(1, 3), FALSE)) ELSE IF is(-2) THEN VBool(near(PiFrac(2, 3), FALSE)) ELSE VSkip
         [] ev.fn = "acsc" -> IF is(1) THEN VBool(near(PiFrac(1, 2), FALSE)) ELSE IF is(-1) THEN VBool(near(PiFrac(1, 2), TRUE))
                              ELSE IF is(2) THEN VBool(near(PiFrac(1, 6), FALSE)) ELSE IF is(-2) THEN VBool(near(PiFrac(1, 6), TRUE)) ELSE VSkip
         [] ev.fn = "acot" -> IF is(0) THEN VBool(near(PiFrac(1, 2), FALSE)) ELSE IF is(1) THEN VBool(near(PiFrac(1, 4), FALSE))
                              ELSE IF is(-1) THEN VBool(near(PiFrac(3, 4), FALSE) \/ near(PiFrac(1, 4), TRUE)) ELSE VSkip

RecipBig(ev) ==
    LET f == Fm(ev) xw == ev.a[1][1] rw == ev.r[1] IN
    IF ~Fin(f, xw) \/ ~DLe(DFromInt(8), AbsV(f, xw)) THEN VSkip ELSE IF ~Fin(f, rw) THEN VBad ELSE
    LET y == SInv(SD(AbsV(f, xw))) ar == AbsV(f, rw) neg == NegSign(f, xw) rneg == NegSign(f, rw) IN
    CASE ev.fn = "acsc" -> VBool(rneg = neg /\ XInRel(f, ar, XAsinLo(y), XAsinHi(y), 3))
      [] ev.fn = "asec" -> VBool(~rneg /\ (IF neg THEN XInRel(f, ar, SAdd(XHalfPiLo, XAsinLo(y)), SAdd(XHalfPiHi, XAsinHi(y)), 3)
                                            ELSE XInRel(f, ar, SSub(XHalfPiLo, XAsinHi(y)), SSub(XHalfPiHi, XAsinLo(y)), 3)))
      [] ev.fn = "acot" -> IF neg THEN VBool((~rneg /\ XInRel(f, ar, SSub(XPiLo, XAtanHi(y)), SSub(XPiHi, XAtanLo(y)), 3)) \/ (rneg /\ XInRel(f, ar, XAtanLo(y), XAtanHi(y), 3)))
                           ELSE IF ~rneg /\ XInRel(f, ar, XAtanLo(y), XAtanHi(y), 3) THEN VOk
                           ELSE IF AcotViaHalfPi(f, y, rw) THEN VKnown("KD-X11-acot-large-argument-cancellation") ELSE VBad

\* hyperbolic functions at x = k ln 2 and their inverses at the corresponding rational points
RecipLn2(ev) ==
    LET f == Fm(ev) k == ev.k kk == AbsI(ev.k) xw == ev.a[1][1] rw == ev.r[1] IN
    IF ~Fin(f, xw) THEN VSkip ELSE IF ~Fin(f, rw) THEN VBad ELSE
    IF k = 0 THEN (IF ev.fn = "sech" /\ IsZero(f, Fl(f, xw)) THEN VBool(Fl(f, rw) = FOne(f)) ELSE VSkip) ELSE
    LET C == XCoshLn2(kk) Sh == XSinhLn2(kk) ax == AbsV(f, xw) ar == AbsV(f, rw) neg == k < 0 rneg == NegSign(f, rw)
        fwd == NegSign(f, xw) = neg /\ XInRel(f, ax, SMulI(XLn2Lo, kk), SMulI(XLn2Hi, kk), 1)              \* the input encodes k ln 2
        inv(X) == XInRel(f, ax, X, X, 1)                                                                    \* the input encodes the rational point X
        theta == <<SMulI(XLn2Lo, kk), SMulI(XLn2Hi, kk)>>
    IN CASE ev.fn = "sech"  -> IF ~fwd THEN VSkip ELSE VBool(~rneg /\ XInRelInv(f, ar, C, C, 3 + kk))
         [] ev.fn = "csch"  -> IF ~fwd THEN VSkip ELSE VBool(rneg = neg /\ XInRelInv(f, ar, Sh, Sh, 3 + 2 * kk))
         [] ev.fn = "coth"  -> IF ~fwd THEN VSkip ELSE VBool(rneg = neg /\ XInRel(f, ar, SMul(C, SInv(Sh)), SMul(C, SInv(Sh)), 5 + kk))
         [] ev.fn = "asech" -> IF ~inv(SInv(C)) \/ NegSign(f, xw) THEN VSkip ELSE VBool(~rneg /\ XInAbs(f, ar, theta[1], theta[2], 4 + 2 * kk, XOne))
         [] ev.fn = "acsch" -> IF ~inv(SInv(Sh)) \/ NegSign(f, xw) # neg THEN VSkip ELSE VBool(rneg = neg /\ XInAbs(f, ar, theta[1], theta[2], 4 + 2 * kk, XOne))
         [] ev.fn = "acoth" -> IF ~inv(SMul(C, SInv(Sh))) \/ NegSign(f, xw) # neg \/ kk > 4 THEN VSkip
                               ELSE VBool(rneg = neg /\ XInAbs(f, ar, theta[1], theta[2], 4 + 2 * kk + (4^kk) \div 2, XOne))

Recip(ev) ==
    CASE ev.enc = "pyth" -> RecipPyth(ev) [] ev.enc = "small" -> RecipSmall(ev) [] ev.enc = "point" -> RecipPoint(ev)
      [] ev.enc = "big" -> RecipBig(ev) [] ev.enc = "ln2" -> RecipLn2(ev) [] OTHER -> VBad

\* sec(asec(x)) = x within (4 + 8|x|) eps, csc(acsc(x)) = x within 6 eps (relative): conditioning of the documented compositions
RecipRT(ev) ==
    LET f == Fm(ev) xw == ev.a[1][1] rw == ev.r[1] IN
    IF ~ModR(f, xw, 3) \/ DLt(DAbs(Vl(f, xw)), XOne) THEN VSkip
    ELSE IF ~Fin(f, rw) \/ ~Fin(f, ev.mid[1]) THEN VBad
    ELSE LET x == Vl(f, xw) ax == DAbs(x) K == IF ev.fn = "sec" THEN DAdd(DFromInt(4), XI(ax, 8)) ELSE DFromInt(6) IN
         VBool(DLe(DAbs(DSub(Vl(f, rw), x)), DMul(DMul(Eps(f), ax), K)))

\* vector overloads are component-wise: bit-identical to the scalar function on each component (NaN: any NaN)
RecipVec(ev) ==
    LET f == Fm(ev) IN
    VBool(Len(ev.r) = Len(ev.rs) /\ \A c \in 1..Len(ev.r) : ev.r[c] = ev.rs[c] \/ (IsNaN(f, Fl(f, ev.r[c])) /\ IsNaN(f, Fl(f, ev.rs[c]))))

----------------------------------------------------------------------------
(* gtx/functions: gauss *)
GaussT(f, xw, mw, sw) == LET d == DSub(Vl(f, xw), Vl(f, mw)) s == Vl(f, sw) IN SMk(DMul(d, d), XI(DMul(s, s), 2))     \* (x - mu)^2 / (2 sigma^2)
Gauss1(ev) ==
    LET f == Fm(ev) IN
    IF ev.enc = "sym" THEN
        LET x1 == ev.a[1][1] x2 == ev.a[2][1] mw == ev.a[3][1] sw == ev.a[4][1] IN
        IF ~(Mod(f, x1) /\ Mod(f, x2) /\ Mod(f, mw) /\ Mod(f, sw)) \/ ~DEq(DAbs(DSub(Vl(f, x1), Vl(f, mw))), DAbs(DSub(Vl(f, x2), Vl(f, mw)))) THEN VSkip
        ELSE VBool(ev.r[1] = ev.r[2])
    ELSE
        LET xw == ev.a[1][1] mw == ev.a[2][1] sw == ev.a[3][1] rw == ev.r[1] IN
        IF ~(Mod(f, xw) /\ Mod(f, mw) /\ ModR(f, sw, 12)) \/ IsZero(f, Fl(f, sw)) \/ NegSign(f, sw) THEN VSkip
        ELSE IF ~Fin(f, rw) THEN VBad
        ELSE LET r == Vl(f, rw) sg == Vl(f, sw) t == GaussT(f, xw, mw, sw) dl == SMulD(XRoot2PiLo, sg) dh == SMulD(XRoot2PiHi, sg) IN
             IF NegSign(f, rw) /\ ~IsZero(f, Fl(f, rw)) THEN VBad
             ELSE IF SIsZero(t) THEN VBool(XInRelInv(f, r, dl, dh, 4))                                        \* the peak 1 / (sigma sqrt(2 pi))
             ELSE IF SLe(t, SI(1, 32)) THEN VBool(SLe(SMulD(XExpNLo(t), DSub(XOne, XEpsK(f, 8))), SMulD(dh, r)) /\ SLe(SMulD(dl, r), SMulD(XExpNHi(t), DAdd(XOne, XEpsK(f, 8)))))
             ELSE VBool(SLe(SMulD(dl, r), SD(DAdd(XOne, XEpsK(f, 8)))))                                       \* never above the peak
Gauss2(ev) ==
    LET f == Fm(ev) IN
    IF ev.enc = "sym" THEN
        LET c1 == ev.a[1] c2 == ev.a[2] m == ev.a[3] s == ev.a[4] IN
        IF ~(\A i \in 1..2 : Mod(f, c1[i]) /\ Mod(f, c2[i]) /\ Mod(f, m[i]) /\ Mod(f, s[i]))
           \/ ~(\A i \in 1..2 : DEq(DAbs(DSub(Vl(f, c1[i]), Vl(f, m[i]))), DAbs(DSub(Vl(f, c2[i]), Vl(f, m[i]))))) THEN VSkip
        ELSE VBool(ev.r[1] = ev.r[2])
    ELSE
        LET c == ev.a[1] m == ev.a[2] s == ev.a[3] rw == ev.r[1] IN
        IF ~(\A i \in 1..2 : Mod(f, c[i]) /\ Mod(f, m[i]) /\ ModR(f, s[i], 12) /\ ~IsZero(f, Fl(f, s[i])) /\ ~NegSign(f, s[i])) THEN VSkip
        ELSE IF ~Fin(f, rw) THEN VBad
        ELSE LET r == Vl(f, rw) t == SAdd(GaussT(f, c[1], m[1], s[1]), GaussT(f, c[2], m[2], s[2])) IN
             IF NegSign(f, rw) /\ ~IsZero(f, Fl(f, rw)) THEN VBad
             ELSE IF SIsZero(t) THEN VBool(Fl(f, rw) = FOne(f))
             ELSE IF SLe(t, SI(1, 32)) THEN VBool(XInRel(f, r, XExpNLo(t), XExpNHi(t), 8))
             ELSE VBool(DLe(r, XOne))

----------------------------------------------------------------------------
(* gtx/texture levels, gtc/integer log2, gtx/range *)
RECURSIVE ZMaxFrom(_, _)
ZMaxFrom(s, i) == IF i = Len(s) THEN s[i] ELSE LET m == ZMaxFrom(s, i + 1) IN IF ZLe(m, s[i]) THEN s[i] ELSE m
RECURSIVE DMaxFrom(_, _)
DMaxFrom(s, i) == IF i = Len(s) THEN s[i] ELSE DMax(s[i], DMaxFrom(s, i + 1))
LevelsOK(ev) ==      \* "ok" / "skip" / "bad" for the documented meaning: floor(log2(max extent)) + 1
    LET x == ev.a[1] rw == ev.r[1] IN
    IF TypeIsInt(ev.t) THEN
        LET m == ZMaxFrom([c \in 1..Len(x) |-> IntOf(x[c], ev.t)], 1) IN
        IF ZSign(m) <= 0 THEN "skip" ELSE IF ZEq(IntOf(rw, ev.t), ZFromInt(XLevelsZ(m))) THEN "ok" ELSE "bad"
    ELSE LET f == Fm(ev) IN
        IF \E c \in 1..Len(x) : ~Mod(f, x[c]) THEN "skip"
        ELSE LET m == DMaxFrom([c \in 1..Len(x) |-> Vl(f, x[c])], 1) IN
             IF DSign(m) <= 0 THEN "skip" ELSE IF ~Fin(f, rw) THEN "bad"
             ELSE LET k == DTopExp(m) r == Vl(f, rw) IN
                  IF DEq(m, DPow2(k)) THEN (IF DLe(DAbs(DSub(r, DFromInt(k + 1))), XI(Eps(f), 2 * (AbsI(k) + 1))) THEN "ok" ELSE "bad")
                  ELSE IF DLe(DFromInt(k + 1), r) /\ DLe(r, DFromInt(k + 2)) THEN "ok" ELSE "bad"
Levels(ev) ==
    LET v == LevelsOK(ev) IN
    IF v = "skip" THEN VSkip ELSE IF v = "ok" THEN VOk
    ELSE IF ev.form = "s" /\ ev.r[1] = ev.a[1][1] THEN VKnown("KD-X11-levels-scalar-returns-extent")      \* the scalar overload returns its argument
    ELSE VBad
Log2I(ev) ==
    VAll([c \in 1..Len(ev.r) |-> LET x == IntOf(ev.a[1][c], ev.t) IN
            IF ZSign(x) <= 0 THEN VSkip ELSE VBool(ZEq(IntOf(ev.r[c], ev.t), ZFromInt(XLog2Z(x))))])
RangeOp(ev) == VBool(ev.n = Len(ev.a[1]) /\ ev.nm = ev.n /\ ev.sz = ev.n /\ ev.off = 0 /\ ev.offm = 0 /\ ev.r = ev.a[1])

\* compile probes made by the driver (a documented call form that does not compile is a deviation)
Probe(ev) ==
    IF ev.ok = 1 THEN VOk
    ELSE IF ev.name = "min3_scalar_call" THEN VKnown("KD-X11-extended-minmax-scalar-call-ambiguous")
    ELSE VBad

Verdict(ev) ==
    CASE ev.op = "spline" -> Spline(ev) [] ev.op = "ease" -> Ease(ev) [] ev.op = "easeMono" -> EaseMono(ev) [] ev.op = "pow" -> PowOp(ev)
      [] ev.op = "lerp" -> Lerp(ev) [] ev.op = "saturate" -> Saturate(ev) [] ev.op = "isfinite" -> IsFiniteOp(ev) [] ev.op = "atan2" -> Atan2(ev)
      [] ev.op = "smul" -> ScalMul(ev) [] ev.op \in {"assocMin", "assocMax"} -> Assoc(ev) [] ev.op \in {"min", "max"} -> MinMax(ev)
      [] ev.op \in {"fmin", "fmax"} -> FMinMax(ev) [] ev.op \in {"logb", "logbv"} -> LogB(ev) [] ev.op = "recip" -> Recip(ev)
      [] ev.op = "recipRT" -> RecipRT(ev) [] ev.op = "recipVec" -> RecipVec(ev) [] ev.op = "gauss1" -> Gauss1(ev) [] ev.op = "gauss2" -> Gauss2(ev)
      [] ev.op = "levels" -> Levels(ev) [] ev.op = "log2i" -> Log2I(ev) [] ev.op = "range" -> RangeOp(ev) [] ev.op = "probe" -> Probe(ev)
      [] OTHER -> VBad

Init == l = 1 /\ RegInit
Next == /\ l <= NTrace
        /\ LET ev == TraceLog[l] IN IF IsMarker(ev) THEN Bump(3) ELSE Record(l, Verdict(ev), ev.op)
        /\ l' = l + 1
Spec == Init /\ [][Next]_vars
Accepted == Summary
=============================================================================
