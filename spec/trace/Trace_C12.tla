----------------------------- MODULE Trace_C12 ----------------------------
(* Trace specification for the geometric functions and the gtx norm / projection / perpendicular / orthonormalize /
   vector_angle / closest_point / normal / exterior_product / mixed_product helpers (C12).  Stateless: every event is
   one GLM call (plus, where a law relates two calls, the second call on the same arguments: cross(b,a), angle(y,x),
   reflect(reflect(I,N),N), angle(x,y) next to orientedAngle) and is judged on its own against GlmGeom.tla.

   Floating results are compared with exact rationals; the tolerances (k eps scale, eps = 2^-23 / 2^-52) are stated and
   derived next to each predicate in GlmGeom.tla.  Branch outcomes (faceforward, total internal reflection, the clamping
   of closestPointOnLine, the sign of orientedAngle) are demanded exactly whenever the deciding quantity is beyond the
   reach of rounding (or the evaluation is exact because all operands are small integers / quarter integers); inside
   the rounding band either outcome is accepted.

   Outside the documented domain (constrain nothing): non-finite arguments; components whose magnitude is outside
   2^+-40 (float) / 2^+-100 (double) (squares and triple products must neither overflow nor underflow); eta <= 0;
   degenerate arguments (normalize(0), proj on 0, a = b for closestPointOnLine, a direction that vanishes within its own
   rounding error); angle / orientedAngle of vectors that are not unit vectors (documented precondition); lxNorm with
   components outside 2^+-4 or depth outside 1..4. *)
EXTENDS GlmGeom, TraceBase
VARIABLE l
vars == <<l>>

Fm(ev) == TypeFmt(ev.t)
Arg(ev, i) == QSeq(ev.a[i])
NArg(ev) == Len(ev.a)
Res(ev) == QSeq(ev.r)
LOf(ev) == Len(ev.a[1])
MagLim(f) == IF f = F64 THEN 100 ELSE 40
MagOkW(f, w) == LET x == Fields(f, w) IN IsFinite(f, x) /\ (IsZero(f, x) \/ LET t == DTopExp(Val(f, x)) IN t >= -MagLim(f) /\ t <= MagLim(f))
Dom(ev) == \A i \in 1..NArg(ev) : \A j \in 1..Len(ev.a[i]) : MagOkW(Fm(ev), ev.a[i][j])
FinSeq(ws) == AllFin(ws)
IsZeroW(f, w) == IsZero(f, Fields(f, w))
IsNaNW(f, w) == IsNaN(f, Fields(f, w))
FlipW(w) == [i \in 1..Len(w) |-> IF i = Len(w) THEN (w[i] + 32768) % 65536 ELSE w[i]]
AbsW(w) == [i \in 1..Len(w) |-> IF i = Len(w) THEN w[i] % 32768 ELSE w[i]]
FlipV(ws) == [i \in 1..Len(ws) |-> FlipW(ws[i])]
\* squared norms must stay in the normal range with room to spare
NormRangeOk(s, f) == QIsZero(s) \/ (LET lim == QFromD(DPow2(IF f = F64 THEN 900 ELSE 100)) IN QLe(s, lim) /\ QLe(QOne, QMul(s, lim)))
\* all components are integers of magnitude <= 4 (every product and sum below is then exact in float and double)
SmallIntQ(q) == \E k \in -4..4 : QEq(q, QI(k))
SmallIntV(v) == \A i \in 1..Len(v) : SmallIntQ(v[i])
QuarterQ(q) == \E m \in 1..16 : QEq(q, QF(m, 4))

\* in the domain => finite result => the predicate
Judge(ev, ok) == IF ~Dom(ev) THEN VSkip ELSE IF ~FinSeq(ev.r) THEN VBad ELSE VBool(ok)
JudgeIf(ev, dom, ok) == IF ~Dom(ev) THEN VSkip ELSE IF ~dom THEN VSkip ELSE IF ~FinSeq(ev.r) THEN VBad ELSE VBool(ok)

----------------------------------------------------------------------------
VDotEv(ev) == Judge(ev, GDotOk(Res(ev)[1], Arg(ev, 1), Arg(ev, 2), Fm(ev)))
VLength(ev) == JudgeIf(ev, NormRangeOk(GLength2(Arg(ev, 1)), Fm(ev)), GLengthOk(Res(ev)[1], Arg(ev, 1), Fm(ev)))
VDistance(ev) == JudgeIf(ev, NormRangeOk(GDistance2(Arg(ev, 1), Arg(ev, 2)), Fm(ev)), GDistanceOk(Res(ev)[1], Arg(ev, 1), Arg(ev, 2), Fm(ev)))
VLength2(ev) == Judge(ev, GLength2Ok(Res(ev)[1], Arg(ev, 1), Fm(ev)))
VDistance2(ev) == JudgeIf(ev, NormRangeOk(GDistance2(Arg(ev, 1), Arg(ev, 2)), Fm(ev)), GDistance2Ok(Res(ev)[1], Arg(ev, 1), Arg(ev, 2), Fm(ev)))

VCrossEv(ev) == LET a == Arg(ev, 1) b == Arg(ev, 2) r == Res(ev) f == Fm(ev)
                IN IF ~Dom(ev) THEN VSkip ELSE IF ~(FinSeq(ev.r) /\ FinSeq(ev.r2)) THEN VBad
                   ELSE VBool(GCrossFormulaOk(r, a, b, f) /\ GCrossOrthOk(r, a, b, f) /\ GAntiOk(r, QSeq(ev.r2)))
VCross2Ev(ev) == LET a == Arg(ev, 1) b == Arg(ev, 2) r == Res(ev) f == Fm(ev)
                 IN IF ~Dom(ev) THEN VSkip ELSE IF ~(FinSeq(ev.r) /\ FinSeq(ev.r2)) THEN VBad
                    ELSE VBool(GCross2Ok(r[1], a, b, f) /\ GAntiOk(r, QSeq(ev.r2)))
VMixed(ev) == Judge(ev, GMixedOk(Res(ev)[1], Arg(ev, 1), Arg(ev, 2), Arg(ev, 3), Fm(ev)))

VNormalize(ev) == LET v == Arg(ev, 1) IN JudgeIf(ev, ~VIsZero(v) /\ NormRangeOk(GLength2(v), Fm(ev)), GNormalizeOk(Res(ev), v, Fm(ev)))

\* faceforward(N, I, Nref): N bit for bit when dot(Nref, I) < 0, otherwise N with every sign bit flipped
VFaceforward(ev) ==
    LET N == Arg(ev, 1) I == Arg(ev, 2) Nref == Arg(ev, 3) f == Fm(ev) d == VDot(Nref, I)
    IN IF ~Dom(ev) THEN VSkip
       ELSE IF ~((SmallIntV(I) /\ SmallIntV(Nref)) \/ GDotSignCertain(Nref, I, f)) THEN VSkip
       ELSE VBool(ev.r = (IF QSign(d) < 0 THEN ev.a[1] ELSE FlipV(ev.a[1])))

VReflect(ev) ==
    LET I == Arg(ev, 1) N == Arg(ev, 2) r == Res(ev) f == Fm(ev)
    IN IF ~Dom(ev) THEN VSkip ELSE IF ~(FinSeq(ev.r) /\ FinSeq(ev.rr)) THEN VBad
       ELSE VBool(/\ GReflectOk(r, I, N, f)
                  /\ GReflectOk(QSeq(ev.rr), r, N, f)
                  /\ GIsUnit(N, f) => GReflectIsometryOk(r, I, N, f) /\ GReflectInvolutionOk(QSeq(ev.rr), I, N, f))

\* refract(I, N, eta)
VRefract(ev) ==
    LET I == Arg(ev, 1) N == Arg(ev, 2) eta == Arg(ev, 3)[1] f == Fm(ev) r == Res(ev)
        exact == SmallIntV(I) /\ SmallIntV(N) /\ QuarterQ(eta)
        region == IF exact THEN (IF GIsTIR(I, N, eta) THEN "tir" ELSE "refr") ELSE GRefractRegion(I, N, eta, f)
        zero == \A i \in 1..Len(ev.r) : IsZeroW(f, ev.r[i])
        scalarNaN == ev.n = 0 /\ IsNaNW(f, ev.r[1])
        formula == FinSeq(ev.r) /\ GRefractFormulaOk(r, I, N, eta, f)
    IN IF ~Dom(ev) \/ QSign(eta) <= 0 \/ VIsZero(N) THEN VSkip
       ELSE CASE region = "tir"  -> IF zero THEN VOk ELSE IF scalarNaN THEN VKnown("KD-C12-scalar-refract-tir") ELSE VBad
              [] region = "refr" -> VBool(formula)
              [] OTHER           -> IF zero \/ formula THEN VOk ELSE IF scalarNaN THEN VKnown("KD-C12-scalar-refract-tir") ELSE VBad

\* gtx/norm
VNorms(ev) ==
    LET f == Fm(ev) two == NArg(ev) = 2
        v == IF two THEN VSub(Arg(ev, 2), Arg(ev, 1)) ELSE Arg(ev, 1)
        r == Res(ev)[1]
    IN CASE ev.op = "l1Norm" -> Judge(ev, NearRel(r, GL1(v), IF two THEN 3 ELSE 2, GL1(v), f))
         [] ev.op = "l2Norm" -> JudgeIf(ev, NormRangeOk(GLength2(v), f), IF two THEN GDistanceOk(r, Arg(ev, 1), Arg(ev, 2), f) ELSE GLengthOk(r, v, f))
         [] ev.op = "lMaxNorm" -> Judge(ev, IF two THEN NearRel(r, GLMax(v), 1, GLMax(v), f) ELSE QEq(r, GLMax(v)))
         [] ev.op = "lxNorm" ->
              LET modest == \A i \in 1..3 : QIsZero(v[i]) \/ (QLe(QF(1, 16), QAbs(v[i])) /\ QLe(QAbs(v[i]), QI(16)))
              IN JudgeIf(ev, ev.d >= 1 /\ ev.d <= 4 /\ modest, GLxOk(r, v, ev.d, f))

VProj(ev) == LET x == Arg(ev, 1) n == Arg(ev, 2) IN JudgeIf(ev, ~VIsZero(n), GProjOk(Res(ev), x, n, Fm(ev)))
VPerp(ev) == LET x == Arg(ev, 1) n == Arg(ev, 2) IN JudgeIf(ev, ~VIsZero(n), GPerpOk(Res(ev), x, n, Fm(ev)))

\* the direction w is resolved by the arithmetic: |w|^2 >= 4 |e|^2 and inside the normal range
Resolved(w, e, f) == ~VIsZero(w) /\ QLe(QMulInt(VDot(e, e), 4), VDot(w, w)) /\ NormRangeOk(VDot(w, w), f)
VOrtho2(ev) == LET x == Arg(ev, 1) y == Arg(ev, 2) f == Fm(ev)
               IN JudgeIf(ev, Resolved(GOrtho2Dir(x, y), GOrtho2Err(x, y, f), f), GOrtho2Ok(Res(ev), x, y, f))
VOrtho3(ev) ==
    LET m == Arg(ev, 1) r == Res(ev) f == Fm(ev)
        col(s, k) == <<s[3 * k + 1], s[3 * k + 2], s[3 * k + 3]>>
        m0 == col(m, 0) m1 == col(m, 1) m2 == col(m, 2)
    IN IF ~Dom(ev) \/ VIsZero(m0) \/ ~NormRangeOk(VDot(m0, m0), f) THEN VSkip
       ELSE IF ~FinSeq(ev.r) THEN (IF GOrtho3WellCond(m0, m1, m2) THEN VBad ELSE VSkip)
       ELSE VBool(GOrtho3Ok(col(r, 0), col(r, 1), col(r, 2), m0, m1, m2, f))
VTriangle(ev) ==
    LET p1 == Arg(ev, 1) p2 == Arg(ev, 2) p3 == Arg(ev, 3) f == Fm(ev)
        a == VSub(p1, p2) b == VSub(p1, p3) s == GCrossAbs(a, b)
    IN JudgeIf(ev, Resolved(VCross(a, b), [i \in 1..3 |-> GTol(3, s[i], f)], f), GTriOk(Res(ev), p1, p2, p3, f))

\* closestPointOnLine(p, a, b)
VClosest(ev) ==
    LET p == Arg(ev, 1) a == Arg(ev, 2) b == Arg(ev, 3) f == Fm(ev) r == Res(ev)
        t == GClosestT(p, a, b) tau == GClosestTau(p, a, b, f)
    IN JudgeIf(ev, ~VIsZero(VSub(b, a)) /\ NormRangeOk(GDistance2(a, b), f),
               \/ QLe(t, tau) /\ ev.r = ev.a[2]
               \/ QLe(QSub(QOne, tau), t) /\ ev.r = ev.a[3]
               \/ QLe(QNeg(tau), t) /\ QLe(t, QAdd(QOne, tau)) /\ GClosestValueOk(r, p, a, b, f))

\* angles (documented precondition: unit vectors)
UnitArgs(ev, k) == \A i \in 1..k : QNear(VDot(Arg(ev, i), Arg(ev, i)), QOne, GTol(8, QOne, Fm(ev)))
AngleValOk(w, ev) == FinW(w) /\ GAngleOk(ValW(Fm(ev), w), Arg(ev, 1), Arg(ev, 2), Fm(ev))
VAngle(ev) == JudgeIf(ev, UnitArgs(ev, 2), ev.r = ev.r2 /\ AngleValOk(ev.r[1], ev))
\* sign: "pos" -> the angle itself, "neg" -> its negation, "any" -> the orientation is zero or within rounding of zero
OrientedOk(ev, sgn) == /\ AngleValOk(ev.ang[1], ev)
                       /\ CASE sgn = "pos" -> ev.r = ev.ang
                            [] sgn = "neg" -> ev.r = FlipV(ev.ang)
                            [] OTHER -> ev.r = ev.ang \/ ev.r = FlipV(ev.ang)
VOriented2(ev) ==
    LET x == Arg(ev, 1) y == Arg(ev, 2) f == Fm(ev) c == GCross2(x, y)
        certain == QLt(GTol(GCrossK, QAdd(QAbs(QMul(x[1], y[2])), QAbs(QMul(y[1], x[2]))), f), QAbs(c))
    IN JudgeIf(ev, UnitArgs(ev, 2), OrientedOk(ev, IF ~certain THEN "any" ELSE IF QSign(c) > 0 THEN "pos" ELSE "neg"))
VOriented3(ev) ==
    LET x == Arg(ev, 1) y == Arg(ev, 2) ref == Arg(ev, 3) f == Fm(ev) t == GMixed(x, y, ref)
        certain == QLt(GTol(5, VDot(GCrossAbs(x, y), GAbsV(ref)), f), QAbs(t))
    IN JudgeIf(ev, UnitArgs(ev, 2), OrientedOk(ev, IF ~certain THEN "any" ELSE IF QSign(t) > 0 THEN "pos" ELSE "neg"))

Verdict(ev) ==
    CASE ev.op = "dot" -> VDotEv(ev)
      [] ev.op = "length" -> VLength(ev)
      [] ev.op = "distance" -> VDistance(ev)
      [] ev.op = "cross" -> VCrossEv(ev)
      [] ev.op = "cross2" -> VCross2Ev(ev)
      [] ev.op = "mixedProduct" -> VMixed(ev)
      [] ev.op = "normalize" -> VNormalize(ev)
      [] ev.op = "faceforward" -> VFaceforward(ev)
      [] ev.op = "reflect" -> VReflect(ev)
      [] ev.op = "refract" -> VRefract(ev)
      [] ev.op = "length2" -> VLength2(ev)
      [] ev.op = "distance2" -> VDistance2(ev)
      [] ev.op \in {"l1Norm", "l2Norm", "lMaxNorm", "lxNorm"} -> VNorms(ev)
      [] ev.op = "proj" -> VProj(ev)
      [] ev.op = "perp" -> VPerp(ev)
      [] ev.op = "orthonormalize2" -> VOrtho2(ev)
      [] ev.op = "orthonormalize3" -> VOrtho3(ev)
      [] ev.op = "triangleNormal" -> VTriangle(ev)
      [] ev.op = "closestPointOnLine" -> VClosest(ev)
      [] ev.op = "angle" -> VAngle(ev)
      [] ev.op = "orientedAngle2" -> VOriented2(ev)
      [] ev.op = "orientedAngle3" -> VOriented3(ev)
      [] OTHER -> VBad

Init == l = 1 /\ RegInit
Next == /\ l <= NTrace
        /\ LET ev == TraceLog[l] IN IF IsMarker(ev) THEN Bump(3) ELSE Record(l, Verdict(ev), ev.op)
        /\ l' = l + 1
Spec == Init /\ [][Next]_vars
Accepted == Summary
=============================================================================
