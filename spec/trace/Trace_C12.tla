----------------------------- MODULE Trace_C12 ----------------------------
(* Trace specification for the geometric functions and the gtx norm / projection / perpendicular / orthonormalize /
   vector_angle / closest_point / normal / exterior_product / mixed_product helpers (C12).  Stateless: every event is
   one GLM call (plus, where a law relates two calls, the second call on the same arguments: cross(b,a), angle(y,x),
   reflect(reflect(I,N),N), angle(x,y) next to orientedAngle) and is judged on its own against GlmGeom.tla.

   Floating results are compared with exact rationals; the tolerances (k eps scale, eps = 2^-23 / 2^-52) are stated and
   derived next to each predicate in GlmGeom.tla.  Branch outcomes (faceforward, total internal reflection, the clamping
   of closestPointOnLine, the sign of orientedAngle) are demanded exactly whenever the deciding quantity is beyond the
   reach of rounding (or the evaluation is exact because all operands are small integers / quarter integers); inside
   the rounding band either outcome is accepted.

   Outside the documented domain (constrain nothing): non-finite arguments; components whose magnitude is outside
   2^+-40 (float) / 2^+-100 (double) (squares and triple products must neither overflow nor underflow); eta <= 0;
   degenerate arguments (normalize(0), proj on 0, a = b for closestPointOnLine, a direction that vanishes within its own
   rounding error); angle / orientedAngle of vectors that are not unit vectors (documented precondition); lxNorm with
   components outside 2^+-4 or depth outside 1..4. *)
EXTENDS GlmGeom, TraceBase
VARIABLE l
vars == <<l>>

Fm(ev) == TypeFmt(ev.t)
DW(f, w) == ValW(f, w)
DSeq(f, ws) == [i \in 1..Len(ws) |-> ValW(f, ws[i])]
Arg(ev, i) == DSeq(Fm(ev), ev.a[i])
NArg(ev) == Len(ev.a)
Res(ev) == DSeq(Fm(ev), ev.r)
MagLim(f) == IF f = F64 THEN 100 ELSE 40
MagOkW(f, w) == LET x == Fields(f, w) IN IsFinite(f, x) /\ (IsZero(f, x) \/ LET t == DTopExp(Val(f, x)) IN t >= -MagLim(f) /\ t <= MagLim(f))
Dom(ev) == \A i \in 1..NArg(ev) : \A j \in 1..Len(ev.a[i]) : MagOkW(Fm(ev), ev.a[i][j])
FinSeq(ev, ws) == \A i \in 1..Len(ws) : IsFinite(Fm(ev), Fields(Fm(ev), ws[i]))
IsZeroW(f, w) == IsZero(f, Fields(f, w))
IsNaNW(f, w) == IsNaN(f, Fields(f, w))
FlipW(w) == [i \in 1..Len(w) |-> IF i = Len(w) THEN (w[i] + 32768) % 65536 ELSE w[i]]
FlipV(ws) == [i \in 1..Len(ws) |-> FlipW(ws[i])]
\* squared norms must stay in the normal range with room to spare
NormRangeOk(s, f) == DIsZero(s) \/ (LET t == DTopExp(s) lim == IF f = F64 THEN 900 ELSE 100 IN t >= -lim /\ t <= lim)
\* all components are integers of magnitude <= 4 (every product and sum below is then exact in float and double)
SmallIntD(q) == \E k \in -4..4 : DEq(q, DFromInt(k))
SmallIntV(v) == \A i \in 1..Len(v) : SmallIntD(v[i])
QuarterD(q) == \E m \in 1..16 : DEq(q, DMk(FALSE, <<m>>, -2))

\* in the domain => finite result => the predicate
Judge(ev, ok) == IF ~Dom(ev) THEN VSkip ELSE IF ~FinSeq(ev, ev.r) THEN VBad ELSE VBool(ok)
JudgeIf(ev, dom, ok) == IF ~Dom(ev) THEN VSkip ELSE IF ~dom THEN VSkip ELSE IF ~FinSeq(ev, ev.r) THEN VBad ELSE VBool(ok)
Norm2(v) == DvDot(v, v)

----------------------------------------------------------------------------
VDotEv(ev) == Judge(ev, JDotOk(Res(ev)[1], Arg(ev, 1), Arg(ev, 2), Fm(ev)))
VLength(ev) == JudgeIf(ev, NormRangeOk(Norm2(Arg(ev, 1)), Fm(ev)), JLengthOk(Res(ev)[1], Arg(ev, 1), Fm(ev)))
VDistance(ev) == JudgeIf(ev, NormRangeOk(Norm2(DvSub(Arg(ev, 1), Arg(ev, 2))), Fm(ev)), JDistanceOk(Res(ev)[1], Arg(ev, 1), Arg(ev, 2), Fm(ev)))
VLength2(ev) == Judge(ev, JLength2Ok(Res(ev)[1], Arg(ev, 1), Fm(ev)))
VDistance2(ev) == JudgeIf(ev, NormRangeOk(Norm2(DvSub(Arg(ev, 1), Arg(ev, 2))), Fm(ev)), JDistance2Ok(Res(ev)[1], Arg(ev, 1), Arg(ev, 2), Fm(ev)))

VCrossEv(ev) == LET a == Arg(ev, 1) b == Arg(ev, 2) r == Res(ev) f == Fm(ev)
                IN IF ~Dom(ev) THEN VSkip ELSE IF ~(FinSeq(ev, ev.r) /\ FinSeq(ev, ev.r2)) THEN VBad
                   ELSE VBool(JCrossFormulaOk(r, a, b, f) /\ JCrossOrthOk(r, a, b, f) /\ JAntiOk(r, DSeq(f, ev.r2)))
VCross2Ev(ev) == LET a == Arg(ev, 1) b == Arg(ev, 2) r == Res(ev) f == Fm(ev)
                 IN IF ~Dom(ev) THEN VSkip ELSE IF ~(FinSeq(ev, ev.r) /\ FinSeq(ev, ev.r2)) THEN VBad
                    ELSE VBool(JCross2Ok(r[1], a, b, f) /\ JAntiOk(r, DSeq(f, ev.r2)))
VMixed(ev) == Judge(ev, JMixedOk(Res(ev)[1], Arg(ev, 1), Arg(ev, 2), Arg(ev, 3), Fm(ev)))

VNormalize(ev) == LET v == Arg(ev, 1) IN JudgeIf(ev, ~DvIsZero(v) /\ NormRangeOk(Norm2(v), Fm(ev)), JNormalizeOk(Res(ev), v, Fm(ev)))

\* faceforward(N, I, Nref): N bit for bit when dot(Nref, I) < 0, otherwise -N bit for bit (IEEE negation: every sign bit
\* flipped, zeros included)
VFaceforward(ev) ==
    LET I == Arg(ev, 2) Nref == Arg(ev, 3) f == Fm(ev) d == DvDot(Nref, I)
    IN IF ~Dom(ev) THEN VSkip
       ELSE IF ~((SmallIntV(I) /\ SmallIntV(Nref)) \/ JDotSignCertain(Nref, I, f)) THEN VSkip
       ELSE VBool(ev.r = (IF DSign(d) < 0 THEN ev.a[1] ELSE FlipV(ev.a[1])))

VReflect(ev) ==
    LET I == Arg(ev, 1) N == Arg(ev, 2) r == Res(ev) f == Fm(ev) rr == DSeq(f, ev.rr)
    IN IF ~Dom(ev) THEN VSkip ELSE IF ~(FinSeq(ev, ev.r) /\ FinSeq(ev, ev.rr)) THEN VBad
       ELSE VBool(/\ JReflectOk(r, I, N, f)
                  /\ JReflectOk(rr, r, N, f)
                  /\ JIsUnit(N, 4, f) => JReflectIsometryOk(r, I, N, f) /\ JReflectInvolutionOk(rr, I, N, f))

\* refract(I, N, eta): exactly the zero vector (either sign of zero) on total internal reflection
VRefract(ev) ==
    LET I == Arg(ev, 1) N == Arg(ev, 2) eta == Arg(ev, 3)[1] f == Fm(ev) r == Res(ev)
        exact == SmallIntV(I) /\ SmallIntV(N) /\ QuarterD(eta)
        region == IF exact THEN (IF DSign(JRefractK(I, N, eta)) < 0 THEN "tir" ELSE "refr") ELSE JRefractRegion(I, N, eta, f)
        zero == \A i \in 1..Len(ev.r) : IsZeroW(f, ev.r[i])
        scalarNaN == ev.n = 0 /\ IsNaNW(f, ev.r[1])
        formula == FinSeq(ev, ev.r) /\ JRefractFormulaOk(r, I, N, eta, f)
    IN IF ~Dom(ev) \/ DSign(eta) <= 0 \/ DvIsZero(N) THEN VSkip
       ELSE CASE region = "tir"  -> IF zero THEN VOk ELSE IF scalarNaN THEN VKnown("KD-C12-scalar-refract-tir") ELSE VBad
              [] region = "refr" -> VBool(formula)
              [] OTHER           -> IF zero \/ formula THEN VOk ELSE IF scalarNaN THEN VKnown("KD-C12-scalar-refract-tir") ELSE VBad

\* gtx/norm
VNorms(ev) ==
    LET f == Fm(ev) two == NArg(ev) = 2
        v == IF two THEN DvSub(Arg(ev, 2), Arg(ev, 1)) ELSE Arg(ev, 1)
        r == Res(ev)[1]
    IN CASE ev.op = "l1Norm" -> Judge(ev, DNearRel(r, DvNorm1(v), IF two THEN 3 ELSE 2, DvNorm1(v), f))
         [] ev.op = "l2Norm" -> JudgeIf(ev, NormRangeOk(Norm2(v), f), IF two THEN JDistanceOk(r, Arg(ev, 1), Arg(ev, 2), f) ELSE JLengthOk(r, v, f))
         [] ev.op = "lMaxNorm" -> Judge(ev, IF two THEN DNearRel(r, DMaxAbs(v), 1, DMaxAbs(v), f) ELSE DEq(r, DMaxAbs(v)))
         [] ev.op = "lxNorm" ->
              LET modest == \A i \in 1..3 : DIsZero(v[i]) \/ (DTopExp(v[i]) >= -4 /\ DTopExp(v[i]) < 4)
              IN JudgeIf(ev, ev.d >= 1 /\ ev.d <= 4 /\ modest, JLxOk(r, v, ev.d, f))

VProj(ev) == LET x == Arg(ev, 1) n == Arg(ev, 2) IN JudgeIf(ev, ~DvIsZero(n), JProjOk(Res(ev), x, n, Fm(ev)))
VPerp(ev) == LET x == Arg(ev, 1) n == Arg(ev, 2) IN JudgeIf(ev, ~DvIsZero(n), JPerpOk(Res(ev), x, n, Fm(ev)))

VOrtho2(ev) == LET x == Arg(ev, 1) y == Arg(ev, 2) f == Fm(ev) w == JOrtho2Dir(x, y) e == JOrtho2Err(x, y, f)
               IN JudgeIf(ev, JResolved(w, e) /\ NormRangeOk(Norm2(w), f), JOrtho2OkWE(Res(ev), y, w, e, f))
VOrtho3(ev) ==
    LET m == Arg(ev, 1) r == Res(ev) f == Fm(ev)
        col(s, k) == <<s[3 * k + 1], s[3 * k + 2], s[3 * k + 3]>>
        m0 == col(m, 0) m1 == col(m, 1) m2 == col(m, 2)
    IN IF ~Dom(ev) \/ DvIsZero(m0) \/ ~NormRangeOk(Norm2(m0), f) THEN VSkip
       ELSE IF ~FinSeq(ev, ev.r) THEN (IF JOrtho3WellCond(m0, m1, m2) THEN VBad ELSE VSkip)
       ELSE VBool(JOrtho3Ok(col(r, 0), col(r, 1), col(r, 2), m0, m1, m2, f))
VTriangle(ev) ==
    LET p1 == Arg(ev, 1) p2 == Arg(ev, 2) p3 == Arg(ev, 3) f == Fm(ev) w == JTriDir(p1, p2, p3) e == JTriErr(p1, p2, p3, f)
    IN JudgeIf(ev, JResolved(w, e) /\ NormRangeOk(Norm2(w), f), JTriOkWE(Res(ev), p1, p2, p3, w, e, f))

\* closestPointOnLine(p, a, b): a or b bit for bit outside the segment, the foot of the perpendicular inside
VClosest(ev) ==
    LET p == Arg(ev, 1) a == Arg(ev, 2) b == Arg(ev, 3) f == Fm(ev) r == Res(ev)
    IN JudgeIf(ev, ~DvIsZero(DvSub(b, a)) /\ NormRangeOk(JClosestDen(a, b), f),
               \/ JClosestMayA(p, a, b, f) /\ ev.r = ev.a[2]
               \/ JClosestMayB(p, a, b, f) /\ ev.r = ev.a[3]
               \/ JClosestMayMid(p, a, b, f) /\ JClosestValueOk(r, p, a, b, f))

\* angles (documented precondition: unit vectors)
UnitArgs(ev, k) == \A i \in 1..k : JIsUnit(Arg(ev, i), 8, Fm(ev))
AngleValOk(w, ev) == IsFinite(Fm(ev), Fields(Fm(ev), w)) /\ JAngleOk(ValW(Fm(ev), w), Arg(ev, 1), Arg(ev, 2), Fm(ev))
VAngle(ev) == JudgeIf(ev, UnitArgs(ev, 2), ev.r = ev.r2 /\ AngleValOk(ev.r[1], ev))
\* sign: "pos" -> the angle itself, "neg" -> its negation, "any" -> the orientation is zero or within rounding of zero
OrientedOk(ev, sgn) == /\ AngleValOk(ev.ang[1], ev)
                       /\ CASE sgn = "pos" -> ev.r = ev.ang
                            [] sgn = "neg" -> ev.r = FlipV(ev.ang)
                            [] OTHER -> ev.r = ev.ang \/ ev.r = FlipV(ev.ang)
VOriented2(ev) ==
    LET x == Arg(ev, 1) y == Arg(ev, 2) f == Fm(ev) c == JCross2(x, y)
        certain == DLt(DTol(JCrossK, JCross2Abs(x, y), f), DAbs(c))
    IN JudgeIf(ev, UnitArgs(ev, 2), OrientedOk(ev, IF ~certain THEN "any" ELSE IF DSign(c) > 0 THEN "pos" ELSE "neg"))
VOriented3(ev) ==
    LET x == Arg(ev, 1) y == Arg(ev, 2) ref == Arg(ev, 3) f == Fm(ev) t == JMixed(x, y, ref)
        certain == DLt(DTol(5, JMixedAbs(x, y, ref), f), DAbs(t))
    IN JudgeIf(ev, UnitArgs(ev, 2), OrientedOk(ev, IF ~certain THEN "any" ELSE IF DSign(t) > 0 THEN "pos" ELSE "neg"))

Verdict(ev) ==
    CASE ev.op = "dot" -> VDotEv(ev)
      [] ev.op = "length" -> VLength(ev)
      [] ev.op = "distance" -> VDistance(ev)
      [] ev.op = "cross" -> VCrossEv(ev)
      [] ev.op = "cross2" -> VCross2Ev(ev)
      [] ev.op = "mixedProduct" -> VMixed(ev)
      [] ev.op = "normalize" -> VNormalize(ev)
      [] ev.op = "faceforward" -> VFaceforward(ev)
      [] ev.op = "reflect" -> VReflect(ev)
      [] ev.op = "refract" -> VRefract(ev)
      [] ev.op = "length2" -> VLength2(ev)
      [] ev.op = "distance2" -> VDistance2(ev)
      [] ev.op \in {"l1Norm", "l2Norm", "lMaxNorm", "lxNorm"} -> VNorms(ev)
      [] ev.op = "proj" -> VProj(ev)
      [] ev.op = "perp" -> VPerp(ev)
      [] ev.op = "orthonormalize2" -> VOrtho2(ev)
      [] ev.op = "orthonormalize3" -> VOrtho3(ev)
      [] ev.op = "triangleNormal" -> VTriangle(ev)
      [] ev.op = "closestPointOnLine" -> VClosest(ev)
      [] ev.op = "angle" -> VAngle(ev)
      [] ev.op = "orientedAngle2" -> VOriented2(ev)
      [] ev.op = "orientedAngle3" -> VOriented3(ev)
      [] OTHER -> VBad

Init == l = 1 /\ RegInit
Next == /\ l <= NTrace
        /\ LET ev == TraceLog[l] IN IF IsMarker(ev) THEN Bump(3) ELSE Record(l, Verdict(ev), ev.op)
        /\ l' = l + 1
Spec == Init /\ [][Next]_vars
Accepted == Summary
=============================================================================
