----------------------------- MODULE Trace_C05 ----------------------------
(* Trace specification for the integer-function events (C05).  One event = one public
   call of glm::bitCount / findLSB / findMSB / bitfieldReverse / bitfieldExtract /
   bitfieldInsert / uaddCarry / usubBorrow / umulExtended / imulExtended, scalar (n = 0)
   or vector (n = 1..4) overload; every component is judged bit-exactly. *)
EXTENDS GlmInteger, KnownDeviations, TraceBase
VARIABLE l
vars == <<l>>

I32(n) == WToLimbs(WFromInt(32, n), 32)
Comp(ev, argi, i) == WFromLimbs(ev.a[argi][IF Len(ev.a[argi]) = 1 THEN 1 ELSE i])
ArgInt(ev, argi) == ZToInt(WToZ(32, TRUE, WFromLimbs(ev.a[argi][1])))
NComp(ev) == Len(ev.a[1])

\* expected result word(s) of component i, as limbs, per op
ExpectUnary(ev, i) ==
    LET W == TypeW(ev.t) sg == TypeSigned(ev.t) x == Comp(ev, 1, i) IN
    CASE ev.op = "bitCount" -> I32(BitCount(W, x))
      [] ev.op = "findLSB"  -> I32(FindLSB(W, x))
      [] ev.op = "findMSB"  -> I32(FindMSB(W, sg, x))
      [] ev.op = "bitfieldReverse" -> WToLimbs(BitfieldReverse(W, x), W)

CheckUnary(ev) ==
    LET bad == {i \in 1..NComp(ev) : ev.r[i] # ExpectUnary(ev, i)}
    IN VBool(bad = {})

CheckExtract(ev) ==
    LET W == TypeW(ev.t) sg == TypeSigned(ev.t) off == ArgInt(ev, 2) n == ArgInt(ev, 3) IN
    IF ~FieldOK(W, off, n) THEN VSkip
    ELSE LET bad == {i \in 1..NComp(ev) : ev.r[i] # WToLimbs(BitfieldExtract(W, sg, Comp(ev, 1, i), off, n), W)}
         IN VBool(bad = {})

CheckInsert(ev) ==
    LET W == TypeW(ev.t) off == ArgInt(ev, 3) n == ArgInt(ev, 4) IN
    IF ~FieldOK(W, off, n) THEN VSkip
    ELSE VBool(\A i \in 1..NComp(ev) : ev.r[i] = WToLimbs(BitfieldInsert(W, Comp(ev, 1, i), Comp(ev, 2, i), off, n), W))

CheckCarry(ev) ==
    LET ok(i) == LET x == Comp(ev, 1, i) y == Comp(ev, 2, i) IN
          CASE ev.op = "uaddCarry" -> LET e == UaddCarry(x, y) IN ev.r[i] = WToLimbs(e.r, 32) /\ ev.c[i] = WToLimbs(NFromNat(e.c), 32)
            [] ev.op = "usubBorrow" -> LET e == UsubBorrow(x, y) IN ev.r[i] = WToLimbs(e.r, 32) /\ ev.c[i] = WToLimbs(NFromNat(e.b), 32)
            [] ev.op = "umulExtended" -> LET e == UmulExtended(x, y) IN ev.msb[i] = WToLimbs(e.msb, 32) /\ ev.lsb[i] = WToLimbs(e.lsb, 32)
            [] ev.op = "imulExtended" -> LET e == ImulExtended(x, y) IN ev.msb[i] = WToLimbs(e.msb, 32) /\ ev.lsb[i] = WToLimbs(e.lsb, 32)
        bad == {i \in 1..NComp(ev) : ~ok(i)}
    IN IF bad = {} THEN VOk
       ELSE IF ev.op = "usubBorrow" /\ \A i \in bad : KD_UsubBorrowSwapped(Comp(ev, 1, i), Comp(ev, 2, i), ev.r[i], ev.c[i]) THEN VKnown("KD-C05-usubBorrow-swapped")
       ELSE VBad

Verdict(ev) ==
    CASE ev.op \in {"bitCount", "findLSB", "findMSB", "bitfieldReverse"} -> CheckUnary(ev)
      [] ev.op = "bitfieldExtract" -> CheckExtract(ev)
      [] ev.op = "bitfieldInsert" -> CheckInsert(ev)
      [] ev.op \in {"uaddCarry", "usubBorrow", "umulExtended", "imulExtended"} -> CheckCarry(ev)
      [] OTHER -> VBad

Init == l = 1 /\ RegInit
Next == /\ l <= NTrace
        /\ LET ev == TraceLog[l] IN IF IsMarker(ev) THEN Bump(3) ELSE Record(l, Verdict(ev), ev.op)
        /\ l' = l + 1
Spec == Init /\ [][Next]_vars
Accepted == Summary
=============================================================================
