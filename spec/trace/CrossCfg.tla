------------------------------ MODULE CrossCfg -----------------------------
(***************************************************************************)
(* Two-trace refinement (engine E6): the same harness program compiled     *)
(* twice -- a baseline build and a variant build -- must produce traces    *)
(* that are related event by event.                                        *)
(*   MODE = "config" (C15): every event of the variant must be identical   *)
(*        to the baseline event (same op, same inputs, same result bits).  *)
(* The baseline trace itself is judged absolutely by the trace             *)
(* specification of the property it belongs to; identity with an accepted  *)
(* trace is acceptance by the same specification.                          *)
(***************************************************************************)
EXTENDS Naturals, Sequences, TLC, Json, IOUtils
VARIABLE l
TraceA == ndJsonDeserialize(IOEnv.TRACE)
TraceB == ndJsonDeserialize(IOEnv.TRACE_B)
Bump(r) == TLCSet(r, TLCGet(r) + 1)
Init == l = 1 /\ TLCSet(1, 0) /\ TLCSet(2, 0) /\ TLCSet(3, 0) /\ TLCSet(4, 0)
Same(a, b) == a = b
Next == /\ l <= Len(TraceA)
        /\ IF l <= Len(TraceB) /\ Same(TraceA[l], TraceB[l]) THEN Bump(3)
           ELSE Bump(3) /\ Bump(1) /\ PrintT(<<"MISMATCH", l, IF "op" \in DOMAIN TraceA[l] THEN TraceA[l].op ELSE "marker">>)
        /\ l' = l + 1
Spec == Init /\ [][Next]_l
Accepted == PrintT(<<"SUMMARY", TLCGet(3), TLCGet(1) + (IF Len(TraceA) = Len(TraceB) THEN 0 ELSE 1), TLCGet(2), TLCGet(4)>>)
=============================================================================
