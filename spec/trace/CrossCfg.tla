------------------------------ MODULE CrossCfg -----------------------------
(***************************************************************************)
(* Two-trace refinement (engine E6): the same harness program compiled     *)
(* twice -- a baseline build and a variant build -- must produce traces    *)
(* that are related event by event.                                        *)
(*   mode "config" (C15): every event of the variant must be identical to  *)
(*   the baseline event: same operation, same inputs, same result VALUES.  *)
(* Identity is on values, which is bit identity except for what IEEE-754   *)
(* leaves open and no build setting of GLM controls:                       *)
(*   - a NaN result equals any other NaN result (payload and sign of a     *)
(*     NaN produced by an operation depend on instruction selection);      *)
(*   - for the min/max/clamp families +0 and -0 are the same value (which  *)
(*     zero minss/fmin returns depends on operand order chosen by the      *)
(*     optimiser);                                                         *)
(*   - events of the fmin/fmax/fclamp families that see a signalling NaN   *)
(*     are outside the domain (libm and inline expansions differ).         *)
(* The baseline trace itself is judged absolutely by the trace             *)
(* specification of the property it belongs to.                            *)
(***************************************************************************)
EXTENDS Words, TLC, Json, IOUtils
VARIABLE l
TraceA == ndJsonDeserialize(IOEnv.TRACE)
TraceB == ndJsonDeserialize(IOEnv.TRACE_B)
Bump(r) == TLCSet(r, TLCGet(r) + 1)
Init == l = 1 /\ TLCSet(1, 0) /\ TLCSet(2, 0) /\ TLCSet(3, 0) /\ TLCSet(4, 0)

\* keys that hold result values (NaN / zero-sign normalisation applies to them); harnesses whose other keys are strings or
\* auxiliary observations say RKEYS = "r": everything but the result proper must then be bit-identical
ResultKeys == IF "RKEYS" \in DOMAIN IOEnv /\ IOEnv.RKEYS = "r" THEN {"r"} ELSE {"r", "s", "u", "v", "v2", "i", "c", "msb", "lsb", "p", "p2", "e"}
MinMaxFamily == {"min", "max", "fmin", "fmax", "clamp", "fclamp", "clampraw", "min3", "max3", "fmin3", "fmax3", "min4", "max4", "fmin4", "fmax4",
                 "compMin", "compMax", "texClamp"}
NaNFamily == {"fmin", "fmax", "fclamp", "fmin3", "fmax3", "fmin4", "fmax4"}
FnOf(ev) == IF "f" \in DOMAIN ev THEN ev.f ELSE IF "op" \in DOMAIN ev THEN ev.op ELSE ""
TypeOf(ev) == IF "t" \in DOMAIN ev THEN ev.t ELSE ""
IsNaN32(w) == Len(w) = 2 /\ (w[2] % 32768) \div 128 = 255 /\ ((w[2] % 128) > 0 \/ w[1] > 0)
IsNaN64(w) == Len(w) = 4 /\ (w[4] % 32768) \div 16 = 2047 /\ ((w[4] % 16) > 0 \/ w[3] > 0 \/ w[2] > 0 \/ w[1] > 0)
IsSNaN32(w) == IsNaN32(w) /\ (w[2] % 128) \div 64 = 0
IsSNaN64(w) == IsNaN64(w) /\ (w[4] % 16) \div 8 = 0
IsNaNW(t, w) == (t = "f32" /\ IsNaN32(w)) \/ (t = "f64" /\ IsNaN64(w))
IsSNaNW(t, w) == (t = "f32" /\ IsSNaN32(w)) \/ (t = "f64" /\ IsSNaN64(w))
IsZeroW(t, w) == (t = "f32" /\ Len(w) = 2 /\ w[1] = 0 /\ w[2] % 32768 = 0) \/ (t = "f64" /\ Len(w) = 4 /\ w[1] = 0 /\ w[2] = 0 /\ w[3] = 0 /\ w[4] % 32768 = 0)
\* a logged value is a sequence of components, each a sequence of limbs
IsComp(w) == DOMAIN w = 1..Len(w) /\ Len(w) \in 1..4 /\ \A i \in 1..Len(w) : w[i] \in Nat
NormComp(t, zf, w) == IF IsNaNW(t, w) THEN <<"nan">> ELSE IF zf /\ IsZeroW(t, w) THEN <<"zero">> ELSE w
NormVal(t, zf, v) == [i \in 1..Len(v) |-> NormComp(t, zf, v[i])]
Norm(ev) == LET t == TypeOf(ev) zf == FnOf(ev) \in MinMaxFamily
            IN IF t \notin {"f32", "f64"} THEN ev
               ELSE [k \in DOMAIN ev |-> IF k \in ResultKeys THEN NormVal(t, zf, ev[k]) ELSE ev[k]]
SeesSNaN(ev) == "a" \in DOMAIN ev /\ \E k \in 1..Len(ev.a) : \E i \in 1..Len(ev.a[k]) : IsSNaNW(TypeOf(ev), ev.a[k][i])
OutOfDomain(ev) == FnOf(ev) \in NaNFamily /\ SeesSNaN(ev)
Same(a, b) == a = b \/ ("a" \in DOMAIN a /\ "a" \in DOMAIN b /\ a.a = b.a /\ FnOf(a) = FnOf(b) /\ (OutOfDomain(a) \/ Norm(a) = Norm(b)))
(* Recorded deviations (known_findings.json), only for variants whose language level selects GLM's bundled pre-C++11
   bodies (KIND = "fallback": GLM_FORCE_CXX98 / CXX03):
     KD-C15-cxx98-libm-fallbacks  asinh/acosh/atanh/log2/exp2 are computed from log/sqrt/pow formulas instead of the libm
                                  functions (and asech/acsch/acoth are built on them): results within 2048 ulp of the baseline (exp2(x) = exp(x ln 2) loses about |x| ulp, |x| <= 1024),
                                  or a zero of the other sign, or within 16 eps absolutely (cancellation near 0 / 1)
     KD-C15-cxx98-fma-unfused     fma(a, b, c) is a * b + c with two roundings instead of std::fma: the variant result is
                                  exactly FAdd(FMul(a, b), c)                                                            *)
Kind == IF "KIND" \in DOMAIN IOEnv THEN IOEnv.KIND ELSE "std"
FallbackLibm == {"asinh", "acosh", "atanh", "log2", "exp2", "asech", "acsch", "acoth"}
UlpBudget == 2048       \* exp2 through exp(x ln 2) loses |x| ulp; the other formulas stay within 4
OrdDist(f, w, v) == ZAbs(ZSub(OrdC(f, Fields(f, w)), OrdC(f, Fields(f, v))))
NearF(t, w, v) == LET f == TypeFmt(t) IN Len(w) = TypeLimbs(t) /\ Len(v) = TypeLimbs(t) /\ ~IsNaNW(t, w) /\ ~IsNaNW(t, v) /\ ZLe(OrdDist(f, w, v), ZFromInt(UlpBudget))
NearW(t, w, v) == w = v \/ (IsNaNW(t, w) /\ IsNaNW(t, v)) \/ (t \in {"f32", "f64"} /\ NearF(t, w, v))
\* the log/sqrt formulas cancel near 0 (asinh, atanh) and near 1 (acosh): there the error is absolute, 16 eps
AbsNear(t, w, v) == LET f == TypeFmt(t) a == Fields(f, w) b == Fields(f, v)
                    IN Len(w) = TypeLimbs(t) /\ Len(v) = TypeLimbs(t) /\ IsFinite(f, a) /\ IsFinite(f, b) /\ DLe(DAbs(DSub(Val(f, a), Val(f, b))), DMul2k(Eps(f), 4))
NearAll(t, x, y) == Len(x) = Len(y) /\ \A i \in 1..Len(x) : NearW(t, x[i], y[i]) \/ AbsNear(t, x[i], y[i])
CompOf(arg, i) == IF Len(arg) = 1 THEN arg[1] ELSE arg[i]
UnfusedVal(f, ev, i) ==          \* FAdd(FMul(a, b), c) for component i; << >> when not finite
    LET a == Fields(f, CompOf(ev.a[1], i)) b == Fields(f, CompOf(ev.a[2], i)) c == Fields(f, CompOf(ev.a[3], i))
    IN IF IsFinite(f, a) /\ IsFinite(f, b) /\ IsFinite(f, c) /\ IsFinite(f, FMul(f, a, b)) THEN FAdd(f, FMul(f, a, b), c) ELSE [s |-> 2, e |-> 0, m |-> << >>]
UnfusedOK(f, base, var, ev, i) ==
    \/ NearW(IF f = F32 THEN "f32" ELSE "f64", base, var) /\ base = var
    \/ LET u == UnfusedVal(f, ev, i) r == Fields(f, var) IN u.s = 2 \/ (IsZero(f, u) /\ IsZero(f, r)) \/ r = u
UnfusedFma(t, ea, eb) ==
    LET f == TypeFmt(t) IN
    /\ \A i \in 1..Len(eb.r) : UnfusedOK(f, ea.r[i], eb.r[i], eb, i)
    /\ ("s" \notin DOMAIN eb \/ \A i \in 1..Len(eb.s) : UnfusedOK(f, ea.s[i], eb.s[i], eb, i))
KnownDeviation(a, b) ==
    IF Kind # "fallback" \/ ~("a" \in DOMAIN a /\ "a" \in DOMAIN b /\ a.a = b.a /\ "r" \in DOMAIN a /\ "r" \in DOMAIN b) THEN ""
    ELSE IF FnOf(a) \in FallbackLibm /\ NearAll(TypeOf(a), a.r, b.r) /\ ("s" \notin DOMAIN a \/ NearAll(TypeOf(a), a.s, b.s)) THEN "KD-C15-cxx98-libm-fallbacks"
    ELSE IF FnOf(a) = "fma" /\ TypeOf(a) \in {"f32", "f64"} /\ Len(a.a) = 3 /\ UnfusedFma(TypeOf(a), a, b) THEN "KD-C15-cxx98-fma-unfused"
    ELSE ""
(***************************************************************************)
(* mode "simd" (C03): TraceA = GLM_FORCE_PURE build, TraceB = intrinsic     *)
(* build with aligned types.  Classes, from the property text:              *)
(*   EXACT   integer, bitwise, comparison, selection, conversion,           *)
(*           rounding-to-integer and single correctly rounded floating      *)
(*           operations: the same value (NaN = NaN, +0 = -0)                *)
(*   MULTI   multi-term floating expressions: within 16 eps of the largest  *)
(*           intermediate term, bounded by max(1, |inputs|)^degree (and by  *)
(*           the result's own magnitude for quotients / roots)              *)
(*   LOWP    on lowp types only, operations containing a division or a      *)
(*           square root may use rcp / rsqrt: relative error <= 2^-11 per   *)
(*           approximation (budget 2^-9 of the result scale)                *)
(*   branch  refract returns the zero vector in both builds or in neither   *)
(***************************************************************************)
Mode == IF "MODE" \in DOMAIN IOEnv THEN IOEnv.MODE ELSE "config"
ExactOps == {"abs", "floor", "ceil", "round", "trunc", "fract", "sign", "min", "max", "step", "clamp", "mixb", "sqrt", "add", "sub", "mul", "div", "neg",
             "eq", "ne", "and", "or", "xor", "not", "shr", "shl", "bitCount", "bitfieldReverse", "toFloat", "tr", "cmul", "outer", "madd", "msub", "mmuls",
             "qadd", "qsub", "qmuls", "qdivs", "qconj", "faceforward", "config"}
LowpApprox == {"sqrt", "inversesqrt", "div", "normalize", "length", "distance", "smoothstep", "mod", "qnormalize", "qlength", "qinverse", "qdivs", "refract", "reflect", "inverse", "affineInverse", "inverseTranspose"}
Degree(op) == CASE op \in {"dot", "cross", "mix", "fma", "mm", "mv", "vm", "qmul", "qdot", "qmat3", "qmat4"} -> 2
                [] op \in {"reflect", "refract", "qrot"} -> 3
                [] op = "det" -> 4
                [] OTHER -> 1
FmtOfEv(ev) == TypeFmt(TypeOf(ev))
IsFloatW(ev, w) == TypeOf(ev) \in {"f32", "f64"} /\ Len(w) = TypeLimbs(TypeOf(ev))
RECURSIVE MaxAbsComps(_, _, _)
MaxAbsComps(f, comps, i) == IF i > Len(comps) THEN DZero
                            ELSE LET x == Fields(f, comps[i]) rest == MaxAbsComps(f, comps, i + 1)
                                 IN IF Len(comps[i]) = FNLimbs(f) /\ IsFinite(f, x) THEN DMax(DAbs(Val(f, x)), rest) ELSE rest
RECURSIVE MaxAbsArgs(_, _, _)
MaxAbsArgs(f, args, k) == IF k > Len(args) THEN DZero ELSE DMax(MaxAbsComps(f, args[k], 1), MaxAbsArgs(f, args, k + 1))
RECURSIVE DPowInt(_, _)
DPowInt(d, n) == IF n = 0 THEN DFromInt(1) ELSE DMul(d, DPowInt(d, n - 1))
AllZeroVec(ev, r) == \A i \in 1..Len(r) : IsZeroW(TypeOf(ev), r[i])
ValueSame(t, w, v) == w = v \/ (IsNaNW(t, w) /\ IsNaNW(t, v)) \/ (IsZeroW(t, w) /\ IsZeroW(t, v))
\* documented domains (events outside are skipped, counted in register 4):
\*  - min / max / clamp with a NaN operand: GLSL leaves the result undefined (minps returns the second operand, the generic
\*    code the first);
\*  - lowp operations that may use rcp / rsqrt: operands finite and either zero or of magnitude within 2^-40 .. 2^40 (the
\*    approximations flush denormal results and map 0 and infinity onto each other), and a non-zero divisor
AnyArgComp(f, args, P(_)) == \E k \in 1..Len(args) : \E i \in 1..Len(args[k]) : Len(args[k][i]) = FNLimbs(f) /\ P(Fields(f, args[k][i]))
Ordinary(f, x) == IsFinite(f, x) /\ (IsZero(f, x) \/ (DLe(DPow2(-40), DAbs(Val(f, x))) /\ DLe(DAbs(Val(f, x)), DPow2(40))))
SimdDomain(a) ==
    LET op == FnOf(a) t == TypeOf(a) f == FmtOfEv(a) IN
    IF t \notin {"f32", "f64"} \/ "a" \notin DOMAIN a THEN TRUE
    ELSE /\ (op \in {"min", "max", "clamp"} => ~AnyArgComp(f, a.a, LAMBDA x : IsNaN(f, x)))
         /\ (("q" \in DOMAIN a /\ a.q = "lowp" /\ op \in LowpApprox) =>
                /\ ~AnyArgComp(f, a.a, LAMBDA x : ~Ordinary(f, x))
                /\ (op \in {"div", "mod", "qdivs", "inversesqrt"} => ~AnyArgComp(f, <<a.a[Len(a.a)]>>, LAMBDA x : IsZero(f, x))))
SimdSame(a, b) ==
    LET op == FnOf(a) t == TypeOf(a) f == FmtOfEv(a) IN
    IF ~("r" \in DOMAIN a /\ "r" \in DOMAIN b /\ "a" \in DOMAIN a /\ a.a = b.a /\ Len(a.r) = Len(b.r)) THEN FALSE
    ELSE IF t \notin {"f32", "f64"} \/ (op \in ExactOps /\ ~(a.q = "lowp" /\ op \in LowpApprox)) THEN \A i \in 1..Len(a.r) : ValueSame(t, a.r[i], b.r[i])
    ELSE LET ra == a.r rb == b.r
             fin == \A i \in 1..Len(ra) : (IsNaNW(t, ra[i]) /\ IsNaNW(t, rb[i])) \/ (IsFloatW(a, ra[i]) /\ IsFinite(f, Fields(f, ra[i])) /\ IsFinite(f, Fields(f, rb[i])))
                                            \/ ra[i] = rb[i]
             mx == DMax(DFromInt(1), MaxAbsArgs(f, a.a, 1))
             rmax == DMax(MaxAbsComps(f, ra, 1), MaxAbsComps(f, rb, 1))
             scale == DMax(DPowInt(mx, Degree(op)), rmax)
             tol == IF a.q = "lowp" /\ op \in LowpApprox THEN DMul2k(scale, -9) ELSE DMul(DMulInt(Eps(f), IF op \in {"inverse", "affineInverse", "inverseTranspose", "qinverse"} THEN 256 ELSE 16), scale)
             \* lowp mod = x - y * floor(x * rcp(y)): an approximate quotient next to an integer may take the other floor, which
             \* moves the result by one period |y|; the results then agree modulo y
             period(i) == LET y == a.a[2] yi == IF Len(y) = Len(ra) THEN y[i] ELSE y[1] IN DAbs(Val(f, Fields(f, yi)))
             diff(i) == DAbs(DSub(Val(f, Fields(f, ra[i])), Val(f, Fields(f, rb[i]))))
             close == \A i \in 1..Len(ra) : ra[i] = rb[i] \/ (IsNaNW(t, ra[i]) /\ IsNaNW(t, rb[i]))
                                             \/ DLe(diff(i), tol)
                                             \/ (op = "mod" /\ a.q = "lowp" /\ DLe(DAbs(DSub(diff(i), period(i))), tol))
         IN fin /\ close /\ (op = "refract" => AllZeroVec(a, ra) = AllZeroVec(b, rb))
Next == /\ l <= Len(TraceA)
        /\ IF Mode = "simd" /\ l <= Len(TraceB) /\ "a" \in DOMAIN TraceA[l] /\ "a" \in DOMAIN TraceB[l] /\ TraceA[l].a = TraceB[l].a /\ ~SimdDomain(TraceA[l]) THEN Bump(3) /\ Bump(4)
           ELSE IF l <= Len(TraceB) /\ (IF Mode = "simd" THEN (FnOf(TraceA[l]) = "config" \/ SimdSame(TraceA[l], TraceB[l])) ELSE Same(TraceA[l], TraceB[l])) THEN Bump(3)
           ELSE IF Mode # "simd" /\ l <= Len(TraceB) /\ KnownDeviation(TraceA[l], TraceB[l]) # "" THEN Bump(3) /\ Bump(2) /\ PrintT(<<"KNOWN", KnownDeviation(TraceA[l], TraceB[l]), l>>)
           ELSE Bump(3) /\ Bump(1) /\ PrintT(<<"MISMATCH", l, FnOf(TraceA[l])>>)
        /\ l' = l + 1
Spec == Init /\ [][Next]_l
Accepted == PrintT(<<"SUMMARY", TLCGet(3), TLCGet(1) + (IF Len(TraceA) = Len(TraceB) THEN 0 ELSE 1), TLCGet(2), TLCGet(4)>>)
=============================================================================
