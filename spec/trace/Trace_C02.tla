----------------------------- MODULE Trace_C02 ----------------------------
(* Trace specification for the matrix operators / functions (C02).
   Integer element types: the result must equal the exact value modulo 2^W.
   Floating types: single operations (element-wise + - * /, scalar forms, outer product,
   matrixCompMult) must be correctly rounded; sums of products (mat*mat, mat*vec, vec*mat)
   must be exact whenever every operand is a small integer (|x| <= 2^10: all partial sums
   are representable) and otherwise lie within (n+1) eps of the sum of |products|. *)
EXTENDS GlmMatrix, TraceBase
VARIABLE l
vars == <<l>>

IsF(ev) == TypeIsFloat(ev.t)
Fm(ev) == TypeFmt(ev.t)
EQ(ev, ws) == ElemSeq(ev.t, ws)
SmallInts(qs) == \A i \in 1..Len(qs) : IsIntQ(qs[i]) /\ NBitLen(qs[i].p.m) <= 10
\* exact value check of one component
ExactComp(ev, w, q) ==
    IF IsF(ev) THEN FinW(w) /\ QEq(QW(w), q)
    ELSE IsIntQ(q) /\ WFromLimbs(w) = WFromZ(TypeW(ev.t), q.p)
RoundedComp(ev, w, q) ==        \* one correctly rounded operation (floating) / exact modulo 2^W (integers)
    IF IsF(ev) THEN (IF QIsZero(q) THEN FinW(w) /\ QIsZero(QW(w)) ELSE IsRNEQ(Fm(ev), Fields(Fm(ev), w), q))
    ELSE ExactComp(ev, w, q)
AllExact(ev, ws, qs) == Len(ws) = Len(qs) /\ \A i \in 1..Len(qs) : ExactComp(ev, ws[i], qs[i])
AllRounded(ev, ws, qs) == Len(ws) = Len(qs) /\ \A i \in 1..Len(qs) : RoundedComp(ev, ws[i], qs[i])
\* sums of products
SumProd(ev, ws, qs, abss, n, inputs) ==
    /\ Len(ws) = Len(qs)
    /\ IF ~IsF(ev) \/ SmallInts(inputs) THEN \A i \in 1..Len(qs) : ExactComp(ev, ws[i], qs[i])
       ELSE \A i \in 1..Len(qs) : FinW(ws[i]) /\ NearRel(QW(ws[i]), qs[i], n + 1, abss[i], Fm(ev))
FiniteIn(ev) == ~IsF(ev) \/ \A k \in 1..Len(ev.a) : AllFin(ev.a[k])
\* do all exact values fit the floating range comfortably (no overflow questions) -- inputs are moderate by construction
Verdict(ev) ==
    IF ~FiniteIn(ev) THEN VSkip ELSE
    CASE ev.op = "mm" ->
            LET A == MatOf(ev.t, ev.c1, ev.r1, ev.a[1]) Bm == MatOf(ev.t, ev.c2, ev.c1, ev.a[2])
            IN VBool(SumProd(ev, ev.r, MMul(A, Bm).e, MMulAbs(A, Bm).e, ev.c1, A.e \o Bm.e))
      [] ev.op = "mv" ->
            LET A == MatOf(ev.t, ev.C, ev.R, ev.a[1]) v == EQ(ev, ev.a[2])
            IN VBool(SumProd(ev, ev.r, MVec(A, v), [r \in 1..A.r |-> QSum([k \in 1..A.c |-> QAbs(QMul(MAt(A, k, r), v[k]))])], ev.C, A.e \o v))
      [] ev.op = "vm" ->
            LET A == MatOf(ev.t, ev.C, ev.R, ev.a[2]) v == EQ(ev, ev.a[1])
            IN VBool(SumProd(ev, ev.r, VMat(v, A), [c \in 1..A.c |-> QSum([k \in 1..A.r |-> QAbs(QMul(v[k], MAt(A, c, k)))])], ev.R, A.e \o v))
      [] ev.op = "tr" -> VBool(AllExact(ev, ev.r, MTranspose(MatOf(ev.t, ev.C, ev.R, ev.a[1])).e))
      [] ev.op = "pos" -> VBool(ev.r = ev.a[1])
      [] ev.op = "neg" -> VBool(AllExact(ev, ev.r, [i \in 1..Len(ev.a[1]) |-> QNeg(EQ(ev, ev.a[1])[i])]))
      [] ev.op = "cmul" -> LET a == EQ(ev, ev.a[1]) b == EQ(ev, ev.a[2]) IN VBool(AllRounded(ev, ev.r, [i \in 1..Len(a) |-> QMul(a[i], b[i])]))
      [] ev.op = "add" -> LET a == EQ(ev, ev.a[1]) b == EQ(ev, ev.a[2]) IN VBool(AllRounded(ev, ev.r, [i \in 1..Len(a) |-> QAdd(a[i], b[i])]))
      [] ev.op = "sub" -> LET a == EQ(ev, ev.a[1]) b == EQ(ev, ev.a[2]) IN VBool(AllRounded(ev, ev.r, [i \in 1..Len(a) |-> QSub(a[i], b[i])]))
      [] ev.op = "adds" -> LET a == EQ(ev, ev.a[1]) s == ElemQ(ev.t, ev.a[2][1]) IN VBool(AllRounded(ev, ev.r, [i \in 1..Len(a) |-> QAdd(a[i], s)]))
      [] ev.op = "subs" -> LET a == EQ(ev, ev.a[1]) s == ElemQ(ev.t, ev.a[2][1]) IN VBool(AllRounded(ev, ev.r, [i \in 1..Len(a) |-> QSub(a[i], s)]))
      [] ev.op = "ssub" -> LET a == EQ(ev, ev.a[1]) s == ElemQ(ev.t, ev.a[2][1]) IN VBool(AllRounded(ev, ev.r, [i \in 1..Len(a) |-> QSub(s, a[i])]))
      [] ev.op = "muls" -> LET a == EQ(ev, ev.a[1]) s == ElemQ(ev.t, ev.a[2][1]) IN VBool(AllRounded(ev, ev.r, [i \in 1..Len(a) |-> QMul(a[i], s)]))
      [] ev.op = "divs" -> LET a == EQ(ev, ev.a[1]) s == ElemQ(ev.t, ev.a[2][1]) IN
            IF QIsZero(s) THEN VSkip
            ELSE VBool(AllRounded(ev, ev.r, [i \in 1..Len(a) |-> IF IsF(ev) THEN QDiv(a[i], s) ELSE ZTruncDivQ(a[i], s)]))
      [] ev.op = "sdiv" -> LET a == EQ(ev, ev.a[1]) s == ElemQ(ev.t, ev.a[2][1]) IN
            IF \E i \in 1..Len(a) : QIsZero(a[i]) THEN VSkip
            ELSE VBool(AllRounded(ev, ev.r, [i \in 1..Len(a) |-> IF IsF(ev) THEN QDiv(s, a[i]) ELSE ZTruncDivQ(s, a[i])]))
      [] ev.op \in {"eq", "ne"} ->
            LET a == EQ(ev, ev.a[1]) b == EQ(ev, ev.a[2]) same == \A i \in 1..Len(a) : QEq(a[i], b[i])
            IN VBool((ev.r[1] = <<1>>) = (IF ev.op = "eq" THEN same ELSE ~same))
      [] ev.op = "rowget" -> VBool(AllExact(ev, ev.r, MRow(MatOf(ev.t, ev.C, ev.R, ev.a[1]), ev.i + 1)))
      [] ev.op = "colget" -> VBool(AllExact(ev, ev.r, MCol(MatOf(ev.t, ev.C, ev.R, ev.a[1]), ev.i + 1)))
      [] ev.op = "rowset" -> VBool(AllExact(ev, ev.r, RowSet(MatOf(ev.t, ev.C, ev.R, ev.a[1]), ev.i + 1, EQ(ev, ev.a[2])).e))
      [] ev.op = "colset" -> VBool(AllExact(ev, ev.r, ColSet(MatOf(ev.t, ev.C, ev.R, ev.a[1]), ev.i + 1, EQ(ev, ev.a[2])).e))
      [] ev.op = "outer" -> VBool(AllRounded(ev, ev.r, MOuter(EQ(ev, ev.a[1]), EQ(ev, ev.a[2])).e))
      [] ev.op = "conv" -> VBool(AllExact(ev, ev.r, Convert(ev.C, ev.R, MatOf(ev.t, ev.c2, ev.r2, ev.a[1])).e))
      [] ev.op = "rowMajorV" -> VBool(AllExact(ev, ev.r, RowMajorV([k \in 1..ev.n |-> EQ(ev, ev.a[k])]).e))
      [] ev.op = "colMajorV" -> VBool(AllExact(ev, ev.r, ColMajorV([k \in 1..ev.n |-> EQ(ev, ev.a[k])]).e))
      [] ev.op = "matrixCross" -> VBool(AllExact(ev, ev.r, MatrixCross(ev.n, EQ(ev, ev.a[1])).e))
      [] OTHER -> VBad

Init == l = 1 /\ RegInit
Next == /\ l <= NTrace
        /\ LET ev == TraceLog[l] IN IF IsMarker(ev) THEN Bump(3) ELSE Record(l, Verdict(ev), ev.op)
        /\ l' = l + 1
Spec == Init /\ [][Next]_vars
Accepted == Summary
=============================================================================
