----------------------------- MODULE Trace_C19 ----------------------------
(* Trace specification for the colour-space conversions (C19).  Stateless: every event is one GLM call
   (or a composed pair of calls for the "inverse" laws) and is judged on its own against GlmColor.tla.

   Floating results are compared with exact rationals under explicit tolerances (eps = 2^-23 / 2^-52):
     sRGB power segment      2^-10/1000 (float), 2^-38/1000 (double) absolute on the curve value; the default
                             convertLinearToSRGB uses the exponent 0.41666 instead of 1/2.4, which raises the result by
                             at most 6.2e-6: its bracket is [curve - 1e-6, curve + 2^-7/1000 = 7.8e-6]
     sRGB linear toe         2^-26 / 2^-55 (forward), 2^-29 / 2^-58 (inverse): 1 rounding of a value < 0.0405 / 0.0032
     composed sRGB inverse   2^-16 absolute (the exponent 0.41666 and the inexact knee constants)
     hsvColor                v exact; s within 2 eps; hue within 360 eps (1 + 1/Delta) on the circle
     rgbColor                16 eps v per channel
     YCoCg, YCoCg-R (float)  2..4 ulp of the sum of the magnitudes of the operands
     saturation              4 eps (1 + 2|s|) per matrix entry, 8 eps (1 + 2|s|) sum|c| per transformed channel
     luminosity              4 eps sum |w_i c_i|
   Integer YCoCg-R is exact.  Inputs outside the documented domain ([0,1] colour components, hue in [0,360),
   integer triples whose lifting overflows the element type) constrain nothing. *)
EXTENDS GlmColor, TraceBase
VARIABLE l
vars == <<l>>

Fmt(ev) == TypeFmt(ev.t)
FV(f, v) == [x \in 1..Len(v) |-> Fields(f, v[x])]
AllFin(f, fv) == \A x \in 1..Len(fv) : IsFinite(f, fv[x])
DV(f, fv) == [x \in 1..Len(fv) |-> Val(f, fv[x])]
QV(f, fv) == [x \in 1..Len(fv) |-> QFromD(Val(f, fv[x]))]
DIn01(d) == DSign(d) >= 0 /\ DLe(d, DOne)
QIn01(q) == QSign(q) >= 0 /\ QLe(q, QOne)
EpsQ(f) == QFromD(Eps(f))
NColour(ev) == IF ev.n > 3 THEN 3 ELSE ev.n
Q180 == QI(180)
Verdicts(S, kd) == IF "bad" \in S THEN VBad ELSE IF "kd" \in S THEN VKnown(kd) ELSE IF S \subseteq {"skip"} THEN VSkip ELSE VOk

----------------------------------------------------------------------------
(* sRGB transfer curves *)
FwdK(f) == IF f = F64 THEN -38 ELSE -10
InvK(f) == IF f = F64 THEN -48 ELSE -20
LinFwdK(f) == IF f = F64 THEN -55 ELSE -26
LinInvK(f) == IF f = F64 THEN -58 ELSE -29
IsDefault(ev) == ev.gp = 0
GP(ev) == IF ev.gp = 0 THEN 12 ELSE ev.gp
GQ(ev) == IF ev.gp = 0 THEN 5 ELSE ev.gq
StdGamma(ev) == GP(ev) = 12 /\ GQ(ev) = 5
GammaArgOk(ev) == IsDefault(ev) \/ (LET g == Fields(Fmt(ev), ev.a[2][1]) IN IsFinite(Fmt(ev), g) /\ IsRNEQ(Fmt(ev), g, QR(ev.gp, ev.gq)))
SrgbDom(f, x) == IsFinite(f, x) /\ DIn01(Val(f, x))

\* value of one colour component: "skip" | "ok" | "bad" | "neg" (conforms to the curve formula but is negative)
SrgbComp(ev, f, fwd, x, r) ==
    IF ~SrgbDom(f, x) THEN "skip"
    ELSE IF ~IsFinite(f, r) THEN "bad"
    ELSE LET xd == Val(f, x) rd == Val(f, r)
             onCurve == IF fwd THEN (IF L2SIsLinear(f, xd) THEN LinFwdWithin(xd, rd, LinFwdK(f))
                                     ELSE PowFwdWithin(xd, rd, GP(ev), GQ(ev), IF IsDefault(ev) THEN -7 ELSE FwdK(f), FwdK(f)))
                        ELSE (IF S2LIsLinear(f, xd) THEN LinInvWithin(xd, rd, LinInvK(f))
                              ELSE PowInvWithin(xd, rd, GP(ev), GQ(ev), InvK(f)))
             fix0 == DIsZero(xd) => DIsZero(rd)
             fix1 == DEq(xd, DOne) => DLe(DAbs(DSub(rd, DOne)), DMul2k(Eps(f), 3))
             below == DLe(rd, DAdd(DOne, Eps(f)))
         IN IF ~(onCurve /\ fix0 /\ fix1 /\ below) THEN "bad" ELSE IF DSign(rd) < 0 THEN "neg" ELSE "ok"
\* monotonicity inside one event: x_a <= x_b  =>  r_a <= r_b (+ one ulp of rounding inside a segment; across the knee
\* the two segments of the standard curve meet only to ~3e-8, the accuracy of the constants: slack 2^-23)
SrgbMono(ev, f, fwd, xa, ra, xb, rb) ==
    IF ~(SrgbDom(f, xa) /\ SrgbDom(f, xb) /\ IsFinite(f, ra) /\ IsFinite(f, rb)) THEN "skip"
    ELSE LET a == Val(f, xa) b == Val(f, xb) va == Val(f, ra) vb == Val(f, rb)
             seg(d) == IF fwd THEN L2SIsLinear(f, d) ELSE S2LIsLinear(f, d)
         IN IF ~DLe(a, b) THEN "skip"
            ELSE IF seg(a) = seg(b) THEN (IF DLe(va, DAdd(vb, IF DIsZero(vb) THEN DZero ELSE UlpOf(f, vb))) THEN "ok" ELSE "bad")
            ELSE IF DLe(va, DAdd(vb, DPow2(-23))) THEN "ok"
            ELSE "knee"
\* the lowp vec3<float> specialisation of the default convertLinearToSRGB evaluates the Taylor approximation
LowpCase(ev) == ev.op = "l2s" /\ ev.q = "l" /\ ev.t = "f32" /\ ev.n = 3 /\ IsDefault(ev)
LowpApproxAll(ev) ==
    LET f == Fmt(ev) IN
    \A c \in 1..3 : LET x == Fields(f, ev.a[1][c]) r == Fields(f, ev.r[c]) IN
        SrgbDom(f, x) => IsFinite(f, r) /\ QNear(QFromD(Val(f, r)), LowpSrgbApprox(Val(f, x)), QFromD(DPow2(-20)))
SrgbVerdict(ev) ==
    LET f == Fmt(ev) fwd == ev.op = "l2s" nc == NColour(ev)
        X(c) == Fields(f, ev.a[1][c]) R(c) == Fields(f, ev.r[c])
        comps == {SrgbComp(ev, f, fwd, X(c), R(c)) : c \in 1..nc}
        mono == {SrgbMono(ev, f, fwd, X(p[1]), R(p[1]), X(p[2]), R(p[2])) : p \in {q \in (1..nc) \X (1..nc) : q[1] # q[2]}}
        alpha == IF ev.n = 4 /\ ev.r[4] # ev.a[1][4] THEN {"bad"} ELSE {}
        S == comps \cup mono \cup alpha
    IN IF ~GammaArgOk(ev) \/ Len(ev.r) # ev.n THEN VBad
       ELSE IF "bad" \in S \/ ((("neg" \in S) \/ ("knee" \in S)) /\ (IsDefault(ev) \/ StdGamma(ev)))
            THEN (IF LowpCase(ev) /\ LowpApproxAll(ev) THEN VKnown("KD-C19-lowp-linearToSRGB-approximation") ELSE VBad)
       ELSE IF "neg" \in S \/ "knee" \in S THEN VKnown("KD-C19-srgb-custom-gamma-knee")
       ELSE IF comps \subseteq {"skip"} THEN VSkip ELSE VOk

\* composed inverse  z = back(forth(x)):  |z - x| <= 2^-16; with a custom gamma the two toes / power segments do not meet at
\* the knee, so near the knee the second call takes the other segment -- pinned: exactly that segment mismatch, and z is what
\* the other segment yields
SrgbRTComp(ev, f, x, y, z) ==
    IF ~SrgbDom(f, x) THEN "skip"
    ELSE IF ~IsFinite(f, z) \/ ~IsFinite(f, y) THEN "bad"
    ELSE LET xd == Val(f, x) yd == Val(f, y) zd == Val(f, z) IN
         IF DLe(DAbs(DSub(zd, xd)), DPow2(-16)) THEN "ok"
         ELSE IF IsDefault(ev) \/ StdGamma(ev) THEN "bad"
         ELSE IF ev.d = "ls" THEN
              (IF ~L2SIsLinear(f, xd) /\ S2LIsLinear(f, yd) /\ LinInvWithin(yd, zd, LinInvK(f)) THEN "kd" ELSE "bad")
         ELSE (IF ~S2LIsLinear(f, xd) /\ DSign(yd) >= 0 /\ L2SIsLinear(f, yd) /\ LinFwdWithin(yd, zd, LinFwdK(f)) THEN "kd"
               ELSE IF S2LIsLinear(f, xd) /\ QLe(QMul(SlopeQ, KneeLinQ), QFromD(xd)) /\ ~L2SIsLinear(f, yd)
                       /\ PowFwdWithin(yd, zd, GP(ev), GQ(ev), FwdK(f), FwdK(f)) THEN "kd"
               ELSE "bad")
SrgbRTVerdict(ev) ==
    LET f == Fmt(ev) nc == NColour(ev)
        S == {SrgbRTComp(ev, f, Fields(f, ev.a[1][c]), Fields(f, ev.y[c]), Fields(f, ev.r[c])) : c \in 1..nc}
             \cup (IF ev.n = 4 /\ ev.r[4] # ev.a[1][4] THEN {"bad"} ELSE {})
    IN IF ~GammaArgOk(ev) THEN VBad ELSE Verdicts(S, "KD-C19-srgb-custom-gamma-knee")

----------------------------------------------------------------------------
(* HSV <-> RGB *)
InCube(qv) == \A x \in 1..3 : QIn01(qv[x])
HsvDom(qv) == QSign(qv[1]) >= 0 /\ QLt(qv[1], Q360) /\ QIn01(qv[2]) /\ QIn01(qv[3])
HueTol(f, d) == QMul(QMulInt(EpsQ(f), 360), QAdd(QOne, QDiv(QOne, d)))            \* d = max - min > 0

HsvColorVerdict(ev) ==
    LET f == Fmt(ev) c == FV(f, ev.a[1]) r == FV(f, ev.r) IN
    IF ~AllFin(f, c) THEN VSkip
    ELSE LET cq == QV(f, c) IN
    IF ~InCube(cq) THEN VSkip
    ELSE LET mx == QMax3(cq) d == QSub(mx, QMin3(cq)) IN
    IF ~IsFinite(f, r[3]) \/ ~QEq(QFromD(Val(f, r[3])), mx) THEN VBad                              \* value = max, exactly
    ELSE IF ~IsFinite(f, r[2]) \/ ~QIn01(QFromD(Val(f, r[2]))) THEN VBad                          \* saturation in [0,1]
    ELSE IF QLe(mx, EpsQ(f)) THEN VOk                                                             \* (near) black: s, h are a convention
    ELSE IF ~QNear(QFromD(Val(f, r[2])), QDiv(d, mx), QMulInt(EpsQ(f), 2)) THEN VBad
    ELSE IF QIsZero(d) THEN VOk                                                                   \* grey: the hue is unconstrained
    ELSE LET tol == HueTol(f, d) IN
    IF QLe(Q180, tol) THEN VOk                                                                    \* hue numerically meaningless
    ELSE IF ~IsFinite(f, r[1]) THEN VBad
    ELSE LET hr == QFromD(Val(f, r[1])) h == HueOfRgb(cq) IN
    IF ~QLe(HueDist(hr, h), tol) THEN VBad
    ELSE IF QSign(hr) >= 0 /\ QLt(hr, Q360) THEN VOk
    ELSE IF QEq(hr, Q360) /\ QLt(Q180, h) THEN VKnown("KD-C19-hsvColor-hue-360")                  \* a hue just below 360: h + 360 rounded up to 360.0
    ELSE VBad

RgbColorVerdict(ev) ==
    LET f == Fmt(ev) c == FV(f, ev.a[1]) r == FV(f, ev.r) IN
    IF ~AllFin(f, c) THEN VSkip
    ELSE LET cq == QV(f, c) IN
    IF ~HsvDom(cq) THEN VSkip
    ELSE IF ~AllFin(f, r) THEN VBad
    ELSE LET e == RgbOfHsv(cq) rq == QV(f, r) tol == QMul(QMulInt(EpsQ(f), 16), cq[3]) IN
         VBool(\A x \in 1..3 : QNear(rq[x], e[x], tol) /\ QIn01(rq[x]))

\* rgb -> hsv -> rgb
HsvRTVerdict(ev) ==
    LET f == Fmt(ev) c == FV(f, ev.a[1]) r == FV(f, ev.r) IN
    IF ~AllFin(f, c) THEN VSkip
    ELSE LET cq == QV(f, c) IN
    IF ~InCube(cq) THEN VSkip
    ELSE IF ~AllFin(f, r) THEN VBad
    ELSE LET rq == QV(f, r) IN VBool(\A x \in 1..3 : QNear(rq[x], cq[x], QMulInt(EpsQ(f), 64)))
\* hsv -> rgb -> hsv
RgbRTVerdict(ev) ==
    LET f == Fmt(ev) c == FV(f, ev.a[1]) r == FV(f, ev.r) eps == EpsQ(f) IN
    IF ~AllFin(f, c) THEN VSkip
    ELSE LET cq == QV(f, c) IN
    IF ~HsvDom(cq) THEN VSkip
    ELSE IF ~IsFinite(f, r[3]) \/ ~QNear(QFromD(Val(f, r[3])), cq[3], QMul(QMulInt(eps, 16), cq[3])) THEN VBad
    ELSE IF QLe(cq[3], QMulInt(eps, 1024)) THEN VOk                                               \* (near) black
    ELSE IF ~IsFinite(f, r[2]) \/ ~QNear(QFromD(Val(f, r[2])), cq[2], QMulInt(eps, 64)) THEN VBad
    ELSE IF QIsZero(cq[2]) THEN VOk
    ELSE LET tol == QSum(<< QMulInt(eps, 360), QDiv(QMulInt(eps, 2048), cq[2]), QDiv(QMulInt(eps, 360), QMul(cq[2], cq[3])) >>) IN
    IF QLe(QI(90), tol) THEN VOk
    ELSE VBool(IsFinite(f, r[1]) /\ QLe(HueDist(QFromD(Val(f, r[1])), cq[1]), tol))

----------------------------------------------------------------------------
(* YCoCg, floating element types: result = exact dyadic sum of the listed terms, within k ulp of the sum of magnitudes *)
DHalf(d) == DMul2k(d, -1)
DQuarter(d) == DMul2k(d, -2)
SumAbs(dv) == DSum([x \in 1..Len(dv) |-> DAbs(dv[x])])
NearSum(f, r, terms, scale, k) ==
    /\ IsFinite(f, r)
    /\ IF DIsZero(scale) THEN DIsZero(Val(f, r))
       ELSE DLe(DAbs(DSub(Val(f, r), DSum(terms))), DMulInt(UlpOf(f, scale), k))
YCoCgFloatVerdict(ev) ==
    LET f == Fmt(ev) c == FV(f, ev.a[1]) r == FV(f, ev.r) IN
    IF ~AllFin(f, c) THEN VSkip
    ELSE LET v == DV(f, c) s == SumAbs(v)
             si == DSum(<<DAbs(v[1]), DMul2k(DAbs(v[2]), 1), DMul2k(DAbs(v[3]), 1)>>) IN
    CASE ev.op = "rgb2YCoCg" ->
           VBool(/\ NearSum(f, r[1], <<DQuarter(v[1]), DHalf(v[2]), DQuarter(v[3])>>, s, 2)
                 /\ NearSum(f, r[2], <<DHalf(v[1]), DNeg(DHalf(v[3]))>>, s, 2)
                 /\ NearSum(f, r[3], <<DNeg(DQuarter(v[1])), DHalf(v[2]), DNeg(DQuarter(v[3]))>>, s, 2))
      [] ev.op = "YCoCg2rgb" ->
           VBool(/\ NearSum(f, r[1], <<v[1], v[2], DNeg(v[3])>>, s, 2)
                 /\ NearSum(f, r[2], <<v[1], v[3]>>, s, 2)
                 /\ NearSum(f, r[3], <<v[1], DNeg(v[2]), DNeg(v[3])>>, s, 2))
      [] ev.op = "rgb2YCoCgR" ->
           VBool(/\ NearSum(f, r[1], <<DHalf(v[2]), DQuarter(v[1]), DQuarter(v[3])>>, s, 2)
                 /\ NearSum(f, r[2], <<v[1], DNeg(v[3])>>, s, 2)
                 /\ NearSum(f, r[3], <<v[2], DNeg(DHalf(v[1])), DNeg(DHalf(v[3]))>>, s, 2))
      [] ev.op = "YCoCgR2rgb" ->
           VBool(/\ NearSum(f, r[1], <<v[1], DNeg(DHalf(v[3])), DHalf(v[2])>>, si, 4)
                 /\ NearSum(f, r[2], <<v[1], DHalf(v[3])>>, si, 4)
                 /\ NearSum(f, r[3], <<v[1], DNeg(DHalf(v[3])), DNeg(DHalf(v[2]))>>, si, 4))
\* rgb -> YCoCg(-R) -> rgb
YCoCgRTVerdict(ev) ==
    LET f == Fmt(ev) c == FV(f, ev.a[1]) r == FV(f, ev.r) IN
    IF ~AllFin(f, c) THEN VSkip
    ELSE LET v == DV(f, c) s == SumAbs(v) IN VBool(\A x \in 1..3 : NearSum(f, r[x], <<v[x]>>, s, 8))

(* YCoCg-R, integer element types: exact *)
ZV(ev, v) == [x \in 1..Len(v) |-> WToZ(TypeW(ev.t), TypeSigned(ev.t), WFromLimbs(v[x]))]
FitsT(ev, S) == \A z \in S : ZInRange(TypeW(ev.t), TypeSigned(ev.t), z)
ZEq3(a, b) == \A x \in 1..3 : ZEq(a[x], b[x])
YCoCgRIntVerdict(ev) ==
    LET c == ZV(ev, ev.a[1]) fw == ZV(ev, ev.f) IN
    IF ev.r # ev.a[1] THEN VBad                                                   \* lossless, bit for bit
    ELSE IF ~FitsT(ev, YCoCgRFwdTerms(c)) THEN VOk                                \* forward values not representable: only the round trip is constrained
    ELSE VBool(ZEq3(fw, YCoCgROfRgbZ(c)))
YCoCgRInvIntVerdict(ev) ==
    LET y == ZV(ev, ev.a[1]) IN
    IF ~FitsT(ev, YCoCgRInvTerms(y)) THEN VSkip ELSE VBool(ZEq3(ZV(ev, ev.r), RgbOfYCoCgRZ(y)))

----------------------------------------------------------------------------
(* saturation, luminosity *)
SatScale(f, sq) == QMul(EpsQ(f), QAdd(QOne, QMulInt(QAbs(sq), 2)))          \* eps (1 + 2 |s|)
SaturationMVerdict(ev) ==
    LET f == Fmt(ev) s == Fields(f, ev.a[1][1]) r == FV(f, ev.r) IN
    IF ~IsFinite(f, s) THEN VSkip
    ELSE IF Len(ev.r) # 16 \/ ~AllFin(f, r) THEN VBad
    ELSE LET sq == QFromD(Val(f, s)) m == SatMatrix(sq) rq == QV(f, r) tol == QMulInt(SatScale(f, sq), 4) IN
         VBool(\A x \in 1..16 : IF x > 12 \/ x % 4 = 0 THEN QEq(rq[x], m[x]) ELSE QNear(rq[x], m[x], tol))
SaturationVerdict(ev) ==
    LET f == Fmt(ev) s == Fields(f, ev.a[1][1]) c == FV(f, ev.a[2]) r == FV(f, ev.r) IN
    IF ~IsFinite(f, s) \/ ~AllFin(f, c) THEN VSkip
    ELSE IF Len(ev.r) # ev.n \/ ~AllFin(f, r) THEN VBad
    ELSE LET sd == Val(f, s) cd == DV(f, c) rd == DV(f, r)
             e == SatColourD(sd, cd)                    \* 10000 * rows 1..3 of SatMatrix(s) * (c, alpha), for any alpha (MC_C19)
             tol == DMulInt(DMul(DMul(Eps(f), DAdd(DOne, DMul2k(DAbs(sd), 1))), DSum(<<DAbs(cd[1]), DAbs(cd[2]), DAbs(cd[3])>>)), 80000)
         IN VBool(/\ \A x \in 1..3 : DLe(DAbs(DSub(DMulInt(rd[x], 10000), e[x])), tol)
                  /\ (ev.n = 4 => DEq(rd[4], cd[4])))
LuminosityVerdict(ev) ==
    LET f == Fmt(ev) c == FV(f, ev.a[1]) r == Fields(f, ev.r[1]) IN
    IF ~AllFin(f, c) THEN VSkip
    ELSE IF ~IsFinite(f, r) THEN VBad
    ELSE LET cd == DV(f, c) r100 == DMulInt(Val(f, r), 100)
             tol == DMul(DMul2k(Eps(f), 2), LumaDocD(<<DAbs(cd[1]), DAbs(cd[2]), DAbs(cd[3])>>))         \* 100 * 4 eps sum w_i |c_i|
         IN IF ~DLe(DAbs(DSub(r100, LumaDocD(cd))), tol) THEN VBad                 \* the documented weights (0.33, 0.59, 0.11)
            ELSE IF DEq(cd[1], cd[2]) /\ DEq(cd[2], cd[3]) /\ ~DLe(DAbs(DSub(r100, DMulInt(cd[1], 100))), tol)
                 THEN VKnown("KD-C19-luminosity-grey-level")                      \* a grey level g has luminosity 1.03 g
            ELSE VOk

----------------------------------------------------------------------------
Verdict(ev) ==
    CASE ev.op \in {"l2s", "s2l"} -> SrgbVerdict(ev)
      [] ev.op = "srgbRT" -> SrgbRTVerdict(ev)
      [] ev.op = "hsvColor" -> HsvColorVerdict(ev)
      [] ev.op = "rgbColor" -> RgbColorVerdict(ev)
      [] ev.op = "hsvRT" -> HsvRTVerdict(ev)
      [] ev.op = "rgbRT" -> RgbRTVerdict(ev)
      [] ev.op \in {"rgb2YCoCg", "YCoCg2rgb", "rgb2YCoCgR", "YCoCgR2rgb"} -> YCoCgFloatVerdict(ev)
      [] ev.op = "ycocgRT" -> YCoCgRTVerdict(ev)
      [] ev.op = "ycocgr" -> YCoCgRIntVerdict(ev)
      [] ev.op = "ycocgrInv" -> YCoCgRInvIntVerdict(ev)
      [] ev.op = "ycocgrSweep" -> VBool(ev.bad = 0 /\ ev.cnt > 0)
      [] ev.op = "saturationM" -> SaturationMVerdict(ev)
      [] ev.op = "saturation" -> SaturationVerdict(ev)
      [] ev.op = "luminosity" -> LuminosityVerdict(ev)
      [] OTHER -> VBad

Init == l = 1 /\ RegInit
Next == /\ l <= NTrace
        /\ LET ev == TraceLog[l] IN IF IsMarker(ev) THEN Bump(3) ELSE Record(l, Verdict(ev), ev.op)
        /\ l' = l + 1
Spec == Init /\ [][Next]_vars
Accepted == Summary
=============================================================================
