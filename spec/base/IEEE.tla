------------------------------ MODULE IEEE --------------------------------
(***************************************************************************)
(* IEEE-754 binary interchange formats, parametric in (eb, mb).            *)
(* A bit pattern travels as a little-endian sequence of 16-bit limbs (the  *)
(* trace format); it is decoded into fields [s, e, m] with m a BigInt      *)
(* magnitude, and every finite pattern denotes an exact dyadic number.     *)
(* Nothing here is floating point: rounding is defined on exact dyadics    *)
(* and rationals, so the oracle has no rounding error of its own.          *)
(* The model is validated against the hardware FPU (MC_Base / C11 echo).   *)
(***************************************************************************)
EXTENDS Exact

F16 == [eb |-> 5,  mb |-> 10]
F32 == [eb |-> 8,  mb |-> 23]
F64 == [eb |-> 11, mb |-> 52]
FMini == [eb |-> 4, mb |-> 3]

FBits(f) == 1 + f.eb + f.mb
FBias(f) == 2^(f.eb - 1) - 1
FEMax(f) == 2^f.eb - 1                      \* biased exponent of inf/nan
FEmin(f) == 1 - FBias(f)                    \* exponent of the smallest normal binade
FNLimbs(f) == (FBits(f) + 15) \div 16

Fields(f, w) ==
    LET u == NFromLimbs16(w)
    IN [s |-> NBit(u, f.eb + f.mb),
        e |-> NToNat(NLowBits(NShr(u, f.mb), f.eb)),
        m |-> NLowBits(u, f.mb)]

Pattern(f, x) ==        \* fields -> limbs
    NToLimbs16(NAdd(NShl(NFromNat(x.s * 2^f.eb + x.e), f.mb), x.m), FNLimbs(f))

Class(f, x) == IF x.e = FEMax(f) THEN (IF NIsZero(x.m) THEN "inf" ELSE "nan")
               ELSE IF x.e = 0 THEN (IF NIsZero(x.m) THEN "zero" ELSE "sub")
               ELSE "norm"
IsNaN(f, x) == x.e = FEMax(f) /\ ~NIsZero(x.m)
IsInf(f, x) == x.e = FEMax(f) /\ NIsZero(x.m)
IsFinite(f, x) == x.e # FEMax(f)
IsZero(f, x) == x.e = 0 /\ NIsZero(x.m)

\* exact value of a finite pattern
Val(f, x) == IF x.e = 0 THEN DMk(x.s = 1, x.m, FEmin(f) - f.mb)
             ELSE DMk(x.s = 1, NAdd(x.m, NShl(<<1>>, f.mb)), x.e - FBias(f) - f.mb)
ValW(f, w) == Val(f, Fields(f, w))

\* position on the ordered line as a signed BigInt:  -max ... -0 -> negative, +0 ... +max -> >= 0
\* (+0 is 0 and -0 is -1, i.e. adjacent; users that identify them say so)
Mag(f, x) == NAdd(NShl(NFromNat(x.e), f.mb), x.m)
Ord(f, x) == IF x.s = 1 THEN ZSub(ZMk(TRUE, Mag(f, x)), ZFromInt(1)) ELSE ZMk(FALSE, Mag(f, x))
\* "collapsed" order in which +0 and -0 are the same point
OrdC(f, x) == ZMk(x.s = 1, Mag(f, x))
FromMag(f, s, mag) == [s |-> s, e |-> NToNat(NShr(mag, f.mb)), m |-> NLowBits(mag, f.mb)]

FInf(f, s)  == [s |-> s, e |-> FEMax(f), m |-> << >>]
FZero(f, s) == [s |-> s, e |-> 0, m |-> << >>]
FMaxFinite(f, s) == [s |-> s, e |-> FEMax(f) - 1, m |-> NSub(NShl(<<1>>, f.mb), <<1>>)]
FOne(f) == [s |-> 0, e |-> FBias(f), m |-> << >>]

\* Round a non-zero magnitude m * 2^e to nearest, ties to even; sticky = an extra
\* "there is more below" flag (used by rational rounding).  Result: fields with sign s.
RoundMag(f, s, m, e, sticky) ==
    LET E     == e + NBitLen(m) - 1                       \* leading-bit exponent
        q     == (IF E < FEmin(f) THEN FEmin(f) ELSE E) - f.mb     \* quantum exponent
        sh    == q - e
        sig0  == IF sh <= 0 THEN NShl(m, -sh) ELSE NShr(m, sh)
        half  == sh > 0 /\ NBit(m, sh - 1) = 1
        rest  == (sh > 1 /\ ~NLowZero(m, sh - 1)) \/ (sh > 0 /\ sticky)
        up    == half /\ (rest \/ ~NIsEven(sig0))
        sig1  == IF up THEN NAdd(sig0, <<1>>) ELSE sig0
        ovf   == NBitLen(sig1) > f.mb + 1
        sig   == IF ovf THEN NShr(sig1, 1) ELSE sig1
        q2    == IF ovf THEN q + 1 ELSE q
        norm  == NBitLen(sig) = f.mb + 1
        be    == IF norm THEN q2 + f.mb + FBias(f) ELSE 0
    IN IF be >= FEMax(f) THEN FInf(f, s)
       ELSE [s |-> s, e |-> be, m |-> IF norm THEN NLowBits(sig, f.mb) ELSE sig]

\* dyadic -> nearest pattern (zero keeps the sign given in zs)
RoundD(f, d, zs) == IF DIsZero(d) THEN FZero(f, zs)
                    ELSE RoundMag(f, IF d.neg THEN 1 ELSE 0, d.m, d.e, FALSE)
\* rational -> nearest pattern
RoundQ(f, r, zs) ==
    IF QIsZero(r) THEN FZero(f, zs)
    ELSE LET k   == f.mb + 3 + NBitLen(r.q) - NBitLen(r.p.m)    \* quotient gets >= mb+2 bits
             k2  == IF k < 0 THEN 0 ELSE k
             qr  == NDivMod(NShl(r.p.m, k2), r.q)
         IN RoundMag(f, IF r.p.neg THEN 1 ELSE 0, qr[1], -k2, ~NIsZero(qr[2]))

IsRepresentable(f, d) == DIsZero(d) \/ (LET x == RoundD(f, d, 0) IN IsFinite(f, x) /\ DEq(Val(f, x), d))

\* unit in the last place of the binade that contains |d| (d # 0), as a dyadic
UlpOf(f, d) == LET E == DTopExp(d) IN DPow2((IF E < FEmin(f) THEN FEmin(f) ELSE E) - f.mb)
Eps(f) == DPow2(-f.mb)             \* 2^-23 / 2^-52 (numeric_limits::epsilon)

\* IEEE basic operations on finite operands (fields), correctly rounded
SignOfSum(a, b) == IF a.s = b.s THEN a.s ELSE 0       \* exact-zero sum sign under RNE
FAdd(f, a, b) == RoundD(f, DAdd(Val(f, a), Val(f, b)), SignOfSum(a, b))
FSub(f, a, b) == RoundD(f, DSub(Val(f, a), Val(f, b)), IF a.s # b.s THEN a.s ELSE 0)
FMul(f, a, b) == RoundD(f, DMul(Val(f, a), Val(f, b)), (a.s + b.s) % 2)
FDiv(f, a, b) == RoundQ(f, QDiv(QFromD(Val(f, a)), QFromD(Val(f, b))), (a.s + b.s) % 2)   \* b # 0

\* Postcondition form of correct rounding (no division): is the pattern x the
\* round-to-nearest-even image of the rational Q ?  (x not NaN)
MagVal(f, g) == Val(f, FromMag(f, 0, g))       \* value of magnitude g; the inf magnitude reads 2^(emax+1)
IsRNEQ(f, x, Q) ==
    LET g   == Mag(f, x)
        Qa  == QAbs(Q)
        v   == QFromD(MagVal(f, g))
        two == QFromInt(2)
        hi  == QDiv(QAdd(v, QFromD(MagVal(f, NAdd(g, <<1>>)))), two)
        lo  == IF NIsZero(g) THEN QNeg(QDiv(QFromD(MagVal(f, <<1>>)), two))
               ELSE QDiv(QAdd(v, QFromD(MagVal(f, NSub(g, <<1>>)))), two)
        ev  == NIsEven(g)
    IN /\ (QIsZero(Q) \/ NIsZero(g) \/ (QSign(Q) < 0) = (x.s = 1))
       /\ IF IsInf(f, x) THEN QLe(lo, Qa)
          ELSE /\ (QLt(lo, Qa) \/ (ev /\ QEq(lo, Qa)))
               /\ (QLt(Qa, hi) \/ (ev /\ QEq(Qa, hi)))
\* the same for a dyadic, entirely in dyadic arithmetic (midpoints of neighbours are dyadic): no big multiplications
IsRNED(f, x, d) ==
    LET g   == Mag(f, x)
        da  == DAbs(d)
        v   == MagVal(f, g)
        hi  == DMul2k(DAdd(v, MagVal(f, NAdd(g, <<1>>))), -1)
        lo  == IF NIsZero(g) THEN DNeg(DMul2k(MagVal(f, <<1>>), -1)) ELSE DMul2k(DAdd(v, MagVal(f, NSub(g, <<1>>))), -1)
        ev  == NIsEven(g)
    IN /\ (DIsZero(d) \/ NIsZero(g) \/ d.neg = (x.s = 1))
       /\ IF IsInf(f, x) THEN DLe(lo, da)
          ELSE /\ (DLt(lo, da) \/ (ev /\ DEq(lo, da)))
               /\ (DLt(da, hi) \/ (ev /\ DEq(da, hi)))
\* faithful rounding: x is one of the two patterns bracketing Q (or exact)
IsFaithfulQ(f, x, Q) ==
    LET g   == Mag(f, x)
        Qa  == QAbs(Q)
        up  == QFromD(MagVal(f, NAdd(g, <<1>>)))
        dn  == IF NIsZero(g) THEN QNeg(QFromD(MagVal(f, <<1>>))) ELSE QFromD(MagVal(f, NSub(g, <<1>>)))
    IN /\ (QIsZero(Q) \/ NIsZero(g) \/ (QSign(Q) < 0) = (x.s = 1))
       /\ QLt(dn, Qa) /\ (IsInf(f, x) \/ QLt(Qa, up))

\* float32 <-> limbs helpers
W32(hi, lo) == <<lo, hi>>
=============================================================================
