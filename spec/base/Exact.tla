------------------------------ MODULE Exact -------------------------------
(***************************************************************************)
(* Exact dyadic and rational numbers on top of BigInt.                     *)
(*                                                                         *)
(*   dyadic   : [neg, m, e]  value = (-1)^neg * m * 2^e   (m a magnitude,  *)
(*              e a native integer)  -- every finite IEEE value is one     *)
(*   rational : [p, q]  value = p / q  (p a signed BigInt, q a magnitude   *)
(*              > 0); never reduced, compared by cross-multiplication      *)
(***************************************************************************)
EXTENDS BigInt

----------------------------------------------------------------------------
(* dyadic *)
DMk(neg, m, e) == [neg |-> neg /\ Len(m) # 0, m |-> m, e |-> IF Len(m) = 0 THEN 0 ELSE e]
DZero == DMk(FALSE, << >>, 0)
DFromInt(n) == DMk(n < 0, NFromNat(IF n < 0 THEN -n ELSE n), 0)
DIsZero(a) == Len(a.m) = 0
DNeg(a) == DMk(~a.neg, a.m, a.e)
DAbs(a) == DMk(FALSE, a.m, a.e)
DSign(a) == IF Len(a.m) = 0 THEN 0 ELSE IF a.neg THEN -1 ELSE 1
\* bring two dyadics to the smaller exponent: <<signed a, signed b, e>>
DAlign(a, b) ==
    IF DIsZero(a) THEN << Zero, ZMk(b.neg, b.m), b.e >>
    ELSE IF DIsZero(b) THEN << ZMk(a.neg, a.m), Zero, a.e >>
    ELSE IF a.e <= b.e THEN << ZMk(a.neg, a.m), ZMk(b.neg, NShl(b.m, b.e - a.e)), a.e >>
    ELSE << ZMk(a.neg, NShl(a.m, a.e - b.e)), ZMk(b.neg, b.m), b.e >>
DAdd(a, b) == LET t == DAlign(a, b) s == ZAdd(t[1], t[2]) IN DMk(s.neg, s.m, t[3])
DSub(a, b) == DAdd(a, DNeg(b))
DMul(a, b) == DMk(a.neg # b.neg, NMul(a.m, b.m), a.e + b.e)
DMulInt(a, k) == DMul(a, DFromInt(k))
DMul2k(a, k) == DMk(a.neg, a.m, a.e + k)            \* a * 2^k
DCmp(a, b) == LET t == DAlign(a, b) IN ZCmp(t[1], t[2])
DLe(a, b) == DCmp(a, b) <= 0
DLt(a, b) == DCmp(a, b) < 0
DEq(a, b) == DCmp(a, b) = 0
DMax(a, b) == IF DCmp(a, b) >= 0 THEN a ELSE b
DMin(a, b) == IF DCmp(a, b) <= 0 THEN a ELSE b
DPow2(k) == DMk(FALSE, <<1>>, k)
\* is the value an integer?   floor as a signed BigInt
DIsInt(a) == a.e >= 0 \/ NLowZero(a.m, -a.e)
DFloor(a) == IF a.e >= 0 THEN ZMk(a.neg, NShl(a.m, a.e)) ELSE ZShrFloor(ZMk(a.neg, a.m), -a.e)
DFromZ(z) == DMk(z.neg, z.m, 0)
\* exponent of the leading bit: value in [2^E, 2^(E+1))   (a # 0)
DTopExp(a) == a.e + NBitLen(a.m) - 1

RECURSIVE DSumFrom(_, _)
DSumFrom(s, i) == IF i > Len(s) THEN DZero ELSE DAdd(s[i], DSumFrom(s, i + 1))
DSum(s) == DSumFrom(s, 1)
RECURSIVE DMaxAbsFrom(_, _)
DMaxAbsFrom(s, i) == IF i > Len(s) THEN DZero ELSE DMax(DAbs(s[i]), DMaxAbsFrom(s, i + 1))
DMaxAbs(s) == DMaxAbsFrom(s, 1)

----------------------------------------------------------------------------
(* rational *)
QMk(p, q) == [p |-> p, q |-> q]
QFromInt(n) == QMk(ZFromInt(n), <<1>>)
QFromInts(n, d) == IF d < 0 THEN QMk(ZFromInt(-n), NFromNat(-d)) ELSE QMk(ZFromInt(n), NFromNat(d))
QFromD(a) == IF a.e >= 0 THEN QMk(ZMk(a.neg, NShl(a.m, a.e)), <<1>>)
             ELSE QMk(ZMk(a.neg, a.m), NShl(<<1>>, -a.e))
QZero == QFromInt(0)
QOne == QFromInt(1)
QNeg(a) == QMk(ZNeg(a.p), a.q)
QAbs(a) == QMk(ZAbs(a.p), a.q)
QSign(a) == ZSign(a.p)
QAdd(a, b) == IF a.q = b.q THEN QMk(ZAdd(a.p, b.p), a.q)
              ELSE QMk(ZAdd(ZMul(a.p, ZMk(FALSE, b.q)), ZMul(b.p, ZMk(FALSE, a.q))), NMul(a.q, b.q))
QSub(a, b) == QAdd(a, QNeg(b))
QMul(a, b) == QMk(ZMul(a.p, b.p), NMul(a.q, b.q))
QInv(a) == QMk(ZMk(a.p.neg, a.q), a.p.m)                  \* a # 0
QDiv(a, b) == QMul(a, QInv(b))
QCmp(a, b) == ZCmp(ZMul(a.p, ZMk(FALSE, b.q)), ZMul(b.p, ZMk(FALSE, a.q)))
QLe(a, b) == QCmp(a, b) <= 0
QLt(a, b) == QCmp(a, b) < 0
QEq(a, b) == QCmp(a, b) = 0
QIsZero(a) == ZIsZero(a.p)
QMax(a, b) == IF QCmp(a, b) >= 0 THEN a ELSE b
QMin(a, b) == IF QCmp(a, b) <= 0 THEN a ELSE b
QMulInt(a, k) == QMk(ZMulInt(a.p, k), a.q)
QFloor(a) == ZFloorDiv(a.p, ZMk(FALSE, a.q))
RECURSIVE QSumFrom(_, _)
QSumFrom(s, i) == IF i > Len(s) THEN QZero ELSE QAdd(s[i], QSumFrom(s, i + 1))
QSum(s) == QSumFrom(s, 1)
RECURSIVE QMaxAbsFrom(_, _)
QMaxAbsFrom(s, i) == IF i > Len(s) THEN QZero ELSE QMax(QAbs(s[i]), QMaxAbsFrom(s, i + 1))
QMaxAbs(s) == QMaxAbsFrom(s, 1)
\* | a - b | <= tol
QNear(a, b, tol) == QLe(QAbs(QSub(a, b)), tol)
=============================================================================
