------------------------------ MODULE BigInt ------------------------------
(***************************************************************************)
(* Exact integer arithmetic of unbounded size, in pure TLA+.               *)
(*                                                                         *)
(* TLC integers are 32-bit and raise an error on overflow, and the JSON    *)
(* reader wraps silently, so every quantity of the GLM specification that  *)
(* can exceed 2^31 (products of significands, 32/64-bit machine words,     *)
(* exact rationals) is a BigInt.                                           *)
(*                                                                         *)
(*   magnitude : little-endian sequence of limbs in 0..BASE-1, BASE = 2^15,      *)
(*               normalised (no most-significant zero limb); zero = <<>>   *)
(*   signed    : record [neg |-> BOOLEAN, m |-> magnitude], zero is never  *)
(*               negative                                                  *)
(*                                                                         *)
(* Limb products stay below 2^30 and every partial sum below 2^31.         *)
(* The module is validated against native TLC integers by MC_Base.         *)
(***************************************************************************)
EXTENDS Integers, Sequences

BASE == 32768

Pow2(n) == 2^n          \* n <= 30 only

----------------------------------------------------------------------------
(* magnitudes *)

RECURSIVE NNormLen(_, _)
NNormLen(s, n) == IF n = 0 THEN 0 ELSE IF s[n] # 0 THEN n ELSE NNormLen(s, n - 1)
NNorm(s) == LET n == NNormLen(s, Len(s)) IN IF n = Len(s) THEN s ELSE SubSeq(s, 1, n)

NZero == << >>
NIsZero(a) == Len(a) = 0
NLimb(a, i) == IF i <= Len(a) THEN a[i] ELSE 0      \* i is 1-based

RECURSIVE NFromNat(_)
NFromNat(n) == IF n = 0 THEN << >> ELSE <<n % BASE>> \o NFromNat(n \div BASE)

\* value of a magnitude known to be < 2^31
RECURSIVE NToNatFrom(_, _)
NToNatFrom(a, i) == IF i > Len(a) THEN 0 ELSE a[i] + BASE * NToNatFrom(a, i + 1)
NToNat(a) == NToNatFrom(a, 1)
NFitsNative(a) == Len(a) <= 2 \/ (Len(a) = 3 /\ a[3] < 2)

RECURSIVE NCmpFrom(_, _, _)
NCmpFrom(a, b, i) == IF i = 0 THEN 0
                     ELSE IF a[i] < b[i] THEN -1
                     ELSE IF a[i] > b[i] THEN 1
                     ELSE NCmpFrom(a, b, i - 1)
NCmp(a, b) == IF Len(a) < Len(b) THEN -1
              ELSE IF Len(a) > Len(b) THEN 1
              ELSE NCmpFrom(a, b, Len(a))

RECURSIVE NAddFrom(_, _, _, _, _)
NAddFrom(a, b, i, n, c) ==
    IF i > n THEN (IF c = 0 THEN << >> ELSE <<c>>)
    ELSE LET t == NLimb(a, i) + NLimb(b, i) + c
         IN <<t % BASE>> \o NAddFrom(a, b, i + 1, n, t \div BASE)
NAdd(a, b) == NAddFrom(a, b, 1, IF Len(a) > Len(b) THEN Len(a) ELSE Len(b), 0)

\* a - b, requires a >= b
RECURSIVE NSubFrom(_, _, _, _)
NSubFrom(a, b, i, br) ==
    IF i > Len(a) THEN << >>
    ELSE LET t == a[i] - NLimb(b, i) - br
         IN IF t < 0 THEN <<t + BASE>> \o NSubFrom(a, b, i + 1, 1)
                     ELSE <<t>> \o NSubFrom(a, b, i + 1, 0)
NSub(a, b) == NNorm(NSubFrom(a, b, 1, 0))

\* a * k for 0 <= k < 2^15
RECURSIVE NMulSmallFrom(_, _, _, _)
NMulSmallFrom(a, k, i, c) ==
    IF i > Len(a) THEN (IF c = 0 THEN << >> ELSE <<c>>)
    ELSE LET t == a[i] * k + c
         IN <<t % BASE>> \o NMulSmallFrom(a, k, i + 1, t \div BASE)
NMulSmall(a, k) == IF k = 0 \/ Len(a) = 0 THEN << >> ELSE NMulSmallFrom(a, k, 1, 0)

NShiftLimbs(a, n) == IF Len(a) = 0 THEN a ELSE [i \in 1..n |-> 0] \o a

RECURSIVE NMulFrom(_, _, _)
NMulFrom(a, b, j) ==
    IF j > Len(b) THEN << >>
    ELSE NAdd(NShiftLimbs(NMulSmall(a, b[j]), j - 1), NMulFrom(a, b, j + 1))
NMul(a, b) == IF Len(a) = 0 \/ Len(b) = 0 THEN << >>
              ELSE IF Len(a) >= Len(b) THEN NMulFrom(a, b, 1) ELSE NMulFrom(b, a, 1)

\* floor(a / k), a mod k for 0 < k < 2^15, returned as <<quotient, remainder>>
RECURSIVE NDivSmallFrom(_, _, _, _)
NDivSmallFrom(a, k, i, r) ==       \* processes limbs i..1, r = running remainder
    IF i = 0 THEN << << >>, r >>
    ELSE LET t    == r * BASE + a[i]
             rest == NDivSmallFrom(a, k, i - 1, t % k)
         IN << rest[1] \o <<t \div k>>, rest[2] >>
NDivSmall(a, k) == LET r == NDivSmallFrom(a, k, Len(a), 0) IN << NNorm(r[1]), r[2] >>

\* a * 2^n, n >= 0
NShl(a, n) == NShiftLimbs(NMulSmall(a, Pow2(n % 15)), n \div 15)

\* floor(a / 2^n), n >= 0
NShr(a, n) ==
    LET d == n \div 15
    IN IF d >= Len(a) THEN << >>
       ELSE NDivSmall(SubSeq(a, d + 1, Len(a)), Pow2(n % 15))[1]

\* bit i (0-based) of a
NBit(a, i) == (NLimb(a, i \div 15 + 1) \div Pow2(i % 15)) % 2

RECURSIVE SmallBitLen(_)
SmallBitLen(x) == IF x = 0 THEN 0 ELSE 1 + SmallBitLen(x \div 2)
NBitLen(a) == IF Len(a) = 0 THEN 0 ELSE 15 * (Len(a) - 1) + SmallBitLen(a[Len(a)])

\* a mod 2^n
NLowBits(a, n) ==
    LET d == n \div 15
        r == n % 15
    IN IF d >= Len(a) THEN a
       ELSE NNorm(SubSeq(a, 1, d) \o (IF r = 0 THEN << >> ELSE <<a[d + 1] % Pow2(r)>>))

\* TRUE iff the n low bits of a are all zero
NLowZero(a, n) == NIsZero(NLowBits(a, n))

NIsEven(a) == Len(a) = 0 \/ a[1] % 2 = 0

\* long division: <<floor(a/b), a mod b>>, b # 0.
\* Reference definition, one bit at a time (kept as the meaning; MC_Base checks the fast version against it):
RECURSIVE NDivModBits(_, _, _, _, _)
NDivModBits(a, b, i, q, r) ==
    IF i < 0 THEN <<q, r>>
    ELSE LET r2 == NAdd(NMulSmall(r, 2), IF NBit(a, i) = 1 THEN <<1>> ELSE << >>)
         IN IF NCmp(r2, b) >= 0
            THEN NDivModBits(a, b, i - 1, NAdd(NMulSmall(q, 2), <<1>>), NSub(r2, b))
            ELSE NDivModBits(a, b, i - 1, NMulSmall(q, 2), r2)
NDivModSlow(a, b) == NDivModBits(a, b, NBitLen(a) - 1, << >>, << >>)

\* Schoolbook division in base 2^15 with a two-limb quotient-digit estimate (Knuth D): the divisor is
\* normalised so that its top limb is >= 2^14, which makes the estimate at most 2 too large.
RECURSIVE NFixDigit(_, _, _)
NFixDigit(bn, rem, qh) == IF qh > 0 /\ NCmp(NMulSmall(bn, qh), rem) > 0 THEN NFixDigit(bn, rem, qh - 1) ELSE qh
RECURSIVE NDivLimbs(_, _, _, _, _)
NDivLimbs(an, bn, i, q, rem) ==        \* consumes limbs i..1 of an; q = digits so far (most significant first, reversed later)
    IF i = 0 THEN <<q, rem>>
    ELSE LET r1 == NNorm(<<an[i]>> \o rem)
             n  == Len(bn)
             qh0 == IF NCmp(r1, bn) < 0 THEN 0
                    ELSE LET top2 == NLimb(r1, n + 1) * BASE + NLimb(r1, n)
                             e == top2 \div bn[n]
                         IN IF e > BASE - 1 THEN BASE - 1 ELSE e
             qh == NFixDigit(bn, r1, qh0)
         IN NDivLimbs(an, bn, i - 1, <<qh>> \o q, IF qh = 0 THEN r1 ELSE NSub(r1, NMulSmall(bn, qh)))
NDivMod(a, b) ==
    IF Len(b) = 1 THEN (LET r == NDivSmall(a, b[1]) IN <<r[1], NFromNat(r[2])>>)
    ELSE IF NCmp(a, b) < 0 THEN << << >>, a >>
    ELSE LET sh == 15 - SmallBitLen(b[Len(b)])
             an == NShl(a, sh)
             bn == NShl(b, sh)
             r  == NDivLimbs(an, bn, Len(an), << >>, << >>)
         IN << NNorm(r[1]), NShr(r[2], sh) >>

\* value of a little-endian sequence of 16-bit limbs (the trace format)
RECURSIVE NFromLimbs16From(_, _)
NFromLimbs16From(w, i) ==
    IF i > Len(w) THEN << >>
    ELSE NAdd(NFromNat(w[i]), NShl(NFromLimbs16From(w, i + 1), 16))
NFromLimbs16(w) == NFromLimbs16From(w, 1)

\* the n 16-bit limbs (little endian) of a mod 2^(16 n)
NToLimbs16(a, n) == [i \in 1..n |-> NToNat(NLowBits(NShr(a, 16 * (i - 1)), 16))]

----------------------------------------------------------------------------
(* signed integers *)

ZMk(neg, m) == [neg |-> neg /\ Len(m) # 0, m |-> m]
Zero == ZMk(FALSE, << >>)
ZFromInt(n) == IF n < 0 THEN ZMk(TRUE, NFromNat(-n)) ELSE ZMk(FALSE, NFromNat(n))
ZIsZero(a) == Len(a.m) = 0
ZNeg(a) == ZMk(~a.neg, a.m)
ZAbs(a) == ZMk(FALSE, a.m)
ZSign(a) == IF Len(a.m) = 0 THEN 0 ELSE IF a.neg THEN -1 ELSE 1
ZAdd(a, b) ==
    IF a.neg = b.neg THEN ZMk(a.neg, NAdd(a.m, b.m))
    ELSE LET c == NCmp(a.m, b.m)
         IN IF c = 0 THEN Zero
            ELSE IF c > 0 THEN ZMk(a.neg, NSub(a.m, b.m))
            ELSE ZMk(b.neg, NSub(b.m, a.m))
ZSub(a, b) == ZAdd(a, ZNeg(b))
ZMul(a, b) == ZMk(a.neg # b.neg, NMul(a.m, b.m))
ZCmp(a, b) ==
    IF a.neg # b.neg THEN (IF a.neg THEN -1 ELSE 1)
    ELSE IF a.neg THEN NCmp(b.m, a.m) ELSE NCmp(a.m, b.m)
ZLe(a, b) == ZCmp(a, b) <= 0
ZLt(a, b) == ZCmp(a, b) < 0
ZEq(a, b) == a.neg = b.neg /\ a.m = b.m
ZShl(a, n) == ZMk(a.neg, NShl(a.m, n))
ZToInt(a) == IF a.neg THEN -NToNat(a.m) ELSE NToNat(a.m)    \* |a| < 2^31 only
ZMulInt(a, k) == ZMul(a, ZFromInt(k))
\* floor division by 2^n (rounds toward minus infinity)
ZShrFloor(a, n) ==
    IF ~a.neg THEN ZMk(FALSE, NShr(a.m, n))
    ELSE IF NLowZero(a.m, n) THEN ZMk(TRUE, NShr(a.m, n))
    ELSE ZMk(TRUE, NAdd(NShr(a.m, n), <<1>>))
\* floor(a / b) and a - b*floor(a/b) for b > 0
ZFloorDiv(a, b) ==
    LET qr == NDivMod(a.m, b.m)
    IN IF ~a.neg THEN ZMk(FALSE, qr[1])
       ELSE IF NIsZero(qr[2]) THEN ZMk(TRUE, qr[1])
       ELSE ZMk(TRUE, NAdd(qr[1], <<1>>))

\* two's-complement interpretation of a W-bit word given as 16-bit limbs
ZFromWordU(w) == ZMk(FALSE, NFromLimbs16(w))
ZFromWordS(w, W) ==
    LET u == NFromLimbs16(w)
    IN IF NBit(u, W - 1) = 1 THEN ZMk(TRUE, NSub(NShl(<<1>>, W), u)) ELSE ZMk(FALSE, u)
\* the W-bit word (as 16-bit limbs) congruent to a modulo 2^W
ZToWord(a, W) ==
    LET low == NLowBits(a.m, W)
        u   == IF a.neg /\ ~NIsZero(low) THEN NSub(NShl(<<1>>, W), low) ELSE low
    IN NToLimbs16(u, (W + 15) \div 16)
=============================================================================
