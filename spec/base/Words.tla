------------------------------ MODULE Words -------------------------------
(***************************************************************************)
(* Machine words.  A W-bit word is a BigInt magnitude in 0 .. 2^W - 1; in  *)
(* traces it travels as 16-bit limbs.  Bit-level operations are defined    *)
(* through the set of positions of the 1 bits, arithmetic through BigInt   *)
(* modulo 2^W, so the same definitions serve W = 8, 16, 32 and 64.         *)
(***************************************************************************)
EXTENDS IEEE, FiniteSets

TypeW(t) == CASE t = "i8" -> 8 [] t = "u8" -> 8 [] t = "i16" -> 16 [] t = "u16" -> 16
              [] t = "i32" -> 32 [] t = "u32" -> 32 [] t = "i64" -> 64 [] t = "u64" -> 64
              [] t = "f32" -> 32 [] t = "f64" -> 64 [] t = "b" -> 1 [] t = "f16" -> 16
TypeSigned(t) == t \in {"i8", "i16", "i32", "i64"}
TypeIsInt(t) == t \in {"i8", "u8", "i16", "u16", "i32", "u32", "i64", "u64"}
TypeIsFloat(t) == t \in {"f32", "f64"}
TypeFmt(t) == IF t = "f32" THEN F32 ELSE IF t = "f64" THEN F64 ELSE F16
TypeLimbs(t) == (TypeW(t) + 15) \div 16

WFromLimbs(w) == NFromLimbs16(w)
WToLimbs(x, W) == NToLimbs16(x, (W + 15) \div 16)

Bits(W, x) == {i \in 0..W-1 : NBit(x, i) = 1}

RECURSIVE LimbOf(_, _, _)
LimbOf(S, base, b) == IF b > 14 THEN 0 ELSE (IF base + b \in S THEN 2^b ELSE 0) + LimbOf(S, base, b + 1)
FromBits(W, S) == NNorm([j \in 1..((W + 14) \div 15) |-> LimbOf(S, 15 * (j - 1), 0)])

AllOnes(W) == NSub(NShl(<<1>>, W), <<1>>)
WAnd(W, x, y) == FromBits(W, Bits(W, x) \cap Bits(W, y))
WOr(W, x, y)  == FromBits(W, Bits(W, x) \cup Bits(W, y))
WXor(W, x, y) == FromBits(W, (Bits(W, x) \ Bits(W, y)) \cup (Bits(W, y) \ Bits(W, x)))
WNot(W, x)    == FromBits(W, (0..W-1) \ Bits(W, x))
WShl(W, x, n) == NLowBits(NShl(x, n), W)                 \* 0 <= n
WShr(W, x, n) == NShr(x, n)                              \* logical
WSar(W, x, n) == IF NBit(x, W - 1) = 0 THEN NShr(x, n)   \* arithmetic, 0 <= n < W
                 ELSE FromBits(W, {i \in 0..W-1 : i + n <= W - 1 /\ NBit(x, i + n) = 1} \cup {i \in 0..W-1 : i + n > W - 1})
WAdd(W, x, y) == NLowBits(NAdd(x, y), W)
WSub(W, x, y) == NLowBits(NAdd(x, NSub(NShl(<<1>>, W), y)), W)
WMul(W, x, y) == NLowBits(NMul(x, y), W)
WNeg(W, x)    == WSub(W, << >>, x)
WMask(W, n)   == IF n >= W THEN AllOnes(W) ELSE NSub(NShl(<<1>>, n), <<1>>)

\* signed / unsigned reading
WToZ(W, sg, x) == IF sg /\ NBit(x, W - 1) = 1 THEN ZMk(TRUE, NSub(NShl(<<1>>, W), x)) ELSE ZMk(FALSE, x)
WFromZ(W, z)   == LET low == NLowBits(z.m, W)
                  IN IF z.neg /\ ~NIsZero(low) THEN NSub(NShl(<<1>>, W), low) ELSE low
WFromInt(W, n) == WFromZ(W, ZFromInt(n))
WIsNeg(W, sg, x) == sg /\ NBit(x, W - 1) = 1
ZInRange(W, sg, z) == IF sg THEN ZLe(ZMk(TRUE, NShl(<<1>>, W - 1)), z) /\ ZLt(z, ZMk(FALSE, NShl(<<1>>, W - 1)))
                      ELSE ~z.neg /\ NBitLen(z.m) <= W

SetMin(S) == CHOOSE x \in S : \A y \in S : x <= y
SetMax(S) == CHOOSE x \in S : \A y \in S : x >= y
=============================================================================
