-------------------------------- MODULE LinQ -------------------------------
(***************************************************************************)
(* Exact linear algebra over the rationals, for the oracles of the matrix, *)
(* quaternion, projection, transform and geometric properties.             *)
(*   vector     : sequence of rationals                                    *)
(*   matrix     : [c |-> C, r |-> R, e |-> column-major sequence of C*R    *)
(*                rationals]  (element (col, row), 1-based, is             *)
(*                e[(col-1)*R + row]) -- GLM's m[col-1][row-1]             *)
(*   quaternion : <<w, x, y, z>> (the order in which the harness logs)     *)
(* plus the tolerance helpers used to compare observed floats with exact   *)
(* rationals.                                                              *)
(***************************************************************************)
EXTENDS Words

\* ---------------------------------------------------------------- observed values -> rationals
FmtOfW(w) == IF Len(w) = 4 THEN F64 ELSE F32
FinW(w) == IsFinite(FmtOfW(w), Fields(FmtOfW(w), w))
QW(w) == QFromD(ValW(FmtOfW(w), w))                            \* one logged float/double component
QSeq(ws) == [i \in 1..Len(ws) |-> QW(ws[i])]                    \* a logged vector / matrix / quaternion
AllFin(ws) == \A i \in 1..Len(ws) : FinW(ws[i])
EpsOfW(w) == QFromD(Eps(FmtOfW(w)))                             \* 2^-23 / 2^-52
\* small integers / fractions
QI(n) == QFromInt(n)
QF(n, d) == QFromInts(n, d)

\* an upper bound of ulp(|q|) for format f: 2^(floor(log2|q|) + 1 - mb) >= ulp of q's binade
UlpQ(f, q) == IF QIsZero(q) THEN QFromD(DPow2(FEmin(f) - f.mb))
              ELSE LET k == NBitLen(q.p.m) - NBitLen(q.q) IN QFromD(DPow2((IF k + 1 < FEmin(f) THEN FEmin(f) ELSE k + 1) - f.mb))
\* |obs - exp| <= k * eps * scale      (eps = 2^-mb of the observed format)
NearRel(obs, exp, k, scale, f) == QNear(obs, exp, QMul(QMulInt(QFromD(Eps(f)), k), scale))
\* component-wise, with one common scale
NearAllRel(obsS, expS, k, scale, f) == Len(obsS) = Len(expS) /\ \A i \in 1..Len(expS) : NearRel(obsS[i], expS[i], k, scale, f)
\* component-wise with per-component scale max(|exp_i|, floor)
NearAllOwn(obsS, expS, k, floor, f) == Len(obsS) = Len(expS) /\ \A i \in 1..Len(expS) : NearRel(obsS[i], expS[i], k, QMax(QAbs(expS[i]), floor), f)
SeqMaxAbs(s) == QMaxAbs(s)

\* ---------------------------------------------------------------- vectors
VAdd(a, b) == [i \in 1..Len(a) |-> QAdd(a[i], b[i])]
VSub(a, b) == [i \in 1..Len(a) |-> QSub(a[i], b[i])]
VScale(a, k) == [i \in 1..Len(a) |-> QMul(a[i], k)]
VNeg(a) == [i \in 1..Len(a) |-> QNeg(a[i])]
VDot(a, b) == QSum([i \in 1..Len(a) |-> QMul(a[i], b[i])])
VNorm2(a) == VDot(a, a)
VCross(a, b) == << QSub(QMul(a[2], b[3]), QMul(a[3], b[2])), QSub(QMul(a[3], b[1]), QMul(a[1], b[3])), QSub(QMul(a[1], b[2]), QMul(a[2], b[1])) >>
VIsZero(a) == \A i \in 1..Len(a) : QIsZero(a[i])
\* sum of |a_i * b_i| : the "largest intermediate" scale of a dot product
VDotAbs(a, b) == QSum([i \in 1..Len(a) |-> QAbs(QMul(a[i], b[i]))])

\* ---------------------------------------------------------------- matrices
Mat(C, R, e) == [c |-> C, r |-> R, e |-> e]
MAt(m, col, row) == m.e[(col - 1) * m.r + row]
MFromFn(C, R, F(_, _)) == Mat(C, R, [k \in 1..(C * R) |-> F(((k - 1) \div R) + 1, ((k - 1) % R) + 1)])
MIdentity(n) == MFromFn(n, n, LAMBDA c, r : IF c = r THEN QOne ELSE QZero)
MCol(m, col) == [row \in 1..m.r |-> MAt(m, col, row)]
MRow(m, row) == [col \in 1..m.c |-> MAt(m, col, row)]
MTranspose(m) == MFromFn(m.r, m.c, LAMBDA c, r : MAt(m, r, c))
\* (A * B)[c][r] = sum_k A[k][r] * B[c][k]      A is (A.c x A.r), B is (B.c x B.r) with B.r = A.c; result has B.c columns, A.r rows
MMul(A, B) == MFromFn(B.c, A.r, LAMBDA c, r : QSum([k \in 1..A.c |-> QMul(MAt(A, k, r), MAt(B, c, k))]))
\* scale of the products entering (A*B)[c][r]: sum of absolute values
MMulAbs(A, B) == MFromFn(B.c, A.r, LAMBDA c, r : QSum([k \in 1..A.c |-> QAbs(QMul(MAt(A, k, r), MAt(B, c, k)))]))
MVec(A, v) == [r \in 1..A.r |-> QSum([k \in 1..A.c |-> QMul(MAt(A, k, r), v[k])])]          \* A * v  (v has A.c entries)
VMat(v, A) == [c \in 1..A.c |-> QSum([k \in 1..A.r |-> QMul(v[k], MAt(A, c, k))])]          \* v * A  (v has A.r entries)
MAdd(A, B) == Mat(A.c, A.r, [k \in 1..Len(A.e) |-> QAdd(A.e[k], B.e[k])])
MSub(A, B) == Mat(A.c, A.r, [k \in 1..Len(A.e) |-> QSub(A.e[k], B.e[k])])
MScale(A, s) == Mat(A.c, A.r, [k \in 1..Len(A.e) |-> QMul(A.e[k], s)])
MOuter(cv, rv) == MFromFn(Len(rv), Len(cv), LAMBDA c, r : QMul(cv[r], rv[c]))             \* outerProduct(c, r) = c * r^T
MEq(A, B) == A.c = B.c /\ A.r = B.r /\ \A k \in 1..Len(A.e) : QEq(A.e[k], B.e[k])

\* minor: remove column col and row row
MMinor(m, col, row) ==
    Mat(m.c - 1, m.r - 1, [k \in 1..((m.c - 1) * (m.r - 1)) |->
        LET c0 == ((k - 1) \div (m.r - 1)) + 1 r0 == ((k - 1) % (m.r - 1)) + 1
        IN MAt(m, IF c0 >= col THEN c0 + 1 ELSE c0, IF r0 >= row THEN r0 + 1 ELSE r0)])
RECURSIVE MDet(_)
MDet(m) == IF m.c = 1 THEN m.e[1]
           ELSE QSum([col \in 1..m.c |-> LET t == QMul(MAt(m, col, 1), MDet(MMinor(m, col, 1)))
                                         IN IF col % 2 = 1 THEN t ELSE QNeg(t)])
\* adjugate: adj[c][r] = (-1)^(c+r) * det(minor with column r and row c removed)   (so that m * adj = det * I)
MAdj(m) == IF m.c = 1 THEN Mat(1, 1, <<QOne>>)
           ELSE MFromFn(m.c, m.r, LAMBDA c, r : LET t == MDet(MMinor(m, r, c)) IN IF (c + r) % 2 = 0 THEN t ELSE QNeg(t))
MInv(m) == MScale(MAdj(m), QInv(MDet(m)))                    \* det # 0
\* infinity norm (max absolute row sum) and condition number
MNormInf(m) == QMaxAbs([row \in 1..m.r |-> QSum([col \in 1..m.c |-> QAbs(MAt(m, col, row))])])
MCond(m) == QMul(MNormInf(m), MNormInf(MInv(m)))
MMaxAbs(m) == QMaxAbs(m.e)

\* ---------------------------------------------------------------- quaternions <<w, x, y, z>>
QuatMul(p, q) ==
    << QSub(QSub(QSub(QMul(p[1], q[1]), QMul(p[2], q[2])), QMul(p[3], q[3])), QMul(p[4], q[4])),
       QSub(QAdd(QAdd(QMul(p[1], q[2]), QMul(p[2], q[1])), QMul(p[3], q[4])), QMul(p[4], q[3])),
       QSub(QAdd(QAdd(QMul(p[1], q[3]), QMul(p[3], q[1])), QMul(p[4], q[2])), QMul(p[2], q[4])),
       QSub(QAdd(QAdd(QMul(p[1], q[4]), QMul(p[4], q[1])), QMul(p[2], q[3])), QMul(p[3], q[2])) >>
QuatConj(q) == << q[1], QNeg(q[2]), QNeg(q[3]), QNeg(q[4]) >>
QuatNorm2(q) == VNorm2(q)
QuatInv(q) == VScale(QuatConj(q), QInv(QuatNorm2(q)))
\* rotation matrix of a (not necessarily unit) quaternion, as mat3_cast computes it for unit q:
\* columns as in gtc/quaternion.inl (column-major)
QuatToMat3(q) ==
    LET w == q[1] x == q[2] y == q[3] z == q[4] two == QI(2)
        xx == QMul(x, x) yy == QMul(y, y) zz == QMul(z, z) xy == QMul(x, y) xz == QMul(x, z) yz == QMul(y, z)
        wx == QMul(w, x) wy == QMul(w, y) wz == QMul(w, z)
    IN Mat(3, 3, << QSub(QOne, QMul(two, QAdd(yy, zz))), QMul(two, QAdd(xy, wz)), QMul(two, QSub(xz, wy)),
                    QMul(two, QSub(xy, wz)), QSub(QOne, QMul(two, QAdd(xx, zz))), QMul(two, QAdd(yz, wx)),
                    QMul(two, QAdd(xz, wy)), QMul(two, QSub(yz, wx)), QSub(QOne, QMul(two, QAdd(xx, yy))) >>)
\* rotate a 3-vector by a unit quaternion: q v q*
QuatRotate(q, v) == LET r == QuatMul(QuatMul(q, <<QZero, v[1], v[2], v[3]>>), QuatConj(q)) IN << r[2], r[3], r[4] >>
\* embed a 3x3 into a 4x4 with identity padding
MEmbed4(m3) == MFromFn(4, 4, LAMBDA c, r : IF c <= 3 /\ r <= 3 THEN MAt(m3, c, r) ELSE IF c = r THEN QOne ELSE QZero)

\* rotation about a unit axis (ax) by the angle whose cosine / sine are the rationals co, si (Rodrigues)
RotAxis3(co, si, ax) ==
    LET t == QSub(QOne, co) x == ax[1] y == ax[2] z == ax[3]
    IN Mat(3, 3, << QAdd(co, QMul(t, QMul(x, x))), QAdd(QMul(t, QMul(x, y)), QMul(si, z)), QSub(QMul(t, QMul(x, z)), QMul(si, y)),
                    QSub(QMul(t, QMul(x, y)), QMul(si, z)), QAdd(co, QMul(t, QMul(y, y))), QAdd(QMul(t, QMul(y, z)), QMul(si, x)),
                    QAdd(QMul(t, QMul(x, z)), QMul(si, y)), QSub(QMul(t, QMul(y, z)), QMul(si, x)), QAdd(co, QMul(t, QMul(z, z))) >>)

\* ---------------------------------------------------------------- postconditions for roots and quotients
\* r approximates sqrt(s) (s >= 0 exact rational): | r^2 - s | <= 2 * rel * s + rel^2-ish; rel a small rational
IsSqrtNear(r, s, rel) == QSign(r) >= 0 /\ QLe(QAbs(QSub(QMul(r, r), s)), QMul(QMul(rel, QI(3)), QMax(s, QMul(r, r))))
=============================================================================
