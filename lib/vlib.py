"""Plumbing shared by all checks: building harnesses from the current /repo working tree,
running TLC (model checking, generation, trace validation), chunking traces, writing
evidence, reporting violations.  No expected values live here: every judgement is made by
TLC evaluating the TLA+ specification under /verif/spec."""
import hashlib, json, os, re, shutil, subprocess, sys, tempfile, time
from concurrent.futures import ThreadPoolExecutor

VERIF = os.path.dirname(os.path.dirname(os.path.abspath(__file__)))
REPO = os.environ.get("VERIF_REPO", "/repo")
# binaries built from a scratch copy of the tree (bin/mutest, bin/run_seeds) are cached inside that copy, so that parallel runs
# on different trees never remove each other's binaries
CACHE = os.path.join(VERIF, ".cache") if os.path.realpath(REPO) == "/repo" else os.path.join(REPO, ".vcache")
MAX_CHUNK_LINES = 40000     # one TLC process never gets more than this many events of a stateless trace
SPEC = os.path.join(VERIF, "spec")
SPEC_DIRS = [os.path.join(SPEC, d) for d in ("base", "glm", "machine", "mc", "trace", "proofs")]
TLA_JARS = "/opt/veriftools/tla/tla2tools.jar:/opt/veriftools/tla/CommunityModules-deps.jar"
NCPU = int(os.environ.get("VERIF_JOBS", os.cpu_count() or 4))
SEED = int(os.environ.get("VERIF_SEED", "1"))


class Infra(Exception):
    """infrastructure failure (exit 2) - not a verdict about the property"""


def log(*a):
    print(*a, file=sys.stderr, flush=True)


def sh(cmd, timeout=1200, env=None, cwd=None, check=False):
    e = dict(os.environ)
    if env:
        e.update({k: str(v) for k, v in env.items()})
    try:
        p = subprocess.run(cmd, stdout=subprocess.PIPE, stderr=subprocess.STDOUT, timeout=timeout,
                           env=e, cwd=cwd, text=True, errors="replace")
    except subprocess.TimeoutExpired as ex:
        out = ex.stdout or ""
        if isinstance(out, bytes):
            out = out.decode(errors="replace")
        return 124, out + "\n[timeout after %ss]" % timeout
    if check and p.returncode != 0:
        raise Infra("command failed (%d): %s\n%s" % (p.returncode, " ".join(cmd), p.stdout[-4000:]))
    return p.returncode, p.stdout


def pmap(fn, items, jobs=None):
    jobs = jobs or NCPU
    if not items:
        return []
    with ThreadPoolExecutor(max_workers=min(jobs, len(items))) as ex:
        return list(ex.map(fn, items))


# ------------------------------------------------------------------ scratch
class Scratch:
    """per-run scratch directory (removed on exit); nothing a registered command needs lives in /tmp"""

    def __init__(self, tag):
        base = os.environ.get("VERIF_SCRATCH", tempfile.gettempdir())
        self.dir = tempfile.mkdtemp(prefix="verif-%s-" % tag, dir=base)

    def path(self, *p):
        return os.path.join(self.dir, *p)

    def cleanup(self):
        shutil.rmtree(self.dir, ignore_errors=True)


# ------------------------------------------------------------------ building
def build(name, src, flags=(), cxx="g++", std="c++17", opt="-O1", extra_inc=(), timeout=900):
    """Compile harness/<src> against REPO's *current working tree*.  Cached by the hash of the
    preprocessed translation unit + flags, so any edit to a reachable header rebuilds."""
    os.makedirs(CACHE, exist_ok=True)
    srcp = src if os.path.isabs(src) else os.path.join(VERIF, "harness", src)
    base = [cxx, "-std=" + std, "-I" + REPO, "-I" + os.path.join(VERIF, "harness")] + ["-I" + i for i in extra_inc] + list(flags)
    rc, pre = sh(base + ["-E", "-P", srcp], timeout=timeout)
    if rc != 0:
        return None, pre
    h = hashlib.sha256((" ".join(base) + opt + "\n" + pre).encode()).hexdigest()[:24]
    binp = os.path.join(CACHE, "%s-%s" % (name, h))
    if os.path.exists(binp):
        return binp, ""
    tmp = binp + ".tmp%d" % os.getpid()
    rc, outp = sh(base + [opt, "-w", "-o", tmp, srcp] + (["-lpthread"]), timeout=timeout)
    if rc != 0:
        return None, outp
    os.replace(tmp, binp)
    # drop older binaries of the same name
    for f in os.listdir(CACHE):
        if f.startswith(name + "-") and f != os.path.basename(binp) and ".tmp" not in f:
            try:
                os.remove(os.path.join(CACHE, f))
            except OSError:
                pass
    return binp, ""


def build_many(specs):
    """specs: list of dict(name, src, flags, cxx, opt, std).  Parallel; returns list of (bin, log)."""
    return pmap(lambda s: build(s["name"], s["src"], s.get("flags", ()), s.get("cxx", "g++"), s.get("std", "c++17"), s.get("opt", "-O1")), specs)


def run_bin(binp, args, timeout=900, env=None):
    rc, out = sh([binp] + [str(a) for a in args], timeout=timeout, env=env)
    return rc, out


# ------------------------------------------------------------------ TLC
def tlc_cmd(xmx="3g", props=()):
    return ["java", "-Xss512m", "-Xmx" + xmx, "-XX:+UseParallelGC",
            "-DTLA-Library=" + ":".join(SPEC_DIRS)] + ["-D" + p for p in props] + ["-cp", TLA_JARS, "tlc2.TLC"]


class TlcResult:
    def __init__(self, rc, out):
        self.rc, self.out = rc, out
        m = re.search(r"(\d+) states generated, (\d+) distinct states found", out)
        self.generated = int(m.group(1)) if m else 0
        self.distinct = int(m.group(2)) if m else 0
        m = re.search(r"The depth of the complete state graph search is (\d+)", out)
        self.depth = int(m.group(1)) if m else 0
        self.ok = rc == 0 and "No error has been found" in out
        self.lines = out.splitlines()

    def printed(self, tag):
        """tuples printed with PrintT(<<"TAG", ...>>) -> list of raw strings"""
        pre = '<<"%s"' % tag
        return [l for l in self.lines if l.startswith(pre)]

    def tail(self, n=40):
        keep = [l for l in self.lines if not re.match(r"^(Semantic processing|Linting|Parsing file)", l)]
        return "\n".join(keep[-n:])


def tlc(module, cfg=None, env=None, workers=1, timeout=1200, xmx="3g", extra=(), scratch=None, cwd=None):
    """Run TLC on spec module (path or name looked up in SPEC_DIRS)."""
    mod = module
    if not os.path.isabs(mod):
        for d in SPEC_DIRS:
            if os.path.exists(os.path.join(d, mod + ".tla")):
                mod = os.path.join(d, mod + ".tla")
                break
    if cfg is None:
        cfg = mod[:-4] + ".cfg"
    elif not os.path.isabs(cfg):
        cfg = os.path.join(os.path.dirname(mod), cfg)
    md = tempfile.mkdtemp(prefix="tlcmd-", dir=scratch.dir if scratch else None)
    cmd = ["timeout", str(timeout)] + tlc_cmd(xmx, props=["java.io.tmpdir=" + md]) + ["-workers", str(workers), "-noGenerateSpecTE", "-metadir", md, "-config", cfg] + list(extra) + [mod]
    rc, out = sh(cmd, timeout=timeout + 30, env=env, cwd=cwd or md)
    shutil.rmtree(md, ignore_errors=True)
    return TlcResult(rc, out)


# ------------------------------------------------------------------ traces
def count_lines(path):
    n = 0
    with open(path, "rb") as f:
        for _ in f:
            n += 1
    return n


def split_trace(path, nchunks, outdir, group_marker=None, min_lines=2000):
    """Split an ndjson trace into <= nchunks files of whole lines.  If group_marker is given
    (e.g. '{"e":"Reset"}'), chunks are cut only right after such a line."""
    with open(path, "rb") as f:
        lines = f.readlines()
    n = len(lines)
    if n == 0:
        return []
    per = max(min_lines, (n + nchunks - 1) // nchunks)
    gm = group_marker.encode() if group_marker else None
    if gm is None:
        # stateless trace: deal lines round-robin so that expensive regions are spread over all chunks
        k = max(1, min(nchunks, (n + min_lines - 1) // min_lines))
        k = max(k, (n + MAX_CHUNK_LINES - 1) // MAX_CHUNK_LINES)       # long traces: more chunks than processes, run in waves
        chunks = [(-1, lines[i::k]) for i in range(k)]
        res = []
        for i, (st, c) in enumerate(chunks):
            p = os.path.join(outdir, "%s.c%03d.ndjson" % (os.path.basename(path), i))
            with open(p, "wb") as f:
                f.writelines(c)
            res.append((p, (i, k), len(c)))
        return res
    chunks, cur, start = [], [], 0
    for i, ln in enumerate(lines):
        cur.append(ln)
        if len(cur) >= per and ln.strip() == gm:
            chunks.append((start, cur))
            start, cur = i + 1, []
    if cur:
        chunks.append((start, cur))
    res = []
    for k, (st, c) in enumerate(chunks):
        p = os.path.join(outdir, "%s.c%03d.ndjson" % (os.path.basename(path), k))
        with open(p, "wb") as f:
            f.writelines(c)
        res.append((p, st, len(c)))
    return res


class Validation:
    def __init__(self):
        self.resource_failures = 0
        self.events = 0          # lines consumed by the trace spec
        self.skipped = 0
        self.chunks = 0
        self.mismatches = []     # (trace_path, global_line_index0, json_text, tlc_text)
        self.known = {}          # id -> count
        self.known_samples = {}  # id -> json_text
        self.by_info = {}        # info string of MISMATCH lines -> count
        self.failures = []       # TLC could not finish a chunk: (chunk_path, tail)
        self.states = 0
        self.generated = 0


def validate_trace(trace_module, trace_path, scratch, cfg=None, group_marker=None, jobs=None, env=None,
                   timeout=1500, xmx="3g", keep_max=40, min_lines=2000):
    """E4: validate one ndjson trace against a trace specification with up to `jobs` TLC processes."""
    jobs = jobs or NCPU
    v = Validation()
    chunks = split_trace(trace_path, jobs, scratch.dir, group_marker, min_lines=min_lines)

    def one(ch):
        p, st, n = ch
        e = dict(env or {})
        e["TRACE"] = p
        r = tlc(trace_module, cfg=cfg, env=e, workers=1, timeout=timeout, xmx=xmx, scratch=scratch)
        return ch, r

    for (p, st, n), r in pmap(one, chunks, jobs):
        v.chunks += 1
        v.states += r.distinct
        v.generated += r.generated
        summ = r.printed("SUMMARY")
        with open(p, "r", errors="replace") as f:
            lines = f.readlines()
        for ml in r.printed("MISMATCH"):
            m = re.match(r'<<"MISMATCH", (\d+)', ml)
            li = int(m.group(1)) - 1 if m else 0
            info = ml.split(",", 2)[2].strip(" >") if ml.count(",") >= 2 else ""
            v.by_info[info] = v.by_info.get(info, 0) + 1
            if v.by_info[info] <= 3 and len([x for x in v.mismatches if x]) < keep_max:
                gi = st[0] + li * st[1] if isinstance(st, tuple) else st + li
                v.mismatches.append((trace_path, gi, lines[li].strip() if li < len(lines) else "", ml))
            else:
                v.mismatches.append(None)
        for kl in r.printed("KNOWN"):
            m = re.match(r'<<"KNOWN", "([^"]+)", (\d+)', kl)
            if m:
                kid, li = m.group(1), int(m.group(2)) - 1
                v.known[kid] = v.known.get(kid, 0) + 1
                v.known_samples.setdefault(kid, lines[li].strip() if li < len(lines) else "")
        if not summ or not r.ok:
            v.failures.append((p, r.tail(30)))
            if r.rc in (124, 137, 143, -9, -15) or "OutOfMemoryError" in r.out:
                v.resource_failures += 1          # ran out of time / memory or was killed: not a judgement about the trace
        else:
            m = re.match(r'<<"SUMMARY", (\d+), (\d+), (\d+), (\d+)', summ[-1])
            if m:
                v.events += int(m.group(1))
                # the counter register is the authority: printed MISMATCH tuples can be lost when TLC wraps long lines
                missing = int(m.group(2)) - len(r.printed("MISMATCH"))
                for _ in range(max(0, missing)):
                    v.mismatches.append(None)
                    v.by_info["(unparsed)"] = v.by_info.get("(unparsed)", 0) + 1
                v.skipped += int(m.group(4))
                if int(m.group(1)) != n:
                    v.failures.append((p, "trace not fully consumed: %s of %d lines\n%s" % (m.group(1), n, r.tail(20))))
        if not v.failures:
            try:
                os.remove(p)
            except OSError:
                pass
    return v


# ------------------------------------------------------------------ known findings
def load_known():
    """known_findings.json plus one file per extension stage under known_findings.d/ (same format; committed, never written at run time)"""
    import glob
    files = [os.path.join(VERIF, "known_findings.json")] + sorted(glob.glob(os.path.join(VERIF, "known_findings.d", "*.json")))
    res = {}
    for p in files:
        if not os.path.exists(p):
            continue
        with open(p) as f:
            d = json.load(f)
        res.update({e["id"]: e for e in d.get("findings", []) if e.get("status") == "known"})
    return res
