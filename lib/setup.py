#!/usr/bin/env python3
"""Offline setup: parse every TLA+ module with SANY (no compilation of /repo: checks build on demand)."""
import glob, os, subprocess, sys
sys.path.insert(0, os.path.dirname(os.path.abspath(__file__)))
import vlib
os.makedirs(vlib.CACHE, exist_ok=True)
bad = 0
mods = sorted(sum([glob.glob(os.path.join(d, "*.tla")) for d in vlib.SPEC_DIRS], []))
def parse(m):
    p = subprocess.run(["java", "-DTLA-Library=" + ":".join(vlib.SPEC_DIRS), "-cp", vlib.TLA_JARS, "tla2sany.SANY", m],
                       stdout=subprocess.PIPE, stderr=subprocess.STDOUT, text=True)
    ok = p.returncode == 0 and "Semantic errors" not in p.stdout and "Parse Error" not in p.stdout and "Fatal errors" not in p.stdout
    return m, ok, p.stdout
for m, ok, out in vlib.pmap(parse, mods):
    if not ok:
        bad += 1
        print("SANY FAILED:", m); print(out[-1500:])
print("setup: %d modules parsed, %d failed" % (len(mods), bad))
sys.exit(1 if bad else 0)
