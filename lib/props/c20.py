"""C20 - no undefined behaviour is executed for arguments inside the documented domains.

Engine E8 (monitored replay): the harnesses of the other properties are rebuilt with clang -fsanitize=address,undefined,
float-cast-overflow (recovering) and -DVH_UBSAN; the sanitizer runtime calls a hook for every report and the harness logs the
number of reports since the previous event as the "ub" field of the next event.  The TLA+ trace specification of the harness's
property decides whether an event with ub > 0 is inside the documented domain (verdict other than "skip"): the domain is the
enabling condition of the specification, the inputs are those the specification-driven harness generates, the observation is
the sanitizer's.  An in-domain event with ub > 0, or an AddressSanitizer abort, is a violation."""
import json, os, re
import vlib
from props import c05

LEVEL = "exploration"

SAN = ["-fsanitize=address,undefined,float-cast-overflow", "-fsanitize-recover=undefined,float-cast-overflow", "-fno-omit-frame-pointer", "-DVH_UBSAN", "-g1"]
HARNESSES = [  # (name, source, trace module, args builder, extra flags)
    ("c05", "c05.cpp", "Trace_C05", lambda tr, pairs: [tr, pairs, "quick"]),
    ("c18", "c18.cpp", "Trace_C18", lambda tr, pairs: [tr, pairs, "quick"]),
    ("c11", "c11.cpp", "Trace_C11", lambda tr, pairs: [tr, "quick"]),
    ("c14", "c14.cpp", "Trace_C14", lambda tr, pairs: [tr, "events", "quick"]),
    ("c01", "c01.cpp", "Trace_C01", lambda tr, pairs: [tr, "small"]),
    ("c02", "c02.cpp", "Trace_C02", lambda tr, pairs: [tr, "quick"]),
    ("c06", "c06.cpp", "Trace_C06", lambda tr, pairs: [tr, "quick"]),
    # the harnesses of the geometric / transform / quaternion / linear-algebra / colour / projection properties (no TLC-generated input files)
    ("c12", "c12.cpp", "Trace_C12", lambda tr, pairs: [tr, "quick"]),
    ("c09", "c09.cpp", "Trace_C09", lambda tr, pairs: [tr, "0", "quick", "full"]),
    ("c04", "c04.cpp", "Trace_C04", lambda tr, pairs: [tr, "quick"]),
    ("c10gen", "c10.cpp", "Trace_C10", lambda tr, pairs: [tr, "quick", "gen"]),
    ("c10misc", "c10.cpp", "Trace_C10", lambda tr, pairs: [tr, "quick", "misc"]),
    ("c08", "c08.cpp", "Trace_C08", lambda tr, pairs: [tr, "10", "quick", "full"], ["-DC08_HAVE_INF_HALF"]),
    ("c19", "c19.cpp", "Trace_C19", lambda tr, pairs: [tr, "quick", "all"]),
]
VARIANTS_QUICK = [("pure-O1", ["-O1"], [])]
VARIANTS_THOROUGH = VARIANTS_QUICK + [("pure-O0", ["-O0"], []), ("pure-O2", ["-O2"], []),
                                      ("sse2-aligned-O1", ["-O1"], ["-DGLM_FORCE_INTRINSICS", "-DGLM_FORCE_DEFAULT_ALIGNED_GENTYPES", "-msse2"]),
                                      ("avx2-aligned-O2", ["-O2"], ["-DGLM_FORCE_INTRINSICS", "-DGLM_FORCE_DEFAULT_ALIGNED_GENTYPES", "-mavx2"])]


KNOWN_UB = [("mul", "glm/detail/", "u16", "KD-C20-u16-multiplication-promoted-to-int")]   # (function/op, source location prefix, id) of undefined behaviour recorded as known findings


def known_ub(key):
    for fn, where, t, kid in KNOWN_UB:
        # the same multiplication reached through std::multiplies<T> (called by GLM's compute_vec_mul functor path) is the same finding
        if (key[1] or key[0]) == fn and key[2] == t and (key[4].startswith(where) or key[4].startswith("glm/ (via stl_function.h")) and "signed-integer-overflow" in key[4]:
            return kid
    return None


def split_components(line):
    """A component-wise vector event -> one pseudo event per component (the vec1 overload has the same per-component meaning).
    An event is inside the documented domain only if every component is: a report may stem from any component."""
    try:
        d = json.loads(line)
    except Exception:
        return [line]
    n = d.get("n", 0)
    if not isinstance(n, int) or n <= 1 or "a" not in d or "r" not in d or not isinstance(d["r"], list) or len(d["r"]) != n:
        return [line]
    out = []
    for i in range(n):
        e = {k: v for k, v in d.items() if k not in ("a", "r", "ub", "ubw")}
        e["n"] = 1
        e["a"] = [[a[i]] if len(a) == n else a for a in d["a"]]
        e["r"] = [d["r"][i]]
        for k in ("c", "msb", "lsb", "e", "i", "s"):
            if k in d and isinstance(d[k], list) and len(d[k]) == n:
                e[k] = [d[k][i]]
        out.append(json.dumps(e) + "\n")
    return out


SPLIT_HARNESSES = {"c05", "c18"}


def run(ctx):
    pairs = c05.gen_pairs(ctx)
    variants = VARIANTS_QUICK if ctx.quick else VARIANTS_THOROUGH
    specs = []
    for (vl, opt, extra) in variants:
        for h in HARNESSES:
            (hn, src, tm, argf), hflags = h[:4], (h[4] if len(h) > 4 else [])
            specs.append({"name": "c20_%s_%s" % (hn, re.sub(r"\W", "_", vl)), "src": src, "flags": SAN + extra + hflags, "cxx": "clang++", "opt": opt[0], "hn": hn, "vl": vl, "tm": tm, "argf": argf})
    # the constructor unit of C17 (generated from MC_C17's enumeration) in an intrinsic build: conversion constructors between packed and
    # aligned types load / store whole registers; their sources live at the least alignment the type guarantees
    from props import c17
    tu, cflags, gdir = c17.ctor_unit_source(ctx, "op")
    specs.append({"name": "c20_c17opctor", "src": tu, "flags": SAN + cflags + ["-I" + gdir], "cxx": "clang++", "opt": "-O1", "hn": "c17opctor", "vl": "sse2-intrinsics-O1", "tm": "Trace_C17",
                  "argf": (lambda tr, pairs: [tr])})
    built = vlib.build_many(specs)
    todo = []
    for sp, (b, lg) in zip(specs, built):
        if b is None:
            if sp["vl"].startswith("pure") or sp["hn"] == "c17opctor":
                rp = ctx.write_replay("compile-%s-%s" % (sp["hn"], sp["vl"]), [], lg[-6000:])
                ctx.violation("harness %s does not compile in the sanitizer build %s" % (sp["hn"], sp["vl"]), rp)
            else:
                vlib.log("[c20] %s does not build for %s (census): skipped" % (sp["hn"], sp["vl"]))
            continue
        ctx.builds.append("%s [clang++ %s %s]" % (sp["hn"], sp["vl"], " ".join(SAN[:2])))
        todo.append((sp, b))

    def runone(item):
        sp, b = item
        tr = ctx.scratch.path("%s.%s.ndjson" % (sp["hn"], re.sub(r"\W", "_", sp["vl"])))
        rc, out = vlib.run_bin(b, sp["argf"](tr, pairs), timeout=1500,
                               env={"VERIF_SEED": str(vlib.SEED), "ASAN_OPTIONS": "detect_leaks=0:abort_on_error=0:exitcode=77", "UBSAN_OPTIONS": "print_stacktrace=0"})
        return sp, tr, rc, out
    total_ub_events = 0
    for sp, tr, rc, out in vlib.pmap(runone, todo, jobs=max(2, vlib.NCPU // 2)):
        label = "%s-%s" % (sp["hn"], sp["vl"])
        reports = [l for l in out.splitlines() if "runtime error:" in l]
        if rc != 0:
            tail = out[-3500:]
            rp = ctx.write_replay("abort-" + label, [], tail)
            ctx.violation("sanitizer build of harness %s (%s) aborted with exit code %d: %s" % (sp["hn"], sp["vl"], rc, (re.findall(r"ERROR: AddressSanitizer: [^\n]*", out) or [tail.strip().splitlines()[-1] if tail.strip() else ""])[0][:300]), rp)
            continue
        n = 0
        ub_lines = {}
        harness_ub = {}
        with open(tr, "rb") as f:
            for ln in f:
                n += 1
                if b'"ub":' in ln:
                    try:
                        d = json.loads(ln)
                    except Exception:
                        continue
                    where = d.get("ubw", "")
                    if "stl_function.h" in where:        # std::plus / std::minus / std::multiplies are only ever called by GLM's compute_vec_* helpers
                        where = "glm/ (via " + where.split("/")[-1] + ")"
                    if sp["hn"] == "c17opctor" and "float-cast-overflow" in where:
                        # the constructors convert with static_cast by definition; tagged sources that the destination type cannot represent
                        # (negative floats to unsigned ...) make the cast itself undefined: an input outside the domain of static_cast, not a defect of GLM
                        harness_ub["static_cast of an unrepresentable tagged value (" + where.split(" ")[-1] + ")"] = harness_ub.get("static_cast of an unrepresentable tagged value (" + where.split(" ")[-1] + ")", 0) + 1
                        continue
                    if not where.startswith("glm/"):
                        harness_ub[where] = harness_ub.get(where, 0) + 1     # undefined behaviour in the harness's own input construction: not GLM's
                        continue
                    key = (d.get("op", "?"), d.get("f", ""), d.get("t", ""), d.get("fmt", ""), where)
                    ub_lines.setdefault(key, []).append(ln.decode(errors="replace"))
        ctx.evaluations += n
        ctx._scan(tr, max_samples=1)
        vlib.log("[c20] %s: %d events, %d with sanitizer reports inside glm/ in %d groups, %d report lines" % (label, n, sum(len(v) for v in ub_lines.values()), len(ub_lines), len(reports)))
        if harness_ub:
            vlib.log("[c20] WARNING: reports located in the harness itself (ignored): %s" % harness_ub)
            ctx.extra.setdefault("harness_located_reports_ignored", {}).update(harness_ub)
        # the specification decides whether each reporting event is inside the documented domain
        for key, lines in sorted(ub_lines.items()):
            total_ub_events += len(lines)
            gp = ctx.scratch.path("ub-%s-%s.ndjson" % (label, re.sub(r"\W", "_", "-".join(key))))
            sel = lines[:400]
            if sp["hn"] in SPLIT_HARNESSES:
                # keep only the events whose every component is inside the documented domain
                keep = []
                for ln in sel:
                    parts = split_components(ln)
                    if len(parts) == 1:
                        keep.append(ln)
                        continue
                    pp = ctx.scratch.path("ubc.ndjson")
                    with open(pp, "w") as f:
                        f.writelines(parts)
                    vc = vlib.validate_trace(sp["tm"], pp, ctx.scratch, jobs=1, min_lines=10 ** 9, timeout=300)
                    if vc.failures:
                        raise vlib.Infra("component validation failed: " + vc.failures[0][1][-600:])
                    if vc.skipped == 0:
                        keep.append(ln)
                sel = keep
                if not sel:
                    continue
            with open(gp, "w") as f:
                f.writelines(sel)
            lines = sel
            v = vlib.validate_trace(sp["tm"], gp, ctx.scratch, jobs=1, min_lines=10 ** 9, timeout=600)
            ctx.traces += v.chunks
            ctx.states += v.states
            ctx.transitions += v.generated
            if v.failures:
                raise vlib.Infra("trace validation of the reporting events failed: " + v.failures[0][1][-800:])
            indomain = v.events - v.skipped
            if indomain > 0:
                kid = known_ub(key)
                if kid:
                    ctx.known_hit[kid] = ctx.known_hit.get(kid, 0) + indomain
                    if kid not in ctx.known:
                        ctx.violation("deviation %s observed but not listed as a known finding" % kid, ctx.write_replay("unlisted-" + kid, lines[:5], key[4]))
                    continue
                rp = ctx.write_replay("ub-%s-%s" % (label, "-".join(k for k in key[:4] if k)), lines[:50], "sanitizer report: " + key[4])
                ctx.violation("%d in-domain event(s) of %s %s executed undefined behaviour in the %s build at %s (%d such events, %d outside the documented domain)"
                              % (indomain, (key[1] or key[0]), key[2] or key[3], sp["vl"], key[4], len(lines), v.skipped), rp)
        os.remove(tr)
    ctx.extra["events_with_sanitizer_reports"] = total_ub_events
    ctx.rule("the specification-driven harnesses of C01, C02, C04, C05, C06, C08, C09, C10, C11, C12, C14, C18, C19 (exhaustive 8-bit domains, special-value lattices, boundary and "
             "random values, every documented (offset,bits) pair ...) replayed under clang AddressSanitizer + UndefinedBehaviorSanitizer + "
             "float-cast-overflow; each event carries the number of sanitizer reports raised while it executed; the property's TLA+ trace "
             "specification decides which reporting events are inside the documented domain", exhaustive=False)
    ctx.assumptions += ["only undefined behaviour that clang's sanitizers report is observable (strict-aliasing punning is not)",
                        "domain = the enabling conditions (VSkip) of the trace specifications of the other properties",
                        "UBSan reports each instrumented site (per template instantiation / inlined copy) once per process: a second in-domain event at a site "
                        "already reported for an earlier event of the same run is not observed separately"]


def replay(ctx, path):
    """Re-judge the recorded reporting events: the harness's trace specification says which are inside the documented domain."""
    base = os.path.basename(path)
    m = re.match(r"C20-ub-(c\d\d[a-z]*)-", base)
    tm = dict([(h[0], h[2]) for h in HARNESSES] + [("c17opctor", "Trace_C17")]).get(m.group(1)) if m else None
    if not tm:
        vlib.log("[replay] %s is not a per-event sanitizer replay (see its .note.txt)" % base)
        return 2
    v = vlib.validate_trace(tm, path, ctx.scratch, jobs=1, min_lines=10 ** 9, timeout=600)
    if v.failures:
        raise vlib.Infra("trace validation of the replay failed: " + v.failures[0][1][-600:])
    indomain = v.events - v.skipped
    vlib.log("[replay] %d recorded event(s) with sanitizer reports, %d inside the documented domain of %s" % (v.events, indomain, tm))
    if indomain:
        ctx.violation("%d recorded in-domain event(s) carry sanitizer reports" % indomain, path)
    return 1 if ctx.violations else 0
