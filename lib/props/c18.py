"""C18 - power-of-two, multiple and bitfield utilities return the documented integer."""
import vlib
from props import c05

LEVEL = "model_checking"
TRACE_MODULE = "Trace_C18"


def run(ctx):
    ctx.mc("MC_C18", "MC_C18.cfg" if ctx.quick else "MC_C18_w8.cfg", what="every W-bit word (W=6 quick, 8 thorough) x every multiple / shift / bit index / field: declarative characterisations of the definitions")
    pairs = c05.gen_pairs(ctx)
    b = ctx.build("c18", "c18.cpp")
    if b:
        tr = ctx.scratch.path("c18.ndjson")
        ok, out = ctx.run_harness(b, [tr, pairs, ctx.tier], tr)
        if ok:
            ctx.validate(TRACE_MODULE, tr, label="pure")
    ctx.rule("8-bit types exhaustively (16-bit in the thorough tier) through every scalar and vector overload of the power-of-two, multiple, "
             "findNSB, rotate, fill, mask, gtx/bit functions, crossed with multiples / shift counts / (first,count) pairs from the spec's "
             "FieldOK domain; 32/64-bit structured + random; every interleave overload on single-bit, complement and random operands; "
             "gtx integer pow/sqrt/mod/factorial/nlz/log2 on boundary values; each event judged exactly by TLC against GlmRound.tla", exhaustive=False)
    ctx.assumptions += ["negative arguments of the power-of-two family and non-positive multiples are outside the documented domain and constrain nothing",
                        "results that are not representable in the element type constrain nothing"]
