"""C12 - geometric functions satisfy Euclidean identities on vec1..4 (and the gtx norm / projection / perpendicular /
orthonormalize / vector_angle / closest_point / normal / exterior_product / mixed_product helpers)."""
import vlib

LEVEL = "model_checking"
TRACE_MODULE = "Trace_C12"


def run(ctx):
    ctx.mc("MC_C12", "MC_C12.cfg",
           what="integer vectors of a box (L=2: -3..3, L=3: -2..2 x -1..1) as pairs / triples and rational unit vectors from Pythagorean "
                "tuples x 9 rational index ratios: dot symmetric/bilinear/Cauchy-Schwarz, length postcondition, Lagrange identity, cross = "
                "determinant formula, orthogonal, anti-commutative, proj+perp decomposition, reflect involution and isometry (action "
                "reflect-and-back), faceforward / refract branch partitions total and disjoint, Snell's law over Q (squares), rational "
                "refracted rays, closest point minimal on the segment, Gram-Schmidt; agreement of the division-free dyadic forms used by the "
                "trace specification with the rational definitions; acceptance of exact values / rejection of off-by-one values by the "
                "tolerance predicates; cosine enclosure against reference values")
    b = ctx.build("c12", "c12.cpp", opt="-O1")
    if not b:
        return
    tr = ctx.scratch.path("c12.ndjson")
    ok, out = ctx.run_harness(b, [tr, ctx.tier], tr)
    if not ok:
        return
    ctx.validate(TRACE_MODULE, tr, label="pure", min_lines=500)
    # the same program on the aligned qualifiers of an intrinsic build (glm/simd/geometric.h kernels: dot via _mm_dp_ps at AVX, hadd at SSE3 ...)
    for vl, isa in ([("aligned-avx2", ["-mavx2", "-mfma"]), ("aligned-sse2", ["-msse2"])] if ctx.quick else [("aligned-avx2", ["-mavx2", "-mfma"]), ("aligned-sse2", ["-msse2"]), ("aligned-sse3", ["-msse3"]), ("aligned-sse4.1", ["-msse4.1"])]):
        ba = ctx.build("c12_" + vl.replace("-", "_"), "c12.cpp", flags=["-DC12_ALIGNED", "-DGLM_FORCE_INTRINSICS", "-DGLM_FORCE_ALIGNED_GENTYPES"] + isa, opt="-O1")
        if not ba:
            continue
        tra = ctx.scratch.path("c12-%s.ndjson" % vl)
        ok, out = ctx.run_harness(ba, [tra, ctx.tier], tra)
        if ok:
            ctx.validate(TRACE_MODULE, tra, label=vl, min_lines=500)
    # stage X12 (notes/X12-notes.md): gtx/intersect, vector_query, normalize_dot, handed_coordinate_space, polar_coordinates, extend - GlmX12.tla
    from props import x12
    x12.run(ctx)
    ctx.rule("every function of glm/geometric.hpp (dot length distance cross normalize faceforward reflect refract) on vec1..vec4 and the scalar "
             "genType overloads, gtx length2 distance2 l1Norm l2Norm lMaxNorm lxNorm proj perp orthonormalize(vec3,vec3 / mat3) angle "
             "orientedAngle(2D/3D) closestPointOnLine(2D/3D) triangleNormal cross(vec2) mixedProduct; float and double; highp plus every "
             "tenth (thorough: fifth) case mediump / lowp; inputs: pairs of small integer vectors (orthogonal, parallel, antiparallel, exact ties dot = 0 and "
             "k = 0), scaled and nearly degenerate configurations ((1,0,0) vs (1,2^-e,0), almost (anti)parallel), rational unit vectors "
             "from Pythagorean tuples (+-1 ulp) x rational eta on both sides of total internal reflection and at the critical angle, "
             "random dyadic vectors at random scales, GLM-normalised random directions, non-finite / extreme values (constrain nothing); "
             "each event judged by TLC against GlmGeom.tla in exact dyadic arithmetic with explicit k*eps*scale tolerances; branch "
             "outcomes exact whenever the deciding quantity is outside its rounding band", exhaustive=False)
    ctx.assumptions += ["components outside 2^+-40 (float) / 2^+-100 (double), non-finite arguments, eta <= 0 and degenerate arguments (zero vector to "
                        "normalize / project on, a = b in closestPointOnLine, directions that vanish within their own rounding error) constrain nothing",
                        "angle / orientedAngle are judged for unit vectors only (documented precondition), in cosine space with a Taylor enclosure of cos",
                        "lxNorm is judged for depth 1..4 and components within 2^+-4 (libm pow accurate to 1 ulp)"]
