"""C15 - non-semantic configuration macros and build settings never change results.

The same harness programs (the op tables of C01, C02, C05, C06, C11, C14, C18) are compiled under a baseline and under
variant configurations; CrossCfg.tla (two-trace refinement, mode "config") requires every variant event to be identical to
the baseline event.  The baseline traces are the ones the other properties judge absolutely."""
import os, re, time
import vlib
from props import c05

LEVEL = "model_checking"
TRACE_MODULE = "CrossCfg"

BASE = ("base-cxx17-O0", [], "g++", "-O0")
QUICK_VARIANTS = [
    ("CXX98", ["-DGLM_FORCE_CXX98"], "g++", "-O0"),
    ("CXX11+INLINE+CTOR_INIT+EXPLICIT_CTOR+UNRESTRICTED+WXYZ+XYZW_ONLY+SIZE_T_LENGTH+UNKNOWN", ["-DGLM_FORCE_CXX11", "-DGLM_FORCE_INLINE", "-DGLM_FORCE_CTOR_INIT", "-DGLM_FORCE_EXPLICIT_CTOR",
      "-DGLM_FORCE_UNRESTRICTED_GENTYPE", "-DGLM_FORCE_QUAT_DATA_WXYZ", "-DGLM_FORCE_XYZW_ONLY", "-DGLM_FORCE_SIZE_T_LENGTH", "-DGLM_FORCE_COMPILER_UNKNOWN", "-DGLM_FORCE_PLATFORM_UNKNOWN",
      "-DGLM_FORCE_ARCH_UNKNOWN", "-DGLM_FORCE_ALIGNED_GENTYPES"], "g++", "-O0"),
    ("O3", [], "g++", "-O3"),
    ("clang-O2", [], "clang++", "-O2"),
]
MORE_VARIANTS = [
    ("CXX11+INLINE+CTOR_INIT+EXPLICIT_CTOR+UNRESTRICTED", ["-DGLM_FORCE_CXX11", "-DGLM_FORCE_INLINE", "-DGLM_FORCE_CTOR_INIT", "-DGLM_FORCE_EXPLICIT_CTOR", "-DGLM_FORCE_UNRESTRICTED_GENTYPE"], "g++", "-O1"),
    ("WXYZ+XYZW_ONLY+SIZE_T_LENGTH", ["-DGLM_FORCE_QUAT_DATA_WXYZ", "-DGLM_FORCE_XYZW_ONLY", "-DGLM_FORCE_SIZE_T_LENGTH"], "g++", "-O1"),
    ("UNKNOWN-compiler-platform-arch+ALIGNED_GENTYPES", ["-DGLM_FORCE_COMPILER_UNKNOWN", "-DGLM_FORCE_PLATFORM_UNKNOWN", "-DGLM_FORCE_ARCH_UNKNOWN", "-DGLM_FORCE_ALIGNED_GENTYPES"], "g++", "-O1"),
]
THOROUGH_VARIANTS = QUICK_VARIANTS + MORE_VARIANTS + [
    ("CXX03", ["-DGLM_FORCE_CXX03"], "g++", "-O1"), ("CXX14", ["-DGLM_FORCE_CXX14"], "g++", "-O1"), ("CXX17", ["-DGLM_FORCE_CXX17"], "g++", "-O1"),
    ("CXX20", ["-DGLM_FORCE_CXX20"], "g++", "-O1"), ("INLINE", ["-DGLM_FORCE_INLINE"], "g++", "-O2"), ("EXPLICIT_CTOR", ["-DGLM_FORCE_EXPLICIT_CTOR"], "g++", "-O1"),
    ("CTOR_INIT", ["-DGLM_FORCE_CTOR_INIT"], "g++", "-O1"), ("SIZE_T_LENGTH", ["-DGLM_FORCE_SIZE_T_LENGTH"], "g++", "-O1"), ("XYZW_ONLY", ["-DGLM_FORCE_XYZW_ONLY"], "g++", "-O1"),
    ("SWIZZLE", ["-DGLM_FORCE_SWIZZLE"], "g++", "-O1"), ("UNRESTRICTED_GENTYPE", ["-DGLM_FORCE_UNRESTRICTED_GENTYPE"], "g++", "-O1"),
    ("QUAT_DATA_WXYZ", ["-DGLM_FORCE_QUAT_DATA_WXYZ"], "g++", "-O1"), ("DEFAULT_ALIGNED_GENTYPES+PURE", ["-DGLM_FORCE_DEFAULT_ALIGNED_GENTYPES", "-DGLM_FORCE_PURE"], "g++", "-O1"),
    ("PURE", ["-DGLM_FORCE_PURE"], "g++", "-O1"), ("SILENT_WARNINGS", ["-DGLM_FORCE_SILENT_WARNINGS"], "g++", "-O1"), ("CXX_UNKNOWN", ["-DGLM_FORCE_CXX_UNKNOWN"], "g++", "-O1"),
    ("CXX98+XYZW_ONLY+SIZE_T_LENGTH", ["-DGLM_FORCE_CXX98", "-DGLM_FORCE_XYZW_ONLY", "-DGLM_FORCE_SIZE_T_LENGTH"], "g++", "-O2"),
    ("CXX11+SWIZZLE+CTOR_INIT", ["-DGLM_FORCE_CXX11", "-DGLM_FORCE_SWIZZLE", "-DGLM_FORCE_CTOR_INIT"], "g++", "-O0"),
    ("O0", [], "g++", "-O0"), ("O2", [], "g++", "-O2"), ("clang-O2", [], "clang++", "-O2"), ("clang-O3-CXX98", ["-DGLM_FORCE_CXX98"], "clang++", "-O3"),
]


def harnesses(ctx, pairs):
    hs = [("c11", "c11.cpp", lambda tr: [tr, "quick"]), ("c14", "c14.cpp", lambda tr: [tr, "events", "quick"]),
          ("c05", "c05.cpp", lambda tr: [tr, pairs, "quick"]), ("c02", "c02.cpp", lambda tr: [tr, "quick"]),
          ("c01", "c01.cpp", lambda tr: [tr, "small" if ctx.quick else "quick"])]
    if not ctx.quick:
        hs += [("c18", "c18.cpp", lambda tr: [tr, pairs, "quick"]), ("c06", "c06.cpp", lambda tr: [tr, "quick"])]
    else:
        # quick: the power-of-two / multiple / bitfield utilities under the optimisation-level and compiler variants only (shift and
        # promotion idioms are where -O0 and -O3 / clang part company)
        hs += [("c18", "c18.cpp", lambda tr: [tr, pairs, "quick"], lambda lab: lab in ("O3", "clang-O2"))]
    # the quaternion / transform / projection / geometry harnesses: quaternion storage order, CTOR_INIT, language-level bodies of the
    # conversion constructors ... reach code the op-table harnesses above do not.  quick: under the combined-macro and the CXX98 variants.
    sel = (lambda lab: lab.startswith("CXX11+INLINE+CTOR_INIT+EXPLICIT_CTOR+UNRESTRICTED+WXYZ") or lab == "CXX98") if ctx.quick else (lambda lab: True)
    # (c04 uses the explicit conversion operators of qua, a C++11 language feature: not under CXX98)
    hs += [("c04", "c04.cpp", lambda tr: [tr, "quick"], (lambda lab: sel(lab) and not any(x in lab for x in ("CXX98", "CXX03", "CXX_UNKNOWN"))), ["-DC04_FULL"]), ("c09", "c09.cpp", lambda tr: [tr, "0", "quick", "full"], sel),
           ("c08", "c08.cpp", lambda tr: [tr, "10", "quick", "full"], sel, ["-DC08_HAVE_INF_HALF"]), ("c12", "c12.cpp", lambda tr: [tr, "quick"], sel)]
    return hs


def wants(h, lab):
    return lab == BASE[0] or len(h) < 4 or h[3] is None or h[3](lab)


def cross_validate(ctx, base_path, var_path, label, kind="std", mode="config", sample=64, rkeys="all"):
    """E6: pair the two traces chunk by chunk (same round-robin dealing) and let CrossCfg.tla compare them."""
    with open(base_path, "rb") as f:
        A0 = f.readlines()
    with open(var_path, "rb") as f:
        B0 = f.readlines()
    total = len(A0)
    if len(A0) != len(B0):
        rp = ctx.write_replay("crosscfg-length-" + label, [], "baseline has %d events, variant %d" % (len(A0), len(B0)))
        ctx.violation("the %s build logged %d events, the baseline %d: not the same program" % (label, len(B0), len(A0)), rp)
        return 1
    # textually identical event pairs are identical events; TLC judges every pair that differs (is the difference one that
    # IEEE-754 leaves open / a recorded deviation?) plus a 1-in-64 sample of the identical ones
    idx = [i for i in range(total) if A0[i] != B0[i] or i % sample == 0]
    A = [A0[i] for i in idx]
    Bv = [B0[i] for i in idx]
    ctx.extra["crosscfg_pairs_identical_text"] = ctx.extra.get("crosscfg_pairs_identical_text", 0) + (total - sum(1 for i in idx if A0[i] != B0[i]))
    ctx.extra["crosscfg_pairs_judged_by_tlc"] = ctx.extra.get("crosscfg_pairs_judged_by_tlc", 0) + len(idx)
    n = max(len(A), len(Bv))
    k = max(1, min(vlib.NCPU, (n + 19999) // 20000))
    jobs = []
    for i in range(k):
        pa = ctx.scratch.path("x%s.%d.a" % (re.sub(r"\W", "_", label), i)); pb = pa[:-1] + "b"
        with open(pa, "wb") as f:
            f.writelines(A[i::k])
        with open(pb, "wb") as f:
            f.writelines(Bv[i::k])
        jobs.append((pa, pb, i))

    def one(j):
        pa, pb, i = j
        return j, vlib.tlc("CrossCfg", env={"TRACE": pa, "TRACE_B": pb, "KIND": kind, "MODE": mode, "RKEYS": rkeys}, workers=1, timeout=900, scratch=ctx.scratch)
    events = bad = 0
    for (pa, pb, i), r in vlib.pmap(one, jobs):
        s = r.printed("SUMMARY")
        if not r.ok or not s:
            rp = ctx.write_replay("crosscfg-fail-" + label, [], r.tail(30))
            ctx.violation("CrossCfg could not relate the %s trace to the baseline: %s" % (label, r.tail(3)), rp)
            continue
        m = re.match(r'<<"SUMMARY", (\d+), (\d+), (\d+), (\d+)', s[-1])
        events += int(m.group(1)); nb = int(m.group(2)); bad += nb
        ctx.extra["crosscfg_pairs_outside_domain"] = ctx.extra.get("crosscfg_pairs_outside_domain", 0) + int(m.group(4))
        ctx.states += r.distinct; ctx.transitions += r.generated; ctx.traces += 1
        for kl in r.printed("KNOWN"):
            mk = re.match(r'<<"KNOWN", "([^"]+)", (\d+)', kl)
            if mk:
                kid = mk.group(1)
                ctx.known_hit[kid] = ctx.known_hit.get(kid, 0) + 1
                if kid not in ctx.known:
                    ctx.violation("deviation %s observed but not listed as a known finding" % kid, ctx.write_replay("unlisted-" + kid, [], kl))
        if nb:
            with open(pa, errors="replace") as f:
                la = f.readlines()
            with open(pb, errors="replace") as f:
                lb = f.readlines()
            ex = []
            for ml in r.printed("MISMATCH")[:6]:
                mm = re.match(r'<<"MISMATCH", (\d+)', ml)
                li = int(mm.group(1)) - 1
                ex.append(json_pair(la, lb, li))
            rp = ctx.write_replay("crosscfg-" + label, ex, "baseline/variant event pairs that differ (variant = %s)" % label)
            ctx.violation("%d event(s) of the %s build differ from the baseline build; first: %s" % (nb, label, ex[0][:300] if ex else ""), rp)
        for p in (pa, pb):
            try:
                os.remove(p)
            except OSError:
                pass
    ctx.events += events
    ctx.evaluations += total
    vlib.log("[crosscfg] %s: %d events compared (%d pairs judged by TLC), %d differ" % (label, total, events, bad))
    return bad


def json_pair(la, lb, li):
    a = la[li].strip() if li < len(la) else "null"
    b = lb[li].strip() if li < len(lb) else "null"
    return '{"baseline":%s,"variant":%s}' % (a, b)


def run(ctx):
    ctx.mc("MC_C15", "MC_C15.cfg", what="configuration lattice: which body each language level / macro selects; every selected body refines the same "
           "definition on all patterns of the mini float format (std vs bundled round/trunc/isnan/fmin/fmax/nextafter fallbacks)")
    pairs = c05.gen_pairs(ctx)
    variants = QUICK_VARIANTS if ctx.quick else THOROUGH_VARIANTS
    variants = [v for i, v in enumerate(variants) if v[0] not in [w[0] for w in variants[:i]]]        # one build per label
    hs = harnesses(ctx, pairs)
    specs = []
    for (lab, flags, cxx, opt) in [BASE] + variants:
        for h in hs:
            hn, src = h[0], h[1]
            if wants(h, lab):
                specs.append({"name": "c15_%s_%s" % (hn, re.sub(r"\W", "_", lab)), "src": src, "flags": flags + (h[4] if len(h) > 4 else []), "cxx": cxx, "opt": opt, "lab": lab, "hn": hn})
    t = time.time()
    built = vlib.build_many(specs)
    vlib.log("[build] %d binaries (%.1fs)" % (len(specs), time.time() - t))
    bins = {}
    for sp, (b, lg) in zip(specs, built):
        if b is None:
            rp = ctx.write_replay("compile-%s-%s" % (sp["hn"], sp["lab"]), [], lg[-6000:])
            ctx.violation("harness %s does not compile under configuration %s" % (sp["hn"], sp["lab"]), rp)
        else:
            bins[(sp["lab"], sp["hn"])] = b
            ctx.builds.append("%s [%s %s %s]" % (sp["hn"], sp["cxx"], sp["opt"], " ".join(sp["flags"])))
    traces = {}

    def runone(key):
        lab, hn = key
        tr = ctx.scratch.path("%s.%s.ndjson" % (hn, re.sub(r"\W", "_", lab)))
        argf = [h for h in hs if h[0] == hn][0][2]
        rc, out = vlib.run_bin(bins[key], argf(tr), timeout=900, env={"VERIF_SEED": str(vlib.SEED)})
        return key, tr, rc, out
    for key, tr, rc, out in vlib.pmap(runone, list(bins.keys())):
        if rc != 0:
            rp = ctx.write_replay("abort-%s-%s" % (key[1], key[0]), [], out[-3000:])
            ctx.violation("harness %s aborted under configuration %s (exit %d)" % (key[1], key[0], rc), rp)
        else:
            traces[key] = tr
            if key[1] == "c04":
                # the "mem" / "make_quat" events of the C04 harness observe the memory order of the quaternion, which is what
                # GLM_FORCE_QUAT_DATA_WXYZ is documented to change (C16 judges it); results are what C15 compares
                with open(tr, "rb") as f:
                    keep = [ln for ln in f if b'"o":"' not in ln]
                with open(tr, "wb") as f:
                    f.writelines(keep)
    for h in hs:
        hn = h[0]
        base = traces.get((BASE[0], hn))
        if not base:
            continue
        ctx._scan(base)
        for (lab, flags, cxx, opt) in variants:
            tr = traces.get((lab, hn))
            if tr:
                fallback = any(f in ("-DGLM_FORCE_CXX98", "-DGLM_FORCE_CXX03", "-DGLM_FORCE_CXX_UNKNOWN") for f in flags)
                cross_validate(ctx, base, tr, "%s-%s" % (hn, lab), "fallback" if fallback else "std", rkeys="r" if hn in ("c04", "c08", "c09", "c12") else "all")
                os.remove(tr)
    ctx.rule("the op-table harnesses of C01, C02, C05, C11, C14 (+ C06, C18 thorough) compiled under a baseline (g++ -std=c++17 -O1) and %d variant "
             "configurations (language levels, the non-semantic GLM_FORCE_* macros alone and combined, -O0/-O2/-O3, clang++); every variant "
             "event must be bit-identical to the baseline event (CrossCfg.tla)" % len(variants), exhaustive=False)
    ctx.assumptions += ["the baseline traces are judged absolutely by the checks of C01, C02, C05, C11, C14 (C06, C18)",
                        "on gcc/clang GLM_FORCE_ALIGNED_GENTYPES without intrinsics leaves the types packed; it is exercised as the no-op it is"]


def replay_pairs(ctx, path, mode, kind="std", rkeys="all"):
    """Re-judge the {"baseline":..., "variant":...} pairs of a replay file with CrossCfg.tla."""
    import json
    A, Bv = [], []
    with open(path) as f:
        for ln in f:
            try:
                d = json.loads(ln)
            except Exception:
                continue
            if isinstance(d, dict) and "baseline" in d and "variant" in d:
                A.append(json.dumps(d["baseline"]) + "\n")
                Bv.append(json.dumps(d["variant"]) + "\n")
    if not A:
        vlib.log("[replay] no baseline/variant pairs in %s" % path)
        return 2
    pa, pb = ctx.scratch.path("replay.a"), ctx.scratch.path("replay.b")
    with open(pa, "w") as f:
        f.writelines(A)
    with open(pb, "w") as f:
        f.writelines(Bv)
    r = vlib.tlc("CrossCfg", env={"TRACE": pa, "TRACE_B": pb, "KIND": kind, "MODE": mode, "RKEYS": rkeys}, workers=1, timeout=900, scratch=ctx.scratch)
    s = r.printed("SUMMARY")
    if not r.ok or not s:
        raise vlib.Infra("CrossCfg could not judge the replay: " + r.tail(5))
    m = re.match(r'<<"SUMMARY", (\d+), (\d+)', s[-1])
    vlib.log("[replay] %d pair(s) judged by CrossCfg (mode %s): %d differ" % (int(m.group(1)), mode, int(m.group(2))))
    for ml in r.printed("MISMATCH")[:20]:
        vlib.log("  " + ml)
    if int(m.group(2)):
        ctx.violation("%d of the %d recorded baseline/variant pair(s) are rejected by CrossCfg.tla (mode %s)" % (int(m.group(2)), int(m.group(1)), mode), path)
    return 1 if ctx.violations else 0


def replay(ctx, path):
    base = os.path.basename(path)
    return replay_pairs(ctx, path, "config", "fallback" if ("CXX98" in base or "CXX03" in base or "CXX_UNKNOWN" in base) else "std",
                        "r" if any(("-%s-" % h) in base for h in ("c04", "c08", "c09", "c12")) else "all")
