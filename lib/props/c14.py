"""C14 - ULP stepping and epsilon/ULP comparisons are exact on every float and double."""
import re
import vlib

LEVEL = "model_checking"
TRACE_MODULE = "Trace_C14"


def run(ctx):
    ctx.mc("MC_C14", "MC_C14.cfg", what="mini format (4,3): all 240 finite patterns x walks of depth 3 with steps -3..3: position bookkeeping, "
           "distance, ULP equality, successor = least value above (checked on exact values)")
    if not ctx.quick:
        ctx.mc("MC_C14", "MC_C14_half.cfg", what="binary16: all finite patterns x one step of -2..2")
    b = ctx.build("c14", "c14.cpp", opt="-O2")
    if not b:
        return
    tr = ctx.scratch.path("c14.ndjson")
    ok, out = ctx.run_harness(b, [tr, "events", ctx.tier], tr)
    if not ok:
        return
    # walks are stateful (cur): chunks are cut only at walkStart boundaries -> use contiguous chunking on a marker-free trace
    ctx.validate(TRACE_MODULE, tr, label="events", group_marker='{"e":"Reset"}')
    # the language-level fallbacks (GLM_HAS_CXX11_STL == 0: nextafter / _nextafter bodies of ext/scalar_ulp and gtc/ulp) are separate
    # code: the same events under GLM_FORCE_CXX98, judged by the same trace specification
    b98 = ctx.build("c14_cxx98", "c14.cpp", flags=["-DGLM_FORCE_CXX98"], opt="-O2", label="c14 cxx98")
    if b98:
        tr98 = ctx.scratch.path("c14_cxx98.ndjson")
        ok98, out98 = ctx.run_harness(b98, [tr98, "events", ctx.tier], tr98)
        if ok98:
            ctx.validate(TRACE_MODULE, tr98, label="events-cxx98", group_marker='{"e":"Reset"}')
    sw = ctx.scratch.path("c14sweep.ndjson")
    ok, out = ctx.run_harness(b, [sw, "sweep"], sw)
    if not ok:
        return
    m = re.search(r"SWEEP inputs=(\d+) rejected=(\d+)", out)
    if not m:
        raise vlib.Infra("c14 sweep failed: " + out[-2000:])
    ctx.sweep_inputs += int(m.group(1))
    ctx.extra["sweep_inputs"] = int(m.group(1))
    ctx.extra["sweep_rejected_by_table"] = int(m.group(2))
    ctx.extra["distinct_extra"] = int(m.group(1))
    if int(m.group(2)) > 0:
        v = ctx.validate(TRACE_MODULE, sw, label="sweep-rejects", count_distinct=False)
        if not v.mismatches and not ctx.violations:
            raise vlib.Infra("sweeper rejected inputs that the trace specification accepts")
    ctx.rule("all 2^32 float patterns through nextFloat and prevFloat against the class table of the ordered line (E5; rejections re-judged by TLC); "
             "float and double: every binade boundary +-2, zeros, subnormals, max, random patterns through next/prev/n-step/floatDistance (scalar, "
             "vector, gtc spellings); ULP equality on pairs at distance 0..66 including across zero and >= 2^31 apart, all nine matrix shapes with the "
             "differing element at every position; epsilon comparisons at, just below and just above eps; stateful walks", exhaustive=False)
    ctx.assumptions += ["at |x-y| == eps exactly, gtc epsilonEqual/epsilonNotEqual and the quaternion overloads (documented with <) may answer either way",
                        "when the rounded difference and the exact difference disagree about the comparison both answers are accepted"]
