"""C02 - matrix operators/functions implement column-major linear algebra for all shapes."""
import vlib

LEVEL = "model_checking"
TRACE_MODULE = "Trace_C02"


def run(ctx):
    ctx.mc("MC_C02", "MC_C02.cfg", what="all 27 product shapes on basis matrices and small integer matrices: (AB)^T = B^T A^T, (AB)v = A(Bv), "
           "outer(c,r) = c r^T, E_ij E_kl = delta_jk E_il, conversion laws, column-major indexing")
    # the same harness and the same judge for the packed (pure) build and for the aligned SIMD build, where defaultp is
    # aligned_highp and mat4*mat4, mat4*vec4, transpose, outerProduct ... run their intrinsic specialisations
    cfgs = [("pure", "c02", []), ("aligned-sse2", "c02_sse2", ["-DGLM_FORCE_INTRINSICS", "-DGLM_FORCE_DEFAULT_ALIGNED_GENTYPES", "-msse2"])]
    if not ctx.quick:
        cfgs.append(("aligned-avx2", "c02_avx2", ["-DGLM_FORCE_INTRINSICS", "-DGLM_FORCE_DEFAULT_ALIGNED_GENTYPES", "-mavx2"]))
    # aligned double matrices use __m256d kernels from AVX on (and different shuffles at AVX than at AVX2): the double family at -mavx and -mavx2
    cfgs += [("aligned-avx-double", "c02_avx_d", ["-DGLM_FORCE_INTRINSICS", "-DGLM_FORCE_DEFAULT_ALIGNED_GENTYPES", "-mavx"])]
    if not ctx.quick:
        cfgs += [("aligned-avx2-double", "c02_avx2_d", ["-DGLM_FORCE_INTRINSICS", "-DGLM_FORCE_DEFAULT_ALIGNED_GENTYPES", "-mavx2", "-mfma"])]
    for label, name, flags in cfgs:
        b = ctx.build(name, "c02.cpp", flags=flags, label="c02 " + label)
        if not b:
            continue
        tr = ctx.scratch.path(name + ".ndjson")
        ok, out = ctx.run_harness(b, [tr, ctx.tier if label == "pure" else "simdd" if label.endswith("double") else "simd"], tr)
        if ok:
            ctx.validate(TRACE_MODULE, tr, label=label, min_lines=600)
    # the pre-C++11 bodies of the constructors (GLM_HAS_INITIALIZER_LISTS == 0) are separate code: the same harness under GLM_FORCE_CXX98,
    # its shape-conversion / constructor events judged by the same trace specification (the rest of that trace is C15's business)
    b = ctx.build("c02_cxx98", "c02.cpp", flags=["-DGLM_FORCE_CXX98"], label="c02 cxx98")
    if b:
        tr = ctx.scratch.path("c02_cxx98.ndjson")
        ok, out = ctx.run_harness(b, [tr, ctx.tier], tr)
        if ok:
            trf = ctx.scratch.path("c02_cxx98_conv.ndjson")
            with open(tr) as f, open(trf, "w") as g:
                for ln in f:
                    if '"op":"conv"' in ln or (not ctx.quick and '"op":"mm"' in ln):
                        g.write(ln)
            ctx.validate(TRACE_MODULE, trf, label="cxx98-conv", min_lines=600)
    # stage X02 (notes/X02-notes.md): the matrix helper libraries - gtc/matrix_access, gtx/matrix_operation, matrix_query, matrix_major_storage,
    # matrix_cross_product, matrix_factorisation, the integer matrix types, ext/matrix_common - specified in GlmX02.tla
    from props import x02
    x02.run(ctx)
    ctx.rule("float, double, int, uint (+ int16, uint8 thorough): all 27 matrix products on every pair of basis matrices E_ij x E_kl (every index "
             "path of every hand-expanded product), dense distinct-prime matrices, exact dyadic fractions and random floats; 9 mat*vec and vec*mat "
             "shapes incl. aliasing forms; transpose, outerProduct, matrixCompMult, element-wise and scalar operators, compound assignments, "
             "++/--, ==/!=, row/column get/set, all 81 shape conversions, row/colMajor, matrixCross; judged by TLC over exact rationals", exhaustive=False)
    ctx.assumptions += ["vec * mat for integer matrices does not compile in GLM (dot is floating-point only): not exercised",
                        "sums of products on arbitrary floats are accepted within (n+1) eps of the sum of |products|"]
