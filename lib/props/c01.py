"""C01 - vector functions/operators equal the scalar overload applied per component."""
import vlib

LEVEL = "model_checking"
TRACE_MODULE = "Trace_C01"


def run(ctx):
    ctx.mc("MC_C01", "MC_C01.cfg", what="lifting model: every (length, overload-shape) pair x every component position: Lift is total, a scalar/vec1 "
           "operand equals the splatted vector, component i of the result is insensitive to the other components")
    b = ctx.build("c01", "c01.cpp", opt="-O0")
    if not b:
        return
    tr = ctx.scratch.path("c01.ndjson")
    ok, out = ctx.run_harness(b, [tr, ctx.tier], tr)
    if ok:
        ctx.validate(TRACE_MODULE, tr, label="pure")
    # the same harness on the aligned qualifiers in intrinsic builds: the vector side runs GLM's SIMD kernels, the scalar side the scalar overloads
    simd = ["-DC01_ALIGNED", "-DGLM_FORCE_INTRINSICS", "-DGLM_FORCE_ALIGNED_GENTYPES"]
    levels = [("sse2", ["-msse2"]), ("avx2", ["-mavx2", "-mfma"])] if ctx.quick else [("sse2", ["-msse2"]), ("sse4.1", ["-msse4.1"]), ("avx2", ["-mavx2", "-mfma"])]
    bins = vlib.pmap(lambda nf: ctx.build("c01-aligned-" + nf[0].replace(".", ""), "c01.cpp", flags=nf[1] + simd, opt="-O0", label="c01 aligned " + nf[0]), levels, jobs=3)
    for (name, flags), ba in zip(levels, bins):
        if not ba:
            continue
        tra = ctx.scratch.path("c01-%s.ndjson" % name)
        ok, out = ctx.run_harness(ba, [tra, ctx.tier], tra)
        if ok:
            ctx.validate(TRACE_MODULE, tra, label="aligned-" + name)
    ctx.rule("every component-wise function and operator of common / exponential / trigonometric / relational / ext twins / component_wise "
             "reductions / matrix abs+mix, for float, double and eight integer types, vector lengths 1-4, three qualifiers rotated over the "
             "special-value lattice (+-0, subnormals, ties, 2^23, 2^31, max, inf, quiet and signalling NaN) and moderate values; overload shapes vv, "
             "vs, sv, vec1, compound and aliasing forms; each vector result compared by TLC with what the scalar overload returned per component",
             exhaustive=False)
    ctx.rule("the same calls on aligned_highp / aligned_mediump / aligned_lowp in intrinsic builds (SSE2; SSE4.1 and AVX2+FMA thorough): GLM's SIMD kernels on the "
             "vector side against the scalar overloads; there lowp float division / sqrt / inversesqrt are hardware approximations (2^-8 on moderate operands), "
             "functions GLM derives from them are unconstrained for lowp, min / max / clamp on NaN operands are outside the domain and zero signs are free", exhaustive=False)
    # stage X01 (notes/X01-notes.md): the component-wise reductions and helpers around the lifted functions - gtx/component_wise, gtx/common,
    # gtx/hash, gtx/scalar_multiplication, gtx/range, typedef tables, exterior / mixed product, triangle normal - specified in GlmX01.tla
    from props import x01
    x01.run(ctx)
    ctx.assumptions += ["components that see a signalling NaN are outside the domain of the fmin/fmax/fclamp families",
                        "the scalar side is the scalar overload evaluated by the same build (relational property)"]
