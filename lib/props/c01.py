"""C01 - vector functions/operators equal the scalar overload applied per component."""
import vlib

LEVEL = "model_checking"
TRACE_MODULE = "Trace_C01"


def run(ctx):
    ctx.mc("MC_C01", "MC_C01.cfg", what="lifting model: every (length, overload-shape) pair x every component position: Lift is total, a scalar/vec1 "
           "operand equals the splatted vector, component i of the result is insensitive to the other components")
    b = ctx.build("c01", "c01.cpp", opt="-O0")
    if not b:
        return
    tr = ctx.scratch.path("c01.ndjson")
    ok, out = ctx.run_harness(b, [tr, ctx.tier], tr)
    if ok:
        ctx.validate(TRACE_MODULE, tr, label="pure")
    ctx.rule("every component-wise function and operator of common / exponential / trigonometric / relational / ext twins / component_wise "
             "reductions / matrix abs+mix, for float, double and eight integer types, vector lengths 1-4, three qualifiers rotated over the "
             "special-value lattice (+-0, subnormals, ties, 2^23, 2^31, max, inf, quiet and signalling NaN) and moderate values; overload shapes vv, "
             "vs, sv, vec1, compound and aliasing forms; each vector result compared by TLC with what the scalar overload returned per component",
             exhaustive=False)
    ctx.assumptions += ["components that see a signalling NaN are outside the domain of the fmin/fmax/fclamp families",
                        "the scalar side is the scalar overload evaluated by the same build (relational property)"]
