"""C17 - swizzles and constructors select and place exactly the named components.

E1  MC_C17: every index pattern x source length x letter set, every constructor shape, 81 matrix conversions,
    the quaternion forms; invariants = the laws of the property; the same run EMITS the enumeration (E2).
E2  gen/gen_c17.py pastes every emitted name / shape into C++ source text (batches in the scratch directory).
E3  one harness binary per build configuration (member-function swizzles + free functions + constructors;
    operator swizzles + assignments at SSE2 with packed and aligned types; XYZW_ONLY; the two quaternion
    layouts; AVX2 and a clang build in the thorough tier).
E4  Trace_C17 judges every event.
Compile census: the batches listed in ABSENT do not exist in GLM (do not compile) on the unchanged tree; they
are re-checked on every run, and a batch that should compile but does not is a VIOLATION naming the batch."""
import json, os, re, sys, time
import vlib
from vlib import log

sys.path.insert(0, os.path.join(vlib.VERIF, "gen"))
import gen_c17 as gen

LEVEL = "model_checking"
TRACE_MODULE = "Trace_C17"

# ------------------------------------------------------------------------------------------------ committed census
# (regular expression on the batch name, reason).  Batch names: <cfg>_swz_<impl>_<source length>_<result length>_<set>,
# <cfg>_swzw_<sl>_<rl>_<set>, <cfg>[x]_cvec_<n>_<parts>, <cfg>_cmat_<C>_<R>, <cfg>_cmatm_<C>_<R>, <cfg>_cqua
def is_hole(impl, sl, setname, name):
    """accessors recorded as missing inside a family that otherwise exists (they get a batch of their own, suffix _holes)"""
    if impl == "free":
        return setname == "xyzw" and (sl, name) in ((4, "xyz"), (3, "xyzz"), (4, "xyzz"))
    if impl == "opw":       # 3-letter accessors naming the 4th component: _swizzle<3,T,Q,E0,E1,E2,3> counts the filler E3 = 3 as a duplicate
        return sl == 4 and len(name) == 3 and setname[3] in name
    return False


ABSENT = [
    (r"\w+_swz_(fn|op)_1_[234]_\w+", "vec1 declares no swizzle accessors (the macro invocations are commented out in type_vec1.hpp)"),
    (r"fn_swz_free_\d_\d_(rgba|stpq)", "gtx/vec_swizzle.hpp defines xyzw names only"),
    (r"fn_swz_free_\d_\d_xyzw_holes", "gtx/vec_swizzle.hpp lacks xyz(vec4), xyzz(vec3), xyzz(vec4)"),
    (r"(op|avx2)_swzw_4_3_\w+_holes", "3-letter accessors of a vec4 that name the 4th component are not assignable: the duplicate test of _swizzle compares the filler index E3 = 3 too"),
    (r"xyzw_swz_(fn|mem)_\d_\d_(rgba|stpq)", "GLM_FORCE_XYZW_ONLY removes the rgba / stpq names"),
    (r"(op|avx2)_swz_op_2_3_\w+", "3-letter operator accessors of a vec2 are declared _swizzle<3,T,Q,E0,E1,E2,-1>, which has no operator() (type_vec2.hpp GLM_SWIZZLE2_3_MEMBERS)"),
    (r"(op|avx2)_swz(_op|w)_\d_2_\w+_au32", "_swizzle_base1<2, uint, aligned> is not redirected to the scalar implementation as float and int are (type_vec_simd.inl)"),
    (r"(op|avx2)_swz_op_\d_\d_\w+_aoth", "_swizzle_base1<N, T, aligned Q> has an operator() for float, int and uint only (type_vec_simd.inl)"),
    (r"\w+_cvec_4_s_s_s_v1", "vec4(X, Y, Z, vec1) is the one scalar/vec1 combination of four arguments that type_vec4.hpp does not declare"),
    (r"(fn|op|avx2)x_cvec_\d((_s)+_v1(_s|_v1)*|_v1(_s|_v1)+)", "the scalar/vec1 mixes take vec<1, A, Q> with the qualifier of the result"),
]


def absent_reason(name):
    for rx, why in ABSENT:
        if re.fullmatch(rx, name):
            return why
    return None


def implicated(logtext, names):
    """batches named in a compiler diagnostic (error lines and 'required from' lines carry the .inc file name)"""
    seen = set(m.group(1) for m in re.finditer(r"([A-Za-z0-9_]+)\.inc:\d+", logtext))
    return [n for n in names if n in seen]


def compile_cmd(cfg, cxx="g++"):
    return [cxx, "-std=c++17", "-I" + vlib.REPO, "-I" + os.path.join(vlib.VERIF, "harness")] + gen.CONFIGS[cfg]["flags"]


class Cfg:
    def __init__(self, ctx, name, cfg, items, gdir, cxx="g++"):
        self.ctx, self.name, self.cfg, self.cxx, self.gdir = ctx, name, cfg, cxx, gdir
        self.batches = gen.make_batches(cfg, items, not ctx.quick, is_hole)
        self.names = [b.name for b in self.batches]
        self.bin = None
        self.absent_now = []
        self.appeared = []
        self.failed = []

    def prepare(self):
        """census of the batches recorded as absent, then build (and localise a failure to batches)"""
        absent = [n for n in self.names if absent_reason(n)]
        present = [n for n in self.names if not absent_reason(n)]
        if absent:
            tu = os.path.join(self.gdir, "census_%s.cpp" % self.name)
            gen.write_tu(tu, self.cfg, absent, no_main=True)
            rc, out = vlib.sh(compile_cmd(self.cfg, self.cxx) + ["-fsyntax-only", "-w", tu], timeout=900)
            bad = set(implicated(out, absent)) if rc != 0 else set()
            self.absent_now = [n for n in absent if n in bad]
            self.appeared = [n for n in absent if n not in bad]
            present = [n for n in self.names if n in set(present) | set(self.appeared)]
        flags = gen.CONFIGS[self.cfg]["flags"]
        for attempt in range(4):
            tu = os.path.join(self.gdir, "c17_%s.cpp" % self.name)
            gen.write_tu(tu, self.cfg, present, label=self.name)
            t = time.time()
            b, lg = vlib.build("c17" + self.name, tu, flags, cxx=self.cxx, opt="-O1")
            if b:
                self.bin = b
                self.present = present
                log("[build] c17 %s: %d batches (%.1fs)" % (self.name, len(present), time.time() - t))
                return
            bad = implicated(lg, present)
            if not bad:
                self.failed.append(("<translation unit>", lg))
                return
            for n in bad:
                self.failed.append((n, lg))
            present = [n for n in present if n not in set(bad)]


def run(ctx):
    lst = ctx.scratch.path("c17_list.txt")
    ctx.mc("MC_C17", env={"OUT": lst},
           what="all 4+16+64+256 index patterns x source lengths 1..4 x 3 letter sets (bijection, read, write-then-read, frame), "
                "all 126 vector constructor shapes for vec1..vec4, 81 matrix conversions, 5 quaternion forms; emits the enumeration for the generator")
    if not os.path.exists(lst):
        raise vlib.Infra("MC_C17 did not emit the enumeration")
    items = gen.parse_list(lst)
    ctx.extra["spec_enumerated"] = {k: len(v) for k, v in items.items()}
    if len(items["swz"]) != 3 * (4 + 30 + 120 + 340) or len(items["mat"]) != 81:
        raise vlib.Infra("MC_C17 enumeration incomplete: %s" % ctx.extra["spec_enumerated"])
    gdir = ctx.scratch.path("gen")
    os.makedirs(gdir, exist_ok=True)
    plan = [("fn", "fn", "g++"), ("op", "op", "g++"), ("xyzw", "xyzw", "g++"), ("qwxyz", "qwxyz", "g++"), ("qxyzw", "qxyzw", "g++")]
    if not ctx.quick:
        plan += [("avx2", "avx2", "g++"), ("fnclang", "fn", "clang++"), ("opclang", "op", "clang++")]
    cfgs = []
    for name, cfg, cxx in plan:
        c = Cfg(ctx, name, cfg, items, gdir, cxx)
        gen.write_batches(gdir, c.batches)
        cfgs.append(c)
    vlib.pmap(lambda c: c.prepare(), cfgs)

    census = {}
    traces = []
    for c in cfgs:
        census[c.name] = {"batches": len(c.names), "compiled": len(getattr(c, "present", [])), "absent": c.absent_now, "appeared": c.appeared}
        if c.appeared:
            log("[census] %s: %d batch(es) recorded as absent now compile and are judged like the others: %s" % (c.name, len(c.appeared), " ".join(c.appeared[:8])))
        seen = set()
        for n, lg in c.failed:
            if n in seen:
                continue
            seen.add(n)
            what = next((b.what for b in c.batches if b.name == n), n)
            tail = "\n".join(l for l in lg.splitlines() if (n + ".inc") in l or "error" in l)[:6000]
            rp = ctx.write_replay("compile-%s" % n, [json.dumps({"compile_error": n, "cfg": c.name, "flags": gen.CONFIGS[c.cfg]["flags"]})], tail)
            ctx.violation("batch %s (%s) compiles on the unchanged tree but not on this one (configuration %s: %s)"
                          % (n, what, c.name, " ".join(gen.CONFIGS[c.cfg]["flags"])), rp)
        if c.bin:
            ctx.builds.append("c17 %s %s %s" % (c.name, c.cxx, " ".join(gen.CONFIGS[c.cfg]["flags"])))
            tr = ctx.scratch.path("c17_%s.ndjson" % c.name)
            ok, out = ctx.run_harness(c.bin, [tr], tr)
            if ok:
                traces.append(tr)
    ctx.extra["compile_census"] = census
    if traces:
        allp = ctx.scratch.path("c17.ndjson")
        with open(allp, "wb") as g:
            for tr in traces:
                with open(tr, "rb") as f:
                    g.write(f.read())
        ctx.validate(TRACE_MODULE, allp, label="all")
    ctx.rule("one event per swizzle accessor name enumerated by MC_C17 (every 1..4-letter name over xyzw / rgba / stpq for source lengths 1..4) in each "
             "implementation that has it (member functions, operator members read through the conversion and through operator(), gtx/vec_swizzle free "
             "functions, plain members) x element types x qualifiers (packed, and aligned = the _mm_shuffle specialisations); four assignments per "
             "writable operator accessor (vector, scalar, aliased, same accessor of another vector) logging the whole destination; one event per "
             "vector constructor shape x element-type variant (homogeneous, cross-type, mixed) x qualifier pair; per matrix shape: diagonal, scalars, "
             "columns, same-shape conversions and all 81 shape conversions; the quaternion forms in three storage configurations; every source "
             "component carries a distinct tag value; each event judged exactly by TLC against GlmSwizzle.tla / GlmCtor.tla", exhaustive=True)
    ctx.assumptions += ["static_cast results that the C++ standard leaves undefined (value out of range of the integer target, NaN / infinity to integer, "
                        "finite value beyond the floating target) constrain nothing; an inexact conversion to a floating type may round to either neighbour",
                        "accessors and constructor signatures that GLM does not declare (the committed compile census in lib/props/c17.py) constrain nothing",
                        "with GLM_FORCE_QUAT_DATA_XYZW the four-scalar quaternion constructor is declared qua(x, y, z, w) and is judged in that order"]
