"""C17 - swizzles and constructors select and place exactly the named components.

E1  MC_C17: every index pattern x source length 1..4 x letter set, every vector constructor shape, 81 matrix conversions, the
    quaternion forms; invariants = the laws of the property; the same run EMITS the enumeration (E2).
E2  gen/gen_c17.py pastes every emitted name / shape into C++ source text: batches in the scratch directory.
E3  build units (a unit = harness/c17.cpp + a subset of the batches):
      fn_swz fn_ctor   g++      -DGLM_FORCE_SWIZZLE: member-function swizzles, gtx/vec_swizzle free functions, constructors
      op_swz op_ctor   clang++  + -DGLM_FORCE_INTRINSICS -msse2: operator swizzles (read, 4 assignments per writable accessor),
                                packed and aligned types (the _mm_shuffle specialisations, the SIMD constructors)
      op_av2           g++ -O0  4-letter operator accessors of aligned vec2 sources under a fault guard
      xyzw             GLM_FORCE_XYZW_ONLY;   qwxyz / qxyzw   the quaternion storage / argument-order configurations
      cxx03            GLM_FORCE_CXX03: the constructors and the 81 shape conversions with their pre-C++11 bodies
    thorough: avx2_* (clang++ -mavx2 -mfma), fnclang_*, opg_* (the operator form with g++, split in 7 units because g++ needs
    ~0.15 s per accessor in that mode), more element types / qualifiers / cross-type pairs.
E4  Trace_C17 judges every event of the concatenated trace.
Compile census: the batches matched by ABSENT do not compile on the unchanged tree.  They are excluded from the units and
reported as `absent` events, which Trace_C17 classifies (by design / known deviation / bad); the thorough tier re-compiles every
one of them on its own.  A batch that should compile and does not is a VIOLATION naming the batch."""
import json, os, re, sys, time
import vlib
from vlib import log

sys.path.insert(0, os.path.join(vlib.VERIF, "gen"))
import gen_c17 as gen

LEVEL = "model_checking"
TRACE_MODULE = "Trace_C17"

# ------------------------------------------------------------------------------------------------ committed census
# (regular expression on the batch name, reason).  Batch names: <cfg>_swz_<impl>_<source length>_<result length>_<set>,
# <cfg>_swzw_<sl>_<rl>_<set>, <cfg>[x]_cvec_<n>_<parts>, <cfg>_cmat_<C>_<R>, <cfg>_cmatm_<C>_<R>, <cfg>_cqua
def is_hole(impl, sl, setname, name):
    """accessors recorded as missing inside a family that otherwise exists (they get a batch of their own, suffix _holes)"""
    if impl == "free":
        return setname == "xyzw" and (sl, name) == (4, "xyzz")
    if impl == "opw":       # 3-letter accessors naming the 4th component: _swizzle<3,T,Q,E0,E1,E2,3> counts the filler E3 = 3 as a duplicate
        return sl == 4 and len(name) == 3 and setname[3] in name
    return False


ABSENT = [
    (r"\w+_swz_(fn|op)_1_[234]_\w+", "vec1 declares no swizzle accessors (the macro invocations are commented out in type_vec1.hpp)"),
    (r"fn_swz_free_\d_\d_(rgba|stpq)", "gtx/vec_swizzle.hpp defines xyzw names only"),
    (r"(fn|op|avx2)_swz_free_4_4_xyzw\w*_holes", "xyzz(vec4) is not defined (xyz(vec4) and xyzz(vec3), also absent from gtx/vec_swizzle.hpp, come from func_common.inl)"),
    (r"(op|avx2)_swzw_4_3_\w+_holes", "3-letter accessors of a vec4 that name the 4th component are not assignable: the duplicate test of _swizzle compares the filler index E3 = 3 too"),
    (r"xyzw_swz_(fn|mem)_\d_\d_(rgba|stpq)", "GLM_FORCE_XYZW_ONLY removes the rgba / stpq names"),
    (r"(op|avx2)_swz_op_2_3_\w+", "3-letter operator accessors of a vec2 are declared _swizzle<3,T,Q,E0,E1,E2,-1>, which has no operator() (type_vec2.hpp GLM_SWIZZLE2_3_MEMBERS)"),
    (r"(op|avx2)_swz_op_\d_2_\w+_au32", "_swizzle_base1<2, uint, aligned> is not redirected to the scalar implementation as float and int are (type_vec_simd.inl)"),
    (r"(op|avx2)_swz_op_\d_\d_\w+_aoth", "_swizzle_base1<N, T, aligned Q> has an operator() for float, int and uint only (type_vec_simd.inl)"),
    (r"\w+_cvec_4_s_s_s_v1", "vec4(X, Y, Z, vec1) is the one scalar/vec1 combination of four arguments that type_vec4.hpp does not declare"),
    (r"(fn|op|avx2)x_cvec_\d((_s)+_v1(_s|_v1)*|_v1(_s|_v1)+)", "the scalar/vec1 mixes take vec<1, A, Q> with the qualifier of the result"),
]


def absent_reason(name):
    for rx, why in ABSENT:
        if re.fullmatch(rx, name):
            return why
    return None


def implicated(logtext, names):
    """batches named in a compiler diagnostic (error lines and 'required from' lines carry the .inc file name)"""
    seen = set(m.group(1) for m in re.finditer(r"([A-Za-z0-9_]+)\.inc:\d+", logtext))
    return [n for n in names if n in seen]


def base_cmd(cfg, cxx):
    return [cxx, "-std=c++17", "-I" + vlib.REPO, "-I" + os.path.join(vlib.VERIF, "harness")] + gen.CONFIGS[cfg]["flags"] + ["-w"]


class Family:
    """the batches of one configuration (generated once) and their compile census"""

    def __init__(self, ctx, key, cfg, thorough, cxx, gdir):
        self.ctx, self.key, self.cfg, self.cxx = ctx, key, cfg, cxx
        self.gdir = os.path.join(gdir, key)
        os.makedirs(self.gdir, exist_ok=True)
        self.batches = gen.make_batches(cfg, items_cache["items"], thorough, is_hole)
        gen.write_batches(self.gdir, self.batches)
        self.by_name = {b.name: b for b in self.batches}
        self.names = [b.name for b in self.batches]
        self.absent = [n for n in self.names if absent_reason(n)]
        self.present = [n for n in self.names if not absent_reason(n)]
        self.verified = False
        self.appeared = []
        self.pch = None

    # -- census of the batches recorded as absent: each is compiled on its own (thorough tier)
    def make_pch(self):
        hdr = os.path.join(self.gdir, "pch_%s.hpp" % self.key)
        with open(hdr, "w") as f:
            f.write('#define C17_CFG "%s"\n#define C17_NO_MAIN\n#include "c17.cpp"\n' % self.key)
        if self.cxx == "g++":
            rc, out = vlib.sh(base_cmd(self.cfg, self.cxx) + ["-x", "c++-header", hdr, "-o", hdr + ".gch"], timeout=600)
        else:
            rc, out = vlib.sh(base_cmd(self.cfg, self.cxx) + ["-x", "c++-header", hdr, "-o", hdr + ".pch"], timeout=600)
        if rc != 0:
            raise vlib.Infra("precompiled header for the C17 census failed (%s):\n%s" % (self.key, out[-2000:]))
        self.pch = hdr

    def census_one(self, n):
        tu = os.path.join(self.gdir, "census_%s.cpp" % n)
        with open(tu, "w") as f:
            f.write('%s#include "%s.inc"\n' % ('#include "pch_%s.hpp"\n' % self.key if self.cxx == "g++" else "", n))
        cmd = base_cmd(self.cfg, self.cxx) + ["-fsyntax-only"] + ([] if self.cxx == "g++" else ["-include-pch", self.pch + ".pch"]) + [tu]
        rc, out = vlib.sh(cmd, timeout=600)
        return n, rc == 0


class Unit:
    """one harness binary: a subset of the present batches of a family"""

    def __init__(self, name, fam, cxx, opt, select):
        self.name, self.fam, self.cxx, self.opt, self.select = name, fam, cxx, opt, select
        self.bin = None
        self.failed = []
        self.used = []

    def build(self):
        fam = self.fam
        mine = [n for i, n in enumerate(fam.present) if self.select(n, i)]
        flags = gen.CONFIGS[fam.cfg]["flags"]
        for attempt in range(4):
            tu = os.path.join(fam.gdir, "c17_%s.cpp" % self.name)
            gen.write_tu(tu, fam.cfg, mine, label=self.name)
            t = time.time()
            b, lg = vlib.build("c17" + self.name, tu, flags, cxx=self.cxx, opt=self.opt)
            if b:
                self.bin, self.used = b, mine
                log("[build] c17 %s (%s %s): %d batches (%.1fs)" % (self.name, self.cxx, self.opt, len(mine), time.time() - t))
                return
            bad = implicated(lg, mine)
            if not bad:
                self.failed.append(("<translation unit %s>" % self.name, lg))
                return
            for n in bad:
                self.failed.append((n, lg))
            mine = [n for n in mine if n not in set(bad)]


def ctor_unit_source(ctx, cfg="op"):
    """for C20: the generated translation unit of the constructor batches of one configuration (quick lists) -> (path, flags)"""
    lst = ctx.scratch.path("c17_list_for_c20.txt")
    ctx.mc("MC_C17", env={"OUT": lst}, what="enumeration of the constructor shapes for the sanitizer-monitored replay of the C17 constructor unit")
    items_cache["items"] = gen.parse_list(lst)
    gdir = ctx.scratch.path("gen_c20")
    os.makedirs(gdir, exist_ok=True)
    fam = Family(ctx, cfg + "san", cfg, False, "clang++", gdir)
    mine = [n for i, n in enumerate(fam.present) if IS_CTOR(n, i)]
    tu = os.path.join(fam.gdir, "c17_%s_ctor_san.cpp" % cfg)
    gen.write_tu(tu, cfg, mine, label=cfg + "_ctor")
    return tu, list(gen.CONFIGS[cfg]["flags"]), fam.gdir


items_cache = {}
IS_AV2 = lambda n, i: n.endswith("_av2")
IS_SWZ = lambda n, i: "_swz" in n and not n.endswith("_av2")
IS_CTOR = lambda n, i: "_swz" not in n
ALL = lambda n, i: True


def run(ctx):
    lst = ctx.scratch.path("c17_list.txt")
    ctx.mc("MC_C17", env={"OUT": lst},
           what="all 4+16+64+256 index patterns x source lengths 1..4 x 3 letter sets (bijection, read, write-then-read, frame), "
                "all 66 vector constructor shapes for vec1..vec4, 81 matrix conversions, 5 quaternion forms; emits the enumeration for the generator")
    if not os.path.exists(lst):
        raise vlib.Infra("MC_C17 did not emit the enumeration")
    items = gen.parse_list(lst)
    items_cache["items"] = items
    ctx.extra["spec_enumerated"] = {k: len(v) for k, v in items.items()}
    if len(items["swz"]) != 3 * (4 + 30 + 120 + 340) or len(items["mat"]) != 81 or len(items["ctor"]) != 66:
        raise vlib.Infra("MC_C17 enumeration incomplete: %s" % ctx.extra["spec_enumerated"])
    gdir = ctx.scratch.path("gen")
    os.makedirs(gdir, exist_ok=True)
    th = not ctx.quick
    fams = {"fn": Family(ctx, "fn", "fn", th, "g++", gdir), "op": Family(ctx, "op", "op", th, "clang++", gdir),
            "xyzw": Family(ctx, "xyzw", "xyzw", th, "g++", gdir), "qwxyz": Family(ctx, "qwxyz", "qwxyz", th, "g++", gdir),
            "qxyzw": Family(ctx, "qxyzw", "qxyzw", th, "g++", gdir), "cxx03": Family(ctx, "cxx03", "cxx03", th, "g++", gdir)}
    units = [Unit("fn_swz", fams["fn"], "g++", "-O1", IS_SWZ), Unit("fn_ctor", fams["fn"], "g++", "-O1", IS_CTOR),
             Unit("op_swz", fams["op"], "clang++", "-O0", IS_SWZ), Unit("op_ctor", fams["op"], "clang++", "-O0", IS_CTOR),
             Unit("op_av2", fams["op"], "g++", "-O0", IS_AV2),
             Unit("xyzw", fams["xyzw"], "g++", "-O1", ALL), Unit("qwxyz", fams["qwxyz"], "g++", "-O1", ALL), Unit("qxyzw", fams["qxyzw"], "g++", "-O1", ALL),
             Unit("cxx03", fams["cxx03"], "g++", "-O1", ALL)]
    # the conversion constructors between packed and aligned types store through reinterpreted pointers: the same constructor batches with
    # g++ -O2, where type-based alias analysis is on
    units.append(Unit("opO2_ctor", fams["op"], "g++", "-O2", IS_CTOR))
    if not th:
        # quick: the constructors (conversion constructors between packed and aligned types have AVX specialisations for double) at AVX2
        fams["avx2"] = Family(ctx, "avx2", "avx2", False, "clang++", gdir)
        units.append(Unit("avx2_ctor", fams["avx2"], "clang++", "-O0", IS_CTOR))
    if th:
        fams["avx2"] = Family(ctx, "avx2", "avx2", True, "clang++", gdir)
        fams["opg"] = Family(ctx, "opg", "op", False, "g++", gdir)         # g++ is very slow on the operator form: the quick-size lists
        units += [Unit("avx2_swz", fams["avx2"], "clang++", "-O0", IS_SWZ), Unit("avx2_ctor", fams["avx2"], "clang++", "-O0", IS_CTOR),
                  Unit("fnclang_swz", fams["fn"], "clang++", "-O1", IS_SWZ), Unit("fnclang_ctor", fams["fn"], "clang++", "-O1", IS_CTOR),
                  Unit("opg_ctor", fams["opg"], "g++", "-O0", IS_CTOR)]
        units += [Unit("opg_swz%d" % k, fams["opg"], "g++", "-O0", (lambda k: lambda n, i: IS_SWZ(n, i) and i % 6 == k)(k)) for k in range(6)]
        # census: every batch recorded as absent is compiled on its own
        cens = [f for f in fams.values() if f.absent and f.key != "opg"]
        vlib.pmap(lambda f: f.make_pch(), cens)
        jobs = [(f, n) for f in cens for n in f.absent]
        for (f, n), (_, ok) in zip(jobs, vlib.pmap(lambda j: j[0].census_one(j[1]), jobs)):
            if ok:
                f.appeared.append(n)
        for f in cens:
            f.verified = True
            f.present = [n for n in f.names if n in set(f.present) | set(f.appeared)]
            f.absent = [n for n in f.absent if n not in set(f.appeared)]
            if f.appeared:
                log("[census] %s: %d batch(es) recorded as absent now compile and are judged like the others: %s" % (f.key, len(f.appeared), " ".join(f.appeared[:8])))
    vlib.pmap(lambda u: u.build(), units)

    traces = []
    reported = set()
    for u in units:
        for n, lg in u.failed:
            if (u.fam.key, n) in reported:
                continue
            reported.add((u.fam.key, n))
            what = u.fam.by_name[n].what if n in u.fam.by_name else n
            tail = "\n".join(l for l in lg.splitlines() if (n + ".inc") in l or "error" in l)[:6000]
            rp = ctx.write_replay("compile-%s" % n, [json.dumps({"compile_error": n, "unit": u.name, "cxx": u.cxx, "flags": gen.CONFIGS[u.fam.cfg]["flags"]})], tail)
            ctx.violation("batch %s (%s) compiles on the unchanged tree but not on this one (%s %s)"
                          % (n, what, u.cxx, " ".join(gen.CONFIGS[u.fam.cfg]["flags"])), rp)
        if u.bin:
            ctx.builds.append("c17 %s %s %s %s (%d batches)" % (u.name, u.cxx, u.opt, " ".join(gen.CONFIGS[u.fam.cfg]["flags"]), len(u.used)))
            tr = ctx.scratch.path("c17_%s.ndjson" % u.name)
            ok, out = ctx.run_harness(u.bin, [tr], tr)
            if ok:
                traces.append(tr)
    # conversions between aligned and packed types from compile-time visible sources in straight-line code (harness/c17alias.cpp), g++ -O2 / -O3
    for nm, fl, opt in [("alias_sse2_O2", ["-DGLM_FORCE_INTRINSICS", "-msse2"], "-O2"), ("alias_avx2_O3", ["-DGLM_FORCE_INTRINSICS", "-mavx2", "-mfma"], "-O3")]:
        ba = ctx.build("c17" + nm, "c17alias.cpp", flags=fl, opt=opt, label="c17 " + nm)
        if ba:
            tra = ctx.scratch.path("c17_%s.ndjson" % nm)
            ok, out = ctx.run_harness(ba, [tra], tra)
            if ok:
                traces.append(tra)
    # the census as events: one per absent batch, classified by Trace_C17 (by design -> skip, deviation -> known, anything else -> bad)
    cen = ctx.scratch.path("c17_census.ndjson")
    census = {}
    with open(cen, "w") as g:
        for f in fams.values():
            census[f.key] = {"batches": len(f.names), "compiled": len(f.present), "absent": len(f.absent), "appeared": f.appeared, "recompiled_this_run": f.verified}
            if f.key == "opg":
                continue
            for n in f.absent:
                ev = dict(f.by_name[n].absent)
                ev["batch"] = n
                ev["verified"] = 1 if f.verified else 0
                g.write(json.dumps(ev, separators=(",", ":")) + "\n")
    traces.append(cen)
    ctx.extra["compile_census"] = census
    allp = ctx.scratch.path("c17.ndjson")
    with open(allp, "wb") as g:
        for tr in traces:
            with open(tr, "rb") as f:
                g.write(f.read())
    ctx.validate(TRACE_MODULE, allp, label="all")
    ctx.rule("one event per swizzle accessor name enumerated by MC_C17 (every 1..4-letter name over xyzw / rgba / stpq for source lengths 1..4) in each "
             "implementation that has it (member functions, operator members read through the conversion and through operator(), gtx/vec_swizzle free "
             "functions, plain members) x element types x qualifiers (packed, and aligned = the _mm_shuffle specialisations); four assignments per "
             "writable operator accessor (vector, scalar, aliased, same accessor of another vector) logging the whole destination; one event per "
             "vector constructor shape x element-type variant (homogeneous, cross-type, mixed) x qualifier pair; per matrix shape: diagonal, scalars, "
             "columns, same-shape conversions and all 81 shape conversions; the quaternion forms in three storage configurations; every source "
             "component carries a distinct tag value; each event judged exactly by TLC against GlmSwizzle.tla / GlmCtor.tla", exhaustive=True)
    ctx.assumptions += ["static_cast results that the C++ standard leaves undefined (value out of range of the integer target, NaN / infinity to integer, "
                        "finite value beyond the floating target) constrain nothing; an inexact conversion to a floating type may round to either neighbour",
                        "accessors and constructor signatures that GLM does not declare (the committed compile census in lib/props/c17.py) constrain nothing",
                        "with GLM_FORCE_QUAT_DATA_XYZW the four-scalar quaternion constructor is declared qua(x, y, z, w) and is judged in that order"]
