"""X12 - geometric extras attached to C12: gtx/intersect (ray/plane, ray/triangle, line/triangle, ray/sphere x2, line/sphere),
gtx/vector_query, gtx/normalize_dot (normalizeDot), gtx/handed_coordinate_space, gtx/polar_coordinates, gtx/extend."""
import vlib

LEVEL = "model_checking"
TRACE_MODULE = "Trace_X12"


def run(ctx):
    ctx.mc("MC_X12", "MC_X12.cfg", workers=min(8, vlib.NCPU), timeout=600,
           what="integer / rational configurations: rays x planes (point on the plane at the returned parameter, invariance under the "
                "orientation of the normal), rays x triangles (Moeller-Trumbore solution reproduces the point, invariant under rotation of "
                "the vertices = action, ray hit = line hit in front), lines x spheres (roots on the sphere, symmetric about the foot, "
                "discriminant sign = distance of the line from the centre, nearest positive root), vector queries in squares (Lagrange = sum "
                "of squared minors, vec4 w component matters), normalizeDot (Cauchy-Schwarz, +-1 iff parallel), handedness (determinant, "
                "swap = action), polar / euclidean on rational points of the unit circle, extend; agreement of the division-free dyadic "
                "forms and three-valued predicates of GlmX12 part 2 with the rational definitions of part 1; fixed-point sine / cosine "
                "enclosures against reference values")
    b = ctx.build("x12", "x12.cpp", opt="-O1")
    if not b:
        return
    tr = ctx.scratch.path("x12.ndjson")
    ok, out = ctx.run_harness(b, [tr, ctx.tier], tr)
    if not ok:
        return
    ctx.validate(TRACE_MODULE, tr, label="pure", min_lines=400)
    ctx.rule("intersectRayPlane (vec2/3/4), intersectRayTriangle, intersectLineTriangle, intersectRaySphere (distance and position/normal "
             "overloads, vec2/3/4), intersectLineSphere (vec2/3/4), areCollinear areOrthogonal areOrthonormal isNormalized isNull isCompNull "
             "(vec2/3/4), normalizeDot (vec1..4), rightHanded leftHanded, polar euclidean and their round trip, extend (scalar, vec2/3/4); "
             "float and double, highp plus a lowp sub-sample; inputs: Pythagorean unit vectors, small integer configurations with exact "
             "hits / misses / ties (3-4-5 spheres, barycentric grid points of integer triangles in front of and behind the origin), grazing "
             "and tiny configurations around every absolute epsilon of the implementation, thresholds at / just above / just below the "
             "exact value for the queries, GLM-normalised random directions, random dyadics at random scales, out-of-domain values; each "
             "event judged by TLC against GlmX12.tla in exact dyadic arithmetic: decisions demanded outside the derived rounding band, "
             "postconditions (point on plane / triangle / sphere and on the ray at the returned distance) for every reported hit", exhaustive=False)
    ctx.assumptions += ["components outside 2^+-20 (float) / 2^+-60 (double), non-finite arguments, non-unit ray directions / plane normals where the "
                        "documentation demands unit length (beyond 8 eps), radius <= 0, coincident line points, triangles whose determinant vanishes "
                        "within its rounding error, polar(0), angles beyond 3.25 for euclidean constrain nothing",
                        "outputs of a call that reports no intersection are not examined (undocumented)",
                        "decisions within the derived rounding band of the deciding quantity (and roots / determinants within a few machine epsilons "
                        "of the implementation's absolute thresholds) are free",
                        "fastNormalizeDot is not judged: the accuracy of fastInverseSqrt is not documented"]
