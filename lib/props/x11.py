"""X11 - scalar-function extras of C11: gtx/spline, gtx/easing, gtx/optimum_pow, gtx/log_base, gtx/associated_min_max,
gtx/extended_min_max (+ vector fmin/fmax), gtc/reciprocal, gtx/compatibility (lerp saturate atan2 isfinite), gtx/functions (gauss),
gtx/scalar_multiplication, gtx/range, gtx/texture (levels), gtc/integer (log2) obey their documented formulas."""
import json, os
import vlib

LEVEL = "model_checking"
TRACE_MODULE = "Trace_X11"

PROBES = [(1, "min3_scalar_call"), (2, "min3_vector_call")]


def probe(ctx, n):
    """does the documented call form compile against the tree under test?  (-fsyntax-only, nothing is run)"""
    src = os.path.join(vlib.VERIF, "harness", "x11_probe.cpp")
    rc, out = vlib.sh(["g++", "-std=c++17", "-fsyntax-only", "-w", "-I" + vlib.REPO, "-DX11_PROBE=%d" % n, src], timeout=300)
    return rc == 0


def run(ctx):
    ctx.mc("MC_X11", "MC_X11.cfg", workers=min(8, vlib.NCPU),
           what="22 polynomial easing functions x a = j/16 (endpoints, continuity of the pieces, monotone members, Out(a) = 1 - In(1-a), InOut = halves of In, "
                "scale bounds value), the bounce parabolas meet at 4/11, 8/11, 9/10; catmullRom / hermite / cubic on {-1,0,2}^4 x 5 parameters (interpolation, "
                "partition of unity, reversal, linear precision, Horner); 6^4 key tuples of a float lattice incl. -0/+0, inf, NaN through the extreme-index sets and "
                "the comparison trees of associatedMin/Max; integer log2 / levels on 1..400; ordering and mutual consistency of the Taylor enclosures, pi, ln 2, "
                "sqrt(2 pi) brackets, cosh/sinh at k ln 2")
    b = ctx.build("x11", "x11.cpp")
    if not b:
        return
    tr = ctx.scratch.path("x11.ndjson")
    ok, out = ctx.run_harness(b, [tr, ctx.tier], tr)
    if not ok:
        return
    res = vlib.pmap(lambda pr: probe(ctx, pr[0]), PROBES, jobs=2)
    with open(tr, "a") as f:
        for (n, name), okc in zip(PROBES, res):
            f.write(json.dumps({"op": "probe", "name": name, "ok": 1 if okc else 0}, separators=(",", ":")) + "\n")
    ctx.validate(TRACE_MODULE, tr, label="pure", min_lines=1500)
    ctx.rule("float and double (and int / uint where the function takes them): catmullRom / hermite / cubic on vec1..vec4 with small-integer and random dyadic "
             "control points, s in and outside [0,1]; all 31 easing functions + the three two-argument back functions on a = j/16, +-2 ulp around 1/2, 4/11, 8/11, "
             "9/10 and their mirror images, tiny / subnormal a, random dyadic a (polynomial ones against the exact formula within K eps of the sum of absolute "
             "terms, circular ones through squares, sine / exponential / elastic at the dyadic points of their formulas), monotone monomials on adjacent "
             "pairs; pow2/3/4 (float double int uint vec3 ivec2); lerp saturate isfinite atan2 (scalar, vec2..4; 8 directions x 5 scales, small ratios through the "
             "series enclosure, random quadrants); int/uint/long/double * vec2..4 and mat2..mat4, vec / scalar; associatedMin/Max with 2-4 pairs in all four "
             "scalar/vector forms, keys int/float/double incl. ties, -0/+0, inf, NaN, distinct values of another type; gtx min/max of 3 and 4 scalars "
             "(selected by signature), vector min/max/fmin/fmax with 2-4 operands and every NaN placement; log(x, base) on exact powers of 13 bases; "
             "sec csc cot on 20 Pythagorean triples x 4 quadrants and +-2^-j, asec acsc acot at exact points and +-2^k, sec(asec x), csc(acsc x), "
             "sech csch coth asech acsch acoth at k ln 2 (|k| <= 8), vector reciprocals = scalar ones bitwise; gauss 1D/2D at the peak, symmetric pairs, "
             "small deviations (exp series) and never above the peak; levels / integer log2 on powers of two +-1 and random extents; begin/end on vec1..4, "
             "five matrix shapes, ivec3, dvec2; two compile probes; every event judged by TLC against GlmX11.tla", exhaustive=False)
    ctx.assumptions += [
        "polynomial formulas are judged for operands within 2^+-24 (beyond: VSkip); tolerance K * (eps * sum of absolute terms + min subnormal), K = first-order "
        "rounding count of the documented evaluation, eps = 2^-23 / 2^-52",
        "libm (sin cos tan asin acos atan atan2 sinh cosh asinh acosh atanh exp log sqrt pow) is assumed accurate to 1 ulp; angles reach GLM as "
        "atan2l(sn, cn) of Pythagorean triples / k ln 2 in long double rounded to the type (input encoding)",
        "easing functions are only called with a in [0, 1] (the functions assert it); NaN keys / operands of the non-NaN-aware selections constrain nothing",
        "the back and bounce easing formulas and the default overshoot 1.70158 are not documented in the header: they are taken from the AHEasing reference "
        "the header cites"]
