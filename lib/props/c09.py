"""C09 - translate/rotate/scale/shear/lookAt/decompose build the transforms they name."""
import os
import vlib

LEVEL = "model_checking"
TRACE_MODULE = "Trace_C09"

# (name, flags, requested handedness 0 = RH / 1 = LH, corpus)
CONFIGS = [
    ("rh", [], 0, "full"),
    ("lh", ["-DGLM_FORCE_LEFT_HANDED"], 1, "part"),
    # the handedness dispatchers read GLM_CONFIG_CLIP_CONTROL, which also carries the depth-range bit: both handednesses with the
    # zero-to-one depth range as well (the depth range must not influence lookAt / rotate / ...)
    ("rh_zo", ["-DGLM_FORCE_DEPTH_ZERO_TO_ONE"], 0, "part"),
    ("lh_zo", ["-DGLM_FORCE_LEFT_HANDED", "-DGLM_FORCE_DEPTH_ZERO_TO_ONE"], 1, "part"),
]


def run(ctx):
    ctx.mc("MC_C09", "MC_C09.cfg",
           what="4374 grid points over Q: T(a)T(b)=T(a+b), S(a)S(b)=S(ab), fast-path column formulas = M*E for integer base matrices "
                "(incl. non-affine last rows); Rodrigues R(c,s,axis) orthonormal, det 1, fixes its axis, R(c,s)R(c,-s)=I, angles add, "
                "half-angle quaternion = R, rotateX/Y/Z = planar rotation (8 Pythagorean (cos,sin) pairs x 7 rational unit axes); shear "
                "family (gtx/transform2 forms are instances of shear, horizontal/vertical 2D shears), reflect/proj/scaleBias laws; the "
                "lookAt construction satisfies the postconditions of the property for 4374 eye/center/up triples (>= 2000 in the domain), "
                "both handednesses, negative controls (other handedness, flipped row); recompose = P T R K S, sign-canonical "
                "factorisation, perspective row, column norms")
    # recompose is declared for every T but its body uses glm::mat4: is recompose<double> instantiable on this tree?
    probe = ctx.build("c09probe", "c09.cpp", flags=["-DC09_PROBE"], opt="-O0", must=False, label="c09 probe recompose<double>")
    have = ["-DC09_HAVE_RECOMPOSE_D"] if probe else []
    if not probe:
        vlib.log("[c09] recompose<double> does not compile: harness built without it (logged as a 'missing' event)")

    def one(cfg):
        name, flags, req, load = cfg
        return cfg, ctx.build("c09_" + name, "c09.cpp", flags=list(flags) + have, label="c09 " + name)

    built = vlib.pmap(one, CONFIGS, jobs=4)
    whole = ctx.scratch.path("c09.ndjson")
    with open(whole, "wb") as out:
        for (name, flags, req, load), b in built:
            if not b:
                continue
            tr = ctx.scratch.path("c09_%s.ndjson" % name)
            # (the two zero-to-one configurations always run the quick-size corpus: they exist for the dispatchers, not for volume)
            ok, _ = ctx.run_harness(b, [tr, req, "quick" if name.endswith("_zo") else ctx.tier, load], tr)
            if not ok:
                continue
            with open(tr, "rb") as f:
                out.write(f.read())
            os.remove(tr)
    if os.path.getsize(whole) > 0:
        ctx.validate(TRACE_MODULE, whole, label="transform", min_lines=150, timeout=2400)
    ctx.rule("identity, translate, rotate (+rotate_slow), scale (+scale_slow), shear (+shear_slow), lookAt / lookAtRH / lookAtLH, gtx/transform "
             "single-argument forms, gtx/transform2 (shearX2D..shearZ3D, reflect2D/3D, proj2D/3D, scaleBias both overloads), gtx/rotate_vector "
             "(rotate vec2/3/4, rotateX/Y/Z vec3/vec4, orientation), rotateNormalizedAxis (mat4, quat), gtx/matrix_transform_2d (translate, rotate, "
             "scale, shearX, shearY), decompose / recompose, axisAngle / axisAngleMatrix / extractMatrixRotation / interpolate; float and double, "
             "highp/mediump/lowp, default (RH) and GLM_FORCE_LEFT_HANDED builds; base matrices with small integer entries (incl. non-affine last "
             "rows), dyadic fractions and random full-mantissa entries; 22 Pythagorean (cos, sin) pairs x up to 9 turn counts x 19 axes with "
             "rational length (normalised and not); lookAt on an integer lattice plus large offsets / up nearly parallel to the view direction; "
             "decompose on T*R*K*S(+perspective row) compositions from rational pieces with all 8 scale sign patterns; every result judged by "
             "TLC against exact rationals / exact dyadic postconditions", exhaustive=False)
    ctx.assumptions += [
        "angles are produced by the harness as RN(atan2(sn, cn) + 2 pi k) in long double for a rational (cos, sin) pair; the oracle uses the pair; "
        "libm sin/cos are assumed accurate to 1 ulp with exact argument reduction",
        "matrices composed from rational pieces (decompose / axisAngle / interpolate inputs) are evaluated by the harness in long double and rounded "
        "once; the trace specification recomputes them exactly and rejects the event if the logged matrix is not within one rounding",
        "lookAt: eye = center or up within 2^-13 rad of the view direction constrain nothing; orientation: (anti-)parallel or non-unit inputs constrain nothing",
        "decompose: matrices with a zero scale factor or M[3][3] = 0 constrain nothing",
        "identity<genType>() only exists for the default qualifier (genTypeTrait is not specialised for the others): exercised for defaultp only",
    ]
