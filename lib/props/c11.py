"""C11 - common functions obey their documented per-value definitions on all floats; constants correctly rounded."""
import vlib

LEVEL = "model_checking"
TRACE_MODULE = "Trace_C11"


def run(ctx):
    ctx.mc("MC_C11", "MC_C11.cfg", what="mini format (4,3) and binary16 samples: the integer roundings satisfy the characterisations of the property text "
           "(floor(x) <= x < floor(x)+1, nearest with ties away / to even, fract in [0,1), sign in {-1,0,1}, frexp/ldexp inverse)")
    b = ctx.build("c11", "c11.cpp")
    if not b:
        return
    tr = ctx.scratch.path("c11.ndjson")
    ok, out = ctx.run_harness(b, [tr, ctx.tier], tr)
    if ok:
        ctx.validate(TRACE_MODULE, tr, label="pure")
    ctx.rule("float and double: every binade (sampled outside the integer-rounding range in quick) x mantissa patterns incl. k+1/2 +- ulp ties, odd/even "
             "integers, 2^23/2^52 neighbourhood, subnormals, max, inf, NaN through floor/ceil/trunc/round/roundEven/fract/abs/sign/isnan/isinf/frexp/"
             "modf/ldexp/texture wraps/iround/uround; special-value lattice^2..4 + random moderate operands through min/max/fmin/fmax/clamp/fclamp/"
             "step/mix/smoothstep/fma/mod; bit casts; integer abs/sign/min/max/clamp (8-bit exhaustive); 31 constants x {float,double} against 2^-200 "
             "enclosures; every event judged by TLC in exact arithmetic", exhaustive=False)
    # stage X11 (notes/X11-notes.md): the scalar-function families around the common functions - splines, easing, optimum_pow, log_base,
    # associated / extended min-max, reciprocal trigonometry, compatibility, gauss, levels, integer log2 - specified in GlmX11.tla
    from props import x11
    x11.run(ctx)
    ctx.assumptions += ["the 2^32 sweep of the unary functions is not built yet: unary functions are judged on the structured lattice only",
                        "composite formulas on doubles are judged for magnitudes 2^-130..2^130", "sign of a zero result is not constrained"]
