"""C11 - common functions obey their documented per-value definitions on all floats; constants correctly rounded."""
import json, os, re
import vlib

LEVEL = "model_checking"
TRACE_MODULE = "Trace_C11"


OPS5 = ["trunc", "floor", "ceil", "round", "roundEven"]


def sweep(ctx):
    """E5: all 2^32 binary32 patterns through the unary functions against the class table derived and verified by TLC."""
    raw = ctx.scratch.path("c11table.ndjson")
    ctx.mc("MC_C11T", "MC_C11T_mini.cfg", what="class-table form of the unary functions = per-value definitions, every pattern of the mini format (4,3)")
    if not ctx.quick:
        ctx.mc("MC_C11T", "MC_C11T_half.cfg", what="the same on every binary16 pattern")
    ctx.mc("MC_C11T", "MC_C11T_single.cfg", env={"OUT": raw}, what="the same on the class-boundary patterns of every (sign, exponent) class of binary32; emits the table")
    tab = ctx.scratch.path("c11table.txt")
    nrow = 0
    with open(tab, "w") as o:
        for l in open(raw):
            r = json.loads(l)
            nrow += 1
            if r["t"] == "K":
                o.write("K %d %d\n" % (r["e"], r["k"]))
            else:
                o.write("B %d %d %d %d %d %d\n" % (OPS5.index(r["op"]), r["s"], r["fz"], r["cmp"], r["odd"], r["b"]))
    if nrow != 376:
        raise vlib.Infra("class table has %d rows" % nrow)
    ctx.extra["class_table_rows"] = nrow
    simd = ["-DSWEEP_SIMD", "-DGLM_FORCE_INTRINSICS", "-DGLM_FORCE_ALIGNED_GENTYPES"]
    variants = [("pure", []), ("sse2", ["-msse2"] + simd), ("sse4.1", ["-msse4.1"] + simd)]
    if not ctx.quick:
        variants += [("avx2", ["-mavx2", "-mfma"] + simd), ("pure-O0", [])]
    total_in = total_rej = 0
    first = True
    for name, flags in variants:
        b = ctx.build("c11sweep-" + name.replace(".", ""), "c11sweep.cpp", flags=flags, opt="-O0" if name.endswith("O0") else "-O2", label="c11sweep " + name)
        if not b:
            continue
        if first:
            first = False
            sc = ctx.scratch.path("c11selfcheck.ndjson")
            ok, out = ctx.run_harness(b, [sc, tab, "selfcheck"], sc)
            if ok:
                v = ctx.validate(TRACE_MODULE, sc, label="table-selfcheck", count_distinct=False)
                if v.mismatches:
                    raise vlib.Infra("the sweep's table interpreter disagrees with the trace specification (sweeper bug, not a verdict about GLM)")
        sw = ctx.scratch.path("c11sweep-%s.ndjson" % name)
        ok, out = ctx.run_harness(b, [sw, tab, "sweep"] + (["16"] if name.endswith("O0") else []), sw, timeout=3000)
        if not ok:
            continue
        m = re.search(r"SWEEP inputs=(\d+) calls=(\d+) rejected=(\d+)", out)
        if not m:
            raise vlib.Infra("c11 sweep failed: " + out[-2000:])
        total_in += int(m.group(1))
        total_rej += int(m.group(3))
        ctx.extra.setdefault("sweeps", []).append({"build": name, "inputs": int(m.group(1)), "glm_calls": int(m.group(2)), "rejected_by_table": int(m.group(3))})
        if int(m.group(3)) > 0:
            nv = len(ctx.violations)
            v = ctx.validate(TRACE_MODULE, sw, label="sweep-rejects-" + name, count_distinct=False, min_lines=200)
            if not v.mismatches and len(ctx.violations) == nv:
                raise vlib.Infra("sweeper rejected %s inputs that the trace specification accepts: sweeper/table bug" % m.group(3))
    ctx.sweep_inputs += total_in
    ctx.extra["sweep_inputs"] = total_in
    ctx.extra["sweep_rejected_by_table"] = total_rej
    ctx.extra["distinct_extra"] = total_in
    ctx.rule("E5: all 2^32 binary32 patterns through trunc/floor/ceil/round/roundEven/fract/abs/sign/isnan/isinf/modf/frexp/iround/uround (scalar overloads, "
             "pure build) and through the aligned vec4 overloads of the first ten in intrinsic builds (SSE2, SSE4.1; AVX2+FMA thorough), compared with the "
             "376-row class table that TLC derives from GlmCommonTable.tla and proves equal to the per-value definitions on every mini / binary16 pattern and "
             "every class boundary of binary32; the table interpreter itself is judged by TLC on the class-boundary lattice; table rejections are re-judged by TLC",
             exhaustive=True)


def run(ctx):
    sweep(ctx)
    ctx.mc("MC_C11", "MC_C11.cfg", what="mini format (4,3) and binary16 samples: the integer roundings satisfy the characterisations of the property text "
           "(floor(x) <= x < floor(x)+1, nearest with ties away / to even, fract in [0,1), sign in {-1,0,1}, frexp/ldexp inverse)")
    b = ctx.build("c11", "c11.cpp")
    if not b:
        return
    tr = ctx.scratch.path("c11.ndjson")
    ok, out = ctx.run_harness(b, [tr, ctx.tier], tr)
    if ok:
        ctx.validate(TRACE_MODULE, tr, label="pure")
    # GLM bundles its own round / trunc / roundEven / isnan / isinf / fmin / fmax for pre-C++11 standard libraries (GLM_HAS_CXX11_STL == 0):
    # separate code, same definitions - the events of those functions from a GLM_FORCE_CXX98 build, judged by the same trace specification
    b98 = ctx.build("c11_cxx98", "c11.cpp", flags=["-DGLM_FORCE_CXX98"], label="c11 cxx98")
    if b98:
        t98 = ctx.scratch.path("c11_cxx98.ndjson")
        ok98, out98 = ctx.run_harness(b98, [t98, ctx.tier], t98)
        if ok98:
            keep = tuple('{"op":"%s"' % o for o in ("trunc", "round", "roundEven", "isnan", "isinf", "fmin", "fmax", "fclamp", "iround", "uround", "floor", "ceil"))
            f98 = ctx.scratch.path("c11_cxx98_sel.ndjson")
            with open(t98) as f, open(f98, "w") as g:
                for ln in f:
                    if ln.startswith(keep):
                        g.write(ln)
            ctx.validate(TRACE_MODULE, f98, label="cxx98-fallbacks")
    ctx.rule("float and double: every binade (sampled outside the integer-rounding range in quick) x mantissa patterns incl. k+1/2 +- ulp ties, odd/even "
             "integers, 2^23/2^52 neighbourhood, subnormals, max, inf, NaN through floor/ceil/trunc/round/roundEven/fract/abs/sign/isnan/isinf/frexp/"
             "modf/ldexp/texture wraps/iround/uround; special-value lattice^2..4 + random moderate operands through min/max/fmin/fmax/clamp/fclamp/"
             "step/mix/smoothstep/fma/mod; bit casts; integer abs/sign/min/max/clamp (8-bit exhaustive); 31 constants x {float,double} against 2^-200 "
             "enclosures; every event judged by TLC in exact arithmetic", exhaustive=False)
    # stage X11 (notes/X11-notes.md): the scalar-function families around the common functions - splines, easing, optimum_pow, log_base,
    # associated / extended min-max, reciprocal trigonometry, compatibility, gauss, levels, integer log2 - specified in GlmX11.tla
    from props import x11
    x11.run(ctx)
    ctx.assumptions += ["the 40-line C++ table interpreter of the sweep (RowApply) is validated by TLC-judged events on every class boundary; the double "
                        "instantiations of the unary functions are judged on the structured lattice only (2^64 patterns cannot be swept)",
                        "composite formulas on doubles are judged for magnitudes 2^-130..2^130", "sign of a zero result is not constrained"]
