"""X14 - gtc/random over an explicit generator state (std::rand interposed: every GLM call consumes a documented number of draws and
returns a documented function of exactly those draws), lattice / period / bound / continuity laws of gtc/noise and an IEEE
transcription of perlin(vec2)."""
import vlib

LEVEL = "model_checking"
TRACE_MODULE = "Trace_X14"


def run(ctx):
    ctx.mc("MC_X14", "MC_X14.cfg", workers=min(8, vlib.NCPU), timeout=900,
           what="byte assembly on a 2-bit-byte model of compute_rand (every consumed draw lands in exactly one byte, both evaluation orders, "
                "consumption = suffix of the generator state), integer linearRand on all u8 / i8 intervals over a lattice (wrap-around word "
                "formula = Min + u mod (Max - Min + 1), result in [Min, Max], trap iff the interval is the whole type), both ends are hit "
                "for every interval with the documented byte reduction and NOT with the coded one, the rejection loop as a state machine "
                "(stops exactly at the first accepted candidate, terminates on the constant tail), floating linearRand exhaustively on the "
                "mini format (4,3) (tolerance constant, interval [Min, Max] except within eps of t = 1), logarithm enclosure against reference "
                "values, perlin(vec2) transcription: zero on the lattice, period 289, periodic variant")
    if not ctx.quick:
        ctx.mc("MC_X14", "MC_X14_deep.cfg", workers=min(8, vlib.NCPU), timeout=1500, what="the same with the larger lattices")
    b = ctx.build("x14", "x14.cpp", opt="-O1")
    if not b:
        return
    tr = ctx.scratch.path("x14.ndjson")
    ok, out = ctx.run_harness(b, [tr, ctx.tier], tr)
    if not ok:
        return
    ctx.validate(TRACE_MODULE, tr, label="g++", group_marker='{"e":"Reset"}', min_lines=300, timeout=1700)
    if not ctx.quick:
        # the other evaluation order of unsequenced operands / constructor arguments: the same specification accepts clang's binary
        b2 = ctx.build("x14clang", "x14.cpp", cxx="clang++", opt="-O1", must=False)
        if b2:
            tr2 = ctx.scratch.path("x14clang.ndjson")
            ok, out = ctx.run_harness(b2, [tr2, "quick"], tr2)
            if ok:
                ctx.validate(TRACE_MODULE, tr2, label="clang++", group_marker='{"e":"Reset"}', min_lines=300, timeout=1700)
    ctx.rule("linearRand (scalar and vec1..4 of int8..uint64, float, double), diskRand, ballRand, circularRand, sphericalRand, gaussRand "
             "(scalar, vec2..4) with std::rand() replaced by a planted sequence (all zeros, all RAND_MAX, alternating, 254/255/256 and "
             "65279/65280 boundaries, sequences crafted so that chosen words - 0, span-1, span, 2^W-1, t = 1/2, t = 1 - arise under either "
             "evaluation order, corner candidates that make the rejection loops iterate up to 7 times, the pair (0,0) for gaussRand, "
             "sequences that run out mid-call): draws consumed = head of the generator state, count, bit-exact integer results, floating "
             "results against exact dyadic formulas, loop shape (all but the last candidate rejected, last accepted), lengths in squares, "
             "angles through sine / cosine enclosures, the polar formula through a logarithm enclosure; perlin (vec2/3/4, float and double): "
             "0 on lattice points up to 2^20, |value| <= the bound of the final scale factor, perlin(p, rep) = perlin(p + k rep, rep) and "
             "perlin(p) = perlin(p + 289 k) bit for bit, perlin(p) = perlin(p, 289) for vec2 / vec4, Lipschitz continuity of perlin and "
             "simplex across cell and simplex borders (random pairs, pairs straddling integer planes, the pairs with the largest difference "
             "found by a search), perlin(vec2) float bit-exact against the IEEE transcription", exhaustive=False)
    ctx.assumptions += ["integer linearRand with Min > Max, floating arguments that are non-finite, beyond 2^+-60 or with Min > Max, negative "
                        "Deviation, accepted gaussRand pairs with 0 < w < 2^-40 constrain nothing",
                        "the order in which a compiler evaluates the arguments of a vec constructor and the operands of | is free (any of the "
                        "four combinations is accepted per call)",
                        "accept / reject decisions within the derived rounding band of the boundary (length = Radius, w = 1) are free",
                        "noise: non-finite coordinates or |coordinates| > 2^20, periods that are not integers >= 1 constrain nothing"]
