"""C08 - projection builders map the view volume onto the configured clip volume."""
import os
import vlib

LEVEL = "model_checking"
TRACE_MODULE = "Trace_C08"

# GLM_CONFIG_CLIP_CONTROL values (glm/detail/setup.hpp): ZO=1 NO=2 LH=4 RH=8
CONFIGS = [
    ("rh_no", [], 10),
    ("lh_no", ["-DGLM_FORCE_LEFT_HANDED"], 6),
    ("rh_zo", ["-DGLM_FORCE_DEPTH_ZERO_TO_ONE"], 9),
    ("lh_zo", ["-DGLM_FORCE_LEFT_HANDED", "-DGLM_FORCE_DEPTH_ZERO_TO_ONE"], 5),
]


def run(ctx):
    ctx.mc("MC_C08", "MC_C08.cfg",
           what="5400 parameter tuples (l<r, b<t, 0<n<f, T=tan(fovy/2), aspect from a rational grid) x 4 clip-control variants: "
                "the closed forms of GlmClip.tla send the view-volume corners to the clip-cube corners, perspective = symmetric frustum, "
                "perspectiveFov = perspective(w/h), infinite variants = limits, project/unProject mutually inverse, clip cube -> viewport, "
                "pickMatrix, dispatch table; negative controls (InvDiscriminates)")
    # are the declared-but-possibly-undefined infinitePerspectiveLH / RH callable on this tree?
    probe = ctx.build("c08probe", "c08.cpp", flags=["-DC08_PROBE"], opt="-O0", must=False, label="c08 probe infinitePerspectiveLH/RH")
    have = ["-DC08_HAVE_INF_HALF"] if probe else []
    if not probe:
        vlib.log("[c08] infinitePerspectiveLH/RH do not link: harness built without them (logged as 'missing' events)")

    def one(cfg):
        name, flags, req = cfg
        return cfg, ctx.build("c08_" + name, "c08.cpp", flags=list(flags) + have, label="c08 " + name)

    built = vlib.pmap(one, CONFIGS, jobs=4)
    whole = ctx.scratch.path("c08.ndjson")
    ok_all = True
    with open(whole, "wb") as out:
        for (name, flags, req), b in built:
            if not b:
                ok_all = False
                continue
            tr = ctx.scratch.path("c08_%s.ndjson" % name)
            # the default configuration carries the full corpus, the three others a third of it (the closed forms
            # do not depend on the configuration; the dispatchers are exercised by every event)
            ok, _ = ctx.run_harness(b, [tr, req, ctx.tier, "full" if name == "rh_no" else "part"], tr)
            if not ok:
                ok_all = False
                continue
            with open(tr, "rb") as f:
                out.write(f.read())
            os.remove(tr)
    if ok_all or os.path.getsize(whole) > 0:
        ctx.validate(TRACE_MODULE, whole, label="clip", min_lines=150)
    ctx.rule("every builder of ext/matrix_clip_space (ortho 2D/3D, frustum, perspective, perspectiveFov, infinitePerspective: 4 suffixed "
             "variants + unsuffixed + ZO/NO/LH/RH dispatchers; tweakedInfinitePerspective both overloads) in float and double, under the 4 "
             "clip-control builds, on a lattice of boxes / near-far pairs / T=tan(fovy/2) fractions (boundary cases: symmetric boxes, "
             "one-ulp-wide ranges, far/near = 2^20) plus random full-mantissa arguments; project/unProject{ZO,NO,unsuffixed} and pickMatrix "
             "with float/double/int viewports and the three precision qualifiers, including both round trips; every matrix entry / "
             "coordinate judged by TLC against exact rationals (structural entries and dispatch bit-exactly)", exhaustive=False)
    ctx.assumptions += [
        "fovy is produced by the harness as RN(2*atan(T)) for a rational T=tan(fovy/2) (long double libm); the oracle uses T; libm tan/sin/cos are assumed accurate to 1 ulp",
        "arguments outside left<right, bottom<top, 0<near<far, aspect>0, width,height>0, delta>0, |x| in [2^-40,2^40] constrain nothing",
        "project/unProject: points whose clip w (resp. pre-image w) is within the error bound of zero constrain nothing",
    ]
