"""C19 - colour-space conversions are mutually inverse and range-preserving."""
import re
import vlib

LEVEL = "model_checking"
TRACE_MODULE = "Trace_C19"


def run(ctx):
    ctx.mc("MC_C19", "MC_C19.cfg",
           what="16^3 cube: YCoCg-R lifting closed form / dynamic range / exactly lossless over Z (signed too) and modulo 2^4 on every word "
                "triple; YCoCg and rational YCoCg-R mutually inverse; HSV<->RGB mutually inverse on the rational cube and on an (h,s,v) grid "
                "with every sector boundary, sector partition, continuity across boundaries; saturation matrix preserves greys, alpha and "
                "luminance; rational skeleton of the sRGB curves for gamma in {12/5, 11/5, 1, 2, 3, 3/2}: bracket predicates accept the exact "
                "curve and reject 4e-6 away, fix 0 and 1, monotone, [0,1] -> [0,1], inverse above the knee, knee gap for every gamma")
    b = ctx.build("c19", "c19.cpp", opt="-O1")
    if not b:
        return
    # quick: one trace; thorough: one trace per section (keeps every TLC process below ~40k lines)
    sections = ["all"] if ctx.quick else ["srgb", "hsv", "ycocg", "int", "sat"]
    swept = 0
    for sec in sections:
        tr = ctx.scratch.path("c19-%s.ndjson" % sec)
        ok, out = ctx.run_harness(b, [tr, ctx.tier, sec], tr)
        if not ok:
            return
        ctx.validate(TRACE_MODULE, tr, label="events" if sec == "all" else sec, min_lines=1000)
        # the aggregate round-trip events stand for cnt triples each
        with open(tr) as f:
            for ln in f:
                if ln.startswith('{"op":"ycocgrSweep"'):
                    m = re.search(r'"cnt":(\d+)', ln)
                    swept += int(m.group(1)) if m else 0
    ctx.sweep_inputs += swept
    ctx.extra["ycocgr_roundtrip_triples_swept"] = swept
    ctx.extra["distinct_extra"] = swept
    ctx.rule("sRGB curves: grid k/N + both knees +-3 ulp + powers of two + sign-change region + random, windows of adjacent points as "
             "vec1..vec4 (alpha = arbitrary bit patterns), float and double, highp/mediump/lowp, default gamma and explicit 12/5, 11/5, 1, 2, 3, "
             "3/2, each component judged by exact polynomial brackets, monotone inside each event, composed inverse both ways on a denser grid; "
             "HSV: rational cube, near-greys, near-ties, tiny colours, hue over the full circle with sector boundaries +-1 ulp, random, both "
             "directions and both compositions; YCoCg / YCoCg-R float: cube + random + wide exponents; integer YCoCg-R: all 2^24 8-bit triples "
             "in int32/int16/uint8/int8 (more types in the thorough tier) and a lattice of 16-bit triples as aggregate round-trip equality "
             "events, forward values and round trips of a sub-cube judged one by one in nine element types, inverse on arbitrary (Y,Co,Cg); "
             "saturation matrix / vec3 / vec4 and luminosity on greys, cube and random colours", exhaustive=False)
    # stage X19 (notes/X19-notes.md): gtx/color_encoding, gtx/gradient_paint, the remaining saturation / YCoCg / sRGB overloads - GlmX19.tla
    from props import x19
    x19.run(ctx)
    ctx.assumptions += ["libm pow is accurate to 1 ulp; the sRGB tolerances (1e-6 float, 4e-15 double) are stated in Trace_C19.tla",
                        "colour components outside [0,1], hue outside [0,360), hue of greys / near-black colours and integer triples whose "
                        "lifting overflows the element type (forward values only) constrain nothing",
                        "the exhaustive 2^24 round trip is an equality count made by the harness (inverse(forward(t)) == t needs no oracle); "
                        "forward values are judged by TLC on a sub-cube"]
