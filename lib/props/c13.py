"""C13 - slerp/mix/lerp interpolate rotations at constant speed along the right arc.

E1  MC_C13: the walk state machine over rational unit quaternions (cur_j = r^j * x, exact); invariants = the laws of the property
    (unit sphere, plane of x and y, end points, constant step, symmetry, the complementary arc of the pair (x, -y), the spin-count
    points, the chord-arc gap) and the agreement of the closed forms used by the trace specification with the definition.
E2  the same TLC run writes the family of walks (12 integers per line) for the harness.
E3  harness/c13.cpp evaluates slerp / slerp(k) / mix / lerp / shortMix / fastMix / squad / intermediate / dual-quaternion lerp and
    normalize / compatibility lerp for float and double at every t = j/m, j = -2m..3m, for (x, y) and (x, -y).
E4  Trace_C13 recomputes every expected point exactly from the integers and judges each event."""
import os
import vlib
from vlib import log

LEVEL = "model_checking"
TRACE_MODULE = "Trace_C13"


def run(ctx):
    walks = ctx.scratch.path("c13-walks.txt")
    if os.path.exists(walks):
        os.remove(walks)
    env = {"OUT": walks, "TIER": ctx.tier}
    ctx.mc("MC_C13", "MC_C13.cfg", env=env,
           what="walk state machine: every walk of the family below the model bit budget, j = -2m..3m; 10 invariants; emits the family of walks")
    if not os.path.exists(walks):
        raise vlib.Infra("MC_C13 did not write the walks file")
    with open(walks) as f:
        lines = sorted(set(l for l in f.read().splitlines() if l.strip()), key=lambda l: [int(x) for x in l.split()])
    with open(walks, "w") as f:
        f.write("\n".join(lines) + "\n")
    log("[gen] %d walks emitted by TLC" % len(lines))
    ctx.extra["walks"] = len(lines)
    # the quaternion constructor's argument order and the storage order are configuration dependent (GLM_FORCE_QUAT_DATA_XYZW / WXYZ):
    # the same walks through builds with either macro; the harness only uses qua::wxyz() and member names, so the events are comparable
    for label, name, flags in [("pure", "c13", []), ("quat-xyzw-ctor", "c13_xyzw", ["-DGLM_FORCE_QUAT_DATA_XYZW"]), ("quat-wxyz-storage", "c13_wxyz", ["-DGLM_FORCE_QUAT_DATA_WXYZ"])]:
        b = ctx.build(name, "c13.cpp", flags=flags, label="c13 " + label)
        if b:
            tr = ctx.scratch.path(name + ".ndjson")
            ok, out = ctx.run_harness(b, [tr, walks, ctx.tier if label == "pure" else "quick"], tr)
            if ok:
                ctx.validate(TRACE_MODULE, tr, label=label, min_lines=500, timeout=3000)
    ctx.rule("walks = rational unit quaternion x (14 values) x rational axis (11) x step angle psi with tan(psi/2) = p/q "
             "(2^-1..2^-30: 53 degrees down to 1.9e-9 rad, on both sides of the linear-fallback threshold of float and double; "
             "Pythagorean pairs; one step of up to pi - 1.9e-9 rad; steps next to a right angle; psi = 0; the exact quarter turn) x m = 1..6 "
             "steps, all emitted by TLC; for each walk and for float and double: slerp, reversed slerp, mix, shortMix, fastMix at every "
             "t = j/m, j = -2m..3m, for (x,y) and (x,-y); lerp for t in [0,1]; slerp with spin counts -3..3 (every integer type class); "
             "mediump / lowp instantiations; squad; intermediate; dual quaternion lerp / normalize; lerp / fastMix / gtx compatibility lerp "
             "(scalar, vec2..4, scalar and vector factor) on a value lattice; each event judged by TLC against exact rational points of "
             "the arc (GlmInterp.tla) with the tolerances stated in Trace_C13.tla", exhaustive=False)
    ctx.assumptions += ["sin / cos / acos of libm are accurate to a few ulp (the specification has no transcendental functions: expected points are rational points of the great circle)",
                        "t is restricted to the multiples j/m, m <= 6, of the walk; other factors are not judged",
                        "mix between exactly antipodal quaternions and extra spins between exactly parallel ones have no defined arc and constrain nothing",
                        "lerp and dual-quaternion lerp assert 0 <= t <= 1: factors outside are not exercised"]
