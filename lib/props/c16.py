"""C16 - vector, matrix and quaternion storage layout matches the documented contract."""
import os
import vlib

LEVEL = "model_checking"
TRACE_MODULE = "Trace_C16"

SIMD = ["-DGLM_FORCE_INTRINSICS"]
# (configuration name known to GlmLayout!CfgExpect, compiler flags, tier)
CONFIGS = [
    ("default", [], "quick"),
    ("SWIZZLE", ["-DGLM_FORCE_SWIZZLE"], "quick"),
    ("SWIZZLE_SIMD", ["-DGLM_FORCE_SWIZZLE"] + SIMD, "quick"),                       # swizzle operators: members live in the union
    ("XYZW_ONLY", ["-DGLM_FORCE_XYZW_ONLY"], "quick"),
    ("SIZE_T_LENGTH", ["-DGLM_FORCE_SIZE_T_LENGTH"], "quick"),
    ("QUAT_DATA_WXYZ", ["-DGLM_FORCE_QUAT_DATA_WXYZ"], "quick"),
    ("QUAT_DATA_WXYZ_SIMD", ["-DGLM_FORCE_QUAT_DATA_WXYZ"] + SIMD, "quick"),         # quaternion as a union with the SIMD register
    ("CTOR_INIT", ["-DGLM_FORCE_CTOR_INIT"], "quick"),
    ("ALIGNED_GENTYPES", ["-DGLM_FORCE_ALIGNED_GENTYPES"], "quick"),                 # gcc: no language extensions without SIMD -> stays packed only
    ("ALIGNED_GENTYPES_SIMD", ["-DGLM_FORCE_ALIGNED_GENTYPES"] + SIMD, "quick"),
    ("DEFAULT_ALIGNED_SIMD", ["-DGLM_FORCE_DEFAULT_ALIGNED_GENTYPES"] + SIMD, "quick"),
    ("INTRINSICS_SSE2", SIMD + ["-msse2"], "quick"),
    ("DEFAULT_ALIGNED", ["-DGLM_FORCE_DEFAULT_ALIGNED_GENTYPES"], "thorough"),
    ("XYZW_ONLY_SWIZZLE", ["-DGLM_FORCE_XYZW_ONLY", "-DGLM_FORCE_SWIZZLE"], "thorough"),
    ("XYZW_ONLY_INTRINSICS", ["-DGLM_FORCE_XYZW_ONLY"] + SIMD, "thorough"),          # XYZW_ONLY switches the intrinsics off
    ("SIZE_T_LENGTH_SIMD", ["-DGLM_FORCE_SIZE_T_LENGTH"] + SIMD, "thorough"),
    ("CTOR_INIT_SIMD", ["-DGLM_FORCE_CTOR_INIT", "-DGLM_FORCE_DEFAULT_ALIGNED_GENTYPES"] + SIMD, "thorough"),
    ("INTRINSICS_SSE3", SIMD + ["-msse3"], "thorough"),
    ("INTRINSICS_SSSE3", SIMD + ["-mssse3"], "thorough"),
    ("INTRINSICS_SSE41", SIMD + ["-msse4.1"], "thorough"),
    ("INTRINSICS_SSE42", SIMD + ["-msse4.2"], "thorough"),
    ("INTRINSICS_AVX", SIMD + ["-mavx"], "thorough"),
    ("INTRINSICS_AVX2", SIMD + ["-mavx2"], "thorough"),
    ("DEFAULT_ALIGNED_AVX2", ["-DGLM_FORCE_DEFAULT_ALIGNED_GENTYPES", "-mavx2"] + SIMD, "thorough"),
    # manual 2.21 names this macro for the storage order; in the code it only selects the constructor argument order
    ("QUAT_DATA_XYZW", ["-DGLM_FORCE_QUAT_DATA_XYZW"], "thorough"),
    # a second compiler and an optimised build for the two most different configurations
    ("default", [], "thorough", "clang++", "-O0"),
    ("DEFAULT_ALIGNED_SIMD", ["-DGLM_FORCE_DEFAULT_ALIGNED_GENTYPES"] + SIMD, "thorough", "clang++", "-O0"),
    ("default", [], "thorough", "g++", "-O2"),
    ("DEFAULT_ALIGNED_SIMD", ["-DGLM_FORCE_DEFAULT_ALIGNED_GENTYPES"] + SIMD, "thorough", "g++", "-O2"),
]


def run(ctx):
    ctx.mc("MC_C16", "MC_C16.cfg" if ctx.quick else "MC_C16_deep.cfg",
           what="memory model of one object of every shape {vec1..4, mat 2..4 x 2..4, qua (both member orders)} in every permitted "
                "layout (packed; aligned with any padded stride) under every interleaving of %d stores through operator[] / value_ptr / "
                "named members, value_ptr reads and make_* (2 tags): offsets increasing, inside, disjoint, gap-free when packed, for "
                "element sizes 1, 2, 4, 8; c*R+r <-> m[c][r] bijection; refinement of the abstract object; round trips; member order; "
                "length(); byte image functions" % (3 if ctx.quick else 4))
    cfgs = [c for c in CONFIGS if ctx.quick is False or c[2] == "quick"]
    # one build per configuration, in parallel (layout facts do not depend on the optimisation level)
    # (the swizzle-operator build is by far the slowest to compile: quick probes only its highp qualifiers)
    def flags_of(c):
        return c[1] + (["-DC16_LIGHT"] if ctx.quick and c[0] == "SWIZZLE_SIMD" else [])
    cfgs.sort(key=lambda c: 0 if "SWIZZLE_SIMD" in c[0] else 1 if "-DGLM_FORCE_INTRINSICS" in c[1] else 2)     # longest builds first
    def cxx_of(c):
        return c[3] if len(c) > 3 else "g++"
    def opt_of(c):
        return c[4] if len(c) > 4 else "-O0"
    def bname(c):
        return "c16_" + c[0] + ("_%s%s" % (cxx_of(c).replace("+", "p"), opt_of(c).replace("-", "_")) if len(c) > 3 else "")
    bins = vlib.pmap(lambda c: ctx.build(bname(c), "c16.cpp", flags=flags_of(c), cxx=cxx_of(c), opt=opt_of(c),
                                         label="%s %s: c16 %s [%s]" % (cxx_of(c), opt_of(c), c[0], " ".join(flags_of(c)))), cfgs)
    alltr = ctx.scratch.path("c16-all.ndjson")
    ran = []
    with open(alltr, "wb") as allf:
        for c, b in zip(cfgs, bins):
            name = c[0]
            if not b:
                continue
            tr = ctx.scratch.path("%s.ndjson" % bname(c))
            ok, out = ctx.run_harness(b, [tr, name, ctx.tier], tr)
            if not ok:
                continue
            with open(tr, "rb") as f:
                data = f.read()
            # the harness logs the name it was given: a trace produced under another name / other flags is rejected by the trace spec
            allf.write(data)
            ran.append(bname(c)[4:])
            os.remove(tr)
    if ran:
        # every event is self-contained (configuration name + the GLM_CONFIG_* macros the build saw), so the
        # concatenation is validated as one stateless trace, dealt round-robin to the TLC processes
        ctx.validate(TRACE_MODULE, alltr, label="layout")
    ctx.extra["configurations"] = ran
    ctx.rule("every instantiation {vec<1..4>, mat<2..4,2..4>, qua} x {bool (vec), int8..int64, uint8..uint64, float, double} x "
             "{packed,aligned (where the build has them)} x {highp, mediump, lowp}, under each build configuration "
             "(default, SWIZZLE function / operator, XYZW_ONLY, SIZE_T_LENGTH, QUAT_DATA_WXYZ, CTOR_INIT, ALIGNED_GENTYPES, "
             "DEFAULT_ALIGNED_GENTYPES, INTRINSICS at SSE2%s): sizeof, alignof, byte offsets through const / non-const operator[], "
             "value_ptr, named members, columns; byte image after stores through operator[] and through every member name set; "
             "stores through value_ptr read back through operator[] and names; make_vec2..4 / make_mat* (and the make_mat2/3/4 aliases) / "
             "make_quat from a raw array; object -> value_ptr -> array -> make_* round trip; make_vecN(vecM); length() and its type; the "
             "named aliases of fwd.hpp / gtc/type_precision.hpp / gtc/type_aligned.hpp; tags: every byte distinct + random words "
             "(bool: one-hot, all set, alternating); every fact decided by TLC against GlmLayout.tla with the configuration taken "
             "from the event" % ("" if ctx.quick else " .. AVX2"), exhaustive=False)
    ctx.assumptions += ["LP64 little-endian host: CHAR_BIT = 8, sizeof(bool) = 1, size_t is 8 bytes (logged in the config event and checked)",
                        "aligned instantiations whose size the documentation does not state (everything but float vec2/vec3/vec4 and matrices "
                        "of those columns) are only required to keep the element order, to pad each column to a whole number of elements "
                        "and to be a sequence of C identical columns",
                        "on gcc/clang GLM enables aligned types only together with GLM_FORCE_INTRINSICS (language extensions are detected "
                        "through the SIMD architecture); configurations without it are checked for the packed types only",
                        "make_vecN(vecM) is only required to keep the leading min(N, M) components (the fill values are not documented)"]
