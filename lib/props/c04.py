"""C04 - quaternion, matrix, axis-angle and Euler forms of a rotation agree (XYZW and WXYZ quaternion storage)."""
import vlib

LEVEL = "model_checking"
TRACE_MODULE = "Trace_C04"

BUILDS = [("c04", (), "xyzw"), ("c04_wxyz", ("-DGLM_FORCE_QUAT_DATA_WXYZ",), "wxyz"),
          # the same program on the aligned qualifiers of an intrinsic build, WXYZ storage: type_quat_simd.inl and the aligned kernels
          ("c04_aligned_wxyz", ("-DC04_ALIGNED", "-DGLM_FORCE_INTRINSICS", "-DGLM_FORCE_ALIGNED_GENTYPES", "-DGLM_FORCE_QUAT_DATA_WXYZ", "-msse2"), "aligned-wxyz")]


def run(ctx):
    ctx.mc("MC_C04", "MC_C04.cfg",
           what="laws over Q on every integer quaternion (w,x,y,z)/n with n <= 5 (408 tuples: all largest-component cases, exact ties, w = 0, axes, signs) "
                "and near-axis ones (t = 2^-1, 2^-12, 2^-30), each multiplied with the 24 Hurwitz orientations reached by the orientation machine: "
                "Mat(q1 q2) = Mat(q1) Mat(q2), q q* = 1, conjugate = inverse, Mat(q) orthonormal with det 1, q v q* = Mat(q) v = GLM's two-cross-product form, "
                "quat_cast model (largest of four, no roots) returns exactly one of q / -q, rotation-between-vectors relation, dual quaternion laws, "
                "axis-angle = Rodrigues; every triple of 10 rational angles (gimbal lock and its 2^-11 neighbours included) through the 6 two-angle and "
                "12 three-angle Euler products (rotations), qua(euler) = Rz Ry Rx and pitch/yaw/roll read back; the dyadic evaluators of the trace "
                "specification agree with the rational definitions on all of these states")
    specs = [dict(name=n, src="c04.cpp", flags=fl) for n, fl, _ in BUILDS]
    bins = vlib.pmap(lambda s: ctx.build(s["name"], s["src"], flags=s["flags"]), specs, jobs=3)
    for (name, flags, label), b in zip(BUILDS, bins):
        if not b:
            continue
        tr = ctx.scratch.path("%s.ndjson" % name)
        ok, out = ctx.run_harness(b, [tr, ctx.tier], tr)
        if ok:
            ctx.validate(TRACE_MODULE, tr, label=label, min_lines=500)
    # stage X04 (notes/X04-notes.md): gtx/matrix_interpolation (axisAngle, axisAngleMatrix, extractMatrixRotation, interpolate along the geodesic),
    # rotateNormalizedAxis, the quaternion exp / log / pow / sqrt family, quaternion relational functions, quatLookAt - GlmX04.tla
    from props import x04
    x04.run(ctx)
    ctx.rule("rational unit quaternions from every integer 4-tuple with n <= 5 (thorough: n <= 9, samples of n = 10, 11), near-axis quaternions "
             "(1-t^2, 2t, 0, 0)/(1+t^2) t = 2^-1 .. 2^-30 in every position and sign, near-gimbal quaternions qz qy qx whose yaw half angle comes from "
             "the Pythagorean triples with legs a, a+1 (cos(yaw) from 5e-2 down to 1e-15) and float-exact gimbal quaternions moved by 0..20000 ulps; "
             "per quaternion: mat3_cast, quat_cast(mat3_cast), quat_cast of the exact rational matrix, q*v, conjugate/inverse, q*inverse(q), angle, axis, "
             "angleAxis(angle, axis), eulerAngles, quat(eulerAngles); on a stride every other overload (mat4/gtx/conversion operators, v*q, vec4, unary, scalar, "
             "dot/length/normalize, pitch/yaw/roll, constructors, memory image, dual quaternions, mediump/lowp); pairs for q1*q2 and Mat(q1 q2) = Mat(q1) Mat(q2); "
             "rational angles (Pythagorean pairs, multiples of 90 degrees, 2^-k neighbours) through angleAxis, rotate, gtx rotate/rotateX/Y/Z, qua(euler), "
             "all eulerAngle* (1, 2, 3 angles), yawPitchRoll, orientate2/3/4, derivedEulerAngle*, every extractEulerAngle* (+ rebuild), orientation; "
             "pairs of vectors (all axis pairs, parallel, antiparallel, 2^-k away from both) through qua(u, v) and rotation(u, v); float and double; "
             "both builds (default XYZW storage and -DGLM_FORCE_QUAT_DATA_WXYZ); each event judged by TLC against exact dyadic/rational values", exhaustive=False)
    ctx.assumptions += [
        "angles reach GLM as atan2l(sn, cn) of integer Pythagorean triples rounded to the type (input encoding, error <= 1/2 ulp of the angle, inside the tolerances); "
        "angles returned by GLM are decoded as (cosl, sinl) in long double by the harness (output encoding); libm accuracy is assumed",
        "laws stated for unit quaternions are judged only when | |q|^2 - 1 | <= 4 eps; non-finite arguments constrain nothing",
        "near degenerate configurations (w ~ +-1 for axis(), gimbal lock for eulerAngles(), (anti)parallel vectors for rotation()/qua(u,v)) an error up to "
        "8 sqrt(eps) is accepted when it stays inside the conditioning bound of the function's formula; beyond that it is reported as a known deviation",
    ]
