"""X04 - rotation-form extras (attached to C04): gtx/matrix_interpolation, gtx/rotate_normalized_axis, the remaining gtx/quaternion helpers,
quaternion exp / log / pow / sqrt, the relational functions and quatLookAt of gtc/quaternion."""
import vlib

LEVEL = "model_checking"
TRACE_MODULE = "Trace_X04"

BUILDS_QUICK = [("x04", (), "xyzw-rh")]
BUILDS_THOROUGH = BUILDS_QUICK + [("x04_wxyz_lh", ("-DGLM_FORCE_QUAT_DATA_WXYZ", "-DGLM_FORCE_LEFT_HANDED"), "wxyz-lh")]


def run(ctx):
    ctx.mc("MC_X04", "MC_X04.cfg", workers=min(8, vlib.NCPU), xmx="2g",
           what="walks along geodesics of SO(3): 147 walks (6 integer axes x 4 step angles 73.7 / 45.2 / 180 / 106.3 degrees x 2 spans x 3 base "
                "orientations, plus three walks with the step 2^-10 rad), state = (walk, j, matrix built step by step, quaternion built step by step); "
                "laws over Q in every state: the step-by-step walk lies on the closed-form geodesic R(n, (a + j) psi) B and equals interpolate(M1, M2, j/m) "
                "(t = 0 -> M1, t = 1 -> M2, constant angular speed, linear translation, last row), axis-angle extraction of R(n, j psi) (relation and the "
                "single-valued model of the function: general case, identity, half turn with x / y / z dominant axis), axisAngleMatrix, extractMatrixRotation, "
                "rotateNormalizedAxis (mat4 and quaternion form agree with M R), integer powers / sqrt / exp / log on the rational circle incl. the pinned "
                "wrong branch of pow, Hamilton product laws, extractRealComponent, quatLookAt (RH / LH, negative cases), the strict matrix algebra and the "
                "dyadic twins of the trace specification equal to the LinQ definitions; 16 further states check the four relational functions on all "
                "65 536 pairs of bit patterns of the 8-bit mini format")
    builds = BUILDS_QUICK if ctx.quick else BUILDS_THOROUGH
    specs = [dict(name=n, src="x04.cpp", flags=fl) for n, fl, _ in builds]
    bins = vlib.pmap(lambda s: ctx.build(s["name"], s["src"], flags=s["flags"]), specs, jobs=2)
    for (name, flags, label), b in zip(builds, bins):
        if not b:
            continue
        tr = ctx.scratch.path("%s.ndjson" % name)
        ok, out = ctx.run_harness(b, [tr, ctx.tier], tr)
        if ok:
            ctx.validate(TRACE_MODULE, tr, label=label, min_lines=400, xmx="1500m")
    ctx.rule("rational rotations only: angles = atan2 of Pythagorean triples (multiples of 90 degrees, 2^-k neighbours of 0 and pi, +- full turns), axes = "
             "integer vectors of integer length (14, x / y / z dominant, ties, negative), base orientations = rational unit quaternions; "
             "axisAngleMatrix (unit and unnormalised axis); axisAngle on B R(n, angle) B^T for every angle x axis, on sin = 2^-k (k to 30 / 60) next to 0 and pi "
             "down to below the snap threshold of the function, and on random rotations: rebuilt through the specification's Rodrigues formula and through "
             "GLM's axisAngleMatrix; extractMatrixRotation on random bit patterns (bit exact); interpolate on geodesics M1 = T(t1) R(n, a psi) B, "
             "M2 = T(t2) R(n, (a+m) psi) B at t = j/m, j = -m..2m (9 step angles incl. 0, 90 and 180 degrees, small steps 2^-5..2^-21 rad, steps next to pi); "
             "rotateNormalizedAxis (mat4: general 4x4 with dyadic entries; quat); cross(q, q) (unit, non-unit, random), extractRealComponent (|v| below / at / above 1), "
             "length2, quat_identity, toMat3 / toMat4 / toQuat, rotate(q, v3 / v4); exp (pure and with real part ln 2 / ln 3, up to two full turns, vanishing "
             "vector parts), log (unit and |q| = 2, 4; both signs of sin; w = +-1), exp(log q) (rational and random unit q), pow(q, b/a) with q = 2^e (cos a psi + n sin a psi) "
             "for 21 (a, b) pairs x 10 step angles, integer powers and sqrt(q)^2 = q on random / enumerated / non-unit quaternions; the four relational functions "
             "on the IEEE lattice (NaN, infinities, signed zeros, subnormals) compared as bit patterns; quatLookAt / RH / LH for every axis x 10 up vectors, plus up vectors scaled by 2^-4..2^-14 and up vectors 2^-4..2^-14 away from +-direction; "
             "float and double; thorough adds the build with WXYZ storage and left-handed default; each event judged by TLC against exact dyadic values", exhaustive=False)
    ctx.assumptions += [
        "angles reach GLM as atan2l of integer Pythagorean triples rounded to the type, returned angles / logarithms are decoded by the harness in long double "
        "(cosl, sinl, expl): input / output encodings, libm accuracy assumed",
        "matrices and quaternions built from rationals are evaluated in long double and rounded once; the trace specification re-checks every such encoding "
        "against the integers within 1 eps (8 eps for the product M2 M1^T) and rejects the event otherwise",
        "near the degenerate configurations of axisAngle / interpolate (difference angle next to 0 or pi) an error up to 8 sqrt(eps) is accepted inside the "
        "conditioning bound e |sin| <= 16 eps of the documented formula, and 128 eps where the function snaps to 0 / pi",
        "extractRealComponent: the sign convention (w <= 0) is taken from the code, the documentation is silent",
        "quatLookAt: direction not normalised, up shorter than 1/4 or within asin(1/4) of the direction constrain nothing; pow: q = 0 and exponents whose "
        "principal value is not on the rational circle constrain nothing",
    ]
