"""X21 - the stream-formatting state machine of gtx/io (format_punct facet, manipulators, format_saver / state_saver, operator<< for
vec1-4, qua, the nine matrix shapes and pair<mat4, mat4>) and glm::to_string of gtx/string_cast.

E1  MC_X21 (breadth-first): every machine state reachable with MaxLen actions of the alphabet, saver nesting <= 3; laws as invariants /
    action property (saver scopes restore, manipulators commute, unformatted ignores precision / width / delimiters, output keeps the state,
    row_major M = column_major transpose(M), layout of the formatted text) + constant-level laws of the decimal numerals.
E2  the same run writes one behaviour per distinct machine state (shortest action sequence reaching it + three probing outputs); a second
    run of the same specification in TLC's simulation mode writes random behaviours of 8 and 12 actions with outputs anywhere.
E3  harness/x21.cpp replays each behaviour through the real manipulators / savers / inserters on a fresh ostringstream (wostringstream for
    a quarter of them), adds behaviours from its integer Rng, and logs glm::to_string events.
E4  Trace_X21 steps the specified machine along each replayed behaviour: state and text must match exactly."""
import hashlib, json, os, re, time
import vlib
from vlib import log

LEVEL = "model_checking"
TRACE_MODULE = "Trace_X21"


def _read_behaviours(path):
    if not os.path.exists(path):
        raise vlib.Infra("TLC did not write %s" % path)
    with open(path) as f:
        lines = sorted(set(l.strip() for l in f if l.strip()))
    for l in lines[:50]:
        json.loads(l)                                   # well-formed (plumbing check only)
    return lines


def _thin(lines, quota):
    """deterministic pseudo-random subset (selection only - nothing is judged here)"""
    if len(lines) <= quota:
        return lines
    keyed = sorted(lines, key=lambda l: hashlib.sha1(l.encode()).hexdigest())
    return sorted(keyed[:quota])


def _simulate(ctx, out, num):
    """TLC simulation mode on the same specification: random behaviours with outputs anywhere (ExitLawP and InvType checked along them)"""
    t = time.time()
    r = vlib.tlc("MC_X21", "MC_X21_sim.cfg", env={"OUT": out}, workers=1, timeout=900, xmx="2g",
                 extra=["-simulate", "num=%d" % num, "-depth", "14", "-seed", str(vlib.SEED)], scratch=ctx.scratch)
    m = re.search(r"The number of states generated: (\d+)", r.out)
    bad = r.rc != 0 or "Error:" in r.out or "is violated" in r.out or not m
    if bad:
        raise vlib.Infra("simulation of MC_X21 failed (specification-level failure, independent of /repo):\n%s" % r.tail(40))
    gen = int(m.group(1))
    ctx.transitions += gen
    ctx.mc_runs.append({"module": "MC_X21", "cfg": "MC_X21_sim.cfg (-simulate num=%d -depth 14)" % num, "distinct_states": 0, "states_generated": gen,
                        "depth": 13, "wall_s": round(time.time() - t, 1),
                        "what": "random behaviours of 12 actions over the rich alphabet; InvType and the saver laws along every one of them; emits behaviours of length 8 and 12"})
    log("[mc] MC_X21 simulation: %d states generated, %.1fs" % (gen, time.time() - t))


def run(ctx):
    bfs = ctx.scratch.path("x21-bfs.ndjson")
    sim = ctx.scratch.path("x21-sim.ndjson")
    for p in (bfs, sim):
        if os.path.exists(p):
            os.remove(p)
    cfg = "MC_X21.cfg" if ctx.quick else "MC_X21_deep.cfg"
    r = ctx.mc("MC_X21", cfg, env={"OUT": bfs}, workers=min(6, vlib.NCPU), timeout=1500, xmx="3g",
               what="state = (heap of format_punct facets, facet of the stream's locale, stack of live savers, ios flags / precision / width / fill); "
                    "actions = GLM manipulators, std manipulators, format_saver / state_saver entry (nesting <= 3), exit, output of 33 values of all shapes; "
                    "VIEW = the machine state, every reachable one within MaxLen actions; 6 invariants + the saver / stack action property; "
                    "constant-level laws of the decimal numerals (correct rounding, ties to even, printf witnesses)")
    if r.distinct < 1000:
        raise vlib.Infra("MC_X21 visited only %d states: the bounded model is (nearly) vacuous" % r.distinct)
    _simulate(ctx, sim, 150 if ctx.quick else 1500)
    b1 = _read_behaviours(bfs)
    b2 = _read_behaviours(sim)
    ctx.extra["behaviours_emitted_bfs"] = len(b1)
    ctx.extra["behaviours_emitted_simulation"] = len(b2)
    s1 = _thin(b1, 450 if ctx.quick else 6000)
    s2 = _thin(b2, 150 if ctx.quick else 3000)
    beh = ctx.scratch.path("x21-behaviours.ndjson")
    with open(beh, "w") as f:
        f.write("\n".join(s1 + s2) + "\n")
    ctx.extra["behaviours_replayed"] = len(s1) + len(s2)
    log("[gen] %d + %d behaviours emitted by TLC, %d + %d replayed" % (len(b1), len(b2), len(s1), len(s2)))
    if len(s1) + len(s2) < 200:
        raise vlib.Infra("only %d behaviours emitted" % (len(s1) + len(s2)))
    b = ctx.build("x21", "x21.cpp", opt="-O1")
    if not b:
        return
    tr = ctx.scratch.path("x21.ndjson")
    ok, out = ctx.run_harness(b, [tr, ctx.tier, beh], tr)
    if not ok:
        return
    ctx.validate(TRACE_MODULE, tr, label="replay", group_marker='{"e":"Reset"}', min_lines=1200, timeout=2400, xmx="2g")
    ctx.rule("behaviours = action sequences emitted by TLC from MC_X21 (one per distinct machine state of the breadth-first run: shortest way to the state + "
             "3 probing outputs; random walks of 8 / 12 actions from the simulation run; a deterministic subset in the quick tier) + behaviours of 8-20 "
             "actions from the harness Rng (precision 0..12 and 17, width 0..16, 20 delimiter characters, every ios flag, random dyadics, raw float / double "
             "patterns, lowp vectors); each replayed on a fresh ostringstream (a quarter also on a wostringstream) with real io::format_saver / "
             "io::state_saver objects in nested scopes; after every step the facet fields, has_facet, flags / precision / width / fill and the appended text "
             "are logged and compared exactly with IoStep / IoText of GlmX21.tla (decimal expansions computed exactly, round-half-even); glm::to_string "
             "of vec1-4 (float double int uint bool i8 u8 i16 u16 i64 u64), all matrix shapes (float double int uint), quat and dualquat (float double) "
             "on the value lattices + random dyadics, compared exactly with ToStringText", exhaustive=False)
    ctx.assumptions += ["std::num_put of the C++ library and printf of the C library are correct: the text of a number is specified (decimal expansion of the "
                        "exact binary value, round-half-even, C 7.21.6.1 %f %e %g %d, padding of 27.7.3.6.1), GLM only chooses flags / precision / width / fill",
                        "the text of an output constrains nothing when a component is NaN, when the stream's flags contain hex / oct / showpoint / uppercase / "
                        "hexfloat, for precision > 60, and for values beyond 2^+-200 (cost); the state is compared in every case",
                        "io.hpp carries no documentation of the savers: the specified behaviour (format_saver restores format and ios state; state_saver restores "
                        "the ios state and the locale, whose facet is a shared mutable object) is what the constructors and destructors save and restore",
                        "savers end in LIFO order (automatic objects)",
                        "the classic locale; streams in good state; element types float, double, int, unsigned for the inserters (8-bit integers are inserted as characters by the standard library)"]
