"""X10 - principal component analysis attached to C10: gtx/pca.hpp computeCovarianceMatrix (4 overloads), findEigenvaluesSymReal
(2x2, 3x3, 4x4), sortEigenvalues (2, 3, 4)."""
import glob, json, os
import vlib

LEVEL = "model_checking"
TRACE_MODULE = "Trace_X10"


def run_mc(ctx):
    """E1 + E2: the bounded model; its configurations (symmetric integer matrices with known spectra, integer point sets with a
    centre, value tuples to sort) are written out as cases for the harness."""
    out = ctx.scratch.path("x10-cases.ndjson")
    cfg = "MC_X10.cfg" if ctx.quick else "MC_X10_deep.cfg"
    r = ctx.mc("MC_X10", cfg, workers=min(8, vlib.NCPU), env={"OUT": out}, timeout=1200,
               what="eig: A = Q^T diag(d) Q for integer Q with Q Q^T = den^2 I (signed permutations x {identity, Pythagorean rotations, Householder "
                    "matrices, quaternion matrices}) and diagonals with distinct / repeated / zero / negative / nearly degenerate / graded entries, "
                    "actions rotate d and negate d: rows of Q are eigenvectors of den^2 d_i, orthogonal, trace, characteristic polynomial identity "
                    "(tight: a shifted spectrum is refuted), the acceptance predicate of Trace_X10 accepts the correctly rounded exact eigenpairs and "
                    "rejects exchanged values, a shortened vector, a repeated pair, a shifted value; cov: integer point sets walked by translation / "
                    "scaling / appending with the predicted sum matrix (translation invariance, k^2, additivity, symmetry, quadratic form = sum of "
                    "squares, relative = absolute - centre, Steiner), points on a line (rank 1, S = sum (t - t0)^2 dir dir^T), acceptance of the "
                    "rounded exact covariance and rejection of the n - 1 / undivided / perturbed ones; sort: all value tuples (2: 3^2, 3: 3^3, "
                    "4: 4^4) through the compare-exchange network one comparator per step (permutation at every step, ordered at the end, "
                    "idempotent, unique values, exchanged neighbours / tags rejected)")
    if r.distinct < 1000:
        raise vlib.Infra("MC_X10 visited only %d states" % r.distinct)
    seen = set()
    for p in [out] + sorted(glob.glob(out + ".*")):
        if not os.path.exists(p):
            continue
        with open(p) as f:
            for ln in f:
                ln = ln.strip()
                if ln:
                    seen.add(ln)
    by = {}
    for ln in seen:
        d = json.loads(ln)
        if d["k"] == "E":
            key, txt = "E%d" % d["n"], "E %d %s %s" % (d["n"], " ".join(str(x) for x in d["e"]), " ".join(str(x) for x in d["sp"]))
        elif d["k"] == "C":
            key, txt = "C%d" % d["d"], "C %d %d %s %s" % (d["d"], d["n"], " ".join(str(x) for x in d["p"]), " ".join(str(x) for x in d["c"]))
        else:
            key, txt = "S%d" % d["n"], "S %d %s" % (d["n"], " ".join(str(x) for x in d["v"]))
        by.setdefault(key, []).append(txt)
    ctx.extra["spec_generated_cases"] = {k: len(v) for k, v in sorted(by.items())}
    if sum(len(v) for v in by.values()) < 1000 or not all(k in by for k in ("E2", "E3", "E4", "C2", "C3", "C4", "S2", "S3", "S4")):
        raise vlib.Infra("MC_X10 emitted too few cases: %s" % ctx.extra["spec_generated_cases"])
    # sub-sample per family (deterministic: sorted, fixed stride); the sort cases are always complete
    target = {"E": 80, "C": 40} if ctx.quick else {"E": 700, "C": 400}
    lines = []
    for key in sorted(by):
        v = sorted(by[key])
        if key[0] != "S":
            stride = max(1, len(v) // target[key[0]])
            v = v[::stride]
        lines += v
    txt = ctx.scratch.path("x10-cases.txt")
    with open(txt, "w") as g:
        g.write("\n".join(lines) + "\n")
    ctx.extra["cases_used"] = len(lines)
    return txt


def run_traces(ctx, b, cases, tag, sections=("mc", "gen")):
    for sec, extra in (("mc", [cases]), ("gen", [])):
        if sec not in sections:
            continue
        tr = ctx.scratch.path("x10-%s-%s.ndjson" % (tag, sec))
        ok, out = ctx.run_harness(b, [tr, ctx.tier, sec] + extra, tr)
        if not ok:
            return
        ctx.validate(TRACE_MODULE, tr, label="%s %s" % (tag, sec), min_lines=150)
        try:
            os.remove(tr)
        except OSError:
            pass


def run(ctx):
    cases = run_mc(ctx)
    b = ctx.build("x10", "x10.cpp", opt="-O1")
    if not b:
        return
    run_traces(ctx, b, cases, "pure")
    if not ctx.quick:
        # the same harness with aligned default types and intrinsics (vec4 / mat4 arithmetic of the covariance accumulation) on every
        # 6th case of MC_X10 (measured: the traces of this build are bit-identical to the pure ones, the functions are scalar loops)
        ba = ctx.build("x10_aligned_sse2", "x10.cpp", flags=["-DGLM_FORCE_INTRINSICS", "-DGLM_FORCE_DEFAULT_ALIGNED_GENTYPES", "-msse2"], opt="-O1", must=False)
        if ba:
            with open(cases) as f:
                sub = f.readlines()[::6]
            small = ctx.scratch.path("x10-cases-aligned.txt")
            with open(small, "w") as g:
                g.writelines(sub)
            run_traces(ctx, ba, small, "aligned-sse2", sections=("mc",))
    ctx.rule("computeCovarianceMatrix (pointer + count, pointer + count + centre, random-access iterator range, bidirectional iterator range + "
             "centre; D = 2, 3, 4) on the integer point sets of MC_X10 (exact up to the one division), on their dyadic scalings and on random "
             "dyadic clouds of 1..64 (257) points; findEigenvaluesSymReal (2x2, 3x3, 4x4) on the symmetric integer matrices of MC_X10 with their "
             "known spectra (verified by TLC from the characteristic polynomial before use) at natural scale, lifted by 2^40 / 2^90 out of reach of the "
             "implementation's absolute epsilon and at a few other scales, on random integer / dyadic / nearly degenerate / graded symmetric "
             "matrices, on the covariance matrices of the point sets (the documented pipeline) and on special matrices: residual, unit length, "
             "gap-weighted orthogonality, trace, determinant, spectrum; sortEigenvalues (2, 3, 4) on every value tuple of MC_X10 (all orderings "
             "with and without ties, signed zeros), on the outputs of findEigenvaluesSymReal: permutation of the (value, column) pairs, ordered "
             "from the largest to the smallest; float and double, highp plus lowp / mediump sub-samples", exhaustive=False)
    ctx.assumptions += ["covariance = sum of outer products divided by the number of points (the implemented normalisation; the documentation "
                        "does not say n or n - 1); no points, non-finite or |coordinates| outside [2^-40, 2^40] constrain nothing",
                        "eigen-solver: non-symmetric, non-finite inputs and entries outside [2^-60, 2^160] constrain nothing; tolerances "
                        "16 n eps |A|_inf (residual), 16 n eps (unit length), see notes/X10-notes.md",
                        "a call that returns fewer than D pairs constrains nothing by itself ('usually D'); at most one in ten calls on inputs out "
                        "of reach of the hard-coded epsilon may do so",
                        "sortEigenvalues: NaN / infinite values constrain nothing"]
