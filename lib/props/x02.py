"""X02 - matrix helper libraries attached to C02: gtc/matrix_access (row, column), gtx/matrix_operation (diagonalCxR, adjugate),
gtx/matrix_query (isNull isIdentity isNormalized isOrthogonal), gtx/matrix_major_storage, gtx/matrix_cross_product,
ext/matrix_integer + gtc/matrix_integer + ext/matrix_*_sized (matrixCompMult outerProduct transpose determinant on integer
matrices), gtx/matrix_factorisation (flipud fliplr qr_decompose rq_decompose), ext/matrix_common (mix, abs)."""
import json, os
import vlib

LEVEL = "model_checking"
TRACE_MODULE = "Trace_X02"
PROBES = [(1, "mix_matrix_weight_nonsquare"), (2, "mix_controls"), (3, "nonsquare_query_factorisation_int8_determinant")]


def probe(ctx, n):
    """does the documented call form compile against the tree under test?  (-fsyntax-only, nothing is run)"""
    src = os.path.join(vlib.VERIF, "harness", "x02_probe.cpp")
    rc, out = vlib.sh(["g++", "-std=c++17", "-fsyntax-only", "-w", "-I" + vlib.REPO, "-DX02_PROBE=%d" % n, src], timeout=300)
    return rc == 0


def run(ctx):
    ctx.mc("MC_X02", "MC_X02.cfg" if ctx.quick else "MC_X02_deep.cfg", workers=min(8, vlib.NCPU), timeout=1500,
           what="small integer matrices: adj(M) M = M adj(M) = det(M) I, adj(A B) = adj(B) adj(A), det(A B) = det(A) det(B), adj(M^T) = adj(M)^T "
                "(2x2 exhaustively over {-1,0,1,2}^4 pairs from a pool, 3x3 and 4x4 pools; transpose = action), row / column set-get laws on all "
                "nine shapes (set then get returns the vector, the other rows / columns untouched, set of the got row is the identity), "
                "rowMajor = transpose o colMajor, cross-product matrix laws (M_x v = x cross v, M_x^T = -M_x, M_x x = 0, matrixCross4 = embedding), "
                "flipud o flipud = id, flipud(A B) = flipud(A) B, fliplr(A B) = A fliplr(B), flipud = transpose o fliplr o transpose, "
                "diagonal laws (diag(v) w = v * w, diag(v) diag(w) = diag(v * w), det = product, transpose(diagCxR) = diagRxC), "
                "the three-valued query predicates on all signed permutation matrices and integer perturbations of them (exact ties), "
                "rational Gram-Schmidt QR / RQ of small integer matrices (w_i orthogonal, rho_i^2 = |a_i|^2 g_{i-1} / g_i, uniqueness of the "
                "factorisation Q0 R0 with Pythagorean / Hadamard Q0) against the postconditions used by Trace_X02, rejection of perturbed factors")
    b = ctx.build("x02", "x02.cpp", opt="-O1")
    if not b:
        return
    tr = ctx.scratch.path("x02.ndjson")
    ok, out = ctx.run_harness(b, [tr, ctx.tier], tr)
    if not ok:
        return
    res = vlib.pmap(lambda pr: probe(ctx, pr[0]), PROBES, jobs=3)
    with open(tr, "a") as f:
        for (n, name), okc in zip(PROBES, res):
            f.write(json.dumps({"op": "probe", "name": name, "ok": 1 if okc else 0}, separators=(",", ":")) + "\n")
    ctx.validate(TRACE_MODULE, tr, label="pure", min_lines=400)
    ctx.rule("row / column getters and setters, flipud, fliplr, diagonalCxR on all nine shapes (float double int uint, + int8 uint16 int64 uint64 thorough), "
             "rowMajor2/3/4 colMajor2/3/4 from vectors and matrices: bit patterns incl. -0, NaN, inf, subnormals; matrixCross3/4 and M_x v (float double "
             "int uint, + int16 int64 thorough); adjugate and determinant 2x2 3x3 4x4 (float double and the eight sized integer types: exact on integers "
             "incl. unsigned wrap-around, k eps of the sum of absolute products on random floats); matrixCompMult outerProduct transpose on the nine "
             "shapes of the eight sized integer types; mix(matrix, matrix, scalar / matrix), abs(matrix) (float double int uint); isNull isIdentity "
             "isNormalized isOrthogonal (float double; signed permutation matrices times exact scales with thresholds at / just below / just above "
             "the tie, Pythagorean rotations, shears with exactly known dot products, identity with one perturbed entry on all nine shapes, "
             "coordinate sub-frames on the non-square shapes, random matrices); qr_decompose rq_decompose on all nine shapes (identity, coordinate "
             "frames times integer triangular factors, small / scaled integers, random floats, diagonally dominant, rank-deficient and non-finite "
             "probes); three compile probes; every event judged by TLC against GlmX02.tla", exhaustive=False)
    ctx.assumptions += [
        "floats judged with a tolerance must lie within 2^+-20 (float) / 2^+-60 (double) or be zero; non-finite arguments constrain nothing",
        "signed integer overflow and int-promoted 16-bit overflow are undefined behaviour (VSkip); 8- and 16-bit results are compared modulo 2^W "
        "(conversion of the promoted int result back to the element type, as GCC and Clang define it)",
        "qr_decompose / rq_decompose: only inputs whose leading min(C,R) columns (rq: trailing rows) are each at least 14.5 degrees off the span of "
        "the previous ones (|a_i| <= 4 |w_i|, decided exactly through Gram determinants) are judged; tolerances follow the first-order analysis "
        "of modified Gram-Schmidt in notes/X02-notes.md and contain the factor |a_i| / |w_i| rounded up to a power of two",
        "isNormalized(matrix) and isOrthogonal(square matrix) are read as GLM implements them (columns and rows); isOrthogonal of a non-square "
        "matrix is read as 'the columns are orthonormal within epsilon'; isNormalized(vector) uses GLM's 2 * epsilon",
        "decisions of the queries are free inside the rounding band of the deciding quantity; they are exact when every operation of the "
        "evaluation is exact (axis-aligned columns, small integers with perfect-square lengths, vanishing products)"]
