"""X19 - colour encoding, gradient paint and related helpers (host property C19): gtx/color_encoding (four XYZ / sRGB conversions),
gtx/gradient_paint (linearGradient, radialGradient), the laws between the saturation overloads of gtx/color_space, rgb2YCoCg / YCoCg2rgb
on integer element types, and the overloads of the gtc/color_space transfer curves that C19 does not execute."""
import vlib

LEVEL = "model_checking"
TRACE_MODULE = "Trace_X19"


def run(ctx):
    ctx.mc("MC_X19", "MC_X19.cfg" if ctx.quick else "MC_X19_deep.cfg", workers=min(8, vlib.NCPU), timeout=1500,
           what="rational grids: linearGradient (0 at Point0, 1 at Point1, affine along the line = action, constant on perpendiculars = action, "
                "translation / scaling / end point exchange), radialGradient (closed form = non-negative root of A g^2 - 2 B g - C, discriminant "
                "identity, 1 exactly on the circle, 0 at the focal point, |D| / R for Focal = Center, homogeneous = action, at most one root), "
                "colour encoding (columns = images of the primaries, Y row = luminance weights, greys -> white point, XYZ -> sRGB inverts sRGB -> XYZ "
                "within 1/1000, Bradford o IEC = D50 matrix, linearity = action; the component-wise evaluation of the source modelled and shown to "
                "differ), saturation (closed form, greys / luminance / alpha preserved, s = 1 identity, s = 0 luminance = Y of sRGB -> XYZ, "
                "M(s) M(t) = M(s t) = action, equals GlmColor.SatMatrix), integer YCoCg (exact on multiples of four, inverse both ways, ranges, "
                "red / blue exchange = action); every dyadic acceptance predicate of GlmX19 part 2 accepts the exact value and rejects a wrong "
                "one; constant-level laws of the IEC / Bradford matrices and their failure for the literals of the two D65 functions")
    b = ctx.build("x19", "x19.cpp", opt="-O1")
    if not b:
        return
    sections = ["all"] if ctx.quick else ["enc", "grad", "sat", "ycc", "srgb"]
    for sec in sections:
        tr = ctx.scratch.path("x19-%s.ndjson" % sec)
        ok, out = ctx.run_harness(b, [tr, ctx.tier, sec], tr)
        if not ok:
            return
        ctx.validate(TRACE_MODULE, tr, label="pure" if sec == "all" else sec, min_lines=600)
    ctx.rule("convertLinearSRGBToD65XYZ / convertLinearSRGBToD50XYZ / convertD65XYZToLinearSRGB / convertD65XYZToD50XYZ (cube, pure colours, greys, "
             "random, XYZ white points, negative and scaled components; composed inverse and D65 -> D50 consistency), linearGradient (integer "
             "configurations with exact values, random dyadics over 2^+-16 / 2^+-50, nearly coincident end points, far positions), radialGradient "
             "(Pythagorean exact values, off-centre focal points with rational roots, points of the circle, random with the focal point up to "
             "0.99 R from the centre, cancellation-prone positions), saturation matrix / vec3 / vec4 against each other, rgb2YCoCg / YCoCg2rgb and "
             "their composition in int8..uint64, convertLinearToSRGB / convertSRGBToLinear on vec1 / vec2 / vec4 in mediump and lowp and on vec1 / "
             "vec2 highp with the gammas 1, 2, 3, 3/2 (C19 covers the rest), vec4 alpha independence; float and double, highp / mediump / lowp; "
             "each event judged by TLC against GlmX19.tla in exact rational / dyadic arithmetic", exhaustive=False)
    ctx.assumptions += ["published colour matrices are precise to four decimals: a conversion result is accepted within |c|_1 / 1000 of the IEC 61966-2-1 "
                        "(sRGB <-> XYZ D65) / Bradford-adapted (D50) linear map",
                        "non-finite arguments, components outside the magnitude windows of Trace_X19 (no overflow / underflow inside the formulas), "
                        "Point0 = Point1, Radius <= 0, a focal point outside the circle or nearer to it than |F|^2 = (63/64) R^2, integer triples that "
                        "are not multiples of four or whose exact result does not fit the element type constrain nothing",
                        "libm pow / sqrt accurate to 1 ulp (sRGB tolerances as in Trace_C19)"]
