"""C03 - SIMD-intrinsic builds return the same results as the pure C++ path.

E1: MC_C03 transcribes the intrinsic kernels whose results must be identical to the generic code (round and its SSE2 floor /
ceil fallbacks, the compare masks behind sqrt_lowp, faceforward and refract) over every pattern of a small binary format.
E6: harness/c03.cpp is compiled once with GLM_FORCE_PURE (packed types) and once per x86 level with GLM_FORCE_INTRINSICS and
the aligned qualifiers; the two traces, made on bit-identical inputs, are related event by event by CrossCfg.tla in mode
"simd" (exact classes, multi-term tolerance, lowp approximation budget, branch agreement)."""
import os, re, time, json
import vlib
from props import c15

LEVEL = "model_checking"
TRACE_MODULE = "CrossCfg"

SIMD = ["-DC03_SIMD", "-DGLM_FORCE_INTRINSICS", "-DGLM_FORCE_ALIGNED_GENTYPES"]
PURE = ("pure", ["-DGLM_FORCE_PURE"], "g++", "-O1")
QUICK_VARIANTS = [
    ("sse2", SIMD + ["-msse2"], "g++", "-O1"),
    ("sse4.1", SIMD + ["-msse4.1"], "g++", "-O1"),
    ("avx2+fma", SIMD + ["-mavx2", "-mfma"], "g++", "-O2"),
    ("avx", SIMD + ["-mavx"], "g++", "-O1"),                                                       # the AVX-without-AVX2 branches (256-bit double permutes)
    ("sse2-wxyz", SIMD + ["-msse2", "-DGLM_FORCE_QUAT_DATA_WXYZ"], "g++", "-O1"),                # the WXYZ branches of type_quat_simd.inl
]
THOROUGH_VARIANTS = QUICK_VARIANTS + [
    ("sse3", SIMD + ["-msse3"], "g++", "-O1"), ("ssse3", SIMD + ["-mssse3"], "g++", "-O2"), ("sse4.2", SIMD + ["-msse4.2"], "g++", "-O1"),
    ("avx2", SIMD + ["-mavx2"], "g++", "-O1"),
    ("avx2+fma-wxyz", SIMD + ["-mavx2", "-mfma", "-DGLM_FORCE_QUAT_DATA_WXYZ"], "g++", "-O1"),
    ("clang-sse2", SIMD + ["-msse2"], "clang++", "-O1"), ("clang-sse4.1", SIMD + ["-msse4.1"], "clang++", "-O2"), ("clang-avx2+fma", SIMD + ["-mavx2", "-mfma"], "clang++", "-O2"),
    ("sse2-O0", SIMD + ["-msse2"], "g++", "-O0"), ("avx2+fma-O3", SIMD + ["-mavx2", "-mfma"], "g++", "-O3"),
]
PURE_WXYZ = ("pure-wxyz", ["-DGLM_FORCE_PURE", "-DGLM_FORCE_QUAT_DATA_WXYZ"], "g++", "-O1")


def run(ctx):
    ctx.mc("MC_C03", "MC_C03.cfg", what="intrinsic kernels transcribed over every pattern of the mini format (4,3): round (SSE4.1 and SSE2 paths), SSE2 floor / "
           "ceil, the zero / sign / not-greater-equal compare masks of sqrt_lowp, faceforward and refract, against the generic definitions; "
           "the pre-repair round kernel kept as a named deviation")
    if not ctx.quick:
        ctx.mc("MC_C03", "MC_C03_half.cfg", what="the same kernels over all 65536 binary16 patterns", timeout=1800)
    variants = QUICK_VARIANTS if ctx.quick else THOROUGH_VARIANTS
    bases = [PURE, PURE_WXYZ]
    specs = [{"name": "c03_" + re.sub(r"\W", "_", lab), "src": "c03.cpp", "flags": flags, "cxx": cxx, "opt": opt, "lab": lab} for (lab, flags, cxx, opt) in bases + variants]
    t = time.time()
    built = vlib.build_many(specs)
    vlib.log("[build] %d binaries (%.1fs)" % (len(specs), time.time() - t))
    bins = {}
    for sp, (b, lg) in zip(specs, built):
        if b is None:
            rp = ctx.write_replay("compile-" + sp["lab"], [], lg[-6000:])
            ctx.violation("the C03 harness does not compile in the %s build (%s)" % (sp["lab"], " ".join(sp["flags"])), rp)
        else:
            bins[sp["lab"]] = b
            ctx.builds.append("c03 [%s %s %s]" % (sp["cxx"], sp["opt"], " ".join(sp["flags"])))
    traces = {}
    mode = "quick" if ctx.quick else "thorough"

    def runone(lab):
        tr = ctx.scratch.path("c03.%s.ndjson" % re.sub(r"\W", "_", lab))
        rc, out = vlib.run_bin(bins[lab], [tr, mode], timeout=900, env={"VERIF_SEED": str(vlib.SEED)})
        return lab, tr, rc, out
    for lab, tr, rc, out in vlib.pmap(runone, list(bins.keys())):
        if rc != 0:
            rp = ctx.write_replay("abort-" + lab, [], out[-3000:])
            ctx.violation("the C03 harness aborted in the %s build (exit %d)" % (lab, rc), rp)
        else:
            traces[lab] = tr
    for (lab, flags, cxx, opt) in variants:
        base = traces.get("pure-wxyz" if lab.endswith("-wxyz") and "pure-wxyz" in traces else "pure")
        tr = traces.get(lab)
        if not base or not tr:
            continue
        # the first event of each trace says what was built: the variant must really be an intrinsic build with aligned types
        with open(tr) as f:
            cfg = json.loads(f.readline())
        with open(base) as f:
            cfgb = json.loads(f.readline())
        if cfg.get("op") != "config" or cfg.get("build") != "simd" or cfg.get("simd") != 1 or cfg.get("aligned") != 1 or cfg.get("sizeof_vec3") != 16 \
                or cfgb.get("build") != "pure" or cfgb.get("simd") != 0 or cfgb.get("sizeof_vec3") != 12:
            raise vlib.Infra("the C03 builds are not what they claim: %s / %s" % (cfg, cfgb))
        c15.cross_validate(ctx, base, tr, "c03-" + lab, mode="simd", sample=16)
    if "pure" in traces:
        ctx._scan(traces["pure"])
    for tr in traces.values():
        try:
            os.remove(tr)
        except OSError:
            pass
    ctx.rule("harness c03.cpp (component-wise float / int / uint / double vector functions and operators on vec2/3/4, geometric functions incl. "
             "refract / faceforward branch ties, mat3 / mat4 products, transpose, determinant, inverse, quaternion algebra and conversions, for "
             "highp / mediump / lowp) compiled pure and at %d intrinsic configurations (%s; WXYZ variants against a pure WXYZ build); every event pair related by CrossCfg.tla mode simd"
             % (len(variants), ", ".join(v[0] for v in variants)), exhaustive=False)
    ctx.assumptions += ["the instruction-set levels are exercised on this host's CPU (all levels up to AVX2+FMA are available here)",
                        "tolerance of the multi-term class: 16 eps x max(1,|inputs|)^degree (256 eps for the inverse family); lowp approximations 2^-9 of the result scale",
                        "min / max / clamp with a NaN operand and lowp approximations on zero divisors, non-finite or extreme-magnitude operands are outside the documented domain"]


def replay(ctx, path):
    return c15.replay_pairs(ctx, path, "simd")
