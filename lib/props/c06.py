"""C06 - pack/unpack functions are mutually consistent, correctly quantised and laid out."""
import vlib

LEVEL = "model_checking"
TRACE_MODULE = "Trace_C06"


def run(ctx):
    ctx.mc("MC_C06", "MC_C06.cfg", what="every code of every normalised field scale and of both small-float widths: canonical codes re-encode to "
           "themselves, acceptance is monotone and covers the range, out-of-range inputs clamp to the end codes, field layouts tile their word")
    b = ctx.build("c06", "c06.cpp")
    if not b:
        return
    tr = ctx.scratch.path("c06.ndjson")
    ok, out = ctx.run_harness(b, [tr, ctx.tier], tr)
    if ok:
        ctx.validate(TRACE_MODULE, tr, label="pure")
    ctx.rule("every pack/unpack pair of packing.hpp and gtc/packing.hpp: words = all low-16-bit codes (strided above 2^11 in quick) over 0/1 "
             "backgrounds + every 6-bit (11-bit thorough) code window and all boundary codes at every field offset + random words (rt events: "
             "unpack, re-pack, re-unpack); real inputs = every code value, every midpoint +-1ulp, out-of-range, infinities, random (pk events); "
             "templated packUnorm/packSnorm for 8/16-bit and float/double; RGBM; each event judged per field by TLC with exact rationals",
             exhaustive=False)
    ctx.assumptions += ["small-float decode convention for exponent-0 codes is GLM's (2^-15 (1+m/2^mb)), not the OpenGL denormal rule; the property only "
                        "demands self-consistency there", "unorm/snorm decode accepted within 2 ulp of code/scale (multiplication by a rounded reciprocal)"]
