"""C05 - GLSL integer and bitfield functions return the specified exact result."""
import json, os
import vlib

LEVEL = "model_checking"
TRACE_MODULE = "Trace_C05"


def gen_pairs(ctx):
    out = ctx.scratch.path("pairs.ndjson")
    r = vlib.tlc("Gen_C05", env={"OUT": out}, workers=1, timeout=300, scratch=ctx.scratch)
    if not r.ok or not os.path.exists(out):
        raise vlib.Infra("Gen_C05 failed:\n" + r.tail())
    txt = ctx.scratch.path("pairs.txt")
    n = 0
    with open(out) as f, open(txt, "w") as g:
        for ln in f:
            if ln.strip():
                d = json.loads(ln)
                g.write("%d %d %d\n" % (d["w"], d["off"], d["n"]))
                n += 1
    ctx.extra["spec_generated_field_pairs"] = n
    return txt


def run(ctx):
    # E1: exhaustive bounded model of the area: ladders, laws, field laws
    ctx.mc("MC_C05", "MC_C05_w8.cfg", what="W=8: all 256 words x 6 ladder rungs; all 45 (offset,bits) pairs per word")
    if not ctx.quick:
        ctx.mc("MC_C05", "MC_C05_w16.cfg", what="W=16: all 65536 words x 6 ladder rungs")
    pairs = gen_pairs(ctx)
    b = ctx.build("c05", "c05.cpp")
    if b:
        tr = ctx.scratch.path("c05.ndjson")
        ok, out = ctx.run_harness(b, [tr, pairs, ctx.tier], tr)
        if ok:
            ctx.validate(TRACE_MODULE, tr, label="pure")
    # the intrinsic specialisations (bitCount / bitfieldReverse steps on aligned 4 x 32-bit vectors, func_integer_simd.inl): the same
    # harness with the default qualifier switched to aligned_highp; judged by the same trace specification
    # (quick: SSE2 in full; of the AVX2+FMA build the events of the 4 x 32-bit vectors, the only types with intrinsic specialisations)
    for vl, isa in [("aligned-sse2", ["-msse2"]), ("aligned-avx2", ["-mavx2", "-mfma"])]:
        ba = ctx.build("c05_" + vl.replace("-", "_"), "c05.cpp", flags=["-DGLM_FORCE_INTRINSICS", "-DGLM_FORCE_DEFAULT_ALIGNED_GENTYPES"] + isa)
        if ba:
            tra = ctx.scratch.path("c05-%s.ndjson" % vl)
            ok, out = ctx.run_harness(ba, [tra, pairs, ctx.tier], tra)
            if ok and ctx.quick and vl == "aligned-avx2":
                trf = ctx.scratch.path("c05-%s-v4.ndjson" % vl)
                with open(tra) as f, open(trf, "w") as g:
                    for ln in f:
                        if '"n":4' in ln and ('"t":"i32"' in ln or '"t":"u32"' in ln):
                            g.write(ln)
                tra = trf
            if ok:
                ctx.validate(TRACE_MODULE, tra, label=vl)
    ctx.rule("8-bit types: every value (exhaustive) through every scalar/vector overload and every documented (offset,bits) pair; "
             "16-bit: every value in the thorough tier, lattice + random in quick; 32/64-bit: single-bit, run-of-ones, alternating, "
             "boundary patterns + seeded random; carry family: all lattice pairs + random; each event judged bit-exactly by TLC "
             "against GlmInteger.tla; repeated in an intrinsic build whose default qualifier is aligned_highp", exhaustive=False)
    ctx.assumptions += ["TLC evaluates the TLA+ definitions faithfully", "32/64-bit kernels are exercised on structured + random values, not exhaustively"]
