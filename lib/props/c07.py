"""C07 - float <-> half conversion is exact one way and round-to-nearest the other."""
import os, re
import vlib

LEVEL = "model_checking"
TRACE_MODULE = "Trace_C07"


def table(ctx):
    raw = ctx.scratch.path("half_table.raw")
    ctx.mc("MC_C07", env={"OUT": raw}, what="all 31745 non-NaN half magnitudes: widening exact, midpoints exact, intervals ordered/contiguous/covering, "
           "round trip unique, toFloat16 step model inside the interval at both ends; emits the interval table")
    rows = sorted(set(open(raw).read().split("\n")) - {""}, key=lambda s: int(s.split()[0]))
    if len(rows) != 31745:
        raise vlib.Infra("interval table has %d rows" % len(rows))
    tab = ctx.scratch.path("half_table.txt")
    with open(tab, "w") as f:
        f.write("\n".join(rows) + "\n")
    ctx.extra["interval_table_rows"] = len(rows)
    return tab


def run(ctx):
    tab = table(ctx)
    b = ctx.build("c07", "c07.cpp", opt="-O2")
    if not b:
        return
    tr = ctx.scratch.path("c07.ndjson")
    ok, out = ctx.run_harness(b, [tr, "events", tab, ctx.tier], tr)
    if not ok:
        return
    ctx.validate(TRACE_MODULE, tr, label="events")
    # E5: complete sweep of float -> half against the TLC-derived table; rejected inputs are re-judged by TLC
    sw = ctx.scratch.path("c07sweep.ndjson")
    ok, out = ctx.run_harness(b, [sw, "sweep", tab], sw)
    if not ok:
        return
    m = re.search(r"SWEEP inputs=(\d+) rejected=(\d+)", out)
    if not m:
        raise vlib.Infra("c07 sweep failed: " + out[-2000:])
    ctx.sweep_inputs += int(m.group(1))
    ctx.extra["sweep_inputs"] = int(m.group(1))
    ctx.extra["sweep_rejected_by_table"] = int(m.group(2))
    ctx.extra["distinct_extra"] = int(m.group(1))
    if int(m.group(2)) > 0:
        v = ctx.validate(TRACE_MODULE, sw, label="sweep-rejects", count_distinct=False)
        if not v.mismatches and not ctx.violations:
            raise vlib.Infra("sweeper rejected %s inputs that the trace specification accepts: sweeper/table bug" % m.group(2))
    # the same events and the same complete sweep in an intrinsic build with every x86 extension GLM may key a conversion fast path on
    bi = ctx.build("c07_simd", "c07.cpp", flags=["-DGLM_FORCE_INTRINSICS", "-mavx2", "-mfma", "-mf16c"], opt="-O2", label="c07 intrinsics avx2+f16c")
    if bi:
        tri = ctx.scratch.path("c07_simd.ndjson")
        ok, out = ctx.run_harness(bi, [tri, "events", tab, ctx.tier], tri)
        if ok:
            ctx.validate(TRACE_MODULE, tri, label="events-intrinsics")
        swi = ctx.scratch.path("c07sweep_simd.ndjson")
        ok, out = ctx.run_harness(bi, [swi, "sweep", tab], swi)
        mi = re.search(r"SWEEP inputs=(\d+) rejected=(\d+)", out) if ok else None
        if ok and not mi:
            raise vlib.Infra("c07 sweep (intrinsics) failed: " + out[-2000:])
        if mi:
            ctx.sweep_inputs += int(mi.group(1))
            ctx.extra["sweep_inputs_intrinsics"] = int(mi.group(1))
            ctx.extra["distinct_extra"] = ctx.extra.get("distinct_extra", 0) + int(mi.group(1))
            if int(mi.group(2)) > 0:
                nv = len(ctx.violations)
                v = ctx.validate(TRACE_MODULE, swi, label="sweep-rejects-intrinsics", count_distinct=False)
                if not v.mismatches and len(ctx.violations) == nv:
                    raise vlib.Infra("sweeper rejected inputs that the trace specification accepts: sweeper/table bug")
    ctx.rule("all 65536 half patterns through unpackHalf1x16 and re-pack; all 2^32 float patterns through packHalf1x16 against the "
             "31745-row acceptance-interval table derived and verified by TLC (E5 sweep; table rejections re-judged by TLC); every interval "
             "end, end+-1, midpoint and a random interior point of both signs, NaN payloads, and the 2x16/4x16/vector forms judged directly by TLC",
             exhaustive=True)
    ctx.assumptions += ["the 40-line C++ table interpreter of the sweep is validated by the TLC-judged events at every interval end"]
