"""C10 - inverse, determinant and their gtc variants satisfy the defining identities."""
import json, os
import vlib

LEVEL = "model_checking"
TRACE_MODULE = "Trace_C10"


def run_mc(ctx):
    """E1 + E2: the unimodular row-operation machine; every visited matrix is written out for the harness."""
    out = ctx.scratch.path("c10-matrices.ndjson")
    if os.path.exists(out):
        os.remove(out)
    cfg = "MC_C10.cfg" if ctx.quick else "MC_C10_deep.cfg"
    ctx.mc("MC_C10", cfg, env={"OUT": out},
           what="state = integer n x n matrix (n = 2, 3, 4) reached from the permutation matrices (and one-row-negated variants) by elementary row "
                "operations (add k*row, |k| <= 2; swap; negate), depth per size from the cfg, |entries| <= MaxEntry: every state unimodular; "
                "laws on the integer layer in every state (det = sign predicted by the walk, transpose, multiplicative, M adj = det I, "
                "inverse, inverseTranspose, quotients, affine embedding) and on the rational layer + agreement of both layers in the shallow states")
    if not os.path.exists(out):
        raise vlib.Infra("MC_C10 did not write the visited matrices")
    seen, txt = set(), ctx.scratch.path("c10-matrices.txt")
    with open(out) as f, open(txt, "w") as g:
        for ln in f:
            ln = ln.strip()
            if not ln or ln in seen:
                continue
            seen.add(ln)
            d = json.loads(ln)
            g.write("%d %s\n" % (d["n"], " ".join(str(x) for x in d["e"])))
    ctx.extra["spec_generated_matrices"] = len(seen)
    if len(seen) < 1000:
        raise vlib.Infra("MC_C10 emitted only %d matrices: the bounded model is (nearly) vacuous" % len(seen))
    return txt


def run(ctx):
    mats = run_mc(ctx)
    b = ctx.build("c10", "c10.cpp", opt="-O1")
    if not b:
        return
    # the emitted matrices in parts of <= 8000 (keeps every TLC process of the validation below ~4000 long lines)
    parts = []
    with open(mats) as f:
        lines = f.readlines()
    for i in range(0, len(lines), 8000):
        pth = ctx.scratch.path("c10-matrices-%02d.txt" % (i // 8000))
        with open(pth, "w") as g:
            g.writelines(lines[i:i + 8000])
        parts.append(pth)
    jobs = [("mc" if len(parts) == 1 else "mc%02d" % k, "mc", [pth]) for k, pth in enumerate(parts)] + [("gen", "gen", []), ("misc", "misc", [])]
    for label, sec, extra in jobs:
        tr = ctx.scratch.path("c10-%s.ndjson" % label)
        ok, out = ctx.run_harness(b, [tr, ctx.tier, sec] + extra, tr)
        if not ok:
            return
        ctx.validate(TRACE_MODULE, tr, label=label, min_lines=200)
        try:
            os.remove(tr)
        except OSError:
            pass
    # the aligned / intrinsic paths (inv3x3<aligned>, the SIMD compute_inverse<4,4>, aligned operator/): the same harness with the default
    # qualifier switched to aligned_highp; the trace specification does not depend on the qualifier
    variants = [("aligned-sse2", ["-DGLM_FORCE_INTRINSICS", "-DGLM_FORCE_DEFAULT_ALIGNED_GENTYPES", "-msse2"])]
    if not ctx.quick:
        variants.append(("aligned-avx2", ["-DGLM_FORCE_INTRINSICS", "-DGLM_FORCE_DEFAULT_ALIGNED_GENTYPES", "-mavx2", "-mfma"]))
    for vl, flags in variants:
        ba = ctx.build("c10_" + vl.replace("-", "_"), "c10.cpp", flags=flags, opt="-O1")
        if not ba:
            continue
        for label, sec, extra in ([("mc", "mc", [parts[0]]), ("gen", "gen", [])] if ctx.quick else jobs):
            tr = ctx.scratch.path("c10-%s-%s.ndjson" % (vl, label))
            ok, out = ctx.run_harness(ba, [tr, ctx.tier, sec] + extra, tr)
            if not ok:
                break
            ctx.validate(TRACE_MODULE, tr, label="%s %s" % (vl, label), min_lines=200)
            try:
                os.remove(tr)
            except OSError:
                pass
    # stage X10 (notes/X10-notes.md): gtx/pca - covariance matrices, the symmetric eigen-solver, sortEigenvalues - specified in GlmX10.tla
    from props import x10
    x10.run(ctx)
    ctx.rule("every matrix visited by the TLC run of MC_C10 (unimodular, n = 2..4) through determinant, determinant(transpose), inverse, "
             "inverseTranspose, adjugate, m/m, m/=m, m/v, v/m, m*m + determinant, affineInverse of the affine embedding and of the matrix itself, "
             "float and double (mediump / lowp on every 4th): bit-exact against the integer layer; generated small-integer, triangular, "
             "permutation-like, near-singular ([[1,1],[1,1+2^-k]] embedded; rotated diag(1,d,..,d)), random dyadic and affine matrices: "
             "kappa-proportional tolerance against exact rationals with the spec's exact condition number, residual inv*M - I formed by the "
             "spec from the logged inverse; scalar/matrix quotients correctly rounded per component; diagonal builders and flips bit-exact in "
             "all shapes; isNull/isIdentity/isNormalized/isOrthogonal three-valued around the threshold; qr/rq_decompose by postconditions "
             "(orthonormal, triangular, product) in square and non-square shapes; the unimodular and generated suites again in a build whose default "
             "qualifier is aligned_highp with intrinsics (SSE2; AVX2+FMA thorough)", exhaustive=False)
    ctx.assumptions += ["matrices that are singular, have an exact infinity-norm condition number above 1e4 (float) / 1e8 (double), non-finite "
                        "entries or entries outside [2^-40, 2^40] constrain nothing",
                        "tolerance constants: 16 * kappa * eps * max|exact| (inverse family, quotients, determinant relative to |det|), "
                        "32 * kappa * eps for the orthogonality defect of QR/RQ; see Trace_C10.tla",
                        "query predicates within 64 eps (relative) of their threshold constrain nothing"]
