"""Regenerate the table of DESIGN.md section 13 from seeded/*/meta.json and seeded/RESULTS.json (written by bin/run_seeds)."""
import json, glob, os, re
V = os.path.dirname(os.path.dirname(os.path.abspath(__file__)))
res = json.load(open(V + "/seeded/RESULTS.json"))
rows = ["| seed | file / function | needs to manifest | verdict of the property's quick check |", "|---|---|---|---|"]
def clip(s, n):
    s = re.sub(r"\s+", " ", s or "").replace("|", "/")
    return s if len(s) <= n else s[:n - 1] + "…"
nd = 0
no = 0
for d in sorted(glob.glob(V + "/seeded/C*-v*")):
    name = os.path.basename(d)
    m = json.load(open(d + "/meta.json"))
    r = res.get(name, {})
    if r.get("exit") == 1 and r.get("violations", 0) > 0:
        nd += 1
        det = re.sub(r"^detail: ", "", r.get("first_detail", ""))
        det = re.sub(r"; first: .*$", "", det)
        det = re.sub(r"/tmp/seedrun\.\w+/", "", det)
        verdict = "VIOLATION: " + clip(det, 150)
    elif m.get("obsolete"):
        verdict = "obsolete: " + clip(m["obsolete"], 150)
        no += 1
    elif not r:
        verdict = "(not run)"
    else:
        verdict = "MISSED (exit %s)" % r.get("exit")
    rows.append("| %s | `%s` %s | %s | %s |" % (name, clip(m.get("file", ""), 60), clip(m.get("function", ""), 70), clip(m.get("needs_to_manifest", ""), 170), verdict))
table = "\n".join(rows) + "\n\n%d of %d seeded changes are rejected by the quick check of the property they were written against.\n" % (nd, len(rows) - 2 - no)
p = V + "/DESIGN.md"
s = open(p).read()
if "SEEDTABLE-BEGIN" in s:
    s = re.sub(r"<!-- SEEDTABLE-BEGIN -->.*<!-- SEEDTABLE-END -->", lambda _: "<!-- SEEDTABLE-BEGIN -->\n" + table + "<!-- SEEDTABLE-END -->", s, flags=re.S)
else:
    s = s.replace("SEEDTABLE\n", "<!-- SEEDTABLE-BEGIN -->\n" + table + "<!-- SEEDTABLE-END -->\n", 1)
open(p, "w").write(s)
print("table rows:", len(rows) - 2, "detected:", nd)
