#!/usr/bin/env python3
"""Regenerates MANIFEST.json from the table below (keeps it valid at all times)."""
import json, os
V = os.path.dirname(os.path.dirname(os.path.abspath(__file__)))
props = [json.loads(l) for l in open(os.path.join(V, "properties.jsonl"))]
from manifest_table import CHECKS, ENGINES, NOT_APPLICABLE, NOTES, ADDENDA
checks = []
for pid, c in sorted(CHECKS.items()):
    checks.append({
        "property_id": pid,
        "quick_cmd": "bin/check %s --tier quick" % pid,
        "thorough_cmd": "bin/check %s --tier thorough" % pid,
        "evidence_file": "evidence/%s.json" % pid,
        "replay_cmd_template": "bin/check %s --replay {path}" % pid,
        "engine": c["engine"],
        "level_claimed": {"category": c.get("level", "model_checking"), "text": c["text"] + (" " + ADDENDA[pid] if pid in ADDENDA else ""), "design_ref": c["design_ref"]},
        "level_note": c["note"],
        "technique": c["technique"],
    })
na = [{"property_id": p["id"], "reason": NOT_APPLICABLE.get(p["id"], "check not built yet (work in progress; DESIGN.md section 9 gives the build order)")}
      for p in props if p["id"] not in CHECKS]
m = {"version": 1, "setup_cmd": "bin/setup",
     "hooks": {"guard": "GLM_VERIF",
               "enable": "no hooks are needed: every observable is a return value, out-parameter, sizeof or byte image of the public API; the guard GLM_VERIF is reserved and unused",
               "baseline_off_cmd": "cmake --build /repo/_build && ctest --test-dir /repo/_build -j8 --timeout 900",
               "source_commits": [], "add_only": True},
     "engines": ENGINES, "checks": checks, "not_applicable": na, "notes": NOTES}
json.dump(m, open(os.path.join(V, "MANIFEST.json"), "w"), indent=1)
print("MANIFEST.json: %d checks, %d not_applicable" % (len(checks), len(na)))
