#!/usr/bin/env python3
"""bin/check <ID> [--tier quick|thorough] [--replay path]

Exit 0: the property held on everything explored (KNOWN-FINDING lines for listed defects).
Exit 1: `VIOLATION property=<ID> replay=<path>` for every unexplained rejection class.
Exit 2: infrastructure failure (says nothing about the property)."""
import argparse, hashlib, importlib, json, os, re, sys, time, traceback

sys.path.insert(0, os.path.dirname(os.path.abspath(__file__)))
import vlib
from vlib import log


class Ctx:
    def __init__(self, pid, tier):
        self.pid, self.tier = pid, tier
        self.quick = tier == "quick"
        self.t0 = time.time()
        self.scratch = vlib.Scratch(pid)
        self.states = 0
        self.transitions = 0
        self.mc_runs = []
        self.traces = 0
        self.events = 0
        self.evaluations = 0
        self.sweep_inputs = 0
        self.distinct = set()
        self.samples = []
        self.builds = []
        self.rules = []
        self.exhaustive = []
        self.assumptions = []
        self.violations = []       # (description, replay_path)
        self.known_hit = {}
        self.extra = {}
        self.obligations = 0
        self.discharged = 0
        self.known = vlib.load_known()

    # ---------------------------------------------------------------- E1 / E2
    def mc(self, module, cfg=None, workers=None, env=None, timeout=1500, xmx="8g", extra=(), what=""):
        """Model-check a bounded instance of the specification (and possibly emit cases)."""
        t = time.time()
        r = vlib.tlc(module, cfg=cfg, env=env, workers=workers or vlib.NCPU, timeout=timeout, xmx=xmx,
                     extra=extra, scratch=self.scratch)
        if not r.ok:
            raise vlib.Infra("model checking of %s/%s failed (this is a specification-level failure, independent of /repo):\n%s"
                             % (module, cfg, r.tail(60)))
        self.states += r.distinct
        self.transitions += r.generated
        self.mc_runs.append({"module": module, "cfg": cfg or module + ".cfg", "distinct_states": r.distinct,
                             "states_generated": r.generated, "depth": r.depth, "wall_s": round(time.time() - t, 1), "what": what})
        log("[mc] %s %s: %d distinct / %d generated states, %.1fs" % (module, cfg or "", r.distinct, r.generated, time.time() - t))
        return r

    # ---------------------------------------------------------------- E3
    def build(self, name, src, flags=(), cxx="g++", opt="-O1", std="c++17", label=None, must=True):
        t = time.time()
        b, lg = vlib.build(name, src, flags, cxx=cxx, opt=opt, std=std)
        if b is None:
            if must:
                # a harness unit that no longer compiles against the tree: the functions it instantiates
                # no longer "return the specified value" -> reported as a violation with the compiler log
                rp = self.write_replay("compile-%s" % name, [json.dumps({"compile_error": name, "flags": list(flags)})], lg[-6000:])
                self.violation("harness %s does not compile against the working tree (flags %s)" % (src, " ".join(flags)), rp)
            return None
        self.builds.append(label or (name + " " + " ".join(flags)).strip())
        log("[build] %s (%.1fs)" % (label or name, time.time() - t))
        return b

    def run(self, binp, args, timeout=1200, env=None, ok_codes=(0,)):
        t = time.time()
        e = {"VERIF_SEED": str(vlib.SEED), "VERIF_TIER": self.tier}
        e.update(env or {})
        rc, out = vlib.run_bin(binp, args, timeout=timeout, env=e)
        log("[run] %s rc=%d (%.1fs)" % (os.path.basename(binp), rc, time.time() - t))
        return rc, out

    def run_harness(self, binp, args, trace_path, timeout=1200, env=None):
        """Run a harness that writes trace_path.  The harness runs to completion on the unchanged tree, so an abort
        (assertion inside GLM, crash, non-zero exit) on the tree under test is a rejection, not an infrastructure failure."""
        rc, out = self.run(binp, args, timeout=timeout, env=env)
        if rc != 0:
            tail = []
            try:
                with open(trace_path, errors="replace") as f:
                    tail = f.read().splitlines()[-20:]
            except OSError:
                pass
            rp = self.write_replay("harness-abort-" + os.path.basename(binp).split("-")[0], tail, "exit code %d\n%s" % (rc, out[-3000:]))
            self.violation("harness %s aborted with exit code %d while executing GLM calls (it completes on the unchanged tree): %s"
                           % (os.path.basename(binp).split("-")[0], rc, out.strip().splitlines()[-1][:300] if out.strip() else ""), rp)
            return False, out
        return True, out

    # ---------------------------------------------------------------- E4
    def validate(self, trace_module, trace_path, cfg=None, group_marker=None, env=None, label="", jobs=None,
                 count_distinct=True, min_lines=2000, timeout=1500, xmx="3g"):
        t = time.time()
        if count_distinct:
            self._scan(trace_path)
        v = vlib.validate_trace(trace_module, trace_path, self.scratch, cfg=cfg, group_marker=group_marker, env=env,
                                jobs=jobs, min_lines=min_lines, timeout=timeout, xmx=xmx)
        if v.failures:
            # retry once: a TLC hiccup must not become a verdict
            log("[validate] %d chunk(s) failed, retrying once" % len(v.failures))
            v2 = vlib.validate_trace(trace_module, trace_path, self.scratch, cfg=cfg, group_marker=group_marker, env=env,
                                     jobs=jobs, min_lines=min_lines, timeout=timeout, xmx=xmx)
            if v2.failures and v2.resource_failures == len(v2.failures):
                raise vlib.Infra("TLC ran out of time or memory on %d chunk(s) of trace %s (not a verdict): %s" % (len(v2.failures), label, v2.failures[0][1][-300:]))
            if v2.failures:
                p, tail = v2.failures[0]
                with open(p, errors="replace") as f:
                    lines = f.read().splitlines()
                rp = self.write_replay("rejected-" + label, lines[:2000], tail)
                self.violation("trace %s rejected by %s: TLC could not accept it (%s)" % (label, trace_module, tail.splitlines()[-1] if tail else ""), rp)
            v = v2
        self.traces += v.chunks
        self.events += v.events
        self.evaluations += v.events
        self.states += v.states
        self.transitions += v.generated
        for kid, n in v.known.items():
            self.known_hit[kid] = self.known_hit.get(kid, 0) + n
            if kid not in self.known:
                rp = self.write_replay("unlisted-" + kid, [v.known_samples.get(kid, "")], "deviation %s matched but is not listed in known_findings.json" % kid)
                self.violation("deviation %s observed but not listed as a known finding" % kid, rp)
        if v.mismatches:
            real = [m for m in v.mismatches if m]
            if not real:
                rp = self.write_replay("%s-unparsed" % (label or "trace"), [], "TLC counted %d mismatches whose MISMATCH lines could not be parsed" % len(v.mismatches))
                self.violation("%d event(s) rejected by %s in trace %s (mismatch lines unparsed)" % (len(v.mismatches), trace_module, label), rp)
            groups = {}
            for m in real:
                try:
                    op = json.loads(m[2]).get("op", "?")
                except Exception:
                    op = "?"
                groups.setdefault(op, []).append(m)
            for op, ms in groups.items():
                rp = self.write_replay("%s-%s" % (label or "trace", op), [m[2] for m in ms], "\n".join(m[3] for m in ms[:10]))
                self.violation("%d event(s) of op %s rejected by %s (%d mismatches in trace %s); first: %s"
                               % (len(ms), op, trace_module, len(v.mismatches), label, ms[0][3][:300]), rp)
        log("[validate] %s %s: %d events, %d mismatches, known=%s (%.1fs)"
            % (trace_module, label, v.events, len(v.mismatches), dict(v.known), time.time() - t))
        return v

    def _scan(self, path, max_samples=2):
        n = 0
        taken = 0
        with open(path, "rb") as f:
            for ln in f:
                n += 1
                if ln.startswith(b'{"e"'):
                    continue
                i = ln.find(b'"a":')
                key = ln[:i + 400] if i >= 0 else ln
                j = ln.find(b',"r":')
                core = ln[:j] if j >= 0 else ln
                digits = re.sub(rb'[^1-9]', b'', core[i:]) if i >= 0 else b'1'
                if digits:
                    self.distinct.add(hashlib.blake2b(core, digest_size=8).digest())
                if taken < max_samples and (n % 997 == 1 or n < 3):
                    try:
                        self.samples.append(json.loads(ln))
                        taken += 1
                    except Exception:
                        pass
        return n

    # ---------------------------------------------------------------- reporting
    def write_replay(self, tag, event_lines, note=""):
        d = os.path.join(vlib.VERIF, "replays")
        os.makedirs(d, exist_ok=True)
        h = hashlib.sha256(("\n".join(event_lines) + note).encode()).hexdigest()[:10]
        tag = re.sub(r"[^A-Za-z0-9_.-]", "_", tag)[:60]
        p = os.path.join(d, "%s-%s-%s.ndjson" % (self.pid, tag, h))
        with open(p, "w") as f:
            for l in event_lines:
                f.write(l.rstrip("\n") + "\n")
        if note:
            with open(p + ".note.txt", "w") as f:
                f.write(note + "\n")
        return p

    def violation(self, desc, replay):
        self.violations.append((desc, replay))
        print("VIOLATION property=%s replay=%s" % (self.pid, replay), flush=True)
        print("  detail: " + desc.replace("\n", " ")[:600], flush=True)

    def rule(self, text, exhaustive=None):
        self.rules.append(text)
        if exhaustive is not None:
            self.exhaustive.append(bool(exhaustive))

    def add_sample(self, s):
        if len(self.samples) < 12:
            self.samples.append(s)

    def finish(self, level, spec=None):
        for kid, n in sorted(self.known_hit.items()):
            if kid in self.known:
                print("KNOWN-FINDING: property=%s %s [%s, %d event(s) this run]" % (self.pid, self.known[kid]["what"], kid, n), flush=True)
        cov = {
            "states": self.states, "transitions": self.transitions,
            "traces_validated_against_impl": self.traces,
            "events_validated": self.events,
            "evaluations": self.evaluations + self.sweep_inputs,
            "distinct_nontrivial": len(self.distinct) + int(self.extra.get("distinct_extra", 0)),
            "rule": " | ".join(self.rules) + " | distinct_nontrivial = number of distinct (op, type, shape, argument words) event inputs with at least one non-zero argument limb, counted by hashing the trace lines"
                    + (" plus the sweep inputs counted by the sweeper" if self.extra.get("distinct_extra") else ""),
            "samples": self.samples[:12] or [{"note": "no event sampled"}],
            "exhaustive": bool(self.exhaustive) and all(self.exhaustive),
            "mc_runs": self.mc_runs, "builds": self.builds,
            "known_findings_hit": self.known_hit,
        }
        if self.obligations:
            cov["obligations"] = self.obligations
            cov["discharged"] = self.discharged
        for k, v in self.extra.items():
            if k != "distinct_extra":
                cov[k] = v
        ev = {"property_id": self.pid, "tier": self.tier, "seed": vlib.SEED, "level": level, "coverage": cov,
              "assumptions": self.assumptions, "wall_s": round(time.time() - self.t0, 1), "violations": len(self.violations)}
        # evidence is only ever written from runs against /repo itself; binding demonstrations on scratch copies go elsewhere
        # (stages that are not properties of properties.jsonl - the X.. extension stages run on their own - never write into evidence/)
        is_prop = bool(re.match(r"^C\d\d$", self.pid))
        evdir = os.path.join(vlib.VERIF, "evidence" if os.path.realpath(vlib.REPO) == "/repo" and is_prop else ".cache/evidence-scratch")
        os.makedirs(evdir, exist_ok=True)
        with open(os.path.join(evdir, self.pid + ".json"), "w") as f:
            json.dump(ev, f, indent=1, default=str)
        self.scratch.cleanup()
        return 1 if self.violations else 0


def main():
    ap = argparse.ArgumentParser()
    ap.add_argument("pid")
    ap.add_argument("--tier", default=os.environ.get("VERIF_TIER", "quick"), choices=["quick", "thorough"])
    ap.add_argument("--replay", default=None)
    a = ap.parse_args()
    os.chdir(vlib.VERIF)
    mod = importlib.import_module("props." + a.pid.lower())
    ctx = Ctx(a.pid, a.tier)
    try:
        if a.replay:
            rc = mod.replay(ctx, a.replay) if hasattr(mod, "replay") else generic_replay(ctx, mod, a.replay)
            ctx.scratch.cleanup()
            sys.exit(rc)
        mod.run(ctx)
        rc = ctx.finish(getattr(mod, "LEVEL", "model_checking"))
        log("[done] %s tier=%s violations=%d wall=%.1fs" % (a.pid, a.tier, len(ctx.violations), time.time() - ctx.t0))
        sys.exit(rc)
    except vlib.Infra as e:
        log("INFRASTRUCTURE FAILURE: %s" % e)
        ctx.scratch.cleanup()
        sys.exit(2)
    except Exception:
        traceback.print_exc()
        ctx.scratch.cleanup()
        sys.exit(2)


def generic_replay(ctx, mod, path):
    """Re-validate the recorded events of a replay file against the trace specification."""
    tm = getattr(mod, "TRACE_MODULE", None)
    if not tm:
        log("no trace module for replay")
        return 2
    v = ctx.validate(tm, path, cfg=getattr(mod, "TRACE_CFG", None), label="replay", count_distinct=False, min_lines=10 ** 9)
    return 1 if ctx.violations else 0


if __name__ == "__main__":
    main()
