#include <glm/glm.hpp>
#include <glm/gtc/type_aligned.hpp>
#include <cstdio>
int main(){ glm::aligned_mat3 a(1,2,3,4,5,6,7,8,9); glm::packed_mat3 p(a); for(int c=0;c<3;++c) printf("%g %g %g | ", p[c][0],p[c][1],p[c][2]); printf("\n");
 glm::aligned_vec3 v(1,2,3); glm::packed_vec3 q(v); printf("%g %g %g\n", q.x,q.y,q.z);
 glm::packed_mat3 b(1,2,3,4,5,6,7,8,9); glm::aligned_mat3 c(b); for(int i=0;i<3;++i) printf("%g %g %g | ", c[i][0],c[i][1],c[i][2]); printf("\n"); }
