// C05 harness: GLSL integer / bitfield functions, scalar and vector overloads, every accepted width.
// argv: <trace-out> <pairs-file> <mode>   mode = quick | thorough
#include "common.hpp"
#include <glm/integer.hpp>
#include <fstream>
#include <map>
using namespace vh;

static std::map<int, std::vector<std::pair<int, int>>> g_pairs;   // W -> documented (offset, bits) domain, from the spec
static bool g_thorough = false;

template<class T> constexpr bool small_type() { return sizeof(T) < 4; }

// ------------------------------------------------------------ unary
template<class T> void unary_scalar(uint64_t b) {
    T x = from_bits<T>(b);
    { int r = glm::bitCount(x); Ev("bitCount").str("t", TI<T>::code()).num("n", 0).arg(x).res(r).emit(); }
    { int r = glm::findLSB(x);  Ev("findLSB").str("t", TI<T>::code()).num("n", 0).arg(x).res(r).emit(); }
    { int r = glm::findMSB(x);  Ev("findMSB").str("t", TI<T>::code()).num("n", 0).arg(x).res(r).emit(); }
    if constexpr (!small_type<T>()) { T r = glm::bitfieldReverse(x); Ev("bitfieldReverse").str("t", TI<T>::code()).num("n", 0).arg(x).res(r).emit(); }
}
template<int L, class T, glm::qualifier Q> glm::vec<L, T, Q> mkvec(const uint64_t* b) {
    glm::vec<L, T, Q> v;
    for (int i = 0; i < L; ++i) v[i] = from_bits<T>(b[i]);
    return v;
}
template<int L, class T, glm::qualifier Q> void unary_vec(const uint64_t* b) {
    glm::vec<L, T, Q> x = mkvec<L, T, Q>(b);
    { glm::vec<L, int, Q> r = glm::bitCount(x); Ev("bitCount").str("t", TI<T>::code()).num("n", L).arg(x).res(r).emit(); }
    { glm::vec<L, int, Q> r = glm::findLSB(x);  Ev("findLSB").str("t", TI<T>::code()).num("n", L).arg(x).res(r).emit(); }
    { glm::vec<L, int, Q> r = glm::findMSB(x);  Ev("findMSB").str("t", TI<T>::code()).num("n", L).arg(x).res(r).emit(); }
    if constexpr (!small_type<T>()) { glm::vec<L, T, Q> r = glm::bitfieldReverse(x); Ev("bitfieldReverse").str("t", TI<T>::code()).num("n", L).arg(x).res(r).emit(); }
}

// ------------------------------------------------------------ extract / insert
template<class T> void extract_scalar(uint64_t b, int off, int n) {
    T x = from_bits<T>(b);
    T r = glm::bitfieldExtract(x, off, n);
    Ev("bitfieldExtract").str("t", TI<T>::code()).num("n", 0).arg(x).arg(off).arg(n).res(r).emit();
}
template<int L, class T, glm::qualifier Q> void extract_vec(const uint64_t* b, int off, int n) {
    glm::vec<L, T, Q> x = mkvec<L, T, Q>(b);
    glm::vec<L, T, Q> r = glm::bitfieldExtract(x, off, n);
    Ev("bitfieldExtract").str("t", TI<T>::code()).num("n", L).arg(x).arg(off).arg(n).res(r).emit();
}
template<class T> void insert_scalar(uint64_t b, uint64_t i, int off, int n) {
    if constexpr (!small_type<T>()) {
        T x = from_bits<T>(b), y = from_bits<T>(i);
        T r = glm::bitfieldInsert(x, y, off, n);
        Ev("bitfieldInsert").str("t", TI<T>::code()).num("n", 0).arg(x).arg(y).arg(off).arg(n).res(r).emit();
    }
}
template<int L, class T, glm::qualifier Q> void insert_vec(const uint64_t* b, const uint64_t* i, int off, int n) {
    if constexpr (!small_type<T>()) {
        glm::vec<L, T, Q> x = mkvec<L, T, Q>(b), y = mkvec<L, T, Q>(i);
        glm::vec<L, T, Q> r = glm::bitfieldInsert(x, y, off, n);
        Ev("bitfieldInsert").str("t", TI<T>::code()).num("n", L).arg(x).arg(y).arg(off).arg(n).res(r).emit();
    }
}

// ------------------------------------------------------------ carry family (32-bit only, as in GLSL)
static void carry_scalar(uint32_t xb, uint32_t yb) {
    glm::uint x = xb, y = yb;
    { glm::uint c = 0xdeadbeefu; glm::uint r = glm::uaddCarry(x, y, c); Ev("uaddCarry").str("t", "u32").num("n", 0).arg(x).arg(y).res(r).val("c", c).emit(); }
    { glm::uint c = 0xdeadbeefu; glm::uint r = glm::usubBorrow(x, y, c); Ev("usubBorrow").str("t", "u32").num("n", 0).arg(x).arg(y).res(r).val("c", c).emit(); }
    { glm::uint m = 0xdeadbeefu, l = 0xdeadbeefu; glm::umulExtended(x, y, m, l); Ev("umulExtended").str("t", "u32").num("n", 0).arg(x).arg(y).val("msb", m).val("lsb", l).emit(); }
    { int xi = from_bits<int>(xb), yi = from_bits<int>(yb); int m = 0x5eadbeef, l = 0x5eadbeef; glm::imulExtended(xi, yi, m, l);
      Ev("imulExtended").str("t", "i32").num("n", 0).arg(xi).arg(yi).val("msb", m).val("lsb", l).emit(); }
}
template<int L, glm::qualifier Q> void carry_vec(const uint64_t* xb, const uint64_t* yb) {
    glm::vec<L, glm::uint, Q> x = mkvec<L, glm::uint, Q>(xb), y = mkvec<L, glm::uint, Q>(yb);
    { glm::vec<L, glm::uint, Q> c(0xdeadbeefu); auto r = glm::uaddCarry(x, y, c); Ev("uaddCarry").str("t", "u32").num("n", L).arg(x).arg(y).res(r).val("c", c).emit(); }
    { glm::vec<L, glm::uint, Q> c(0xdeadbeefu); auto r = glm::usubBorrow(x, y, c); Ev("usubBorrow").str("t", "u32").num("n", L).arg(x).arg(y).res(r).val("c", c).emit(); }
    { glm::vec<L, glm::uint, Q> m(0xdeadbeefu), l(0xdeadbeefu); glm::umulExtended(x, y, m, l); Ev("umulExtended").str("t", "u32").num("n", L).arg(x).arg(y).val("msb", m).val("lsb", l).emit(); }
    { glm::vec<L, int, Q> xi = mkvec<L, int, Q>(xb), yi = mkvec<L, int, Q>(yb); glm::vec<L, int, Q> m(0x5eadbeef), l(0x5eadbeef); glm::imulExtended(xi, yi, m, l);
      Ev("imulExtended").str("t", "i32").num("n", L).arg(xi).arg(yi).val("msb", m).val("lsb", l).emit(); }
}

// ------------------------------------------------------------ drivers
template<class T> std::vector<uint64_t> values(Rng& rng) {
    constexpr int W = int(sizeof(T) * 8);
    std::vector<uint64_t> v;
    if (W == 8 || (W == 16 && g_thorough)) { for (uint64_t x = 0; x < (1ull << W); ++x) v.push_back(x); return v; }
    v = int_lattice<T>();
    const uint64_t M = W == 64 ? ~0ull : ((1ull << W) - 1);
    size_t extra = g_thorough ? 20000 : (W == 16 ? 1500 : 1200);
    for (size_t i = 0; i < extra; ++i) {
        uint64_t r = rng.next();
        switch (i % 4) { case 1: r &= rng.next(); break; case 2: r |= rng.next(); break; case 3: r >>= rng.below(W); break; default: break; }
        v.push_back(r & M);
    }
    return v;
}

template<class T, glm::qualifier Q> void vec_unary_all(const std::vector<uint64_t>& v) {
    // consecutive windows so that all components of one call differ and every value visits every position
    size_t n = v.size();
    for (size_t i = 0; i + 1 <= n; i += 1) { uint64_t b[4] = { v[i % n], v[(i + 1) % n], v[(i + 2) % n], v[(i + 3) % n] };
        switch (i % 4) { case 0: unary_vec<1, T, Q>(b); break; case 1: unary_vec<2, T, Q>(b); break; case 2: unary_vec<3, T, Q>(b); break; default: unary_vec<4, T, Q>(b); } }
}

template<class T> void drive_type(Rng& rng) {
    constexpr int W = int(sizeof(T) * 8);
    std::vector<uint64_t> v = values<T>(rng);
    for (uint64_t x : v) unary_scalar<T>(x);
    vec_unary_all<T, glm::defaultp>(v);
    {   // other qualifiers share the code paths; a thinner pass keeps every (L, qualifier) instantiation exercised
        std::vector<uint64_t> thin; for (size_t i = 0; i < v.size(); i += (g_thorough ? 3 : 17)) thin.push_back(v[i]);
        vec_unary_all<T, glm::mediump>(thin); vec_unary_all<T, glm::lowp>(thin);
    }
    // extract / insert over the documented (offset, bits) domain taken from the specification
    const auto& pairs = g_pairs[W];
    std::vector<uint64_t> ev = v;
    size_t cap = g_thorough ? (W == 8 ? 256 : 400) : (W == 8 ? 256 : 24);
    if (ev.size() > cap) { std::vector<uint64_t> t; size_t step = ev.size() / cap; for (size_t i = 0; i < ev.size() && t.size() < cap; i += step) t.push_back(ev[i]); ev = t;
        ev.push_back(0); ev.push_back(~0ull); ev.push_back(0xAAAAAAAAAAAAAAAAull); ev.push_back(0x5555555555555555ull); ev.push_back(1ull << (W - 1)); ev.push_back((1ull << (W - 1)) - 1); }
    size_t pi = 0;
    for (uint64_t x : ev) {
        size_t stride = (W <= 8 || g_thorough) ? 1 : (W == 16 ? 3 : 7);
        for (size_t k = (pi++) % stride; k < pairs.size(); k += stride) {
            int off = pairs[k].first, n = pairs[k].second;
            extract_scalar<T>(x, off, n);
            uint64_t b[4] = { x, ~x, x * 0x9E3779B97F4A7C15ull, x ^ 0x5555555555555555ull };
            uint64_t ins[4] = { ~x, x * 0xBF58476D1CE4E5B9ull, 0xffffffffffffffffull, x };
            switch (k % 4) { case 0: extract_vec<1, T, glm::defaultp>(b, off, n); break; case 1: extract_vec<2, T, glm::mediump>(b, off, n); break;
                             case 2: extract_vec<3, T, glm::lowp>(b, off, n); break; default: extract_vec<4, T, glm::defaultp>(b, off, n); }
            insert_scalar<T>(x, ins[k % 4], off, n);
            switch (k % 4) { case 0: insert_vec<4, T, glm::defaultp>(b, ins, off, n); break; case 1: insert_vec<3, T, glm::mediump>(b, ins, off, n); break;
                             case 2: insert_vec<2, T, glm::lowp>(b, ins, off, n); break; default: insert_vec<1, T, glm::defaultp>(b, ins, off, n); }
        }
    }
}

static void drive_carry(Rng& rng) {
    std::vector<uint64_t> lat = int_lattice<unsigned int>();
    std::vector<uint64_t> v;
    size_t step = g_thorough ? 1 : 3;
    for (size_t i = 0; i < lat.size(); i += step) v.push_back(lat[i]);
    v.push_back(16); v.push_back(17); v.push_back(0xffffffffu); v.push_back(0x80000000u); v.push_back(0x7fffffffu); v.push_back(0x10000u); v.push_back(0xffffu);
    for (uint64_t x : v) for (uint64_t y : v) carry_scalar(uint32_t(x), uint32_t(y));
    size_t nr = g_thorough ? 60000 : 6000;
    for (size_t i = 0; i < nr; ++i) { uint64_t a = rng.next(), b = rng.next(); if (i % 3 == 0) b = a + (rng.below(5)) - 2; if (i % 7 == 0) { a >>= rng.below(32); b >>= rng.below(32); } carry_scalar(uint32_t(a), uint32_t(b)); }
    size_t n = v.size();
    for (size_t i = 0; i < n; ++i) for (size_t j = 0; j < n; j += (g_thorough ? 1 : 5)) {
        uint64_t xb[4] = { v[i], v[(i + 1) % n], v[(i + 2) % n], v[(i + 3) % n] }, yb[4] = { v[j], v[(j + 5) % n], v[(j + 3) % n], v[(j + 7) % n] };
        switch ((i + j) % 6) { case 0: carry_vec<1, glm::defaultp>(xb, yb); break; case 1: carry_vec<2, glm::defaultp>(xb, yb); break; case 2: carry_vec<3, glm::defaultp>(xb, yb); break;
                               case 3: carry_vec<4, glm::defaultp>(xb, yb); break; case 4: carry_vec<3, glm::mediump>(xb, yb); break; default: carry_vec<4, glm::lowp>(xb, yb); }
    }
}

static void body(int argc, char** argv) {
    if (argc < 4) { std::fprintf(stderr, "usage: c05 <out> <pairs> <mode>\n"); std::exit(2); }
    { std::ifstream in(argv[2]); int W, off, n; while (in >> W >> off >> n) g_pairs[W].push_back({ off, n }); }
    if (g_pairs[8].empty() || g_pairs[64].empty()) { std::fprintf(stderr, "pairs file empty\n"); std::exit(2); }
    g_thorough = std::string(argv[3]) == "thorough";
    Rng rng(seed_from_env());
    drive_type<unsigned char>(rng);  drive_type<signed char>(rng);
    drive_type<unsigned short>(rng); drive_type<short>(rng);
    drive_type<unsigned int>(rng);   drive_type<int>(rng);
    drive_type<unsigned long>(rng);  drive_type<long>(rng);
    drive_carry(rng);
}
int main(int argc, char** argv) { return run_main(argc, argv, body); }
