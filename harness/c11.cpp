// C11 harness: scalar common functions (float and double), integer abs/sign/min/max/clamp, texture wraps, iround/uround, constants.
//   c11 <trace-out> <mode>
#define VH_NO_EXT_ALL   // glm/ext.hpp also pulls gtx/extended_min_max, whose min/max(a,b,c) are ambiguous with ext/scalar_common
#include "common.hpp"
#include <glm/gtc/constants.hpp>
#include <glm/ext/scalar_common.hpp>
#include <glm/ext/vector_common.hpp>
#include <glm/ext/scalar_constants.hpp>
using namespace vh;
static bool g_thorough = false;
#define EV(OP, T) Ev(OP).str("t", TI<T>::code()).num("n", 0)

template<class T> std::vector<uint64_t> unary_lattice(Rng& rng) {
    constexpr int W = int(sizeof(T) * 8); constexpr int MB = W == 32 ? 23 : 52; const uint64_t SIGN = 1ull << (W - 1);
    const uint64_t EMAX = (W == 32 ? 0xFFull : 0x7FFull), BIAS = (W == 32 ? 127 : 1023), MM = (1ull << MB) - 1;
    std::vector<uint64_t> v;
    auto add = [&](uint64_t p) { v.push_back(p); v.push_back(p | SIGN); };
    for (uint64_t e = 0; e <= EMAX; ++e) {
        bool near = (e + 3 >= BIAS && e <= BIAS + uint64_t(MB) + 12) || e < 3 || e + 2 >= EMAX;
        if (!near && !g_thorough && (e % (W == 32 ? 5 : 37)) != 0) continue;
        uint64_t base = e << MB;
        for (uint64_t m : { uint64_t(0), uint64_t(1), MM, uint64_t(1) << (MB - 1), (uint64_t(1) << (MB - 1)) + 1, (uint64_t(1) << (MB - 1)) - 1, (uint64_t(3) << (MB - 2)), rng.next() & MM }) { if (!g_thorough && !near && m != 0 && m != MM) continue; add(base | m); }
        // around the binade's "one half" and "integer" bit positions: patterns k + 1/2 - ulp, k + 1/2, k + 1/2 + ulp, odd/even k
        if (e >= BIAS - 1 && e <= BIAS + uint64_t(MB)) {
            int fbits = int(MB) - int(e - BIAS);           // number of fraction bits in this binade (may be MB+1 for e = BIAS-1)
            for (uint64_t k : { uint64_t(0), uint64_t(1), uint64_t(2), uint64_t(3), uint64_t(6), rng.below(1000) }) {
                if (fbits <= 0 || fbits > int(MB)) continue;
                uint64_t ip = (k << fbits) & MM, half = fbits >= 1 ? (uint64_t(1) << (fbits - 1)) : 0;
                for (uint64_t m : { ip, ip | half, (ip | half) + 1, (ip | half) - 1, ip + 1, (ip + (uint64_t(1) << fbits) - 1) & MM }) add(base | (m & MM));
            }
        }
    }
    for (int i = 0; i < (g_thorough ? 40000 : 600); ++i) { uint64_t r = rng.next(); if (W == 32) r &= 0xFFFFFFFFull; add(r & ~SIGN); }
    for (int i = 0; i < (g_thorough ? 40000 : 1200); ++i) {   // moderate magnitudes with few fraction bits: ties and near-ties
        uint64_t e = BIAS - 2 + rng.below(uint64_t(MB) + 4), m = rng.next() & MM; int keep = int(rng.below(uint64_t(MB) + 1)); m &= ~((uint64_t(1) << (MB - keep)) - 1) & MM; add((e << MB) | m);
    }
    return v;
}

template<class T> void unary(uint64_t b) {
    T x = from_bits<T>(b);
    { T r = glm::floor(x);     EV("floor", T).arg(x).res(r).emit(); }
    { T r = glm::ceil(x);      EV("ceil", T).arg(x).res(r).emit(); }
    { T r = glm::trunc(x);     EV("trunc", T).arg(x).res(r).emit(); }
    { T r = glm::round(x);     EV("round", T).arg(x).res(r).emit(); }
    { T r = glm::roundEven(x); EV("roundEven", T).arg(x).res(r).emit(); }
    { T r = glm::fract(x);     EV("fract", T).arg(x).res(r).emit(); }
    { T r = glm::abs(x);       EV("abs", T).arg(x).res(r).emit(); }
    { T r = glm::sign(x);      EV("sign", T).arg(x).res(r).emit(); }
    { bool r = glm::isnan(x);  EV("isnan", T).arg(x).res(r).emit(); }
    { bool r = glm::isinf(x);  EV("isinf", T).arg(x).res(r).emit(); }
    { int e = 12345; T r = glm::frexp(x, e); EV("frexp", T).arg(x).res(r).val("e", e).emit(); }
    { T i = T(77); T r = glm::modf(x, i); EV("modf", T).arg(x).res(r).val("i", i).emit(); }
    { T r = glm::clamp(x);        EV("texClamp", T).arg(x).res(r).emit(); }
    { T r = glm::repeat(x);       EV("texRepeat", T).arg(x).res(r).emit(); }
    { T r = glm::mirrorClamp(x);  EV("texMirrorClamp", T).arg(x).res(r).emit(); }
    { T r = glm::mirrorRepeat(x); EV("texMirrorRepeat", T).arg(x).res(r).emit(); }
    if (x >= T(0) && x < T(2147483000.0)) { int r = glm::iround(x); EV("iround", T).arg(x).res(r).emit(); }
    if (x >= T(0) && x < T(4294967000.0)) { glm::uint r = glm::uround(x); EV("uround", T).arg(x).res(r).emit(); }
    { static unsigned c = 0; ++c;
      if ((c % 3) == 0 || g_thorough) for (int e : { 1, -30, 127, -149 }) { if (!g_thorough && ((c + unsigned(e)) % 2)) continue; T r = glm::ldexp(x, e); EV("ldexp", T).arg(x).arg(e).res(r).emit(); }
      if ((c % 40) == 0) for (int e : { 300, -1080 }) { T r = glm::ldexp(x, e); EV("ldexp", T).arg(x).arg(e).res(r).emit(); } }
}
static void bitcasts(uint32_t b) {
    float f = from_bits<float>(b); int i = from_bits<int>(b); glm::uint u = b;
    { int r = glm::floatBitsToInt(f);        EV("floatBitsToInt", float).arg(f).res(r).emit(); }
    { glm::uint r = glm::floatBitsToUint(f); EV("floatBitsToUint", float).arg(f).res(r).emit(); }
    { float r = glm::intBitsToFloat(i);      EV("intBitsToFloat", float).arg(i).res(r).emit(); }
    { float r = glm::uintBitsToFloat(u);     EV("uintBitsToFloat", float).arg(u).res(r).emit(); }
    glm::vec3 fv(f, from_bits<float>(b ^ 0x80000000u), from_bits<float>(b + 1)); glm::ivec3 iv(i, i ^ 0x40000000, from_bits<int>(uint32_t(b) + 1u)); glm::uvec3 uv(u, ~u, u + 1);
    { glm::ivec3 r = glm::floatBitsToInt(fv);  EV("floatBitsToInt", float).num("L", 3).arg(fv).res(r).emit(); }
    { glm::uvec3 r = glm::floatBitsToUint(fv); EV("floatBitsToUint", float).num("L", 3).arg(fv).res(r).emit(); }
    { glm::vec3 r = glm::intBitsToFloat(iv);   EV("intBitsToFloat", float).num("L", 3).arg(iv).res(r).emit(); }
    { glm::vec3 r = glm::uintBitsToFloat(uv);  EV("uintBitsToFloat", float).num("L", 3).arg(uv).res(r).emit(); }
}

template<class T> std::vector<uint64_t> nary_lattice() {
    std::vector<uint64_t> v;
    for (double d : { 0.0, -0.0, 1.0, -1.0, 0.5, -0.5, 0.25, 0.75, 1.5, -1.5, 2.0, 3.0, -3.0, 2.5, -2.5, 7.0, 10.0, -10.0, 0.1, -0.1, 0.3, 1e-3, 100.0, 1e6, -1e6, 16777216.0, 16777217.0, 1e10, -1e10, 1e30, 3.999999 }) v.push_back(to_bits(T(d)));
    constexpr int W = int(sizeof(T) * 8); const uint64_t SIGN = 1ull << (W - 1);
    const uint64_t inf = W == 32 ? 0x7F800000ull : 0x7FF0000000000000ull, nan = W == 32 ? 0x7FC00000ull : 0x7FF8000000000000ull, minsub = 1, minnorm = W == 32 ? 0x00800000ull : 0x0010000000000000ull, maxf = inf - 1;
    for (uint64_t p : { inf, nan, minsub, minnorm, maxf }) { v.push_back(p); v.push_back(p | SIGN); }
    return v;
}

template<class T> void binary(uint64_t xb, uint64_t yb) {
    T x = from_bits<T>(xb), y = from_bits<T>(yb);
    { T r = glm::min(x, y);  EV("min", T).arg(x).arg(y).res(r).emit(); }
    { T r = glm::max(x, y);  EV("max", T).arg(x).arg(y).res(r).emit(); }
    { T r = glm::fmin(x, y); EV("fmin", T).arg(x).arg(y).res(r).emit(); }
    { T r = glm::fmax(x, y); EV("fmax", T).arg(x).arg(y).res(r).emit(); }
    { T r = glm::step(x, y); EV("step", T).arg(x).arg(y).res(r).emit(); }
    { T r = glm::mod(x, y);  EV("mod", T).arg(x).arg(y).res(r).emit(); }
    { T r = glm::mix(x, y, true);  EV("mixb", T).arg(x).arg(y).arg(true).res(r).emit(); }
    { T r = glm::mix(x, y, false); EV("mixb", T).arg(x).arg(y).arg(false).res(r).emit(); }
}
template<class T> void ternary(uint64_t xb, uint64_t yb, uint64_t zb) {
    T x = from_bits<T>(xb), y = from_bits<T>(yb), z = from_bits<T>(zb);
    { T r = glm::clamp(x, y, z);      EV("clamp", T).arg(x).arg(y).arg(z).res(r).emit(); }
    { T r = glm::fclamp(x, y, z);     EV("fclamp", T).arg(x).arg(y).arg(z).res(r).emit(); }
    { T r = glm::mix(x, y, z);        EV("mix", T).arg(x).arg(y).arg(z).res(r).emit(); }
    { T r = glm::smoothstep(x, y, z); EV("smoothstep", T).arg(x).arg(y).arg(z).res(r).emit(); }
    { T r = glm::fma(x, y, z);        EV("fma", T).arg(x).arg(y).arg(z).res(r).emit(); }
    { T r = glm::min(x, y, z);  EV("min", T).arg(x).arg(y).arg(z).res(r).emit(); }
    { T r = glm::max(x, y, z);  EV("max", T).arg(x).arg(y).arg(z).res(r).emit(); }
    { T r = glm::fmin(x, y, z); EV("fmin", T).arg(x).arg(y).arg(z).res(r).emit(); }
    { T r = glm::fmax(x, y, z); EV("fmax", T).arg(x).arg(y).arg(z).res(r).emit(); }
}
template<class T> void quaternary(uint64_t xb, uint64_t yb, uint64_t zb, uint64_t wb) {
    T x = from_bits<T>(xb), y = from_bits<T>(yb), z = from_bits<T>(zb), w = from_bits<T>(wb);
    { T r = glm::min(x, y, z, w);  EV("min", T).arg(x).arg(y).arg(z).arg(w).res(r).emit(); }
    { T r = glm::max(x, y, z, w);  EV("max", T).arg(x).arg(y).arg(z).arg(w).res(r).emit(); }
    { T r = glm::fmin(x, y, z, w); EV("fmin", T).arg(x).arg(y).arg(z).arg(w).res(r).emit(); }
    { T r = glm::fmax(x, y, z, w); EV("fmax", T).arg(x).arg(y).arg(z).arg(w).res(r).emit(); }
}

// The vector overloads have their own bodies (compute_step_vector, compute_clamp_vector, functor1 ...): the same per-value definitions
// apply to every component.  Each component of a vector call is logged as one event of the scalar operation, judged by the same rule.
template<class T> void vector_pass(std::vector<uint64_t> const& U, std::vector<uint64_t> const& N) {
    typedef glm::vec<4, T, glm::defaultp> V4; typedef glm::vec<3, T, glm::mediump> V3; typedef glm::vec<2, T, glm::lowp> V2;
    auto mk4 = [](std::vector<uint64_t> const& S, size_t k) { V4 v; for (int i = 0; i < 4; ++i) v[i] = from_bits<T>(S[(k + size_t(i)) % S.size()]); return v; };
#define VU(NAME) { auto r = glm::NAME(x); for (int i = 0; i < 4; ++i) EV(#NAME, T).arg(x[i]).res(r[i]).emit(); auto r3 = glm::NAME(x3); for (int i = 0; i < 3; ++i) EV(#NAME, T).arg(x3[i]).res(r3[i]).emit(); }
    for (size_t k = 0; k < U.size(); k += (g_thorough ? 16 : 96)) { V4 x = mk4(U, k); V3 x3(x.y, x.z, x.w);
        VU(floor) VU(ceil) VU(trunc) VU(round) VU(roundEven) VU(fract) VU(abs) VU(sign) VU(isnan) VU(isinf) }
#undef VU
#define VB(NAME) { auto r = glm::NAME(x, y); for (int i = 0; i < 4; ++i) EV(#NAME, T).arg(x[i]).arg(y[i]).res(r[i]).emit(); }
#define VBS(NAME) { T sc = y[1]; auto r = glm::NAME(x, sc); for (int i = 0; i < 4; ++i) EV(#NAME, T).arg(x[i]).arg(sc).res(r[i]).emit(); }
#define VT(NAME) { auto r = glm::NAME(x, y, z); for (int i = 0; i < 4; ++i) EV(#NAME, T).arg(x[i]).arg(y[i]).arg(z[i]).res(r[i]).emit(); }
    size_t n = N.size();
    for (size_t i = 0; i < n; ++i) for (size_t j = i % 3; j < n; j += (g_thorough ? 1 : 3)) { V4 x = mk4(N, i), y = mk4(N, j);
        VB(min) VB(max) VB(fmin) VB(fmax) VB(step) VB(mod) VBS(min) VBS(max) VBS(fmin) VBS(fmax) VBS(mod)
        { T e = x[2]; auto r = glm::step(e, y); for (int c = 0; c < 4; ++c) EV("step", T).arg(e).arg(y[c]).res(r[c]).emit(); }
        { glm::vec<4, bool, glm::defaultp> m((i & 1) != 0, (j & 1) != 0, (i & 2) != 0, (j & 2) != 0); auto r = glm::mix(x, y, m); for (int c = 0; c < 4; ++c) { bool mc = m[c]; EV("mixb", T).arg(x[c]).arg(y[c]).arg(mc).res(r[c]).emit(); } }
        if ((i + j) % (g_thorough ? 2 : 5) == 0) { V4 z = mk4(N, (i * 5 + j * 3 + 1) % n);
            VT(clamp) VT(fclamp) VT(mix) VT(smoothstep) VT(fma)
            { T lo = y[0], hi = z[0]; auto r = glm::clamp(x, lo, hi); for (int c = 0; c < 4; ++c) EV("clamp", T).arg(x[c]).arg(lo).arg(hi).res(r[c]).emit(); }
            { T a = z[3]; auto r = glm::mix(x, y, a); for (int c = 0; c < 4; ++c) EV("mix", T).arg(x[c]).arg(y[c]).arg(a).res(r[c]).emit(); }
            { T e0 = x[1], e1 = y[2]; auto r = glm::smoothstep(e0, e1, z); for (int c = 0; c < 4; ++c) EV("smoothstep", T).arg(e0).arg(e1).arg(z[c]).res(r[c]).emit(); }
            { V2 a2(x.x, x.y), b2(y.x, y.y), c2(z.x, z.y); auto r = glm::clamp(a2, b2, c2); for (int c = 0; c < 2; ++c) EV("clamp", T).arg(a2[c]).arg(b2[c]).arg(c2[c]).res(r[c]).emit(); } } }
#undef VB
#undef VBS
#undef VT
}

template<class T> void int_common(Rng& rng) {
    constexpr int W = int(sizeof(T) * 8);
    std::vector<uint64_t> v;
    if (W == 8) for (uint64_t x = 0; x < 256; ++x) v.push_back(x); else { v = int_lattice<T>(); for (int i = 0; i < 300; ++i) v.push_back(rng.next()); }
    const uint64_t MINV = 1ull << (W - 1);
    for (uint64_t b : v) {
        T x = from_bits<T>(b);
        if ((b & (W == 64 ? ~0ull : ((1ull << W) - 1))) != MINV) { T r = glm::abs(x); EV("abs", T).arg(x).res(r).emit(); }   // abs(MIN) is not representable: outside the domain (C20)
        { T r = glm::sign(x); EV("sign", T).arg(x).res(r).emit(); }
    }
    std::vector<uint64_t> s; for (size_t i = 0; i < v.size(); i += (v.size() / 24 + 1)) s.push_back(v[i]); s.push_back(0); s.push_back(MINV); s.push_back(MINV - 1); s.push_back(~0ull);
    for (uint64_t a : s) for (uint64_t b : s) { T x = from_bits<T>(a), y = from_bits<T>(b);
        { T r = glm::min(x, y); EV("min", T).arg(x).arg(y).res(r).emit(); } { T r = glm::max(x, y); EV("max", T).arg(x).arg(y).res(r).emit(); }
        for (size_t k = 0; k < s.size(); k += 5) { T z = from_bits<T>(s[k]); if (!(y <= z)) continue; T r = glm::clamp(x, y, z); EV("clamp", T).arg(x).arg(y).arg(z).res(r).emit(); } }
}

template<class T> void constants() {
#define C(NAME) { T r = glm::NAME<T>(); EV("const", T).str("name", #NAME).res(r).emit(); }
    C(epsilon) C(pi) C(cos_one_over_two) C(zero) C(one) C(two_pi) C(tau) C(root_pi) C(half_pi) C(three_over_two_pi) C(quarter_pi) C(one_over_pi) C(one_over_two_pi)
    C(two_over_pi) C(four_over_pi) C(two_over_root_pi) C(one_over_root_two) C(root_half_pi) C(root_two_pi) C(root_ln_four) C(e) C(euler) C(root_two) C(root_three)
    C(root_five) C(ln_two) C(ln_ten) C(ln_ln_two) C(third) C(two_thirds) C(golden_ratio)
#undef C
}

template<class T> void drive(Rng& rng) {
    std::vector<uint64_t> U = unary_lattice<T>(rng);
    for (uint64_t b : U) unary<T>(b);
    std::vector<uint64_t> N = nary_lattice<T>();
    for (size_t i = 0; i < N.size(); ++i) for (size_t j = (g_thorough ? 0 : i % 2); j < N.size(); j += (g_thorough ? 1 : 2)) binary<T>(N[i], N[j]);
    size_t n = N.size();
    { size_t sj = g_thorough ? 1 : 3, sk = g_thorough ? 2 : 7; for (size_t i = 0; i < n; ++i) for (size_t j = i % sj; j < n; j += sj) for (size_t k = (i + j) % sk; k < n; k += sk) ternary<T>(N[i], N[j], N[k]); }
    { size_t sj = g_thorough ? 2 : 5, sk = g_thorough ? 3 : 9; for (size_t i = 0; i < n; ++i) for (size_t j = i % sj; j < n; j += sj) for (size_t k = (i + j) % sk; k < n; k += sk) quaternary<T>(N[i], N[j], N[k], N[(i * 7 + j * 3 + k) % n]); }
    // random moderate operands for the composite formulas (mod, mix, smoothstep, fma, clamp)
    constexpr int W = int(sizeof(T) * 8); constexpr int MB = W == 32 ? 23 : 52; const uint64_t BIAS = (W == 32 ? 127 : 1023), MM = (1ull << MB) - 1, SIGN = 1ull << (W - 1);
    auto rnd = [&]() { uint64_t e = BIAS - 6 + rng.below(14); uint64_t m = rng.next() & MM; if (rng.below(3) == 0) m &= ~((uint64_t(1) << (MB - 4)) - 1); return (rng.below(2) ? SIGN : 0) | (e << MB) | m; };
    for (int i = 0; i < (g_thorough ? 60000 : 2000); ++i) { uint64_t a = rnd(), b = rnd(), c = rnd(); binary<T>(a, b); ternary<T>(a, b, c); if (i % 4 == 0) quaternary<T>(a, b, c, rnd()); }
    // mod near exact multiples: x = k * y (+- ulp)
    for (int i = 0; i < (g_thorough ? 20000 : 600); ++i) { T y = from_bits<T>(rnd() & ~SIGN); int k = int(rng.below(41)) - 20; T x = T(k) * y; uint64_t xb = to_bits(x); binary<T>(xb, to_bits(y)); binary<T>(xb + 1, to_bits(y)); binary<T>(xb - 1, to_bits(y)); binary<T>(xb, to_bits(T(-y))); }
    // every pattern of NaN positions for the n-ary NaN-aware functions
    { const uint64_t nanb = sizeof(T) == 4 ? 0x7FC00000ull : 0x7FF8000000000000ull; const uint64_t vals[4] = { to_bits(T(1)), to_bits(T(-2)), to_bits(T(0.5)), to_bits(T(3)) };
      for (int mask = 0; mask < 16; ++mask) for (int rot = 0; rot < 4; ++rot) { uint64_t a[4]; for (int i = 0; i < 4; ++i) a[i] = (mask >> i) & 1 ? (nanb | (i == 1 ? (uint64_t(1) << (sizeof(T) * 8 - 1)) : 0)) : vals[(i + rot) % 4];
          quaternary<T>(a[0], a[1], a[2], a[3]); ternary<T>(a[0], a[1], a[2]); binary<T>(a[0], a[1]); } }
    vector_pass<T>(U, N);
    constants<T>();
}

static void body(int argc, char** argv) {
    g_thorough = argc > 2 && std::string(argv[2]) == "thorough";
    Rng rng(seed_from_env());
    drive<float>(rng); drive<double>(rng);
    { std::vector<uint32_t> fl = f32_lattice(); for (uint32_t b : fl) bitcasts(b); for (int i = 0; i < 3000; ++i) bitcasts(uint32_t(rng.next())); }
    int_common<signed char>(rng); int_common<short>(rng); int_common<int>(rng); int_common<long>(rng);
}
int main(int argc, char** argv) { return run_main(argc, argv, body); }
