// C10 harness: inverse, determinant and their gtc / gtx variants.
// Executes the real GLM calls and logs raw bit patterns; no expected values and no judging here.
//   usage: c10 <trace-out> <tier> <section> [<matrices-file>]
//   sections: mc   - every matrix emitted by the TLC run of MC_C10 (text lines "n e1 ... e_{n*n}", column-major)
//             gen  - generated inputs: small integers, triangular, permutation-like, near-singular, random dyadic, affine
//             misc - diagonal builders, flips, matrix queries, scalar quotients, QR / RQ
// All inputs are small integers / dyadic rationals num * 2^-j (exact in float and double) built with the
// integer-only RNG, except the rotated near-singular 3x3 family, which is rounded once from long double.
#include "common.hpp"
#include <glm/gtc/matrix_inverse.hpp>
#include <glm/gtx/matrix_operation.hpp>
#include <glm/gtx/matrix_query.hpp>
#include <glm/gtx/matrix_factorisation.hpp>
#include <cmath>
#include <fstream>
#include <sstream>
using namespace vh;

static bool thorough = false;

// ---------------------------------------------------------------- the suite
template<int N, class T, glm::qualifier Q>
static void suite(const char* qn, const char* src, const long double* m, const long double* b, const long double* v) {
    typedef glm::mat<N, N, T, Q> mat;
    typedef glm::vec<N, T, Q> vec;
    mat M, B; vec V;
    for (int c = 0; c < N; ++c) for (int r = 0; r < N; ++r) { M[c][r] = T(m[c * N + r]); B[c][r] = T(b[c * N + r]); }
    for (int i = 0; i < N; ++i) V[i] = T(v[i]);
    T det = glm::determinant(M);
    mat Mt = glm::transpose(M);
    T detT = glm::determinant(Mt);
    mat inv = glm::inverse(M);
    mat invT = glm::inverseTranspose(M);
    mat adj = glm::adjugate(M);
    mat bdm = B / M;
    mat bdme = B; bdme /= M;
    vec mdv = M / V;
    vec vdm = V / M;
    mat P = B * M;
    T detP = glm::determinant(P);
    Ev e("suite");
    e.str("t", TI<T>::code()).num("n", N).str("q", qn).str("src", src);
    e.arg(M).arg(B).arg(V);
    e.val("det", det).val("detT", detT).val("inv", inv).val("invT", invT).val("adj", adj)
     .val("bdm", bdm).val("bdme", bdme).val("mdv", mdv).val("vdm", vdm).val("P", P).val("detP", detP);
    if constexpr (N <= 3) {          // affine embedding [M V; 0 1]
        glm::mat<N + 1, N + 1, T, Q> A(T(1));
        for (int c = 0; c < N; ++c) for (int r = 0; r < N; ++r) A[c][r] = M[c][r];
        for (int r = 0; r < N; ++r) A[N][r] = V[r];
        glm::mat<N + 1, N + 1, T, Q> ai = glm::affineInverse(A);
        e.val("A", A).val("ainv", ai);
    }
    if constexpr (N >= 3) {
        mat aim = glm::affineInverse(M);
        e.val("ainvM", aim);
    }
    e.emit();
}

static int g_count = 0;
template<int N>
static void suite_all(const char* src, const long double* m, const long double* b, const long double* v) {
    suite<N, float, glm::defaultp>("highp", src, m, b, v);
    suite<N, double, glm::defaultp>("highp", src, m, b, v);
    if (g_count % 8 == 3) { suite<N, float, glm::mediump>("mediump", src, m, b, v); suite<N, double, glm::lowp>("lowp", src, m, b, v); }
    if (g_count % 8 == 7) { suite<N, float, glm::lowp>("lowp", src, m, b, v); suite<N, double, glm::mediump>("mediump", src, m, b, v); }
    ++g_count;
}

// fixed partners (small integers), chosen by index
static void partner(int n, int idx, long double* b, long double* v) {
    for (int c = 0; c < n; ++c) for (int r = 0; r < n; ++r) {
        long double x = 0;
        switch (idx % 4) {
            case 0: x = (c == r) ? c + 2 : (c > r ? 1 : (c + 1 == r ? -1 : 0)); break;      // regular, det > 1
            case 1: x = ((c + 1) % n == r) ? -1 : 0; break;                                  // negated cyclic permutation
            case 2: x = (c == r) ? 1 : ((c + r) % 3 == 0 ? 2 : ((c + 2 * r) % 4 == 1 ? -1 : 0)); break;
            default: x = (c + 2) * (r + 1) % 5 - 2; break;                                   // may be singular
        }
        b[c * n + r] = x;
    }
    for (int i = 0; i < n; ++i) v[i] = ((idx * 3 + i * 5) % 7) - 3;
}

template<int N>
static void run_one(const char* src, const long double* m, int idx) {
    long double b[16], v[4];
    partner(N, idx, b, v);
    suite_all<N>(src, m, b, v);
}
static void dispatch(int n, const char* src, const long double* m, int idx) {
    if (n == 2) run_one<2>(src, m, idx); else if (n == 3) run_one<3>(src, m, idx); else run_one<4>(src, m, idx);
}

// ---------------------------------------------------------------- section mc
static void section_mc(const char* path) {
    std::ifstream in(path);
    if (!in) { std::fprintf(stderr, "cannot read %s\n", path); std::exit(2); }
    std::string line; int idx = 0;
    while (std::getline(in, line)) {
        std::istringstream ss(line);
        int n; if (!(ss >> n) || n < 2 || n > 4) continue;
        long double m[16]; bool ok = true;
        for (int i = 0; i < n * n; ++i) { long long x; if (!(ss >> x)) { ok = false; break; } m[i] = (long double)x; }
        if (!ok) continue;
        dispatch(n, "mc", m, idx++);
    }
}

// ---------------------------------------------------------------- section gen
static long double dy(Rng& g, int maxnum, int maxexp) {      // +-num * 2^-j
    long long num = (long long)g.below(2 * maxnum + 1) - maxnum;
    int j = (int)g.below(maxexp + 1);
    return (long double)num / (long double)(1ll << j);
}
static void section_gen() {
    Rng g(seed_from_env() * 7919 + 10);
    const int K = thorough ? 20 : 2;      // quick: 2, thorough: 20 (10x)
    int idx = 0;
    for (int n = 2; n <= 4; ++n) {
        long double m[16];
        // G0: fixed matrices
        for (int i = 0; i < n * n; ++i) m[i] = (i / n == i % n) ? 1 : 0;
        dispatch(n, "identity", m, idx++);
        for (int i = 0; i < n * n; ++i) m[i] = (i / n == i % n) ? 2 : 0;
        dispatch(n, "2I", m, idx++);
        for (int i = 0; i < n * n; ++i) m[i] = (long double)(i * i % 7 + (i / n == i % n ? 3 : 0)) / 4;
        dispatch(n, "fixed", m, idx++);
        // G0b: well-conditioned matrices with a small (or large) overall scale: |det| far below epsilon although kappa is small
        for (int sh : { -6, -10, -13, -18, 9 }) {
            long double sc = ldexpl(1.0L, sh);
            for (int i = 0; i < n * n; ++i) m[i] = ((i / n == i % n) ? 1 : 0) * sc;
            dispatch(n, "scaledI", m, idx++);
            for (int i = 0; i < n * n; ++i) m[i] = (long double)(i * i % 7 + (i / n == i % n ? 3 : 0)) / 4 * sc;
            dispatch(n, "scaledfixed", m, idx++);
            // a scaled rotation-like matrix: (1/3)[[1,2,2],[2,1,-2],[2,-2,1]] embedded, times sc, plus a translation column for n = 4
            for (int i = 0; i < n * n; ++i) m[i] = ((i / n == i % n) ? 1 : 0) * sc;
            if (n >= 3) { static const int Rm[9] = { 1, 2, 2, 2, 1, -2, 2, -2, 1 }; for (int c = 0; c < 3; ++c) for (int r = 0; r < 3; ++r) m[c * n + r] = (long double)Rm[c * 3 + r] / 3 * sc; if (n == 4) { m[3 * n + 0] = 2 * sc; m[3 * n + 1] = -sc; m[3 * n + 3] = 1; } }
            else { m[0] = 0.6L * sc; m[1] = 0.8L * sc; m[2] = -0.8L * sc; m[3] = 0.6L * sc; }
            dispatch(n, "scaledrot", m, idx++);
        }
        // G1: small integers
        for (int k = 0; k < 12 * K; ++k) {
            int w = (k % 3 == 0) ? 1 : (k % 3 == 1 ? 3 : 9);
            for (int i = 0; i < n * n; ++i) m[i] = (long double)((long long)g.below(2 * w + 1) - w);
            dispatch(n, "smallint", m, idx++);
        }
        // G2: triangular, dyadic entries, non-zero diagonal
        for (int k = 0; k < 6 * K; ++k) {
            bool upper = k % 2 == 0;
            for (int c = 0; c < n; ++c) for (int r = 0; r < n; ++r) {
                long double x = 0;
                if (c == r) { x = dy(g, 12, 3); if (x == 0) x = 1; }
                else if ((upper && c > r) || (!upper && c < r)) x = dy(g, 12, 3);
                m[c * n + r] = x;
            }
            dispatch(n, upper ? "upper" : "lower", m, idx++);
        }
        // G3: permutation-like: signed permutation times a dyadic diagonal
        for (int k = 0; k < 5 * K; ++k) {
            int p[4] = {0, 1, 2, 3};
            for (int i = n - 1; i > 0; --i) { int j = (int)g.below(i + 1); int t = p[i]; p[i] = p[j]; p[j] = t; }
            for (int i = 0; i < n * n; ++i) m[i] = 0;
            for (int c = 0; c < n; ++c) {
                static const long double sc[] = {1, -1, 2, 0.5L, -4, 0.125L, 3, 0.75L, 2.5L, -1.5L, 8, 0.0625L};
                m[c * n + p[c]] = sc[g.below(12)];
            }
            dispatch(n, "permlike", m, idx++);
        }
        // G4: near-singular but in range: [[1,1],[1,1+2^-k]] embedded, k = 1..14 (kappa ~ 4 * 2^k)
        for (int k = 1; k <= 14; ++k) for (int pos = 0; pos + 1 < n; ++pos) {
            for (int i = 0; i < n * n; ++i) m[i] = (i / n == i % n) ? 1 : 0;
            m[pos * n + pos] = 1; m[pos * n + pos + 1] = 1; m[(pos + 1) * n + pos] = 1;
            m[(pos + 1) * n + pos + 1] = 1 + std::ldexp(1.0L, -k);
            dispatch(n, "near2", m, idx++);
        }
        // G5: rotated diag(1, d, .., d), d = 2^-k: several small singular values at once
        for (int k = 1; k <= 13; ++k) {
            long double d = std::ldexp(1.0L, -k);
            if (n == 4) {          // Q = (1/2) [[1,-1,-1,-1],[1,1,-1,1],[1,1,1,-1],[1,-1,1,1]] is orthogonal: M = Q D Q^T is dyadic
                static const int q[4][4] = {{1, -1, -1, -1}, {1, 1, -1, 1}, {1, 1, 1, -1}, {1, -1, 1, 1}};
                for (int c = 0; c < 4; ++c) for (int r = 0; r < 4; ++r) {
                    long double s = 0;
                    for (int j = 0; j < 4; ++j) s += q[r][j] * q[c][j] * (j == 0 ? 1.0L : d);
                    m[c * 4 + r] = s / 4;
                }
                dispatch(n, "rot4", m, idx++);
            } else if (n == 3) {   // Q = (1/3) [[1,2,2],[2,1,-2],[2,-2,1]] is orthogonal; entries rounded once on conversion
                static const int q[3][3] = {{1, 2, 2}, {2, 1, -2}, {2, -2, 1}};
                for (int c = 0; c < 3; ++c) for (int r = 0; r < 3; ++r) {
                    long double s = 0;
                    for (int j = 0; j < 3; ++j) s += q[r][j] * q[c][j] * (j == 0 ? 1.0L : d);
                    m[c * 3 + r] = s / 9;
                }
                dispatch(n, "rot3", m, idx++);
            } else {               // (1/5) [[3,-4],[4,3]] diag(1,d) transpose
                static const int q[2][2] = {{3, -4}, {4, 3}};
                for (int c = 0; c < 2; ++c) for (int r = 0; r < 2; ++r) {
                    long double s = 0;
                    for (int j = 0; j < 2; ++j) s += q[r][j] * q[c][j] * (j == 0 ? 1.0L : d);
                    m[c * 2 + r] = s / 25;
                }
                dispatch(n, "rot2", m, idx++);
            }
        }
        // G6: random dyadic k / 2^j; diagonally dominant (well conditioned) and general
        for (int k = 0; k < 16 * K; ++k) {
            for (int i = 0; i < n * n; ++i) m[i] = (k % 8 < 6) ? dy(g, 15, 2) : dy(g, 64, 6);
            if (k % 2 == 0) for (int c = 0; c < n; ++c) m[c * n + c] += (g.below(2) ? 1 : -1) * (long double)((k % 8 < 6 ? 10 : 40) * n);
            dispatch(n, k % 2 == 0 ? "dominant" : "random", m, idx++);
        }
        // G7: affine matrices (last row 0 .. 0 1), for affineInverse(M) itself
        if (n >= 3) for (int k = 0; k < 6 * K; ++k) {
            for (int c = 0; c < n; ++c) for (int r = 0; r < n; ++r)
                m[c * n + r] = (r == n - 1) ? (c == n - 1 ? 1 : 0) : (k % 3 == 0 ? (long double)((long long)g.below(5) - 2) : dy(g, 16, 3));
            if (k % 3 != 0) for (int c = 0; c + 1 < n; ++c) m[c * n + c] += 6;
            dispatch(n, "affine", m, idx++);
        }
    }
}

// ---------------------------------------------------------------- section misc
template<class T> static T tval(Rng& g) {      // small dyadic value
    long long num = (long long)g.below(129) - 64; int j = (int)g.below(5);
    return T(num) / T(1 << j);
}
template<int C, int R, class T> static glm::mat<C, R, T, glm::defaultp> rmat(Rng& g) {
    glm::mat<C, R, T, glm::defaultp> m;
    for (int c = 0; c < C; ++c) for (int r = 0; r < R; ++r) m[c][r] = tval<T>(g);
    return m;
}
template<int C, int R, class T, class V, class F> static void diag_one(const char* t, V const& v, F f) {
    glm::mat<C, R, T, glm::defaultp> m = f(v);
    Ev("diag").str("t", t).num("c", C).num("r0", R).arg(v).res(m).emit();
}
template<class T> static void misc_diag(Rng& g) {
    const char* t = TI<T>::code();
    std::vector<uint64_t> lat = lattice<T>();
    for (int k = 0; k < (thorough ? 200 : 24); ++k) {
        glm::vec<2, T, glm::defaultp> v2; glm::vec<3, T, glm::defaultp> v3; glm::vec<4, T, glm::defaultp> v4;
        for (int i = 0; i < 4; ++i) {
            T x = (k % 2 == 0) ? tval<T>(g) : from_bits<T>(lat[g.below(lat.size())]);
            if (i < 2) v2[i] = x; if (i < 3) v3[i] = x; v4[i] = x;
            if (k % 2 == 1) { v2[i % 2] = from_bits<T>(lat[g.below(lat.size())]); v3[i % 3] = from_bits<T>(lat[g.below(lat.size())]); }
        }
        diag_one<2, 2, T>(t, v2, [](auto const& v) { return glm::diagonal2x2(v); });
        diag_one<2, 3, T>(t, v2, [](auto const& v) { return glm::diagonal2x3(v); });
        diag_one<2, 4, T>(t, v2, [](auto const& v) { return glm::diagonal2x4(v); });
        diag_one<3, 2, T>(t, v2, [](auto const& v) { return glm::diagonal3x2(v); });
        diag_one<3, 3, T>(t, v3, [](auto const& v) { return glm::diagonal3x3(v); });
        diag_one<3, 4, T>(t, v3, [](auto const& v) { return glm::diagonal3x4(v); });
        diag_one<4, 2, T>(t, v2, [](auto const& v) { return glm::diagonal4x2(v); });
        diag_one<4, 3, T>(t, v3, [](auto const& v) { return glm::diagonal4x3(v); });
        diag_one<4, 4, T>(t, v4, [](auto const& v) { return glm::diagonal4x4(v); });
    }
}
template<int C, int R, class T> static void flip_one(Rng& g) {
    glm::mat<C, R, T, glm::defaultp> m = rmat<C, R, T>(g);
    for (int c = 0; c < C; ++c) for (int r = 0; r < R; ++r) m[c][r] += T(16 * (c * R + r));      // all entries distinct
    Ev("fliplr").str("t", TI<T>::code()).num("c", C).num("r0", R).arg(m).res(glm::fliplr(m)).emit();
    Ev("flipud").str("t", TI<T>::code()).num("c", C).num("r0", R).arg(m).res(glm::flipud(m)).emit();
}
template<class T> static void misc_flip(Rng& g) {
    for (int k = 0; k < (thorough ? 30 : 3); ++k) {
        flip_one<2, 2, T>(g); flip_one<3, 3, T>(g); flip_one<4, 4, T>(g); flip_one<2, 3, T>(g); flip_one<3, 2, T>(g);
        flip_one<2, 4, T>(g); flip_one<4, 2, T>(g); flip_one<3, 4, T>(g); flip_one<4, 3, T>(g);
    }
}
template<int N, class T> static void sdiv_one(Rng& g, std::vector<uint64_t> const& lat, int k) {
    typedef glm::mat<N, N, T, glm::defaultp> mat;
    mat m = rmat<N, N, T>(g);
    T s = tval<T>(g);
    if (k % 3 == 1) { s = T(1) / T(3) + tval<T>(g); for (int c = 0; c < N; ++c) for (int r = 0; r < N; ++r) m[c][r] = m[c][r] / T(7) + T(c) - T(r); }
    if (k % 3 == 2) { s = from_bits<T>(lat[g.below(lat.size())]); m[k % N][(k / N) % N] = from_bits<T>(lat[g.below(lat.size())]); }
    mat a = s / m, b = m / s, c = m; c /= s;
    Ev("s/m").str("t", TI<T>::code()).num("n", N).arg(s).arg(m).res(a).emit();
    Ev("m/s").str("t", TI<T>::code()).num("n", N).arg(s).arg(m).res(b).emit();
    Ev("m/=s").str("t", TI<T>::code()).num("n", N).arg(s).arg(m).res(c).emit();
}
template<class T> static void misc_sdiv(Rng& g) {
    std::vector<uint64_t> lat = lattice<T>();
    for (int k = 0; k < (thorough ? 300 : 30); ++k) { sdiv_one<2, T>(g, lat, k); sdiv_one<3, T>(g, lat, k); sdiv_one<4, T>(g, lat, k); }
}

template<int C, int R, class T> static void query_id(glm::mat<C, R, T, glm::defaultp> const& m, T eps) {
    Ev("isIdentity").str("t", TI<T>::code()).num("c", C).num("r0", R).arg(m).arg(eps).res(glm::isIdentity(m, eps)).emit();
}
template<int N, class T> static void query_sq(glm::mat<N, N, T, glm::defaultp> const& m, T eps) {
    const char* t = TI<T>::code();
    Ev("isNull").str("t", t).num("c", N).num("r0", N).arg(m).arg(eps).res(glm::isNull(m, eps)).emit();
    Ev("isNormalized").str("t", t).num("c", N).num("r0", N).arg(m).arg(eps).res(glm::isNormalized(m, eps)).emit();
    Ev("isOrthogonal").str("t", t).num("c", N).num("r0", N).arg(m).arg(eps).res(glm::isOrthogonal(m, eps)).emit();
    query_id<N, N, T>(m, eps);
}
template<int N, class T> static void misc_query_n(Rng& g) {
    typedef glm::mat<N, N, T, glm::defaultp> mat;
    const T epss[] = {T(0), T(1) / T(128), T(1) / T(4), T(1) / T(100), T(3) / T(2)};
    for (T eps : epss) {
        if (!thorough && eps == T(1) / T(100) && N != 3) continue;
        T small[] = {T(0), eps / T(2), eps, eps * T(2), eps * T(9) / T(8), eps * T(7) / T(8), -eps, -eps / T(2)};
        query_sq<N, T>(mat(T(0)), eps);
        query_sq<N, T>(mat(T(1)), eps);
        query_sq<N, T>(mat(T(-1)), eps);
        query_sq<N, T>(mat(T(2)), eps);
        query_sq<N, T>(mat(T(1) + eps), eps);
        query_sq<N, T>(mat(T(1) + eps * T(3)), eps);
        query_sq<N, T>(mat(T(1) - eps / T(2)), eps);
        for (int di = 0; di < 8; di += (thorough ? 1 : 2)) for (int pos = di % 2; pos < N * N; pos += (thorough ? 1 : 5)) {
            T d = small[di + (thorough ? 0 : (pos % 2))];
            mat z(T(0)); z[pos / N][pos % N] = d; query_sq<N, T>(z, eps);                      // nearly null
            mat i(T(1)); i[pos / N][pos % N] += d; query_sq<N, T>(i, eps);                     // nearly identity
        }
        if (eps == T(1) / T(4)) {
            // orthogonal rows of lengths 1.2 and 0.9 (inside 1 +- 2 eps): the columns then have dot (a^2 - b^2) c s = 0.3024,
            // between eps and 2 eps, while the rows are exactly orthogonal; the transpose has it the other way round
            for (int a = 0; a + 1 < N; ++a) {
                mat g2(T(1));
                T A = T(6) / T(5), Bq = T(9) / T(10), c = T(3) / T(5), sn = T(4) / T(5);
                g2[a][a] = A * c; g2[a + 1][a] = A * sn; g2[a][a + 1] = -Bq * sn; g2[a + 1][a + 1] = Bq * c;
                query_sq<N, T>(g2, eps);
                query_sq<N, T>(glm::transpose(g2), eps);
            }
        }
        // signed permutations, rotations with Pythagorean entries, unimodular shears
        for (int k = 0; k < (thorough ? 32 : 4); ++k) {
            int p[4] = {0, 1, 2, 3};
            for (int i = N - 1; i > 0; --i) { int j = (int)g.below(i + 1); int t = p[i]; p[i] = p[j]; p[j] = t; }
            mat s(T(0));
            for (int c = 0; c < N; ++c) s[c][p[c]] = g.below(2) ? T(1) : T(-1);
            query_sq<N, T>(s, eps);
            mat r = s; int a = (int)g.below(N), b = (a + 1 + (int)g.below(N - 1)) % N;           // rotate columns a, b by (3/5, 4/5) or (5/13, 12/13)
            T co = k % 2 ? T(3) / T(5) : T(5) / T(13), si = k % 2 ? T(4) / T(5) : T(12) / T(13);
            glm::vec<N, T, glm::defaultp> ca = s[a] * co + s[b] * si, cb = s[b] * co - s[a] * si;
            r[a] = ca; r[b] = cb; query_sq<N, T>(r, eps);
            mat sh = s; sh[a] += s[b]; query_sq<N, T>(sh, eps);                                    // shear: columns no longer orthogonal
            mat sc = s; sc[a] *= (T(1) + eps * T(k % 3 + 1)); query_sq<N, T>(sc, eps);             // one column too long
            // unit columns that are almost orthogonal: dot(a, b) = t * eps on either side of the threshold (0.5, 0.75, 1.5, 3)
            static const int tn[] = {1, 3, 3, 3}, td[] = {2, 4, 2, 1};
            mat no = s; no[b] += s[a] * (eps * T(tn[k % 4]) / T(td[k % 4])); query_sq<N, T>(no, eps);
            mat nt = glm::transpose(no); query_sq<N, T>(nt, eps);                                  // the same between rows
            mat rr = rmat<N, N, T>(g); query_sq<N, T>(rr, eps);
        }
    }
}
template<class T> static void misc_query(Rng& g) {
    misc_query_n<2, T>(g); misc_query_n<3, T>(g); misc_query_n<4, T>(g);
    const T epss[] = {T(0), T(1) / T(64)};
    for (T eps : epss) for (int k = 0; k < 6; ++k) {           // isIdentity is generic in the shape
        T d = (k % 3 == 0) ? T(0) : (k % 3 == 1 ? eps : eps * T(2));
        glm::mat<2, 3, T, glm::defaultp> a(T(1)); a[k % 2][(k / 2) % 3] += d; query_id<2, 3, T>(a, eps);
        glm::mat<3, 2, T, glm::defaultp> b(T(1)); b[k % 3][(k / 3) % 2] += d; query_id<3, 2, T>(b, eps);
        glm::mat<4, 3, T, glm::defaultp> c(T(1)); c[(k + 1) % 4][k % 3] += d; query_id<4, 3, T>(c, eps);
        glm::mat<3, 4, T, glm::defaultp> e(T(1)); e[k % 3][(k + 2) % 4] += d; query_id<3, 4, T>(e, eps);
        glm::mat<2, 4, T, glm::defaultp> f(T(1)); f[k % 2][(k + 1) % 4] += d; query_id<2, 4, T>(f, eps);
        glm::mat<4, 2, T, glm::defaultp> h(T(1)); h[(k + 3) % 4][k % 2] += d; query_id<4, 2, T>(h, eps);
    }
}

template<int C, int R, class T> static void qr_one(glm::mat<C, R, T, glm::defaultp> const& m) {
    constexpr int MN = C < R ? C : R;
    {
        glm::mat<MN, R, T, glm::defaultp> q(T(-999)); glm::mat<C, MN, T, glm::defaultp> r(T(-999));
        glm::qr_decompose(m, q, r);
        Ev("qr").str("t", TI<T>::code()).num("c", C).num("r0", R).arg(m).val("qm", q).val("rm", r).emit();
    }
    {
        glm::mat<MN, R, T, glm::defaultp> r(T(-999)); glm::mat<C, MN, T, glm::defaultp> q(T(-999));
        glm::rq_decompose(m, r, q);
        Ev("rq").str("t", TI<T>::code()).num("c", C).num("r0", R).arg(m).val("qm", q).val("rm", r).emit();
    }
}
template<int C, int R, class T> static void qr_shape(Rng& g) {
    static const T glmtest[12] = {12, 6, -4, -51, 167, 24, 4, -68, -41, 7, 2, 15};
    glm::mat<C, R, T, glm::defaultp> m;
    for (int c = 0; c < C; ++c) for (int r = 0; r < R; ++r) m[c][r] = glmtest[(c * R + r) % 12];
    qr_one<C, R, T>(m);
    for (int k = 0; k < (thorough ? 60 : 8); ++k) {
        for (int c = 0; c < C; ++c) for (int r = 0; r < R; ++r)
            m[c][r] = (k % 2 == 0) ? T((long long)g.below(9) - 4) + (c == r ? T(6) : T(0)) : tval<T>(g) + (c == r ? T(40) : T(0));
        if (k % 4 == 3) for (int c = 0; c < C; ++c) for (int r = 0; r < R; ++r) if (r > c) m[c][r] = T(0);      // already upper triangular
        qr_one<C, R, T>(m);
    }
}
template<class T> static void misc_qr(Rng& g) {
    qr_shape<2, 2, T>(g); qr_shape<3, 3, T>(g); qr_shape<4, 4, T>(g);
    qr_shape<2, 3, T>(g); qr_shape<3, 2, T>(g); qr_shape<3, 4, T>(g); qr_shape<4, 3, T>(g); qr_shape<2, 4, T>(g); qr_shape<4, 2, T>(g);
}
static void section_misc() {
    Rng g(seed_from_env() * 104729 + 3);
    misc_diag<float>(g); misc_diag<double>(g);
    misc_flip<float>(g); misc_flip<double>(g);
    misc_sdiv<float>(g); misc_sdiv<double>(g);
    misc_query<float>(g); misc_query<double>(g);
    misc_qr<float>(g); misc_qr<double>(g);
}

static void body(int argc, char** argv) {
    std::string tier = argc > 2 ? argv[2] : "quick";
    std::string sec = argc > 3 ? argv[3] : "all";
    thorough = tier == "thorough";
    if (sec == "mc" || sec == "all") { if (argc > 4) section_mc(argv[4]); }
    if (sec == "gen" || sec == "all") section_gen();
    if (sec == "misc" || sec == "all") section_misc();
}
int main(int argc, char** argv) { return run_main(argc, argv, body); }
