// C09 harness: transform builders
//   glm/ext/matrix_transform (identity translate rotate scale shear + *_slow, lookAt / lookAtRH / lookAtLH),
//   gtx/transform, gtx/transform2, gtx/rotate_vector, gtx/rotate_normalized_axis, gtx/matrix_transform_2d,
//   gtx/matrix_decompose, gtx/matrix_interpolation.
// No expected values, no judging: every call is logged with the raw bit patterns of its arguments and results;
// Trace_C09.tla judges.  Angles are an INPUT ENCODING: the harness turns a rational (cos, sin) pair and a number of
// turns into the floating argument (atan2 + 2 pi k in long double); matrices that the specification composes from
// rational pieces (decompose / axisAngle / interpolate inputs) are evaluated here in long double and rounded once -
// the specification recomputes them exactly and rejects the event if the logged matrix is not that rounding.
//
// argv: <trace-out> <requested handedness 0=RH 1=LH> <tier quick|thorough> <load full|part>
// build flags: -DGLM_FORCE_LEFT_HANDED selects the configuration under test
//   -DC09_HAVE_RECOMPOSE_D   recompose<double> is callable (it compiles)
//   -DC09_PROBE              compile only a probe that instantiates recompose<double>
#include "common.hpp"
#include <glm/ext/matrix_transform.hpp>
#include <glm/gtc/matrix_transform.hpp>
#include <glm/gtx/transform.hpp>
#include <glm/gtx/transform2.hpp>
#include <glm/gtx/rotate_vector.hpp>
#include <glm/gtx/rotate_normalized_axis.hpp>
#include <glm/gtx/matrix_transform_2d.hpp>
#include <glm/gtx/matrix_decompose.hpp>
#include <glm/gtx/matrix_interpolation.hpp>
#include <cmath>
using namespace vh;

#ifdef C09_PROBE
int main(int, char**) {
    volatile double one = 1.0;
    glm::dvec3 s(one), t(one), k(0.0); glm::dquat q(one, 0.0, 0.0, 0.0); glm::dvec4 p(0.0, 0.0, 0.0, one);
    glm::dmat4 m = glm::recompose(s, q, t, k, p);
    return m[0][0] > 0 ? 0 : 1;
}
#else

static int g_req = 0;
static bool g_thorough = false, g_full = true;
static int g_lh = 0;

template<class T, glm::qualifier Q> struct Ty {
    typedef glm::vec<2, T, Q> V2; typedef glm::vec<3, T, Q> V3; typedef glm::vec<4, T, Q> V4;
    typedef glm::mat<3, 3, T, Q> M3; typedef glm::mat<4, 4, T, Q> M4; typedef glm::qua<T, Q> Qt;
};
template<glm::qualifier Q> int qcode() { return Q == glm::packed_highp ? 0 : Q == glm::packed_mediump ? 1 : 2; }
#define HDR(T, Q) .str("t", TI<T>::code()).num("q", qcode<Q>())

// ------------------------------------------------------------------ rational input tables
struct Ang { int cn, sn, cd, k; };                       // cos = cn/cd, sin = sn/cd, k whole turns added
static const int PY[][3] = { {1, 0, 1}, {0, 1, 1}, {-1, 0, 1}, {0, -1, 1}, {3, 4, 5}, {4, 3, 5}, {-3, 4, 5}, {3, -4, 5}, {-4, -3, 5},
                             {5, 12, 13}, {-12, 5, 13}, {12, -5, 13}, {7, 24, 25}, {-24, -7, 25}, {8, 15, 17}, {-15, 8, 17},
                             {20, 21, 29}, {-21, -20, 29}, {9, 40, 41}, {40, -9, 41}, {-35, 12, 37}, {63, 16, 65} };
static const int NPY = int(sizeof(PY) / sizeof(PY[0]));
static const long double PI_L = 3.14159265358979323846264338327950288L;
template<class T> T angle_of(Ang a) { return T(std::atan2((long double)a.sn, (long double)a.cn) + 2.0L * PI_L * (long double)a.k); }
// angle whose HALF has cosine cn/cd and sine sn/cd (for the quaternion form), plus k whole turns of the full angle
template<class T> T angle_of_half(Ang a) { return T(2.0L * std::atan2((long double)a.sn, (long double)a.cn) + 2.0L * PI_L * (long double)a.k); }
#define ANGF(a) .num("cn", (a).cn).num("sn", (a).sn).num("cd", (a).cd).num("k", (a).k)

struct Ax { int x, y, z, e, an, ad; };                    // axis = (x, y, z) * 2^e, its length is an/ad
static const Ax AXES[] = { {1, 0, 0, 0, 1, 1}, {0, 1, 0, 0, 1, 1}, {0, 0, 1, 0, 1, 1}, {-1, 0, 0, 0, 1, 1}, {0, 0, -2, 0, 2, 1}, {0, 3, 0, -1, 3, 2},
                           {1, 2, 2, 0, 3, 1}, {2, 4, 4, 0, 6, 1}, {2, 3, 6, 0, 7, 1}, {4, 4, 7, 0, 9, 1}, {-2, 1, 2, 0, 3, 1}, {6, -2, 3, 0, 7, 1},
                           {0, 3, 4, 0, 5, 1}, {1, 2, 2, -1, 3, 2}, {8, -4, 1, 0, 9, 1}, {3, 6, -2, 0, 7, 1}, {-3, 0, 4, 3, 40, 1}, {-4, 8, 1, 0, 9, 1},
                           {-8, -9, -12, -4, 17, 16} };
static const int NAX = int(sizeof(AXES) / sizeof(AXES[0]));
template<class T, glm::qualifier Q> glm::vec<3, T, Q> axis_vec(Ax const& a) {
    T x = std::ldexp(T(a.x), a.e); T y = std::ldexp(T(a.y), a.e); T z = std::ldexp(T(a.z), a.e);
    return glm::vec<3, T, Q>(x, y, z);
}
// the same axis divided by its length in the working precision (an input for the functions that want a normalised axis)
template<class T, glm::qualifier Q> glm::vec<3, T, Q> unit_axis_vec(Ax const& a) {
    long double f = (long double)a.ad / (long double)a.an;
    T x = T(std::ldexp((long double)a.x, a.e) * f); T y = T(std::ldexp((long double)a.y, a.e) * f); T z = T(std::ldexp((long double)a.z, a.e) * f);
    return glm::vec<3, T, Q>(x, y, z);
}
#define AXF(a) .num("an", (a).an).num("ad", (a).ad)

// unit quaternions with rational components (w, x, y, z) / d
static const int QTS[][5] = { {1, 0, 0, 0, 1}, {1, 1, 1, 1, 2}, {1, 2, 2, 4, 5}, {2, -4, 5, 6, 9}, {0, 3, 0, 4, 5}, {-1, 1, -1, 1, 2}, {4, 2, -2, 1, 5},
                              {0, 0, 1, 0, 1}, {2, 3, 6, 0, 7}, {-6, 2, 4, 5, 9}, {1, 4, 8, 0, 9}, {10, 2, 11, 0, 15},
                              {0, 1, 0, 0, 1}, {1, 8, 4, 0, 9}, {0, 0, 0, 1, 1} };      // trace <= 0 with the x / z diagonal entry largest
static const int NQT = int(sizeof(QTS) / sizeof(QTS[0]));

// ------------------------------------------------------------------ numeric inputs (integer RNG only)
template<class T> T dy(long long m, int e) { return std::ldexp(T(m), e); }
template<class T> T rnd_small(Rng& g, int kind) {                 // kind 0: integer in [-4, 4]; 1: m/8, |m| <= 40; 2: full mantissa in [2^-3, 2^3)
    if (kind == 0) return T((long long)g.below(9) - 4);
    if (kind == 1) return dy<T>((long long)g.below(81) - 40, -3);
    int e = int(g.below(6)) - 3; uint64_t mant = g.next(); bool neg = g.next() & 1;
    T v;
    if constexpr (sizeof(T) == 4) v = from_bits<T>((uint64_t(127 + e) << 23) | (mant & 0x7fffffu));
    else v = from_bits<T>((uint64_t(1023 + e) << 52) | (mant & 0xfffffffffffffull));
    return neg ? -v : v;
}
template<class T, glm::qualifier Q> glm::mat<4, 4, T, Q> mat4_of(const int* e) {
    glm::mat<4, 4, T, Q> m;
    for (int c = 0; c < 4; ++c) for (int r = 0; r < 4; ++r) m[c][r] = T(e[c * 4 + r]);
    return m;
}
template<class T, glm::qualifier Q> glm::mat<3, 3, T, Q> mat3_of(const int* e) {
    glm::mat<3, 3, T, Q> m;
    for (int c = 0; c < 3; ++c) for (int r = 0; r < 3; ++r) m[c][r] = T(e[c * 3 + r]);
    return m;
}
static const int BASE4[][16] = {
    {1, 0, 0, 0, 0, 1, 0, 0, 0, 0, 1, 0, 0, 0, 0, 1},
    {2, 1, 0, 0, -1, 3, 1, 0, 0, 2, -2, 0, 5, -3, 4, 1},          // affine
    {1, 0, 2, 1, 0, 1, -1, 2, 3, 0, 1, 3, -2, 1, 0, 4},           // last row (1, 2, 3, 4)
    {3, -1, 2, 5, 1, 4, -2, -3, 2, 2, 1, 7, -6, 1, 3, 2},         // dense
    {0, 0, 1, 0, 1, 0, 0, 0, 0, 1, 0, 0, 7, 8, 9, 1},             // permutation + translation
    {1, 2, 3, 1, 4, 5, 6, 2, 7, 8, 10, 3, 11, 12, 13, 4} };
static const int NBASE4 = 6;
static const int BASE3[][9] = { {1, 0, 0, 0, 1, 0, 0, 0, 1}, {2, 1, 0, -1, 3, 0, 5, -3, 1}, {1, 0, 2, 0, 1, -1, 3, 2, 4}, {3, -1, 2, 1, 4, -2, 2, 5, 1} };
static const int NBASE3 = 4;
template<class T, glm::qualifier Q> std::vector<glm::mat<4, 4, T, Q>> bases4(Rng& g, int nrand) {
    std::vector<glm::mat<4, 4, T, Q>> v;
    for (int i = 0; i < NBASE4; ++i) v.push_back(mat4_of<T, Q>(BASE4[i]));
    for (int i = 0; i < nrand; ++i) {
        int kind = i % 3;
        glm::mat<4, 4, T, Q> m;
        for (int c = 0; c < 4; ++c) for (int r = 0; r < 4; ++r) { T x = rnd_small<T>(g, kind); m[c][r] = x; }
        v.push_back(m);
    }
    return v;
}
template<class T, glm::qualifier Q> std::vector<glm::mat<3, 3, T, Q>> bases3(Rng& g, int nrand) {
    std::vector<glm::mat<3, 3, T, Q>> v;
    for (int i = 0; i < NBASE3; ++i) v.push_back(mat3_of<T, Q>(BASE3[i]));
    for (int i = 0; i < nrand; ++i) {
        int kind = i % 3;
        glm::mat<3, 3, T, Q> m;
        for (int c = 0; c < 3; ++c) for (int r = 0; r < 3; ++r) { T x = rnd_small<T>(g, kind); m[c][r] = x; }
        v.push_back(m);
    }
    return v;
}
template<class T, glm::qualifier Q> std::vector<glm::vec<3, T, Q>> vecs3(Rng& g, int nrand) {
    typedef glm::vec<3, T, Q> V3;
    std::vector<V3> v = { V3(0, 0, 0), V3(1, 0, 0), V3(0, 1, 0), V3(0, 0, 1), V3(1, 2, 3), V3(-2, 1, -1), V3(2, 2, 2), V3(-1, -1, -1), V3(3, -2, 0),
                          V3(T(0.5), T(-0.25), T(4)), V3(T(1) / T(3), T(0.1), T(-0.7)) };
    for (int i = 0; i < nrand; ++i) { T x = rnd_small<T>(g, i % 3); T y = rnd_small<T>(g, i % 3); T z = rnd_small<T>(g, i % 3); v.push_back(V3(x, y, z)); }
    return v;
}

// ------------------------------------------------------------------ ext/matrix_transform + gtx/transform
// identity<genType>() only exists for the default qualifier (detail::genTypeTrait is specialised for mat<C, R, T> and qua<T> only)
template<class T, glm::qualifier Q> void ev_identity() {
    if constexpr (Q == glm::defaultp) {
        Ev("identity").str("k", "m") HDR(T, Q) .num("nc", 2).num("nr", 2).res(glm::identity<glm::mat<2, 2, T, Q>>()).emit();
        Ev("identity").str("k", "m") HDR(T, Q) .num("nc", 3).num("nr", 3).res(glm::identity<glm::mat<3, 3, T, Q>>()).emit();
        Ev("identity").str("k", "m") HDR(T, Q) .num("nc", 4).num("nr", 4).res(glm::identity<glm::mat<4, 4, T, Q>>()).emit();
        Ev("identity").str("k", "m") HDR(T, Q) .num("nc", 2).num("nr", 3).res(glm::identity<glm::mat<2, 3, T, Q>>()).emit();
        Ev("identity").str("k", "m") HDR(T, Q) .num("nc", 4).num("nr", 3).res(glm::identity<glm::mat<4, 3, T, Q>>()).emit();
        Ev("identity").str("k", "m") HDR(T, Q) .num("nc", 3).num("nr", 4).res(glm::identity<glm::mat<3, 4, T, Q>>()).emit();
        Ev("identity").str("k", "q") HDR(T, Q) .num("nc", 0).num("nr", 0).res(glm::identity<glm::qua<T, Q>>()).emit();
    }
}
template<class T, glm::qualifier Q> void ev_translate(typename Ty<T, Q>::M4 const& m, typename Ty<T, Q>::V3 const& v) {
    auto r = glm::translate(m, v);
    Ev("translate") HDR(T, Q) .arg(m).arg(v).res(r).emit();
}
template<class T, glm::qualifier Q> void ev_scale(typename Ty<T, Q>::M4 const& m, typename Ty<T, Q>::V3 const& v) {
    auto r = glm::scale(m, v); auto s = glm::scale_slow(m, v);
    Ev("scale") HDR(T, Q) .arg(m).arg(v).res(r).val("slow", s).emit();
}
template<class T, glm::qualifier Q> void ev_gtx1(typename Ty<T, Q>::V3 const& v) {
    auto t = glm::translate(v); auto s = glm::scale(v);
    Ev("translate1") HDR(T, Q) .arg(v).res(t).emit();
    Ev("scale1") HDR(T, Q) .arg(v).res(s).emit();
}
template<class T, glm::qualifier Q> void ev_rotate(typename Ty<T, Q>::M4 const& m, Ang a, Ax const& ax) {
    T ang = angle_of<T>(a); auto v = axis_vec<T, Q>(ax);
    auto r = glm::rotate(m, ang, v); auto s = glm::rotate_slow(m, ang, v);
    Ev("rotate") HDR(T, Q) ANGF(a) AXF(ax) .arg(m).arg(ang).arg(v).res(r).val("slow", s).emit();
}
template<class T, glm::qualifier Q> void ev_rotate1(Ang a, Ax const& ax) {
    T ang = angle_of<T>(a); auto v = axis_vec<T, Q>(ax);
    auto r = glm::rotate(ang, v);
    Ev("rotate1") HDR(T, Q) ANGF(a) AXF(ax) .arg(ang).arg(v).res(r).emit();
    auto am = glm::axisAngleMatrix(v, ang);
    Ev("axisAngleMatrix") HDR(T, Q) ANGF(a) AXF(ax) .arg(v).arg(ang).res(am).emit();
}
template<class T, glm::qualifier Q> void ev_shear(typename Ty<T, Q>::M4 const& m, typename Ty<T, Q>::V3 const& p,
                                                  typename Ty<T, Q>::V2 const& lx, typename Ty<T, Q>::V2 const& ly, typename Ty<T, Q>::V2 const& lz) {
    auto r = glm::shear(m, p, lx, ly, lz); auto s = glm::shear_slow(m, p, lx, ly, lz);
    Ev("shear") HDR(T, Q) .arg(m).arg(p).arg(lx).arg(ly).arg(lz).res(r).val("slow", s).emit();
}
template<class T, glm::qualifier Q> void ev_lookAt(typename Ty<T, Q>::V3 const& eye, typename Ty<T, Q>::V3 const& center, typename Ty<T, Q>::V3 const& up) {
    auto rh = glm::lookAtRH(eye, center, up); auto lh = glm::lookAtLH(eye, center, up); auto u = glm::lookAt(eye, center, up);
    Ev("lookAt") HDR(T, Q) .num("lh", g_lh).num("req", g_req).arg(eye).arg(center).arg(up).val("RH", rh).val("LH", lh).val("U", u).emit();
}

// ------------------------------------------------------------------ gtx/transform2
template<class T, glm::qualifier Q> void ev_transform2(typename Ty<T, Q>::M3 const& m3, typename Ty<T, Q>::M4 const& m4, T s, T t, Ax const& ax) {
    Ev("shearX2D") HDR(T, Q) .arg(m3).arg(s).res(glm::shearX2D(m3, s)).emit();
    Ev("shearY2D") HDR(T, Q) .arg(m3).arg(s).res(glm::shearY2D(m3, s)).emit();
    Ev("shearX3D") HDR(T, Q) .arg(m4).arg(s).arg(t).res(glm::shearX3D(m4, s, t)).emit();
    Ev("shearY3D") HDR(T, Q) .arg(m4).arg(s).arg(t).res(glm::shearY3D(m4, s, t)).emit();
    Ev("shearZ3D") HDR(T, Q) .arg(m4).arg(s).arg(t).res(glm::shearZ3D(m4, s, t)).emit();
    auto n = unit_axis_vec<T, Q>(ax);
    Ev("reflect2D") HDR(T, Q) .arg(m3).arg(n).res(glm::reflect2D(m3, n)).emit();
    Ev("reflect3D") HDR(T, Q) .arg(m4).arg(n).res(glm::reflect3D(m4, n)).emit();
    Ev("proj2D") HDR(T, Q) .arg(m3).arg(n).res(glm::proj2D(m3, n)).emit();
    Ev("proj3D") HDR(T, Q) .arg(m4).arg(n).res(glm::proj3D(m4, n)).emit();
    Ev("scaleBias") HDR(T, Q) .arg(s).arg(t).res(glm::scaleBias<T, Q>(s, t)).emit();
    Ev("scaleBiasM") HDR(T, Q) .arg(m4).arg(s).arg(t).res(glm::scaleBias(m4, s, t)).emit();
}

// ------------------------------------------------------------------ gtx/matrix_transform_2d
template<class T, glm::qualifier Q> void ev_2d(typename Ty<T, Q>::M3 const& m, typename Ty<T, Q>::V2 const& v, Ang a, T k) {
    T ang = angle_of<T>(a);
    Ev("translate2d") HDR(T, Q) .arg(m).arg(v).res(glm::translate(m, v)).emit();
    Ev("scale2d") HDR(T, Q) .arg(m).arg(v).res(glm::scale(m, v)).emit();
    Ev("rotate2d") HDR(T, Q) ANGF(a) .arg(m).arg(ang).res(glm::rotate(m, ang)).emit();
    Ev("shearX2d") HDR(T, Q) .arg(m).arg(k).res(glm::shearX(m, k)).emit();
    Ev("shearY2d") HDR(T, Q) .arg(m).arg(k).res(glm::shearY(m, k)).emit();
}

// ------------------------------------------------------------------ gtx/rotate_vector, gtx/rotate_normalized_axis
template<class T, glm::qualifier Q> void ev_rotvec(typename Ty<T, Q>::V4 const& v4, Ang a, Ax const& ax) {
    typedef typename Ty<T, Q>::V2 V2; typedef typename Ty<T, Q>::V3 V3;
    T ang = angle_of<T>(a); auto axis = axis_vec<T, Q>(ax);
    V2 v2(v4.x, v4.y); V3 v3(v4.x, v4.y, v4.z);
    Ev("rotate2") HDR(T, Q) ANGF(a) .arg(v2).arg(ang).res(glm::rotate(v2, ang)).emit();
    Ev("rotate3") HDR(T, Q) ANGF(a) AXF(ax) .arg(v3).arg(ang).arg(axis).res(glm::rotate(v3, ang, axis)).emit();
    Ev("rotate4") HDR(T, Q) ANGF(a) AXF(ax) .arg(v4).arg(ang).arg(axis).res(glm::rotate(v4, ang, axis)).emit();
    Ev("rotateX3") HDR(T, Q) ANGF(a) .num("ax", 1).arg(v3).arg(ang).res(glm::rotateX(v3, ang)).emit();
    Ev("rotateY3") HDR(T, Q) ANGF(a) .num("ax", 2).arg(v3).arg(ang).res(glm::rotateY(v3, ang)).emit();
    Ev("rotateZ3") HDR(T, Q) ANGF(a) .num("ax", 3).arg(v3).arg(ang).res(glm::rotateZ(v3, ang)).emit();
    Ev("rotateX4") HDR(T, Q) ANGF(a) .num("ax", 1).arg(v4).arg(ang).res(glm::rotateX(v4, ang)).emit();
    Ev("rotateY4") HDR(T, Q) ANGF(a) .num("ax", 2).arg(v4).arg(ang).res(glm::rotateY(v4, ang)).emit();
    Ev("rotateZ4") HDR(T, Q) ANGF(a) .num("ax", 3).arg(v4).arg(ang).res(glm::rotateZ(v4, ang)).emit();
}
template<class T, glm::qualifier Q> void ev_rna(typename Ty<T, Q>::M4 const& m, Ang a, Ax const& ax, const int* qi) {
    typedef typename Ty<T, Q>::Qt Qt;
    auto u = unit_axis_vec<T, Q>(ax);
    T ang = angle_of<T>(a);
    Ev("rnaM") HDR(T, Q) ANGF(a) .arg(m).arg(ang).arg(u).res(glm::rotateNormalizedAxis(m, ang, u)).emit();
    // the quaternion form halves the angle: (cn, sn, cd) are cosine / sine of the HALF angle here
    T angh = angle_of_half<T>(a);
    T qw = T(qi[0]) / T(qi[4]); T qx = T(qi[1]) / T(qi[4]); T qy = T(qi[2]) / T(qi[4]); T qz = T(qi[3]) / T(qi[4]);
    Qt q = Qt::wxyz(qw, qx, qy, qz);
    Ev("rnaQ") HDR(T, Q) ANGF(a) .arg(q).arg(angh).arg(u).res(glm::rotateNormalizedAxis(q, angh, u)).emit();
}
template<class T, glm::qualifier Q> void ev_orientation(Ax const& n, Ax const& u) {
    auto nv = unit_axis_vec<T, Q>(n); auto uv = unit_axis_vec<T, Q>(u);
    Ev("orientation") HDR(T, Q) .arg(nv).arg(uv).res(glm::orientation(nv, uv)).emit();
}

// ------------------------------------------------------------------ long double composition of rational pieces
struct LM { long double e[4][4]; };                      // e[col][row]
static LM lm_ident() { LM m; for (int c = 0; c < 4; ++c) for (int r = 0; r < 4; ++r) m.e[c][r] = c == r ? 1.0L : 0.0L; return m; }
static LM lm_mul(LM const& a, LM const& b) {
    LM m;
    for (int c = 0; c < 4; ++c) for (int r = 0; r < 4; ++r) { long double s = 0; for (int k = 0; k < 4; ++k) s += a.e[k][r] * b.e[c][k]; m.e[c][r] = s; }
    return m;
}
static LM lm_quat(long double w, long double x, long double y, long double z) {
    LM m = lm_ident();
    m.e[0][0] = 1 - 2 * (y * y + z * z); m.e[0][1] = 2 * (x * y + w * z); m.e[0][2] = 2 * (x * z - w * y);
    m.e[1][0] = 2 * (x * y - w * z); m.e[1][1] = 1 - 2 * (x * x + z * z); m.e[1][2] = 2 * (y * z + w * x);
    m.e[2][0] = 2 * (x * z + w * y); m.e[2][1] = 2 * (y * z - w * x); m.e[2][2] = 1 - 2 * (x * x + y * y);
    return m;
}
static LM lm_axis(long double c, long double s, long double x, long double y, long double z) {      // Rodrigues, unit axis
    LM m = lm_ident(); long double t = 1 - c;
    m.e[0][0] = c + t * x * x; m.e[0][1] = t * x * y + s * z; m.e[0][2] = t * x * z - s * y;
    m.e[1][0] = t * x * y - s * z; m.e[1][1] = c + t * y * y; m.e[1][2] = t * y * z + s * x;
    m.e[2][0] = t * x * z + s * y; m.e[2][1] = t * y * z - s * x; m.e[2][2] = c + t * z * z;
    return m;
}
template<class T, glm::qualifier Q> glm::mat<4, 4, T, Q> lm_round(LM const& m) {
    glm::mat<4, 4, T, Q> r;
    for (int c = 0; c < 4; ++c) for (int rr = 0; rr < 4; ++rr) r[c][rr] = T(m.e[c][rr]);
    return r;
}

// ------------------------------------------------------------------ gtx/matrix_decompose
struct Pieces {
    int t[3], td;        // translation t/td
    int q[5];            // unit quaternion (w, x, y, z)/d
    int s[3], sd;        // scale s/sd
    int k[3], kd;        // skew (yz, xz, xy)/kd in the convention of recompose
    int p[4], pd;        // perspective (x, y, z, w)/pd
    int mode;            // 0: affine; 1: affine with the last row overwritten by (p.x, p.y, p.z, 1)/..; 2: P(p) * affine
};
static LM compose(Pieces const& c) {
    LM T = lm_ident(); for (int i = 0; i < 3; ++i) T.e[3][i] = (long double)c.t[i] / c.td;
    LM R = lm_quat((long double)c.q[0] / c.q[4], (long double)c.q[1] / c.q[4], (long double)c.q[2] / c.q[4], (long double)c.q[3] / c.q[4]);
    LM K1 = lm_ident(); K1.e[2][1] = (long double)c.k[0] / c.kd;
    LM K2 = lm_ident(); K2.e[2][0] = (long double)c.k[1] / c.kd;
    LM K3 = lm_ident(); K3.e[1][0] = (long double)c.k[2] / c.kd;
    LM S = lm_ident(); for (int i = 0; i < 3; ++i) S.e[i][i] = (long double)c.s[i] / c.sd;
    LM A = lm_mul(lm_mul(lm_mul(lm_mul(lm_mul(T, R), K1), K2), K3), S);
    if (c.mode == 1) { for (int i = 0; i < 3; ++i) A.e[i][3] = (long double)c.p[i] / c.pd; A.e[3][3] = 1.0L; }
    else if (c.mode == 2) { LM P = lm_ident(); for (int i = 0; i < 4; ++i) P.e[i][3] = (long double)c.p[i] / c.pd; A = lm_mul(P, A); }
    return A;
}
template<class T, glm::qualifier Q> void ev_decompose(Pieces const& c) {
    typedef typename Ty<T, Q>::V3 V3; typedef typename Ty<T, Q>::V4 V4; typedef typename Ty<T, Q>::Qt Qt; typedef typename Ty<T, Q>::M4 M4;
    M4 m = lm_round<T, Q>(compose(c));
    V3 S(0), Tr(0), K(0); V4 P(0); Qt O = Qt::wxyz(T(1), T(0), T(0), T(0));
    bool ok = glm::decompose(m, S, O, Tr, K, P);
    Ev e("decompose");
    e HDR(T, Q) .num("mode", c.mode)
        .num("t1", c.t[0]).num("t2", c.t[1]).num("t3", c.t[2]).num("td", c.td)
        .num("qw", c.q[0]).num("qx", c.q[1]).num("qy", c.q[2]).num("qz", c.q[3]).num("qd", c.q[4])
        .num("s1", c.s[0]).num("s2", c.s[1]).num("s3", c.s[2]).num("sd", c.sd)
        .num("k1", c.k[0]).num("k2", c.k[1]).num("k3", c.k[2]).num("kd", c.kd)
        .num("p1", c.p[0]).num("p2", c.p[1]).num("p3", c.p[2]).num("p4", c.p[3]).num("pd", c.pd)
        .arg(m).val("ok", ok).val("S", S).val("O", O).val("T", Tr).val("K", K).val("P", P);
    bool have_rc = false;
    if constexpr (std::is_same<T, float>::value && Q == glm::defaultp) {
        if (ok) { M4 rc = glm::recompose(S, O, Tr, K, P); e.val("RC", rc); have_rc = true; }
    }
#ifdef C09_HAVE_RECOMPOSE_D
    if constexpr (std::is_same<T, double>::value && Q == glm::defaultp) {
        if (ok) { M4 rc = glm::recompose(S, O, Tr, K, P); e.val("RC", rc); have_rc = true; }
    }
#endif
    e.num("rc", have_rc ? 1 : 0).emit();
}

// ------------------------------------------------------------------ gtx/matrix_interpolation
template<class T, glm::qualifier Q> void ev_axisAngle(Ang a, Ax const& ax, const int* tr) {
    typedef typename Ty<T, Q>::V3 V3; typedef typename Ty<T, Q>::M4 M4;
    long double f = (long double)ax.ad / ax.an;
    LM R = lm_axis((long double)a.cn / a.cd, (long double)a.sn / a.cd, std::ldexp((long double)ax.x, ax.e) * f, std::ldexp((long double)ax.y, ax.e) * f, std::ldexp((long double)ax.z, ax.e) * f);
    for (int i = 0; i < 3; ++i) R.e[3][i] = (long double)tr[i];
    M4 m = lm_round<T, Q>(R);
    auto axv = axis_vec<T, Q>(ax);
    V3 axis(0); T angle(0);
    glm::axisAngle(m, axis, angle);
    M4 back = glm::axisAngleMatrix(axis, angle);
    M4 ex = glm::extractMatrixRotation(m);
    Ev("axisAngle") HDR(T, Q) ANGF(a) AXF(ax) .arg(m).arg(axv).val("axis", axis).val("angle", angle).val("back", back).emit();
    Ev("extractMatrixRotation") HDR(T, Q) .arg(m).res(ex).emit();
}
// m1 = T(t1) R(q1),  m2 = T(t2) R(2 * half angle about axis) R(q1),  delta = dn/dd
template<class T, glm::qualifier Q> void ev_interpolate(const int* q1, Ang half, Ax const& ax, const int* t1, const int* t2, int dn, int dd) {
    typedef typename Ty<T, Q>::M4 M4;
    long double f = (long double)ax.ad / ax.an;
    long double ch = (long double)half.cn / half.cd, sh = (long double)half.sn / half.cd;
    LM R1 = lm_quat((long double)q1[0] / q1[4], (long double)q1[1] / q1[4], (long double)q1[2] / q1[4], (long double)q1[3] / q1[4]);
    LM Rd = lm_axis(ch * ch - sh * sh, 2 * sh * ch, std::ldexp((long double)ax.x, ax.e) * f, std::ldexp((long double)ax.y, ax.e) * f, std::ldexp((long double)ax.z, ax.e) * f);
    LM R2 = lm_mul(Rd, R1);
    for (int i = 0; i < 3; ++i) { R1.e[3][i] = (long double)t1[i]; R2.e[3][i] = (long double)t2[i]; }
    M4 m1 = lm_round<T, Q>(R1); M4 m2 = lm_round<T, Q>(R2);
    T delta = T(dn) / T(dd);
    auto axv = axis_vec<T, Q>(ax);
    M4 r = glm::interpolate(m1, m2, delta);
    Ev("interpolate") HDR(T, Q) .num("hcn", half.cn).num("hsn", half.sn).num("hcd", half.cd) AXF(ax)
        .num("qw", q1[0]).num("qx", q1[1]).num("qy", q1[2]).num("qz", q1[3]).num("qd", q1[4]).num("dn", dn).num("dd", dd)
        .arg(m1).arg(m2).arg(delta).arg(axv).res(r).emit();
}

// ------------------------------------------------------------------ corpus
static const int TURNS_Q[] = { 0, 1, -1, 3, -5 };
static const int TURNS_T[] = { 0, 1, -1, 2, -2, 3, -5, 8, -13 };

template<class T, glm::qualifier Q> void family(Rng& g, int scale_down) {
    typedef typename Ty<T, Q>::V2 V2; typedef typename Ty<T, Q>::V3 V3; typedef typename Ty<T, Q>::V4 V4;
    const int sd = scale_down;                              // 1 = full corpus; larger = every sd-th case
    const int* turns = g_thorough ? TURNS_T : TURNS_Q;
    const int nturns = g_thorough ? 9 : 5;
    auto B4 = bases4<T, Q>(g, g_thorough ? 48 : 6);
    auto B3 = bases3<T, Q>(g, g_thorough ? 36 : 5);
    auto VS = vecs3<T, Q>(g, g_thorough ? 60 : 7);
    const int reps = g_thorough ? 4 : 1;                    // the thorough tier walks the rotation grids with 4 different base matrices / turn counts
    int n = 0;
    const int thin = g_thorough ? 1 : 2;                    // the quick tier takes every second case of the large rotation grids
    ev_identity<T, Q>();
    // translate / scale / gtx single-argument forms
    for (size_t i = 0; i < B4.size(); ++i) for (size_t j = 0; j < VS.size(); ++j) if ((n++ % sd) == 0) { ev_translate<T, Q>(B4[i], VS[j]); ev_scale<T, Q>(B4[i], VS[j]); }
    for (size_t j = 0; j < VS.size(); ++j) if ((n++ % sd) == 0) ev_gtx1<T, Q>(VS[j]);
    // rotate: every (cos, sin) pair x every axis on a rotating base matrix; several turns
    for (int rep = 0; rep < reps; ++rep) for (int a = 0; a < NPY; ++a) for (int x = 0; x < NAX; ++x) {
        if ((n++ % (sd * thin)) != 0) continue;
        Ang an = { PY[a][0], PY[a][1], PY[a][2], ((x + rep) % 4 == 3) ? turns[(a + x + rep) % nturns] : 0 };
        ev_rotate<T, Q>(B4[size_t(a + x + rep * 11) % B4.size()], an, AXES[x]);
        if ((a + x) % 3 == 0) ev_rotate1<T, Q>(an, AXES[x]);
    }
    for (int a = 0; a < NPY; ++a) for (int k = 1; k < nturns; ++k) {
        if ((n++ % sd) != 0) continue;
        Ang an = { PY[a][0], PY[a][1], PY[a][2], turns[k] };
        ev_rotate<T, Q>(B4[size_t(a + k) % B4.size()], an, AXES[(a * 5 + k) % NAX]);
        ev_rotate1<T, Q>(an, AXES[(a * 7 + k) % NAX]);
    }
    // shear
    {
        const int L[][6] = { {0, 0, 0, 0, 0, 0}, {1, 0, 0, 0, 0, 0}, {0, 1, 0, 0, 0, 0}, {0, 0, 1, 0, 0, 0}, {0, 0, 0, 1, 0, 0}, {0, 0, 0, 0, 1, 0}, {0, 0, 0, 0, 0, 1},
                             {1, 2, 3, 4, 5, 6}, {-2, 1, 3, -1, 2, -3}, {2, 2, 2, 2, 2, 2} };
        for (size_t i = 0; i < B4.size(); ++i) for (int l = 0; l < 10; ++l) {
            if ((n++ % sd) != 0) continue;
            V3 p = VS[(i * 3 + size_t(l)) % VS.size()];
            ev_shear<T, Q>(B4[i], p, V2(T(L[l][0]), T(L[l][1])), V2(T(L[l][2]), T(L[l][3])), V2(T(L[l][4]), T(L[l][5])));
        }
        int nr = g_thorough ? 60 : 8;
        for (int i = 0; i < nr; ++i) {
            if ((n++ % sd) != 0) continue;
            T a0 = rnd_small<T>(g, 1 + i % 2); T a1 = rnd_small<T>(g, 1 + i % 2); T a2 = rnd_small<T>(g, 1 + i % 2);
            T a3 = rnd_small<T>(g, 1 + i % 2); T a4 = rnd_small<T>(g, 1 + i % 2); T a5 = rnd_small<T>(g, 1 + i % 2);
            ev_shear<T, Q>(B4[size_t(i) % B4.size()], VS[size_t(i) % VS.size()], V2(a0, a1), V2(a2, a3), V2(a4, a5));
        }
    }
    // transform2 and the 2D helpers
    for (size_t i = 0; i < B3.size(); ++i) for (int j = 0; j < (g_thorough ? 8 : 4); ++j) {
        if ((n++ % sd) != 0) continue;
        T s = j == 0 ? T(2) : j == 1 ? T(-3) : rnd_small<T>(g, 1); T t = j == 0 ? T(5) : j == 1 ? T(0.5) : rnd_small<T>(g, 1);
        ev_transform2<T, Q>(B3[i], B4[(i + size_t(j)) % B4.size()], s, t, AXES[(i * 4 + size_t(j)) % NAX]);
        Ang an = { PY[(i * 4 + size_t(j)) % NPY][0], PY[(i * 4 + size_t(j)) % NPY][1], PY[(i * 4 + size_t(j)) % NPY][2], turns[(i + size_t(j)) % size_t(nturns)] };
        V3 v = VS[(i + size_t(j) * 3) % VS.size()];
        ev_2d<T, Q>(B3[i], V2(v.x, v.y), an, s);
    }
    // rotate_vector, rotate_normalized_axis
    for (int rep = 0; rep < reps; ++rep) for (int a = 0; a < NPY; ++a) for (int x = rep % 2; x < NAX; x += 2) {
        if ((n++ % (sd * thin)) != 0) continue;
        Ang an = { PY[a][0], PY[a][1], PY[a][2], (a + x + rep) % 5 == 0 ? turns[((a + x) / 5 + rep + 1) % nturns] : 0 };
        V3 v = VS[size_t(a * 3 + x + rep * 13) % VS.size()];
        ev_rotvec<T, Q>(V4(v.x, v.y, v.z, T(1 + (a % 3))), an, AXES[(x + a) % NAX]);
        ev_rna<T, Q>(B4[size_t(a + x) % B4.size()], an, AXES[(x + a) % NAX], QTS[(a + x) % NQT]);
    }
    for (int i = 0; i < NAX; ++i) for (int j = 0; j < NAX; ++j) {
        Ax const& a = AXES[i]; Ax const& b = AXES[j];
        // skip anti-parallel pairs (the construction divides by |Up x Normal| = 0: outside the domain) but keep equal ones
        long long cx = (long long)a.y * b.z - (long long)a.z * b.y, cy = (long long)a.z * b.x - (long long)a.x * b.z, cz = (long long)a.x * b.y - (long long)a.y * b.x;
        long long dt = (long long)a.x * b.x + (long long)a.y * b.y + (long long)a.z * b.z;
        if (cx == 0 && cy == 0 && cz == 0 && dt < 0) continue;
        if ((n++ % (sd * (g_thorough ? 1 : 5))) != 0 && i != j) continue;
        ev_orientation<T, Q>(a, b);
    }
    // lookAt
    {
        const int UPS[][3] = { {0, 1, 0}, {0, 0, 1}, {1, 0, 0}, {1, 1, 0}, {0, -1, 2}, {-1, 2, 3}, {0, -1, 0} };
        int cnt = 0;
        for (int e = 0; e < 27; ++e) for (int c = 0; c < 27; ++c) for (int u = 0; u < 7; ++u) {
            if (e == c) continue;
            if (((cnt++) % ((g_thorough ? 2 : 23) * sd)) != 0) continue;
            const int bx[3] = { -1, 0, 2 };
            V3 eye = V3(T(bx[e % 3]), T(bx[(e / 3) % 3]), T(bx[(e / 9) % 3])), cen = V3(T(bx[c % 3] * 2), T(bx[(c / 3) % 3] * 2 + 1), T(bx[(c / 9) % 3] - 3));
            V3 up = V3(T(UPS[u][0]), T(UPS[u][1]), T(UPS[u][2]));
            ev_lookAt<T, Q>(eye, cen, up);
        }
        // large offsets, fractional data, up nearly parallel to the view direction (angle about 1e-3), up not normalised
        ev_lookAt<T, Q>(V3(1000, 2000, -3000), V3(1001, 2002, -3002), V3(0, 1, 0));
        ev_lookAt<T, Q>(V3(-5000, 12, 70000), V3(0, 0, 0), V3(0, 0, 1));
        ev_lookAt<T, Q>(V3(T(0.5), T(-1.25), T(3)), V3(T(2.75), T(1), T(-1)), V3(0, 10, 0));
        ev_lookAt<T, Q>(V3(0, 0, 5), V3(0, 0, 0), V3(T(1) / T(1024), 0, 1));
        ev_lookAt<T, Q>(V3(1, 2, 3), V3(1, 1002, 3), V3(0, 1000, 1));
        ev_lookAt<T, Q>(V3(3, -4, 12), V3(0, 0, 0), V3(-3, 4, T(-12) + T(1) / T(64)));
        ev_lookAt<T, Q>(V3(0, 0, 0), V3(0, 0, -1), V3(0, 1, 0));
        ev_lookAt<T, Q>(V3(0, 0, 0), V3(0, 0, 1), V3(0, 1, 0));
        ev_lookAt<T, Q>(V3(0, 0, 0), V3(0, 0, -1), V3(0, 1, 0) * T(0.001));
        int nr = (g_thorough ? 200 : 16) / sd;
        for (int i = 0; i < nr; ++i) {
            T e0 = rnd_small<T>(g, 2), e1 = rnd_small<T>(g, 2), e2 = rnd_small<T>(g, 2);
            T c0 = rnd_small<T>(g, 2), c1 = rnd_small<T>(g, 2), c2 = rnd_small<T>(g, 2);
            T u0 = rnd_small<T>(g, 1), u1 = rnd_small<T>(g, 1), u2 = rnd_small<T>(g, 1);
            ev_lookAt<T, Q>(V3(e0, e1, e2), V3(c0, c1, c2), V3(u0, u1, u2));
        }
    }
}

template<class T> void decompose_family(Rng& g) {
    const int SC[][4] = { {1, 1, 1, 1}, {2, 3, 4, 1}, {1, 2, 5, 2}, {3, 1, 2, 4}, {5, 5, 5, 1}, {1, 3, 2, 8} };
    const int SK[][4] = { {0, 0, 0, 1}, {1, 0, 0, 2}, {0, 1, 0, 2}, {0, 0, 1, 2}, {1, -2, 3, 8}, {-1, 1, 1, 4} };
    const int TR[][4] = { {0, 0, 0, 1}, {1, 2, 3, 1}, {-5, 7, 1, 2}, {10, -20, 30, 1} };
    const int PR[][5] = { {1, -2, 1, 8, 8}, {1, 1, 1, 16, 16}, {-1, 0, 2, 4, 4}, {0, 0, 1, 32, 32} };       // (x, y, z, w)/pd with w = pd
    int n = 0;
    int stride = g_thorough ? 2 : 37;
    for (int q = 0; q < NQT; ++q) for (int sg = 0; sg < 8; ++sg) for (int sc = 0; sc < 6; ++sc) for (int sk = 0; sk < 6; ++sk) for (int md = 0; md < 2; ++md) {
        if ((n++ % stride) != 0) continue;
        Pieces c;
        int ti = (q + sc + sk) % 4, pi = (q + sg + sk) % 4;
        for (int i = 0; i < 3; ++i) { c.t[i] = TR[ti][i]; c.s[i] = SC[sc][i] * (((sg >> i) & 1) ? -1 : 1); c.k[i] = SK[sk][i]; }
        c.td = TR[ti][3]; c.sd = SC[sc][3]; c.kd = SK[sk][3];
        for (int i = 0; i < 5; ++i) c.q[i] = QTS[q][i];
        for (int i = 0; i < 4; ++i) c.p[i] = md == 0 ? (i == 3 ? 1 : 0) : PR[pi][i];
        c.pd = md == 0 ? 1 : PR[pi][4];
        c.mode = md;
        ev_decompose<T, glm::defaultp>(c);
    }
    // a projective factor whose (3,3) entry is not 1: perspective.w = 2, or a translation that is seen by the perspective row
    for (int i = 0; i < 6; ++i) {
        Pieces c;
        for (int j = 0; j < 3; ++j) { c.t[j] = TR[1 + i % 3][j]; c.s[j] = SC[1 + i % 3][j]; c.k[j] = SK[i % 2 == 0 ? 0 : 4][j]; }
        c.td = TR[1 + i % 3][3]; c.sd = SC[1 + i % 3][3]; c.kd = SK[i % 2 == 0 ? 0 : 4][3];
        for (int j = 0; j < 5; ++j) c.q[j] = QTS[(i * 2 + 1) % NQT][j];
        c.p[0] = i < 2 ? 0 : 1; c.p[1] = i < 2 ? 0 : -2; c.p[2] = i < 2 ? 0 : 1; c.p[3] = i < 2 ? 16 : 8; c.pd = 8;
        c.mode = 2;
        ev_decompose<T, glm::defaultp>(c);
    }
    // small but non-zero uniform scales (determinant below numeric_limits::epsilon), and a singular matrix
    {
        const int small_sd[] = { 16, 256, 1 << 18 };
        for (int i = 0; i < 3; ++i) {
            Pieces c;
            for (int j = 0; j < 3; ++j) { c.t[j] = TR[1][j]; c.s[j] = 1; c.k[j] = 0; }
            c.td = 1; c.sd = small_sd[i]; c.kd = 1;
            for (int j = 0; j < 5; ++j) c.q[j] = QTS[2][j];
            c.p[0] = c.p[1] = c.p[2] = 0; c.p[3] = 1; c.pd = 1; c.mode = 0;
            ev_decompose<T, glm::defaultp>(c);
        }
        Pieces z;
        for (int j = 0; j < 3; ++j) { z.t[j] = 1; z.s[j] = j == 1 ? 0 : 2; z.k[j] = 0; }
        z.td = 1; z.sd = 1; z.kd = 1;
        for (int j = 0; j < 5; ++j) z.q[j] = QTS[1][j];
        z.p[0] = z.p[1] = z.p[2] = 0; z.p[3] = 1; z.pd = 1; z.mode = 0;
        ev_decompose<T, glm::defaultp>(z);
    }
    (void)g;
}

template<class T> void interpolation_family(Rng& g) {
    const int TRS[][3] = { {0, 0, 0}, {1, 2, 3}, {-4, 0, 6}, {10, -20, 30} };
    const int* turns = TURNS_Q;
    int n = 0;
    int stride = g_thorough ? 1 : 3;
    for (int a = 0; a < NPY; ++a) for (int x = 0; x < NAX; ++x) {
        if ((n++ % stride) != 0) continue;
        Ang an = { PY[a][0], PY[a][1], PY[a][2], 0 };
        ev_axisAngle<T, glm::defaultp>(an, AXES[x], TRS[(a + x) % 4]);
    }
    // every branch of axisAngle: the identity and the half turn about every axis (largest diagonal entry x / y / z, ties)
    for (int x = 0; x < NAX; ++x) {
        Ang ident = { 1, 0, 1, 0 }, halfturn = { -1, 0, 1, 0 };
        ev_axisAngle<T, glm::defaultp>(ident, AXES[x], TRS[x % 4]);
        ev_axisAngle<T, glm::defaultp>(halfturn, AXES[x], TRS[(x + 1) % 4]);
    }
    // half-angle pairs with a well-conditioned full angle, plus the identity (1, 0) and the half turn (0, 1)
    const int HALF[][3] = { {1, 0, 1}, {0, 1, 1}, {4, 3, 5}, {3, 4, 5}, {12, 5, 13}, {12, -5, 13}, {4, -3, 5}, {15, 8, 17}, {24, 7, 25} };
    n = 0;
    for (int h = 0; h < 9; ++h) for (int x = 0; x < NAX; ++x) for (int d = 0; d < 3; ++d) {
        if ((n++ % (stride * 2)) != 0) continue;
        Ang half = { HALF[h][0], HALF[h][1], HALF[h][2], 0 };
        ev_interpolate<T, glm::defaultp>(QTS[(h + x) % NQT], half, AXES[x], TRS[(h + d) % 4], TRS[(x + d + 1) % 4], d == 0 ? 0 : 1, d == 2 ? 2 : 1);
    }
    (void)g; (void)turns;
}

static void body(int argc, char** argv) {
    g_req = argc > 2 ? std::atoi(argv[2]) : 0;
    g_thorough = argc > 3 && std::string(argv[3]) == "thorough";
    g_full = !(argc > 4 && std::string(argv[4]) == "part");
#if (GLM_CONFIG_CLIP_CONTROL & GLM_CLIP_CONTROL_LH_BIT)
    g_lh = 1;
#endif
    int forced = 0;
#ifdef GLM_FORCE_LEFT_HANDED
    forced = 1;
#endif
    Ev("config").num("lh", g_lh).num("req", g_req).num("forced", forced).num("cc", GLM_CONFIG_CLIP_CONTROL).num("lh_bit", GLM_CLIP_CONTROL_LH_BIT).num("rh_bit", GLM_CLIP_CONTROL_RH_BIT).emit();
#ifndef C09_HAVE_RECOMPOSE_D
    // declared as a template over T in matrix_decompose.hpp but only instantiable for float (the driver's probe does not compile)
    Ev("missing").str("fn", "recompose<double>").emit();
#endif
    Rng g(seed_from_env() * 1000 + uint64_t(g_req));
    if (g_full) {
        family<float, glm::defaultp>(g, 1);
        family<double, glm::defaultp>(g, 1);
        family<float, glm::mediump>(g, 7);
        family<float, glm::lowp>(g, 7);
        family<double, glm::mediump>(g, 11);
        family<double, glm::lowp>(g, 11);
        decompose_family<float>(g);
        decompose_family<double>(g);
        interpolation_family<float>(g);
        interpolation_family<double>(g);
    } else {
        family<float, glm::defaultp>(g, 5);
        family<double, glm::defaultp>(g, 5);
    }
}

int main(int argc, char** argv) { return run_main(argc, argv, body); }
#endif
