// C06 harness: every pack/unpack pair of glm/packing.hpp and glm/gtc/packing.hpp.
//   c06 <trace-out> <mode>
// "rt" events start from a packed word p:      v = unpack(p), p2 = pack(v), v2 = unpack(p2)
// "pk" events start from a real vector x:      p = pack(x), u = unpack(p)
#include "common.hpp"
#include <new>
#include <glm/packing.hpp>
#include <glm/gtc/packing.hpp>
#include <functional>
using namespace vh;
static bool g_thorough = false;
static Rng* g_rng = nullptr;

template<class W> std::vector<uint64_t> words() {
    constexpr int B = int(sizeof(W) * 8);
    const uint64_t M = B == 64 ? ~0ull : ((1ull << B) - 1);
    std::vector<uint64_t> v;
    const int shifts[] = { 0, 3, 4, 5, 6, 8, 10, 11, 12, 15, 16, 20, 22, 24, 27, 30, 32, 48 };
    const int K = B <= 16 ? B : 16;
    // the low K bits exhaustively (strided above 2^11 in quick) over both backgrounds ...
    uint64_t step = (g_thorough || K <= 11) ? 1 : 29;
    for (uint64_t c = 0; c < (1ull << K); c += step) { v.push_back(c & M); v.push_back((c | ~((1ull << K) - 1)) & M); }
    // ... and every k-bit code window (k = 11 thorough, 6 quick, plus boundary codes of every width up to 16) at every field offset
    for (int s : shifts) { if (s >= B || s == 0) continue;
        int k = std::min(g_thorough ? 11 : 6, B - s);
        for (uint64_t c = 0; c < (1ull << k); ++c) { v.push_back((c << s) & M); v.push_back(((c << s) | ~(((1ull << k) - 1) << s)) & M); }
        for (int kk = 1; kk <= std::min(16, B - s); ++kk) for (uint64_t c : { (1ull << kk) - 1, (1ull << kk) - 2, 1ull << (kk - 1), (1ull << (kk - 1)) + 1 }) { v.push_back((c << s) & M); v.push_back(((c << s) | (g_rng->next() & ~(((1ull << kk) - 1) << s))) & M); }
    }
    for (int i = 0; i < (g_thorough ? 20000 : 800); ++i) v.push_back(g_rng->next() & M);
    return v;
}

template<class T> void set_comp(T& v, int i, float x) { v[i] = typename T::value_type(x); }

// real-valued inputs for a normalised / small-float format: per component scale S (0 => "free float" inputs)
template<class V> std::vector<V> real_inputs(const std::vector<double>& scales, bool snorm) {
    typedef typename V::value_type F;
    const int L = int(scales.size());
    std::vector<V> out;
    std::vector<std::vector<F>> per(L);
    for (int i = 0; i < L; ++i) {
        double S = scales[i]; std::vector<F>& p = per[i];
        if (S > 0) {
            long lo = snorm ? -long(S) - 1 : 0, hi = long(S);
            long stride = (hi - lo) > 2048 && !g_thorough ? 397 : 1;
            for (long c = lo; c <= hi; c += stride) { F x = F(double(c) / S); p.push_back(x); F m = F((double(c) + 0.5) / S); p.push_back(m); p.push_back(std::nextafter(m, F(2))); p.push_back(std::nextafter(m, F(-2))); }
            for (long c : { lo, lo + 1, hi - 1, hi, long(0), long(1), long(-1) }) { p.push_back(F(double(c) / S)); p.push_back(F((double(c) - 0.5) / S)); p.push_back(F((double(c) + 0.5) / S)); }
            for (double x : { -2.0, -1.0, -0.0, 0.0, 1.0, 2.0, 1e30, -1e30, 1e-30, 0.5, -0.5, 0.999999, 1.000001, -1.000001 }) p.push_back(F(x));
            p.push_back(std::numeric_limits<F>::infinity()); p.push_back(-std::numeric_limits<F>::infinity());
            for (int k = 0; k < (g_thorough ? 4000 : 300); ++k) p.push_back(F((double(g_rng->below(2400001)) - 1200000.0) / 1000000.0));
        } else {
            // small floats / shared exponent: a wide range of magnitudes and mantissas, both signs, specials
            for (int e = -30; e <= 20; ++e) for (double m : { 1.0, 1.015625, 1.03125, 1.5, 1.984375, 1.96875, 1.9999 }) { double x = std::ldexp(m, e); p.push_back(F(x)); if (e % 7 == 0) p.push_back(F(-x)); }
            for (double x : { 0.0, -0.0, 65024.0, 65025.0, 64512.0, 65408.0, 65409.0, 65536.0, 70000.0, 1e10, 3.0517578125e-05, 3.0e-05, 3.1e-05, 1e-8, 0.1, 0.3, 1.0, 2.0, 3.14159, 100.0, 1000.5, 12345.0 }) p.push_back(F(x));
            p.push_back(std::numeric_limits<F>::infinity()); p.push_back(-std::numeric_limits<F>::infinity()); p.push_back(std::numeric_limits<F>::quiet_NaN());
            for (int k = 0; k < (g_thorough ? 6000 : 500); ++k) { uint32_t b = (uint32_t(g_rng->next()) & 0x007FFFFFu) | (uint32_t(100 + g_rng->below(46)) << 23); p.push_back(F(from_bits<float>(b))); }
        }
    }
    size_t n = 0; for (auto& p : per) n = std::max(n, p.size());
    for (size_t k = 0; k < n; ++k) { V v; for (int i = 0; i < L; ++i) v[i] = per[i][(k + size_t(i) * 7) % per[i].size()]; out.push_back(v); }
    return out;
}

// An object at the least alignment its type guarantees (address = alignof(V) modulo 64): the vector arguments of the pack functions
// live there, so that an access which assumes more than alignof(V) (a reinterpret_cast load of the whole word) is a misaligned access
// that the monitored replay (C20) can see.  The values are unchanged.
template<class V> struct MinAligned {
    alignas(64) unsigned char buf[64 + sizeof(V) + 64]; V* p;
    explicit MinAligned(V const& v) { p = reinterpret_cast<V*>(buf + alignof(V)); new (p) V(v); }
    V const& get() const { return *p; }
};
// generic driver.  W = packed word type, V = unpacked vector/scalar wrapper (vec<L,T>)
template<class W, class V, class PACK, class UNPACK>
void drive(const char* name, PACK pack, UNPACK unpack, const std::vector<V>& inputs, bool do_words = true) {
    if (do_words) for (uint64_t b : words<W>()) {
        W p = from_bits<W>(b);
        V v = unpack(p); MinAligned<V> mv(v); W p2 = pack(mv.get()); V v2 = unpack(p2);
        Ev("rt").str("fmt", name).arg(p).val("v", v).val("p2", p2).val("v2", v2).emit();
    }
    for (const V& x : inputs) { MinAligned<V> mx(x); W p = pack(mx.get()); V u = unpack(p); Ev("pk").str("fmt", name).arg(x).res(p).val("u", u).emit(); }
}
template<class V> std::vector<V> int_inputs() {
    typedef typename V::value_type T; std::vector<V> out; std::vector<uint64_t> lat = int_lattice<T>();
    for (size_t k = 0; k < lat.size(); ++k) { V v; for (int i = 0; i < int(v.length()); ++i) v[i] = from_bits<T>(lat[(k + size_t(i) * 5) % lat.size()]); out.push_back(v); }
    for (int k = 0; k < 400; ++k) { V v; for (int i = 0; i < int(v.length()); ++i) v[i] = from_bits<T>(g_rng->next()); out.push_back(v); }
    return out;
}

static void body(int argc, char** argv) {
    g_thorough = argc > 2 && std::string(argv[2]) == "thorough";
    Rng rng(seed_from_env()); g_rng = &rng;
    using namespace glm;
    typedef vec<1, float, defaultp> f1;
    // core
    drive<uint, vec2>("Unorm2x16", [](vec2 const& v) { return packUnorm2x16(v); }, [](uint p) { return unpackUnorm2x16(p); }, real_inputs<vec2>({ 65535, 65535 }, false));
    drive<uint, vec2>("Snorm2x16", [](vec2 const& v) { return packSnorm2x16(v); }, [](uint p) { return unpackSnorm2x16(p); }, real_inputs<vec2>({ 32767, 32767 }, true));
    drive<uint, vec4>("Unorm4x8", [](vec4 const& v) { return packUnorm4x8(v); }, [](uint p) { return unpackUnorm4x8(p); }, real_inputs<vec4>({ 255, 255, 255, 255 }, false));
    drive<uint, vec4>("Snorm4x8", [](vec4 const& v) { return packSnorm4x8(v); }, [](uint p) { return unpackSnorm4x8(p); }, real_inputs<vec4>({ 127, 127, 127, 127 }, true));
    drive<uint64, uvec2>("Double2x32", [](uvec2 const& v) { return to_bits(packDouble2x32(v)); }, [](uint64 p) { return unpackDouble2x32(from_bits<double>(p)); }, int_inputs<uvec2>());
    // half formats (conversion itself is C07's subject; here: consistency, layout, canonical codes)
    drive<uint, vec2>("Half2x16", [](vec2 const& v) { return packHalf2x16(v); }, [](uint p) { return unpackHalf2x16(p); }, real_inputs<vec2>({ 0, 0 }, false));
    drive<uint16, f1>("Half1x16", [](f1 const& v) { return packHalf1x16(v.x); }, [](uint16 p) { return f1(unpackHalf1x16(p)); }, real_inputs<f1>({ 0 }, false));
    drive<uint64, vec4>("Half4x16", [](vec4 const& v) { return packHalf4x16(v); }, [](uint64 p) { return unpackHalf4x16(p); }, real_inputs<vec4>({ 0, 0, 0, 0 }, false));
    // gtc: normalised
    drive<uint8, f1>("Unorm1x8", [](f1 const& v) { return packUnorm1x8(v.x); }, [](uint8 p) { return f1(unpackUnorm1x8(p)); }, real_inputs<f1>({ 255 }, false));
    drive<uint16, vec2>("Unorm2x8", [](vec2 const& v) { return packUnorm2x8(v); }, [](uint16 p) { return unpackUnorm2x8(p); }, real_inputs<vec2>({ 255, 255 }, false));
    drive<uint8, f1>("Snorm1x8", [](f1 const& v) { return packSnorm1x8(v.x); }, [](uint8 p) { return f1(unpackSnorm1x8(p)); }, real_inputs<f1>({ 127 }, true));
    drive<uint16, vec2>("Snorm2x8", [](vec2 const& v) { return packSnorm2x8(v); }, [](uint16 p) { return unpackSnorm2x8(p); }, real_inputs<vec2>({ 127, 127 }, true));
    drive<uint16, f1>("Unorm1x16", [](f1 const& v) { return packUnorm1x16(v.x); }, [](uint16 p) { return f1(unpackUnorm1x16(p)); }, real_inputs<f1>({ 65535 }, false));
    drive<uint64, vec4>("Unorm4x16", [](vec4 const& v) { return packUnorm4x16(v); }, [](uint64 p) { return unpackUnorm4x16(p); }, real_inputs<vec4>({ 65535, 65535, 65535, 65535 }, false));
    drive<uint16, f1>("Snorm1x16", [](f1 const& v) { return packSnorm1x16(v.x); }, [](uint16 p) { return f1(unpackSnorm1x16(p)); }, real_inputs<f1>({ 32767 }, true));
    drive<uint64, vec4>("Snorm4x16", [](vec4 const& v) { return packSnorm4x16(v); }, [](uint64 p) { return unpackSnorm4x16(p); }, real_inputs<vec4>({ 32767, 32767, 32767, 32767 }, true));
    drive<uint32, vec4>("Snorm3x10_1x2", [](vec4 const& v) { return packSnorm3x10_1x2(v); }, [](uint32 p) { return unpackSnorm3x10_1x2(p); }, real_inputs<vec4>({ 511, 511, 511, 1 }, true));
    drive<uint32, vec4>("Unorm3x10_1x2", [](vec4 const& v) { return packUnorm3x10_1x2(v); }, [](uint32 p) { return unpackUnorm3x10_1x2(p); }, real_inputs<vec4>({ 1023, 1023, 1023, 3 }, false));
    drive<uint8, vec2>("Unorm2x4", [](vec2 const& v) { return packUnorm2x4(v); }, [](uint8 p) { return unpackUnorm2x4(p); }, real_inputs<vec2>({ 15, 15 }, false));
    drive<uint16, vec4>("Unorm4x4", [](vec4 const& v) { return packUnorm4x4(v); }, [](uint16 p) { return unpackUnorm4x4(p); }, real_inputs<vec4>({ 15, 15, 15, 15 }, false));
    drive<uint16, vec3>("Unorm1x5_1x6_1x5", [](vec3 const& v) { return packUnorm1x5_1x6_1x5(v); }, [](uint16 p) { return unpackUnorm1x5_1x6_1x5(p); }, real_inputs<vec3>({ 31, 63, 31 }, false));
    drive<uint16, vec4>("Unorm3x5_1x1", [](vec4 const& v) { return packUnorm3x5_1x1(v); }, [](uint16 p) { return unpackUnorm3x5_1x1(p); }, real_inputs<vec4>({ 31, 31, 31, 1 }, false));
    drive<uint8, vec3>("Unorm2x3_1x2", [](vec3 const& v) { return packUnorm2x3_1x2(v); }, [](uint8 p) { return unpackUnorm2x3_1x2(p); }, real_inputs<vec3>({ 7, 7, 3 }, false));
    // gtc: integer bit fields
    drive<uint32, ivec4>("I3x10_1x2", [](ivec4 const& v) { return packI3x10_1x2(v); }, [](uint32 p) { return unpackI3x10_1x2(p); }, int_inputs<ivec4>());
    drive<uint32, uvec4>("U3x10_1x2", [](uvec4 const& v) { return packU3x10_1x2(v); }, [](uint32 p) { return unpackU3x10_1x2(p); }, int_inputs<uvec4>());
    drive<int16, i8vec2>("Int2x8", [](i8vec2 const& v) { return packInt2x8(v); }, [](int16 p) { return unpackInt2x8(p); }, int_inputs<i8vec2>());
    drive<uint16, u8vec2>("Uint2x8", [](u8vec2 const& v) { return packUint2x8(v); }, [](uint16 p) { return unpackUint2x8(p); }, int_inputs<u8vec2>());
    drive<int32, i8vec4>("Int4x8", [](i8vec4 const& v) { return packInt4x8(v); }, [](int32 p) { return unpackInt4x8(p); }, int_inputs<i8vec4>());
    drive<uint32, u8vec4>("Uint4x8", [](u8vec4 const& v) { return packUint4x8(v); }, [](uint32 p) { return unpackUint4x8(p); }, int_inputs<u8vec4>());
    drive<int, i16vec2>("Int2x16", [](i16vec2 const& v) { return packInt2x16(v); }, [](int p) { return unpackInt2x16(p); }, int_inputs<i16vec2>());
    drive<uint, u16vec2>("Uint2x16", [](u16vec2 const& v) { return packUint2x16(v); }, [](uint p) { return unpackUint2x16(p); }, int_inputs<u16vec2>());
    drive<int64, i16vec4>("Int4x16", [](i16vec4 const& v) { return packInt4x16(v); }, [](int64 p) { return unpackInt4x16(p); }, int_inputs<i16vec4>());
    drive<uint64, u16vec4>("Uint4x16", [](u16vec4 const& v) { return packUint4x16(v); }, [](uint64 p) { return unpackUint4x16(p); }, int_inputs<u16vec4>());
    drive<int64, i32vec2>("Int2x32", [](i32vec2 const& v) { return packInt2x32(v); }, [](int64 p) { return unpackInt2x32(p); }, int_inputs<i32vec2>());
    drive<uint64, u32vec2>("Uint2x32", [](u32vec2 const& v) { return packUint2x32(v); }, [](uint64 p) { return unpackUint2x32(p); }, int_inputs<u32vec2>());
    // gtc: small floats and shared exponent
    drive<uint32, vec3>("F2x11_1x10", [](vec3 const& v) { return packF2x11_1x10(v); }, [](uint32 p) { return unpackF2x11_1x10(p); }, real_inputs<vec3>({ 0, 0, 0 }, false));
    drive<uint32, vec3>("F3x9_E1x5", [](vec3 const& v) { return packF3x9_E1x5(v); }, [](uint32 p) { return unpackF3x9_E1x5(p); }, real_inputs<vec3>({ 0, 0, 0 }, false));
    // templated vector packers: each component in its own word; logged per vector with format T<kind><bits>
    { auto in = real_inputs<vec3>({ 255, 255, 255 }, false); for (auto& x : in) { u8vec3 p = packUnorm<uint8>(x); vec3 u = unpackUnorm<float>(p); Ev("pkT").str("fmt", "TUnorm8").arg(x).res(p).val("u", u).emit(); } }
    { auto in = real_inputs<vec4>({ 65535, 65535, 65535, 65535 }, false); for (auto& x : in) { u16vec4 p = packUnorm<uint16>(x); vec4 u = unpackUnorm<float>(p); Ev("pkT").str("fmt", "TUnorm16").arg(x).res(p).val("u", u).emit(); } }
    { auto in = real_inputs<vec2>({ 127, 127 }, true); for (auto& x : in) { i8vec2 p = packSnorm<int8>(x); vec2 u = unpackSnorm<float>(p); Ev("pkT").str("fmt", "TSnorm8").arg(x).res(p).val("u", u).emit(); } }
    { auto in = real_inputs<vec3>({ 32767, 32767, 32767 }, true); for (auto& x : in) { i16vec3 p = packSnorm<int16>(x); vec3 u = unpackSnorm<float>(p); Ev("pkT").str("fmt", "TSnorm16").arg(x).res(p).val("u", u).emit(); } }
    { auto in = real_inputs<dvec2>({ 255, 255 }, false); for (auto& x : in) { u8vec2 p = packUnorm<uint8>(x); dvec2 u = unpackUnorm<double>(p); Ev("pkT").str("fmt", "TUnorm8").arg(x).res(p).val("u", u).emit(); } }
    { auto in = real_inputs<dvec3>({ 32767, 32767, 32767 }, true); for (auto& x : in) { i16vec3 p = packSnorm<int16>(x); dvec3 u = unpackSnorm<double>(p); Ev("pkT").str("fmt", "TSnorm16").arg(x).res(p).val("u", u).emit(); } }
    for (::uint64_t c = 0; c < 256; ++c) { u8vec4 p(uint8(c), uint8(255 - c), uint8(c ^ 0x55), uint8(c * 7)); vec4 v = unpackUnorm<float>(p); u8vec4 p2 = packUnorm<uint8>(v); Ev("rtT").str("fmt", "TUnorm8").arg(p).val("v", v).val("p2", p2).emit();
        i8vec4 q(int8(c), int8(255 - c), int8(c ^ 0x55), int8(c * 7)); vec4 w = unpackSnorm<float>(q); i8vec4 q2 = packSnorm<int8>(w); Ev("rtT").str("fmt", "TSnorm8").arg(q).val("v", w).val("p2", q2).emit(); }
    // the templated half packers of gtc/packing (one word per component, vec1..vec4): every code, each component position with its own code
    for (::uint64_t c = 0; c < 65536; c += (g_thorough ? 1 : 7)) {
        uint16 c0 = uint16(c), c1 = uint16(65535 - c), c2 = uint16(c ^ 0x5555), c3 = uint16(c * 3 + 1);
        { u16vec1 p(c0); vec1 v = unpackHalf(p); u16vec1 p2 = packHalf(v); Ev("rtT").str("fmt", "Half1x16").arg(p).val("v", v).val("p2", p2).emit(); }
        { u16vec2 p(c0, c1); vec2 v = unpackHalf(p); u16vec2 p2 = packHalf(v); Ev("rtT").str("fmt", "Half1x16").arg(p).val("v", v).val("p2", p2).emit(); }
        { u16vec3 p(c0, c1, c2); vec3 v = unpackHalf(p); u16vec3 p2 = packHalf(v); Ev("rtT").str("fmt", "Half1x16").arg(p).val("v", v).val("p2", p2).emit(); }
        { u16vec4 p(c0, c1, c2, c3); vec4 v = unpackHalf(p); u16vec4 p2 = packHalf(v); Ev("rtT").str("fmt", "Half1x16").arg(p).val("v", v).val("p2", p2).emit(); }
    }
    for (::uint64_t c = 0; c < 65536; c += (g_thorough ? 1 : 11)) { u16vec2 p(uint16(c), uint16(65535 - c)); vec2 v = unpackUnorm<float>(p); u16vec2 p2 = packUnorm<uint16>(v); Ev("rtT").str("fmt", "TUnorm16").arg(p).val("v", v).val("p2", p2).emit();
        i16vec2 q(int16(c), int16(65535 - c)); vec2 w = unpackSnorm<float>(q); i16vec2 q2 = packSnorm<int16>(w); Ev("rtT").str("fmt", "TSnorm16").arg(q).val("v", w).val("p2", q2).emit(); }
    // RGBM
    for (int k = 0; k < (g_thorough ? 20000 : 1500); ++k) { vec3 c(float(rng.below(6001)) / 1000.f, float(rng.below(6001)) / 1000.f, float(rng.below(600)) / 1000.f); if (k % 5 == 0) c = vec3(c.z, c.z, c.z);
        vec4 m = packRGBM(c); vec3 u = unpackRGBM(m); Ev("rgbm").arg(c).res(m).val("u", u).emit(); }
}
int main(int argc, char** argv) { return run_main(argc, argv, body); }
