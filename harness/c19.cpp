// C19 harness: colour-space conversions (gtc/color_space, gtx/color_space, gtx/color_space_YCoCg).
// argv: <trace-out> <tier> [section: all | srgb | hsv | ycocg | int | sat]
// The harness only executes GLM calls and logs raw bit patterns; every expected value, tolerance and law
// lives in spec/glm/GlmColor.tla / spec/trace/Trace_C19.tla.  The only aggregation done here is the
// equality count of the exhaustive YCoCg-R round-trip sweep (inverse(forward(t)) == t needs no oracle).
#include "common.hpp"
#include <glm/gtc/color_space.hpp>
#include <glm/gtx/color_space.hpp>
#include <glm/gtx/color_space_YCoCg.hpp>
#include <algorithm>
#include <utility>
using namespace vh;

static bool g_thorough = false;

template<glm::qualifier Q> const char* qname() { return Q == glm::highp ? "h" : (Q == glm::mediump ? "m" : "l"); }
#define EVQ(OP, T, L, Q) Ev(OP).str("t", TI<T>::code()).num("n", L).str("q", qname<Q>())

template<class T> T ratio(long long n, long long d) { return T(n) / T(d); }          // one correctly rounded division
template<class T> T nudge(T x, int k) {                                              // k steps along the ordered line (x > 0)
    typedef typename std::conditional<sizeof(T) == 4, uint32_t, uint64_t>::type U;
    U b = U(to_bits(x)); b = U(b + U(k)); return from_bits<T>(b);
}
template<class T> T pow2(int e) { T r = T(1); for (int i = 0; i < (e < 0 ? -e : e); ++i) r = e < 0 ? r / T(2) : r * T(2); return r; }
template<class T> T unit_random(Rng& rng) { return T((long long)rng.below(1u << 24)) / T(1 << 24); }     // k / 2^24, exact in float

static const int GAMMAS[6][2] = { {12, 5}, {11, 5}, {1, 1}, {2, 1}, {3, 1}, {3, 2} };

// ------------------------------------------------------------------ sRGB transfer curves
template<class T> std::vector<T> srgb_points(int N, int nrand, Rng& rng) {
    std::vector<T> p;
    for (int i = 0; i <= N; ++i) p.push_back(ratio<T>(i, N));
    const T knees[2] = { static_cast<T>(0.0031308), static_cast<T>(0.04045) };
    for (T k : knees) for (int d = -3; d <= 3; ++d) p.push_back(nudge(k, d));
    for (int d = -2; d <= 2; ++d) { p.push_back(nudge(ratio<T>(31308, 10000000), d)); p.push_back(nudge(ratio<T>(4045, 100000), d)); }
    for (T k : knees) for (int e = 3; e <= 19; e += 2) { p.push_back(k + k * pow2<T>(-e)); p.push_back(k - k * pow2<T>(-e - 1)); }     // any other threshold is separated from the documented one
    for (int e = 1; e <= 24; ++e) { p.push_back(pow2<T>(-e)); p.push_back(T(3) * pow2<T>(-e - 2)); }
    p.push_back(pow2<T>(-60)); p.push_back(std::numeric_limits<T>::min()); p.push_back(std::numeric_limits<T>::denorm_min());
    p.push_back(nudge(T(1), -1)); p.push_back(nudge(T(1), -2));
    // where 1.055 x^(1/g) - 0.055 changes sign for the small gammas, and around the toe on both scales
    for (int i = 1; i <= 40; ++i) { p.push_back(ratio<T>(i, 640)); p.push_back(ratio<T>(i, 10000)); }
    for (int i = 0; i < nrand; ++i) {
        T u = unit_random<T>(rng);
        switch (i % 4) { case 0: p.push_back(u); break; case 1: p.push_back(u / T(16)); break; case 2: p.push_back(u / T(256)); break; default: p.push_back(u * u); }
    }
    std::sort(p.begin(), p.end());
    p.erase(std::unique(p.begin(), p.end()), p.end());
    return p;
}
static const uint32_t ALPHA32[] = { 0x3f000000u, 0x00000000u, 0x80000000u, 0x3f800000u, 0x7f800000u, 0xff800000u, 0x7fc00000u, 0xc2f6e979u,
                                    0x00000001u, 0x3b4d2e1cu, 0x3d25aee6u, 0x40490fdbu, 0xbf000000u, 0x7f7fffffu, 0x00800000u, 0x12345678u };
template<class T> T alpha_of(size_t i) {
    uint32_t a = ALPHA32[i % 16];
    if constexpr (sizeof(T) == 4) return from_bits<T>(a);
    else { // widen the pattern without arithmetic on NaNs: take sign/exponent class from the table, payload from i
        switch (i % 8) { case 0: return from_bits<T>(0x3fe0000000000000ull); case 1: return from_bits<T>(0x8000000000000000ull);
                         case 2: return from_bits<T>(0x7ff0000000000000ull); case 3: return from_bits<T>(0x7ff8000000000000ull);
                         case 4: return from_bits<T>(0x3fa4b5dcc63f1412ull); case 5: return from_bits<T>(0xc05edd2f1a9fbe77ull);
                         case 6: return from_bits<T>(0x0000000000000001ull); default: return from_bits<T>(0x3f69a5c37387b719ull); }
    }
}

template<int L, class T, glm::qualifier Q> void srgb_values(glm::vec<L, T, Q> const& x, int ngamma) {
    { auto r = glm::convertLinearToSRGB(x); EVQ("l2s", T, L, Q).num("gp", 0).num("gq", 0).arg(x).res(r).emit(); }
    { auto r = glm::convertSRGBToLinear(x); EVQ("s2l", T, L, Q).num("gp", 0).num("gq", 0).arg(x).res(r).emit(); }
    for (int k = 0; k < ngamma; ++k) {
        T g = ratio<T>(GAMMAS[k][0], GAMMAS[k][1]);
        { auto r = glm::convertLinearToSRGB(x, g); EVQ("l2s", T, L, Q).num("gp", GAMMAS[k][0]).num("gq", GAMMAS[k][1]).arg(x).arg(g).res(r).emit(); }
        { auto r = glm::convertSRGBToLinear(x, g); EVQ("s2l", T, L, Q).num("gp", GAMMAS[k][0]).num("gq", GAMMAS[k][1]).arg(x).arg(g).res(r).emit(); }
    }
}
// composed inverse: y = forward(x), z = backward(y); d = "ls": linear -> sRGB -> linear, "sl": sRGB -> linear -> sRGB
template<int L, class T, glm::qualifier Q> void srgb_roundtrip(glm::vec<L, T, Q> const& x, int ngamma) {
    { auto y = glm::convertLinearToSRGB(x); auto z = glm::convertSRGBToLinear(y);
      EVQ("srgbRT", T, L, Q).str("d", "ls").num("gp", 0).num("gq", 0).arg(x).val("y", y).res(z).emit(); }
    { auto y = glm::convertSRGBToLinear(x); auto z = glm::convertLinearToSRGB(y);
      EVQ("srgbRT", T, L, Q).str("d", "sl").num("gp", 0).num("gq", 0).arg(x).val("y", y).res(z).emit(); }
    for (int k = 0; k < ngamma; ++k) {
        T g = ratio<T>(GAMMAS[k][0], GAMMAS[k][1]);
        { auto y = glm::convertLinearToSRGB(x, g); auto z = glm::convertSRGBToLinear(y, g);
          EVQ("srgbRT", T, L, Q).str("d", "ls").num("gp", GAMMAS[k][0]).num("gq", GAMMAS[k][1]).arg(x).arg(g).val("y", y).res(z).emit(); }
        { auto y = glm::convertSRGBToLinear(x, g); auto z = glm::convertLinearToSRGB(y, g);
          EVQ("srgbRT", T, L, Q).str("d", "sl").num("gp", GAMMAS[k][0]).num("gq", GAMMAS[k][1]).arg(x).arg(g).val("y", y).res(z).emit(); }
    }
}
template<int L, class T, glm::qualifier Q> glm::vec<L, T, Q> window(std::vector<T> const& p, size_t i, size_t salt) {
    glm::vec<L, T, Q> v;
    for (int c = 0; c < L; ++c) v[c] = p[(i + size_t(c)) % p.size()];
    if constexpr (L == 4) v[3] = alpha_of<T>(i + salt);
    return v;
}
template<class T> void srgb_all(Rng& rng) {
    const bool f = sizeof(T) == 4;
    std::vector<T> p = srgb_points<T>(g_thorough ? (f ? 512 : 128) : (f ? 64 : 24), g_thorough ? (f ? 1500 : 300) : (f ? 120 : 30), rng);
    if (!f && !g_thorough) {      // the exact comparisons on double are ~3x dearer: thin the list (keeping 0, 1 and the points around both knees)
        std::vector<T> q;
        for (size_t i = 0; i < p.size(); ++i)
            if (i % 3 != 1 || p[i] == T(0) || p[i] == T(1) || (p[i] > T(0.0031) && p[i] < T(0.0032)) || (p[i] > T(0.0404) && p[i] < T(0.0405))) q.push_back(p[i]);
        p.swap(q);
    }
    const size_t n = p.size();
    const size_t full = g_thorough ? 1 : (f ? 2 : 4);          // every full-th window gets all six explicit gammas, the others 12/5 and 11/5
    for (size_t i = 0, w = 0; i + 2 < n; i += 3, ++w) srgb_values(window<3, T, glm::highp>(p, i, 0), w % full == 0 ? 6 : 2);
    for (size_t i = 0, w = 0; i + 2 < n; i += 11, ++w) srgb_values(window<4, T, glm::highp>(p, i, 0), w % 2 == 0 ? 6 : 2);
    for (size_t i = 0; i + 2 < n; i += 15) srgb_values(window<3, T, glm::mediump>(p, i, 0), 2);
    for (size_t i = 0; i + 2 < n; i += 6) srgb_values(window<3, T, glm::lowp>(p, i, 0), i % 4 == 0 ? 2 : 0);       // float: the approximation specialisation
    for (size_t i = 0; i + 2 < n; i += 20) { srgb_values(window<4, T, glm::mediump>(p, i, 3), 1); srgb_values(window<4, T, glm::lowp>(p, i, 5), 1); }
    for (size_t i = 0; i + 1 < n; i += 16) { srgb_values(window<2, T, glm::highp>(p, i, 0), 2); srgb_values(window<1, T, glm::highp>(p, i + 1, 0), 2); }
    // out-of-domain components next to in-domain ones (they constrain nothing; the in-domain neighbours are still judged)
    { const T odd[] = { T(-0.5), T(1.5), T(2), from_bits<T>(sizeof(T) == 4 ? 0x7fc00000ull : 0x7ff8000000000000ull), from_bits<T>(sizeof(T) == 4 ? 0x7f800000ull : 0x7ff0000000000000ull),
                        T(-1), from_bits<T>(sizeof(T) == 4 ? 0x80000000ull : 0x8000000000000000ull) };
      for (size_t i = 0; i < 7; ++i) { glm::vec<3, T, glm::highp> v(odd[i], ratio<T>(1, 2), odd[(i + 1) % 7]); srgb_values(v, 2);
                                       glm::vec<4, T, glm::highp> w(ratio<T>(1, 4), odd[i], ratio<T>(3, 4), odd[(i + 2) % 7]); srgb_values(w, 1); } }
    // composed inverse on a denser grid (cheap to judge)
    std::vector<T> d = srgb_points<T>(g_thorough ? 4096 : 512, g_thorough ? 4000 : 600, rng);
    const size_t m = d.size();
    for (size_t i = 0; i + 2 < m; i += 4) srgb_roundtrip(window<3, T, glm::highp>(d, i, 0), 6);
    for (size_t i = 0; i + 2 < m; i += 23) { srgb_roundtrip(window<4, T, glm::highp>(d, i, 1), 3); srgb_roundtrip(window<3, T, glm::mediump>(d, i, 0), 2);
                                             srgb_roundtrip(window<2, T, glm::lowp>(d, i, 0), 1); srgb_roundtrip(window<4, T, glm::lowp>(d, i, 2), 1); }
}

// ------------------------------------------------------------------ HSV <-> RGB
template<class T, glm::qualifier Q> void hsv_of(glm::vec<3, T, Q> const& rgb) {
    glm::vec<3, T, Q> h = glm::hsvColor(rgb);
    EVQ("hsvColor", T, 3, Q).arg(rgb).res(h).emit();
    glm::vec<3, T, Q> back = glm::rgbColor(h);
    EVQ("hsvRT", T, 3, Q).arg(rgb).val("y", h).res(back).emit();
}
template<class T, glm::qualifier Q> void rgb_of(glm::vec<3, T, Q> const& hsv) {
    glm::vec<3, T, Q> c = glm::rgbColor(hsv);
    EVQ("rgbColor", T, 3, Q).arg(hsv).res(c).emit();
    glm::vec<3, T, Q> back = glm::hsvColor(c);
    EVQ("rgbRT", T, 3, Q).arg(hsv).val("y", c).res(back).emit();
}
template<class T> void hsv_all(Rng& rng) {
    typedef glm::vec<3, T, glm::highp> V; typedef glm::vec<3, T, glm::mediump> VM; typedef glm::vec<3, T, glm::lowp> VL;
    const int N = g_thorough ? 16 : 8;
    size_t cnt = 0;
    for (int r = 0; r <= N; ++r) for (int g = 0; g <= N; ++g) for (int b = 0; b <= N; ++b, ++cnt) {
        T x = ratio<T>(r, N), y = ratio<T>(g, N), z = ratio<T>(b, N);
        hsv_of(V(x, y, z));
        if (cnt % 7 == 0) hsv_of(VM(x, y, z));
        if (cnt % 11 == 0) hsv_of(VL(x, y, z));
    }
    // near-greys, near-ties between the two largest channels, tiny colours, hues just below 360
    const T eps = std::numeric_limits<T>::epsilon();
    const T base[] = { T(1), ratio<T>(1, 2), ratio<T>(1, 3), ratio<T>(7, 10), ratio<T>(1, 100) };
    for (T v : base) for (int k = 1; k <= 6; ++k) {
        T d = v * pow2<T>(-4 * k);
        hsv_of(V(v, v - d, v - d)); hsv_of(V(v - d, v, v - d)); hsv_of(V(v - d, v - d, v));
        hsv_of(V(v, v, v - d)); hsv_of(V(v - d, v, v)); hsv_of(V(v, v - d, v));
        hsv_of(V(v, nudge(v, -1), v / T(2))); hsv_of(V(nudge(v, -1), v, v / T(4))); hsv_of(V(v / T(8), nudge(v, -2), v));
        hsv_of(V(v, T(0), d)); hsv_of(V(v, d * eps, T(0))); hsv_of(V(v, T(0), d * eps)); hsv_of(V(v, v / T(2), nudge(v / T(2), k)));
    }
    for (int k = 20; k <= 40; k += 2) { T t = pow2<T>(-k); hsv_of(V(t, T(0), T(0))); hsv_of(V(T(0), t, t / T(2))); hsv_of(V(t / T(4), t / T(2), t)); }
    hsv_of(V(T(0), T(0), T(0))); hsv_of(V(T(1), T(1), T(1))); hsv_of(VM(T(0), T(0), T(0))); hsv_of(VL(ratio<T>(1, 2), ratio<T>(1, 2), ratio<T>(1, 2)));
    for (int i = 0; i < (g_thorough ? 8000 : 600); ++i) {
        T x = unit_random<T>(rng), y = unit_random<T>(rng), z = unit_random<T>(rng);
        hsv_of(V(x, y, z));
        if (i % 5 == 0) hsv_of(V(x, x, z)); if (i % 5 == 1) hsv_of(V(x, y, y)); if (i % 5 == 2) hsv_of(V(z, y, z));
        if (i % 9 == 0) hsv_of(VM(z, x, y)); if (i % 9 == 1) hsv_of(VL(y, z, x));
    }
    // outside the cube: constrains nothing
    hsv_of(V(T(2), T(1), T(0))); hsv_of(V(T(-1), ratio<T>(1, 2), T(0))); hsv_of(V(T(0.5), T(3), T(0.25)));

    // hsv -> rgb: hue over the full circle incl. sector boundaries and their neighbours
    std::vector<T> hues, sv;
    for (int h = 0; h < 360; h += (g_thorough ? 5 : 15)) hues.push_back(T(h));
    for (int k = 0; k <= 6; ++k) { T h = T(60 * k); if (k < 6) { hues.push_back(nudge(h == T(0) ? std::numeric_limits<T>::denorm_min() : h, k == 0 ? 0 : 1)); hues.push_back(h + ratio<T>(1, 1024)); }
                                   if (k > 0) { hues.push_back(nudge(h, -1)); hues.push_back(nudge(h, -2)); hues.push_back(h - ratio<T>(1, 1024)); } }
    hues.push_back(ratio<T>(1, 3)); hues.push_back(ratio<T>(3599, 10)); hues.push_back(T(59.5)); hues.push_back(T(299.75));
    const T svs[] = { T(0), T(1), ratio<T>(1, 2), ratio<T>(1, 4), ratio<T>(9, 10), eps, eps * T(2), eps / T(2), ratio<T>(1, 1000) };
    cnt = 0;
    for (T h : hues) for (T s : svs) for (T v : svs) { ++cnt;
        if (!g_thorough && cnt % 3 && s != T(1) && v != T(1) && s != T(0)) continue;
        rgb_of(V(h, s, v));
        if (cnt % 13 == 0) rgb_of(VM(h, s, v)); if (cnt % 17 == 0) rgb_of(VL(h, s, v)); }
    for (int i = 0; i < (g_thorough ? 8000 : 600); ++i) {
        T h = T((long long)rng.below(360u << 12)) / T(1 << 12), s = unit_random<T>(rng), v = unit_random<T>(rng);
        rgb_of(V(h, s, v));
        if (i % 6 == 0) rgb_of(V(T((long long)rng.below(6) * 60), s, v)); if (i % 6 == 1) rgb_of(V(h, T(1), v)); if (i % 6 == 2) rgb_of(V(h, s, T(1)));
        if (i % 10 == 3) rgb_of(VM(h, v, s)); if (i % 10 == 4) rgb_of(VL(h, v, s));
    }
    rgb_of(V(T(360), T(1), T(1))); rgb_of(V(T(400), ratio<T>(1, 2), T(1))); rgb_of(V(T(-30), T(1), T(1))); rgb_of(V(T(30), T(2), T(1))); rgb_of(V(T(30), T(1), T(-1)));
}

// ------------------------------------------------------------------ YCoCg / YCoCg-R, floating element types
template<class T, glm::qualifier Q> void ycocg_float(glm::vec<3, T, Q> const& c) {
    { auto y = glm::rgb2YCoCg(c); EVQ("rgb2YCoCg", T, 3, Q).arg(c).res(y).emit();
      auto z = glm::YCoCg2rgb(y); EVQ("ycocgRT", T, 3, Q).str("k", "p").arg(c).val("y", y).res(z).emit(); }
    { auto r = glm::YCoCg2rgb(c); EVQ("YCoCg2rgb", T, 3, Q).arg(c).res(r).emit(); }
    { auto y = glm::rgb2YCoCgR(c); EVQ("rgb2YCoCgR", T, 3, Q).arg(c).res(y).emit();
      auto z = glm::YCoCgR2rgb(y); EVQ("ycocgRT", T, 3, Q).str("k", "r").arg(c).val("y", y).res(z).emit(); }
    { auto r = glm::YCoCgR2rgb(c); EVQ("YCoCgR2rgb", T, 3, Q).arg(c).res(r).emit(); }
}
template<class T> void ycocg_float_all(Rng& rng) {
    typedef glm::vec<3, T, glm::highp> V; typedef glm::vec<3, T, glm::mediump> VM; typedef glm::vec<3, T, glm::lowp> VL;
    const int N = g_thorough ? 10 : 5;
    size_t cnt = 0;
    for (int r = 0; r <= N; ++r) for (int g = 0; g <= N; ++g) for (int b = 0; b <= N; ++b, ++cnt) {
        T x = ratio<T>(r, N), y = ratio<T>(g, N), z = ratio<T>(b, N);
        ycocg_float(V(x, y, z));
        if (cnt % 5 == 0) ycocg_float(VM(x, y - ratio<T>(1, 2), z - ratio<T>(1, 2)));            // a point of the YCoCg box
        if (cnt % 7 == 0) ycocg_float(VL(z, x - ratio<T>(1, 2), y - ratio<T>(1, 2)));
    }
    for (int i = 0; i < (g_thorough ? 5000 : 500); ++i) {
        T x = unit_random<T>(rng), y = unit_random<T>(rng), z = unit_random<T>(rng);
        ycocg_float(V(x, y, z));
        if (i % 4 == 0) ycocg_float(V(x, y - ratio<T>(1, 2), z - ratio<T>(1, 2)));
        if (i % 8 == 1) ycocg_float(V(x * T(255), y * T(255), z * T(255)));
        if (i % 8 == 2) ycocg_float(VM(x * pow2<T>(int(rng.below(60)) - 30), -y * pow2<T>(int(rng.below(60)) - 30), z * pow2<T>(int(rng.below(60)) - 30)));
        if (i % 8 == 3) ycocg_float(VL(T(1) - x * pow2<T>(-20), T(1), y * pow2<T>(-22)));
        if (i % 8 == 4) ycocg_float(V(T((long long)rng.below(256)), T((long long)rng.below(256)), T((long long)rng.below(256))));
    }
}

// ------------------------------------------------------------------ YCoCg-R, integer element types
template<class T, glm::qualifier Q> void ycocgr_int(long long r, long long g, long long b) {
    glm::vec<3, T, Q> c{ T(r), T(g), T(b) };
    glm::vec<3, T, Q> f = glm::rgb2YCoCgR(c);
    glm::vec<3, T, Q> back = glm::YCoCgR2rgb(f);
    EVQ("ycocgr", T, 3, Q).arg(c).val("f", f).res(back).emit();
}
template<class T, glm::qualifier Q> void ycocgr_inv_int(long long y, long long co, long long cg) {
    glm::vec<3, T, Q> c{ T(y), T(co), T(cg) };
    glm::vec<3, T, Q> r = glm::YCoCgR2rgb(c);
    EVQ("ycocgrInv", T, 3, Q).arg(c).res(r).emit();
}
// every triple of [lo, hi]^3 on a stride: one aggregate event per r-plane with the number of triples whose round trip
// did not return the input bit for bit (and the first such triple)
template<class T> void ycocgr_sweep(long long lo, long long hi, long long stride) {
    typedef glm::vec<3, T, glm::highp> V;
    for (long long r = lo; r <= hi; r += stride) {
        long long cnt = 0, bad = 0; V first{ T(0), T(0), T(0) }, firstback{ T(0), T(0), T(0) };
        for (long long g = lo; g <= hi; g += stride) for (long long b = lo; b <= hi; b += stride) {
            V c{ T(r), T(g), T(b) };
            V back = glm::YCoCgR2rgb(glm::rgb2YCoCgR(c));
            ++cnt;
            if (back.x != c.x || back.y != c.y || back.z != c.z) { if (!bad) { first = c; firstback = back; } ++bad; }
        }
        Ev("ycocgrSweep").str("t", TI<T>::code()).num("n", 3).num("plane", r).num("lo", lo).num("hi", hi).num("stride", stride)
            .num("cnt", cnt).num("bad", bad).arg(first).res(firstback).emit();
    }
}
template<class T> void ycocgr_lattice_sweep(std::vector<long long> const& vals) {
    typedef glm::vec<3, T, glm::highp> V;
    for (long long r : vals) {
        long long cnt = 0, bad = 0; V first{ T(0), T(0), T(0) }, firstback{ T(0), T(0), T(0) };
        for (long long g : vals) for (long long b : vals) {
            V c{ T(r), T(g), T(b) };
            V back = glm::YCoCgR2rgb(glm::rgb2YCoCgR(c));
            ++cnt;
            if (back.x != c.x || back.y != c.y || back.z != c.z) { if (!bad) { first = c; firstback = back; } ++bad; }
        }
        Ev("ycocgrSweep").str("t", TI<T>::code()).num("n", 3).num("plane", r).num("lo", vals.front()).num("hi", vals.back()).num("stride", 0)
            .num("cnt", cnt).num("bad", bad).arg(first).res(firstback).emit();
    }
}
static std::vector<long long> lattice16(Rng& rng, int nrand) {
    std::vector<long long> v;
    for (uint64_t x : int_lattice<uint16_t>()) v.push_back((long long)x);
    for (int i = 0; i < nrand; ++i) v.push_back((long long)rng.below(65536));
    std::sort(v.begin(), v.end()); v.erase(std::unique(v.begin(), v.end()), v.end());
    return v;
}
template<class T> void ycocgr_int_events(std::vector<long long> const& vals, long long off) {
    size_t cnt = 0;
    for (long long r : vals) for (long long g : vals) for (long long b : vals) {
        ycocgr_int<T, glm::highp>(r + off, g + off, b + off);
        if (cnt % 9 == 0) ycocgr_int<T, glm::mediump>(g + off, b + off, r + off);
        if (cnt % 9 == 4) ycocgr_int<T, glm::lowp>(b + off, r + off, g + off);
        // an arbitrary (Y, Co, Cg): luma in the value range, chroma signed
        if (cnt % 3 == 0) ycocgr_inv_int<T, glm::highp>(r + off, std::numeric_limits<T>::is_signed ? g - b : g, std::numeric_limits<T>::is_signed ? b - r : b);
        ++cnt;
    }
}
static void ycocgr_all(Rng& rng) {
    // exhaustive: all 2^24 8-bit triples in each element type (aggregate equality events)
    const long long st = 1;
    ycocgr_sweep<glm::int32>(0, 255, st); ycocgr_sweep<glm::int16>(0, 255, st); ycocgr_sweep<glm::uint8>(0, 255, st); ycocgr_sweep<glm::int8>(-128, 127, st);
    if (g_thorough) { ycocgr_sweep<glm::uint32>(0, 255, st); ycocgr_sweep<glm::uint16>(0, 255, st); ycocgr_sweep<glm::int64>(0, 255, st); ycocgr_sweep<glm::int32>(-128, 127, st);
                      ycocgr_sweep<glm::int16>(-256, 255, 2); ycocgr_sweep<glm::uint64>(0, 255, st); }
    // a lattice of 16-bit triples
    std::vector<long long> l16 = lattice16(rng, g_thorough ? 200 : 40);
    ycocgr_lattice_sweep<glm::int32>(l16); ycocgr_lattice_sweep<glm::uint16>(l16); ycocgr_lattice_sweep<glm::int64>(l16); ycocgr_lattice_sweep<glm::uint32>(l16);
    { std::vector<long long> s16; for (long long x : l16) s16.push_back(x - 32768); ycocgr_lattice_sweep<glm::int16>(s16); ycocgr_lattice_sweep<glm::int32>(s16); }
    // forward values and round trips judged one by one by the specification
    std::vector<long long> v8, v8s, v16;
    if (g_thorough) { for (long long x = 0; x <= 255; x += 8) v8.push_back(x); v8.push_back(255); v8.push_back(1); v8.push_back(127); }
    else { const long long a[] = { 0, 1, 2, 3, 7, 8, 31, 64, 100, 127, 128, 129, 200, 254, 255 }; v8.assign(a, a + 15); }
    { const long long a[] = { 0, 1, 2, 5, 127, 128, 200, 255 }; v8s.assign(a, a + 8); }
    { const long long a[] = { 0, 1, 255, 256, 32767, 32768, 40000, 65535 }; v16.assign(a, a + 8); }
    ycocgr_int_events<glm::int32>(v8, 0);
    ycocgr_int_events<glm::int16>(v8s, 0); ycocgr_int_events<glm::int64>(v8s, 0); ycocgr_int_events<glm::uint8>(v8s, 0); ycocgr_int_events<glm::uint16>(v8s, 0);
    ycocgr_int_events<glm::uint32>(v8s, 0); ycocgr_int_events<glm::int8>(v8s, -128); ycocgr_int_events<glm::int32>(v8s, -128); ycocgr_int_events<glm::uint64>(v8s, 0);
    ycocgr_int_events<glm::int32>(v16, 0); ycocgr_int_events<glm::int64>(v16, 0); ycocgr_int_events<glm::uint16>(v16, 0); ycocgr_int_events<glm::int16>(v16, -32768);
    for (int i = 0; i < (g_thorough ? 20000 : 1500); ++i) {
        long long r = (long long)rng.below(1u << 28) - (1 << 27), g = (long long)rng.below(1u << 28) - (1 << 27), b = (long long)rng.below(1u << 28) - (1 << 27);
        ycocgr_int<glm::int32, glm::highp>(r, g, b);
        if (i % 3 == 0) ycocgr_int<glm::int64, glm::highp>(r * 4099, g * 8191, b * 127);
        if (i % 3 == 1) ycocgr_inv_int<glm::int32, glm::highp>(r, g, b);
        if (i % 3 == 2) ycocgr_int<glm::int16, glm::mediump>(r & 0x3fff, g & 0x3fff, b & 0x3fff);
    }
}

// ------------------------------------------------------------------ saturation, luminosity
template<class T> void sat_lum_all(Rng& rng) {
    typedef glm::vec<3, T, glm::highp> V3; typedef glm::vec<4, T, glm::highp> V4;
    std::vector<T> ss;
    const T s0[] = { T(0), T(1), ratio<T>(1, 2), ratio<T>(1, 4), T(2), T(-1), ratio<T>(3, 2), ratio<T>(-1, 2), ratio<T>(1, 10), ratio<T>(9, 10), T(3) };
    for (T s : s0) ss.push_back(s);
    for (int i = 0; i < (g_thorough ? 40 : 4); ++i) ss.push_back(unit_random<T>(rng) * T(2));
    const int N = g_thorough ? 5 : 3;
    for (T s : ss) {
        glm::mat<4, 4, T, glm::defaultp> m = glm::saturation(s);
        Ev("saturationM").str("t", TI<T>::code()).num("n", 16).str("q", "h").arg(s).res(m).emit();
        for (int g = 0; g <= 8; ++g) {                                         // grey levels
            T v = ratio<T>(g, 8);
            { V3 c(v, v, v); V3 r = glm::saturation(s, c); EVQ("saturation", T, 3, glm::highp).arg(s).arg(c).res(r).emit(); }
            { V4 c(v, v, v, alpha_of<T>(size_t(g))); if (!(c.w == c.w) || c.w - c.w != T(0)) c.w = ratio<T>(g, 9);
              V4 r = glm::saturation(s, c); EVQ("saturation", T, 4, glm::highp).arg(s).arg(c).res(r).emit(); }
        }
        for (int r = 0; r <= N; ++r) for (int g = 0; g <= N; ++g) for (int b = 0; b <= N; ++b) {
            V3 c(ratio<T>(r, N), ratio<T>(g, N), ratio<T>(b, N));
            { V3 o = glm::saturation(s, c); EVQ("saturation", T, 3, glm::highp).arg(s).arg(c).res(o).emit(); }
            if ((r + g + b) % 3 == 0) { V4 c4(c, ratio<T>(r + 1, N + 2)); V4 o = glm::saturation(s, c4); EVQ("saturation", T, 4, glm::highp).arg(s).arg(c4).res(o).emit(); }
            if ((r + g + b) % 4 == 1) { glm::vec<3, T, glm::mediump> cm(c); auto o = glm::saturation(s, cm); EVQ("saturation", T, 3, glm::mediump).arg(s).arg(cm).res(o).emit();
                                        glm::vec<4, T, glm::lowp> cl(c.z, c.x, c.y, ratio<T>(1, 2)); auto ol = glm::saturation(s, cl); EVQ("saturation", T, 4, glm::lowp).arg(s).arg(cl).res(ol).emit(); }
        }
        for (int i = 0; i < (g_thorough ? 100 : 8); ++i) {
            V3 c(unit_random<T>(rng), unit_random<T>(rng), unit_random<T>(rng));
            V3 o = glm::saturation(s, c); EVQ("saturation", T, 3, glm::highp).arg(s).arg(c).res(o).emit();
        }
    }
    const int M = g_thorough ? 16 : 8;
    size_t cnt = 0;
    for (int r = 0; r <= M; ++r) for (int g = 0; g <= M; ++g) for (int b = 0; b <= M; ++b, ++cnt) {
        V3 c(ratio<T>(r, M), ratio<T>(g, M), ratio<T>(b, M));
        { T l = glm::luminosity(c); EVQ("luminosity", T, 3, glm::highp).arg(c).res(l).emit(); }
        if (cnt % 7 == 0) { glm::vec<3, T, glm::mediump> cm(c); T l = glm::luminosity(cm); EVQ("luminosity", T, 3, glm::mediump).arg(cm).res(l).emit(); }
        if (cnt % 7 == 3) { glm::vec<3, T, glm::lowp> cl(c); T l = glm::luminosity(cl); EVQ("luminosity", T, 3, glm::lowp).arg(cl).res(l).emit(); }
    }
    for (int i = 0; i < (g_thorough ? 5000 : 500); ++i) {
        T x = unit_random<T>(rng), y = unit_random<T>(rng), z = unit_random<T>(rng);
        { V3 c(x, y, z); T l = glm::luminosity(c); EVQ("luminosity", T, 3, glm::highp).arg(c).res(l).emit(); }
        if (i % 4 == 0) { V3 c(x, x, x); T l = glm::luminosity(c); EVQ("luminosity", T, 3, glm::highp).arg(c).res(l).emit(); }
        if (i % 4 == 1) { V3 c(x, T(0), T(0)); T l = glm::luminosity(c); EVQ("luminosity", T, 3, glm::highp).arg(c).res(l).emit(); }
        if (i % 4 == 2) { V3 c(T(0), y, T(0)); T l = glm::luminosity(c); EVQ("luminosity", T, 3, glm::highp).arg(c).res(l).emit(); }
        if (i % 4 == 3) { V3 c(T(0), T(0), z); T l = glm::luminosity(c); EVQ("luminosity", T, 3, glm::highp).arg(c).res(l).emit(); }
    }
}

static void body(int argc, char** argv) {
    g_thorough = argc > 2 && std::string(argv[2]) == "thorough";
    const std::string sec = argc > 3 ? argv[3] : "all";
    auto on = [&](const char* s) { return sec == "all" || sec == s; };
    Rng rng(seed_from_env());
    if (on("srgb")) { srgb_all<float>(rng); srgb_all<double>(rng); }
    if (on("hsv")) { hsv_all<float>(rng); hsv_all<double>(rng); }
    if (on("ycocg")) { ycocg_float_all<float>(rng); ycocg_float_all<double>(rng); }
    if (on("int")) ycocgr_all(rng);
    if (on("sat")) { sat_lum_all<float>(rng); sat_lum_all<double>(rng); }
    std::printf("EVENTS %llu\n", (unsigned long long)out().events);
}
int main(int argc, char** argv) { return run_main(argc, argv, body); }
