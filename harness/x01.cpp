// X01 harness: gtx/component_wise, gtx/common, gtx/hash, gtx/scalar_multiplication, gtx/range, the typedef tables of
// gtx/number_precision / raw_data / std_based_type, gtx/exterior_product, gtx/mixed_product, gtx/normal.
//   x01 <trace-out> <quick|thorough>
// One event per GLM call (see spec/trace/Trace_X01.tla for the formats).  The harness computes no expected value: it records
// arguments and results as bit patterns (16-bit limbs); inputs are built from bit patterns, the lattices of common.hpp and the
// integer-only Rng.  The only input filtering is what keeps the process alive: integer % 0 and Min % -1 trap on x86.
#define VH_NO_EXT_ALL
#include "common.hpp"
#include <functional>
#include <glm/gtc/type_precision.hpp>
#include <glm/gtx/component_wise.hpp>
#include <glm/gtx/common.hpp>
#include <glm/gtx/dual_quaternion.hpp>
#include <glm/gtx/hash.hpp>
#include <glm/gtx/range.hpp>
#include <glm/gtx/scalar_multiplication.hpp>
#include <glm/gtx/number_precision.hpp>
#include <glm/gtx/std_based_type.hpp>
#include <glm/gtx/raw_data.hpp>
#include <glm/gtx/exterior_product.hpp>
#include <glm/gtx/mixed_product.hpp>
#include <glm/gtx/normal.hpp>
using namespace vh;
static bool g_thorough = false;
static Rng* g_rng = nullptr;
static uint64_t rnd(uint64_t n) { return g_rng->below(n); }

// ---------------------------------------------------------------- helpers
template<class T> void put_words(std::string& s, std::vector<T> const& v) { s.push_back('['); for (size_t i = 0; i < v.size(); ++i) { if (i) s.push_back(','); put_word(s, v[i]); } s.push_back(']'); }
template<class T> void words(Ev& e, const char* k, std::vector<T> const& v) { e.close_args(); e.s += ",\""; e.s += k; e.s += "\":"; put_words(e.s, v); }
template<class T> Ev& tl(Ev& e, int L) { return e.str("t", TI<T>::code()).num("n", L); }
template<int L, class T, glm::qualifier Q = glm::defaultp, class G> glm::vec<L, T, Q> gen(G g) { glm::vec<L, T, Q> r; for (int i = 0; i < L; ++i) { T x = g(); r[i] = x; } return r; }
template<int N> using IC = std::integral_constant<int, N>;
// call body(IC<L>) for the length L = 1..4 selected at run time
template<class B> void withL(int L, B body) { switch (L) { case 1: body(IC<1>()); break; case 2: body(IC<2>()); break; case 3: body(IC<3>()); break; default: body(IC<4>()); } }
template<class B> void eachL(B body) { body(IC<1>()); body(IC<2>()); body(IC<3>()); body(IC<4>()); }

// floating value from sign, unbiased exponent, 23-bit fraction (the same value in float and double when it is in float's range)
template<class T> T mkf(unsigned s, int e, uint64_t frac23) {
    if constexpr (sizeof(T) == 4) return from_bits<T>((uint64_t(s & 1) << 31) | (uint64_t(e + 127) << 23) | (frac23 & 0x7fffffu));
    else return from_bits<T>((uint64_t(s & 1) << 63) | (uint64_t(e + 1023) << 52) | ((frac23 & 0x7fffffu) << 29));
}
// random dyadic: exponent in [elo, ehi], `bits` random leading fraction bits
template<class T> T rdy(int elo, int ehi, int bits) { uint64_t fr = bits ? (rnd(1ull << bits) << (23 - bits)) : 0; return mkf<T>(unsigned(rnd(2)), elo + int(rnd(uint64_t(ehi - elo + 1))), fr); }
// full-precision random value of the type
template<class T> T rfull(int elo, int ehi) {
    T x = rdy<T>(elo, ehi, 23);
    if constexpr (sizeof(T) == 8) x = from_bits<T>(to_bits(x) | rnd(1ull << 29));
    return x;
}
template<class T> std::vector<T> lat() { std::vector<T> v; for (uint64_t b : lattice<T>()) v.push_back(from_bits<T>(b)); return v; }

// ---------------------------------------------------------------- 1. reductions
template<class T, int L, glm::qualifier Q> void reduce_events(glm::vec<L, T, Q> const& v) {
    { T r = glm::compAdd(v); Ev e("compAdd"); tl<T>(e, L).arg(v).res(r).emit(); }
    { T r = glm::compMul(v); Ev e("compMul"); tl<T>(e, L).arg(v).res(r).emit(); }
    { T r = glm::compMin(v); Ev e("compMin"); tl<T>(e, L).arg(v).res(r).emit(); }
    { T r = glm::compMax(v); Ev e("compMax"); tl<T>(e, L).arg(v).res(r).emit(); }
    if constexpr (std::is_floating_point<T>::value) {
        { T r = glm::fcompMin(v); Ev e("fcompMin"); tl<T>(e, L).arg(v).res(r).emit(); }
        { T r = glm::fcompMax(v); Ev e("fcompMax"); tl<T>(e, L).arg(v).res(r).emit(); }
    }
}
template<class T> void int_reductions() {
    auto S = lat<T>();
    std::vector<T> small; for (int d = -4; d <= 9; ++d) small.push_back(T(d));
    const int reps = g_thorough ? 400 : 44;
    eachL([&](auto lt) { constexpr int L = decltype(lt)::value;
        for (int k = 0; k < reps; ++k) {
            int mode = k % 4;            // 0: small values (signed sums / products in the domain), 1: lattice, 2: mixed, 3: one large value among small ones
            int big = int(rnd(L));
            int i = 0;
            auto v = gen<L, T>([&]() -> T { int me = i++; switch (mode) { case 0: return small[rnd(small.size())]; case 1: return S[rnd(S.size())];
                                              case 2: return rnd(2) ? small[rnd(small.size())] : S[rnd(S.size())]; default: return me == big ? S[rnd(S.size())] : T(rnd(3)); } });
            if (k % 3 == 0) reduce_events<T, L, glm::defaultp>(v);
            else if (k % 3 == 1) reduce_events<T, L, glm::mediump>(glm::vec<L, T, glm::mediump>(v));
            else reduce_events<T, L, glm::lowp>(glm::vec<L, T, glm::lowp>(v));
        }
        // consecutive windows of the lattice (extremes next to each other)
        for (size_t k = 0; k < S.size(); k += (g_thorough ? 1 : 5)) { size_t j = k; reduce_events<T, L, glm::defaultp>(gen<L, T>([&]() { return S[j++ % S.size()]; })); }
    });
}
template<class T> void float_reductions() {
    auto S = lat<T>();
    const int reps = g_thorough ? 500 : 60;
    eachL([&](auto lt) { constexpr int L = decltype(lt)::value;
        for (int k = 0; k < reps; ++k) {
            int mode = k % 6;
            glm::vec<L, T> v;
            switch (mode) {
                case 0: v = gen<L, T>([&]() { return T(int(rnd(17)) - 8); }); break;                       // small integers: everything exact
                case 1: v = gen<L, T>([&]() { return rdy<T>(-3, 3, 4); }); break;                          // short dyadics: mostly exact
                case 2: v = gen<L, T>([&]() { return rfull<T>(-2, 2); }); break;                           // full precision, same scale: every addition rounds
                case 3: v = gen<L, T>([&]() { return rfull<T>(-20, 20); }); break;                         // mixed scales: absorption
                case 4: { T big = rfull<T>(10, 24); int i = 0; v = gen<L, T>([&]() { int me = i++; return me == 0 ? big : me == 1 ? T(-big) : rfull<T>(-4, 0); }); break; }   // cancellation
                default: v = gen<L, T>([&]() { return rnd(3) ? rfull<T>(-1, 1) : S[rnd(S.size())]; }); break;   // specials among ordinary values
            }
            if (k % 5 == 4) reduce_events<T, L, glm::lowp>(glm::vec<L, T, glm::lowp>(v)); else reduce_events<T, L, glm::defaultp>(v);
        }
        for (size_t k = 0; k < S.size(); k += (g_thorough ? 1 : 3)) { size_t j = k; reduce_events<T, L, glm::defaultp>(gen<L, T>([&]() { return S[j++ % S.size()]; })); }
        // NaN placements for the NaN-aware reductions
        for (int m = 0; m < (1 << L); ++m) { int i = 0; T q = std::numeric_limits<T>::quiet_NaN(); reduce_events<T, L, glm::defaultp>(gen<L, T>([&]() { int me = i++; return ((m >> me) & 1) ? q : T(me * 2 - 3); })); }
    });
}

// ---------------------------------------------------------------- 2. compNormalize / compScale
template<class T, class F, int L> void norm_scale_event(glm::vec<L, T> const& v) {
    glm::vec<L, F> n = glm::compNormalize<F>(v);
    glm::vec<L, T> b = glm::compScale<T>(n);
    Ev e("normScale"); tl<T>(e, L).str("ft", TI<F>::code()).arg(v).val("nv", n).res(b).emit();
}
template<class T, class F> void norm_scale_exhaustive(long step) {          // every value of an 8- or 16-bit type (step 1), packed into vectors of rotating length
    long lo = std::numeric_limits<T>::min(), hi = std::numeric_limits<T>::max();
    long v = lo; int turn = 0;
    while (v <= hi) {
        int L = (sizeof(T) == 1) ? 1 + (turn++ % 4) : ((turn++ % 64 == 63) ? 1 + int(turn / 64 % 3) : 4);
        if (v + L - 1 > hi) L = int(hi - v + 1);
        withL(L, [&](auto lt) { constexpr int LL = decltype(lt)::value; long j = v; norm_scale_event<T, F, LL>(gen<LL, T>([&]() { return T(j++); })); });
        v += L;
        if (step > 1) v += (step - 1) * 4;
    }
}
template<class T, class F> void norm_scale_lattice() {
    auto S = lat<T>();
    for (size_t k = 0; k < S.size(); k += 4) { size_t j = k; norm_scale_event<T, F, 4>(gen<4, T>([&]() { return S[j++ % S.size()]; })); }
    for (int k = 0; k < (g_thorough ? 200 : 12); ++k) norm_scale_event<T, F, 3>(gen<3, T>([&]() { return from_bits<T>(g_rng->next()); }));
    for (size_t k = 0; k < S.size(); k += 7) { glm::vec<2, T, glm::mediump> v(S[k], S[(k + 3) % S.size()]); auto n = glm::compNormalize<F>(v); Ev e("normalize"); tl<T>(e, 2).str("ft", TI<F>::code()).arg(v).res(n).emit(); }
}
template<class T, class F> void scale_events() {
    std::vector<F> X;
    for (F x : { F(0), F(-0.0), F(1), F(-1), F(0.5), F(-0.5), F(0.2), F(-0.2), F(0.25), F(0.75), F(1.0 / 3), F(-1.0 / 3), F(0.999), F(-0.999), F(1e-3), F(1e-10), F(-1e-10) }) X.push_back(x);
    for (int k = 1; k <= 8; ++k) { X.push_back(mkf<F>(0, -k, 0)); X.push_back(mkf<F>(1, -k, 0)); X.push_back(mkf<F>(0, -k, 0x7fffff)); X.push_back(mkf<F>(1, -1, 0x7fffffu >> k << k)); }
    X.push_back(from_bits<F>(to_bits(F(1)) - 1)); X.push_back(from_bits<F>(to_bits(F(-1)) - 1)); X.push_back(from_bits<F>(to_bits(F(0.5)) - 1)); X.push_back(from_bits<F>(to_bits(F(0.5)) + 1));
    X.push_back(std::numeric_limits<F>::denorm_min()); X.push_back(std::numeric_limits<F>::min());
    // grid points j / Max of the narrow types and their neighbours (the places where the integer result steps)
    for (int j : { 1, 2, 3, 63, 64, 127, 128, 129, 200, 254 }) { F g = F(j) / F(255); X.push_back(g); X.push_back(from_bits<F>(to_bits(g) + 1)); X.push_back(from_bits<F>(to_bits(g) - 1)); X.push_back(-g); }
    for (int j : { 1, 2, 255, 256, 16383, 32767, 32768, 65534 }) { F g = F(j) / F(65535); X.push_back(g); X.push_back(from_bits<F>(to_bits(g) + 1)); X.push_back(-g); }
    for (int k = 0; k < (g_thorough ? 400 : 40); ++k) X.push_back(rfull<F>(-12, -1));
    // outside the normalised range (constrain nothing; finite and small enough for the conversion not to trap)
    for (F x : { F(1.5), F(-1.5), F(2), F(100) }) X.push_back(x);
    size_t turn = 0;
    for (size_t k = 0; k < X.size();) {
        int L = 1 + int(turn++ % 4); if (k + L > X.size()) L = int(X.size() - k);
        withL(L, [&](auto lt) { constexpr int LL = decltype(lt)::value; size_t j = k; auto v = gen<LL, F>([&]() { return X[j++]; }); glm::vec<LL, T> r = glm::compScale<T>(v);
            Ev e("scale"); tl<T>(e, LL).str("ft", TI<F>::code()).arg(v).res(r).emit(); });
        k += L;
    }
}
template<class F> void pass_events() {
    auto S = lat<F>();
    for (size_t k = 0; k < S.size(); k += 3) { size_t j = k; auto v = gen<3, F>([&]() { return S[j++ % S.size()]; });
        { glm::vec<3, F> r = glm::compNormalize<F>(v); Ev e("normPass"); tl<F>(e, 3).str("ft", TI<F>::code()).arg(v).res(r).emit(); }
        { glm::vec<3, F> r = glm::compScale<F>(v); Ev e("scalePass"); tl<F>(e, 3).str("ft", TI<F>::code()).arg(v).res(r).emit(); } }
}
static void normalize_scale() {
    norm_scale_exhaustive<signed char, float>(1); norm_scale_exhaustive<unsigned char, float>(1);
    norm_scale_exhaustive<signed char, double>(1); norm_scale_exhaustive<unsigned char, double>(1);
    norm_scale_exhaustive<short, float>(1); norm_scale_exhaustive<unsigned short, float>(1);
    norm_scale_exhaustive<short, double>(g_thorough ? 1 : 6); norm_scale_exhaustive<unsigned short, double>(g_thorough ? 1 : 6);
#define NS(T) norm_scale_lattice<T, float>(); norm_scale_lattice<T, double>(); scale_events<T, float>(); scale_events<T, double>();
    NS(signed char) NS(unsigned char) NS(short) NS(unsigned short) NS(int) NS(unsigned int) NS(long) NS(unsigned long)
#undef NS
    pass_events<float>(); pass_events<double>();
}

// ---------------------------------------------------------------- 3. hash
template<class T> uint64_t h1(T x) { return uint64_t(std::hash<T>()(x)); }
template<class T, int L> void hash_vec(glm::vec<L, T> const& v) {
    std::vector<uint64_t> h; for (int i = 0; i < L; ++i) h.push_back(h1<T>(v[i]));
    uint64_t r = uint64_t(std::hash<glm::vec<L, T>>()(v));
    Ev e("hash"); e.str("k", "vec").num("c", 1); tl<T>(e, L).arg(v); words(e, "h", h); e.res(r).emit();
}
template<class T, int C, int R> void hash_mat(glm::mat<C, R, T> const& m) {
    std::vector<uint64_t> h; for (int c = 0; c < C; ++c) for (int r = 0; r < R; ++r) h.push_back(h1<T>(m[c][r]));
    uint64_t r = uint64_t(std::hash<glm::mat<C, R, T>>()(m));
    Ev e("hash"); e.str("k", "mat").num("c", C); tl<T>(e, R).arg(m); words(e, "h", h); e.res(r).emit();
}
template<class T> void hash_qua(glm::qua<T> const& q) {
    std::vector<uint64_t> h = { h1<T>(q.w), h1<T>(q.x), h1<T>(q.y), h1<T>(q.z) };
    uint64_t r = uint64_t(std::hash<glm::qua<T>>()(q));
    Ev e("hash"); e.str("k", "qua").num("c", 1); tl<T>(e, 4).arg(q); words(e, "h", h); e.res(r).emit();
}
template<class T> void hash_dq(glm::tdualquat<T> const& d) {
    std::vector<uint64_t> h = { h1<T>(d.real.w), h1<T>(d.real.x), h1<T>(d.real.y), h1<T>(d.real.z), h1<T>(d.dual.w), h1<T>(d.dual.x), h1<T>(d.dual.y), h1<T>(d.dual.z) };
    uint64_t r = uint64_t(std::hash<glm::tdualquat<T>>()(d));
    std::vector<T> val = { d.real.w, d.real.x, d.real.y, d.real.z, d.dual.w, d.dual.x, d.dual.y, d.dual.z };
    Ev e("hash"); e.str("k", "dq").num("c", 2); tl<T>(e, 4); e.s += ",\"a\":["; put_words(e.s, val); e.s += "]"; words(e, "h", h); e.res(r).emit();
}
template<class T> void hash_vecs() {
    auto S = lat<T>();
    const int reps = g_thorough ? 60 : 10;
    eachL([&](auto lt) { constexpr int L = decltype(lt)::value;
        for (int k = 0; k < reps; ++k) {
            auto v = gen<L, T>([&]() { return (k % 2) ? S[rnd(S.size())] : T(int(rnd(9)) - 4); });
            hash_vec<T, L>(v);
            if constexpr (L >= 2) { auto w = v; std::swap(w[0], w[L - 1]); hash_vec<T, L>(w); }            // order of the components
            if constexpr (std::is_floating_point<T>::value) { auto z = v; z[k % L] = (k & 2) ? T(0) : T(-0.0); hash_vec<T, L>(z); }      // both zeros
        } });
}
template<class T, int C, int R> void hash_mats() {
    for (int k = 0; k < (g_thorough ? 24 : 4); ++k) {
        glm::mat<C, R, T> m; for (int c = 0; c < C; ++c) for (int r = 0; r < R; ++r) m[c][r] = (k % 2) ? rfull<T>(-8, 8) : T(int(rnd(9)) - 4);
        hash_mat<T, C, R>(m);
        if (k % 2 == 0) { auto t = m; std::swap(t[0], t[C - 1]); hash_mat<T, C, R>(t); }                   // order of the columns
    }
}
template<class T> void hash_all_mats() {
    hash_mats<T, 2, 2>(); hash_mats<T, 2, 3>(); hash_mats<T, 2, 4>(); hash_mats<T, 3, 2>(); hash_mats<T, 3, 3>(); hash_mats<T, 3, 4>(); hash_mats<T, 4, 2>(); hash_mats<T, 4, 3>(); hash_mats<T, 4, 4>();
    for (int k = 0; k < (g_thorough ? 60 : 10); ++k) {
        glm::qua<T> q = (k % 3 == 0) ? glm::qua<T>(T(1), T(0), T(0), T(0)) : glm::qua<T>(rfull<T>(-3, 1), rfull<T>(-3, 1), T(int(rnd(5)) - 2), rfull<T>(-3, 1));
        hash_qua<T>(q); hash_qua<T>(glm::qua<T>(q.x, q.w, q.z, q.y));
        glm::tdualquat<T> d(q, glm::qua<T>(T(int(rnd(5))), rfull<T>(-2, 2), rfull<T>(-2, 2), T(-0.0)));
        hash_dq<T>(d); hash_dq<T>(glm::tdualquat<T>(d.dual, d.real));
    }
}

// ---------------------------------------------------------------- 4. gtx/common
template<class T> void isdenormal_events() {
    constexpr int EB = sizeof(T) == 4 ? 8 : 11, MB = sizeof(T) == 4 ? 23 : 52;
    std::vector<T> X;
    const uint64_t mant[] = { 0, 1, 1ull << (MB - 1), (1ull << MB) - 1 };
    for (uint64_t e = 0; e < (1ull << EB); ++e) {
        bool take = g_thorough || sizeof(T) == 4 || e < 4 || e + 4 >= (1ull << EB) || e % 16 == 0 || (e >= 1020 && e <= 1026);
        if (!take) continue;
        for (uint64_t m : mant) for (uint64_t s = 0; s < 2; ++s) X.push_back(from_bits<T>((s << (EB + MB)) | (e << MB) | m));
    }
    for (int k = 0; k < 64; ++k) X.push_back(from_bits<T>(rnd(1ull << MB) | (rnd(2) << (EB + MB))));          // random subnormals
    size_t turn = 0;
    for (size_t k = 0; k < X.size();) {
        int L = (turn % 8 < 5) ? 4 : int(turn % 8) - 4; ++turn; if (k + L > X.size()) L = int(X.size() - k);
        withL(L, [&](auto lt) { constexpr int LL = decltype(lt)::value; size_t j = k; auto v = gen<LL, T>([&]() { return X[j++]; }); auto r = glm::isdenormal(v);
            Ev e("isdenormal"); tl<T>(e, LL).str("k", "v").arg(v).res(r).emit(); });
        k += L;
    }
    for (size_t k = 0; k < X.size(); k += 5) { T x = X[k]; bool r = glm::isdenormal(x); Ev e("isdenormal"); tl<T>(e, 1).str("k", "s").arg(x).res(r).emit(); }
}
template<class T, int L> void fmod_events(glm::vec<L, T> const& x, glm::vec<L, T> const& y, int how) {
    if (how == 0) { auto r = glm::fmod(x, y); Ev e("fmod"); tl<T>(e, L).str("k", "vv").arg(x).arg(y).res(r).emit(); }
    else if (how == 1) { T s = y[0]; auto r = glm::fmod(x, s); Ev e("fmod"); tl<T>(e, L).str("k", "vs").arg(x).arg(s).res(r).emit(); }
    else { T a = x[0], b = y[0]; T r = glm::fmod(a, b); Ev e("fmod"); tl<T>(e, 1).str("k", "ss").arg(a).arg(b).res(r).emit(); }
}
template<class T> void fmod_float() {
    auto S = lat<T>();
    const int reps = g_thorough ? 1500 : 130;
    eachL([&](auto lt) { constexpr int L = decltype(lt)::value;
        for (int k = 0; k < reps; ++k) {
            int mode = k % 6;
            glm::vec<L, T> x, y;
            switch (mode) {
                case 0: x = gen<L, T>([&]() { return T(int(rnd(97)) - 48) / T(4); }); y = gen<L, T>([&]() { return T(int(rnd(33)) - 16) / T(4); }); break;    // quarters incl. y = 0
                case 1: x = gen<L, T>([&]() { return rfull<T>(-4, 12); }); y = gen<L, T>([&]() { return rfull<T>(-4, 4); }); break;
                case 2: x = gen<L, T>([&]() { return rfull<T>(20, 100); }); y = gen<L, T>([&]() { return rdy<T>(-3, 3, 6); }); break;                       // long quotients
                case 3: x = gen<L, T>([&]() { return rfull<T>(-30, 30); }); y = gen<L, T>([&]() { return rfull<T>(-30, 30); }); break;
                case 4: x = gen<L, T>([&]() { return S[rnd(S.size())]; }); y = gen<L, T>([&]() { return rnd(2) ? S[rnd(S.size())] : rfull<T>(-2, 2); }); break; // specials
                default: { y = gen<L, T>([&]() { return rdy<T>(-2, 5, 5); }); int i = 0; x = gen<L, T>([&]() { T m = y[i++]; return T(m * T(int(rnd(41)) - 20)); }); break; }   // exact multiples
            }
            fmod_events<T, L>(x, y, k % 7 == 6 ? 2 : (k % 3 == 2 ? 1 : 0));
        } });
}
template<class T> void fmod_int() {
    auto S = lat<T>();
    const int reps = g_thorough ? 600 : 50;
    auto safe = [](T a, T b) { if (b == T(0)) return false; if constexpr (std::is_signed<T>::value) { if (a == std::numeric_limits<T>::min() && b == T(-1)) return false; } return true; };
    eachL([&](auto lt) { constexpr int L = decltype(lt)::value;
        for (int k = 0; k < reps; ++k) {
            auto x = gen<L, T>([&]() { return (k % 2) ? S[rnd(S.size())] : T(int(rnd(61)) - 30); });
            auto y = gen<L, T>([&]() { return (k % 3) ? T(int(rnd(15)) - 7) : S[rnd(S.size())]; });
            int how = k % 7 == 6 ? 2 : (k % 3 == 2 ? 1 : 0);
            bool ok = true; for (int i = 0; i < L; ++i) ok = ok && safe(x[i], how == 0 ? y[i] : y[0]);
            if (ok) fmod_events<T, L>(x, y, how);
        } });
}
template<class T> void bounded_events() {
    auto S = lat<T>();
    const int reps = g_thorough ? 500 : 45;
    eachL([&](auto lt) { constexpr int L = decltype(lt)::value;
        for (int k = 0; k < reps; ++k) {
            auto pick = [&]() -> T { if (k % 3 == 0) return S[rnd(S.size())]; if constexpr (std::is_floating_point<T>::value) return T(int(rnd(9)) - 4) / T(2); else return T(int(rnd(9))); };
            auto v = gen<L, T>(pick), lo = gen<L, T>(pick), hi = gen<L, T>(pick);
            if (k % 4 == 1) lo = v; if (k % 4 == 2) hi = v; if (k % 8 == 3) { lo = v; hi = v; }                      // end points
            { auto r = glm::openBounded(v, lo, hi); Ev e("openBounded"); tl<T>(e, L).arg(v).arg(lo).arg(hi).res(r).emit(); }
            { auto r = glm::closeBounded(v, lo, hi); Ev e("closeBounded"); tl<T>(e, L).arg(v).arg(lo).arg(hi).res(r).emit(); }
        } });
}

// ---------------------------------------------------------------- 5. scalar_multiplication
template<class V> V rand_value(int mode) {
    V v; float* p = glm::value_ptr(v); constexpr int N = int(sizeof(V) / sizeof(float));
    static const std::vector<float> S = lat<float>();
    for (int i = 0; i < N; ++i) p[i] = mode == 0 ? float(int(rnd(17)) - 8) : mode == 1 ? rfull<float>(-6, 6) : mode == 2 ? rfull<float>(-40, 40) : S[rnd(S.size())];
    return v;
}
template<class V, class S> void smul_events(S s, int mode) {
    constexpr int N = int(sizeof(V) / sizeof(float));
    V v = rand_value<V>(mode);
    { V r = s * v; Ev e("smul"); e.str("k", "sv").str("t", "f32").str("st", TI<S>::code()).num("n", N).arg(s).arg(v).res(r).emit(); }
    { V r = v * s; Ev e("smul"); e.str("k", "vs").str("t", "f32").str("st", TI<S>::code()).num("n", N).arg(s).arg(v).res(r).emit(); }
    { V r = v / s; Ev e("smul"); e.str("k", "div").str("t", "f32").str("st", TI<S>::code()).num("n", N).arg(s).arg(v).res(r).emit(); }
}
template<class S> void smul_scalar(S s, int k) {
    switch (k % 12) {
        case 0: smul_events<glm::vec2, S>(s, k / 12 % 4); break; case 1: smul_events<glm::vec3, S>(s, k / 12 % 4); break; case 2: smul_events<glm::vec4, S>(s, k / 12 % 4); break;
        case 3: smul_events<glm::mat2, S>(s, k / 12 % 4); break; case 4: smul_events<glm::mat2x3, S>(s, k / 12 % 4); break; case 5: smul_events<glm::mat2x4, S>(s, k / 12 % 4); break;
        case 6: smul_events<glm::mat3x2, S>(s, k / 12 % 4); break; case 7: smul_events<glm::mat3, S>(s, k / 12 % 4); break; case 8: smul_events<glm::mat3x4, S>(s, k / 12 % 4); break;
        case 9: smul_events<glm::mat4x2, S>(s, k / 12 % 4); break; case 10: smul_events<glm::mat4x3, S>(s, k / 12 % 4); break; default: smul_events<glm::mat4, S>(s, k / 12 % 4); break;
    }
}
static void smul_all() {
    const int reps = g_thorough ? 40 : 4;
    int k = 0;
    for (int rep = 0; rep < reps; ++rep) {
        for (int s : { 0, 1, -1, 2, 3, -5, 7, 10, 255, 16777216, 16777217, 16777219, 33554435, 2147483647, -2147483647 - 1, int(rnd(1u << 31)), -int(rnd(1000)) }) smul_scalar<int>(s, k++);
        for (unsigned s : { 0u, 1u, 2u, 3u, 9u, 16777217u, 4294967295u, 4294967167u, 2147483648u, unsigned(rnd(1ull << 32)) }) smul_scalar<unsigned>(s, k++);
        for (long s : { 0l, 1l, -3l, 6l, 4294967296l, 9007199254740993l, 9223372036854775807l, -9223372036854775807l - 1, long(g_rng->next()) }) smul_scalar<long>(s, k++);
        for (double s : { 0.0, -0.0, 1.0, -1.0, 0.5, 2.5, 0.1, 1.0 / 3, -7.25, 1e-3, 1e10, 16777217.0, 1.0000000596046448, 1e-30, 1e30, 1e60, 1e-60, double(rfull<double>(-10, 10)) }) smul_scalar<double>(s, k++);
    }
    smul_scalar<double>(std::numeric_limits<double>::infinity(), 2); smul_scalar<double>(std::numeric_limits<double>::quiet_NaN(), 7); smul_scalar<double>(1e300, 1);
}

// ---------------------------------------------------------------- 6. range
template<class V> void range_event(const char* kind, int C, int R, V v) {
    typedef typename V::value_type T;
    V const& cv = v;
    std::vector<T> it; for (auto x : cv) it.push_back(x);
    long cnt = long(glm::components(cv)), dist = long(glm::end(cv) - glm::begin(cv));
    long off = long(glm::begin(cv) - glm::value_ptr(cv));                        // begin is where value_ptr points
    V w = v; int k = 0; for (auto& x : w) x = T(++k);
    long distm = long(glm::end(w) - glm::begin(w));
    Ev e("range"); e.str("k", kind).num("c", C); tl<T>(e, R).num("cnt", cnt).num("dist", dist).num("distm", distm).num("off", off).arg(v); words(e, "it", it); e.val("w", w).emit();
}
template<class T> void range_all() {
    auto val = [&]() { if constexpr (std::is_floating_point<T>::value) return rfull<T>(-5, 5); else return T(rnd(200)); };
    for (int rep = 0; rep < (g_thorough ? 12 : 2); ++rep) {
        range_event("vec", 1, 1, gen<1, T>(val)); range_event("vec", 1, 2, gen<2, T>(val)); range_event("vec", 1, 3, gen<3, T>(val)); range_event("vec", 1, 4, gen<4, T>(val));
        range_event("vec", 1, 3, glm::vec<3, T, glm::lowp>(gen<3, T>(val)));
#define RM(C, R) { glm::mat<C, R, T> m; for (int c = 0; c < C; ++c) for (int r = 0; r < R; ++r) m[c][r] = val(); range_event("mat", C, R, m); }
        if constexpr (std::is_floating_point<T>::value) { RM(2, 2) RM(2, 3) RM(2, 4) RM(3, 2) RM(3, 3) RM(3, 4) RM(4, 2) RM(4, 3) RM(4, 4) }
#undef RM
    }
}

// ---------------------------------------------------------------- 7. typedef tables
template<class T> void typedef_event(const char* name) {
    typedef std::numeric_limits<T> NL;
    Ev e("typedef"); e.str("name", name).num("bytes", long(sizeof(T))).num("int", NL::is_integer ? 1 : 0).num("sgn", NL::is_signed ? 1 : 0).num("iec", NL::is_iec559 ? 1 : 0).num("digits", NL::digits).emit();
}
template<class V> void typedefv_event(const char* name) {
    typedef typename V::value_type T; typedef std::numeric_limits<T> NL;
    Ev e("typedefv"); e.str("name", name).num("bytes", long(sizeof(V))).num("len", long(V::length())).num("ebytes", long(sizeof(T))).num("szt", long(sizeof(std::size_t)))
        .num("int", NL::is_integer ? 1 : 0).num("sgn", NL::is_signed ? 1 : 0).emit();
}
static void typedef_all() {
#define TD(N) typedef_event<glm::N>(#N);
    TD(u8) TD(u16) TD(u32) TD(u64) TD(i8) TD(i16) TD(i32) TD(i64) TD(f32) TD(f64) TD(f32mat1) TD(f32mat1x1) TD(f64mat1) TD(f64mat1x1) TD(byte) TD(word) TD(dword) TD(qword)
#undef TD
#define TV(N) typedefv_event<glm::N>(#N);
    TV(size1) TV(size2) TV(size3) TV(size4) TV(size1_t) TV(size2_t) TV(size3_t) TV(size4_t)
#undef TV
}

// ---------------------------------------------------------------- 8. exterior / mixed product, triangle normal
template<class T> void products() {
    auto S = lat<T>();
    const int reps = g_thorough ? 900 : 110;
    auto v2 = [&](int mode) { return gen<2, T>([&]() { return mode == 0 ? T(int(rnd(21)) - 10) : mode == 1 ? rfull<T>(-3, 3) : mode == 2 ? rfull<T>(-30, 30) : S[rnd(S.size())]; }); };
    auto v3 = [&](int mode) { return gen<3, T>([&]() { return mode == 0 ? T(int(rnd(21)) - 10) : mode == 1 ? rfull<T>(-3, 3) : mode == 2 ? rfull<T>(-30, 30) : S[rnd(S.size())]; }); };
    for (int k = 0; k < reps; ++k) {
        int mode = (k % 8 == 7) ? 3 : k % 3;
        { auto x = v2(mode), y = v2(mode); if (k % 11 == 5) y = x * T(2); T r = glm::cross(x, y), r2 = glm::cross(y, x); Ev e("cross2"); tl<T>(e, 2).arg(x).arg(y).val("r2", r2).res(r).emit(); }
        { auto a = v3(mode), b = v3(mode), c = v3(mode); if (k % 13 == 4) c = a + b;
          T r = glm::mixedProduct(a, b, c), r2 = glm::mixedProduct(b, a, c), r3 = glm::mixedProduct(b, c, a);
          Ev e("mixed"); tl<T>(e, 3).arg(a).arg(b).arg(c).val("r2", r2).val("r3", r3).res(r).emit(); }
        if (g_thorough || k % 3 == 0) { auto p1 = v3(mode), p2 = v3(mode), p3 = v3(mode); if (k % 17 == 3 || k == 9) p3 = p1 + (p2 - p1) * T(3);           // collinear: degenerate
          auto n = glm::triangleNormal(p1, p2, p3), n2 = glm::triangleNormal(p1, p3, p2);
          Ev e("triNormal"); tl<T>(e, 3).arg(p1).arg(p2).arg(p3).val("r2", n2).res(n).emit(); }
    }
}

static void body(int argc, char** argv) {
    g_thorough = argc > 2 && std::string(argv[2]) == "thorough";
    Rng rng(seed_from_env()); g_rng = &rng;
    typedef_all();
    int_reductions<signed char>(); int_reductions<unsigned char>(); int_reductions<short>(); int_reductions<unsigned short>();
    int_reductions<int>(); int_reductions<unsigned int>(); int_reductions<long>(); int_reductions<unsigned long>();
    float_reductions<float>(); float_reductions<double>();
    normalize_scale();
    hash_vecs<float>(); hash_vecs<double>(); hash_vecs<int>(); hash_vecs<unsigned int>(); hash_vecs<signed char>(); hash_vecs<unsigned short>(); hash_vecs<long>(); hash_vecs<unsigned long>();
    hash_all_mats<float>(); hash_all_mats<double>();
    isdenormal_events<float>(); isdenormal_events<double>();
    fmod_float<float>(); fmod_float<double>();
    fmod_int<int>(); fmod_int<unsigned int>(); fmod_int<signed char>(); fmod_int<unsigned short>(); fmod_int<long>(); fmod_int<unsigned long>();
    bounded_events<float>(); bounded_events<double>(); bounded_events<int>(); bounded_events<unsigned int>(); bounded_events<short>(); bounded_events<unsigned char>(); bounded_events<long>();
    smul_all();
    range_all<float>(); range_all<double>(); range_all<int>(); range_all<unsigned char>(); range_all<long>();
    products<float>(); products<double>();
}
int main(int argc, char** argv) { return run_main(argc, argv, body); }
