// C12 harness: geometric functions (glm/geometric.hpp) and the gtx norm / projection / perpendicular /
// orthonormalize / vector_angle / closest_point / normal / exterior_product / mixed_product helpers.
// argv: <trace-out> <tier>
// No expected values here: every call is logged with the raw bit patterns of its arguments and results.
#include "common.hpp"
#include <glm/gtx/norm.hpp>
#include <glm/gtx/projection.hpp>
#include <glm/gtx/perpendicular.hpp>
#include <glm/gtx/orthonormalize.hpp>
#include <glm/gtx/vector_angle.hpp>
#include <glm/gtx/closest_point.hpp>
#include <glm/gtx/normal.hpp>
#include <glm/gtx/exterior_product.hpp>
#include <glm/gtx/mixed_product.hpp>
#include <cmath>
using namespace vh;
// -DC12_ALIGNED (with GLM_FORCE_INTRINSICS, GLM_FORCE_ALIGNED_GENTYPES and an -m<isa> flag): the same program on the aligned
// qualifiers, i.e. through the intrinsic kernels of glm/simd/geometric.h
#ifdef C12_ALIGNED
#include <glm/gtc/type_aligned.hpp>
// (aligned_lowp may use rsqrt approximations, which C03 bounds; lowp stays packed here)
static const glm::qualifier QH = glm::aligned_highp, QM = glm::aligned_mediump, QL = glm::lowp;
#else
static const glm::qualifier QH = glm::highp, QM = glm::mediump, QL = glm::lowp;
#endif

static bool g_thorough = false;

template<glm::qualifier Q> struct QN;
template<> struct QN<QH>   { static const char* s() { return "h"; } };
template<> struct QN<QM> { static const char* s() { return "m"; } };
template<> struct QN<QL>    { static const char* s() { return "l"; } };

#define EV(OP, T, L, Q) Ev(OP).str("t", TI<T>::code()).num("n", L).str("q", QN<Q>::s())

// a case: up to three vectors of 4 components, a scalar eta and a depth; built from exact small numbers
template<class T> struct Case { T a[4], b[4], c[4]; T eta; unsigned depth; };

template<int L, class T, glm::qualifier Q> glm::vec<L, T, Q> mk(const T* p) {
    glm::vec<L, T, Q> v; std::memset(static_cast<void*>(&v), 0xFF, sizeof v);     // padding lanes of aligned vec3: a NaN pattern
    for (int i = 0; i < L; ++i) v[i] = p[i]; return v;
}

// ------------------------------------------------------------------ core functions, vector overloads
template<int L, class T, glm::qualifier Q> void core_vec(Case<T> const& cs) {
    typedef glm::vec<L, T, Q> V;
    V a = mk<L, T, Q>(cs.a), b = mk<L, T, Q>(cs.b), c = mk<L, T, Q>(cs.c);
    T eta = cs.eta;
    { T r = glm::dot(a, b);       EV("dot", T, L, Q).arg(a).arg(b).res(r).emit(); }
    { T r = glm::length(a);       EV("length", T, L, Q).arg(a).res(r).emit(); }
    { T r = glm::distance(a, b);  EV("distance", T, L, Q).arg(a).arg(b).res(r).emit(); }
    { V r = glm::normalize(a);    EV("normalize", T, L, Q).arg(a).res(r).emit(); }
    { V r = glm::faceforward(a, b, c); EV("faceforward", T, L, Q).arg(a).arg(b).arg(c).res(r).emit(); }
    { V r = glm::faceforward(a, b, a); EV("faceforward", T, L, Q).arg(a).arg(b).arg(a).res(r).emit(); }
    { V r = glm::reflect(a, b); V rr = glm::reflect(r, b); EV("reflect", T, L, Q).arg(a).arg(b).res(r).val("rr", rr).emit(); }
    { V r = glm::refract(a, b, eta); EV("refract", T, L, Q).arg(a).arg(b).arg(eta).res(r).emit(); }
    { T r = glm::length2(a);      EV("length2", T, L, Q).arg(a).res(r).emit(); }
    { T r = glm::distance2(a, b); EV("distance2", T, L, Q).arg(a).arg(b).res(r).emit(); }
    { V r = glm::proj(a, b);      EV("proj", T, L, Q).arg(a).arg(b).res(r).emit(); }
    { V r = glm::perp(a, b);      EV("perp", T, L, Q).arg(a).arg(b).res(r).emit(); }
    { T r = glm::angle(a, b); T r2 = glm::angle(b, a); EV("angle", T, L, Q).arg(a).arg(b).res(r).val("r2", r2).emit(); }
}
template<class T, glm::qualifier Q> void only2(Case<T> const& cs) {
    typedef glm::vec<2, T, Q> V;
    V a = mk<2, T, Q>(cs.a), b = mk<2, T, Q>(cs.b), c = mk<2, T, Q>(cs.c);
    { T r = glm::cross(a, b); T r2 = glm::cross(b, a); EV("cross2", T, 2, Q).arg(a).arg(b).res(r).val("r2", r2).emit(); }
    { T r = glm::orientedAngle(a, b); T g = glm::angle(a, b); EV("orientedAngle2", T, 2, Q).arg(a).arg(b).res(r).val("ang", g).emit(); }
    { V r = glm::closestPointOnLine(a, b, c); EV("closestPointOnLine", T, 2, Q).arg(a).arg(b).arg(c).res(r).emit(); }
    { V r = glm::closestPointOnLine(c, a, b); EV("closestPointOnLine", T, 2, Q).arg(c).arg(a).arg(b).res(r).emit(); }
}
template<class T, glm::qualifier Q> void only3(Case<T> const& cs) {
    typedef glm::vec<3, T, Q> V;
    V a = mk<3, T, Q>(cs.a), b = mk<3, T, Q>(cs.b), c = mk<3, T, Q>(cs.c);
    const bool heavy = g_thorough || Q == QH;      // the costly judgements: every qualifier in the thorough tier only
    { V r = glm::cross(a, b); V r2 = glm::cross(b, a); EV("cross", T, 3, Q).arg(a).arg(b).res(r).val("r2", r2).emit(); }
    { T r = glm::mixedProduct(a, b, c); EV("mixedProduct", T, 3, Q).arg(a).arg(b).arg(c).res(r).emit(); }
    if (heavy) { V r = glm::triangleNormal(a, b, c); EV("triangleNormal", T, 3, Q).arg(a).arg(b).arg(c).res(r).emit(); }
    if (heavy) { T r = glm::orientedAngle(a, b, c); T g = glm::angle(a, b); EV("orientedAngle3", T, 3, Q).arg(a).arg(b).arg(c).res(r).val("ang", g).emit(); }
    { V r = glm::closestPointOnLine(a, b, c); EV("closestPointOnLine", T, 3, Q).arg(a).arg(b).arg(c).res(r).emit(); }
    { V r = glm::closestPointOnLine(c, a, b); EV("closestPointOnLine", T, 3, Q).arg(c).arg(a).arg(b).res(r).emit(); }
    if (heavy) { V r = glm::orthonormalize(a, b); EV("orthonormalize2", T, 3, Q).arg(a).arg(b).res(r).emit(); }
    if (heavy) { glm::mat<3, 3, T, Q> m(a, b, c); glm::mat<3, 3, T, Q> r = glm::orthonormalize(m); EV("orthonormalize3", T, 3, Q).arg(m).res(r).emit(); }
    { T r = glm::l1Norm(a);       EV("l1Norm", T, 3, Q).arg(a).res(r).emit(); }
    { T r = glm::l1Norm(a, b);    EV("l1Norm", T, 3, Q).arg(a).arg(b).res(r).emit(); }
    { T r = glm::l2Norm(a);       EV("l2Norm", T, 3, Q).arg(a).res(r).emit(); }
    { T r = glm::l2Norm(a, b);    EV("l2Norm", T, 3, Q).arg(a).arg(b).res(r).emit(); }
    { T r = glm::lMaxNorm(a);     EV("lMaxNorm", T, 3, Q).arg(a).res(r).emit(); }
    { T r = glm::lMaxNorm(a, b);  EV("lMaxNorm", T, 3, Q).arg(a).arg(b).res(r).emit(); }
    { T r = glm::lxNorm(a, cs.depth);    EV("lxNorm", T, 3, Q).arg(a).num("d", cs.depth).res(r).emit(); }
    { T r = glm::lxNorm(a, b, cs.depth); EV("lxNorm", T, 3, Q).arg(a).arg(b).num("d", cs.depth).res(r).emit(); }
}
// ------------------------------------------------------------------ scalar (genType) overloads
template<class T> void core_scalar(Case<T> const& cs) {
    T a = cs.a[0], b = cs.b[0], c = cs.c[0], eta = cs.eta;
    const glm::qualifier Q = QH;
    { T r = glm::dot(a, b);       EV("dot", T, 0, Q).arg(a).arg(b).res(r).emit(); }
    { T r = glm::length(a);       EV("length", T, 0, Q).arg(a).res(r).emit(); }
    { T r = glm::distance(a, b);  EV("distance", T, 0, Q).arg(a).arg(b).res(r).emit(); }
    { T r = glm::faceforward(a, b, c); EV("faceforward", T, 0, Q).arg(a).arg(b).arg(c).res(r).emit(); }
    { T r = glm::reflect(a, b); T rr = glm::reflect(r, b); EV("reflect", T, 0, Q).arg(a).arg(b).res(r).val("rr", rr).emit(); }
    { T r = glm::refract(a, b, eta); EV("refract", T, 0, Q).arg(a).arg(b).arg(eta).res(r).emit(); }
    { T r = glm::length2(a);      EV("length2", T, 0, Q).arg(a).res(r).emit(); }
    { T r = glm::distance2(a, b); EV("distance2", T, 0, Q).arg(a).arg(b).res(r).emit(); }
    { T r = glm::proj(a, b);      EV("proj", T, 0, Q).arg(a).arg(b).res(r).emit(); }
    { T r = glm::perp(a, b);      EV("perp", T, 0, Q).arg(a).arg(b).res(r).emit(); }
    { T r = glm::angle(a, b); T r2 = glm::angle(b, a); EV("angle", T, 0, Q).arg(a).arg(b).res(r).val("r2", r2).emit(); }
}

template<int L, class T, glm::qualifier Q> void run_q(Case<T> const& cs) {
    core_vec<L, T, Q>(cs);
    if constexpr (L == 2) only2<T, Q>(cs);
    if constexpr (L == 3) only3<T, Q>(cs);
}
// every case through highp; every 10th (thorough: 5th) also through mediump and through lowp; L = 1 also through the scalar overloads
template<int L, class T> void run_case(Case<T> const& cs, uint64_t idx) {
    run_q<L, T, QH>(cs);
    const uint64_t per = g_thorough ? 5 : 10;
    if (idx % per == 1) run_q<L, T, QM>(cs);
    if (idx % per == 3) run_q<L, T, QL>(cs);
    if constexpr (L == 1) core_scalar<T>(cs);
}

// ------------------------------------------------------------------ input construction (exact small numbers only)
template<class T> T dy(long long k, int e) { return std::ldexp(T(k), e); }          // k * 2^e, exact for |k| < 2^24
template<class T> T rat(int n, int d) { return T(n) / T(d); }                       // one correctly rounded division

struct IV { int v[4]; };
// all vectors of {-1,0,1}^L plus a few longer ones
static std::vector<IV> int_pool(int L) {
    std::vector<IV> p;
    int n = 1; for (int i = 0; i < L; ++i) n *= 3;
    for (int k = 0; k < n; ++k) { IV x{}; int t = k; for (int i = 0; i < L; ++i) { x.v[i] = t % 3 - 1; t /= 3; } p.push_back(x); }
    const int extra[][4] = { {2, 0, 0, 0}, {-2, 1, 0, 0}, {1, 2, 2, 0}, {2, -1, 2, 1}, {-1, -2, -2, 4}, {3, 4, 0, 0}, {-4, 3, 0, 0}, {2, 3, 6, 0},
                             {0, -3, 4, 0}, {1, 1, 2, -2}, {4, 4, -2, 1}, {-3, 0, 0, 4} };
    for (auto& e : extra) { IV x{}; for (int i = 0; i < L; ++i) x.v[i] = e[i]; p.push_back(x); }
    return p;
}
// rational unit vectors (numerators / common denominator)
struct UV { int v[4]; int den; };
static std::vector<UV> unit_pool(int L) {
    std::vector<UV> p;
    auto add = [&](int a, int b, int c, int d, int den) { p.push_back(UV{{a, b, c, d}, den}); };
    if (L == 1) { add(1, 0, 0, 0, 1); add(-1, 0, 0, 0, 1); }
    if (L == 2) { add(1, 0, 0, 0, 1); add(0, 1, 0, 0, 1); add(-1, 0, 0, 0, 1); add(0, -1, 0, 0, 1); add(3, 4, 0, 0, 5); add(4, -3, 0, 0, 5); add(-3, -4, 0, 0, 5);
                  add(-4, 3, 0, 0, 5); add(5, 12, 0, 0, 13); add(-12, 5, 0, 0, 13); add(7, -24, 0, 0, 25); add(24, 7, 0, 0, 25); add(8, 15, 0, 0, 17); add(-20, -21, 0, 0, 29);
                  add(3, -4, 0, 0, 5); add(-5, -12, 0, 0, 13); add(1023, 64, 0, 0, 1025); add(-1, 0, 0, 0, 1); }
    if (L == 3) { add(1, 0, 0, 0, 1); add(0, 1, 0, 0, 1); add(0, 0, 1, 0, 1); add(0, -1, 0, 0, 1); add(1, 2, 2, 0, 3); add(-2, 1, -2, 0, 3); add(2, -2, 1, 0, 3);
                  add(2, 3, 6, 0, 7); add(-6, 2, 3, 0, 7); add(3, -6, 2, 0, 7); add(1, 4, 8, 0, 9); add(-4, -4, 7, 0, 9); add(2, 10, 11, 0, 15); add(3, 4, 0, 0, 5);
                  add(0, -3, -4, 0, 5); add(-1, -2, -2, 0, 3); add(12, 0, -5, 0, 13); add(0, 0, -1, 0, 1); }
    if (L == 4) { add(1, 0, 0, 0, 1); add(0, 0, 0, -1, 1); add(1, 1, 1, 1, 2); add(1, -1, 1, -1, 2); add(1, 2, 2, 4, 5); add(-2, 4, -5, 6, 9); add(2, 4, 5, 6, 9);
                  add(-1, -1, -1, -1, 2); add(4, -2, 2, 1, 5); add(0, 3, 0, 4, 5); add(1, 2, 4, 10, 11); add(0, -1, 0, 0, 1); }
    return p;
}
static const int ETA[][2] = { {1, 2}, {2, 3}, {3, 4}, {1, 1}, {5, 4}, {4, 3}, {3, 2}, {5, 3}, {2, 1}, {3, 1}, {1, 4}, {13, 12}, {25, 24}, {5, 1} };
static const int NETA = int(sizeof(ETA) / sizeof(ETA[0]));

template<class T> void fill_int(T* d, IV const& s, int sc) { for (int i = 0; i < 4; ++i) d[i] = dy<T>(s.v[i], sc); }
template<class T> void fill_unit(T* d, UV const& s) { for (int i = 0; i < 4; ++i) d[i] = rat<T>(s.v[i], s.den); }

// evenly spaced sub-sampling: picks about `target` of `total` items
struct Sub { uint64_t total, target, i = 0; Sub(uint64_t tot, uint64_t tgt) : total(tot ? tot : 1), target(tgt > tot ? tot : tgt) {}
             bool next() { bool r = ((i + 1) * target / total) != (i * target / total); ++i; return r; } };

template<int L, class T> void gen_all(Rng& rng) {
    const bool F = std::is_same<T, float>::value;
    const int S = F ? 12 : 50;          // scale exponents: squares and triple products stay far from over/underflow
    const uint64_t M = g_thorough ? 10 : 1;
    uint64_t idx = 0;
    Case<T> cs{};
    // (1) small integer vectors: pairs (sub-sampled), third vector cycling; eta from the rational table
    {
        std::vector<IV> P = int_pool(L);
        size_t n = P.size();
        Sub pick(n * n, 26 * M);
        for (size_t i = 0; i < n; ++i) for (size_t j = 0; j < n; ++j) {
            if (!pick.next()) continue;
            size_t jj = (j + i * 5) % n;                                   // decorrelate from the sampling stride
            fill_int(cs.a, P[i], 0); fill_int(cs.b, P[jj], 0); fill_int(cs.c, P[(i * 7 + jj * 3 + 1) % n], 0);
            const int* e = ETA[(i + jj) % NETA]; cs.eta = rat<T>(e[0], e[1]); cs.depth = unsigned(1 + (i + jj) % 4);
            run_case<L, T>(cs, idx++);
        }
        // exact ties of refract (k = 0 <=> dot = 0 and eta = 1) and of faceforward (dot = 0), TIR with exactly representable k
        size_t ties = 0;
        for (size_t i = 0; i < n; ++i) for (size_t j = 0; j < n; ++j) {
            long d = 0; for (int k = 0; k < L; ++k) d += long(P[i].v[k]) * P[j].v[k];
            if (d == 0) ++ties;
        }
        Sub pick2(ties, 4 * M);
        for (size_t i = 0; i < n; ++i) for (size_t j = 0; j < n; ++j) {
            long d = 0; for (int k = 0; k < L; ++k) d += long(P[i].v[k]) * P[j].v[k];
            if (d != 0 || !pick2.next()) continue;
            fill_int(cs.a, P[i], 0); fill_int(cs.b, P[j], 0); fill_int(cs.c, P[i], 0);
            for (int q = 0; q < 3; ++q) { cs.eta = q == 0 ? T(1) : q == 1 ? dy<T>(5, -2) : dy<T>(3, -2); cs.depth = 2; run_case<L, T>(cs, idx++); }
        }
    }
    // (2) scaled / parallel / antiparallel / nearly degenerate configurations
    {
        std::vector<IV> P = int_pool(L);
        Sub pick(P.size(), 6 * M);
        for (size_t i = 0; i < P.size(); ++i) {
            if (!pick.next()) continue;
            int sc = int(rng.below(2 * S + 1)) - S;
            fill_int(cs.a, P[i], sc);
            for (int k = 0; k < 4; ++k) { cs.b[k] = cs.a[k] * T(3); cs.c[k] = cs.a[k] * T(-2); }             // parallel, antiparallel
            cs.eta = rat<T>(3, 2); cs.depth = 3; run_case<L, T>(cs, idx++);
            for (int k = 0; k < 4; ++k) { cs.b[k] = -cs.a[k]; cs.c[k] = cs.a[k]; }
            cs.b[L - 1] = cs.b[L - 1] + dy<T>(1, sc - 20);                                                    // almost antiparallel
            cs.c[0] = cs.c[0] + dy<T>(1, sc - 10);                                                            // almost parallel
            cs.eta = rat<T>(2, 3); cs.depth = 2; run_case<L, T>(cs, idx++);
        }
        // (1,0,0) vs (1,2^-20,0) and friends
        for (int e = 4; e <= 22; e += (g_thorough ? 1 : 6)) {
            for (int k = 0; k < 4; ++k) { cs.a[k] = T(0); cs.b[k] = T(0); cs.c[k] = T(0); }
            cs.a[0] = T(1); cs.b[0] = T(1); if (L > 1) cs.b[1] = dy<T>(1, -e); else cs.b[0] = T(1) + dy<T>(1, -e);
            cs.c[L - 1] = T(1); cs.c[0] = cs.c[0] + dy<T>(1, -e);
            cs.eta = T(1); cs.depth = 2; run_case<L, T>(cs, idx++);
            cs.eta = T(1) + dy<T>(1, -e); run_case<L, T>(cs, idx++);
        }
    }
    // (3) rational unit vectors x rational eta (both sides of total internal reflection and the critical angle itself)
    {
        std::vector<UV> U = unit_pool(L);
        size_t n = U.size();
        Sub pick(n * n * NETA, 26 * M);
        for (size_t i = 0; i < n; ++i) for (size_t j = 0; j < n; ++j) for (int q = 0; q < NETA; ++q) {
            if (!pick.next()) continue;
            size_t jj = (j + i * 3) % n; int qq = int((q + i + 2 * j) % NETA);
            fill_unit(cs.a, U[i]); fill_unit(cs.b, U[jj]); fill_unit(cs.c, U[(i + 2 * jj + 1) % n]);
            const int* e = ETA[qq]; cs.eta = rat<T>(e[0], e[1]); cs.depth = unsigned(1 + (i + jj + q) % 4);
            run_case<L, T>(cs, idx++);
            // the same directions one unit in the last place away (squared norms on both sides of 1)
            if ((i + jj + q) % 4 == 0) {
                cs.a[0] = std::nextafter(cs.a[0], T(2)); cs.b[L - 1] = std::nextafter(cs.b[L - 1], T(-2));
                run_case<L, T>(cs, idx++);
            }
        }
        // Snell pairs with an exactly rational refracted ray: I = (s, -c) in the plane of the first two axes (L >= 2), N = axis
        if (L >= 2) {
            const int PY[][3] = { {3, 4, 5}, {4, 3, 5}, {5, 12, 13}, {12, 5, 13}, {7, 24, 25}, {8, 15, 17} };
            Sub pick3(6 * NETA, 8 * M);
            for (auto& t : PY) for (int q = 0; q < NETA; ++q) {
                if (!pick3.next()) continue;
                for (int k = 0; k < 4; ++k) { cs.a[k] = T(0); cs.b[k] = T(0); cs.c[k] = T(0); }
                cs.a[0] = rat<T>(t[0], t[2]); cs.a[1] = rat<T>(-t[1], t[2]); cs.b[1] = T(1); cs.c[L - 1] = T(1);
                cs.eta = rat<T>(ETA[q][0], ETA[q][1]); cs.depth = 2; run_case<L, T>(cs, idx++);
            }
        }
    }
    // (4) random dyadic vectors k / 2^j at a random common scale; eta random in (0, 4]
    {
        int N = int(10 * M);
        for (int it = 0; it < N; ++it) {
            int sc = (it % 3 == 0) ? 0 : int(rng.below(2 * S + 1)) - S;
            int bits = 1 + int(rng.below(F ? 20 : 40));
            auto rv = [&](T* d) { for (int k = 0; k < 4; ++k) { long long m = (long long)(rng.below(2ull << bits)) - (1ll << bits); d[k] = dy<T>(m, sc - bits + int(rng.below(3))); } };
            rv(cs.a); rv(cs.b); rv(cs.c);
            if (it % 7 == 0) cs.c[int(rng.below(L))] = T(0);
            cs.eta = dy<T>(1 + (long long)rng.below(1024), -8); cs.depth = unsigned(1 + rng.below(4));
            run_case<L, T>(cs, idx++);
        }
        // random directions normalised by GLM itself (inputs of the angle functions) with a random eta
        for (int it = 0; it < N; ++it) {
            auto rv = [&](T* d) { glm::vec<L, T, QH> v; bool nz = false; for (int k = 0; k < L; ++k) { long long m = (long long)(rng.below(2001)) - 1000; v[k] = T(m); nz = nz || m != 0; }
                                  if (!nz) v[0] = T(1); v = glm::normalize(v); for (int k = 0; k < 4; ++k) d[k] = k < L ? v[k] : T(0); };
            rv(cs.a); rv(cs.b); rv(cs.c);
            cs.eta = dy<T>(1 + (long long)rng.below(1024), -8); cs.depth = unsigned(1 + rng.below(4));
            run_case<L, T>(cs, idx++);
        }
    }
    // (4b) parallel and antiparallel unit vectors as GLM's normalize returns them (the rounded dot product of such a pair lies on either side of
    //      +-1: the angle functions must clamp before acos), small integer directions first ((1,4,0) has dot(x,x) = 1 + 2^-23 in float)
    {
        int N = int(24 * M);
        for (int it = 0; it < N; ++it) {
            glm::vec<L, T, QH> v, w; bool nz = false;
            for (int k = 0; k < L; ++k) { long long m = it < 12 ? (long long)((it * (k + 3) + k * k + 1) % 9) - (k == 2 ? 4 : 0) : (long long)(rng.below(41)) - 20; v[k] = T(m); nz = nz || m != 0; w[k] = T((long long)(rng.below(9)) - 4); }
            if (it == 0 && L >= 2) { v = glm::vec<L, T, QH>(T(0)); v[0] = T(1); v[1] = T(4); nz = true; }
            if (!nz) v[0] = T(1);
            bool wz = true; for (int k = 0; k < L; ++k) wz = wz && w[k] == T(0); if (wz) w[L - 1] = T(1);
            v = glm::normalize(v); w = glm::normalize(w);
            for (int k = 0; k < 4; ++k) { cs.a[k] = k < L ? v[k] : T(0); cs.b[k] = cs.a[k]; cs.c[k] = k < L ? w[k] : T(0); }
            cs.eta = T(1); cs.depth = 2; run_case<L, T>(cs, idx++);
            for (int k = 0; k < 4; ++k) cs.b[k] = -cs.a[k];
            run_case<L, T>(cs, idx++);
        }
    }
    // (5) outside the documented domain (constrain nothing): non-finite and extreme magnitudes
    {
        const T big = std::numeric_limits<T>::max(), tiny = std::numeric_limits<T>::denorm_min(), inf = std::numeric_limits<T>::infinity();
        const T specials[] = { big, tiny, inf, std::numeric_limits<T>::quiet_NaN() };
        for (T s : specials) {
            for (int k = 0; k < 4; ++k) { cs.a[k] = T(1); cs.b[k] = T(k + 1); cs.c[k] = T(-1); }
            cs.a[0] = s; cs.eta = T(1); cs.depth = 2; run_case<L, T>(cs, idx += 5);
            if (g_thorough) { cs.a[0] = T(1); cs.b[L - 1] = s; run_case<L, T>(cs, idx += 5); }
        }
        for (int k = 0; k < 4; ++k) { cs.a[k] = T(1); cs.b[k] = T(0); cs.c[k] = T(1); }
        cs.b[0] = T(1); cs.eta = T(-1); run_case<L, T>(cs, idx += 5);            // eta <= 0
    }
}

template<class T> void gen_type(uint64_t seed) {
    { Rng r(seed * 11 + 1); gen_all<1, T>(r); }
    { Rng r(seed * 11 + 2); gen_all<2, T>(r); }
    { Rng r(seed * 11 + 3); gen_all<3, T>(r); }
    { Rng r(seed * 11 + 4); gen_all<4, T>(r); }
}

static void body(int argc, char** argv) {
    g_thorough = argc > 2 && std::string(argv[2]) == "thorough";
    uint64_t seed = seed_from_env();
    gen_type<float>(seed);
    gen_type<double>(seed + 1000);
}
int main(int argc, char** argv) { return run_main(argc, argv, body); }
