// X02 harness: matrix helper libraries attached to C02 -
//   gtc/matrix_access (row, column getters / setters), gtx/matrix_operation (diagonalCxR, adjugate), gtx/matrix_query (isNull,
//   isIdentity, isNormalized, isOrthogonal), gtx/matrix_major_storage (rowMajorN, colMajorN), gtx/matrix_cross_product
//   (matrixCross3/4), ext/matrix_integer + gtc/matrix_integer + ext/matrix_*_sized (matrixCompMult, outerProduct, transpose,
//   determinant on integer matrices), gtx/matrix_factorisation (flipud, fliplr, qr_decompose, rq_decompose),
//   ext/matrix_common (mix, abs).
// argv: <trace-out> <tier>
// No expected values here: every call is logged with the raw bit patterns of its arguments and results; TLC judges
// (spec/trace/Trace_X02.tla).  Inputs: small integers, dyadics k * 2^e, Pythagorean rationals n/d (one correctly rounded
// division), bit patterns of the lattices of common.hpp, the integer Rng.  Operands are bound to locals before any call.
#define VH_NO_EXT_ALL
#include "common.hpp"
#include <glm/gtc/matrix_access.hpp>
#include <glm/gtx/matrix_operation.hpp>
#include <glm/gtx/matrix_query.hpp>
#include <glm/gtx/matrix_major_storage.hpp>
#include <glm/gtx/matrix_cross_product.hpp>
#include <glm/ext/matrix_integer.hpp>
#include <glm/gtc/matrix_integer.hpp>
#include <glm/ext/matrix_int2x2_sized.hpp>
#include <glm/ext/matrix_int2x3_sized.hpp>
#include <glm/ext/matrix_int2x4_sized.hpp>
#include <glm/ext/matrix_int3x2_sized.hpp>
#include <glm/ext/matrix_int3x3_sized.hpp>
#include <glm/ext/matrix_int3x4_sized.hpp>
#include <glm/ext/matrix_int4x2_sized.hpp>
#include <glm/ext/matrix_int4x3_sized.hpp>
#include <glm/ext/matrix_int4x4_sized.hpp>
#include <glm/ext/matrix_uint2x2_sized.hpp>
#include <glm/ext/matrix_uint2x3_sized.hpp>
#include <glm/ext/matrix_uint2x4_sized.hpp>
#include <glm/ext/matrix_uint3x2_sized.hpp>
#include <glm/ext/matrix_uint3x3_sized.hpp>
#include <glm/ext/matrix_uint3x4_sized.hpp>
#include <glm/ext/matrix_uint4x2_sized.hpp>
#include <glm/ext/matrix_uint4x3_sized.hpp>
#include <glm/ext/matrix_uint4x4_sized.hpp>
#include <glm/gtx/matrix_factorisation.hpp>
#include <glm/ext/matrix_common.hpp>
#include <cmath>
using namespace vh;

static bool g_thorough = false;
static Rng* g_rng = nullptr;
template<int C, int R, class T, glm::qualifier Q = glm::defaultp> using M = glm::mat<C, R, T, Q>;
template<int L, class T, glm::qualifier Q = glm::defaultp> using V = glm::vec<L, T, Q>;
#define EVS(OP, T, C_, R_) Ev(OP).str("t", TI<T>::code()).num("C", C_).num("R", R_)
#define EVN(OP, T, N_) Ev(OP).str("t", TI<T>::code()).num("n", N_)
template<class T> constexpr bool isF() { return std::is_floating_point<T>::value; }
template<class T> constexpr bool isS() { return std::numeric_limits<T>::is_signed; }
template<class T> T dy(long long k, int e) { return std::ldexp(T(k), e); }          // k * 2^e, exact for |k| < 2^24
template<class T> T rat(int n, int d) { return T(n) / T(d); }                       // one correctly rounded division
static long rint_(long lo, long hi) { return lo + long(g_rng->below(uint64_t(hi - lo + 1))); }
static int every(int quick, int thorough = 1) { return g_thorough ? thorough : quick; }

// ------------------------------------------------------------------ element and matrix families
// small integer (all types; negative values wrap for the unsigned types, which is what their arithmetic does)
template<class T> T sv(long n) { if constexpr (isS<T>() || isF<T>()) return T(n); else return T((unsigned long long)(long long)n); }
// an arbitrary element: floats: any bit pattern of the lattice or a random dyadic; integers: any bit pattern
template<class T> T any_elem() {
    if constexpr (isF<T>()) {
        uint64_t w = g_rng->below(8);
        if (w == 0) { static const std::vector<uint64_t> lat = lattice<T>(); return from_bits<T>(lat[g_rng->below(lat.size())]); }
        if (w == 1) return from_bits<T>(g_rng->next());
        return dy<T>(rint_(-4095, 4095), int(rint_(-12, 12)));
    } else return from_bits<T>(g_rng->next());
}
// entries all different, so that an index mix-up always shows: 10 (c+1) + (r+1) + 100 seed, alternating signs for signed types
template<int C, int R, class T> M<C, R, T> m_seq(int seed) {
    M<C, R, T> m; for (int c = 0; c < C; ++c) for (int r = 0; r < R; ++r) { long v = 10 * (c + 1) + (r + 1) + 100 * (seed % 2); if ((c + r + seed) % 3 == 0) v = -v; m[c][r] = sv<T>((isS<T>() || isF<T>()) ? v : std::labs(v)); }
    return m;
}
template<int C, int R, class T> M<C, R, T> m_any() { M<C, R, T> m; for (int c = 0; c < C; ++c) for (int r = 0; r < R; ++r) m[c][r] = any_elem<T>(); return m; }
template<int L, class T> V<L, T> v_seq(int seed) { V<L, T> v; for (int i = 0; i < L; ++i) { long x = 7 * (i + 1) + 50 * (seed % 3) + 1; if ((i + seed) % 2) x = -x; v[i] = sv<T>((isS<T>() || isF<T>()) ? x : std::labs(x)); } return v; }
template<int L, class T> V<L, T> v_any() { V<L, T> v; for (int i = 0; i < L; ++i) v[i] = any_elem<T>(); return v; }
// integer entries in [-b, b] (unsigned: [0, b]), floats optionally scaled by 2^sc
template<int C, int R, class T> M<C, R, T> m_int(long b, int sc = 0) {
    M<C, R, T> m; for (int c = 0; c < C; ++c) for (int r = 0; r < R; ++r) { long v = (isS<T>() || isF<T>()) ? rint_(-b, b) : rint_(0, b); if constexpr (isF<T>()) m[c][r] = dy<T>(v, sc); else m[c][r] = sv<T>(v); }
    return m;
}
template<int L, class T> V<L, T> v_int(long b, int sc = 0) {
    V<L, T> v; for (int i = 0; i < L; ++i) { long x = (isS<T>() || isF<T>()) ? rint_(-b, b) : rint_(0, b); if constexpr (isF<T>()) v[i] = dy<T>(x, sc); else v[i] = sv<T>(x); }
    return v;
}
// full-mantissa random floats with exponents in [-ex, ex]
template<int C, int R, class T> M<C, R, T> m_flt(int ex) {
    M<C, R, T> m; for (int c = 0; c < C; ++c) for (int r = 0; r < R; ++r) { uint64_t b = g_rng->next(); long long mant = (long long)(b & ((1ull << (isF<T>() && sizeof(T) == 4 ? 23 : 52)) - 1)) | (1ll << (sizeof(T) == 4 ? 23 : 52));
        T v = std::ldexp(T(mant), int(rint_(-ex, ex)) - (sizeof(T) == 4 ? 23 : 52)); m[c][r] = (b >> 63) ? -v : v; }
    return m;
}

// ------------------------------------------------------------------ gtc/matrix_access, flipud / fliplr (pure data movement: bit patterns)
template<int C, int R, class T> void access_one(M<C, R, T> const& a, int k) {
    for (int i = 0; i < R; ++i) { V<C, T> r = glm::row(a, i); EVS("rowget", T, C, R).num("i", i).arg(a).res(r).emit();
        V<C, T> x = (k % 2) ? v_any<C, T>() : v_seq<C, T>(i + k); M<C, R, T> r2 = glm::row(a, i, x); EVS("rowset", T, C, R).num("i", i).arg(a).arg(x).res(r2).emit(); }
    for (int i = 0; i < C; ++i) { V<R, T> r = glm::column(a, i); EVS("colget", T, C, R).num("i", i).arg(a).res(r).emit();
        V<R, T> x = (k % 2) ? v_any<R, T>() : v_seq<R, T>(i + k); M<C, R, T> r2 = glm::column(a, i, x); EVS("colset", T, C, R).num("i", i).arg(a).arg(x).res(r2).emit(); }
    { M<C, R, T> r = glm::flipud(a); EVS("flipud", T, C, R).arg(a).res(r).emit(); }
    { M<C, R, T> r = glm::fliplr(a); EVS("fliplr", T, C, R).arg(a).res(r).emit(); }
}
template<int C, int R, class T> void access_ops() {
    const int n = every(1, 4);
    for (int s = 0; s < n; ++s) { access_one<C, R, T>(m_seq<C, R, T>(s), 2 * s); M<C, R, T> a = m_any<C, R, T>(); access_one<C, R, T>(a, 2 * s + 1); }
}

// ------------------------------------------------------------------ gtx/matrix_operation: diagonalCxR
template<int C, int R, class T> M<C, R, T> diag_call(V<(C < R ? C : R), T> const& v) {
    if constexpr (C == 2 && R == 2) return glm::diagonal2x2(v); else if constexpr (C == 2 && R == 3) return glm::diagonal2x3(v); else if constexpr (C == 2 && R == 4) return glm::diagonal2x4(v);
    else if constexpr (C == 3 && R == 2) return glm::diagonal3x2(v); else if constexpr (C == 3 && R == 3) return glm::diagonal3x3(v); else if constexpr (C == 3 && R == 4) return glm::diagonal3x4(v);
    else if constexpr (C == 4 && R == 2) return glm::diagonal4x2(v); else if constexpr (C == 4 && R == 3) return glm::diagonal4x3(v); else return glm::diagonal4x4(v);
}
template<int C, int R, class T> void diag_ops() {
    constexpr int K = C < R ? C : R;
    for (int s = 0; s < every(2, 6); ++s) {
        V<K, T> v = s == 0 ? v_seq<K, T>(1) : s == 1 ? V<K, T>(sv<T>(0)) : s == 2 ? V<K, T>(sv<T>(1)) : v_any<K, T>();
        M<C, R, T> r = diag_call<C, R, T>(v); EVS("diag", T, C, R).arg(v).res(r).emit();
    }
}

// ------------------------------------------------------------------ gtx/matrix_operation: adjugate; determinant of integer matrices
template<int N, class T> void adj_one(M<N, N, T> const& m) { M<N, N, T> r = glm::adjugate(m); EVN("adj", T, N).arg(m).res(r).emit(); }
template<int N, class T> void det_one(M<N, N, T> const& m) { T r = glm::determinant(m); EVN("det", T, N).arg(m).res(r).emit(); }
template<int N, class T> long safe_bound() {          // entries in [-b, b] keep every intermediate of an N x N determinant inside the type
    const int W = isF<T>() ? (sizeof(T) == 4 ? 24 : 53) : int(sizeof(T) * 8) - 1; double fact = N == 2 ? 2 : N == 3 ? 6 : 24;
    long b = long(std::floor(std::pow(std::ldexp(1.0, W) / fact, 1.0 / N))) - 1; return b < 1 ? 1 : (b > 2000 ? 2000 : b);
}
template<int N, class T> void adj_ops() {
    const long b = safe_bound<N, T>();
    for (int i = 0; i < N * N; ++i) { M<N, N, T> m(sv<T>(0)); for (int c = 0; c < N; ++c) for (int r = 0; r < N; ++r) m[c][r] = sv<T>(c == r ? 1 : 0); m[i / N][i % N] = sv<T>(3); adj_one<N, T>(m); }   // identity with one entry replaced
    for (int s = 0; s < every(6, 40); ++s) { M<N, N, T> m = m_int<N, N, T>(s % 3 == 0 ? 2 : (s % 3 == 1 ? (b < 9 ? b : 9) : b)); adj_one<N, T>(m); det_one<N, T>(m); }
    adj_one<N, T>(m_seq<N, N, T>(0));
    if constexpr (isF<T>()) {
        for (int s = 0; s < every(6, 60); ++s) { M<N, N, T> m = (s % 2) ? m_flt<N, N, T>(6) : m_int<N, N, T>(4095, int(rint_(-10, 10))); adj_one<N, T>(m); }
        M<N, N, T> m = m_int<N, N, T>(5); m[0][0] = std::numeric_limits<T>::infinity(); adj_one<N, T>(m); m[0][0] = std::numeric_limits<T>::quiet_NaN(); adj_one<N, T>(m);
    } else {
        for (int s = 0; s < every(4, 30); ++s) { M<N, N, T> m = m_any<N, N, T>(); adj_one<N, T>(m); det_one<N, T>(m); }        // wrap-around (unsigned) / outside the domain (signed overflow)
        for (int s = 0; s < every(3, 20); ++s) { M<N, N, T> m = m_int<N, N, T>(127); adj_one<N, T>(m); det_one<N, T>(m); }
    }
}

// ------------------------------------------------------------------ ext/matrix_integer on the sized integer types
template<int C, int R, class T> void int_ops() {
    for (int s = 0; s < every(3, 12); ++s) {
        M<C, R, T> a = s % 3 == 0 ? m_seq<C, R, T>(s) : s % 3 == 1 ? m_int<C, R, T>(11) : m_any<C, R, T>();
        M<C, R, T> b = s % 3 == 2 ? m_any<C, R, T>() : m_int<C, R, T>(11);
        { M<C, R, T> r = glm::matrixCompMult(a, b); EVS("icmul", T, C, R).arg(a).arg(b).res(r).emit(); }
        { M<R, C, T> r = glm::transpose(a); EVS("itr", T, C, R).arg(a).res(r).emit(); }
        V<R, T> cv = s % 3 == 2 ? v_any<R, T>() : v_int<R, T>(11); V<C, T> rv = s % 3 == 2 ? v_any<C, T>() : v_seq<C, T>(s);
        { M<C, R, T> r = glm::outerProduct(cv, rv); EVS("iouter", T, C, R).arg(cv).arg(rv).res(r).emit(); }
    }
}
template<class T> void int_type() {
#define SH(C, R) int_ops<C, R, T>();
    SH(2, 2) SH(2, 3) SH(2, 4) SH(3, 2) SH(3, 3) SH(3, 4) SH(4, 2) SH(4, 3) SH(4, 4)
#undef SH
    adj_ops<2, T>(); adj_ops<3, T>(); adj_ops<4, T>();
}

// ------------------------------------------------------------------ gtx/matrix_major_storage, gtx/matrix_cross_product
template<class T> void major_ops() {
    for (int s = 0; s < every(3, 10); ++s) {
        const bool any = s % 2 == 1;
        V<2, T> a2 = any ? v_any<2, T>() : v_seq<2, T>(s), b2 = any ? v_any<2, T>() : v_seq<2, T>(s + 1);
        V<3, T> a3 = any ? v_any<3, T>() : v_seq<3, T>(s), b3 = any ? v_any<3, T>() : v_seq<3, T>(s + 1), c3 = any ? v_any<3, T>() : v_seq<3, T>(s + 2);
        V<4, T> a4 = any ? v_any<4, T>() : v_seq<4, T>(s), b4 = any ? v_any<4, T>() : v_seq<4, T>(s + 1), c4 = any ? v_any<4, T>() : v_seq<4, T>(s + 2), d4 = any ? v_any<4, T>() : v_seq<4, T>(s + 3);
        { auto r = glm::rowMajor2(a2, b2); EVN("rowMajorV", T, 2).arg(a2).arg(b2).res(r).emit(); auto c = glm::colMajor2(a2, b2); EVN("colMajorV", T, 2).arg(a2).arg(b2).res(c).emit(); }
        { auto r = glm::rowMajor3(a3, b3, c3); EVN("rowMajorV", T, 3).arg(a3).arg(b3).arg(c3).res(r).emit(); auto c = glm::colMajor3(a3, b3, c3); EVN("colMajorV", T, 3).arg(a3).arg(b3).arg(c3).res(c).emit(); }
        { auto r = glm::rowMajor4(a4, b4, c4, d4); EVN("rowMajorV", T, 4).arg(a4).arg(b4).arg(c4).arg(d4).res(r).emit(); auto c = glm::colMajor4(a4, b4, c4, d4); EVN("colMajorV", T, 4).arg(a4).arg(b4).arg(c4).arg(d4).res(c).emit(); }
        { M<2, 2, T> m = any ? m_any<2, 2, T>() : m_seq<2, 2, T>(s); auto r = glm::rowMajor2(m); EVN("rowMajorM", T, 2).arg(m).res(r).emit(); auto c = glm::colMajor2(m); EVN("colMajorM", T, 2).arg(m).res(c).emit(); }
        { M<3, 3, T> m = any ? m_any<3, 3, T>() : m_seq<3, 3, T>(s); auto r = glm::rowMajor3(m); EVN("rowMajorM", T, 3).arg(m).res(r).emit(); auto c = glm::colMajor3(m); EVN("colMajorM", T, 3).arg(m).res(c).emit(); }
        { M<4, 4, T> m = any ? m_any<4, 4, T>() : m_seq<4, 4, T>(s); auto r = glm::rowMajor4(m); EVN("rowMajorM", T, 4).arg(m).res(r).emit(); auto c = glm::colMajor4(m); EVN("colMajorM", T, 4).arg(m).res(c).emit(); }
    }
}
template<class T> void cross_ops() {
    for (int s = 0; s < every(8, 40); ++s) {
        V<3, T> x, v; V<4, T> v4;
        if (s < 3) { x = V<3, T>(sv<T>(0)); x[s] = sv<T>(1); v = v_seq<3, T>(s); }                  // basis vectors
        else if (s % 4 == 0) { x = v_seq<3, T>(s); v = x; }                                          // M_x x = 0
        else if (s % 4 == 1 && isF<T>()) { x = v_int<3, T>(4095, int(rint_(-8, 8))); v = v_int<3, T>(4095, int(rint_(-8, 8))); }
        else { x = v_int<3, T>(40); v = v_int<3, T>(40); }
        v4 = V<4, T>(v, sv<T>(rint_(0, 9)));
        { M<3, 3, T> r = glm::matrixCross3(x); EVN("cross", T, 3).arg(x).res(r).emit(); V<3, T> mv = r * v; EVN("crossmv", T, 3).arg(x).arg(v).res(mv).emit(); }
        { M<4, 4, T> r = glm::matrixCross4(x); EVN("cross", T, 4).arg(x).res(r).emit(); V<4, T> mv = r * v4; EVN("crossmv", T, 4).arg(x).arg(v4).res(mv).emit(); }
    }
    if constexpr (!isF<T>()) for (int s = 0; s < every(2, 8); ++s) { V<3, T> x = v_any<3, T>(); M<3, 3, T> r = glm::matrixCross3(x); EVN("cross", T, 3).arg(x).res(r).emit(); }
    else { V<3, T> x(T(0), -T(0), std::numeric_limits<T>::infinity()); M<3, 3, T> r = glm::matrixCross3(x); EVN("cross", T, 3).arg(x).res(r).emit(); }
}

// ------------------------------------------------------------------ ext/matrix_common: mix, abs
template<int C, int R, class T> void common_ops() {
    for (int s = 0; s < every(3, 14); ++s) {
        M<C, R, T> x, y, am; T a;
        if constexpr (isF<T>()) {
            if (s % 3 == 0) { x = m_int<C, R, T>(9); y = m_int<C, R, T>(9); a = dy<T>(rint_(-8, 12), -2); am = m_int<C, R, T>(8, -3); }      // everything exact
            else if (s % 3 == 1) { x = m_int<C, R, T>(4095, int(rint_(-8, 8))); y = m_int<C, R, T>(4095, int(rint_(-8, 8))); a = rat<T>(int(rint_(0, 7)), 7); am = m_int<C, R, T>(1000, -10); }
            else { x = m_flt<C, R, T>(10); y = m_flt<C, R, T>(10); a = rat<T>(int(rint_(-3, 13)), 10); am = m_flt<C, R, T>(1); }
        } else { x = m_int<C, R, T>(99); y = m_int<C, R, T>(99); a = sv<T>(rint_(isS<T>() ? -2 : 0, 3)); am = m_int<C, R, T>(3); }
        { M<C, R, T> r = glm::mix(x, y, a); EVS("mixs", T, C, R).arg(x).arg(y).arg(a).res(r).emit(); }
        // the matrix-weight overload only instantiates for the square shapes (1 - a needs scalar - matrix): compile probe in x02_probe.cpp
        if constexpr (C == R) { M<C, R, T> r = glm::mix(x, y, am); EVS("mixm", T, C, R).arg(x).arg(y).arg(am).res(r).emit(); }
        { M<C, R, T> r = glm::abs(x); EVS("mabs", T, C, R).arg(x).res(r).emit(); }
        if (s == 1) { M<C, R, T> z = m_any<C, R, T>(); M<C, R, T> r = glm::abs(z); EVS("mabs", T, C, R).arg(z).res(r).emit(); }
        if constexpr (std::is_same<T, float>::value) if (s == 2) { double ad = double(rint_(0, 16)) / 16.0; M<C, R, T> r = glm::mix(x, y, ad); EVS("mixs", T, C, R).str("u", "f64").arg(x).arg(y).arg(float(ad)).res(r).emit(); }
    }
}

// ------------------------------------------------------------------ gtx/matrix_query
template<int C, int R, class T> void q_identity(M<C, R, T> const& m, T e) { bool r = glm::isIdentity(m, e); EVS("isIdentity", T, C, R).arg(m).arg(e).res(r).emit(); }
template<int C, int R, class T> void q_orth(M<C, R, T> const& m, T e) { bool r = glm::isOrthogonal(m, e); EVS("isOrthogonal", T, C, R).arg(m).arg(e).res(r).emit(); }
template<int N, class T> void q_square(M<N, N, T> const& m, T e) {
    { bool r = glm::isNull(m, e); EVS("isNull", T, N, N).arg(m).arg(e).res(r).emit(); }
    { bool r = glm::isNormalized(m, e); EVS("isNormalized", T, N, N).arg(m).arg(e).res(r).emit(); }
    q_identity<N, N, T>(m, e); q_orth<N, N, T>(m, e);
}
template<class T> T next_up(T x) { return std::nextafter(x, std::numeric_limits<T>::infinity()); }
template<class T> T next_dn(T x) { return std::nextafter(x, -std::numeric_limits<T>::infinity()); }
// the identity of the shape with one entry moved by p: thresholds at, just below and just above |p|
template<int C, int R, class T> void identity_ops() {
    const int mb = sizeof(T) == 4 ? 23 : 52;
    for (int k = 0; k < C * R; k += every(2, 1)) for (int w = 0; w < every(2, 4); ++w) {
        M<C, R, T> m(T(1)); int c = k / R, r = k % R;
        T p = w == 0 ? dy<T>(1, -int(rint_(2, mb - 2))) : w == 1 ? -dy<T>(rint_(1, 4095), -int(rint_(12, 30))) : w == 2 ? rat<T>(1, int(rint_(3, 999))) : dy<T>(3, -mb - 1);
        m[c][r] += p; T q = m[c][r] - T(c == r ? 1 : 0); T aq = q < 0 ? -q : q;               // the perturbation as stored (an input encoding, logged through m itself)
        q_identity<C, R, T>(m, aq); q_identity<C, R, T>(m, next_dn(aq)); q_identity<C, R, T>(m, next_up(aq));
        if (w == 0) { q_identity<C, R, T>(m, T(0)); q_identity<C, R, T>(m, T(1)); q_identity<C, R, T>(m, -aq); }
        if (w < 2) { q_orth<C, R, T>(m, aq); q_orth<C, R, T>(m, aq * T(4)); }
    }
    { M<C, R, T> m(T(1)); q_identity<C, R, T>(m, T(0)); q_identity<C, R, T>(m, dy<T>(1, -10)); q_identity<C, R, T>(m, -dy<T>(1, -10)); M<C, R, T> z(T(0)); q_identity<C, R, T>(z, T(0)); q_identity<C, R, T>(z, T(1)); q_identity<C, R, T>(z, T(0.5)); }
    { M<C, R, T> m = m_int<C, R, T>(2); q_identity<C, R, T>(m, T(1)); q_identity<C, R, T>(m, T(2)); q_identity<C, R, T>(m, T(3)); }
    { M<C, R, T> m(T(1)); m[C - 1][R - 1] = std::numeric_limits<T>::quiet_NaN(); q_identity<C, R, T>(m, T(1)); }
}
// signed permutations, Pythagorean rotations, shears, scalings: square shapes
struct PY { int c, s, d; };
static const PY PYS[] = { {3, 4, 5}, {4, -3, 5}, {5, 12, 13}, {-12, 5, 13}, {7, 24, 25}, {8, 15, 17}, {-20, -21, 29}, {0, 1, 1}, {-1, 0, 1}, {1023, 64, 1025} };
template<int N, class T> M<N, N, T> perm_matrix(int seed) {          // signed permutation matrix
    int p[4] = {0, 1, 2, 3}; for (int i = N - 1; i > 0; --i) { int j = (seed / (i + 1) + seed * 7 + i) % (i + 1); std::swap(p[i], p[j]); seed = seed * 5 + 3; }
    M<N, N, T> m(T(0)); for (int c = 0; c < N; ++c) for (int r = 0; r < N; ++r) m[c][r] = T(0);
    for (int c = 0; c < N; ++c) m[c][p[c]] = ((seed >> c) & 1) ? T(-1) : T(1);
    return m;
}
template<int N, class T> M<N, N, T> rot_matrix(PY const& py, int i, int j) {   // plane rotation with a Pythagorean angle (entries rounded once)
    M<N, N, T> m(T(1)); T c = rat<T>(py.c, py.d), s = rat<T>(py.s, py.d); m[i][i] = c; m[j][j] = c; m[i][j] = s; m[j][i] = -s; return m;
}
template<int N, class T> void square_query_ops() {
    const int mb = sizeof(T) == 4 ? 23 : 52;
    // exact families: zero, identity, signed permutations (times a scale): every product, sum and root is exact
    for (int s = 0; s < every(4, 16); ++s) {
        M<N, N, T> p = perm_matrix<N, T>(s + 11 * N);
        q_square<N, T>(p, T(0)); q_square<N, T>(p, dy<T>(1, -int(rint_(3, mb - 3))));
        int k = int(rint_(2, mb - 3)); T e = dy<T>(1, -k);
        M<N, N, T> q = p * (T(1) + T(2) * e); q_square<N, T>(q, e); q_square<N, T>(q, next_dn(e)); q_square<N, T>(q, next_up(e));        // | |col| - 1 | = 2 e exactly: the tie
        M<N, N, T> q2 = p * (T(1) - T(2) * e); q_square<N, T>(q2, e); q_square<N, T>(q2, next_dn(e));
        long L = rint_(2, 60); M<N, N, T> q3 = p * T(L); q_square<N, T>(q3, T(L)); q_square<N, T>(q3, next_dn(T(L))); q_square<N, T>(q3, T(L - 1));   // isNull: column length L against L
        M<N, N, T> q4 = p * dy<T>(1, -k); q_square<N, T>(q4, dy<T>(1, -k)); q_square<N, T>(q4, dy<T>(1, -k - 1)); q_square<N, T>(q4, next_dn(dy<T>(1, -k)));
    }
    { M<N, N, T> z(T(0)); for (int c = 0; c < N; ++c) z[c][c] = T(0); q_square<N, T>(z, T(0)); q_square<N, T>(z, dy<T>(1, -20)); q_square<N, T>(z, -dy<T>(1, -20)); M<N, N, T> id(T(1)); q_square<N, T>(id, T(0)); q_square<N, T>(id, -dy<T>(1, -20)); }
    // integer columns with Pythagorean lengths: (3,4), (1,2,2), (2,4,5,6): isNull ties
    { M<N, N, T> m(T(0)); static const int PL[3][5] = { {3, 4, 0, 0, 5}, {1, 2, 2, 0, 3}, {2, 4, 5, 6, 9} }; const int* pl = PL[N - 2];
      for (int c = 0; c < N; ++c) for (int r = 0; r < N; ++r) m[c][r] = T(((c + r) % 2 ? -1 : 1) * pl[(r + c) % N]);
      T len = T(pl[4]); q_square<N, T>(m, len); q_square<N, T>(m, next_dn(len)); q_square<N, T>(m, next_up(len)); q_square<N, T>(m, len * T(2)); q_square<N, T>(m, len / T(2)); }
    // one column / row different from all the others: every column and every row has to be looked at
    for (int k = 0; k < N; ++k) {
        M<N, N, T> z(T(0)); for (int c = 0; c < N; ++c) z[c][c] = T(0); z[k][(k + 1) % N] = T(3); q_square<N, T>(z, T(1)); q_square<N, T>(z, T(3));           // only column k is not null
        M<N, N, T> g(T(0)); for (int c = 0; c < N; ++c) g[c][c] = T(c == k ? 4 : 1); q_square<N, T>(g, T(1)); q_square<N, T>(g, T(2)); q_square<N, T>(g, T(4));      // column lengths 1 .. 4 .. 1
        M<N, N, T> id(T(1)); id[k][k] = T(1.5); q_square<N, T>(id, dy<T>(1, -3)); q_square<N, T>(id, dy<T>(1, -2)); q_square<N, T>(id, next_dn(dy<T>(1, -2)));   // | 1.5 - 1 | against 2 e = 1/4, 1/2 (the tie), just below
        M<N, N, T> eq(T(0)); for (int c = 0; c < N; ++c) { eq[c][c] = T(0); eq[c][k] = T(1); }                                                                 // every column is e_k: unit columns, rows of length sqrt N and 0
        q_square<N, T>(eq, dy<T>(1, -4)); M<N, N, T> eqt = glm::transpose(eq); q_square<N, T>(eqt, dy<T>(1, -4));
    }
    // Pythagorean rotations (products of plane rotations), orthonormal to a few eps: thresholds far above, around and below the rounding level
    for (int s = 0; s < every(5, 30); ++s) {
        PY const& py = PYS[s % 10]; int i = s % N, j = (s / 2 + 1 + i) % N; if (i == j) j = (j + 1) % N;
        M<N, N, T> m = rot_matrix<N, T>(py, i, j);
        if (N > 2 && s % 2) { M<N, N, T> m2 = rot_matrix<N, T>(PYS[(s + 3) % 10], (i + 1) % N, (i + 2) % N == (i + 1) % N ? i : (i + 2) % N); m = m * m2; }
        q_square<N, T>(m, dy<T>(1, -int(rint_(4, mb - 6)))); q_square<N, T>(m, dy<T>(1, -mb)); q_square<N, T>(m, T(0));
        M<N, N, T> sc = m * rat<T>(int(rint_(90, 110)), 100); T e = dy<T>(1, -int(rint_(3, 9))); q_square<N, T>(sc, e);                       // scaled by 0.9 .. 1.1 against 2 e = 2^-2 .. 2^-8
    }
    // shears I + t E_ij: columns i and j have the dot product t exactly: thresholds at / around t
    for (int s = 0; s < every(4, 20); ++s) {
        int i = s % N, j = (i + 1 + s / N) % N; if (i == j) j = (j + 1) % N;
        M<N, N, T> m(T(1)); T t = dy<T>(rint_(1, 255), -int(rint_(12, 20))); m[i][j] = t;
        q_orth<N, N, T>(m, t); q_orth<N, N, T>(m, next_dn(t)); q_orth<N, N, T>(m, next_up(t)); q_orth<N, N, T>(m, t * T(2)); q_orth<N, N, T>(m, t / T(2));
        { bool r = glm::isNormalized(m, t); EVS("isNormalized", T, N, N).arg(m).arg(t).res(r).emit(); }
    }
    // random small matrices against random thresholds (mostly certainly false); random scale of an orthogonal matrix
    for (int s = 0; s < every(6, 60); ++s) {
        M<N, N, T> m = s % 3 == 0 ? m_int<N, N, T>(2) : s % 3 == 1 ? m_int<N, N, T>(1000, -10) : m_flt<N, N, T>(2);
        T e = dy<T>(rint_(1, 4000), -int(rint_(4, 14))); q_square<N, T>(m, e);
    }
    { M<N, N, T> m(T(1)); m[0][0] = std::numeric_limits<T>::infinity(); q_square<N, T>(m, T(1)); m[0][0] = std::numeric_limits<T>::quiet_NaN(); q_square<N, T>(m, T(1)); M<N, N, T> id(T(1)); q_square<N, T>(id, std::numeric_limits<T>::quiet_NaN()); }
}
// isOrthogonal on the non-square shapes: coordinate sub-frames (columns = distinct signed basis vectors), rotated frames, near misses
template<int C, int R, class T> void nonsquare_orth_ops() {
    for (int s = 0; s < every(6, 24); ++s) {
        M<C, R, T> m(T(0)); for (int c = 0; c < C; ++c) for (int r = 0; r < R; ++r) m[c][r] = T(0);
        for (int c = 0; c < C; ++c) m[c][(c + s) % R] = ((s >> c) & 1) ? T(-1) : T(1);           // C <= R: distinct rows -> orthonormal columns; C > R: some rows used twice
        q_orth<C, R, T>(m, T(0)); q_orth<C, R, T>(m, dy<T>(1, -10));
        if (s % 3 == 0) { m[0][(s + 1) % R] = dy<T>(1, -6); q_orth<C, R, T>(m, dy<T>(1, -10)); q_orth<C, R, T>(m, dy<T>(1, -3)); }
    }
    for (int s = 0; s < every(2, 10); ++s) { M<C, R, T> m = m_int<C, R, T>(2); q_orth<C, R, T>(m, dy<T>(rint_(1, 64), -5)); }
}

// ------------------------------------------------------------------ gtx/matrix_factorisation: qr_decompose, rq_decompose
template<int C, int R, class T> void qr_one(M<C, R, T> const& in) {
    constexpr int K = C < R ? C : R;
    { M<K, R, T> q(T(0)); M<C, K, T> r(T(0)); for (int c = 0; c < C; ++c) for (int k = 0; k < K; ++k) r[c][k] = T(7); glm::qr_decompose(in, q, r); EVS("qr", T, C, R).arg(in).val("q", q).val("r", r).emit(); }
    { M<K, R, T> r(T(0)); M<C, K, T> q(T(0)); for (int c = 0; c < K; ++c) for (int k = 0; k < R; ++k) r[c][k] = T(7); glm::rq_decompose(in, r, q); EVS("rq", T, C, R).arg(in).val("r", r).val("q", q).emit(); }
}
template<int C, int R, class T> void qr_ops() {
    constexpr int K = C < R ? C : R;
    // exact families: rectangular identity, signed coordinate frames times an upper triangular integer matrix
    { M<C, R, T> m(T(1)); qr_one<C, R, T>(m); M<C, R, T> m2(T(-2)); qr_one<C, R, T>(m2); }
    for (int s = 0; s < every(3, 12); ++s) {
        M<C, R, T> m(T(0)); for (int c = 0; c < C; ++c) for (int r = 0; r < R; ++r) m[c][r] = T(0);
        for (int c = 0; c < C; ++c) { for (int k = 0; k <= (c < K ? c : K - 1); ++k) { long u = k == c ? rint_(1, 5) : rint_(-4, 4); m[c][(k + s) % R] = T(((s >> k) & 1) ? -u : u); } }
        qr_one<C, R, T>(m);
    }
    // small integers, scaled integers, random floats; the specification skips what is ill-conditioned
    for (int s = 0; s < every(12, 120); ++s) {
        M<C, R, T> m = s % 4 == 0 ? m_int<C, R, T>(3) : s % 4 == 1 ? m_int<C, R, T>(9, int(rint_(-12, 12))) : s % 4 == 2 ? m_int<C, R, T>(2047, int(rint_(-14, 4))) : m_flt<C, R, T>(3);
        qr_one<C, R, T>(m);
    }
    // diagonally dominant: well conditioned
    for (int s = 0; s < every(6, 40); ++s) { M<C, R, T> m = m_int<C, R, T>(200, -8); for (int k = 0; k < K; ++k) m[k][k] += T((s + k) % 2 ? -3 : 3); qr_one<C, R, T>(m); }
    // rank deficient / non-finite: outside the domain
    { M<C, R, T> m(T(0)); for (int c = 0; c < C; ++c) for (int r = 0; r < R; ++r) m[c][r] = T(r + 1); qr_one<C, R, T>(m); M<C, R, T> z(T(0)); for (int k = 0; k < K; ++k) z[k][k] = T(0); qr_one<C, R, T>(z);
      M<C, R, T> n(T(1)); n[0][0] = std::numeric_limits<T>::infinity(); qr_one<C, R, T>(n); }
}

// ------------------------------------------------------------------ the other precision qualifiers (thorough tier): a sample of every group
template<glm::qualifier Q> void qual_ops(const char* qn) {
    typedef glm::mat<3, 3, float, Q> F3; typedef glm::mat<4, 2, double, Q> D42; typedef glm::mat<4, 4, double, Q> D4; typedef glm::mat<2, 3, int, Q> I23;
    for (int s = 0; s < 8; ++s) {
        F3 p(perm_matrix<3, float>(s + 5)); float e = dy<float>(1, -int(rint_(2, 12))); F3 ps = p * (1.0f + 2.0f * e);
        { bool r = glm::isNull(ps, e); EVS("isNull", float, 3, 3).str("q", qn).arg(ps).arg(e).res(r).emit(); }
        { bool r = glm::isNormalized(ps, e); EVS("isNormalized", float, 3, 3).str("q", qn).arg(ps).arg(e).res(r).emit(); }
        { bool r = glm::isIdentity(ps, e); EVS("isIdentity", float, 3, 3).str("q", qn).arg(ps).arg(e).res(r).emit(); }
        { bool r = glm::isOrthogonal(ps, e); EVS("isOrthogonal", float, 3, 3).str("q", qn).arg(ps).arg(e).res(r).emit(); }
        F3 a(m_int<3, 3, float>(9, int(rint_(-4, 4))));
        { F3 r = glm::adjugate(a); EVN("adj", float, 3).str("q", qn).arg(a).res(r).emit(); }
        { F3 r = glm::flipud(a); EVS("flipud", float, 3, 3).str("q", qn).arg(a).res(r).emit(); }
        { glm::vec<3, float, Q> r = glm::row(a, s % 3); EVS("rowget", float, 3, 3).num("i", s % 3).str("q", qn).arg(a).res(r).emit(); }
        { F3 q(0.0f), r(0.0f); glm::qr_decompose(a, q, r); EVS("qr", float, 3, 3).str("q", qn).arg(a).val("q", q).val("r", r).emit(); }
        D42 b(m_int<4, 2, double>(200, -6));
        { glm::mat<2, 2, double, Q> q(0.0); D42 r(0.0); glm::qr_decompose(b, q, r); EVS("qr", double, 4, 2).str("q", qn).arg(b).val("q", q).val("r", r).emit(); }
        { glm::mat<2, 2, double, Q> r(0.0); D42 q(0.0); glm::rq_decompose(b, r, q); EVS("rq", double, 4, 2).str("q", qn).arg(b).val("r", r).val("q", q).emit(); }
        { D42 y(m_int<4, 2, double>(50, -3)); double w = double(rint_(0, 8)) / 8.0; D42 r = glm::mix(b, y, w); EVS("mixs", double, 4, 2).str("q", qn).arg(b).arg(y).arg(w).res(r).emit(); }
        D4 c(m_int<4, 4, double>(9)); { D4 r = glm::adjugate(c); EVN("adj", double, 4).str("q", qn).arg(c).res(r).emit(); }
        I23 im(m_seq<2, 3, int>(s)); { glm::mat<3, 2, int, Q> r = glm::transpose(im); EVS("itr", int, 2, 3).str("q", qn).arg(im).res(r).emit(); I23 f = glm::fliplr(im); EVS("fliplr", int, 2, 3).str("q", qn).arg(im).res(f).emit(); }
        glm::vec<3, float, Q> x(v_int<3, float>(40)); { F3 r = glm::matrixCross3(x); EVN("cross", float, 3).str("q", qn).arg(x).res(r).emit(); }
    }
}

// ------------------------------------------------------------------ drivers
template<class T> void data_type() {            // pure data movement: every element type
#define SH(C, R) access_ops<C, R, T>(); diag_ops<C, R, T>();
    SH(2, 2) SH(2, 3) SH(2, 4) SH(3, 2) SH(3, 3) SH(3, 4) SH(4, 2) SH(4, 3) SH(4, 4)
#undef SH
    major_ops<T>();
}
template<class T> void float_type() {
    data_type<T>(); cross_ops<T>();
    adj_ops<2, T>(); adj_ops<3, T>(); adj_ops<4, T>();
#define SH(C, R) common_ops<C, R, T>(); identity_ops<C, R, T>(); qr_ops<C, R, T>();
    SH(2, 2) SH(2, 3) SH(2, 4) SH(3, 2) SH(3, 3) SH(3, 4) SH(4, 2) SH(4, 3) SH(4, 4)
#undef SH
    square_query_ops<2, T>(); square_query_ops<3, T>(); square_query_ops<4, T>();
    nonsquare_orth_ops<2, 3, T>(); nonsquare_orth_ops<2, 4, T>(); nonsquare_orth_ops<3, 4, T>(); nonsquare_orth_ops<3, 2, T>(); nonsquare_orth_ops<4, 2, T>(); nonsquare_orth_ops<4, 3, T>();
}
static void body(int argc, char** argv) {
    g_thorough = argc > 2 && std::string(argv[2]) == "thorough";
    Rng rng(seed_from_env()); g_rng = &rng;
    float_type<float>();
    float_type<double>();
    // integer element types: data movement, cross-product matrices, integer matrix functions, adjugate / determinant, mix / abs
    data_type<int>(); data_type<unsigned int>(); cross_ops<int>(); cross_ops<unsigned int>();
    int_type<glm::int32>(); int_type<glm::uint32>(); int_type<glm::int8>(); int_type<glm::uint8>(); int_type<glm::int16>(); int_type<glm::uint16>(); int_type<glm::int64>(); int_type<glm::uint64>();
    common_ops<2, 2, int>(); common_ops<3, 4, int>(); common_ops<4, 4, int>(); common_ops<4, 3, unsigned int>(); common_ops<2, 3, unsigned int>();
    if (g_thorough) { qual_ops<glm::lowp>("l"); qual_ops<glm::mediump>("m"); data_type<glm::int8>(); data_type<glm::uint16>(); data_type<glm::int64>(); data_type<glm::uint64>(); cross_ops<glm::int64>(); cross_ops<glm::int16>(); }
}
int main(int argc, char** argv) { return run_main(argc, argv, body); }
