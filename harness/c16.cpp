// C16 harness: storage layout of vectors, matrices and quaternions.
// argv: <trace-out> <cfg-name> <tier>
// For every instantiation {vec<1..4>, mat<2..4,2..4>, qua} x {bool (vec only), 8..64-bit ints, float, double}
// x every qualifier of the build (packed_* and, when the build enables them, aligned_*) the probe logs raw facts:
// sizeof / alignof, byte offsets of every component reached through operator[] (const and non-const), through the
// named members and through value_ptr, the byte image after stores through operator[] / named members, the
// components read back after stores through value_ptr, make_vec / make_mat / make_quat from a raw array, the round
// trip object -> value_ptr -> array -> make_*, length() and its type.  Nothing is judged here: every event carries
// the requested configuration name (argv) and the GLM_CONFIG_* macros the build actually sees, and TLC
// (Trace_C16 / GlmLayout) decides every fact.
#include "common.hpp"
#include <glm/gtc/type_ptr.hpp>
#include <glm/gtc/type_precision.hpp>
#include <glm/gtc/quaternion.hpp>
#include <glm/gtc/vec1.hpp>
#if GLM_CONFIG_ALIGNED_GENTYPES == GLM_ENABLE
#   include <glm/gtc/type_aligned.hpp>
#endif
#include <climits>
#include <csignal>
using namespace vh;

// fixed-capacity array (std::vector<bool> is a bit set and has no data())
template<class T> struct Arr {
    T d[80]; size_t n = 0;
    void push_back(T v) { if (n >= 80) { std::fprintf(stderr, "Arr overflow\n"); std::exit(2); } d[n++] = v; }
    size_t size() const { return n; }
    T const& operator[](size_t i) const { return d[i]; }
    T const* data() const { return d; }
};

static const char* g_cfg = "?";
static std::string g_cm;
static int g_rounds = 2;
static Rng g_rng(1);

// ------------------------------------------------------------------ configuration as the build sees it
static int isa_level() {
#if GLM_ARCH & GLM_ARCH_AVX2_BIT
    return 7;
#elif GLM_ARCH & GLM_ARCH_AVX_BIT
    return 6;
#elif GLM_ARCH & GLM_ARCH_SSE42_BIT
    return 5;
#elif GLM_ARCH & GLM_ARCH_SSE41_BIT
    return 4;
#elif GLM_ARCH & GLM_ARCH_SSSE3_BIT
    return 3;
#elif GLM_ARCH & GLM_ARCH_SSE3_BIT
    return 2;
#elif GLM_ARCH & GLM_ARCH_SSE2_BIT
    return 1;
#else
    return 0;
#endif
}
static bool default_is_aligned() { return glm::detail::is_aligned<glm::defaultp>::value; }
static bool quat_wxyz() {
#ifdef GLM_FORCE_QUAT_DATA_WXYZ
    return true;
#else
    return false;
#endif
}
static std::string config_macros() {
    long long v[9] = { GLM_CONFIG_ALIGNED_GENTYPES == GLM_ENABLE, GLM_CONFIG_SIMD == GLM_ENABLE, GLM_CONFIG_XYZW_ONLY == GLM_ENABLE,
                       GLM_CONFIG_SWIZZLE, GLM_CONFIG_LENGTH_TYPE == GLM_LENGTH_SIZE_T, quat_wxyz(),
                       GLM_CONFIG_CTOR_INIT != GLM_CTOR_INIT_DISABLE, default_is_aligned(), isa_level() };
    std::string s = "[";
    for (int i = 0; i < 9; ++i) { if (i) s += ','; put_int(s, v[i]); }
    return s + "]";
}

// ------------------------------------------------------------------ small event helpers (own helpers, common.hpp untouched)
static Ev& raw(Ev& e, const char* k, const std::string& json) { e.close_args(); e.s += ",\""; e.s += k; e.s += "\":"; e.s += json; return e; }
static Ev& nums(Ev& e, const char* k, const std::vector<long long>& v) {
    std::string s = "[";
    for (size_t i = 0; i < v.size(); ++i) { if (i) s += ','; put_int(s, v[i]); }
    return raw(e, k, s + "]");
}
template<class T> static Ev& words(Ev& e, const char* k, const Arr<T>& v) {
    std::string s = "[";
    for (size_t i = 0; i < v.size(); ++i) { if (i) s += ','; put_word(s, T(v[i])); }
    return raw(e, k, s + "]");
}
template<class P, class Q> static long long pdiff(P const* a, Q const* b) {
    return (long long)(reinterpret_cast<const char*>(a) - reinterpret_cast<const char*>(b));
}

static const char* qname(glm::qualifier q) {
    // compared one by one (no switch: several enumerators are aliases of each other)
    if (q == glm::packed_highp) return "packed_highp";
    if (q == glm::packed_mediump) return "packed_mediump";
    if (q == glm::packed_lowp) return "packed_lowp";
#if GLM_CONFIG_ALIGNED_GENTYPES == GLM_ENABLE
    if (q == glm::aligned_highp) return "aligned_highp";
    if (q == glm::aligned_mediump) return "aligned_mediump";
    if (q == glm::aligned_lowp) return "aligned_lowp";
#endif
    return "unknown";
}

// ------------------------------------------------------------------ shape traits
template<class V> struct Shape;
template<glm::length_t L, class T_, glm::qualifier Q_> struct Shape<glm::vec<L, T_, Q_>> {
    typedef glm::vec<L, T_, Q_> V; typedef T_ T;
    static constexpr glm::qualifier Q = Q_;
    static constexpr int K = 0, C = 1, R = int(L);
    static const char* kind() { return "vec"; }
    static T& at(V& v, int, int r) { return v[glm::length_t(r)]; }
    static T const& atc(V const& v, int, int r) { return v[glm::length_t(r)]; }
};
template<glm::length_t C_, glm::length_t R_, class T_, glm::qualifier Q_> struct Shape<glm::mat<C_, R_, T_, Q_>> {
    typedef glm::mat<C_, R_, T_, Q_> V; typedef T_ T;
    static constexpr glm::qualifier Q = Q_;
    static constexpr int K = 1, C = int(C_), R = int(R_);
    static const char* kind() { return "mat"; }
    static T& at(V& m, int c, int r) { return m[glm::length_t(c)][glm::length_t(r)]; }
    static T const& atc(V const& m, int c, int r) { return m[glm::length_t(c)][glm::length_t(r)]; }
};
template<class T_, glm::qualifier Q_> struct Shape<glm::qua<T_, Q_>> {
    typedef glm::qua<T_, Q_> V; typedef T_ T;
    static constexpr glm::qualifier Q = Q_;
    static constexpr int K = 2, C = 1, R = 4;
    static const char* kind() { return "qua"; }
    static T& at(V& q, int, int r) { return q[glm::length_t(r)]; }
    static T const& atc(V const& q, int, int r) { return q[glm::length_t(r)]; }
};

template<class V> static Ev& hdr(Ev& e) {
    typedef Shape<V> S; typedef typename S::T T;
    e.str("cfg", g_cfg); raw(e, "cm", g_cm);
    e.str("k", S::kind()).num("C", S::C).num("R", S::R).str("t", TI<T>::code()).num("es", (long long)sizeof(T));
    e.num("q", int(S::Q)).str("qn", qname(S::Q)).num("ali", glm::detail::is_aligned<S::Q>::value ? 1 : 0);
    e.num("dq", S::Q == glm::defaultp ? 1 : 0).num("sz", (long long)sizeof(V)).num("al", (long long)alignof(V));
    return e;
}

// ------------------------------------------------------------------ named members (x y z w / r g b a / s t p q)
template<class V> static constexpr int name_sets() {
    if (Shape<V>::K == 2) return 1;
    return GLM_CONFIG_XYZW_ONLY == GLM_ENABLE ? 1 : 3;
}
template<class V> static typename Shape<V>::T* named(V& v, int set, int j) {
    typedef Shape<V> S;
    if constexpr (S::K == 2) {
        switch (j) { case 0: return &v.x; case 1: return &v.y; case 2: return &v.z; default: return &v.w; }
    } else {
#if GLM_CONFIG_XYZW_ONLY == GLM_ENABLE
        (void)set;
        if constexpr (S::R == 1) return &v.x;
        else if constexpr (S::R == 2) return j == 0 ? &v.x : &v.y;
        else if constexpr (S::R == 3) return j == 0 ? &v.x : j == 1 ? &v.y : &v.z;
        else return j == 0 ? &v.x : j == 1 ? &v.y : j == 2 ? &v.z : &v.w;
#else
        if constexpr (S::R == 1) return set == 0 ? &v.x : set == 1 ? &v.r : &v.s;
        else if constexpr (S::R == 2) {
            if (j == 0) return set == 0 ? &v.x : set == 1 ? &v.r : &v.s;
            return set == 0 ? &v.y : set == 1 ? &v.g : &v.t;
        } else if constexpr (S::R == 3) {
            if (j == 0) return set == 0 ? &v.x : set == 1 ? &v.r : &v.s;
            if (j == 1) return set == 0 ? &v.y : set == 1 ? &v.g : &v.t;
            return set == 0 ? &v.z : set == 1 ? &v.b : &v.p;
        } else {
            if (j == 0) return set == 0 ? &v.x : set == 1 ? &v.r : &v.s;
            if (j == 1) return set == 0 ? &v.y : set == 1 ? &v.g : &v.t;
            if (j == 2) return set == 0 ? &v.z : set == 1 ? &v.b : &v.p;
            return set == 0 ? &v.w : set == 1 ? &v.a : &v.q;
        }
#endif
    }
}

// ------------------------------------------------------------------ tags (bit patterns; never NaN, so that loads and stores keep every bit)
template<class T> static int tag_rounds(int count) { return std::is_same<T, bool>::value ? count + 2 : g_rounds; }
template<class T> static T tag(int round, int i, int count) {
    if constexpr (std::is_same<T, bool>::value) {
        if (round < count) return i == round;                 // one-hot
        if (round == count) return true;                      // all set
        return (i % 2) == 0;                                  // alternating
    } else {
        uint64_t b = 0;
        if (round == 0) { for (unsigned j = 0; j < sizeof(T); ++j) b |= uint64_t((i * 8 + int(j) + 1) & 0xff) << (8 * j); }   // every byte distinct, non-zero
        else {
            b = g_rng.next();
            if (sizeof(T) < 8) b &= (1ull << (8 * sizeof(T))) - 1;
            if (std::is_same<T, float>::value) b &= ~(1ull << 30);
            if (std::is_same<T, double>::value) b &= ~(1ull << 62);
            if (b == 0) b = 1;
        }
        return from_bits<T>(b);
    }
}
template<class T> static Arr<T> tags(int round, int n, int count) { Arr<T> v; for (int i = 0; i < n; ++i) v.push_back(tag<T>(round, i, count)); return v; }

template<class V> static std::vector<long long> image(V const& v) {
    unsigned char buf[sizeof(V)]; std::memcpy(buf, &v, sizeof(V));
    std::vector<long long> r; for (size_t i = 0; i < sizeof(V); ++i) r.push_back(buf[i]); return r;
}
template<class V> static Arr<typename Shape<V>::T> by_index(V const& v) {
    typedef Shape<V> S; Arr<typename S::T> r;
    for (int c = 0; c < S::C; ++c) for (int rr = 0; rr < S::R; ++rr) r.push_back(S::atc(v, c, rr));
    return r;
}
template<class V> static Arr<typename Shape<V>::T> by_name(V& v) {
    typedef Shape<V> S; Arr<typename S::T> r;
    for (int j = 0; j < S::R; ++j) r.push_back(*named(v, 0, j));
    return r;
}

// ------------------------------------------------------------------ make_* from a raw array (only defined for the default qualifier)
template<class V> static V do_make(typename Shape<V>::T const* p, int alias, const char*& f) {
    typedef Shape<V> S;
    if constexpr (S::K == 0) {
        if constexpr (S::R == 2) { f = "make_vec2"; return glm::make_vec2(p); }
        else if constexpr (S::R == 3) { f = "make_vec3"; return glm::make_vec3(p); }
        else { f = "make_vec4"; return glm::make_vec4(p); }
    } else if constexpr (S::K == 2) { f = "make_quat"; return glm::make_quat(p); }
    else if constexpr (S::C == 2 && S::R == 2) { if (alias) { f = "make_mat2"; return glm::make_mat2(p); } f = "make_mat2x2"; return glm::make_mat2x2(p); }
    else if constexpr (S::C == 2 && S::R == 3) { f = "make_mat2x3"; return glm::make_mat2x3(p); }
    else if constexpr (S::C == 2 && S::R == 4) { f = "make_mat2x4"; return glm::make_mat2x4(p); }
    else if constexpr (S::C == 3 && S::R == 2) { f = "make_mat3x2"; return glm::make_mat3x2(p); }
    else if constexpr (S::C == 3 && S::R == 3) { if (alias) { f = "make_mat3"; return glm::make_mat3(p); } f = "make_mat3x3"; return glm::make_mat3x3(p); }
    else if constexpr (S::C == 3 && S::R == 4) { f = "make_mat3x4"; return glm::make_mat3x4(p); }
    else if constexpr (S::C == 4 && S::R == 2) { f = "make_mat4x2"; return glm::make_mat4x2(p); }
    else if constexpr (S::C == 4 && S::R == 3) { f = "make_mat4x3"; return glm::make_mat4x3(p); }
    else { if (alias) { f = "make_mat4"; return glm::make_mat4(p); } f = "make_mat4x4"; return glm::make_mat4x4(p); }
}
template<class V> static constexpr bool has_make() { return Shape<V>::Q == glm::defaultp && !(Shape<V>::K == 0 && Shape<V>::R == 1); }

// the probed object sits between two guard areas, so that a displaced value_ptr / operator[] of a broken tree
// scribbles over the guards instead of the stack frame and the facts still reach the judge
template<class V> struct Guarded { unsigned char pre[128]; V v; unsigned char post[128]; };
#define FRESH(NAME) Guarded<V> NAME##_g; V& NAME = NAME##_g.v; std::memset(static_cast<void*>(&NAME##_g), 0, sizeof(NAME##_g))

// ------------------------------------------------------------------ the probe of one instantiation
template<class V> static void probe() {
    typedef Shape<V> S; typedef typename S::T T;
    constexpr int C = S::C, R = S::R, N = C * R;
    constexpr int NE = int(sizeof(V) / sizeof(T));                     // whole object seen as an array of T
    // ---- layout: sizes, offsets, length()
    {
        FRESH(v);
        V const& cv = v;
        std::vector<long long> off, offc;
        for (int c = 0; c < C; ++c) for (int r = 0; r < R; ++r) { off.push_back(pdiff(&S::at(v, c, r), &v)); offc.push_back(pdiff(&S::atc(cv, c, r), &cv)); }
        Ev e("layout"); hdr<V>(e);
        nums(e, "off", off); nums(e, "offc", offc);
        e.num("vpo", pdiff(glm::value_ptr(v), &v)).num("vpc", pdiff(glm::value_ptr(cv), &cv));
        typedef decltype(V::length()) LT;
        e.num("len", (long long)v.length()).num("lsz", (long long)sizeof(LT)).num("lsg", std::is_signed<LT>::value ? 1 : 0);
        e.num("lts", std::is_same<LT, glm::length_t>::value && std::is_same<typename V::length_type, glm::length_t>::value ? 1 : 0);
        if constexpr (S::K == 1) {
            typedef typename V::col_type Col;
            std::vector<long long> co;
            for (int c = 0; c < C; ++c) co.push_back(pdiff(&v[glm::length_t(c)], &v));
            nums(e, "co", co);
            e.num("csz", (long long)sizeof(Col)).num("cal", (long long)alignof(Col)).num("len2", (long long)v[0].length());
            e.num("cq", int(Shape<Col>::Q)).num("cR", Shape<Col>::R).str("ct", TI<typename Shape<Col>::T>::code());
        } else {
            for (int set = 0; set < name_sets<V>(); ++set) {
                std::vector<long long> m;
                for (int j = 0; j < R; ++j) m.push_back(pdiff(named(v, set, j), &v));
                nums(e, set == 0 ? "mx" : set == 1 ? "mr" : "ms", m);
            }
        }
        e.emit();
    }
    for (int round = 0; round < tag_rounds<T>(N); ++round) {
        // ---- StoreViaIndex: o[c][r] = tag, then the byte image and the loads through value_ptr
        {
            FRESH(v);
            Arr<T> a = tags<T>(round, N, N);
            for (int c = 0; c < C; ++c) for (int r = 0; r < R; ++r) S::at(v, c, r) = a[size_t(c * R + r)];
            V const& cv = v;
            T const* p = glm::value_ptr(cv);
            Arr<T> ld; for (int k = 0; k < NE; ++k) ld.push_back(p[k]);
            Ev e("store_index"); hdr<V>(e); e.num("round", round);
            words(e, "a", a); nums(e, "img", image(v)); words(e, "ld", ld);
            e.emit();
        }
        // ---- StoreViaValuePtr: value_ptr(o)[k] = tag over the whole object, then the components through const operator[] and the names
        {
            FRESH(v);
            Arr<T> a = tags<T>(round, NE, N);
            T* p = glm::value_ptr(v);
            for (int k = 0; k < NE; ++k) p[k] = a[size_t(k)];
            Ev e("store_ptr"); hdr<V>(e); e.num("round", round);
            words(e, "a", a); words(e, "r", by_index(v));
            if constexpr (S::K != 1) words(e, "rn", by_name(v));
            e.emit();
        }
        // ---- stores through the named members
        if constexpr (S::K != 1) {
            for (int set = 0; set < name_sets<V>(); ++set) {
                FRESH(v);
                Arr<T> a = tags<T>(round, R, R);
                for (int j = 0; j < R; ++j) *named(v, set, j) = a[size_t(j)];
                Ev e("store_named"); hdr<V>(e); e.num("round", round).num("set", set);
                words(e, "a", a); nums(e, "img", image(v)); words(e, "r", by_index(v));
                e.emit();
            }
        }
        // ---- MakeFromPtr and the round trip object -> value_ptr -> raw array -> make_*
        if constexpr (has_make<V>()) {
            for (int alias = 0; alias < ((S::K == 1 && C == R) ? 2 : 1); ++alias) {
                Arr<T> a = tags<T>(round, NE + 2, N);           // two spare elements behind the image
                const char* f = "";
                V v = do_make<V>(a.data(), alias, f);
                Ev e("make"); hdr<V>(e); e.num("round", round).str("f", f);
                words(e, "a", a); words(e, "r", by_index(v));
                if constexpr (S::K != 1) words(e, "rn", by_name(v));
                e.emit();
            }
            {
                FRESH(o);
                Arr<T> a = tags<T>(round, N, N);
                for (int c = 0; c < C; ++c) for (int r = 0; r < R; ++r) S::at(o, c, r) = a[size_t(c * R + r)];
                V const& co = o;
                Arr<T> rawv; { T const* p = glm::value_ptr(co); for (int k = 0; k < NE; ++k) rawv.push_back(p[k]); }
                rawv.push_back(tag<T>(round, 0, N));                   // spare, never part of the object
                const char* f = "";
                V o2 = do_make<V>(rawv.data(), 0, f);
                Ev e("roundtrip"); hdr<V>(e); e.num("round", round).str("f", f);
                words(e, "o", by_index(o)); words(e, "raw", rawv); words(e, "o2", by_index(o2)); nums(e, "img", image(o)); nums(e, "img2", image(o2));
                e.emit();
            }
        }
    }
}

// ------------------------------------------------------------------ make_vecN(vecM): leading components are kept
template<int N, int M, class T, glm::qualifier Q> static void make_vv(int round) {
    glm::vec<M, T, Q> s; std::memset(static_cast<void*>(&s), 0, sizeof(s));
    Arr<T> a = tags<T>(round, M, M);
    for (int i = 0; i < M; ++i) s[glm::length_t(i)] = a[size_t(i)];
    glm::vec<N, T, Q> r;
    if constexpr (N == 1) r = glm::make_vec1(s);
    else if constexpr (N == 2) r = glm::make_vec2(s);
    else if constexpr (N == 3) r = glm::make_vec3(s);
    else r = glm::make_vec4(s);
    Ev e("make_vv"); hdr<glm::vec<N, T, Q>>(e); e.num("M", M).num("round", round);
    words(e, "a", a); words(e, "r", by_index(r));
    e.emit();
}
template<int N, class T, glm::qualifier Q> static void make_vv_n() {
    for (int round = 0; round < (std::is_same<T, bool>::value ? 2 : 1); ++round) {
        int rr = std::is_same<T, bool>::value ? 4 + round : round;       // bool: all set / alternating
        make_vv<N, 1, T, Q>(rr); make_vv<N, 2, T, Q>(rr); make_vv<N, 3, T, Q>(rr); make_vv<N, 4, T, Q>(rr);
    }
}

// ------------------------------------------------------------------ enumeration of the instantiations
template<class T, glm::qualifier Q> static void per_TQ() {
    probe<glm::vec<1, T, Q>>(); probe<glm::vec<2, T, Q>>(); probe<glm::vec<3, T, Q>>(); probe<glm::vec<4, T, Q>>();
    if constexpr (!std::is_same<T, bool>::value) {
        probe<glm::mat<2, 2, T, Q>>(); probe<glm::mat<2, 3, T, Q>>(); probe<glm::mat<2, 4, T, Q>>();
        probe<glm::mat<3, 2, T, Q>>(); probe<glm::mat<3, 3, T, Q>>(); probe<glm::mat<3, 4, T, Q>>();
        probe<glm::mat<4, 2, T, Q>>(); probe<glm::mat<4, 3, T, Q>>(); probe<glm::mat<4, 4, T, Q>>();
        probe<glm::qua<T, Q>>();
    }
    make_vv_n<1, T, Q>(); make_vv_n<2, T, Q>(); make_vv_n<3, T, Q>(); make_vv_n<4, T, Q>();
}
template<glm::qualifier Q> static void per_Q() {
    per_TQ<bool, Q>();
    per_TQ<glm::int8, Q>();  per_TQ<glm::uint8, Q>();
    per_TQ<glm::int16, Q>(); per_TQ<glm::uint16, Q>();
    per_TQ<glm::int32, Q>(); per_TQ<glm::uint32, Q>();
    per_TQ<glm::int64, Q>(); per_TQ<glm::uint64, Q>();
    per_TQ<float, Q>();      per_TQ<double, Q>();
}

// ------------------------------------------------------------------ the named aliases of fwd.hpp / gtc/type_precision.hpp / gtc/type_aligned.hpp
// declared: element type, kind, C, R, aligned (0 packed, 1 aligned, 2 whatever the default qualifier is), precision (0 highp 1 mediump 2 lowp 3 default)
template<class V> static void alias(const char* name, const char* dt, const char* dk, int dC, int dR, int dal, int dp) {
    Ev e("alias"); hdr<V>(e);
    e.str("nm", name).str("dt", dt).str("dk", dk).num("dC", dC).num("dR", dR).num("dal", dal).num("dp", dp);
    e.num("len", (long long)V::length());
    e.emit();
}
#define AL(NAME, DT, DK, DC, DR, DAL, DP) alias<glm::NAME>(#NAME, DT, DK, DC, DR, DAL, DP);
#define AL_P(NAME, DT, DK, DC, DR) AL(NAME, DT, DK, DC, DR, 2, 3) AL(highp_##NAME, DT, DK, DC, DR, 2, 0) AL(mediump_##NAME, DT, DK, DC, DR, 2, 1) AL(lowp_##NAME, DT, DK, DC, DR, 2, 2)
#define VEC_FAM(PFX, DT) AL_P(PFX##vec1, DT, "vec", 1, 1) AL_P(PFX##vec2, DT, "vec", 1, 2) AL_P(PFX##vec3, DT, "vec", 1, 3) AL_P(PFX##vec4, DT, "vec", 1, 4)
#define MAT_FAM(PFX, DT) AL_P(PFX##mat2x2, DT, "mat", 2, 2) AL_P(PFX##mat2x3, DT, "mat", 2, 3) AL_P(PFX##mat2x4, DT, "mat", 2, 4) \
    AL_P(PFX##mat3x2, DT, "mat", 3, 2) AL_P(PFX##mat3x3, DT, "mat", 3, 3) AL_P(PFX##mat3x4, DT, "mat", 3, 4) \
    AL_P(PFX##mat4x2, DT, "mat", 4, 2) AL_P(PFX##mat4x3, DT, "mat", 4, 3) AL_P(PFX##mat4x4, DT, "mat", 4, 4)
#define MATSQ_FAM(PFX, DT) AL_P(PFX##mat2, DT, "mat", 2, 2) AL_P(PFX##mat3, DT, "mat", 3, 3) AL_P(PFX##mat4, DT, "mat", 4, 4)
// gtc/type_aligned.hpp: aligned_* / packed_* with and without precision
#define AQ(A, DAL, NAME, DT, DK, DC, DR) AL(A##_##NAME, DT, DK, DC, DR, DAL, 3) AL(A##_highp_##NAME, DT, DK, DC, DR, DAL, 0) AL(A##_mediump_##NAME, DT, DK, DC, DR, DAL, 1) AL(A##_lowp_##NAME, DT, DK, DC, DR, DAL, 2)
#define AQ2(NAME, DT, DK, DC, DR) AQ(aligned, 1, NAME, DT, DK, DC, DR) AQ(packed, 0, NAME, DT, DK, DC, DR)
#define AVEC_FAM(PFX, DT) AQ2(PFX##vec1, DT, "vec", 1, 1) AQ2(PFX##vec2, DT, "vec", 1, 2) AQ2(PFX##vec3, DT, "vec", 1, 3) AQ2(PFX##vec4, DT, "vec", 1, 4)
#define AMAT_FAM(PFX, DT) AQ2(PFX##mat2x2, DT, "mat", 2, 2) AQ2(PFX##mat2x3, DT, "mat", 2, 3) AQ2(PFX##mat2x4, DT, "mat", 2, 4) \
    AQ2(PFX##mat3x2, DT, "mat", 3, 2) AQ2(PFX##mat3x3, DT, "mat", 3, 3) AQ2(PFX##mat3x4, DT, "mat", 3, 4) \
    AQ2(PFX##mat4x2, DT, "mat", 4, 2) AQ2(PFX##mat4x3, DT, "mat", 4, 3) AQ2(PFX##mat4x4, DT, "mat", 4, 4) \
    AQ2(PFX##mat2, DT, "mat", 2, 2) AQ2(PFX##mat3, DT, "mat", 3, 3) AQ2(PFX##mat4, DT, "mat", 4, 4)

static void aliases() {
    VEC_FAM(, "f32") VEC_FAM(d, "f64") VEC_FAM(i, "i32") VEC_FAM(u, "u32") VEC_FAM(b, "b")
    VEC_FAM(i8, "i8") VEC_FAM(i16, "i16") VEC_FAM(i32, "i32") VEC_FAM(i64, "i64")
    VEC_FAM(u8, "u8") VEC_FAM(u16, "u16") VEC_FAM(u32, "u32") VEC_FAM(u64, "u64")
    VEC_FAM(f, "f32") VEC_FAM(f32, "f32") VEC_FAM(f64, "f64")
    MAT_FAM(, "f32") MAT_FAM(d, "f64") MAT_FAM(f, "f32") MAT_FAM(f32, "f32") MAT_FAM(f64, "f64")
    MATSQ_FAM(, "f32") MATSQ_FAM(d, "f64") MATSQ_FAM(f, "f32") MATSQ_FAM(f32, "f32") MATSQ_FAM(f64, "f64")
    AL_P(quat, "f32", "qua", 1, 4) AL_P(dquat, "f64", "qua", 1, 4) AL_P(fquat, "f32", "qua", 1, 4) AL_P(f32quat, "f32", "qua", 1, 4) AL_P(f64quat, "f64", "qua", 1, 4)
#if GLM_CONFIG_ALIGNED_GENTYPES == GLM_ENABLE
    AVEC_FAM(, "f32") AVEC_FAM(d, "f64") AVEC_FAM(i, "i32") AVEC_FAM(u, "u32") AVEC_FAM(b, "b")
    AMAT_FAM(, "f32") AMAT_FAM(d, "f64")
#endif
}

// a crash inside a GLM call of a broken tree: keep what was logged so far (the replay shows the last events), exit non-zero
static void on_signal(int sig) { out().flush(); std::fprintf(stderr, "harness: signal %d after %llu events\n", sig, (unsigned long long)out().events); _exit(4); }

static void body(int argc, char** argv) {
    std::signal(SIGSEGV, on_signal); std::signal(SIGBUS, on_signal); std::signal(SIGABRT, on_signal); std::signal(SIGILL, on_signal);
    g_cfg = argc > 2 ? argv[2] : "default";
    bool thorough = argc > 3 && std::string(argv[3]) == "thorough";
    g_rounds = thorough ? 12 : 2;
    g_rng = Rng(seed_from_env());
    g_cm = config_macros();
    {
        Ev e("config"); e.str("cfg", g_cfg); raw(e, "cm", g_cm);
        e.num("lsz", (long long)sizeof(glm::length_t)).num("lsg", std::is_signed<glm::length_t>::value ? 1 : 0);
        e.num("ptr", (long long)sizeof(void*)).num("chb", CHAR_BIT).num("bsz", (long long)sizeof(bool));
        e.num("dq", int(glm::defaultp)).str("dqn", qname(glm::defaultp));
        e.emit();
    }
    // C16_LIGHT (quick tier of the expensive swizzle-operator build): high precision qualifiers only
    per_Q<glm::packed_highp>();
#ifndef C16_LIGHT
    per_Q<glm::packed_mediump>(); per_Q<glm::packed_lowp>();
#endif
#if GLM_CONFIG_ALIGNED_GENTYPES == GLM_ENABLE
    per_Q<glm::aligned_highp>();
#   ifndef C16_LIGHT
    per_Q<glm::aligned_mediump>(); per_Q<glm::aligned_lowp>();
#   endif
#endif
    aliases();
}
int main(int argc, char** argv) { return run_main(argc, argv, body); }
