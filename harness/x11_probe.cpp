// X11 compile probes: documented call forms that must compile.  The driver compiles this file with -fsyntax-only once per
// probe (-DX11_PROBE=n) against the tree under test and logs {"op":"probe","name":...,"ok":0|1} events; nothing is executed.
#define GLM_ENABLE_EXPERIMENTAL
#include <glm/glm.hpp>
#if X11_PROBE == 1
// "Include <glm/gtx/extended_min_max.hpp> to use the features of this extension. Min and max functions for 3 to 4 parameters."
#include <glm/gtx/extended_min_max.hpp>
float  probe_a(float x, float y, float z)           { return glm::min(x, y, z); }
float  probe_b(float x, float y, float z, float w)  { return glm::max(x, y, z, w); }
int    probe_c(int x, int y, int z)                 { return glm::max(x, y, z); }
#elif X11_PROBE == 2
// control probe: the vector forms of the same header
#include <glm/gtx/extended_min_max.hpp>
glm::vec3 probe_a(glm::vec3 x, glm::vec3 y, glm::vec3 z)              { return glm::min(x, y, z); }
glm::vec3 probe_b(glm::vec3 x, glm::vec3 y, glm::vec3 z, glm::vec3 w) { return glm::max(x, y, z, w); }
#endif
