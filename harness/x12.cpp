// X12 harness: geometric extras attached to C12 - gtx/intersect, gtx/vector_query, gtx/normalize_dot,
// gtx/handed_coordinate_space, gtx/polar_coordinates, gtx/extend.
// argv: <trace-out> <tier>
// No expected values here: every call is logged with the raw bit patterns of its arguments and results; TLC judges
// (spec/trace/Trace_X12.tla).  Inputs: small integers, dyadics k * 2^e, Pythagorean rationals n/d (one correctly rounded
// division), vectors normalised by GLM itself, the integer Rng.  Random operands are bound to locals before any call.
#define VH_NO_EXT_ALL
#include "common.hpp"
#include <glm/gtx/intersect.hpp>
#include <glm/gtx/vector_query.hpp>
#include <glm/gtx/normalize_dot.hpp>
#include <glm/gtx/handed_coordinate_space.hpp>
#include <glm/gtx/polar_coordinates.hpp>
#include <glm/gtx/extend.hpp>
#include <cmath>
using namespace vh;

static bool g_thorough = false;
static const glm::qualifier QH = glm::highp, QL = glm::lowp;
template<glm::qualifier Q> struct QN;
template<> struct QN<glm::highp> { static const char* s() { return "h"; } };
template<> struct QN<glm::mediump> { static const char* s() { return "m"; } };
template<> struct QN<glm::lowp> { static const char* s() { return "l"; } };
#define EV(OP, T, L, Q) Ev(OP).str("t", TI<T>::code()).num("n", L).str("q", QN<Q>::s())

template<class T> T dy(long long k, int e) { return std::ldexp(T(k), e); }          // k * 2^e, exact for |k| < 2^24
template<class T> T rat(int n, int d) { return T(n) / T(d); }                       // one correctly rounded division
template<int L, class T, glm::qualifier Q> glm::vec<L, T, Q> mk(const T* p) { glm::vec<L, T, Q> v; for (int i = 0; i < L; ++i) v[i] = p[i]; return v; }

// rational unit vectors (numerators / common denominator)
struct UV { int v[4]; int den; };
static std::vector<UV> unit_pool(int L) {
    std::vector<UV> p;
    auto add = [&](int a, int b, int c, int d, int den) { p.push_back(UV{{a, b, c, d}, den}); };
    if (L == 2) { add(1, 0, 0, 0, 1); add(0, 1, 0, 0, 1); add(-1, 0, 0, 0, 1); add(0, -1, 0, 0, 1); add(3, 4, 0, 0, 5); add(4, -3, 0, 0, 5); add(-3, -4, 0, 0, 5);
                  add(5, 12, 0, 0, 13); add(-12, 5, 0, 0, 13); add(7, -24, 0, 0, 25); add(8, 15, 0, 0, 17); add(-20, -21, 0, 0, 29); add(1023, 64, 0, 0, 1025); }
    if (L == 3) { add(1, 0, 0, 0, 1); add(0, 1, 0, 0, 1); add(0, 0, 1, 0, 1); add(0, -1, 0, 0, 1); add(0, 0, -1, 0, 1); add(-1, 0, 0, 0, 1); add(1, 2, 2, 0, 3); add(-2, 1, -2, 0, 3);
                  add(2, -2, 1, 0, 3); add(2, 3, 6, 0, 7); add(-6, 2, 3, 0, 7); add(3, -6, 2, 0, 7); add(1, 4, 8, 0, 9); add(-4, -4, 7, 0, 9); add(2, 10, 11, 0, 15);
                  add(3, 4, 0, 0, 5); add(0, -3, -4, 0, 5); add(12, 0, -5, 0, 13); }
    if (L == 4) { add(1, 0, 0, 0, 1); add(0, 0, 0, -1, 1); add(1, 1, 1, 1, 2); add(1, -1, 1, -1, 2); add(1, 2, 2, 4, 5); add(-2, 4, -5, 6, 9); add(2, 4, 5, 6, 9);
                  add(4, -2, 2, 1, 5); add(0, 3, 0, 4, 5); add(1, 2, 4, 10, 11); add(0, -1, 0, 0, 1); }
    return p;
}
template<int L, class T> void fill_unit(T* d, UV const& s) { for (int i = 0; i < 4; ++i) d[i] = i < L ? rat<T>(s.v[i], s.den) : T(0); }
// random integer vector in [-R, R]^L scaled by 2^sc
template<int L, class T> void rnd_int(Rng& rng, T* d, int R, int sc) { for (int i = 0; i < 4; ++i) { long long m = (long long)rng.below(2 * R + 1) - R; d[i] = i < L ? dy<T>(m, sc) : T(0); } }
// random direction normalised by GLM
template<int L, class T> void rnd_dir(Rng& rng, T* d) {
    glm::vec<L, T, QH> v; bool nz = false;
    for (int k = 0; k < L; ++k) { long long m = (long long)rng.below(2001) - 1000; v[k] = T(m); nz = nz || m != 0; }
    if (!nz) v[0] = T(1);
    v = glm::normalize(v);
    for (int k = 0; k < 4; ++k) d[k] = k < L ? v[k] : T(0);
}

// ------------------------------------------------------------------ intersect: ray / plane
template<int L, class T, glm::qualifier Q> void ray_plane(const T* o_, const T* d_, const T* po_, const T* n_) {
    typedef glm::vec<L, T, Q> V;
    V o = mk<L, T, Q>(o_), d = mk<L, T, Q>(d_), po = mk<L, T, Q>(po_), n = mk<L, T, Q>(n_);
    T dist = T(0);
    bool r = glm::intersectRayPlane(o, d, po, n, dist);
    EV("rayPlane", T, L, Q).arg(o).arg(d).arg(po).arg(n).res(r).val("dist", dist).emit();
}
template<int L, class T> void gen_plane(Rng& rng, int M) {
    const bool F = std::is_same<T, float>::value;
    std::vector<UV> U = unit_pool(L);
    T o[4], d[4], po[4], n[4];
    uint64_t idx = 0;
    // unit pool x unit pool, integer origins: ahead, behind, parallel (d = 0 exactly), origin on the plane
    for (size_t i = 0; i < U.size(); ++i) for (size_t j = 0; j < U.size(); ++j) {
        if ((i * 7 + j * 3) % (g_thorough ? 2 : 11) != 0) continue;
        fill_unit<L>(d, U[i]); fill_unit<L>(n, U[j]);
        int sc = int(rng.below(9)) - 4;
        rnd_int<L>(rng, o, 6, sc); rnd_int<L>(rng, po, 6, sc);
        if (++idx % 4 == 0) ray_plane<L, T, QL>(o, d, po, n); else ray_plane<L, T, QH>(o, d, po, n);
        for (int k = 0; k < 4; ++k) po[k] = o[k];                                  // origin on the plane: num = 0
        if (idx % 5 == 0) ray_plane<L, T, QH>(o, d, po, n);
    }
    // grazing: dir = e1, normal = (2^-k, 1, 0..): d = 2^-k crosses the parallel band around eps
    const int mb = F ? 23 : 52;
    for (int k = mb - 6; k <= mb + 4; k += (g_thorough ? 1 : 2)) for (int s = 0; s < 2; ++s) {
        for (int q = 0; q < 4; ++q) { o[q] = T(0); d[q] = T(0); po[q] = T(0); n[q] = T(0); }
        d[0] = T(1); n[0] = dy<T>(s ? -1 : 1, -k); n[1] = T(1); po[0] = T(s ? -3 : 3); po[1] = dy<T>(1, -k + 1);
        ray_plane<L, T, QH>(o, d, po, n);
    }
    // GLM-normalised random directions, random dyadic origins
    for (int it = 0; it < (g_thorough ? 300 : 24); ++it) {
        rnd_dir<L>(rng, d); rnd_dir<L>(rng, n);
        int sc = int(rng.below(17)) - 8;
        rnd_int<L>(rng, o, 1000, sc - 8); rnd_int<L>(rng, po, 1000, sc - 8);
        ray_plane<L, T, QH>(o, d, po, n);
    }
    // outside the domain: non-unit direction, non-finite
    rnd_int<L>(rng, d, 3, 0); d[0] = T(2); rnd_dir<L>(rng, n); rnd_int<L>(rng, o, 3, 0); rnd_int<L>(rng, po, 3, 0);
    ray_plane<L, T, QH>(o, d, po, n);
    rnd_dir<L>(rng, d); o[0] = std::numeric_limits<T>::infinity(); ray_plane<L, T, QH>(o, d, po, n);
    o[0] = std::numeric_limits<T>::quiet_NaN(); ray_plane<L, T, QH>(o, d, po, n);
}

// ------------------------------------------------------------------ intersect: ray / line and triangle
template<class T, glm::qualifier Q> void tri(const T* o_, const T* d_, const T* a_, const T* b_, const T* c_) {
    typedef glm::vec<3, T, Q> V;
    V o = mk<3, T, Q>(o_), d = mk<3, T, Q>(d_), a = mk<3, T, Q>(a_), b = mk<3, T, Q>(b_), c = mk<3, T, Q>(c_);
    { glm::vec<2, T, Q> bary(T(0)); T dist = T(0);
      bool r = glm::intersectRayTriangle(o, d, a, b, c, bary, dist);
      EV("rayTri", T, 3, Q).arg(o).arg(d).arg(a).arg(b).arg(c).res(r).val("bary", bary).val("dist", dist).emit(); }
    { V pos(T(0));
      bool r = glm::intersectLineTriangle(o, d, a, b, c, pos);
      EV("lineTri", T, 3, Q).arg(o).arg(d).arg(a).arg(b).arg(c).res(r).val("pos", pos).emit(); }
}
template<class T> void gen_tri(Rng& rng, int M) {
    const bool F = std::is_same<T, float>::value;
    T o[4] = {}, d[4] = {}, a[4] = {}, b[4] = {}, c[4] = {};
    uint64_t idx = 0;
    // the triangle (0,0,0) (4,0,0) (0,4,0) and its re-orderings, origins on a grid above / below, straight and oblique directions
    const int TR[][9] = { {0, 0, 0, 4, 0, 0, 0, 4, 0}, {0, 0, 0, 0, 4, 0, 4, 0, 0}, {4, 0, 0, 0, 4, 0, 0, 0, 0}, {1, 1, 1, 5, 1, 0, 1, 5, 2} };
    const int DIRS[][3] = { {0, 0, -1}, {0, 0, 1}, {1, 1, -2}, {-1, 0, -3}, {1, 0, 0}, {2, -1, 2} };
    for (auto& t : TR) for (auto& dv : DIRS) for (int x = -1; x <= 5; ++x) for (int y = -1; y <= 5; ++y) {
        if ((idx++ * 5 + 1) % (g_thorough ? 3 : 14) != 0) continue;
        int sc = int(rng.below(7)) - 3; int z = (idx % 3 == 0) ? -3 : 3;
        for (int k = 0; k < 3; ++k) { a[k] = dy<T>(t[k], sc); b[k] = dy<T>(t[3 + k], sc); c[k] = dy<T>(t[6 + k], sc); d[k] = T(dv[k]); }
        o[0] = dy<T>(x, sc); o[1] = dy<T>(y, sc); o[2] = dy<T>(z, sc);
        if (idx % 6 == 0) tri<T, QL>(o, d, a, b, c); else tri<T, QH>(o, d, a, b, c);
    }
    // constructed hits and misses: integer triangle scaled by 16, target = barycentric point with weights (wa, wb, wc)/16, origin = target -+ m dir
    for (int it = 0; it < (g_thorough ? 900 : 66); ++it) {
        long long va[3], vb[3], vc[3], dv[3];
        for (int k = 0; k < 3; ++k) { va[k] = (long long)rng.below(41) - 20; vb[k] = (long long)rng.below(41) - 20; vc[k] = (long long)rng.below(41) - 20; dv[k] = (long long)rng.below(9) - 4; }
        if (dv[0] == 0 && dv[1] == 0 && dv[2] == 0) dv[2] = 1;
        long long wb = (long long)rng.below(22) - 3, wc = (long long)rng.below(22) - 3;      // -3 .. 18: inside, on the border, outside
        if (it % 4 == 0) { wb = (long long)rng.below(17); wc = 16 - wb; }                    // on the edge u + v = 1
        if (it % 4 == 1) { wc = 0; }                                                         // on the edge v = 0
        long long wa = 16 - wb - wc;
        long long m = (long long)rng.below(7) + 1; if (it % 3 == 0) m = -m;                  // m < 0: the triangle lies behind the origin
        if (it % 11 == 0) m = 0;                                                             // origin in the plane of the triangle
        int sc = int(rng.below(F ? 13 : 41)) - (F ? 6 : 20);
        for (int k = 0; k < 3; ++k) {
            a[k] = dy<T>(16 * va[k], sc); b[k] = dy<T>(16 * vb[k], sc); c[k] = dy<T>(16 * vc[k], sc); d[k] = T(dv[k]);
            o[k] = dy<T>(wa * va[k] + wb * vb[k] + wc * vc[k] - 16 * m * dv[k], sc);
        }
        tri<T, QH>(o, d, a, b, c);
    }
    // random dyadic everything (mostly misses), direction normalised by GLM
    for (int it = 0; it < 25 * M; ++it) {
        int sc = int(rng.below(9)) - 4;
        rnd_int<3>(rng, a, 500, sc - 6); rnd_int<3>(rng, b, 500, sc - 6); rnd_int<3>(rng, c, 500, sc - 6); rnd_int<3>(rng, o, 500, sc - 6);
        if (it % 2) { for (int k = 0; k < 3; ++k) d[k] = (a[k] + b[k] + c[k]) / T(3) - o[k]; } else rnd_dir<3>(rng, d);     // aimed at the centroid: hits
        tri<T, QH>(o, d, a, b, c);
    }
    // direction nearly in the plane of the triangle; tiny triangles (absolute epsilon of intersectLineTriangle)
    for (int e = 2; e <= (F ? 30 : 60); e += (g_thorough ? 2 : 7)) {
        for (int k = 0; k < 3; ++k) { a[k] = T(0); b[k] = T(0); c[k] = T(0); o[k] = T(0); d[k] = T(0); }
        b[0] = T(4); c[1] = T(4); o[0] = T(1); o[1] = T(1); o[2] = dy<T>(1, -e + 2); d[0] = T(1); d[2] = dy<T>(-1, -e);
        tri<T, QH>(o, d, a, b, c);
        b[0] = dy<T>(4, -e / 2); c[1] = dy<T>(4, -e / 2); o[0] = dy<T>(1, -e / 2); o[1] = dy<T>(1, -e / 2); o[2] = T(1); d[0] = T(0); d[2] = T(-1);
        tri<T, QH>(o, d, a, b, c);
    }
    // outside the domain
    for (int k = 0; k < 3; ++k) { a[k] = T(0); b[k] = T(k == 0); c[k] = T(k == 1); o[k] = T(0.25); d[k] = T(k == 2); }
    o[2] = std::numeric_limits<T>::infinity(); tri<T, QH>(o, d, a, b, c);
    o[2] = T(1); c[0] = T(2); c[1] = T(0); tri<T, QH>(o, d, a, b, c);            // degenerate triangle (collinear vertices)
}

// ------------------------------------------------------------------ intersect: spheres
template<int L, class T, glm::qualifier Q> void ray_sphere(const T* o_, const T* d_, const T* c_, T r) {
    typedef glm::vec<L, T, Q> V;
    V o = mk<L, T, Q>(o_), d = mk<L, T, Q>(d_), c = mk<L, T, Q>(c_);
    { T r2 = r * r; T dist = T(0);
      bool h = glm::intersectRaySphere(o, d, c, r2, dist);
      EV("raySphereD", T, L, Q).arg(o).arg(d).arg(c).arg(r2).res(h).val("dist", dist).emit(); }
    { V pos(T(0)), nrm(T(0));
      bool h = glm::intersectRaySphere(o, d, c, r, pos, nrm);
      EV("raySphereP", T, L, Q).arg(o).arg(d).arg(c).arg(r).res(h).val("pos", pos).val("nrm", nrm).emit(); }
}
template<int L, class T, glm::qualifier Q> void line_sphere(const T* p0_, const T* p1_, const T* c_, T r) {
    typedef glm::vec<L, T, Q> V;
    V p0 = mk<L, T, Q>(p0_), p1 = mk<L, T, Q>(p1_), c = mk<L, T, Q>(c_);
    V i1(T(0)), n1(T(0)), i2(T(0)), n2(T(0));
    bool h = glm::intersectLineSphere(p0, p1, c, r, i1, n1, i2, n2);
    EV("lineSphere", T, L, Q).arg(p0).arg(p1).arg(c).arg(r).res(h).val("p1", i1).val("n1", n1).val("p2", i2).val("n2", n2).emit();
}
template<int L, class T> void gen_sphere(Rng& rng, int M) {
    const bool F = std::is_same<T, float>::value;
    std::vector<UV> U = unit_pool(L);
    T o[4], d[4], c[4], p1[4];
    uint64_t idx = 0;
    // axis direction, centre (cx, cy, 0..), integer radius: exact roots (3-4-5), tangent (cy = r), miss, inside, behind, on the surface
    const int CF[][3] = { {5, 3, 5}, {5, 3, 3}, {5, 3, 2}, {-5, 3, 5}, {1, 1, 5}, {0, 0, 2}, {5, 0, 5}, {-5, 0, 5}, {9, 12, 13}, {9, 12, 15}, {0, 3, 3}, {2, 0, 1}, {-2, 0, 1}, {6, 8, 10} };
    for (auto& cf : CF) for (int ax = 0; ax < L; ++ax) for (int sg = 0; sg < 2; ++sg) {
        if ((idx++) % (g_thorough ? 1 : (L == 3 ? 4 : 5)) != 0) continue;
        int sc = int(rng.below(9)) - 4;
        for (int k = 0; k < 4; ++k) { o[k] = T(0); d[k] = T(0); c[k] = T(0); }
        d[ax] = sg ? T(-1) : T(1);
        long long ox = (long long)rng.below(7) - 3;
        o[ax] = dy<T>(ox, sc); o[(ax + 1) % L] = dy<T>(1, sc);
        c[ax] = dy<T>(ox + (sg ? -cf[0] : cf[0]), sc); c[(ax + 1) % L] = dy<T>(1 + cf[1], sc);
        T r = dy<T>(cf[2], sc);
        if (idx % 5 == 0) ray_sphere<L, T, QL>(o, d, c, r); else ray_sphere<L, T, QH>(o, d, c, r);
        for (int k = 0; k < 4; ++k) p1[k] = o[k] + d[k] * dy<T>(3, sc);
        line_sphere<L, T, QH>(o, p1, c, r);
    }
    // Pythagorean directions, integer centres and radii
    for (size_t i = 0; i < U.size(); ++i) for (int it = 0; it < (g_thorough ? 12 : 3); ++it) {
        if (!g_thorough && (i + it) % 2 == 1) continue;
        fill_unit<L>(d, U[i]);
        int sc = int(rng.below(7)) - 3;
        rnd_int<L>(rng, o, 5, sc); rnd_int<L>(rng, c, 8, sc);
        long long rr = (long long)rng.below(9) + 1;
        T r = dy<T>(rr, sc);
        if (it == 1) { for (int k = 0; k < 4; ++k) c[k] = o[k] + d[k] * dy<T>(7, sc); }          // centre on the ray: roots 7 -+ r
        if (it == 2) { for (int k = 0; k < 4; ++k) c[k] = o[k] - d[k] * dy<T>(rr, sc); }          // origin on the surface, centre behind: roots -2r, 0
        ray_sphere<L, T, QH>(o, d, c, r);
        rnd_int<L>(rng, p1, 6, sc);
        line_sphere<L, T, QH>(o, p1, c, r);
    }
    // tiny spheres around / just ahead of the origin: roots inside (0, 4 eps]
    const int mb = F ? 23 : 52;
    for (int k = mb - 4; k <= mb + 3; k += (g_thorough ? 1 : 3)) {
        for (int q = 0; q < 4; ++q) { o[q] = T(0); d[q] = T(0); c[q] = T(0); }
        d[0] = T(1); T r = dy<T>(1, -k);
        ray_sphere<L, T, QH>(o, d, c, r);
        c[0] = dy<T>(3, -k); ray_sphere<L, T, QH>(o, d, c, r);
    }
    // random: GLM-normalised direction, dyadic centre / origin / radius
    for (int it = 0; it < (g_thorough ? 120 : 9); ++it) {
        rnd_dir<L>(rng, d);
        int sc = int(rng.below(13)) - 6;
        rnd_int<L>(rng, o, 300, sc - 6); rnd_int<L>(rng, c, 300, sc - 6);
        long long rr = (long long)rng.below(600) + 1;
        T r = dy<T>(rr, sc - 6);
        if (it % 3 == 0) { T t = dy<T>((long long)rng.below(900), sc - 6); for (int k = 0; k < 4; ++k) c[k] = o[k] + d[k] * t; }        // aimed at the centre
        ray_sphere<L, T, QH>(o, d, c, r);
        rnd_int<L>(rng, p1, 300, sc - 6);
        if (it % 3 == 1) { for (int k = 0; k < 4; ++k) p1[k] = c[k]; p1[0] += r / T(2); }                                               // through the ball
        line_sphere<L, T, QH>(o, p1, c, r);
    }
    // outside the domain: non-unit direction, zero / negative radius, p0 = p1, non-finite
    rnd_int<L>(rng, o, 3, 0); rnd_int<L>(rng, c, 3, 0); rnd_int<L>(rng, d, 2, 0); d[0] = T(3);
    ray_sphere<L, T, QH>(o, d, c, T(2));
    rnd_dir<L>(rng, d); ray_sphere<L, T, QH>(o, d, c, T(0)); ray_sphere<L, T, QH>(o, d, c, T(-1));
    line_sphere<L, T, QH>(o, o, c, T(2)); line_sphere<L, T, QH>(o, c, c, T(0));
    c[0] = std::numeric_limits<T>::infinity(); ray_sphere<L, T, QH>(o, d, c, T(1)); line_sphere<L, T, QH>(o, d, c, T(1));
}

// ------------------------------------------------------------------ vector_query
template<int L, class T, glm::qualifier Q> void query(const T* a_, const T* b_, T e, bool singles = true) {
    typedef glm::vec<L, T, Q> V;
    V a = mk<L, T, Q>(a_), b = mk<L, T, Q>(b_);
    { bool r = glm::areCollinear(a, b, e);   EV("areCollinear", T, L, Q).arg(a).arg(b).arg(e).res(r).emit(); }
    { bool r = glm::areOrthogonal(a, b, e);  EV("areOrthogonal", T, L, Q).arg(a).arg(b).arg(e).res(r).emit(); }
    { bool r = glm::areOrthonormal(a, b, e); EV("areOrthonormal", T, L, Q).arg(a).arg(b).arg(e).res(r).emit(); }
    if (!singles && !g_thorough) return;                                                // pair-oriented families: the one-vector queries only in the thorough tier
    { bool r = glm::isNormalized(a, e);      EV("isNormalized", T, L, Q).arg(a).arg(e).res(r).emit(); }
    { bool r = glm::isNull(a, e);            EV("isNull", T, L, Q).arg(a).arg(e).res(r).emit(); }
    { glm::vec<L, bool, Q> r = glm::isCompNull(a, e); EV("isCompNull", T, L, Q).arg(a).arg(e).res(r).emit(); }
}
template<int L, class T> void gen_query(Rng& rng, int M) {
    const bool F = std::is_same<T, float>::value;
    std::vector<UV> U = unit_pool(L);
    T a[4], b[4];
    uint64_t idx = 0;
    // unit vectors (and pairs of them) against epsilons 2^-k; scaled by 1 + 2^-j: both sides of | |v| - 1 | <= 2 e
    for (size_t i = 0; i < U.size(); ++i) for (size_t j = 0; j < U.size(); ++j) {
        if ((i * 5 + j) % (g_thorough ? 2 : 19) != 0) continue;
        fill_unit<L>(a, U[i]); fill_unit<L>(b, U[j]);
        int k = 2 + int(rng.below(F ? 18 : 40));
        T e = dy<T>(1, -k);
        if (++idx % 6 == 0) query<L, T, QL>(a, b, e); else query<L, T, QH>(a, b, e);
        int jx = k - 2 + int(rng.below(5));                                            // |v| = 1 + 2^-jx against 2 e = 2^(1-k)
        T s = T(1) + dy<T>((idx % 2) ? 1 : -1, -jx);
        for (int q = 0; q < 4; ++q) a[q] *= s;
        query<L, T, QH>(a, b, e);
        if (idx % 3 == 0) {                                                             // | |v| - 1 | = 1.5 e: strictly between e and 2 e
            fill_unit<L>(a, U[i]); T s2 = T(1) + dy<T>((idx % 2) ? 3 : -3, -k - 1);
            for (int q = 0; q < 4; ++q) a[q] *= s2;
            query<L, T, QH>(a, b, e);
        }
    }
    // integer vectors: exactly orthogonal / parallel / Pythagorean lengths against thresholds at and around the exact value
    const int IVS[][4] = { {3, 4, 0, 0}, {4, -3, 0, 0}, {1, 0, 0, 0}, {0, 1, 0, 0}, {1, 2, 2, 0}, {2, -2, 1, 0}, {6, 8, 0, 0}, {0, 0, 0, 0}, {1, 1, 1, 1}, {2, 4, 4, 0}, {-3, -4, 0, 0}, {1, 2, 2, 4}, {1, 2, 2, -1} };
    const int NIV = int(sizeof(IVS) / sizeof(IVS[0]));
    for (int i = 0; i < NIV; ++i) for (int j = 0; j < NIV; ++j) {
        if ((i * 3 + j) % (g_thorough ? 1 : 11) != 0) continue;
        int sc = int(rng.below(F ? 21 : 41)) - (F ? 14 : 30);
        for (int q = 0; q < 4; ++q) { a[q] = q < L ? dy<T>(IVS[i][q], sc) : T(0); b[q] = q < L ? dy<T>(IVS[j][q], sc) : T(0); }
        long long n2 = 0; for (int q = 0; q < L; ++q) n2 += (long long)IVS[i][q] * IVS[i][q];
        long long rt = (long long)std::llround(std::sqrt((double)n2));
        int w = int(rng.below(4));
        T e = w == 0 ? dy<T>(rt, sc) : w == 1 ? dy<T>(rt * 1024 + 1, sc - 10) : w == 2 ? dy<T>(rt * 1024 - 1, sc - 10) : dy<T>(1, sc - 3);      // |a| itself, just above, just below
        query<L, T, QH>(a, b, e);
        T e3 = dy<T>(1, -int(rng.below(F ? 20 : 45)));
        if (g_thorough || (i + j) % 2 == 0) query<L, T, QH>(a, b, e3);
    }
    // nearly collinear / nearly orthogonal: (1,0,..) against (1, 2^-k, ..) and (2^-k, 1, ..) with epsilon 2^-j around 2^-k
    for (int k = 3; k <= (F ? 21 : 48); k += (g_thorough ? 1 : (F ? 4 : 9))) for (int dj = -1; dj <= 1; ++dj) {
        if (!g_thorough && dj == 0 && k % 2 == 0) continue;
        for (int q = 0; q < 4; ++q) { a[q] = T(0); b[q] = T(0); }
        a[0] = T(1); b[0] = T(1); b[1] = dy<T>(1, -k);
        T e = dj == 0 ? dy<T>(1, -k) : dy<T>(dj < 0 ? 3 : 5, -k - 2);                   // equal, 3/4, 5/4 of the wedge
        query<L, T, QH>(a, b, e, false);
        b[0] = dy<T>(1, -k); b[1] = T(1);
        query<L, T, QH>(a, b, e, false);
        if (L == 4) { b[0] = T(1); b[1] = T(0); b[3] = dy<T>(1, -k + 1); a[3] = dy<T>(1, -k); query<L, T, QH>(a, b, e, false); }
    }
    // one vector of unit length, the other not (areOrthonormal looks at both; areOrthogonal scales its threshold by both lengths)
    for (int p = 0; p < L; ++p) for (int w = (g_thorough ? 0 : 1); w < 3; ++w) {
        int q = (p + 1) % L, k = 4 + int(rng.below(F ? 12 : 30));
        for (int c = 0; c < 4; ++c) { a[c] = T(0); b[c] = T(0); }
        a[p] = T(1); b[q] = w == 0 ? T(1) : w == 1 ? dy<T>(3, -1) : T(8);
        query<L, T, QH>(a, b, dy<T>(1, -k), false); if (g_thorough) query<L, T, QH>(b, a, dy<T>(1, -k), false);
        b[p] = b[q] * dy<T>(1, -k);                                                   // dot = |b| 2^-k against thresholds |b| 2^(1-k) and 2^(1-k)
        query<L, T, QH>(a, b, dy<T>(1, -k + 1), false); if (g_thorough || w == 2) query<L, T, QH>(b, a, dy<T>(1, -k + 1), false);
    }
    // vec4: equal xyz parts, different w
    if (L == 4) for (int it = 0; it < 3 * M; ++it) {
        rnd_int<4>(rng, a, 4, 0); for (int q = 0; q < 4; ++q) b[q] = a[q] * T(2);
        a[3] = T(1); b[3] = T((long long)rng.below(7) + 3);
        if (a[0] == T(0) && a[1] == T(0) && a[2] == T(0)) a[0] = T(1), b[0] = T(2);
        query<4, T, QH>(a, b, dy<T>(1, -7));
    }
    // components at the threshold (isCompNull compares strictly), random dyadics
    for (int it = 0; it < 6 * M; ++it) {
        int sc = int(rng.below(17)) - 12;
        rnd_int<L>(rng, a, 40, sc); rnd_int<L>(rng, b, 40, sc);
        long long m = (long long)rng.below(41);
        T e = dy<T>(m, sc);
        a[int(rng.below(L))] = (it % 2) ? e : -e;
        query<L, T, QH>(a, b, e);
        T e2 = dy<T>((long long)rng.below(4000) + 1, sc - 6);
        query<L, T, QH>(a, b, e2);
    }
    // GLM-normalised random directions
    for (int it = 0; it < 5 * M; ++it) {
        rnd_dir<L>(rng, a); rnd_dir<L>(rng, b);
        T e = dy<T>(1, -int(rng.below(F ? 24 : 53)));
        query<L, T, QH>(a, b, e);
    }
    // negative / zero epsilon, non-finite
    rnd_int<L>(rng, a, 3, 0); rnd_int<L>(rng, b, 3, 0);
    query<L, T, QH>(a, b, T(0)); query<L, T, QH>(a, b, T(-1)); for (int q = 0; q < 4; ++q) b[q] = T(0); query<L, T, QH>(b, b, T(0));
    a[0] = std::numeric_limits<T>::quiet_NaN(); query<L, T, QH>(a, b, T(1)); query<L, T, QH>(b, b, std::numeric_limits<T>::infinity());
}

// ------------------------------------------------------------------ normalizeDot, handedness, extend
template<int L, class T, glm::qualifier Q> void ndot(const T* a_, const T* b_) {
    glm::vec<L, T, Q> a = mk<L, T, Q>(a_), b = mk<L, T, Q>(b_);
    T r = glm::normalizeDot(a, b);
    EV("normalizeDot", T, L, Q).arg(a).arg(b).res(r).emit();
}
template<int L, class T, glm::qualifier Q> void ext(const T* o_, const T* s_, T len) {
    glm::vec<L, T, Q> o = mk<L, T, Q>(o_), s = mk<L, T, Q>(s_);
    glm::vec<L, T, Q> r = glm::extend(o, s, len);
    EV("extend", T, L, Q).arg(o).arg(s).arg(len).res(r).emit();
}
template<class T> void ext0(T o, T s, T len) { T r = glm::extend(o, s, len); EV("extend", T, 0, QH).arg(o).arg(s).arg(len).res(r).emit(); }
template<int L, class T> void gen_misc(Rng& rng, int M) {
    const bool F = std::is_same<T, float>::value;
    std::vector<UV> U = unit_pool(L == 1 ? 2 : L);
    T a[4], b[4];
    for (int it = 0; it < (g_thorough ? 200 : 16); ++it) {
        int sc = int(rng.below(F ? 25 : 81)) - (F ? 12 : 40);
        int R = (it % 3 == 0) ? 3 : 1000;
        rnd_int<L>(rng, a, R, sc); rnd_int<L>(rng, b, R, sc - int(rng.below(5)));
        if (it % 7 == 0) for (int q = 0; q < 4; ++q) b[q] = a[q] * T(-3);                 // antiparallel
        if (it % 7 == 1) for (int q = 0; q < 4; ++q) b[q] = a[q] * T(5);                  // parallel
        if (it % 8 == 0) ndot<L, T, QL>(a, b); else ndot<L, T, QH>(a, b);
        T len = dy<T>((long long)rng.below(64) - 16, -3);
        if constexpr (L >= 2) { if (it % 8 == 0) ext<L, T, QL>(a, b, len); else ext<L, T, QH>(a, b, len); }
        else ext0<T>(a[0], b[0], len);
    }
    if constexpr (L >= 2) for (size_t i = 0; i < U.size(); ++i) {
        size_t j = (i * 3 + 1) % U.size();
        fill_unit<L>(a, U[i]); fill_unit<L>(b, U[j]);
        ndot<L, T, QH>(a, b);
        // Source - Origin a unit vector: both readings of extend coincide
        T o[4], s[4]; rnd_int<L>(rng, o, 4, 0); for (int q = 0; q < 4; ++q) s[q] = o[q]; s[int(i % L)] += T(1);
        ext<L, T, QH>(o, s, dy<T>((long long)rng.below(40) + 1, -2));
        for (int q = 0; q < 4; ++q) s[q] = o[q] + a[q];
        ext<L, T, QH>(o, s, dy<T>((long long)rng.below(40) + 1, -2));
        ext<L, T, QH>(o, o, T(2));                                                      // Source = Origin: no direction
    }
    for (int q = 0; q < 4; ++q) { a[q] = T(0); b[q] = T(1); }
    ndot<L, T, QH>(a, b); b[0] = std::numeric_limits<T>::infinity(); ndot<L, T, QH>(b, b);
}
template<class T, glm::qualifier Q> void hand(const T* t_, const T* b_, const T* n_) {
    typedef glm::vec<3, T, Q> V;
    V t = mk<3, T, Q>(t_), b = mk<3, T, Q>(b_), n = mk<3, T, Q>(n_);
    { bool r = glm::rightHanded(t, b, n); EV("rightHanded", T, 3, Q).arg(t).arg(b).arg(n).res(r).emit(); }
    { bool r = glm::leftHanded(t, b, n);  EV("leftHanded", T, 3, Q).arg(t).arg(b).arg(n).res(r).emit(); }
}
template<class T> void gen_hand(Rng& rng, int M) {
    const bool F = std::is_same<T, float>::value;
    T t[4] = {}, b[4] = {}, n[4] = {};
    // all sign patterns of axis permutations and small integer triples (exact: includes coplanar triples)
    for (int it = 0; it < 60 * M; ++it) {
        rnd_int<3>(rng, t, 2, 0); rnd_int<3>(rng, b, 2, 0); rnd_int<3>(rng, n, 2, 0);
        if (it % 5 == 0) for (int q = 0; q < 3; ++q) n[q] = t[q] + b[q];                 // coplanar
        if (it % 9 == 0) hand<T, QL>(t, b, n); else hand<T, QH>(t, b, n);
    }
    const int AX[][9] = { {1, 0, 0, 0, 1, 0, 0, 0, 1}, {0, 1, 0, 1, 0, 0, 0, 0, 1}, {0, 0, 1, 1, 0, 0, 0, 1, 0}, {1, 0, 0, 0, 1, 0, 0, 0, -1}, {-1, 0, 0, 0, -1, 0, 0, 0, 1}, {0, 1, 0, 0, 0, 1, 1, 0, 0} };
    for (auto& x : AX) { for (int q = 0; q < 3; ++q) { t[q] = T(x[q]); b[q] = T(x[3 + q]); n[q] = T(x[6 + q]); } hand<T, QH>(t, b, n); }
    for (int it = 0; it < 20 * M; ++it) {
        int sc = int(rng.below(F ? 21 : 61)) - (F ? 10 : 30);
        rnd_int<3>(rng, t, 1000, sc); rnd_int<3>(rng, b, 1000, sc); rnd_int<3>(rng, n, 1000, sc);
        if (it % 4 == 0) for (int q = 0; q < 3; ++q) n[q] = t[q] * T(3) - b[q] * T(2) + (q == 1 ? dy<T>(1, sc - int(rng.below(30))) : T(0));     // nearly coplanar
        hand<T, QH>(t, b, n);
    }
    t[0] = std::numeric_limits<T>::quiet_NaN(); hand<T, QH>(t, b, n);
}

// ------------------------------------------------------------------ polar coordinates
template<class T, glm::qualifier Q> void pol(const T* e_) {
    glm::vec<3, T, Q> e = mk<3, T, Q>(e_);
    glm::vec<3, T, Q> p = glm::polar(e);
    EV("polar", T, 3, Q).arg(e).res(p).emit();
    glm::vec<2, T, Q> p2(p.x, p.y);
    glm::vec<3, T, Q> rt = glm::euclidean(p2);
    EV("euclidean", T, 2, Q).arg(p2).res(rt).emit();
    EV("polarRT", T, 3, Q).arg(e).val("p", p).res(rt).emit();
}
template<class T, glm::qualifier Q> void euc(T lat, T lon) {
    glm::vec<2, T, Q> p(lat, lon);
    glm::vec<3, T, Q> r = glm::euclidean(p);
    EV("euclidean", T, 2, Q).arg(p).res(r).emit();
    glm::vec<3, T, Q> back = glm::polar(r);
    EV("polar", T, 3, Q).arg(r).res(back).emit();
}
template<class T> void gen_polar(Rng& rng, int M) {
    const bool F = std::is_same<T, float>::value;
    T e[4] = {};
    const int PV[][3] = { {0, 1, 0}, {0, -1, 0}, {1, 0, 0}, {0, 0, 1}, {-1, 0, 0}, {0, 0, -1}, {1, 1, 1}, {3, 4, 0}, {0, 3, 4}, {1, 2, 2}, {-2, -3, 6}, {1, 0, -1}, {-1, 5, -1}, {1, 100, 1}, {-1, -1000, 0}, {2, 0, -2} };
    for (auto& v : PV) { int sc = int(rng.below(21)) - 10; for (int q = 0; q < 3; ++q) e[q] = dy<T>(v[q], sc); pol<T, QH>(e); }
    for (int it = 0; it < 25 * M; ++it) {
        int sc = int(rng.below(F ? 21 : 61)) - (F ? 10 : 30);
        rnd_int<3>(rng, e, 1000, sc);
        if (it % 6 == 0) e[1] = e[1] * T(64);                                           // towards a pole
        if (it % 10 == 0) pol<T, QL>(e); else pol<T, QH>(e);
    }
    // angles: dyadic grid, Pythagorean angles (atan2 in long double, rounded once: only an input), multiples of pi/2 as rounded constants
    for (int it = 0; it < 25 * M; ++it) {
        long long la = (long long)rng.below(2 * 1608 + 1) - 1608, lo = (long long)rng.below(2 * 3216 + 1) - 3216;      // |lat| <= 1.5703, |lon| <= 3.1406
        euc<T, QH>(dy<T>(la, -10), dy<T>(lo, -10));
    }
    const int PY[][2] = { {3, 4}, {4, 3}, {5, 12}, {-12, 5}, {7, -24}, {-8, -15}, {1, 0}, {0, 1}, {-1, 0}, {0, -1}, {20, 21} };
    for (auto& p : PY) for (auto& q : PY) {
        if ((p[0] + 2 * q[0] + q[1]) % (g_thorough ? 1 : 3) != 0) continue;
        T lat = T(std::atan2((long double)p[1], (long double)(p[0] < 0 ? -p[0] : p[0])));            // latitude in [-pi/2, pi/2]
        T lon = T(std::atan2((long double)q[1], (long double)q[0]));
        euc<T, QH>(lat, lon);
    }
    euc<T, QH>(T(0), T(0)); euc<T, QH>(dy<T>(1, -30), dy<T>(-1, -40)); euc<T, QH>(T(3), T(-3.25)); euc<T, QH>(T(5), T(1)); euc<T, QH>(std::numeric_limits<T>::infinity(), T(0));
    for (int q = 0; q < 3; ++q) e[q] = T(0); pol<T, QH>(e);
}

template<class T> void gen_type(uint64_t seed) {
    const int M = g_thorough ? 10 : 1;
    { Rng r(seed * 31 + 1); gen_plane<3, T>(r, M); }
    { Rng r(seed * 31 + 2); gen_plane<2, T>(r, M); }
    { Rng r(seed * 31 + 3); gen_plane<4, T>(r, M); }
    { Rng r(seed * 31 + 4); gen_tri<T>(r, M); }
    { Rng r(seed * 31 + 5); gen_sphere<3, T>(r, M); }
    { Rng r(seed * 31 + 6); gen_sphere<2, T>(r, M); }
    { Rng r(seed * 31 + 7); gen_sphere<4, T>(r, M); }
    { Rng r(seed * 31 + 8); gen_query<2, T>(r, M); }
    { Rng r(seed * 31 + 9); gen_query<3, T>(r, M); }
    { Rng r(seed * 31 + 10); gen_query<4, T>(r, M); }
    { Rng r(seed * 31 + 11); gen_misc<1, T>(r, M); }
    { Rng r(seed * 31 + 12); gen_misc<2, T>(r, M); }
    { Rng r(seed * 31 + 13); gen_misc<3, T>(r, M); }
    { Rng r(seed * 31 + 14); gen_misc<4, T>(r, M); }
    { Rng r(seed * 31 + 15); gen_hand<T>(r, M); }
    { Rng r(seed * 31 + 16); gen_polar<T>(r, M); }
}

static void body(int argc, char** argv) {
    g_thorough = argc > 2 && std::string(argv[2]) == "thorough";
    uint64_t seed = seed_from_env();
    gen_type<float>(seed);
    gen_type<double>(seed + 1000);
}
int main(int argc, char** argv) { return run_main(argc, argv, body); }
