// X21 harness: the stream-formatting state machine of gtx/io and glm::to_string of gtx/string_cast.
// argv: <trace-out> <tier> <behaviours.ndjson>
//
// Section 1 replays every behaviour emitted by TLC (spec/mc/MC_X21.tla: one JSON array of actions per line) on a fresh
// std::ostringstream (every 4th one on a std::wostringstream as well): real manipulators, real io::format_saver / io::state_saver
// objects living in real nested scopes (the replay recurses once per saver, so savers end in LIFO order as automatic objects do;
// savers still open when the behaviour ends are closed innermost first and logged as "exit" steps), real operator<< on real glm
// objects.  After every step one event: the action, the value words of an output, the projected state - std::has_facet /
// std::use_facet<io::format_punct> of the stream's locale (read without io::get_facet, which would install the facet) and the
// stream's flags / precision / width / fill - and the text the step appended to the stream.
// Section 2 does the same for behaviours drawn from the integer Rng (longer, wider parameter ranges, random bit patterns).
// Section 3 logs glm::to_string of vectors, matrices, quaternions and dual quaternions (stateless events).
// No expected values and no judging here: TLC (spec/trace/Trace_X21.tla) recomputes state and text from GlmX21.tla.
#define VH_NO_EXT_ALL
#include "common.hpp"
#include <glm/gtc/type_precision.hpp>
#include <glm/gtx/dual_quaternion.hpp>
#include <glm/gtx/io.hpp>
#include <glm/gtx/string_cast.hpp>
#include <nlohmann/json.hpp>
#include <cmath>
#include <fstream>
#include <iomanip>
#include <locale>
#include <sstream>
using namespace vh;
using nlohmann::json;
namespace io = glm::io;

static bool g_thorough = false;

// ------------------------------------------------------------------ logging helpers
static void put_key(std::string& s, const char* k) { s += ",\""; s += k; s += "\":"; }
static void put_str(std::string& s, const char* k, const std::string& v) { put_key(s, k); s.push_back('"'); s += v; s.push_back('"'); }
static void put_num(std::string& s, const char* k, long long v) { put_key(s, k); put_int(s, v); }
template<class Str> static void put_text(std::string& s, Str const& t, size_t from) {
    put_key(s, "text"); s.push_back('[');
    for (size_t i = from; i < t.size(); ++i) { if (i > from) s.push_back(','); put_int(s, (long long)(unsigned long)t[i]); }
    s.push_back(']');
}
struct FlagName { std::ios_base::fmtflags f; const char* n; };
static const FlagName kFlags[] = {      // alphabetical
    {std::ios_base::boolalpha, "boolalpha"}, {std::ios_base::dec, "dec"}, {std::ios_base::fixed, "fixed"}, {std::ios_base::hex, "hex"},
    {std::ios_base::internal, "internal"}, {std::ios_base::left, "left"}, {std::ios_base::oct, "oct"}, {std::ios_base::right, "right"},
    {std::ios_base::scientific, "scientific"}, {std::ios_base::showbase, "showbase"}, {std::ios_base::showpoint, "showpoint"},
    {std::ios_base::showpos, "showpos"}, {std::ios_base::skipws, "skipws"}, {std::ios_base::unitbuf, "unitbuf"}, {std::ios_base::uppercase, "uppercase"}};
static std::ios_base::fmtflags flag_by_name(const std::string& n) {
    for (auto const& f : kFlags) if (n == f.n) return f.f;
    std::fprintf(stderr, "x21: unknown flag %s\n", n.c_str()); std::exit(2);
}
// the projected state: a pure read-out (no expected values)
template<class CTy> static void put_state(std::string& s, std::basic_ostream<CTy>& os) {
    typedef io::format_punct<CTy> FP;
    std::locale loc = os.getloc();
    bool has = std::has_facet<FP>(loc);
    put_key(s, "st"); s += "{\"has\":"; s += has ? "true" : "false";
    if (has) {
        FP const& f = std::use_facet<FP>(loc);
        s += ",\"fmt\":{\"formatted\":"; s += f.formatted ? "true" : "false";
        put_num(s, "precision", (long long)f.precision); put_num(s, "width", (long long)f.width);
        put_num(s, "separator", (long long)(unsigned long)f.separator); put_num(s, "delim_left", (long long)(unsigned long)f.delim_left);
        put_num(s, "delim_right", (long long)(unsigned long)f.delim_right); put_num(s, "space", (long long)(unsigned long)f.space);
        put_num(s, "newline", (long long)(unsigned long)f.newline); put_num(s, "order", (long long)f.order);
        s.push_back('}');
    }
    s += ",\"os\":{\"flags\":[";
    std::ios_base::fmtflags fl = os.flags(), seen = std::ios_base::fmtflags(0);
    bool first = true;
    for (auto const& f : kFlags) { seen |= f.f; if (fl & f.f) { if (!first) s.push_back(','); first = false; s.push_back('"'); s += f.n; s.push_back('"'); } }
    if (fl & ~seen) { if (!first) s.push_back(','); s += "\"other\""; }
    s.push_back(']');
    put_num(s, "precision", (long long)os.precision()); put_num(s, "width", (long long)os.width()); put_num(s, "fill", (long long)(unsigned long)os.fill());
    s += "}}";
}

// ------------------------------------------------------------------ values of an output action
// "v": cells [n, k] = n / 2^k (exact), [0, 0, 1] = -0, [s, 0, 2] = s * infinity; integers: [n, 0].  "bits": raw patterns.
template<class T> static T cell_value(const json& act, size_t i) {
    if (act.contains("bits")) return from_bits<T>(act["bits"][i].get<uint64_t>());
    const json& c = act["v"][i];
    long long n = c[0].get<long long>();
    if constexpr (std::is_floating_point<T>::value) {
        int k = c[1].get<int>();
        int flag = c.size() > 2 ? c[2].get<int>() : 0;
        if (flag == 1) return from_bits<T>(uint64_t(1) << (sizeof(T) * 8 - 1));
        if (flag == 2) return n < 0 ? -std::numeric_limits<T>::infinity() : std::numeric_limits<T>::infinity();
        T m = T(n);
        return std::ldexp(m, -k);
    } else {
        return T(n);
    }
}

template<class CTy, class T, glm::qualifier Q> static void out_value(std::basic_ostream<CTy>& os, const json& act, std::string& ev) {
    const std::string kind = act["kind"].get<std::string>();
    const int C = act["C"].get<int>(), R = act["R"].get<int>();
    auto bad = [&]() { std::fprintf(stderr, "x21: bad shape %s %d %d\n", kind.c_str(), C, R); std::exit(2); };
    put_key(ev, "a"); ev.push_back('[');
    if (kind == "vec") {
        switch (C) {
#define X21_VEC(L) case L: { glm::vec<L, T, Q> v; for (int i = 0; i < L; ++i) { T x = cell_value<T>(act, size_t(i)); v[i] = x; } put_val(ev, v); ev.push_back(']'); os << v; break; }
            X21_VEC(1) X21_VEC(2) X21_VEC(3) X21_VEC(4)
#undef X21_VEC
            default: bad();
        }
    } else if (kind == "qua") {
        glm::qua<T, Q> q;
        T w = cell_value<T>(act, 0), x = cell_value<T>(act, 1), y = cell_value<T>(act, 2), z = cell_value<T>(act, 3);
        q.w = w; q.x = x; q.y = y; q.z = z;
        put_val(ev, q); ev.push_back(']');
        os << q;
    } else if (kind == "mat") {
#define X21_MAT(CC, RR) if (C == CC && R == RR) { glm::mat<CC, RR, T, Q> m; for (int c = 0; c < CC; ++c) for (int r = 0; r < RR; ++r) { T x = cell_value<T>(act, size_t(c * RR + r)); m[c][r] = x; } \
                                                  put_val(ev, m); ev.push_back(']'); os << m; } else
        X21_MAT(2, 2) X21_MAT(2, 3) X21_MAT(2, 4) X21_MAT(3, 2) X21_MAT(3, 3) X21_MAT(3, 4) X21_MAT(4, 2) X21_MAT(4, 3) X21_MAT(4, 4) bad();
#undef X21_MAT
    } else if (kind == "pair") {
        if (C != 4 || R != 4) bad();
        glm::mat<4, 4, T, Q> ml, mr;
        for (int c = 0; c < 4; ++c) for (int r = 0; r < 4; ++r) { T x = cell_value<T>(act, size_t(c * 4 + r)); ml[c][r] = x; T y = cell_value<T>(act, size_t(16 + c * 4 + r)); mr[c][r] = y; }
        put_val(ev, ml); ev.push_back(','); put_val(ev, mr); ev.push_back(']');
        std::pair<glm::mat<4, 4, T, Q> const, glm::mat<4, 4, T, Q> const> const p(ml, mr);
        os << p;
    } else bad();
}

template<class CTy> static void out_dispatch(std::basic_ostream<CTy>& os, const json& act, std::string& ev) {
    const std::string t = act["t"].get<std::string>();
    const bool low = act.contains("q") && act["q"].get<std::string>() == "lowp";
    if (low && act["kind"].get<std::string>() == "vec") {          // the qualifier is a template parameter of the inserters only: vectors suffice
        if (t == "f32") out_value<CTy, float, glm::lowp>(os, act, ev);
        else if (t == "i32") out_value<CTy, int, glm::lowp>(os, act, ev);
        else { std::fprintf(stderr, "x21: bad lowp type %s\n", t.c_str()); std::exit(2); }
        return;
    }
    if (t == "f32") out_value<CTy, float, glm::highp>(os, act, ev);
    else if (t == "f64") out_value<CTy, double, glm::highp>(os, act, ev);
    else if (t == "i32") out_value<CTy, int, glm::highp>(os, act, ev);
    else if (t == "u32") out_value<CTy, unsigned int, glm::highp>(os, act, ev);
    else { std::fprintf(stderr, "x21: bad type %s\n", t.c_str()); std::exit(2); }
}

// ------------------------------------------------------------------ replay
template<class CTy> struct Replay {
    std::basic_ostringstream<CTy> os;
    std::vector<json> const& steps;
    size_t consumed = 0;
    bool wide;
    explicit Replay(std::vector<json> const& st) : steps(st), wide(sizeof(CTy) > 1) {}

    void begin(std::string& ev, const json& act) {
        ev += "{\"op\":\""; ev += act["op"].get<std::string>(); ev += '"';
        for (auto it = act.begin(); it != act.end(); ++it) {
            if (it.key() == "op" || it.key() == "v" || it.key() == "bits") continue;
            put_key(ev, it.key().c_str()); ev += it.value().dump();
        }
        put_num(ev, "wide", wide ? 1 : 0);
    }
    void finish(std::string& ev) {
        put_state(ev, os);
        std::basic_string<CTy> all = os.str();
        put_text(ev, all, consumed);
        consumed = all.size();
        ev.push_back('}');
        out().buf += ev; out().line_done();
    }
    // one step that is not a saver
    void plain(const json& act) {
        std::string ev; begin(ev, act);
        const std::string op = act["op"].get<std::string>();
        if (op == "formatted") os << io::formatted<CTy, std::char_traits<CTy> >;
        else if (op == "unformatted") os << io::unformatted<CTy, std::char_traits<CTy> >;
        else if (op == "precision") { unsigned n = act["n"].get<unsigned>(); os << io::precision(n); }
        else if (op == "width") { unsigned n = act["n"].get<unsigned>(); os << io::width(n); }
        else if (op == "delimeter") { CTy l = CTy(act["l"].get<int>()), r = CTy(act["r"].get<int>()), s = CTy(act["s"].get<int>()); os << io::delimeter<CTy>(l, r, s); }
        else if (op == "order") { int o = act["o"].get<int>(); os << io::order(o ? io::row_major : io::column_major); }
        else if (op == "poke") {      // the two fields without a manipulator, written the way the manipulators write theirs
            io::format_punct<CTy>& f = const_cast<io::format_punct<CTy>&>(io::get_facet<io::format_punct<CTy> >(os));
            f.space = CTy(act["space"].get<int>()); f.newline = CTy(act["newline"].get<int>());
        }
        else if (op == "showpos") os << std::showpos;
        else if (op == "noshowpos") os << std::noshowpos;
        else if (op == "fixed") os << std::fixed;
        else if (op == "scientific") os << std::scientific;
        else if (op == "defaultfloat") os << std::defaultfloat;
        else if (op == "left") os << std::left;
        else if (op == "right") os << std::right;
        else if (op == "internal") os << std::internal;
        else if (op == "setw") { int n = act["n"].get<int>(); os << std::setw(n); }
        else if (op == "setprecision") { int n = act["n"].get<int>(); os << std::setprecision(n); }
        else if (op == "setfill") { CTy c = CTy(act["c"].get<int>()); os << std::setfill(c); }
        else if (op == "flag") { std::ios_base::fmtflags f = flag_by_name(act["name"].get<std::string>()); if (act["on"].get<bool>()) os.setf(f); else os.unsetf(f); }
        else if (op == "base") { os.setf(flag_by_name(act["name"].get<std::string>()), std::ios_base::basefield); }
        else if (op == "out") out_dispatch<CTy>(os, act, ev);
        else if (op == "exit") { /* an exit without a live saver: nothing to execute, the trace specification rejects it */ }
        else { std::fprintf(stderr, "x21: unknown op %s\n", op.c_str()); std::exit(2); }
        finish(ev);
    }
    void log_exit() { std::string ev; json a = {{"op", "exit"}}; begin(ev, a); finish(ev); }
    // executes steps[i..] until the "exit" that belongs to the enclosing saver (returns its index) or the end (returns steps.size())
    size_t run(size_t i, int depth) {
        while (i < steps.size()) {
            const json& act = steps[i];
            const std::string op = act["op"].get<std::string>();
            if (op == "exit" && depth > 0) return i;
            if (op == "enterF") {
                size_t j;
                {
                    io::basic_format_saver<CTy> const saver(os);
                    std::string ev; begin(ev, act); finish(ev);
                    j = run(i + 1, depth + 1);
                }                                                       // ~basic_format_saver
                log_exit();
                i = j < steps.size() ? j + 1 : j;
            } else if (op == "enterS") {
                size_t j;
                {
                    io::basic_state_saver<CTy> const saver(os);
                    std::string ev; begin(ev, act); finish(ev);
                    j = run(i + 1, depth + 1);
                }                                                       // ~basic_state_saver
                log_exit();
                i = j < steps.size() ? j + 1 : j;
            } else { plain(act); ++i; }
        }
        return i;
    }
};
template<class CTy> static void replay(std::vector<json> const& steps) {
    marker("Reset");
    Replay<CTy> r(steps);
    r.run(0, 0);
}

// ------------------------------------------------------------------ section 2: behaviours from the integer Rng
static json rnd_cell(Rng& g, const std::string& t, json& bits, bool& use_bits) {
    // returns a [n, k(, flag)] cell, or pushes a raw pattern when use_bits
    if (t == "i32") { uint64_t c = g.below(8); long long n = c == 0 ? (long long)(int32_t)g.next() : c == 1 ? 0 : (long long)g.below(200001) - 100000; return json::array({n, 0}); }
    if (t == "u32") { uint64_t c = g.below(8); long long n = c == 0 ? (long long)(uint32_t)g.next() : c == 1 ? 0 : (long long)g.below(100001); return json::array({n, 0}); }
    uint64_t c = g.below(20);
    if (c == 0) return json::array({0, 0, 1});
    if (c == 1) return json::array({g.below(2) ? 1 : -1, 0, 2});
    long long n = (long long)g.below(1u << 21) - (1 << 20);
    if (c < 6) n = (long long)g.below(41) - 20;                       // small integers and halves: ties
    int k = c < 6 ? int(g.below(4)) : int(g.below(25)) - 6;
    return json::array({n, k});
}
static json rnd_out(Rng& g) {
    static const char* types[] = {"f32", "f64", "i32", "u32"};
    json a; a["op"] = "out";
    uint64_t ks = g.below(10);
    std::string kind = ks < 4 ? "vec" : ks < 5 ? "qua" : ks < 9 ? "mat" : "pair";
    std::string t = types[g.below(kind == "pair" ? 2 : 4)];
    int C = 4, R = 1;
    if (kind == "vec") C = 1 + int(g.below(4));
    if (kind == "mat") { C = 2 + int(g.below(3)); R = 2 + int(g.below(3)); }
    if (kind == "pair") R = 4;
    a["kind"] = kind; a["C"] = C; a["R"] = R; a["t"] = t;
    size_t n = kind == "qua" ? 4 : kind == "pair" ? 32 : size_t(C * R);
    bool fl = t == "f32" || t == "f64";
    if (fl && g.below(3) == 0) {                                       // raw bit patterns: exponents around 1, sometimes anything
        json bits = json::array();
        bool any = g.below(4) == 0;
        for (size_t i = 0; i < n; ++i) {
            uint64_t r = g.next();
            if (t == "f32") { uint32_t b = uint32_t(r); if (!any) b = (b & 0x807fffffu) | (uint32_t(127 - 30 + g.below(61)) << 23); bits.push_back(uint64_t(b)); }
            else { if (!any) r = (r & 0x800fffffffffffffull) | (uint64_t(1023 - 40 + g.below(81)) << 52); bits.push_back(r); }
        }
        a["bits"] = bits;
    } else {
        json v = json::array(); json dummy; bool ub = false;
        for (size_t i = 0; i < n; ++i) v.push_back(rnd_cell(g, t, dummy, ub));
        a["v"] = v;
    }
    if (kind == "vec" && (t == "f32" || t == "i32") && g.below(4) == 0) a["q"] = "lowp";
    return a;
}
static std::vector<json> rnd_behaviour(Rng& g) {
    static const int chars[] = {'[', ']', ',', '<', '>', ';', '(', ')', ' ', '{', '}', '|', '/', ':', '_', '*', '#', '0', 'x', '-'};
    static const char* plain_flags[] = {"boolalpha", "showbase", "showpoint", "showpos", "skipws", "unitbuf", "uppercase"};
    static const char* base_flags[] = {"dec", "hex", "oct", "dec", "dec"};
    auto ch = [&]() { return chars[g.below(sizeof(chars) / sizeof(chars[0]))]; };
    std::vector<json> st;
    int depth = 0;
    size_t len = 8 + size_t(g.below(13));
    for (size_t i = 0; i < len; ++i) {
        uint64_t c = g.below(100);
        json a;
        if (c < 30) {
            switch (g.below(8)) {
                case 0: a = {{"op", "formatted"}}; break;
                case 1: a = {{"op", "unformatted"}}; break;
                case 2: case 3: a = {{"op", "precision"}, {"n", g.below(8) == 0 ? 17 : (int)g.below(13)}}; break;
                case 4: a = {{"op", "width"}, {"n", (int)g.below(17)}}; break;
                case 5: a = {{"op", "delimeter"}, {"l", ch()}, {"r", ch()}, {"s", ch()}}; break;
                case 6: a = {{"op", "order"}, {"o", (int)g.below(2)}}; break;
                default: a = {{"op", "poke"}, {"space", ch()}, {"newline", g.below(2) ? 10 : ch()}}; break;
            }
        } else if (c < 50) {
            switch (g.below(14)) {
                case 0: a = {{"op", "showpos"}}; break;
                case 1: a = {{"op", "noshowpos"}}; break;
                case 2: a = {{"op", "fixed"}}; break;
                case 3: a = {{"op", "scientific"}}; break;
                case 4: a = {{"op", "defaultfloat"}}; break;
                case 5: a = {{"op", "left"}}; break;
                case 6: a = {{"op", "right"}}; break;
                case 7: a = {{"op", "internal"}}; break;
                case 8: case 9: a = {{"op", "setw"}, {"n", (int)g.below(21)}}; break;
                case 10: a = {{"op", "setprecision"}, {"n", (int)g.below(13)}}; break;
                case 11: a = {{"op", "setfill"}, {"c", ch()}}; break;
                case 12: a = {{"op", "flag"}, {"name", plain_flags[g.below(7)]}, {"on", g.below(3) != 0}}; break;
                default: a = {{"op", "base"}, {"name", base_flags[g.below(5)]}}; break;
            }
        } else if (c < 68) {
            if (depth > 0 && (depth == 3 || g.below(2))) { a = {{"op", "exit"}}; --depth; }
            else if (depth < 3) { a = {{"op", g.below(3) ? "enterF" : "enterS"}}; ++depth; }
            else a = {{"op", "formatted"}};
        } else a = rnd_out(g);
        st.push_back(a);
    }
    return st;
}

// ------------------------------------------------------------------ section 3: glm::to_string
static uint64_t g_ts = 0;
template<class V> static void ts_event(const char* kind, int C, int R, const char* t, V const& v) {
    if (g_ts++ % 100 == 0) marker("Reset");
    std::string text = glm::to_string(v);
    std::string ev = "{\"op\":\"to_string\"";
    put_str(ev, "kind", kind); put_num(ev, "C", C); put_num(ev, "R", R); put_str(ev, "t", t);
    put_key(ev, "a"); ev.push_back('['); put_val(ev, v); ev.push_back(']');
    put_text(ev, text, 0); ev.push_back('}');
    out().buf += ev; out().line_done();
}
template<class T> static void ts_dualquat(glm::tdualquat<T, glm::highp> const& d) {
    if (g_ts++ % 100 == 0) marker("Reset");
    std::string text = glm::to_string(d);
    std::string ev = "{\"op\":\"to_string\"";
    put_str(ev, "kind", "dualquat"); put_num(ev, "C", 4); put_num(ev, "R", 2); put_str(ev, "t", TI<T>::code());
    put_key(ev, "a"); ev.push_back('['); put_val(ev, d.real); ev.push_back(','); put_val(ev, d.dual); ev.push_back(']');
    put_text(ev, text, 0); ev.push_back('}');
    out().buf += ev; out().line_done();
}
// values of type T: the lattice of common.hpp plus "printable" ones (small dyadics, decimal ties) for floats
template<class T> static std::vector<T> ts_values(Rng& g, size_t extra) {
    std::vector<T> v;
    for (uint64_t b : lattice<T>()) v.push_back(from_bits<T>(b));
    if constexpr (std::is_floating_point<T>::value) {
        for (int n = -40; n <= 40; ++n) for (int k = 0; k <= 7; k += (n % 3 == 0 ? 1 : 3)) { T m = T(n); v.push_back(std::ldexp(m, -k)); }
        for (size_t i = 0; i < extra; ++i) { long long n = (long long)g.below(1u << 24) - (1 << 23); int k = int(g.below(40)) - 8; T m = T(n); v.push_back(std::ldexp(m, -k)); }
    } else if constexpr (!std::is_same<T, bool>::value) {
        for (size_t i = 0; i < extra; ++i) v.push_back(from_bits<T>(g.next()));
    }
    return v;
}
template<class T> static void ts_vecs(Rng& g, size_t count) {
    std::vector<T> vals = ts_values<T>(g, 64);
    const char* t = TI<T>::code();
    auto pick = [&]() { return vals[g.below(vals.size())]; };
    // every lattice value once in a vec1, then random combinations
    for (T x : vals) { glm::vec<1, T> v; v[0] = x; ts_event("vec", 1, 1, t, v); }
    for (size_t i = 0; i < count; ++i) {
        T a = pick(), b = pick(), c = pick(), d = pick();
        switch (i % 3) {
            case 0: { glm::vec<2, T> v; v[0] = a; v[1] = b; ts_event("vec", 2, 1, t, v); break; }
            case 1: { glm::vec<3, T> v; v[0] = a; v[1] = b; v[2] = c; ts_event("vec", 3, 1, t, v); break; }
            default: { glm::vec<4, T> v; v[0] = a; v[1] = b; v[2] = c; v[3] = d; ts_event("vec", 4, 1, t, v); break; }
        }
    }
}
static void ts_bools() {
    for (int L = 1; L <= 4; ++L) for (int m = 0; m < (1 << L); ++m) {
        bool b[4]; for (int i = 0; i < 4; ++i) b[i] = (m >> i) & 1;
        switch (L) {
            case 1: { glm::vec<1, bool> v; v[0] = b[0]; ts_event("vec", 1, 1, "b", v); break; }
            case 2: { glm::vec<2, bool> v; v[0] = b[0]; v[1] = b[1]; ts_event("vec", 2, 1, "b", v); break; }
            case 3: { glm::vec<3, bool> v; v[0] = b[0]; v[1] = b[1]; v[2] = b[2]; ts_event("vec", 3, 1, "b", v); break; }
            default: { glm::vec<4, bool> v; v[0] = b[0]; v[1] = b[1]; v[2] = b[2]; v[3] = b[3]; ts_event("vec", 4, 1, "b", v); break; }
        }
    }
}
template<int C, int R, class T> static void ts_mat(Rng& g, std::vector<T> const& vals) {
    glm::mat<C, R, T> m;
    for (int c = 0; c < C; ++c) for (int r = 0; r < R; ++r) { T x = vals[g.below(vals.size())]; m[c][r] = x; }
    ts_event("mat", C, R, TI<T>::code(), m);
}
template<class T> static void ts_mats(Rng& g, size_t rounds) {
    std::vector<T> vals = ts_values<T>(g, 64);
    for (size_t i = 0; i < rounds; ++i) {
        ts_mat<2, 2, T>(g, vals); ts_mat<2, 3, T>(g, vals); ts_mat<2, 4, T>(g, vals); ts_mat<3, 2, T>(g, vals); ts_mat<3, 3, T>(g, vals);
        ts_mat<3, 4, T>(g, vals); ts_mat<4, 2, T>(g, vals); ts_mat<4, 3, T>(g, vals); ts_mat<4, 4, T>(g, vals);
    }
}
template<class T> static void ts_quats(Rng& g, size_t count) {
    std::vector<T> vals = ts_values<T>(g, 64);
    auto pick = [&]() { return vals[g.below(vals.size())]; };
    for (size_t i = 0; i < count; ++i) {
        T w = pick(), x = pick(), y = pick(), z = pick();
        glm::qua<T, glm::highp> q; q.w = w; q.x = x; q.y = y; q.z = z;
        ts_event("qua", 4, 1, TI<T>::code(), q);
        T w2 = pick(), x2 = pick(), y2 = pick(), z2 = pick();
        glm::qua<T, glm::highp> p; p.w = w2; p.x = x2; p.y = y2; p.z = z2;
        glm::tdualquat<T, glm::highp> d; d.real = q; d.dual = p;
        ts_dualquat<T>(d);
    }
}

// ------------------------------------------------------------------ main
static void body(int argc, char** argv) {
    g_thorough = argc > 2 && std::string(argv[2]) == "thorough";
    Rng g(seed_from_env());
    // section 1: the behaviours emitted by TLC
    size_t nb = 0;
    if (argc > 3) {
        std::ifstream in(argv[3]);
        if (!in) { std::perror(argv[3]); std::exit(2); }
        std::string line;
        while (std::getline(in, line)) {
            if (line.empty()) continue;
            json arr = json::parse(line);
            std::vector<json> steps(arr.begin(), arr.end());
            replay<char>(steps);
            if (nb % 4 == 0) replay<wchar_t>(steps);
            ++nb;
        }
    }
    // section 2: behaviours from the Rng
    size_t nr = g_thorough ? 2500 : 250;
    for (size_t i = 0; i < nr; ++i) {
        std::vector<json> steps = rnd_behaviour(g);
        if (i % 5 == 4) replay<wchar_t>(steps); else replay<char>(steps);
    }
    // section 3: to_string
    size_t k = g_thorough ? 10 : 1;
    ts_vecs<float>(g, 150 * k); ts_vecs<double>(g, 150 * k);
    ts_vecs<int>(g, 60 * k); ts_vecs<unsigned int>(g, 60 * k);
    ts_vecs<glm::int8>(g, 30 * k); ts_vecs<glm::uint8>(g, 30 * k); ts_vecs<glm::int16>(g, 30 * k); ts_vecs<glm::uint16>(g, 30 * k);
    ts_vecs<glm::int64>(g, 40 * k); ts_vecs<glm::uint64>(g, 40 * k);
    ts_bools();
    ts_mats<float>(g, 8 * k); ts_mats<double>(g, 8 * k); ts_mats<int>(g, 2 * k); ts_mats<unsigned int>(g, 2 * k);
    ts_quats<float>(g, 40 * k); ts_quats<double>(g, 40 * k);
    marker("Reset");
    std::fprintf(stdout, "X21 behaviours=%zu random=%zu to_string=%llu\n", nb, nr, (unsigned long long)g_ts);
}
int main(int argc, char** argv) { return run_main(argc, argv, body); }
