// C13 harness: quaternion interpolation (slerp / mix / lerp / slerp with spin count, gtx shortMix / fastMix / squad / intermediate,
// dual quaternion lerp / normalize, gtx/compatibility lerp).
// argv: <trace-out> <walks-file> <tier>
// The walks file is emitted by TLC (MC_C13): one walk per line, 12 integers
//     x0 x1 x2 x3 xn   a1 a2 a3 ad   p q   m
// x = (x0..x3)/xn a rational unit quaternion, a = (a1..a3)/ad a rational unit axis, tan(psi/2) = p/q the step angle, m steps
// from x to y.  The harness only ENCODES the inputs (points of the walk rounded to T, computed in long double) and logs what
// GLM returns; every expected value is recomputed exactly from the integers by Trace_C13.
#include "common.hpp"
#include <glm/gtx/quaternion.hpp>
#include <glm/gtx/dual_quaternion.hpp>
#include <glm/gtx/compatibility.hpp>
#include <fstream>
#include <sstream>
using namespace vh;
typedef long double LD;

struct Walk {
    long long v[12];
    int m() const { return int(v[11]); }
};
static bool g_thorough = false;

static Ev& put_walk(Ev& e, Walk const& w, int j) {
    e.close_args();
    e.s += ",\"w\":[";
    for (int i = 0; i < 12; ++i) { if (i) e.s.push_back(','); put_int(e.s, w.v[i]); }
    e.s += "]";
    e.num("j", j);
    return e;
}

// the points of the walk in long double: cur_j = cos(j psi) x + sin(j psi) n
struct Plane {
    LD x[4], n[4], c1, s1;
    explicit Plane(Walk const& w) {
        LD xn = LD(w.v[4]), ad = LD(w.v[8]);
        LD a[3];
        for (int i = 0; i < 4; ++i) x[i] = LD(w.v[i]) / xn;
        for (int i = 0; i < 3; ++i) a[i] = LD(w.v[5 + i]) / ad;
        long long X0 = w.v[0], X1 = w.v[1], X2 = w.v[2], X3 = w.v[3], A1 = w.v[5], A2 = w.v[6], A3 = w.v[7];
        long long nv[4] = { -(A1 * X1 + A2 * X2 + A3 * X3), X0 * A1 + (A2 * X3 - A3 * X2), X0 * A2 + (A3 * X1 - A1 * X3), X0 * A3 + (A1 * X2 - A2 * X1) };
        for (int i = 0; i < 4; ++i) n[i] = LD(nv[i]) / (ad * xn);
        __int128 p = w.v[9], q = w.v[10];
        __int128 h = q * q + p * p, cn = (q - p) * (q + p), sn = 2 * p * q;
        c1 = LD((long long)cn) / LD((long long)h);
        s1 = LD((long long)sn) / LD((long long)h);
    }
    void cs(int j, LD& c, LD& s) const {            // (c1 + i s1)^j
        LD rc = 1, rs = 0, bc = c1, bs = j < 0 ? -s1 : s1;
        int n_ = j < 0 ? -j : j;
        while (n_) {
            if (n_ & 1) { LD t = rc * bc - rs * bs; rs = rc * bs + rs * bc; rc = t; }
            LD t = bc * bc - bs * bs; bs = 2 * bc * bs; bc = t;
            n_ >>= 1;
        }
        c = rc; s = rs;
    }
    template<class T, glm::qualifier Q = glm::defaultp> glm::qua<T, Q> pt(int j) const {
        LD c, s; cs(j, c, s);
        T v[4];
        for (int i = 0; i < 4; ++i) v[i] = T(c * x[i] + s * n[i]);
        return glm::qua<T, Q>::wxyz(v[0], v[1], v[2], v[3]);
    }
};

#define EVW(OP, T) put_walk(Ev(OP).str("t", TI<T>::code()), w, j)

// a list of quaternions under one key
template<class T, glm::qualifier Q> Ev& put_list(Ev& e, const char* key, std::vector<glm::qua<T, Q>> const& v) {
    e.close_args();
    e.s += ",\""; e.s += key; e.s += "\":[";
    for (size_t i = 0; i < v.size(); ++i) { if (i) e.s.push_back(','); put_val(e.s, v[i]); }
    e.s += "]";
    return e;
}

static Ev& put_ints(Ev& e, const char* key, std::vector<int> const& v) {
    e.close_args();
    e.s += ",\""; e.s += key; e.s += "\":[";
    for (size_t i = 0; i < v.size(); ++i) { if (i) e.s.push_back(','); put_int(e.s, v[i]); }
    e.s += "]";
    return e;
}

template<class T, class S> glm::qua<T> spin(glm::qua<T> const& x, glm::qua<T> const& yy, T t, int k) {
    S ks = S(k);
    return glm::slerp(x, yy, t, ks);
}

// One event per (walk, j, T): every interpolation function evaluated at t = j/m on (x, y) and (x, -y).  The expected point is the
// same for most of them, so the trace specification computes it once.
template<class T> void walk_events(Walk const& w) {
    typedef glm::qua<T> Qt;
    typedef std::vector<Qt> QL;
    Plane pl(w);
    int m = w.m();
    Qt x = pl.pt<T>(0), y = pl.pt<T>(m), yn = -y;
    {   // the encoding of the walk itself: every point the events below use, checked against the integers by the trace specification
        int j = -2 * m - 5;
        Ev e("points"); e.str("t", TI<T>::code()); put_walk(e, w, j);
        for (; j <= 3 * m + 5; ++j) e.arg(pl.pt<T>(j));
        e.emit();
        if (w.v[9] > 0 && w.v[9] < (1 << 20) && 4 * m * m * w.v[9] <= 3 * w.v[10]) {     // the control points of squad
            for (int jj : { m * m, m * m + m }) { j = jj; Ev e2("points"); e2.str("t", TI<T>::code()); put_walk(e2, w, j); e2.arg(pl.pt<T>(j)); e2.emit(); }
        }
    }
    for (int j = -2 * m; j <= 3 * m; ++j) {
        T t = T(j) / T(m);
        T tr = T(m - j) / T(m);
        Qt ys[2] = { y, yn };
        QL slerp_, rev_, mix_, short_, fast_, lerp_, spin_, spinn_, qm_, ql_, squad_, inter_;
        std::vector<int> ks, ksn;
        bool inside = j >= 0 && j <= m;
        for (int ng = 0; ng < 2; ++ng) {
            Qt yy = ys[ng];
            slerp_.push_back(glm::slerp(x, yy, t));
            rev_.push_back(glm::slerp(yy, x, tr));
            mix_.push_back(glm::mix(x, yy, t));
            short_.push_back(glm::shortMix(x, yy, t));
            if (g_thorough || inside) fast_.push_back(glm::fastMix(x, yy, t));
            if (inside) lerp_.push_back(glm::lerp(x, yy, t));
        }
        // spin counts -3..3 through every integer type class of S; the negated pair with k = -2 and k = 1
        // (quick tier: half of them at even j, the other half at odd j)
        bool even = (j & 1) == 0;
        if (g_thorough || even)  { spin_.push_back(spin<T, int>(x, y, t, -3)); ks.push_back(-3); }
        if (g_thorough || !even) { spin_.push_back(spin<T, long long>(x, y, t, -2)); ks.push_back(-2); }
        if (g_thorough || even)  { spin_.push_back(spin<T, short>(x, y, t, -1)); ks.push_back(-1); }
        spin_.push_back(spin<T, int>(x, y, t, 0)); ks.push_back(0);
        if (g_thorough || !even) { spin_.push_back(spin<T, unsigned>(x, y, t, 1)); ks.push_back(1); }
        if (g_thorough || even)  { spin_.push_back(spin<T, signed char>(x, y, t, 2)); ks.push_back(2); }
        if (g_thorough || !even) { spin_.push_back(spin<T, unsigned long long>(x, y, t, 3)); ks.push_back(3); }
        if (g_thorough || even)  { spinn_.push_back(spin<T, int>(x, yn, t, -2)); ksn.push_back(-2); }
        if (g_thorough || !even) { spinn_.push_back(spin<T, long>(x, yn, t, 1)); ksn.push_back(1); }
        if (inside) {   // the other precision qualifiers
            glm::qua<T, glm::mediump> xm = pl.pt<T, glm::mediump>(0), ym = pl.pt<T, glm::mediump>(m);
            glm::qua<T, glm::lowp> xl = pl.pt<T, glm::lowp>(0), yl = pl.pt<T, glm::lowp>(m);
            glm::qua<T, glm::mediump> sm = glm::slerp(xm, ym, t), mm = glm::mix(xm, ym, t);
            glm::qua<T, glm::lowp> sl = glm::slerp(xl, yl, t), ml = glm::mix(xl, yl, t);
            qm_.push_back(Qt::wxyz(sm.w, sm.x, sm.y, sm.z)); qm_.push_back(Qt::wxyz(mm.w, mm.x, mm.y, mm.z));
            ql_.push_back(Qt::wxyz(sl.w, sl.x, sl.y, sl.z)); ql_.push_back(Qt::wxyz(ml.w, ml.x, ml.y, ml.z));
        }
        // squad along the walk: q1 = cur_0, q2 = cur_m, s1 = cur_sa, s2 = cur_(sa+m) with sa = m^2, h = j/m in [0,1]; then
        // squad = mix(cur_j, cur_(j+sa), 2h(1-h)) = cur_(j + 2j(m-j)).  Only for walks whose angles all stay acute (m^2 psi < pi/2).
        int sa = m * m;
        bool squad_dom = w.v[9] > 0 && w.v[9] < (1 << 20) && 4 * sa * w.v[9] <= 3 * w.v[10];
        if (inside && squad_dom) squad_.push_back(glm::squad(x, y, pl.pt<T>(sa), pl.pt<T>(sa + m), t));
        // intermediate(prev, curr, next) with prev = cur_(j-pa), next = cur_(j+pb), (pa, pb) = (1,1) (1,5) (5,1) (2,2)
        if (j == 0 || j == m || j == -2 * m || (g_thorough && j == 2 * m)) {
            static const int pab[4][2] = { {1, 1}, {1, 5}, {5, 1}, {2, 2} };
            for (auto const& ab : pab) inter_.push_back(glm::intermediate(pl.pt<T>(j - ab[0]), pl.pt<T>(j), pl.pt<T>(j + ab[1])));
        }
        Ev e("walk"); e.str("t", TI<T>::code()); put_walk(e, w, j);
        e.arg(x).arg(y).arg(yn).arg(t).arg(tr);
        put_list(e, "slerp", slerp_); put_list(e, "rev", rev_); put_list(e, "mix", mix_); put_list(e, "short", short_);
        put_list(e, "fast", fast_); put_list(e, "lerp", lerp_); put_list(e, "spin", spin_); put_list(e, "spinn", spinn_);
        put_list(e, "qm", qm_); put_list(e, "ql", ql_); put_list(e, "squad", squad_); put_list(e, "inter", inter_);
        put_ints(e, "ks", ks); put_ints(e, "ksn", ksn);
        e.emit();

        // dual quaternions: rotation parts from the walk, translations small integers
        if (j >= 0 && j <= m) {
            typedef glm::tdualquat<T, glm::defaultp> Dq;
            glm::vec<3, T> p1(T(1), T(-2), T(3)), p2(T(-4), T(5), T(w.v[0]));
            for (int ng = 0; ng < 2; ++ng) {
                Dq a(x, p1), b(ys[ng], p2);
                Dq r = glm::lerp(a, b, t);
                EVW("dqlerp", T).num("ng", ng).arg(a.real).arg(a.dual).arg(b.real).arg(b.dual).arg(t).res(r.real).val("rd", r.dual).emit();
            }
            Dq c(y * T(j + 2), Qt::wxyz(T(1), T(-2), T(0.5), T(j)));
            Dq r = glm::normalize(c);
            EVW("dqnorm", T).arg(c.real).arg(c.dual).res(r.real).val("rd", r.dual).emit();
        }
    }
}

// ------------------------------------------------------------------ functions of arbitrary inputs (no walk): lerp family
template<class T> std::vector<T> small_values() {
    std::vector<T> v = { T(0), T(1), T(-1), T(0.5), T(-0.75), T(3), T(1e-3), T(-7.25), T(1) / T(3), T(1e6), std::numeric_limits<T>::epsilon(), -std::numeric_limits<T>::min() };
    return v;
}
template<class T> std::vector<T> unit_ts() {
    T e = std::numeric_limits<T>::epsilon();
    std::vector<T> v = { T(0), T(1), T(0.5), T(0.25), T(1) / T(3), T(0.1), T(0.9), e, T(1) - e / 2, std::numeric_limits<T>::min(), T(0.75) };
    return v;
}
template<class T> void lerp_events(Rng& rng, int rounds) {
    std::vector<T> sv = small_values<T>(), ts = unit_ts<T>();
    auto pick = [&]() { return sv[rng.below(sv.size())]; };
    for (int it = 0; it < rounds; ++it) {
        // quaternion lerp on non-unit inputs, t in [0,1] (the function asserts the range)
        T in[24]; for (int i = 0; i < 24; ++i) in[i] = pick();          // read in a fixed order (argument evaluation order is unspecified)
        glm::qua<T> x = glm::qua<T>::wxyz(in[0], in[1], in[2], in[3]), y = glm::qua<T>::wxyz(in[4], in[5], in[6], in[7]);
        T t = ts[it % ts.size()];
        { glm::qua<T> r = glm::lerp(x, y, t); Ev("lerpF").str("t", TI<T>::code()).arg(x).arg(y).arg(t).res(r).emit(); }
        { glm::qua<T> r = glm::fastMix(x, y, t); Ev("fastMixF").str("t", TI<T>::code()).arg(x).arg(y).arg(t).res(r).emit(); }
        // gtx/compatibility lerp: scalar, vec2..4 with scalar and with vector factor; the factor is not restricted to [0,1]
        T a = (it % 3 == 0) ? t : in[8];
        { T xs = in[9], ys = in[10]; T r = glm::lerp(xs, ys, a); Ev("clerp").str("t", TI<T>::code()).num("n", 0).arg(xs).arg(ys).arg(a).res(r).emit(); }
        { glm::vec<2, T> xv(in[11], in[12]), yv(in[13], in[14]); auto r = glm::lerp(xv, yv, a); Ev("clerp").str("t", TI<T>::code()).num("n", 2).arg(xv).arg(yv).arg(a).res(r).emit();
          glm::vec<2, T> av(a, in[15]); auto r2 = glm::lerp(xv, yv, av); Ev("clerp").str("t", TI<T>::code()).num("n", 2).arg(xv).arg(yv).arg(av).res(r2).emit(); }
        { glm::vec<3, T> xv(in[12], in[13], in[14]), yv(in[15], in[16], in[17]); auto r = glm::lerp(xv, yv, a); Ev("clerp").str("t", TI<T>::code()).num("n", 3).arg(xv).arg(yv).arg(a).res(r).emit();
          glm::vec<3, T> av(a, in[18], t); auto r2 = glm::lerp(xv, yv, av); Ev("clerp").str("t", TI<T>::code()).num("n", 3).arg(xv).arg(yv).arg(av).res(r2).emit(); }
        { glm::vec<4, T> xv(in[16], in[17], in[18], in[19]), yv(in[20], in[21], in[22], in[23]); auto r = glm::lerp(xv, yv, a); Ev("clerp").str("t", TI<T>::code()).num("n", 4).arg(xv).arg(yv).arg(a).res(r).emit();
          glm::vec<4, T> av(a, in[9], t, in[10]); auto r2 = glm::lerp(xv, yv, av); Ev("clerp").str("t", TI<T>::code()).num("n", 4).arg(xv).arg(yv).arg(av).res(r2).emit(); }
    }
}

static void body(int argc, char** argv) {
    if (argc < 4) { std::fprintf(stderr, "usage: c13 <trace> <walks> <tier>\n"); std::exit(2); }
    g_thorough = std::string(argv[3]) == "thorough";
    std::ifstream in(argv[2]);
    if (!in) { std::perror(argv[2]); std::exit(2); }
    std::vector<Walk> walks;
    std::string line;
    while (std::getline(in, line)) {
        std::istringstream ss(line);
        Walk w; int n = 0;
        while (n < 12 && (ss >> w.v[n])) ++n;
        if (n == 12) walks.push_back(w);
    }
    if (walks.empty()) { std::fprintf(stderr, "no walks in %s\n", argv[2]); std::exit(2); }
    for (auto const& w : walks) { walk_events<float>(w); walk_events<double>(w); }
    Rng rng(seed_from_env());
    lerp_events<float>(rng, g_thorough ? 2000 : 150);
    lerp_events<double>(rng, g_thorough ? 2000 : 150);
}

int main(int argc, char** argv) { return run_main(argc, argv, body); }
