// X10 harness: gtx/pca.hpp - computeCovarianceMatrix (4 overloads), findEigenvaluesSymReal (2x2, 3x3, 4x4), sortEigenvalues (2, 3, 4).
//   usage: x10 <trace-out> <tier> <section> [<cases-file>]
//   sections: mc   - the cases emitted by the TLC run of MC_X10 (text lines, see below)
//             gen  - generated inputs: random symmetric matrices (small integers, dyadics, nearly degenerate, graded), random point
//                    clouds, the documented pipeline covariance -> eigenpairs -> sort, special and out-of-domain inputs
//   cases file:  E n e_1 .. e_{n*n} s_1 .. s_n     symmetric integer matrix (column-major) and its integer spectrum
//                C d k p_11 .. p_kd c_1 .. c_d     k integer points of dimension d and an integer centre
//                S n v_1 .. v_n                    values to sort
// No expected values and no judging here: every call is logged with the raw bit patterns of its arguments and results; TLC judges
// (spec/trace/Trace_X10.tla).  The "sp1.." / "sc" fields of an eig event are an input encoding (the claim "the spectrum of the
// argument is sp_i * 2^sc", copied from the cases file); the trace specification verifies the claim exactly before using it.
// All inputs are integers / dyadics num * 2^j built with the integer-only Rng and bound to locals before any call.
#define VH_NO_EXT_ALL
#include "common.hpp"
#include <glm/gtx/pca.hpp>
#include <cmath>
#include <fstream>
#include <sstream>
#include <list>
#include <vector>
using namespace vh;

static bool g_thorough = false;
template<glm::qualifier Q> struct QN { static const char* s() { return "d"; } };
template<> struct QN<glm::packed_highp> { static const char* s() { return "h"; } };
template<> struct QN<glm::packed_mediump> { static const char* s() { return "m"; } };
template<> struct QN<glm::packed_lowp> { static const char* s() { return "l"; } };
static const glm::qualifier QD = glm::defaultp, QM = glm::mediump, QL = glm::lowp;

template<class T> struct Lift;                       // the power of two that lifts small integers out of reach of the hard-coded epsilon
template<> struct Lift<float> { static const int k = 40; };
template<> struct Lift<double> { static const int k = 90; };

// ---------------------------------------------------------------- sortEigenvalues
template<int N, class T, glm::qualifier Q>
static void sort_ev(const char* src, glm::vec<N, T, Q> const& vals, glm::mat<N, N, T, Q> const& vecs) {
    glm::vec<N, T, Q> ov = vals; glm::mat<N, N, T, Q> om = vecs;
    glm::sortEigenvalues(ov, om);
    Ev("sort").str("t", TI<T>::code()).num("n", N).str("q", QN<Q>::s()).str("src", src).arg(vals).arg(vecs).val("ov", ov).val("om", om).emit();
}

// ---------------------------------------------------------------- findEigenvaluesSymReal
static const char* const SPK[4] = { "sp1", "sp2", "sp3", "sp4" };
template<int N, class T, glm::qualifier Q>
static void eig_ev(const char* src, glm::mat<N, N, T, Q> const& M, int sc, const long long* sp, bool then_sort) {
    glm::vec<N, T, Q> ev(T(0)); glm::mat<N, N, T, Q> V(T(0));
    unsigned cnt = glm::findEigenvaluesSymReal(M, ev, V);
    Ev e("eig");
    e.str("t", TI<T>::code()).num("n", N).str("q", QN<Q>::s()).str("src", src).num("sc", sc);
    if (sp) for (int i = 0; i < N; ++i) e.num(SPK[i], sp[i]);
    e.arg(M).num("cnt", (long long)cnt).val("vals", ev).val("vecs", V).emit();
    if (then_sort && cnt == unsigned(N)) sort_ev<N, T, Q>(src, ev, V);
}
// matrix from integers (column-major) times 2^sc; *exact tells whether every entry is represented exactly
template<int N, class T, glm::qualifier Q>
static glm::mat<N, N, T, Q> mk_mat(const long double* m, int sc, bool* exact) {
    glm::mat<N, N, T, Q> M; bool ex = true;
    for (int c = 0; c < N; ++c) for (int r = 0; r < N; ++r) { long double x = ldexpl(m[c * N + r], sc); T y = T(x); if ((long double)y != x) ex = false; M[c][r] = y; }
    if (exact) *exact = ex;
    return M;
}
template<int N, class T, glm::qualifier Q>
static void eig_int(const char* src, const long double* m, int sc, const long long* sp, bool then_sort) {
    bool exact = false;
    glm::mat<N, N, T, Q> M = mk_mat<N, T, Q>(m, sc, &exact);
    eig_ev<N, T, Q>(src, M, sc, (sp && exact) ? sp : nullptr, then_sort);
}
template<int N, class T>
static void eig_scales(const char* src, const long double* m, const long long* sp, int idx) {
    eig_int<N, T, QD>(src, m, 0, sp, true);
    eig_int<N, T, QD>(src, m, Lift<T>::k, sp, true);
    switch (idx % 8) {
        case 1: eig_int<N, T, QD>(src, m, -3, sp, false); break;
        case 2: eig_int<N, T, QL>(src, m, Lift<T>::k, sp, true); break;
        case 3: eig_int<N, T, QD>(src, m, 7, sp, false); break;
        case 5: eig_int<N, T, QD>(src, m, -24, sp, false); break;
        case 6: eig_int<N, T, QM>(src, m, Lift<T>::k, sp, true); break;
        case 7: eig_int<N, T, QD>(src, m, -30, sp, false); break;
        default: break;
    }
}
template<int N>
static void eig_case(const char* src, const long double* m, const long long* sp, int idx) {
    eig_scales<N, float>(src, m, sp, idx);
    eig_scales<N, double>(src, m, sp, idx);
}

// ---------------------------------------------------------------- computeCovarianceMatrix
// pts: k points of dimension D (row-major long doubles), c: centre; sc: power of two applied to everything
template<int D, class T, glm::qualifier Q>
static void cov_case(const char* src, const std::vector<long double>& p, const long double* c, int sc, bool pipeline) {
    typedef glm::vec<D, T, Q> vec; typedef glm::mat<D, D, T, Q> mat;
    const size_t k = p.size() / D;
    std::vector<vec> pts(k); std::list<vec> lst; vec cv;
    for (size_t j = 0; j < k; ++j) { vec v; for (int i = 0; i < D; ++i) v[i] = T(ldexpl(p[j * D + i], sc)); pts[j] = v; lst.push_back(v); }
    for (int i = 0; i < D; ++i) cv[i] = T(ldexpl(c[i], sc));
    auto log = [&](const char* variant, bool with_c, mat const& r) {
        Ev e("cov");
        e.str("t", TI<T>::code()).num("n", D).str("q", QN<Q>::s()).str("src", src).str("v", variant).num("k", (long long)k);
        for (size_t j = 0; j < k; ++j) e.arg(pts[j]);
        if (with_c) e.val("c", cv);
        e.res(r).emit();
    };
    mat r1 = glm::computeCovarianceMatrix(pts.data(), k);                                           // pointer + count, relative coordinates
    log("pn", false, r1);
    mat r2 = glm::computeCovarianceMatrix(pts.data(), k, cv);                                       // pointer + count + centre
    log("pnc", true, r2);
    mat r3 = glm::computeCovarianceMatrix<D, T, Q>(pts.cbegin(), pts.cend());                       // iterator range (random access)
    log("it", false, r3);
    mat r4 = glm::computeCovarianceMatrix<D, T, Q>(lst.cbegin(), lst.cend(), cv);                   // iterator range (bidirectional) + centre
    log("itc", true, r4);
    if (pipeline && k > 0) {                 // the documented use: covariance -> eigenpairs -> sort
        eig_ev<D, T, Q>("pca", r2, 0, nullptr, true);
        eig_ev<D, T, Q>("pca", r1, 0, nullptr, true);
    }
}
template<int D>
static void cov_all(const char* src, const std::vector<long double>& p, const long double* c, int idx) {
    cov_case<D, float, QD>(src, p, c, 0, true);
    cov_case<D, double, QD>(src, p, c, 0, true);
    if (idx % 4 == 1) { cov_case<D, float, QD>(src, p, c, -5, false); cov_case<D, double, QD>(src, p, c, 11, false); }
    if (idx % 8 == 2) { cov_case<D, float, QL>(src, p, c, 0, false); cov_case<D, double, QM>(src, p, c, 0, false); }
    if (idx % 8 == 6) { cov_case<D, float, QM>(src, p, c, 3, false); cov_case<D, double, QL>(src, p, c, -2, false); }
}

// ---------------------------------------------------------------- sort cases
template<int N, class T, glm::qualifier Q>
static void sort_case(const char* src, const long long* v, int mode) {
    glm::vec<N, T, Q> vals; glm::mat<N, N, T, Q> vecs;
    for (int i = 0; i < N; ++i) {
        T x = T(v[i]);
        if (mode == 1 && v[i] == 0 && (i & 1)) x = -T(0);                         // signed zeros: equal values with different patterns
        if (mode == 2) x = std::ldexp(x, -20);
        if (mode == 3) x = -std::ldexp(x, 30) + T(1);
        vals[i] = x;
        for (int r = 0; r < N; ++r) vecs[i][r] = T(10 * (i + 1) + r + 1) * (mode == 3 ? T(-0.25) : T(1));      // column i is recognisable
    }
    sort_ev<N, T, Q>(src, vals, vecs);
}
template<int N>
static void sort_all(const long long* v, int idx) {
    sort_case<N, float, QD>("mc", v, 0); sort_case<N, double, QD>("mc", v, 0);
    sort_case<N, float, QD>("mc", v, 1); sort_case<N, double, QD>("mc", v, 1);
    if (idx % 4 == 0) { sort_case<N, float, QL>("mc", v, 2); sort_case<N, double, QM>("mc", v, 3); }
    if (idx % 4 == 2) { sort_case<N, float, QM>("mc", v, 3); sort_case<N, double, QL>("mc", v, 2); }
}

// ---------------------------------------------------------------- section mc
static void section_mc(const char* path) {
    std::ifstream in(path);
    if (!in) { std::fprintf(stderr, "cannot read %s\n", path); std::exit(2); }
    std::string line; int ie = 0, ic = 0, is = 0;
    while (std::getline(in, line)) {
        std::istringstream ss(line);
        std::string kind; if (!(ss >> kind)) continue;
        if (kind == "E") {
            int n; if (!(ss >> n) || n < 2 || n > 4) continue;
            long double m[16]; long long sp[4]; bool ok = true;
            for (int i = 0; i < n * n; ++i) { long long x; if (!(ss >> x)) { ok = false; break; } m[i] = (long double)x; }
            for (int i = 0; ok && i < n; ++i) if (!(ss >> sp[i])) ok = false;
            if (!ok) continue;
            if (n == 2) eig_case<2>("mc", m, sp, ie); else if (n == 3) eig_case<3>("mc", m, sp, ie); else eig_case<4>("mc", m, sp, ie);
            ++ie;
        } else if (kind == "C") {
            int d, k; if (!(ss >> d >> k) || d < 2 || d > 4 || k < 0) continue;
            std::vector<long double> p((size_t)d * (size_t)k); long double c[4]; bool ok = true;
            for (auto& x : p) { long long y; if (!(ss >> y)) { ok = false; break; } x = (long double)y; }
            for (int i = 0; ok && i < d; ++i) { long long y; if (!(ss >> y)) ok = false; else c[i] = (long double)y; }
            if (!ok) continue;
            if (d == 2) cov_all<2>("mc", p, c, ic); else if (d == 3) cov_all<3>("mc", p, c, ic); else cov_all<4>("mc", p, c, ic);
            ++ic;
        } else if (kind == "S") {
            int n; if (!(ss >> n) || n < 2 || n > 4) continue;
            long long v[4]; bool ok = true;
            for (int i = 0; i < n; ++i) if (!(ss >> v[i])) ok = false;
            if (!ok) continue;
            if (n == 2) sort_all<2>(v, is); else if (n == 3) sort_all<3>(v, is); else sort_all<4>(v, is);
            ++is;
        }
    }
}

// ---------------------------------------------------------------- section gen
template<int N>
static void gen_sym(Rng& g, int kind, long double* m) {
    for (int c = 0; c < N; ++c) for (int r = c; r < N; ++r) {
        long double x;
        switch (kind) {
            case 0: x = (long double)((long long)g.below(41) - 20); break;                                            // small integers
            case 1: x = (long double)((long long)g.below(2001) - 1000) / 64.0L; break;                                // dyadics
            case 2: x = (c == r) ? 1000.0L + (long double)g.below(3) : (long double)((long long)g.below(3) - 1) / 1024.0L; break;   // nearly degenerate
            default: x = (c == r) ? (long double)g.below(5) : ldexpl((long double)((long long)g.below(5) - 2), -(int)g.below(40)); break;   // graded
        }
        m[c * N + r] = m[r * N + c] = x;
    }
}
template<int N>
static void gen_eig(Rng& g, int iters) {
    for (int kind = 0; kind < 4; ++kind) for (int it = 0; it < iters; ++it) {
        long double m[16]; gen_sym<N>(g, kind, m);
        const char* src = kind == 0 ? "rnd-int" : kind == 1 ? "rnd-dyadic" : kind == 2 ? "rnd-neardeg" : "rnd-graded";
        eig_int<N, float, QD>(src, m, 0, nullptr, true);
        eig_int<N, double, QD>(src, m, 0, nullptr, true);
        eig_int<N, float, QD>(src, m, 70, nullptr, it % 2 == 0);          // lifted far above the hard-coded epsilon (graded entries down to 2^-39)
        eig_int<N, double, QD>(src, m, 130, nullptr, it % 2 == 0);
        if (it % 4 == 1) { eig_int<N, float, QD>(src, m, -10, nullptr, false); eig_int<N, double, QD>(src, m, -13, nullptr, false); }
        if (it % 4 == 3) { eig_int<N, float, QM>(src, m, 70, nullptr, false); eig_int<N, double, QL>(src, m, 130, nullptr, false); }
    }
}
template<int D>
static void gen_cloud(Rng& g, int k, int idx) {
    std::vector<long double> p((size_t)D * (size_t)k); long double c[4] = { 0, 0, 0, 0 };
    const int j = (int)g.below(9);
    for (int q = 0; q < k; ++q) for (int i = 0; i < D; ++i) { long double x = ldexpl((long double)((long long)g.below(4001) - 2000 + (i + 1) * 300), -j); p[q * D + i] = x; c[i] += x; }
    for (int i = 0; i < D; ++i) c[i] = (long double)(double)(c[i] / (long double)(k > 0 ? k : 1));      // a precomputed centre of gravity (an input)
    cov_case<D, float, QD>("cloud", p, c, 0, true);
    cov_case<D, double, QD>("cloud", p, c, 0, true);
    if (idx % 3 == 0) { cov_case<D, float, QD>("cloud", p, c, -12, true); cov_case<D, double, QD>("cloud", p, c, 20, true); }
    if (idx % 5 == 1) { cov_case<D, float, QL>("cloud", p, c, 0, false); cov_case<D, double, QM>("cloud", p, c, 0, false); }
}
template<class T>
static void specials() {
    typedef glm::mat<3, 3, T, QD> mat3; typedef glm::mat<2, 2, T, QD> mat2; typedef glm::mat<4, 4, T, QD> mat4;
    // already diagonal, zero, identity
    { mat3 M(T(0)); eig_ev<3, T, QD>("zero", M, 0, nullptr, true); }
    { mat3 M(T(1)); eig_ev<3, T, QD>("identity", M, 0, nullptr, true); }
    { mat4 M(T(0)); M[0][0] = T(3); M[1][1] = T(-1); M[2][2] = T(3); M[3][3] = T(7); eig_ev<4, T, QD>("diagonal", M, 0, nullptr, true); }
    { mat2 M(T(0)); M[0][1] = M[1][0] = T(1); eig_ev<2, T, QD>("swap", M, 0, nullptr, true); }
    // the matrix [[0, e], [e, 0]] with e below the hard-coded epsilon (eigenvalues +-e)
    { mat2 M(T(0)); M[0][1] = M[1][0] = std::ldexp(T(1), -27); eig_ev<2, T, QD>("tiny-offdiag", M, 0, nullptr, true); }
    { mat2 M(T(0)); M[0][1] = M[1][0] = std::ldexp(T(1), 40); eig_ev<2, T, QD>("huge-offdiag", M, 0, nullptr, true); }
    // nearly diagonal matrix with off-diagonal entries around the hard-coded epsilon
    { mat3 M(T(0)); M[0][0] = T(4); M[1][1] = T(2); M[0][1] = M[1][0] = -std::ldexp(T(1), -30); M[0][2] = M[2][0] = std::ldexp(T(1), -24); M[1][2] = M[2][1] = -std::ldexp(T(1), -23);
      eig_ev<3, T, QD>("near-diagonal", M, 0, nullptr, true);
      mat3 L = M; for (int c = 0; c < 3; ++c) for (int r = 0; r < 3; ++r) L[c][r] = std::ldexp(L[c][r], 70); eig_ev<3, T, QD>("near-diagonal-lifted", L, 70, nullptr, true); }
    // double precision: tridiagonal-free block with a nearly degenerate pair
    { mat4 M(T(0)); M[0][0] = M[1][1] = M[2][2] = T(1002); M[3][3] = T(1001); T e = std::ldexp(T(1), -10);
      M[0][2] = M[2][0] = e; M[1][2] = M[2][1] = e; M[1][3] = M[3][1] = -e; eig_ev<4, T, QD>("neardeg-block", M, 0, nullptr, true); }
    // out of domain: not symmetric, NaN, infinity
    { mat2 M(T(1)); M[0][1] = T(2); M[1][0] = T(3); eig_ev<2, T, QD>("nonsym", M, 0, nullptr, false); }
    { mat3 M(T(1)); M[1][1] = from_bits<T>(sizeof(T) == 4 ? 0x7fc00000ull : 0x7ff8000000000000ull); eig_ev<3, T, QD>("nan", M, 0, nullptr, false); }
    { mat2 M(T(1)); M[0][0] = from_bits<T>(sizeof(T) == 4 ? 0x7f800000ull : 0x7ff0000000000000ull); eig_ev<2, T, QD>("inf", M, 0, nullptr, false); }
    // sort: non-finite values (out of domain), already sorted, reversed
    { glm::vec<3, T, QD> v(T(1), from_bits<T>(sizeof(T) == 4 ? 0x7fc00000ull : 0x7ff8000000000000ull), T(2)); mat3 M(T(1)); sort_ev<3, T, QD>("nan", v, M); }
    { glm::vec<4, T, QD> v(T(4), T(3), T(2), T(1)); mat4 M(T(0)); for (int c = 0; c < 4; ++c) for (int r = 0; r < 4; ++r) M[c][r] = T(c * 4 + r); sort_ev<4, T, QD>("sorted", v, M);
      glm::vec<4, T, QD> w(T(1), T(2), T(3), T(4)); sort_ev<4, T, QD>("reversed", w, M); }
    // covariance: no points, one point, a point equal to the centre
    { std::vector<long double> p; long double c[4] = { 1, 2, 3, 4 }; cov_case<3, T, QD>("empty", p, c, 0, false); }
    { std::vector<long double> p = { 5, -7 }; long double c[4] = { 5, -7, 0, 0 }; cov_case<2, T, QD>("single", p, c, 0, true); }
    { std::vector<long double> p = { 1, 2, 3, 4, 5, 6, 7, 8 }; long double c[4] = { 4, 5, 6, 7 }; cov_case<4, T, QD>("two", p, c, 0, true); }
}
static void section_gen() {
    Rng g(seed_from_env() * 7919 + 1010);
    const int it = g_thorough ? 200 : 30;
    gen_eig<2>(g, it); gen_eig<3>(g, it); gen_eig<4>(g, it);
    static const int KS[] = { 1, 2, 3, 5, 8, 17, 64, 257 };
    const int nk = g_thorough ? 8 : 7, rep = g_thorough ? 12 : 2;
    int idx = 0;
    for (int r = 0; r < rep; ++r) for (int q = 0; q < nk; ++q) { gen_cloud<2>(g, KS[q], idx); gen_cloud<3>(g, KS[q], idx); gen_cloud<4>(g, KS[q], idx); ++idx; }
    specials<float>(); specials<double>();
}

static void body(int argc, char** argv) {
    g_thorough = argc > 2 && std::string(argv[2]) == "thorough";
    std::string sec = argc > 3 ? argv[3] : "gen";
    if (sec == "mc") { if (argc < 5) { std::fprintf(stderr, "section mc needs the cases file\n"); std::exit(2); } section_mc(argv[4]); }
    else section_gen();
}
int main(int argc, char** argv) { return run_main(argc, argv, body); }
