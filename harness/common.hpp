// Common plumbing of the conformance harnesses (engine E3).
// The harness never judges: it executes GLM calls on inputs given as bit patterns and logs
// one ndjson event per call with every machine word written as 16-bit limbs (least
// significant first).  All expected values live in the TLA+ specification.
#pragma once
#include <cstdint>
#include <cstdio>
#include <cstdlib>
#include <cstring>
#include <string>
#include <vector>
#include <type_traits>
#include <limits>
#include <exception>
#include <unistd.h>

#define GLM_ENABLE_EXPERIMENTAL
#include <glm/glm.hpp>
#ifndef VH_NO_EXT_ALL
#include <glm/ext.hpp>
#else
#include <glm/gtc/quaternion.hpp>
#endif

namespace vh {

// ---------------------------------------------------------------- output
struct Out {
    FILE* f = nullptr;
    std::string buf;
    uint64_t events = 0;
    void open(const char* path) { f = std::fopen(path, "w"); if (!f) { std::perror(path); std::exit(2); } buf.reserve(1 << 20); }
    void flush() { if (f && !buf.empty()) { std::fwrite(buf.data(), 1, buf.size(), f); buf.clear(); } }
    void close() { flush(); if (f) std::fclose(f); f = nullptr; }
    void line_done() { buf.push_back('\n'); ++events; if (buf.size() > (1u << 20) - 4096) flush(); }
};
inline Out& out() { static Out o; return o; }

inline void put_uint(std::string& s, uint64_t v) {
    char tmp[24]; int n = 0;
    do { tmp[n++] = char('0' + v % 10); v /= 10; } while (v);
    while (n) s.push_back(tmp[--n]);
}
inline void put_int(std::string& s, long long v) {
    if (v < 0) { s.push_back('-'); put_uint(s, uint64_t(-(v + 1)) + 1); } else put_uint(s, uint64_t(v));
}

// ---------------------------------------------------------------- type info
template<class T> struct TI;
#define VH_TI(T, CODE, NL) template<> struct TI<T> { static const char* code() { return CODE; } static constexpr int limbs = NL; }
VH_TI(bool, "b", 1);
VH_TI(signed char, "i8", 1);  VH_TI(unsigned char, "u8", 1);
VH_TI(short, "i16", 1);       VH_TI(unsigned short, "u16", 1);
VH_TI(int, "i32", 2);         VH_TI(unsigned int, "u32", 2);
VH_TI(long, "i64", 4);        VH_TI(unsigned long, "u64", 4);
VH_TI(long long, "i64", 4);   VH_TI(unsigned long long, "u64", 4);
VH_TI(float, "f32", 2);       VH_TI(double, "f64", 4);
#undef VH_TI

template<class T> inline uint64_t to_bits(T v) {
    if constexpr (std::is_same<T, bool>::value) return v ? 1u : 0u;
    else if constexpr (sizeof(T) == 1) { uint8_t u; std::memcpy(&u, &v, 1); return u; }
    else if constexpr (sizeof(T) == 2) { uint16_t u; std::memcpy(&u, &v, 2); return u; }
    else if constexpr (sizeof(T) == 4) { uint32_t u; std::memcpy(&u, &v, 4); return u; }
    else { uint64_t u; std::memcpy(&u, &v, 8); return u; }
}
template<class T> inline T from_bits(uint64_t b) {
    if constexpr (std::is_same<T, bool>::value) return b != 0;
    else if constexpr (sizeof(T) == 1) { uint8_t u = uint8_t(b); T v; std::memcpy(&v, &u, 1); return v; }
    else if constexpr (sizeof(T) == 2) { uint16_t u = uint16_t(b); T v; std::memcpy(&v, &u, 2); return v; }
    else if constexpr (sizeof(T) == 4) { uint32_t u = uint32_t(b); T v; std::memcpy(&v, &u, 4); return v; }
    else { T v; std::memcpy(&v, &b, 8); return v; }
}

template<class T> inline void put_word(std::string& s, T v) {
    uint64_t b = to_bits(v);
    s.push_back('[');
    for (int i = 0; i < TI<T>::limbs; ++i) { if (i) s.push_back(','); put_uint(s, (b >> (16 * i)) & 0xffffu); }
    s.push_back(']');
}

// a value = list of components, each a word
template<class T, class = typename std::enable_if<std::is_arithmetic<T>::value>::type>
inline void put_val(std::string& s, T v) { s.push_back('['); put_word(s, v); s.push_back(']'); }
template<glm::length_t L, class T, glm::qualifier Q>
inline void put_val(std::string& s, glm::vec<L, T, Q> const& v) {
    s.push_back('[');
    for (glm::length_t i = 0; i < L; ++i) { if (i) s.push_back(','); put_word(s, T(v[i])); }
    s.push_back(']');
}
template<glm::length_t C, glm::length_t R, class T, glm::qualifier Q>
inline void put_val(std::string& s, glm::mat<C, R, T, Q> const& m) {    // column-major: index c*R + r
    s.push_back('[');
    for (glm::length_t c = 0; c < C; ++c) for (glm::length_t r = 0; r < R; ++r) { if (c || r) s.push_back(','); put_word(s, T(m[c][r])); }
    s.push_back(']');
}
template<class T, glm::qualifier Q>
inline void put_val(std::string& s, glm::qua<T, Q> const& q) {          // logged as w,x,y,z whatever the storage order
    s.push_back('['); put_word(s, T(q.w)); s.push_back(','); put_word(s, T(q.x)); s.push_back(',');
    put_word(s, T(q.y)); s.push_back(','); put_word(s, T(q.z)); s.push_back(']');
}

// ---------------------------------------------------------------- sanitizer monitor (engine E8)
// Built with clang -fsanitize=undefined,... -fsanitize-recover=all -DVH_UBSAN the runtime calls __ubsan_on_report() for every
// report; the number of reports since the previous event is logged as the "ub" field of the next event, so undefined behaviour
// becomes an observed field that the trace specification relates to the documented domain of the call.
#ifdef VH_UBSAN
extern "C" void __ubsan_get_current_report_data(const char** OutIssueKind, const char** OutMessage, const char** OutFilename, unsigned* OutLine, unsigned* OutCol, char** OutMemoryAddr);
inline unsigned& ub_count() { static unsigned n = 0; return n; }
inline std::string& ub_where() { static std::string w; return w; }
} extern "C" __attribute__((used, visibility("default"))) void __ubsan_on_report() {          // one translation unit per harness
    ++vh::ub_count();
    if (vh::ub_where().empty()) { const char *kind = "", *msg = "", *file = ""; unsigned line = 0, col = 0; char* addr = nullptr;
        vh::__ubsan_get_current_report_data(&kind, &msg, &file, &line, &col, &addr);
        std::string f(file ? file : ""); size_t k = f.find("glm/"); std::string w = (k == std::string::npos ? f : f.substr(k)) + ":" + std::to_string(line) + " " + (kind ? kind : "");
        for (char& c : w) if (c == '"' || c == '\\' || (unsigned char)c < 32) c = ' ';
        vh::ub_where() = w; }
} namespace vh {
#endif

// ---------------------------------------------------------------- event builder
struct Ev {
    std::string& s;
    bool first_arg = true, in_args = false;
    explicit Ev(const char* op) : s(out().buf) { s += "{\"op\":\""; s += op; s += '"'; }
    Ev& str(const char* k, const char* v) { close_args(); s += ",\""; s += k; s += "\":\""; s += v; s += '"'; return *this; }
    Ev& num(const char* k, long long v) { close_args(); s += ",\""; s += k; s += "\":"; put_int(s, v); return *this; }
    template<class V> Ev& arg(V const& v) {
        if (!in_args) { s += ",\"a\":["; in_args = true; first_arg = true; }
        if (!first_arg) s.push_back(','); first_arg = false;
        put_val(s, v); return *this;
    }
    template<class V> Ev& val(const char* k, V const& v) { close_args(); s += ",\""; s += k; s += "\":"; put_val(s, v); return *this; }
    template<class V> Ev& res(V const& v) { return val("r", v); }
    void close_args() { if (in_args) { s.push_back(']'); in_args = false; } }
    void emit() {
        close_args();
#ifdef VH_UBSAN
        if (ub_count()) { s += ",\"ub\":"; put_uint(s, ub_count()); s += ",\"ubw\":\""; s += ub_where(); s += "\""; ub_count() = 0; ub_where().clear(); }
#endif
        s.push_back('}'); out().line_done();
    }
};
inline void marker(const char* name) { std::string& s = out().buf; s += "{\"e\":\""; s += name; s += "\"}"; out().line_done(); }

// ---------------------------------------------------------------- deterministic integer-only RNG
struct Rng {
    uint64_t s;
    explicit Rng(uint64_t seed) : s(seed * 0x9E3779B97F4A7C15ull + 0x1234567ull) {}
    uint64_t next() { uint64_t z = (s += 0x9E3779B97F4A7C15ull); z = (z ^ (z >> 30)) * 0xBF58476D1CE4E5B9ull; z = (z ^ (z >> 27)) * 0x94D049BB133111EBull; return z ^ (z >> 31); }
    uint64_t below(uint64_t n) { return next() % n; }
};
inline uint64_t seed_from_env() { const char* e = std::getenv("VERIF_SEED"); return e ? std::strtoull(e, nullptr, 10) : 1; }

// ---------------------------------------------------------------- value lattices (bit patterns)
template<class T> inline std::vector<uint64_t> int_lattice() {
    constexpr int W = int(sizeof(T) * 8);
    const uint64_t M = W == 64 ? ~0ull : ((1ull << W) - 1);
    std::vector<uint64_t> v;
    auto add = [&](uint64_t x) { x &= M; for (auto y : v) if (y == x) return; v.push_back(x); };
    for (uint64_t k = 0; k < 6; ++k) { add(k); add(M - k); add((M >> 1) - k); add((M >> 1) + 1 + k); }
    for (int i = 0; i < W; ++i) { add(1ull << i); add(~(1ull << i)); add((1ull << i) - 1); add(~((1ull << i) - 1)); add((1ull << i) + 1); }
    add(0x5555555555555555ull); add(0xAAAAAAAAAAAAAAAAull); add(0x3333333333333333ull); add(0xCCCCCCCCCCCCCCCCull);
    add(0x0F0F0F0F0F0F0F0Full); add(0xF0F0F0F0F0F0F0F0ull); add(0x00FF00FF00FF00FFull); add(0xFF00FF00FF00FF00ull);
    add(0x0123456789ABCDEFull); add(0xFEDCBA9876543210ull); add(0xDEADBEEFCAFEBABEull);
    return v;
}
inline std::vector<uint32_t> f32_lattice() {
    std::vector<uint32_t> v;
    const uint32_t mags[] = {
        0x00000000u, 0x00000001u, 0x00000002u, 0x003fffffu, 0x00400000u, 0x007fffffu, 0x00800000u, 0x00800001u,
        0x33800000u, 0x34000000u, 0x3e800000u, 0x3effffffu, 0x3f000000u, 0x3f000001u, 0x3f7fffffu, 0x3f800000u, 0x3f800001u,
        0x3fbfffffu, 0x3fc00000u, 0x3fc00001u, 0x40000000u, 0x40200000u, 0x40400000u, 0x40600000u, 0x40a00000u, 0x40b00000u,
        0x41200000u, 0x42c80000u, 0x42fe0000u, 0x42ff0000u, 0x43000000u, 0x437f0000u, 0x437f8000u, 0x43800000u,
        0x46fffe00u, 0x47000000u, 0x477fe000u, 0x477ff000u, 0x477fff00u, 0x47800000u,
        0x4a7ffffeu, 0x4a800002u, 0x4afffffeu, 0x4affffffu, 0x4b000000u, 0x4b000001u, 0x4b7fffffu, 0x4b800000u, 0x4b800001u,
        0x4effffffu, 0x4f000000u, 0x4f000001u, 0x4f7fffffu, 0x4f800000u, 0x5effffffu, 0x5f000000u, 0x5f800000u,
        0x7e7fffffu, 0x7f000000u, 0x7f7ffffeu, 0x7f7fffffu, 0x7f800000u, 0x7fc00000u, 0x7f800001u, 0x7fffffffu };
    for (uint32_t m : mags) { v.push_back(m); v.push_back(m | 0x80000000u); }
    return v;
}
inline std::vector<uint64_t> f64_lattice() {
    std::vector<uint64_t> v;
    const uint64_t mags[] = {
        0x0ull, 0x1ull, 0x2ull, 0x000fffffffffffffull, 0x0010000000000000ull, 0x0010000000000001ull,
        0x3ca0000000000000ull, 0x3cb0000000000000ull, 0x3fd0000000000000ull, 0x3fdfffffffffffffull, 0x3fe0000000000000ull,
        0x3fe0000000000001ull, 0x3fefffffffffffffull, 0x3ff0000000000000ull, 0x3ff0000000000001ull, 0x3ff7ffffffffffffull,
        0x3ff8000000000000ull, 0x3ff8000000000001ull, 0x4000000000000000ull, 0x4004000000000000ull, 0x4008000000000000ull,
        0x400c000000000000ull, 0x4014000000000000ull, 0x4016000000000000ull, 0x4024000000000000ull, 0x4059000000000000ull,
        0x405fc00000000000ull, 0x4060000000000000ull, 0x40dfffc000000000ull, 0x40e0000000000000ull, 0x40efffe000000000ull,
        0x40f0000000000000ull, 0x41dfffffffc00000ull, 0x41e0000000000000ull, 0x41efffffffe00000ull, 0x41f0000000000000ull,
        0x432fffffffffffffull, 0x4330000000000000ull, 0x4330000000000001ull, 0x433fffffffffffffull, 0x4340000000000000ull,
        0x4340000000000001ull, 0x43dfffffffffffffull, 0x43e0000000000000ull, 0x43f0000000000000ull,
        0x47efffffe0000000ull, 0x7fe0000000000000ull, 0x7feffffffffffffeull, 0x7fefffffffffffffull, 0x7ff0000000000000ull,
        0x7ff8000000000000ull, 0x7ff0000000000001ull, 0x7fffffffffffffffull };
    for (uint64_t m : mags) { v.push_back(m); v.push_back(m | 0x8000000000000000ull); }
    return v;
}
template<class T> inline std::vector<uint64_t> lattice() {
    if constexpr (std::is_same<T, float>::value) { std::vector<uint64_t> r; for (auto x : f32_lattice()) r.push_back(x); return r; }
    else if constexpr (std::is_same<T, double>::value) return f64_lattice();
    else return int_lattice<T>();
}

// ---------------------------------------------------------------- main wrapper
inline void on_terminate() { out().flush(); std::fprintf(stderr, "harness: terminate called\n"); _exit(3); }
inline int run_main(int argc, char** argv, void (*body)(int, char**)) {
    if (argc < 2) { std::fprintf(stderr, "usage: %s <trace-out> [args...]\n", argv[0]); return 2; }
    std::set_terminate(on_terminate);
    out().open(argv[1]);
    body(argc, argv);
    out().close();
    return 0;
}

} // namespace vh
