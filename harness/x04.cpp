// X04 harness: rotation-form extras (attached to C04).
//   gtx/matrix_interpolation   axisAngle, axisAngleMatrix, extractMatrixRotation, interpolate
//   gtx/rotate_normalized_axis rotateNormalizedAxis (mat4, quat)
//   gtx/quaternion             cross(q, q), extractRealComponent, length2, quat_identity, toMat3 / toMat4 / toQuat, rotate(q, v3 / v4)
//   ext/quaternion_exponential exp, log, pow, sqrt
//   gtc/quaternion             lessThan, lessThanEqual, greaterThan, greaterThanEqual, quatLookAt / RH / LH
// argv: <trace-out> <tier>
// The harness only ENCODES inputs (from small integers, evaluated in long double and rounded once to T), calls GLM and logs raw bit
// patterns.  Integers the specification needs to recompute the exact expected value are logged next to the arguments:
//   "cs"  : (cn, sn, d) triples: an angle argument is atan2l(sn, cn) (+ "k" full turns); cos = cn/d, sin = sn/d, cn^2 + sn^2 = d^2
//   "hcs" : same for HALF the angle handed to GLM
//   "axi" : (x, y, z, L) integer axis of integer length L;  "len": L when the axis ARGUMENT is the integer vector, 0 when it is the unit vector
//   "sa", "sm", "sj" (geodesic: start multiple, steps, position), "pa", "pb", "pe" (power: q has the angle pa * psi and the length 2^pe,
//   exponent pb / pa), "ew" (exp: real part ln(ew)), "sc" (log: length of q), "k" (full turns added to the angle)
// Angles RETURNED by GLM are decoded as (cosl, sinl) doubles ("ocs"), a returned logarithm as expl ("oexp"): output encodings, no judgement.
#define VH_NO_EXT_ALL
#include "common.hpp"
#include <glm/gtc/quaternion.hpp>
#include <glm/gtx/quaternion.hpp>
#include <glm/gtx/matrix_interpolation.hpp>
#include <glm/gtx/rotate_normalized_axis.hpp>
#include <glm/ext/quaternion_exponential.hpp>
#include <cmath>
using namespace vh;
typedef long double LD;

#ifdef GLM_FORCE_QUAT_DATA_WXYZ
static const char* ORD = "wxyz";
#else
static const char* ORD = "xyzw";
#endif
#ifdef GLM_FORCE_LEFT_HANDED
static const int DEFAULT_LH = 1;
#else
static const int DEFAULT_LH = 0;
#endif

namespace vh {
struct IVec { std::vector<long long> v; };
inline void put_val(std::string& s, IVec const& iv) {
    s.push_back('[');
    for (size_t i = 0; i < iv.v.size(); ++i) { if (i) s.push_back(','); put_word(s, iv.v[i]); }
    s.push_back(']');
}
struct DVec { std::vector<double> v; };
inline void put_val(std::string& s, DVec const& dv) {
    s.push_back('[');
    for (size_t i = 0; i < dv.v.size(); ++i) { if (i) s.push_back(','); put_word(s, dv.v[i]); }
    s.push_back(']');
}
}

static bool g_thorough = false;
static const LD PI_L = 3.14159265358979323846264338327950288L;

// ------------------------------------------------------------------ integer material
struct IQ { long long w, x, y, z, n; };                 // quaternion (w,x,y,z)/n, w^2+x^2+y^2+z^2 = n^2
struct IV { long long x, y, z, n; };                    // vector (x,y,z), |v| = n
struct CS { long long c, s, d; };                       // cos = c/d, sin = s/d

static const IV AXES[] = { {1, 0, 0, 1}, {0, 1, 0, 1}, {0, 0, 1, 1}, {1, 2, 2, 3}, {2, 3, 6, 7}, {-1, 4, -8, 9}, {2, -10, 11, 15}, {0, 4, -3, 5},
                           {-6, -2, 3, 7}, {0, 0, -1, 1}, {-2, 1, 2, 3}, {12, -4, 3, 13}, {-1, 0, 0, 1}, {3, -6, 2, 7} };
static const int NAXES = int(sizeof(AXES) / sizeof(AXES[0]));
static const IQ BASES[] = { {1, 0, 0, 0, 1}, {1, 1, 1, 1, 2}, {1, 2, 2, 4, 5}, {2, -4, 5, 6, 9}, {0, 3, -4, 0, 5}, {-1, 1, -1, 1, 2}, {0, 0, 1, 0, 1}, {2, 3, 6, 0, 7} };
static const int NBASES = int(sizeof(BASES) / sizeof(BASES[0]));
static const IV VBOX[] = { {1, 0, 0, 1}, {0, 1, 0, 1}, {0, 0, 1, 1}, {1, 2, 3, 0}, {-3, 1, 2, 0}, {2, -2, 1, 3}, {0, -1, 2, 0}, {-1, -1, -1, 0},
                           {3, 0, -4, 5}, {100, -7, 3, 0}, {0, 0, 0, 0}, {1, 1, 0, 0}, {-2, 3, 6, 7} };
static const int NVBOX = int(sizeof(VBOX) / sizeof(VBOX[0]));

static CS tiny(int k) { return CS{(1ll << (2 * k)) - 1, 1ll << (k + 1), (1ll << (2 * k)) + 1}; }            // angle ~ 2^(1-k)
static CS nearpi(int k, int sg) { return CS{-((1ll << (2 * k)) - 1), sg * (1ll << (k + 1)), (1ll << (2 * k)) + 1}; }   // pi -+ 2^(1-k)
static std::vector<CS> angle_set(bool full) {
    std::vector<CS> a = { {3, 4, 5}, {1, 0, 1}, {0, 1, 1}, {-4, 3, 5}, {5, -12, 13}, {0, -1, 1}, {-1, 0, 1}, {4, -3, 5}, {-5, -12, 13}, {-7, 24, 25},
                          tiny(12), nearpi(12, 1), nearpi(10, -1) };
    if (full) { a.push_back({7, 24, 25}); a.push_back({-8, -15, 17}); a.push_back(tiny(20)); a.push_back(tiny(26)); a.push_back(nearpi(20, 1));
                a.push_back(nearpi(26, -1)); a.push_back({20, 21, 29}); a.push_back({-119, 120, 169}); a.push_back(tiny(5)); }
    return a;
}

template<class T> static T ratio(long long a, long long n) { return T((LD)a / (LD)n); }
template<class T> static T angle_of(CS a, int turns = 0) { return T(atan2l((LD)a.s, (LD)a.c) + 2.0L * PI_L * turns); }
template<class T> static T angle_of_half(CS a, int turns = 0) { return T(2.0L * atan2l((LD)a.s, (LD)a.c) + 4.0L * PI_L * turns); }

template<class T> static glm::qua<T> mkq(IQ g) {
    glm::qua<T> q;                                        // members are assigned one by one: no constructor under test involved
    q.w = ratio<T>(g.w, g.n); q.x = ratio<T>(g.x, g.n); q.y = ratio<T>(g.y, g.n); q.z = ratio<T>(g.z, g.n);
    return q;
}
template<class T> static glm::qua<T> mkq_ld(const LD* c) { glm::qua<T> q; q.w = T(c[0]); q.x = T(c[1]); q.y = T(c[2]); q.z = T(c[3]); return q; }
template<class T> static glm::vec<3, T> mkv(IV v, bool unit) {
    glm::vec<3, T> r;
    if (unit) { r.x = ratio<T>(v.x, v.n); r.y = ratio<T>(v.y, v.n); r.z = ratio<T>(v.z, v.n); }
    else { r.x = T(v.x); r.y = T(v.y); r.z = T(v.z); }
    return r;
}
static IVec ivq(IQ g) { return IVec{{g.w, g.x, g.y, g.z, g.n}}; }
static IVec iva(IV a) { return IVec{{a.x, a.y, a.z, a.n}}; }
static IVec ivcs(CS a) { return IVec{{a.c, a.s, a.d}}; }
template<class T> static void dec(DVec& d, T a) { d.v.push_back((double)cosl((LD)a)); d.v.push_back((double)sinl((LD)a)); }

#define E0(OP) Ev(OP).str("t", TI<T>::code())

// ------------------------------------------------------------------ long double construction of the inputs
struct M3 { LD m[3][3]; };                               // m[col][row], GLM layout
static M3 m3_mul(M3 const& a, M3 const& b) { M3 r; for (int c = 0; c < 3; ++c) for (int rr = 0; rr < 3; ++rr) { LD s = 0; for (int k = 0; k < 3; ++k) s += a.m[k][rr] * b.m[c][k]; r.m[c][rr] = s; } return r; }
static M3 m3_t(M3 const& a) { M3 r; for (int c = 0; c < 3; ++c) for (int rr = 0; rr < 3; ++rr) r.m[c][rr] = a.m[rr][c]; return r; }
static M3 rodrigues(LD c, LD s, IV ax) {
    LD x = (LD)ax.x / ax.n, y = (LD)ax.y / ax.n, z = (LD)ax.z / ax.n, t = 1 - c;
    M3 r;
    r.m[0][0] = t * x * x + c;     r.m[0][1] = t * x * y + z * s; r.m[0][2] = t * x * z - y * s;
    r.m[1][0] = t * x * y - z * s; r.m[1][1] = t * y * y + c;     r.m[1][2] = t * y * z + x * s;
    r.m[2][0] = t * x * z + y * s; r.m[2][1] = t * y * z - x * s; r.m[2][2] = t * z * z + c;
    return r;
}
static M3 quat_mat(IQ g) {
    LD n = (LD)g.n, w = g.w / n, x = g.x / n, y = g.y / n, z = g.z / n;
    M3 r;
    r.m[0][0] = 1 - 2 * (y * y + z * z); r.m[0][1] = 2 * (x * y + w * z);     r.m[0][2] = 2 * (x * z - w * y);
    r.m[1][0] = 2 * (x * y - w * z);     r.m[1][1] = 1 - 2 * (x * x + z * z); r.m[1][2] = 2 * (y * z + w * x);
    r.m[2][0] = 2 * (x * z + w * y);     r.m[2][1] = 2 * (y * z - w * x);     r.m[2][2] = 1 - 2 * (x * x + y * y);
    return r;
}
// (c1 + i s1)^k in long double
static void cpow_ld(CS p, int k, LD& c, LD& s) {
    LD bc = (LD)p.c / p.d, bs = (LD)p.s / p.d; if (k < 0) { bs = -bs; k = -k; }
    LD rc = 1, rs = 0;
    while (k) { if (k & 1) { LD t = rc * bc - rs * bs; rs = rc * bs + rs * bc; rc = t; } LD t = bc * bc - bs * bs; bs = 2 * bc * bs; bc = t; k >>= 1; }
    c = rc; s = rs;
}
template<class T> static glm::mat<4, 4, T> mk_m4(M3 const& r, const long long* t) {
    glm::mat<4, 4, T> m;
    for (int c = 0; c < 3; ++c) { for (int rr = 0; rr < 3; ++rr) m[c][rr] = T(r.m[c][rr]); m[c][3] = T(0); }
    m[3][0] = T(t[0]); m[3][1] = T(t[1]); m[3][2] = T(t[2]); m[3][3] = T(1);
    return m;
}
static const long long TRS[][3] = { {0, 0, 0}, {1, -2, 3}, {-5, 0, 7}, {100, 3, -9}, {2, 2, -1} };
static const int NTRS = 5;

// ------------------------------------------------------------------ gtx/matrix_interpolation
template<class T> static void ev_aam(CS a, int turns, IV ax, bool unit) {
    T ang = angle_of<T>(a, turns);
    glm::vec<3, T> v = mkv<T>(ax, unit);
    glm::mat<4, 4, T> r = glm::axisAngleMatrix(v, ang);
    E0("aam").num("len", unit ? 0 : ax.n).num("k", turns).arg(v).arg(ang).val("cs", ivcs(a)).res(r).emit();
}
template<class T> static void ev_aa(M3 const& rot, int tr) {
    glm::mat<4, 4, T> m = mk_m4<T>(rot, TRS[tr % NTRS]);
    glm::vec<3, T> axis(T(0)); T angle = T(0);
    glm::axisAngle(m, axis, angle);
    glm::mat<4, 4, T> back = glm::axisAngleMatrix(axis, angle);
    DVec d; dec(d, angle);
    E0("aa").arg(m).val("axis", axis).val("angle", angle).val("ocs", d).val("back", back).emit();
}
template<class T> static void ev_emr(Rng& rng) {
    glm::mat<4, 4, T> m;
    for (int c = 0; c < 4; ++c) for (int r = 0; r < 4; ++r) {
        uint64_t b = rng.next();
        if (sizeof(T) == 4) { b &= 0xffffffffull; if (((b >> 23) & 0xff) == 0xff) b ^= (1ull << 27); }
        else { if (((b >> 52) & 0x7ff) == 0x7ff) b ^= (1ull << 57); }
        if (rng.below(4) == 0) b = to_bits(T((long long)rng.below(17) - 8));
        m[c][r] = from_bits<T>(b);
    }
    glm::mat<4, 4, T> r = glm::extractMatrixRotation(m);
    E0("emr").arg(m).res(r).emit();
}
// m1 = T(t1) R(n, a psi) B, m2 = T(t2) R(n, (a + m) psi) B, delta = j / m
template<class T> static void ev_interp(CS psi, IV ax, int a, int m, int j, IQ base, int tr) {
    LD c, s;
    M3 B = quat_mat(base);
    cpow_ld(psi, a, c, s); M3 r1 = m3_mul(rodrigues(c, s, ax), B);
    cpow_ld(psi, a + m, c, s); M3 r2 = m3_mul(rodrigues(c, s, ax), B);
    glm::mat<4, 4, T> m1 = mk_m4<T>(r1, TRS[tr % NTRS]), m2 = mk_m4<T>(r2, TRS[(tr + 1 + j * j) % NTRS]);
    T delta = T(j) / T(m);
    glm::mat<4, 4, T> r = glm::interpolate(m1, m2, delta);
    E0("interp").num("sa", a).num("sm", m).num("sj", j).arg(m1).arg(m2).arg(delta).val("cs", ivcs(psi)).val("axi", iva(ax)).res(r).emit();
}

// ------------------------------------------------------------------ gtx/rotate_normalized_axis
template<class T> static void ev_rna(CS a, int turns, IV ax, int idx) {
    glm::vec<3, T> u = mkv<T>(ax, true);
    {   // a general 4x4 with small dyadic entries
        glm::mat<4, 4, T> m;
        for (int c = 0; c < 4; ++c) for (int r = 0; r < 4; ++r) m[c][r] = T(((idx * 7 + c * 5 + r * 3 + c * r) % 17) - 8) / T(4);
        if (idx % 3 == 0) { m = glm::mat<4, 4, T>(T(1)); m[3][0] = T(2); m[3][1] = T(-1); m[3][2] = T(5); }
        T ang = angle_of<T>(a, turns);
        glm::mat<4, 4, T> r = glm::rotateNormalizedAxis(m, ang, u);
        E0("rnaM").num("k", turns).arg(m).arg(ang).arg(u).val("cs", ivcs(a)).val("axi", iva(ax)).res(r).emit();
    }
    {
        glm::qua<T> q = mkq<T>(BASES[idx % NBASES]);
        T ang = angle_of_half<T>(a, turns);
        glm::qua<T> r = glm::rotateNormalizedAxis(q, ang, u);
        E0("rnaQ").num("k", turns).arg(q).arg(ang).arg(u).val("hcs", ivcs(a)).val("axi", iva(ax)).res(r).emit();
    }
}

// ------------------------------------------------------------------ gtx/quaternion helpers
template<class T> static void ev_quat_misc(glm::qua<T> q, const IQ* g, int idx) {
    typedef glm::qua<T> qt; typedef glm::vec<3, T> v3; typedef glm::vec<4, T> v4;
    { glm::mat<3, 3, T> r = glm::toMat3(q); E0("toMat3").arg(q).res(r).emit();
      qt b = glm::toQuat(r); Ev e("toQuat3"); e.str("t", TI<T>::code()).arg(r); if (g) e.val("g", ivq(*g)); e.res(b).emit(); }
    { glm::mat<4, 4, T> r = glm::toMat4(q); E0("toMat4").arg(q).res(r).emit();
      qt b = glm::toQuat(r); Ev e("toQuat4"); e.str("t", TI<T>::code()).arg(r); if (g) e.val("g", ivq(*g)); e.res(b).emit(); }
    { T r = glm::length2(q); E0("length2").arg(q).res(r).emit(); }
    { T r = glm::extractRealComponent(q); E0("erc").arg(q).res(r).emit(); }
    v3 v = mkv<T>(VBOX[(idx * 3 + 1) % NVBOX], false);
    v4 vv; vv.x = v.x; vv.y = v.y; vv.z = v.z; vv.w = T((idx % 5) - 2);
    { v3 r = glm::rotate(q, v); E0("grot3").arg(q).arg(v).res(r).emit(); }
    { v4 r = glm::rotate(q, vv); E0("grot4").arg(q).arg(vv).res(r).emit(); }
}
template<class T> static void ev_erc_raw(long long x, long long y, long long z, long long d) {     // vector part (x, y, z)/d, any length
    glm::qua<T> q; q.w = T(0.25); q.x = ratio<T>(x, d); q.y = ratio<T>(y, d); q.z = ratio<T>(z, d);
    T r = glm::extractRealComponent(q); E0("erc").arg(q).res(r).emit();
}
template<class T> static void ev_cross(glm::qua<T> p, glm::qua<T> q) {
    glm::qua<T> r = glm::cross(p, q); E0("qcross").arg(p).arg(q).res(r).emit();
}
template<class T> static glm::qua<T> random_unit(Rng& rng) {
    long long c[4]; LD n2 = 0;
    do { n2 = 0; for (int i = 0; i < 4; ++i) { c[i] = (long long)(rng.below(2097153)) - 1048576; n2 += (LD)c[i] * (LD)c[i]; } } while (n2 == 0);
    LD n = sqrtl(n2), v[4] = { c[0] / n, c[1] / n, c[2] / n, c[3] / n };
    return mkq_ld<T>(v);
}
template<class T> static glm::qua<T> random_small(Rng& rng) {       // small dyadic components, any length
    glm::qua<T> q; long long c[4]; for (int i = 0; i < 4; ++i) c[i] = (long long)rng.below(33) - 16;
    q.w = T(c[0]) / T(8); q.x = T(c[1]) / T(8); q.y = T(c[2]) / T(8); q.z = T(c[3]) / T(8);
    return q;
}

// ------------------------------------------------------------------ exp / log / pow / sqrt
// exp of  ln(ew) + (phi + 2 pi k) n,  phi = atan2(sn, cn)
template<class T> static void ev_exp(CS a, int turns, IV ax, int ew) {
    LD phi = atan2l((LD)a.s, (LD)a.c) + 2.0L * PI_L * turns;
    glm::qua<T> p; p.w = ew == 1 ? T(0) : T(logl((LD)ew)); p.x = T(phi * ax.x / ax.n); p.y = T(phi * ax.y / ax.n); p.z = T(phi * ax.z / ax.n);
    glm::qua<T> r = glm::exp(p);
    E0("qexp").num("k", turns).num("ew", ew).arg(p).val("cs", ivcs(a)).val("axi", iva(ax)).res(r).emit();
}
// q = sc * (cos phi + n sin phi)
template<class T> static glm::qua<T> axis_quat(LD c, LD s, IV ax, LD sc) {
    LD v[4] = { sc * c, sc * s * ax.x / ax.n, sc * s * ax.y / ax.n, sc * s * ax.z / ax.n };
    return mkq_ld<T>(v);
}
template<class T> static void log_outputs(Ev& e, glm::qua<T> const& r) {
    LD len = sqrtl((LD)r.x * r.x + (LD)r.y * r.y + (LD)r.z * r.z);
    DVec d; d.v.push_back((double)cosl(len)); d.v.push_back((double)sinl(len));
    DVec ex; ex.v.push_back((double)expl((LD)r.w));
    e.val("ocs", d).val("oexp", ex);
}
template<class T> static void ev_log(CS a, IV ax, int sc) {
    glm::qua<T> q = axis_quat<T>((LD)a.c / a.d, (LD)a.s / a.d, ax, (LD)sc);
    glm::qua<T> r = glm::log(q);
    Ev e("qlog"); e.str("t", TI<T>::code()).num("sc", sc).arg(q).val("cs", ivcs(a)).val("axi", iva(ax)); log_outputs(e, r); e.res(r).emit();
    glm::qua<T> b = glm::exp(r);
    E0("explog").num("sc", sc).arg(q).val("lg", r).res(b).emit();
}
template<class T> static void ev_explog_q(glm::qua<T> q) {
    glm::qua<T> r = glm::log(q);
    glm::qua<T> b = glm::exp(r);
    E0("explog").num("sc", 1).arg(q).val("lg", r).res(b).emit();
}
// q = 2^e (cos(a psi) + n sin(a psi)),  y = b / a  (or the integer y when a = 0 is not allowed): expected 2^(e y) (cos(b psi) + n sin(b psi))
template<class T> static void ev_pow(CS psi, IV ax, int a, int b, int e) {
    LD c, s; cpow_ld(psi, a, c, s);
    glm::qua<T> q = axis_quat<T>(c, s, ax, ldexpl(1.0L, e));
    T y = T(b) / T(a);
    glm::qua<T> r = glm::pow(q, y);
    E0("qpow").num("pa", a).num("pb", b).num("pe", e).arg(q).arg(y).val("cs", ivcs(psi)).val("axi", iva(ax)).res(r).emit();
    if (2 * b == a) { glm::qua<T> r2 = glm::sqrt(q); E0("qsqrt").num("pa", a).num("pb", b).num("pe", e).arg(q).arg(y).val("cs", ivcs(psi)).val("axi", iva(ax)).res(r2).emit(); }
}
// arbitrary q, integer exponent: the Hamilton power; square root by its defining property
template<class T> static void ev_powi(glm::qua<T> q, int y) {
    T yy = T(y);
    glm::qua<T> r = glm::pow(q, yy);
    E0("qpowi").num("y", y).arg(q).arg(yy).res(r).emit();
}
template<class T> static void ev_sqrt_sq(glm::qua<T> q) {
    glm::qua<T> r = glm::sqrt(q);
    E0("qsqrt_sq").arg(q).res(r).emit();
}

// ------------------------------------------------------------------ relational
template<class T> static void ev_rel(glm::qua<T> x, glm::qua<T> y) {
    { glm::vec<4, bool> r = glm::lessThan(x, y); E0("qlt").str("o", ORD).arg(x).arg(y).res(r).emit(); }
    { glm::vec<4, bool> r = glm::lessThanEqual(x, y); E0("qle").str("o", ORD).arg(x).arg(y).res(r).emit(); }
    { glm::vec<4, bool> r = glm::greaterThan(x, y); E0("qgt").str("o", ORD).arg(x).arg(y).res(r).emit(); }
    { glm::vec<4, bool> r = glm::greaterThanEqual(x, y); E0("qge").str("o", ORD).arg(x).arg(y).res(r).emit(); }
}
template<class T> static void rel_events(Rng& rng) {
    std::vector<uint64_t> L = lattice<T>();
    size_t n = L.size();
    auto mk = [&](size_t i0, size_t st) { glm::qua<T> q; q.w = from_bits<T>(L[i0 % n]); q.x = from_bits<T>(L[(i0 + st) % n]); q.y = from_bits<T>(L[(i0 + 2 * st) % n]); q.z = from_bits<T>(L[(i0 + 3 * st) % n]); return q; };
    size_t stride = g_thorough ? 1 : 5;
    const size_t offs[] = {0, 1, 2, 7, 64};
    for (size_t i = 0; i < n; i += stride) for (size_t o : offs) { glm::qua<T> x = mk(i, 1), y = mk(i + o, 1); ev_rel<T>(x, y); }
    int nr = g_thorough ? 400 : 40;
    for (int k = 0; k < nr; ++k) {
        size_t i = rng.below(n), jx = rng.below(n), s1 = 1 + rng.below(11), s2 = 1 + rng.below(11);
        glm::qua<T> x = mk(i, s1), y = mk(jx, s2);
        ev_rel<T>(x, y);
    }
    for (int k = 0; k < (g_thorough ? 200 : 30); ++k) { glm::qua<T> x = random_small<T>(rng), y = random_small<T>(rng); ev_rel<T>(x, y); }
}

// ------------------------------------------------------------------ quatLookAt
template<class T> static void ev_lookat(glm::vec<3, T> d, glm::vec<3, T> u) {
    { glm::qua<T> r = glm::quatLookAtRH(d, u); E0("lookAtRH").num("lh", 0).arg(d).arg(u).res(r).emit(); }
    { glm::qua<T> r = glm::quatLookAtLH(d, u); E0("lookAtLH").num("lh", 1).arg(d).arg(u).res(r).emit(); }
    { glm::qua<T> r = glm::quatLookAt(d, u); E0("lookAt").num("lh", DEFAULT_LH).arg(d).arg(u).res(r).emit(); }
}
template<class T> static void lookat_events() {
    const IV UPS[] = { {0, 1, 0, 1}, {0, 0, 1, 1}, {1, 0, 0, 1}, {1, 2, 3, 0}, {-2, 5, 1, 0}, {0, 1, 1, 0}, {0, -1, 0, 1}, {3, 0, -4, 5}, {1, 2, 2, 3}, {100, 1, -7, 0} };
    int cnt = 0;
    for (int i = 0; i < NAXES; ++i) for (auto& up : UPS) {
        ++cnt;
        if (!g_thorough && (cnt % 2) && i > 2) continue;
        ev_lookat<T>(mkv<T>(AXES[i], true), mkv<T>(up, false));
    }
    // short up vectors (exact multiples 2^-k of the integer vectors) and up vectors 2^-k away from +-direction
    const IV P[] = { {0, 1, 0, 1}, {1, 0, 0, 1}, {0, 0, 1, 1}, {1, -1, 2, 0} };
    for (int i = 0; i < NAXES; i += (g_thorough ? 1 : 3)) for (int k : { 4, 8, 10, 14 }) {
        glm::vec<3, T> d = mkv<T>(AXES[i], true);
        IV up = UPS[(i + k) % 10];
        glm::vec<3, T> u; u.x = T(ldexpl((LD)up.x, -k)); u.y = T(ldexpl((LD)up.y, -k)); u.z = T(ldexpl((LD)up.z, -k));
        ev_lookat<T>(d, u);
        IV p = P[(i + k / 2) % 4]; LD sg = (i % 2) ? -1.0L : 1.0L, e = ldexpl(1.0L, -k);
        glm::vec<3, T> v; v.x = T(sg * AXES[i].x / AXES[i].n + e * p.x); v.y = T(sg * AXES[i].y / AXES[i].n + e * p.y); v.z = T(sg * AXES[i].z / AXES[i].n + e * p.z);
        ev_lookat<T>(d, v);
    }
}

// ------------------------------------------------------------------ enumerated rational unit quaternions
static long long gcdll(long long a, long long b) { a = a < 0 ? -a : a; b = b < 0 ? -b : b; while (b) { long long t = a % b; a = b; b = t; } return a; }
static std::vector<IQ> enum_quats(int nlo, int nhi) {
    std::vector<IQ> r;
    for (long long n = nlo; n <= nhi; ++n)
        for (long long w = -n; w <= n; ++w) for (long long x = -n; x <= n; ++x) for (long long y = -n; y <= n; ++y) {
            long long rest = n * n - w * w - x * x - y * y;
            if (rest < 0) continue;
            long long z = (long long)std::llround(std::sqrt((double)rest));
            if (z * z != rest) continue;
            for (int sg = 0; sg < 2; ++sg) {
                long long zz = sg ? -z : z;
                if (sg && z == 0) continue;
                if (gcdll(gcdll(gcdll(w, x), gcdll(y, zz)), n) != 1) continue;
                r.push_back({w, x, y, zz, n});
            }
        }
    return r;
}

// ------------------------------------------------------------------ drivers
template<class T> static void run_type() {
    Rng rng(seed_from_env() * 1000003ull + 40 + sizeof(T));
    std::vector<CS> A = angle_set(g_thorough);
    const int eps_bits = sizeof(T) == 4 ? 23 : 52;

    // ---- axisAngleMatrix
    { int n = 0;
      for (size_t i = 0; i < A.size(); ++i) for (int jx = 0; jx < NAXES; ++jx, ++n) {
          if (!g_thorough && jx >= 8 && (n % 3)) continue;
          ev_aam<T>(A[i], 0, AXES[jx], true);
          ev_aam<T>(A[i], 0, AXES[jx], false);
          if (n % 5 == 0) { ev_aam<T>(A[i], 1, AXES[jx], false); ev_aam<T>(A[i], -1, AXES[jx], true); ev_aam<T>(A[i], 2, AXES[jx], false); }
      } }

    // ---- axisAngle: rotations B R(n, angle) B^T
    { int n = 0;
      for (size_t i = 0; i < A.size(); ++i) for (int jx = 0; jx < NAXES; ++jx, ++n) {
          M3 R = rodrigues((LD)A[i].c / A[i].d, (LD)A[i].s / A[i].d, AXES[jx]);
          ev_aa<T>(R, n);
          if (n % 2 == 0) { M3 B = quat_mat(BASES[(n / 2) % NBASES]); ev_aa<T>(m3_mul(m3_mul(B, R), m3_t(B)), n + 1); }
      }
      // near 0 and near pi down to (and below) the resolution of the type: sin = 2^-k
      std::vector<int> ks = { 2, 6, 9, 10, 11, 12, 13, 14, 15, 16, 17, 18, 19, 20, 22, 24, 26, 28, 30, 34, 38, 42, 44, 45, 46, 47, 48, 50, 52, 56, 60 };
      for (int k : ks) {
          if (sizeof(T) == 4 && k > 30) continue;
          if (!g_thorough && sizeof(T) == 8 && k > 13 && k < 40 && (k % 4)) continue;
          for (int side = 0; side < 2; ++side) for (int jx = 0; jx < NAXES; ++jx) {
              if (!g_thorough && ((jx + k) % 3)) continue;
              LD s = ldexpl(1.0L, -k) * ((jx + k) % 2 ? -1 : 1), c = sqrtl(1 - s * s) * (side ? -1 : 1);
              M3 R = rodrigues(c, s, AXES[jx]);
              ev_aa<T>(R, k + jx);
              if ((jx + k) % 6 == 0) { M3 B = quat_mat(BASES[(jx + k) % NBASES]); ev_aa<T>(m3_mul(m3_mul(B, R), m3_t(B)), k); }
          }
      }
      (void)eps_bits;
      int nr = g_thorough ? 600 : 60;
      for (int i = 0; i < nr; ++i) {
          glm::qua<double> q = random_unit<double>(rng);
          LD n = sqrtl((LD)q.w * q.w + (LD)q.x * q.x + (LD)q.y * q.y + (LD)q.z * q.z), w = q.w / n, x = q.x / n, y = q.y / n, z = q.z / n;
          M3 r;
          r.m[0][0] = 1 - 2 * (y * y + z * z); r.m[0][1] = 2 * (x * y + w * z);     r.m[0][2] = 2 * (x * z - w * y);
          r.m[1][0] = 2 * (x * y - w * z);     r.m[1][1] = 1 - 2 * (x * x + z * z); r.m[1][2] = 2 * (y * z + w * x);
          r.m[2][0] = 2 * (x * z + w * y);     r.m[2][1] = 2 * (y * z - w * x);     r.m[2][2] = 1 - 2 * (x * x + y * y);
          ev_aa<T>(r, i);
      } }

    // ---- extractMatrixRotation
    for (int i = 0; i < (g_thorough ? 400 : 48); ++i) ev_emr<T>(rng);

    // ---- interpolate along geodesics
    { const CS PSI[] = { {4, 3, 5}, {12, 5, 13}, {3, 4, 5}, {24, 7, 25}, {0, 1, 1}, {1, 0, 1}, {-3, 4, 5}, {-1, 0, 1}, {63, 16, 65} };
      const int SP[][2] = { {0, 2}, {1, 3}, {-2, 4}, {0, 1}, {-1, 2}, {0, 5} };
      int n = 0;
      for (auto& psi : PSI) for (int ai = 0; ai < NAXES; ++ai) for (auto& sp : SP) {
          ++n;
          if (!g_thorough && (n % 8) != 1) continue;
          if (g_thorough && (n % 2) != 1) continue;
          int a = sp[0], m = sp[1];
          IQ base = BASES[n % NBASES];
          for (int j = -m; j <= 2 * m; ++j) ev_interp<T>(psi, AXES[ai], a, m, j, base, n + j + m);
      }
      // small step angles (conditioning of acos near 1) and a step just below the half turn
      const CS SMALL[] = { tiny(6), tiny(10), tiny(12), tiny(16), tiny(22), nearpi(6, 1), nearpi(12, 1) };
      for (auto& psi : SMALL) for (int ai = 0; ai < NAXES; ai += (g_thorough ? 1 : 3)) {
          int m = (psi.c < 0) ? 1 : 2;
          for (int j = -1; j <= m + 1; ++j) ev_interp<T>(psi, AXES[ai], 0, m, j, BASES[ai % NBASES], ai + j + 1);
      } }

    // ---- rotateNormalizedAxis
    { int n = 0;
      for (size_t i = 0; i < A.size(); ++i) for (int jx = 0; jx < NAXES; ++jx, ++n) {
          if (!g_thorough && (n % 2)) continue;
          ev_rna<T>(A[i], 0, AXES[jx], n);
          if (n % 6 == 0) { ev_rna<T>(A[i], 1, AXES[jx], n + 1); ev_rna<T>(A[i], -1, AXES[jx], n + 2); }
      } }

    // ---- quaternion helpers
    std::vector<IQ> small = enum_quats(1, g_thorough ? 7 : 5);
    { size_t st = g_thorough ? 3 : 7; int idx = 0;
      for (size_t i = 0; i < small.size(); i += st, ++idx) { IQ g = small[i]; ev_quat_misc<T>(mkq<T>(g), &g, idx); }
      for (int i = 0; i < (g_thorough ? 300 : 40); ++i, ++idx) { glm::qua<T> q = random_unit<T>(rng); ev_quat_misc<T>(q, nullptr, idx); }
      { glm::qua<T> r = glm::quat_identity<T, glm::defaultp>(); E0("qid").res(r).emit(); }
      // extractRealComponent: vector parts of length below, at and above 1
      const long long ER[][4] = { {0, 0, 0, 1}, {3, 4, 0, 5}, {1, 2, 2, 3}, {2, 3, 6, 7}, {1, 1, 1, 2}, {1, 1, 1, 1}, {3, 4, 12, 13}, {-2, 10, 11, 15}, {1, 0, 0, 1}, {7, 0, 0, 8},
                                  {9, 0, 0, 8}, {2, 3, 6, 6}, {2, 3, 6, 8}, {-1, -4, 8, 9}, {5, 5, 5, 9}, {16777215, 8192, 0, 16777217}, {1, 1, 0, 1024}, {300, -4, 1, 1} };
      for (auto& e : ER) ev_erc_raw<T>(e[0], e[1], e[2], e[3]);
      for (int i = 0; i < (g_thorough ? 200 : 30); ++i) { glm::qua<T> q = random_small<T>(rng); T r = glm::extractRealComponent(q); E0("erc").arg(q).res(r).emit(); }
      // cross(q1, q2)
      size_t ps = g_thorough ? 17 : 37;
      for (size_t i = 0; i < small.size(); i += ps) for (size_t jx = (i / ps) % 5; jx < small.size(); jx += ps + 2) ev_cross<T>(mkq<T>(small[i]), mkq<T>(small[jx]));
      for (int i = 0; i < (g_thorough ? 400 : 50); ++i) {
          glm::qua<T> p = (i % 2) ? random_small<T>(rng) : random_unit<T>(rng);
          glm::qua<T> q = (i % 3) ? random_small<T>(rng) : random_unit<T>(rng);
          ev_cross<T>(p, q);
      } }

    // ---- exp / log
    { int n = 0;
      for (size_t i = 0; i < A.size(); ++i) for (int jx = 0; jx < NAXES; ++jx, ++n) {
          if (!g_thorough && (n % 3)) continue;
          ev_exp<T>(A[i], 0, AXES[jx], 1);
          if (n % 4 == 0) { ev_exp<T>(A[i], 1, AXES[jx], 1); ev_exp<T>(A[i], -2, AXES[jx], 1); }
          if (n % 6 == 0) { ev_exp<T>(A[i], 0, AXES[jx], 2); ev_exp<T>(A[i], 0, AXES[jx], 3); }
          ev_log<T>(A[i], AXES[jx], 1);
          if (n % 6 == 3) { ev_log<T>(A[i], AXES[jx], 2); ev_log<T>(A[i], AXES[jx], 4); }
      }
      // vanishing vector parts: below and above the epsilon threshold of exp / log, both signs of w
      for (int k : { 8, 20, 22, 23, 24, 25, 30, 40, 51, 52, 53, 54, 60, 70 }) for (int sg = 0; sg < 2; ++sg) {
          if (sizeof(T) == 4 && k > 40) continue;
          IV ax = AXES[(k + sg) % NAXES];
          LD s = ldexpl(1.0L, -k), c = sqrtl(1 - s * s) * (sg ? -1 : 1);
          glm::qua<T> q = axis_quat<T>(c, s, ax, 1.0L);
          ev_explog_q<T>(q);
          glm::qua<T> p; p.w = T(0); p.x = T(s * ax.x / ax.n); p.y = T(s * ax.y / ax.n); p.z = T(s * ax.z / ax.n);
          glm::qua<T> r = glm::exp(p); E0("qexp_small").arg(p).res(r).emit();
      }
      for (int i = 0; i < (g_thorough ? 400 : 50); ++i) { glm::qua<T> q = random_unit<T>(rng); ev_explog_q<T>(q); } }

    // ---- pow / sqrt
    { const CS PSI[] = { {4, 3, 5}, {12, 5, 13}, {3, 4, 5}, {24, 7, 25}, {0, 1, 1}, {63, 16, 65}, tiny(12), tiny(20), {-3, 4, 5}, {-5, 12, 13} };
      // (a, b): q has the angle a psi, the exponent is b / a
      const int AB[][2] = { {1, 1}, {1, 2}, {1, 3}, {1, -1}, {1, -2}, {2, 1}, {2, 3}, {2, -1}, {3, 1}, {3, 2}, {-2, 1}, {-2, -1}, {-1, 1}, {4, 2}, {4, 1}, {2, 4}, {-1, 3}, {1, 0}, {2, 0}, {3, 6}, {5, 1} };
      int n = 0;
      for (auto& psi : PSI) for (int ai = 0; ai < NAXES; ++ai) for (auto& ab : AB) {
          ++n;
          if ((n % (g_thorough ? 2 : 5)) != 1) continue;
          int e = (n % 7 == 0) ? 2 : (n % 11 == 0 ? -2 : 0);
          ev_pow<T>(psi, AXES[ai], ab[0], ab[1], e);
      }
      // real quaternions, both signs
      for (int yb : { 1, 2, 3, -1, 4 }) {
          ev_pow<T>(CS{1, 0, 1}, AXES[0], 1, yb, 0); ev_pow<T>(CS{1, 0, 1}, AXES[3], 2, yb, 2); ev_pow<T>(CS{-1, 0, 1}, AXES[0], 1, yb, 0); ev_pow<T>(CS{-1, 0, 1}, AXES[4], 2, yb, 0);
      }
      for (int i = 0; i < (g_thorough ? 300 : 40); ++i) {
          glm::qua<T> q = random_unit<T>(rng);
          int y = int(rng.below(7)) - 2;
          ev_powi<T>(q, y);
          glm::qua<T> q2 = random_unit<T>(rng);
          ev_sqrt_sq<T>(q2);
      }
      for (size_t i = 0; i < small.size(); i += (g_thorough ? 5 : 23)) { glm::qua<T> q = mkq<T>(small[i]); ev_powi<T>(q, int(i % 5) - 1); ev_sqrt_sq<T>(q); }
      for (int i = 0; i < (g_thorough ? 60 : 12); ++i) { glm::qua<T> q = random_small<T>(rng); ev_powi<T>(q, int(i % 4)); } }

    // ---- relational, look-at
    rel_events<T>(rng);
    lookat_events<T>();
}

static void body(int argc, char** argv) {
    g_thorough = argc > 2 && std::string(argv[2]) == "thorough";
    run_type<float>();
    run_type<double>();
}
int main(int argc, char** argv) { return run_main(argc, argv, body); }
