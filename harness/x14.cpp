// X14 harness: gtc/random over an explicit generator state, lattice / period / bound / continuity laws of gtc/noise.
// argv: <trace-out> <tier>
//
// Part 1.  Every function of gtc/random draws from std::rand().  This translation unit DEFINES `rand` (extern "C"): the
// executable's definition pre-empts libc's, so GLM's std::rand() calls land here (the event "bind" logs the evidence: a
// call of glm::linearRand<uint8> consumed exactly the draws that were planted).  rand() returns the next element of the
// planted finite sequence and, once that is exhausted, the constant 192 for ever (bytes 0xC0: the centre-ish candidate
// (0.506 R, ...) that every rejection loop accepts, so no loop can spin on the tail); every draw made during a GLM call
// is logged with that call ("d").  No expected values here: the sequences are inputs (crafted so that particular bytes /
// words arise under one or the other evaluation order of the compiler), all judging is done by TLC (Trace_X14.tla).
// Integer division by zero inside GLM (linearRand over the full range of an integer type) is caught (SIGFPE) and logged
// as "trap":1 - it is an observation, the specification decides what it means.
//
// Part 2.  perlin / periodic perlin / simplex on lattice points, shifted points, neighbouring points (continuity),
// points found by a hill-climbing search for large |noise| (an input heuristic: it only chooses where to evaluate).
#define VH_NO_EXT_ALL
#include "common.hpp"
#include <glm/gtc/random.hpp>
#include <glm/gtc/noise.hpp>
#include <cmath>
#include <csignal>
#include <csetjmp>
#include <algorithm>
using namespace vh;

static bool g_thorough = false;

// ------------------------------------------------------------------ the interposed generator
static std::vector<int> g_seq;       // planted sequence
static size_t g_pos = 0;             // next element
static std::vector<int> g_drawn;     // draws made since the last event
static const int FALLBACK = 192;
static void hang();
extern "C" int rand(void) {
    int v = g_pos < g_seq.size() ? g_seq[g_pos++] : FALLBACK;
    g_drawn.push_back(v);
    if (g_drawn.size() > 20000) hang();                      // a rejection loop that does not terminate: leave the GLM call
    return v;
}
static void put_ints(std::string& s, const char* key, std::vector<int> const& v) {
    s += ",\""; s += key; s += "\":[";
    for (size_t i = 0; i < v.size(); ++i) { if (i) s.push_back(','); put_int(s, v[i]); }
    s.push_back(']');
}
static void plant(std::vector<int> const& s) {          // new generator state = s (then the constant tail)
    g_seq = s; g_pos = 0; g_drawn.clear();
    Ev e("seed"); put_ints(e.s, "s", s); e.emit();
}
static void finish(Ev& e) { e.close_args(); put_ints(e.s, "d", g_drawn); g_drawn.clear(); e.emit(); }
static void reset() { g_seq.clear(); g_pos = 0; g_drawn.clear(); marker("Reset"); }

// every GLM call of part 1 runs under this guard: 0 = returned, 1 = SIGFPE (integer division by zero), 2 = more than 20000 draws
static sigjmp_buf g_jb; static volatile sig_atomic_t g_guard = 0;
static void on_fpe(int) { if (g_guard) siglongjmp(g_jb, 1); _exit(5); }
static void hang() { if (g_guard) siglongjmp(g_jb, 2); out().flush(); std::fprintf(stderr, "x14: more than 20000 draws outside a guarded call\n"); _exit(4); }
template<class F> static int guarded(F f) {
    g_guard = 1;
    int rc = sigsetjmp(g_jb, 1);
    if (rc == 0) { f(); g_guard = 0; return 0; }
    g_guard = 0; return rc;
}
// one event per GLM call: fields(e) logs type / arguments, the result or "trap":1 / "hang":1 follows, then the draws
template<class R, class F, class A> static void rand_ev(const char* op, F call, A fields) {
    R r{}; g_drawn.clear();
    int st = guarded([&] { r = call(); });
    Ev e(op); fields(e);
    if (st == 0) e.res(r); else e.num(st == 1 ? "trap" : "hang", 1);
    if (st == 2) g_drawn.clear();
    finish(e);
    if (st == 2) reset();                                     // the generator state is meaningless after an abandoned call
}

// ------------------------------------------------------------------ draws as inputs
// a draw whose low byte (d % 256) is b.  agree = true: d % 255 is b as well (possible for b < 255): d = 65280 m + b
static int draw_for_byte(Rng& rng, int b, bool agree) {
    if (agree && b < 255) { uint64_t m = rng.below(4) == 0 ? rng.below(32896) : 0; return int(65280ull * m + uint64_t(b)); }
    uint64_t k = rng.below(3) == 0 ? rng.below(8388607) : rng.below(2);
    return int(256ull * k + uint64_t(b));
}
static int any_draw(Rng& rng) { return int(rng.next() & 0x7fffffffu); }
static int agree_draw(Rng& rng) { return draw_for_byte(rng, int(rng.below(255)), true); }
// the draws that make the W-bit unsigned words us[0..L) appear; rtl = the compiler evaluates unsequenced operands / arguments
// right to left (g++), otherwise left to right (clang++)
static void craft(std::vector<int>& s, Rng& rng, const uint64_t* us, int L, int W, bool rtl, bool agree) {
    int nb = W / 8;
    if (rtl) { for (int k = 0; k < nb; ++k) for (int i = L - 1; i >= 0; --i) s.push_back(draw_for_byte(rng, int((us[i] >> (8 * k)) & 255), agree)); }
    else { for (int k = nb - 1; k >= 0; --k) for (int i = 0; i < L; ++i) s.push_back(draw_for_byte(rng, int((us[i] >> (8 * k)) & 255), agree)); }
}
static void random_draws(std::vector<int>& s, Rng& rng, int n, int mode) {      // mode 0 agree, 1 any, 2 mixed
    for (int i = 0; i < n; ++i) s.push_back(mode == 0 ? agree_draw(rng) : mode == 1 ? any_draw(rng) : (rng.below(4) == 0 ? any_draw(rng) : agree_draw(rng)));
}

template<int L, class T> glm::vec<L, T, glm::highp> mkv(const T* p) { glm::vec<L, T, glm::highp> v; for (int i = 0; i < L; ++i) v[i] = p[i]; return v; }
template<class T> T dy(long long k, int e) { return std::ldexp(T(k), e); }

// ------------------------------------------------------------------ linearRand, integer types
template<int L, class T> void lin_int(const T* mn, const T* mx) {
    typedef glm::vec<L, T, glm::highp> V;
    V a = mkv<L, T>(mn), b = mkv<L, T>(mx);
    rand_ev<V>("linearRand", [&] { return glm::linearRand(a, b); }, [&](Ev& e) { e.str("t", TI<T>::code()).num("n", L).arg(a).arg(b); });
}
template<class T> void lin_int_scalar(T mn, T mx) {
    rand_ev<T>("linearRand", [&] { return glm::linearRand(mn, mx); }, [&](Ev& e) { e.str("t", TI<T>::code()).num("n", 1).num("sc", 1).arg(mn).arg(mx); });
}
template<class T> struct UOf { typedef typename std::make_unsigned<T>::type type; };
// one group of calls on one integer type
template<int L, class T> void group_int(Rng& rng, int calls, int mode) {
    typedef typename UOf<T>::type U;
    const int W = int(sizeof(T) * 8);
    std::vector<uint64_t> lat = int_lattice<T>();
    std::vector<int> s;
    std::vector<std::pair<std::vector<T>, std::vector<T>>> args;
    for (int c = 0; c < calls; ++c) {
        std::vector<T> mn(4), mx(4); uint64_t us[4];
        int kind = int(rng.below(10));
        for (int i = 0; i < 4; ++i) {
            T x = from_bits<T>(lat[rng.below(lat.size())]), y = from_bits<T>(lat[rng.below(lat.size())]);
            if (kind < 7 && y < x) std::swap(x, y);                               // mostly Min <= Max
            if (kind == 7) y = x;                                                  // a single value
            if (kind == 8 && rng.below(2)) { x = std::numeric_limits<T>::min(); y = std::numeric_limits<T>::max(); }      // the whole type
            if (kind == 9) { x = T(rng.below(7)); y = T(x + T(rng.below(60))); }   // small spans
            mn[i] = x; mx[i] = y;
            U span = U(U(y) - U(x) + U(1));
            uint64_t u;
            switch (rng.below(6)) {                                                // the word the draws should assemble to (an input, not an expectation)
                case 0: u = 0; break;
                case 1: u = uint64_t(U(span - U(1))); break;                       // lands on Max when span > 0
                case 2: u = uint64_t(span); break;
                case 3: u = ~0ull; break;
                case 4: u = uint64_t(U(span - U(1))) + uint64_t(span) * rng.below(5); break;
                default: u = rng.next(); break;
            }
            us[i] = u;
        }
        bool agree = mode == 0 || (mode == 2 && rng.below(4) != 0);
        if (rng.below(5) == 0) random_draws(s, rng, L * W / 8, agree ? 0 : 1);
        else craft(s, rng, us, L, W, rng.below(4) != 0, agree);
        args.push_back(std::make_pair(mn, mx));
    }
    if (rng.below(3) == 0 && s.size() > 3) s.resize(s.size() - 1 - rng.below(3));          // the last call runs into the constant tail
    plant(s);
    for (auto& a : args) lin_int<L, T>(a.first.data(), a.second.data());
    reset();
}
template<class T> void group_int_scalar(Rng& rng, int calls, int mode) {
    typedef typename UOf<T>::type U;
    const int W = int(sizeof(T) * 8);
    std::vector<uint64_t> lat = int_lattice<T>();
    std::vector<int> s; std::vector<std::pair<T, T>> args;
    for (int c = 0; c < calls; ++c) {
        T x = from_bits<T>(lat[rng.below(lat.size())]), y = from_bits<T>(lat[rng.below(lat.size())]);
        int kind = int(rng.below(10));
        if (kind < 7 && y < x) std::swap(x, y);
        if (kind == 7) { x = std::numeric_limits<T>::min(); y = std::numeric_limits<T>::max(); }
        if (kind == 8) { x = T(rng.below(5)); y = T(x + T(rng.below(100))); }
        U span = U(U(y) - U(x) + U(1));
        uint64_t u;
        switch (rng.below(5)) { case 0: u = 0; break; case 1: u = uint64_t(U(span - U(1))); break; case 2: u = uint64_t(span); break; case 3: u = ~0ull; break; default: u = rng.next(); break; }
        bool agree = mode == 0 || (mode == 2 && rng.below(4) != 0);
        craft(s, rng, &u, 1, W, rng.below(4) != 0, agree);
        args.push_back(std::make_pair(x, y));
    }
    plant(s);
    for (auto& a : args) lin_int_scalar<T>(a.first, a.second);
    reset();
}

// ------------------------------------------------------------------ linearRand, floating types
template<int L, class T> void lin_flt(const T* mn, const T* mx) {
    typedef glm::vec<L, T, glm::highp> V;
    V a = mkv<L, T>(mn), b = mkv<L, T>(mx);
    rand_ev<V>("linearRand", [&] { return glm::linearRand(a, b); }, [&](Ev& e) { e.str("t", TI<T>::code()).num("n", L).arg(a).arg(b); });
}
template<class T> void lin_flt_scalar(T mn, T mx) {
    rand_ev<T>("linearRand", [&] { return glm::linearRand(mn, mx); }, [&](Ev& e) { e.str("t", TI<T>::code()).num("n", 1).num("sc", 1).arg(mn).arg(mx); });
}
template<class T> void flt_interval(Rng& rng, T& mn, T& mx) {
    const bool F = std::is_same<T, float>::value;
    switch (rng.below(12)) {
        case 0: mn = T(0); mx = T(1); break;
        case 1: mn = T(-1); mx = T(1); break;
        case 2: mn = T(0); mx = T(6.283185307179586476925286766559); break;
        case 3: mn = dy<T>((long long)rng.below(2001) - 1000, -4); mx = mn; break;                                          // degenerate interval
        case 4: mn = T(1); mx = T(1) + dy<T>((long long)rng.below(9), F ? -23 : -52); break;                                // a few ulps wide
        case 5: mn = T(-1); mx = T(1) + dy<T>(3, F ? -23 : -52); break;                                                     // Max - Min is a rounding tie
        case 6: mn = T(1) / T(10); mx = T(3) / T(10); break;
        case 7: { int sc = int(rng.below(41)) - 20; mn = dy<T>((long long)rng.below(2001) - 1000, sc); mx = mn + dy<T>((long long)rng.below(4000), sc - int(rng.below(12))); break; }
        case 8: mn = dy<T>(-1, 20); mx = dy<T>(1, 20); break;
        case 9: mn = dy<T>(3, -20); mx = dy<T>(5, -20); break;
        case 10: mx = dy<T>((long long)rng.below(100), -3); mn = mx + T(1 + rng.below(5)); break;                            // Min > Max: outside the domain
        default: mn = dy<T>(-(long long)rng.below(1 << 20), -10); mx = dy<T>((long long)rng.below(1 << 20), -10); break;
    }
}
template<class T> uint64_t flt_word(Rng& rng) {
    const int W = int(sizeof(T) * 8);
    const uint64_t M = W == 64 ? ~0ull : 0xffffffffull;
    switch (rng.below(8)) {
        case 0: return 0;
        case 1: return M;                                          // t = 1: the result should be Max
        case 2: return 1ull << (W - 1);                            // t = 1/2
        case 3: return M - rng.below(300);                         // converts to 2^W (float(u) rounds up)
        case 4: return (M >> 1) + rng.below(3);
        case 5: return rng.below(1000);
        case 6: return 0xFEFEFEFEFEFEFEFEull & M;                  // the largest word the coded byte reduction can produce
        default: return rng.next() & M;
    }
}
template<int L, class T> void group_flt(Rng& rng, int calls, int mode) {
    const int W = int(sizeof(T) * 8);
    std::vector<int> s; std::vector<std::pair<std::vector<T>, std::vector<T>>> args;
    for (int c = 0; c < calls; ++c) {
        std::vector<T> mn(4), mx(4); uint64_t us[4];
        for (int i = 0; i < 4; ++i) { flt_interval<T>(rng, mn[i], mx[i]); us[i] = flt_word<T>(rng); }
        bool agree = mode == 0 || (mode == 2 && rng.below(4) != 0);
        if (rng.below(4) == 0) random_draws(s, rng, L * W / 8, agree ? 0 : 1); else craft(s, rng, us, L, W, rng.below(4) != 0, agree);
        args.push_back(std::make_pair(mn, mx));
    }
    if (rng.below(4) == 0 && s.size() > 3) s.resize(s.size() - 1 - rng.below(3));
    plant(s);
    for (auto& a : args) { if (L == 1 && rng.below(2)) lin_flt_scalar<T>(a.first[0], a.second[0]); else lin_flt<L, T>(a.first.data(), a.second.data()); }
    // out-of-domain probes at the end of the group (they still consume draws)
    if (rng.below(3) == 0) { T big = std::numeric_limits<T>::max(); lin_flt_scalar<T>(-big, big); lin_flt_scalar<T>(T(0), std::numeric_limits<T>::infinity()); lin_flt_scalar<T>(std::numeric_limits<T>::quiet_NaN(), T(1)); }
    reset();
}

// ------------------------------------------------------------------ disk / ball / circular / spherical / gauss
template<class T> T radius(Rng& rng) {
    switch (rng.below(8)) {
        case 0: return T(1);
        case 1: return T(2);
        case 2: return T(1) / T(10);
        case 3: return dy<T>(1, 20);
        case 4: return dy<T>(3, -21);
        case 5: return dy<T>((long long)rng.below(4000) + 1, -6);
        case 6: return T(1) / T(3);
        default: return dy<T>((long long)rng.below(1 << 20) + 1, int(rng.below(30)) - 25);
    }
}
// candidate words: inside (near the centre), outside (near a corner), near the rim
template<class T> void cand_words(Rng& rng, uint64_t* us, int L, int where) {
    const int W = int(sizeof(T) * 8);
    const uint64_t M = W == 64 ? ~0ull : 0xffffffffull, H = 1ull << (W - 1);
    for (int i = 0; i < L; ++i) {
        uint64_t q = H >> 2;                                                                // a quarter of the half range
        if (where == 0) us[i] = H - q + rng.next() % (2 * q);                               // |x_i| <= R/4: inside for L <= 3
        else if (where == 1) us[i] = rng.below(2) ? M - rng.next() % (q / 4) : rng.next() % (q / 4);            // |x_i| >= 0.94 R: outside (L >= 2)
        else if (where == 2) us[i] = rng.next() & M;                                        // anywhere
        else { us[i] = i == 0 ? (rng.below(2) ? M - rng.below(4) : rng.below(4)) : H + (int64_t)rng.below(5) - 2; }   // on an axis at the rim: x = +-R(1 - tiny), others ~ 0
    }
}
template<int L, class T> void region_call(const char* op, T R) {
    typedef glm::vec<L, T, glm::defaultp> V;
    rand_ev<V>(op, [&]() -> V { if constexpr (L == 2) return glm::diskRand(R); else return glm::ballRand(R); }, [&](Ev& e) { e.str("t", TI<T>::code()).num("n", L).arg(R); });
}
template<class T> void circ_call(T R) {
    rand_ev<glm::vec<2, T, glm::defaultp>>("circularRand", [&] { return glm::circularRand(R); }, [&](Ev& e) { e.str("t", TI<T>::code()).num("n", 2).arg(R); });
}
template<class T> void sph_call(T R) {
    rand_ev<glm::vec<3, T, glm::defaultp>>("sphericalRand", [&] { return glm::sphericalRand(R); }, [&](Ev& e) { e.str("t", TI<T>::code()).num("n", 3).arg(R); });
}
template<class T> void gauss_call(T m, T d) {
    rand_ev<T>("gaussRand", [&] { return glm::gaussRand(m, d); }, [&](Ev& e) { e.str("t", TI<T>::code()).num("n", 1).num("sc", 1).arg(m).arg(d); });
}
template<int L, class T> void group_region(Rng& rng, int calls, int mode) {
    const int W = int(sizeof(T) * 8);
    std::vector<int> s; std::vector<T> radii;
    for (int c = 0; c < calls; ++c) {
        int rej = int(rng.below(5)) == 0 ? int(rng.below(7)) : int(rng.below(3));
        bool rtl = rng.below(4) != 0, agree = mode == 0 || (mode == 2 && rng.below(4) != 0);
        uint64_t us[4];
        for (int k = 0; k < rej; ++k) {
            int w = int(rng.below(4));
            if (w == 0) { for (int i = 0; i < L; ++i) us[i] = 0; }                           // all-zero draws: the corner (-R, -R)
            else if (w == 1) { for (int i = 0; i < L; ++i) us[i] = ~0ull; }                  // all 255 bytes: the corner (R, R) (by design), the centre as coded
            else cand_words<T>(rng, us, L, 1);
            craft(s, rng, us, L, W, rtl, agree && w != 1);
        }
        cand_words<T>(rng, us, L, rng.below(6) == 0 ? 3 : rng.below(5) == 0 ? 2 : 0);
        craft(s, rng, us, L, W, rtl, agree);
        radii.push_back(radius<T>(rng));
    }
    if (rng.below(3) == 0 && s.size() > 6) s.resize(s.size() - 1 - rng.below(5));
    plant(s);
    for (T R : radii) region_call<L, T>(L == 2 ? "diskRand" : "ballRand", R);
    reset();
}
template<class T> void group_sphere(Rng& rng, int calls, int mode) {
    const int W = int(sizeof(T) * 8);
    const uint64_t M = W == 64 ? ~0ull : 0xffffffffull;
    std::vector<int> s; std::vector<std::pair<int, T>> todo;
    for (int c = 0; c < calls; ++c) {
        bool sph = rng.below(2) != 0, rtl = rng.below(4) != 0, agree = mode == 0 || (mode == 2 && rng.below(4) != 0);
        uint64_t u;
        switch (rng.below(7)) { case 0: u = 0; break; case 1: u = M; break; case 2: u = (M >> 2) + 1; break; case 3: u = (M >> 1) + 1; break; case 4: u = 3 * ((M >> 2) + 1); break; default: u = rng.next() & M; break; }
        craft(s, rng, &u, 1, W, rtl, agree);                                                 // the angle
        if (sph) {                                                                           // the height: poles, equator, anywhere
            switch (rng.below(6)) { case 0: u = 0; break; case 1: u = M; break; case 2: u = (M >> 1) + 1; break; case 3: u = M - rng.below(1 << 12); break; default: u = rng.next() & M; break; }
            craft(s, rng, &u, 1, W, rtl, agree);
        }
        todo.push_back(std::make_pair(sph ? 1 : 0, radius<T>(rng)));
    }
    plant(s);
    for (auto& t : todo) { if (t.first) sph_call<T>(t.second); else circ_call<T>(t.second); }
    reset();
}
template<class T> void gauss_params(Rng& rng, T& mean, T& dev) {
    switch (rng.below(8)) {
        case 0: mean = T(0); dev = T(1); break;
        case 1: mean = T(5); dev = T(1); break;
        case 2: mean = T(0); dev = T(3); break;
        case 3: mean = T(5); dev = T(3); break;
        case 4: mean = T(-2); dev = T(1) / T(2); break;
        case 5: mean = dy<T>((long long)rng.below(2001) - 1000, -3); dev = dy<T>((long long)rng.below(64) + 1, -3); break;
        case 6: mean = T(1000); dev = T(1) / T(10); break;
        default: mean = T(0); dev = T(0); break;
    }
}
template<class T> void gauss_words(Rng& rng, std::vector<int>& s, int mode) {
    const int W = int(sizeof(T) * 8);
    const uint64_t M = W == 64 ? ~0ull : 0xffffffffull, H = 1ull << (W - 1);
    int rej = rng.below(4) == 0 ? int(rng.below(6)) : int(rng.below(2));
    bool rtl = rng.below(4) != 0, agree = mode == 0 || (mode == 2 && rng.below(4) != 0);
    uint64_t u;
    for (int k = 0; k < rej; ++k) for (int j = 0; j < 2; ++j) {                                // pairs near the corners of the square: w > 1
        u = rng.below(2) ? M - rng.next() % (H >> 3) : rng.next() % (H >> 3);
        craft(s, rng, &u, 1, W, rtl, agree);
    }
    int w = int(rng.below(10));
    for (int j = 0; j < 2; ++j) {
        if (w == 0) u = (j == 0) ? M : H;                                                      // (1, 0): w = 1 exactly (by design)
        else if (w == 1) u = (j == 0) ? H : rng.next() & M;                                    // x1 = 0
        else if (w == 2) u = H + (H >> 1) + rng.below(9);                                      // (1/2, 1/2)
        else u = H - (H >> 1) + rng.next() % H;                                                // |x| <= 1/2
        craft(s, rng, &u, 1, W, rtl, agree);
    }
}
template<class T> void group_gauss(Rng& rng, int calls, int mode) {
    std::vector<int> s; std::vector<std::pair<T, T>> ps;
    for (int c = 0; c < calls; ++c) { gauss_words<T>(rng, s, mode); T m, d; gauss_params<T>(rng, m, d); ps.push_back(std::make_pair(m, d)); }
    plant(s);
    for (auto& p : ps) gauss_call<T>(p.first, p.second);
    reset();
}
template<int L, class T> void group_gauss_vec(Rng& rng, int calls, int mode) {
    std::vector<int> s; std::vector<std::pair<std::vector<T>, std::vector<T>>> ps;
    for (int c = 0; c < calls; ++c) {
        std::vector<T> m(4), d(4);
        for (int i = 0; i < L; ++i) { gauss_words<T>(rng, s, mode); gauss_params<T>(rng, m[i], d[i]); }
        ps.push_back(std::make_pair(m, d));
    }
    plant(s);
    for (auto& p : ps) {
        typedef glm::vec<L, T, glm::highp> V;
        V m = mkv<L, T>(p.first.data()), d = mkv<L, T>(p.second.data());
        rand_ev<V>("gaussRand", [&] { return glm::gaussRand(m, d); }, [&](Ev& e) { e.str("t", TI<T>::code()).num("n", L).arg(m).arg(d); });
    }
    reset();
}
// the pair (0, 0): w = 0
template<class T> void gauss_zero() {
    const int W = int(sizeof(T) * 8);
    for (int rtl = 0; rtl < 2; ++rtl) {
        std::vector<int> s;
        for (int j = 0; j < 2; ++j) for (int k = 0; k < W / 8; ++k) s.push_back(((rtl && k == W / 8 - 1) || (!rtl && k == 0)) ? 128 : 0);
        plant(s);
        gauss_call<T>(T(0), T(1));
        reset();
    }
}

// the adversarial constant sequences of the task: all zeros, all RAND_MAX, alternating, 255 / 256 boundaries
static void fixed_sequences() {
    const int RM = 2147483647;
    std::vector<std::vector<int>> seqs;
    seqs.push_back(std::vector<int>(64, 0));
    seqs.push_back(std::vector<int>(64, RM));
    { std::vector<int> a; for (int i = 0; i < 64; ++i) a.push_back(i % 2 ? RM : 0); seqs.push_back(a); }
    { std::vector<int> a; for (int i = 0; i < 64; ++i) a.push_back(i % 2 ? 0 : RM); seqs.push_back(a); }
    { std::vector<int> a; const int b[] = {254, 255, 256, 257, 509, 510, 511, 512, 65279, 65280, 65281, 65535, 65536, 0, 1, 127, 128, 129, 32767, 32768, RM - 1, RM, 16777215, 16777216}; for (int i = 0; i < 72; ++i) a.push_back(b[i % 24]); seqs.push_back(a); }
    seqs.push_back(std::vector<int>(64, 255));
    seqs.push_back(std::vector<int>(64, 254));
    seqs.push_back(std::vector<int>(64, 256));
    seqs.push_back(std::vector<int>());                                                        // the constant tail only
    for (auto& q : seqs) {
        plant(q);
        { unsigned char a = 0, b = 254; lin_int_scalar<unsigned char>(a, b); }
        { unsigned char a = 1, b = 255; lin_int_scalar<unsigned char>(a, b); }
        { signed char a = -128, b = 126; lin_int_scalar<signed char>(a, b); }
        { unsigned short a = 0, b = 65534; lin_int_scalar<unsigned short>(a, b); }
        { unsigned short mn[4] = {0, 1, 256, 65279}, mx[4] = {65534, 65535, 511, 65535}; lin_int<4, unsigned short>(mn, mx); }
        { short mn[4] = {-32768, -1, 0, -32767}, mx[4] = {32766, 1, 0, 32767}; lin_int<3, short>(mn, mx); }
        { int a = -2147483647, b = 2147483646; lin_int_scalar<int>(a, b); }
        { unsigned a = 0, b = 0xfffffffeu; lin_int_scalar<unsigned>(a, b); }
        { glm::uint64 a = 0, b = 0xfffffffffffffffeull; lin_int_scalar<glm::uint64>(a, b); }
        { glm::int64 mn[4] = {-5, 0, 0, 0}, mx[4] = {5, 0x7ffffffffffffffell, 1, 2}; lin_int<2, glm::int64>(mn, mx); }
        lin_flt_scalar<float>(0.0f, 1.0f); lin_flt_scalar<double>(0.0, 1.0);
        { float mn[4] = {-1, 0, 5, -3}, mx[4] = {1, 6.28318548f, 5, 7.25f}; lin_flt<4, float>(mn, mx); }
        { double mn[4] = {-1, 0, 5, -3}, mx[4] = {1, 6.283185307179586, 5, 7.25}; lin_flt<3, double>(mn, mx); }
        reset();
        // the loops on the same sequences: the coded generator leaves the corner candidates of an all-zero sequence only through the tail
        plant(q);
        region_call<2, float>("diskRand", 1.0f); region_call<3, float>("ballRand", 2.0f); region_call<2, double>("diskRand", 0.5);
        circ_call<float>(1.0f); sph_call<float>(1.0f); gauss_call<float>(0.0f, 1.0f); gauss_call<double>(1.0, 2.0);
        reset();
    }
    // the whole range of every integer type (Max + 1 - Min wraps to 0)
    plant(std::vector<int>(40, 77));
    lin_int_scalar<unsigned char>(0, 255); lin_int_scalar<signed char>(-128, 127); lin_int_scalar<unsigned short>(0, 65535); lin_int_scalar<short>(-32768, 32767);
    lin_int_scalar<unsigned>(0u, 0xffffffffu); lin_int_scalar<int>(-2147483647 - 1, 2147483647);
    lin_int_scalar<glm::uint64>(0ull, ~0ull); lin_int_scalar<glm::int64>(std::numeric_limits<glm::int64>::min(), std::numeric_limits<glm::int64>::max());
    { unsigned char mn[4] = {0, 3, 0, 0}, mx[4] = {255, 9, 255, 7}; lin_int<3, unsigned char>(mn, mx); }
    reset();
}

// binding evidence: the draws of a GLM call come from the planted sequence
static void bind_event() {
    std::vector<int> s = {11, 22, 33, 44, 55, 66, 77, 88, 99};
    plant(s);
    { unsigned char a = 0, b = 200; lin_int_scalar<unsigned char>(a, b); }
    { unsigned mn[4] = {0, 0, 0, 0}, mx[4] = {0xfffffff0u, 0xfffffff0u, 0, 0}; lin_int<2, unsigned>(mn, mx); }
    reset();
}

template<class T> void gen_random(Rng& rng, int g) {                                       // one round of groups
    int mode = g % 3 == 2 ? 1 : (g % 3 == 1 ? 2 : 0);                                      // draws: agreeing under both byte reductions / any / mixed
    group_flt<1, T>(rng, 10, mode); group_flt<2, T>(rng, 6, mode); group_flt<3, T>(rng, 5, mode); group_flt<4, T>(rng, 5, mode);
    group_region<2, T>(rng, 8, mode); group_region<3, T>(rng, 8, mode);
    group_sphere<T>(rng, 10, mode);
    group_gauss<T>(rng, 10, mode);
    group_gauss_vec<2, T>(rng, 3, mode);
    if (g_thorough) { group_gauss_vec<3, T>(rng, 2, mode); group_gauss_vec<4, T>(rng, 2, mode); }
}
static void gen_random_int(Rng& rng, int g) {
    int mode = g % 3 == 2 ? 1 : (g % 3 == 1 ? 2 : 0);
    group_int_scalar<signed char>(rng, 12, mode); group_int_scalar<unsigned char>(rng, 12, mode);
    group_int_scalar<short>(rng, 10, mode); group_int_scalar<unsigned short>(rng, 10, mode);
    group_int_scalar<int>(rng, 10, mode); group_int_scalar<unsigned>(rng, 10, mode);
    group_int_scalar<glm::int64>(rng, 8, mode); group_int_scalar<glm::uint64>(rng, 8, mode);
    group_int<2, unsigned char>(rng, 8, mode); group_int<3, unsigned char>(rng, 8, mode); group_int<4, unsigned char>(rng, 8, mode);
    group_int<4, signed char>(rng, 6, mode);
    group_int<2, unsigned short>(rng, 6, mode); group_int<3, short>(rng, 6, mode);
    group_int<4, unsigned>(rng, 5, mode); group_int<2, int>(rng, 5, mode);
    group_int<3, glm::uint64>(rng, 4, mode); group_int<2, glm::int64>(rng, 4, mode);
    if (g_thorough) {
        group_int<2, signed char>(rng, 6, mode); group_int<3, signed char>(rng, 6, mode); group_int<4, unsigned short>(rng, 6, mode); group_int<2, short>(rng, 6, mode); group_int<4, short>(rng, 6, mode);
        group_int<3, unsigned short>(rng, 6, mode); group_int<2, unsigned>(rng, 5, mode); group_int<3, unsigned>(rng, 5, mode); group_int<3, int>(rng, 5, mode); group_int<4, int>(rng, 5, mode);
        group_int<2, glm::uint64>(rng, 4, mode); group_int<4, glm::uint64>(rng, 4, mode); group_int<3, glm::int64>(rng, 4, mode); group_int<4, glm::int64>(rng, 4, mode);
    }
}

// ================================================================== Part 2: noise
template<int L, class T> T perlin_at(const T* c) { return glm::perlin(mkv<L, T>(c)); }
template<int L, class T> T perlin_rep(const T* c, const T* rep) { return glm::perlin(mkv<L, T>(c), mkv<L, T>(rep)); }
template<int L, class T> T simplex_at(const T* c) { return glm::simplex(mkv<L, T>(c)); }

template<int L, class T> void ev_perlin(const T* c, int exact = 0) {
    glm::vec<L, T, glm::highp> p = mkv<L, T>(c); T r = glm::perlin(p);
    Ev e("perlin"); e.str("t", TI<T>::code()).num("n", L); if (exact) e.num("x", 1); e.arg(p).res(r).emit();
}
template<int L, class T> void ev_simplex(const T* c) {
    glm::vec<L, T, glm::highp> p = mkv<L, T>(c); T r = glm::simplex(p);
    Ev("simplex").str("t", TI<T>::code()).num("n", L).arg(p).res(r).emit();
}
template<int L, class T> void ev_perlin_rep(const T* c, const T* rep, const T* c2) {           // c2 = c + k * rep
    glm::vec<L, T, glm::highp> p = mkv<L, T>(c), q = mkv<L, T>(c2), rp = mkv<L, T>(rep);
    T r = glm::perlin(p, rp), r2 = glm::perlin(q, rp);
    Ev("perlinRep").str("t", TI<T>::code()).num("n", L).arg(p).arg(rp).arg(q).res(r).val("r2", r2).emit();
}
template<int L, class T> void ev_shift289(const T* c, const T* c2) {
    glm::vec<L, T, glm::highp> p = mkv<L, T>(c), q = mkv<L, T>(c2);
    T r = glm::perlin(p), r2 = glm::perlin(q);
    Ev("perlin289").str("t", TI<T>::code()).num("n", L).arg(p).arg(q).res(r).val("r2", r2).emit();
}
template<int L, class T> void ev_rep289(const T* c) {
    glm::vec<L, T, glm::highp> p = mkv<L, T>(c), rp(T(289));
    T r = glm::perlin(p), r2 = glm::perlin(p, rp);
    Ev("perlinRep289").str("t", TI<T>::code()).num("n", L).arg(p).res(r).val("r2", r2).emit();
}
template<int L, class T> void ev_pair(bool simplex, const T* c, const T* c2) {
    glm::vec<L, T, glm::highp> p = mkv<L, T>(c), q = mkv<L, T>(c2);
    T r = simplex ? glm::simplex(p) : glm::perlin(p), r2 = simplex ? glm::simplex(q) : glm::perlin(q);
    Ev(simplex ? "simplexPair" : "perlinPair").str("t", TI<T>::code()).num("n", L).arg(p).arg(q).res(r).val("r2", r2).emit();
}
template<int L, class T> void ev_pair_rep(const T* c, const T* c2, const T* rep) {
    glm::vec<L, T, glm::highp> p = mkv<L, T>(c), q = mkv<L, T>(c2), rp = mkv<L, T>(rep);
    T r = glm::perlin(p, rp), r2 = glm::perlin(q, rp);
    Ev("perlinRepPair").str("t", TI<T>::code()).num("n", L).arg(p).arg(q).arg(rp).res(r).val("r2", r2).emit();
}
template<class T> void rnd_point(Rng& rng, T* c, int maxscale) {                             // dyadic point, 20 significant bits, magnitude up to 2^maxscale
    int sc = int(rng.below(maxscale + 1));
    for (int k = 0; k < 4; ++k) c[k] = dy<T>((long long)rng.below(1 << 20) - (1 << 19), sc - 19);
}
template<int L, class T> void gen_noise(uint64_t seed) {
    const bool F = std::is_same<T, float>::value;
    Rng rng(seed);
    const int M = g_thorough ? 8 : 1;
    T c[4], c2[4], rep[4];
    // lattice points: small, around multiples of 289, up to 2^20, negative
    for (int it = 0; it < 90 * M; ++it) {
        int sc = int(rng.below(21)); long long R = 1ll << sc;
        for (int k = 0; k < 4; ++k) c[k] = T((long long)rng.below(2 * R + 1) - R);
        if (it % 7 == 0) for (int k = 0; k < 4; ++k) c[k] = T(289 * ((long long)rng.below(9) - 4) + (long long)rng.below(3) - 1);
        ev_perlin<L, T>(c);
        if (it % 3 == 0) ev_simplex<L, T>(c);
    }
    // random dyadic points at all scales up to 2^20; outside the domain now and then
    for (int it = 0; it < 110 * M; ++it) {
        rnd_point<T>(rng, c, 20);
        ev_perlin<L, T>(c); ev_simplex<L, T>(c);
    }
    c[0] = dy<T>(3, 40); c[1] = T(0.5); c[2] = T(0.25); c[3] = T(0); ev_perlin<L, T>(c); ev_simplex<L, T>(c);
    c[0] = std::numeric_limits<T>::infinity(); ev_perlin<L, T>(c); c[0] = std::numeric_limits<T>::quiet_NaN(); ev_simplex<L, T>(c);
    // hill climbing for large |noise| (chooses inputs only)
    for (int which = 0; which < 2; ++which) for (int start = 0; start < 6 * M; ++start) {
        rnd_point<T>(rng, c, 7);
        T best = std::fabs(which ? simplex_at<L, T>(c) : perlin_at<L, T>(c));
        for (int step = 0; step < 60; ++step) {
            for (int k = 0; k < 4; ++k) c2[k] = c[k] + dy<T>((long long)rng.below(129) - 64, -9 - int(rng.below(6)));
            T v = std::fabs(which ? simplex_at<L, T>(c2) : perlin_at<L, T>(c2));
            if (v > best) { best = v; for (int k = 0; k < 4; ++k) c[k] = c2[k]; }
        }
        if (which) ev_simplex<L, T>(c); else ev_perlin<L, T>(c);
    }
    // periodic variant: p and p + k rep (integer periods, exact additions)
    for (int it = 0; it < 70 * M; ++it) {
        int sc = int(rng.below(10));
        for (int k = 0; k < 4; ++k) {
            c[k] = dy<T>((long long)rng.below(1 << 12) - (1 << 11), sc - 8);
            rep[k] = T(1 + (long long)rng.below(it % 3 ? 8 : 400));
            c2[k] = c[k] + T((long long)rng.below(9) - 4) * rep[k];
        }
        if (it % 9 == 0) { rep[0] = T(289); rep[1] = T(290); rep[2] = T(1); rep[3] = T(578); for (int k = 0; k < 4; ++k) c2[k] = c[k] + T((long long)rng.below(5) - 2) * rep[k]; }
        ev_perlin_rep<L, T>(c, rep, c2);
        if (it % 10 == 0) { rep[0] = T(2.5); ev_perlin_rep<L, T>(c, rep, c2); rep[0] = T(0); ev_perlin_rep<L, T>(c, rep, c2); rep[0] = T(-3); ev_perlin_rep<L, T>(c, rep, c); }      // outside the domain
    }
    // the periodic variant is continuous as well, in particular across the planes where the lattice index wraps (multiples of rep)
    for (int it = 0; it < 40 * M; ++it) {
        rnd_point<T>(rng, c, 5);
        for (int k = 0; k < 4; ++k) rep[k] = T(1 + (long long)rng.below(6));
        int ax = int(rng.below(L)); int hb = F ? 12 + int(rng.below(6)) : 12 + int(rng.below(30));
        if (it % 4 != 3) c[ax] = rep[ax] * T((long long)rng.below(7) - 3) - dy<T>(1, -hb - 1);                        // just below a wrap plane
        for (int k = 0; k < 4; ++k) c2[k] = c[k];
        c2[ax] = c[ax] + dy<T>(1, -hb);
        ev_pair_rep<L, T>(c, c2, rep);
    }
    // period 289 of the permutation, perlin(p) against perlin(p, 289)
    for (int it = 0; it < 50 * M; ++it) {
        int sc = int(rng.below(10));
        for (int k = 0; k < 4; ++k) { c[k] = dy<T>((long long)rng.below(1 << 12) - (1 << 11), sc - 8); c2[k] = c[k] + T(289 * ((long long)rng.below(9) - 4)); }
        ev_shift289<L, T>(c, c2);
        ev_rep289<L, T>(c);
    }
    // continuity: neighbours one step apart along an axis - random, straddling integer planes, and the pairs with the largest
    // difference found by a search (chooses inputs only)
    for (int which = 0; which < 2; ++which) {
        for (int it = 0; it < 40 * M; ++it) {
            rnd_point<T>(rng, c, 6);
            int ax = int(rng.below(L)); int hb = F ? 12 + int(rng.below(8)) : 12 + int(rng.below(30));
            if (it % 4 == 0) { c[ax] = T((long long)rng.below(33) - 16) - dy<T>(1, -hb - 1); }                      // just below an integer plane
            for (int k = 0; k < 4; ++k) c2[k] = c[k];
            c2[ax] = c[ax] + dy<T>(1, -hb);
            ev_pair<L, T>(which != 0, c, c2);
        }
        // points whose coordinate differences are all integers (the diagonals of the skewed cells: ties of the rank ordering of simplex)
        for (int it = 0; it < 10 * M; ++it) {
            T t = dy<T>((long long)rng.below(257) - 128, -6);
            for (int k = 0; k < 4; ++k) c[k] = t + T((long long)rng.below(7) - 3);
            if (it == 0) for (int k = 0; k < 4; ++k) c[k] = T(0.5);
            int ax = int(rng.below(L)); int hb = F ? 18 : 30;
            for (int k = 0; k < 4; ++k) c2[k] = c[k];
            c2[ax] = c[ax] + dy<T>((it % 2) ? 1 : -1, -hb);
            ev_pair<L, T>(which != 0, c, c2);
        }
        // jump search: a segment along an axis is split into quarters again and again, always keeping the quarter whose increment
        // differs most from the median of the four (a smooth function has four nearly equal increments, a jump stays in one quarter)
        struct Best { T d; T a[4], b[4]; };
        std::vector<Best> top;
        const int levels = F ? 5 : 11;                                                        // 2^-8 -> 2^-18 (float) / 2^-30 (double)
        for (int it = 0; it < (g_thorough ? 12000 : 2500); ++it) {
            for (int k = 0; k < 4; ++k) c[k] = dy<T>((long long)rng.below(1 << 10) - (1 << 9), -8);       // |c| <= 2
            int ax = int(rng.below(L));
            T lo = c[ax]; int hb = 8;
            for (int lv = 0; lv < levels; ++lv) {
                T v[5], inc[4];
                for (int q = 0; q < 5; ++q) { c[ax] = lo + dy<T>(q, -hb - 2); v[q] = which ? simplex_at<L, T>(c) : perlin_at<L, T>(c); }
                for (int q = 0; q < 4; ++q) inc[q] = v[q + 1] - v[q];
                T srt[4] = {inc[0], inc[1], inc[2], inc[3]}; std::sort(srt, srt + 4);
                T med = (srt[1] + srt[2]) / T(2);
                int bq = 0; for (int q = 1; q < 4; ++q) if (std::fabs(inc[q] - med) > std::fabs(inc[bq] - med)) bq = q;
                lo = lo + dy<T>(bq, -hb - 2); hb += 2;
            }
            c[ax] = lo; for (int k = 0; k < 4; ++k) c2[k] = c[k];
            c2[ax] = lo + dy<T>(1, -hb);
            T d = which ? std::fabs(simplex_at<L, T>(c) - simplex_at<L, T>(c2)) : std::fabs(perlin_at<L, T>(c) - perlin_at<L, T>(c2));
            if (top.size() < 8 || d > top.back().d) {
                Best b; b.d = d; for (int k = 0; k < 4; ++k) { b.a[k] = c[k]; b.b[k] = c2[k]; }
                top.push_back(b); std::sort(top.begin(), top.end(), [](Best const& x, Best const& y) { return x.d > y.d; });
                if (top.size() > 8) top.pop_back();
            }
        }
        for (auto& b : top) ev_pair<L, T>(which != 0, b.a, b.b);
    }
}
// points for the IEEE transcription of perlin(vec2) (float): few-bit dyadics, full-mantissa values, large and negative coordinates
static void gen_perlin2_exact(uint64_t seed) {
    Rng rng(seed);
    float c[4] = {0, 0, 0, 0};
    const int N = g_thorough ? 1500 : 260;
    for (int it = 0; it < N; ++it) {
        switch (it % 5) {
            case 0: c[0] = dy<float>((long long)rng.below(1 << 10) - (1 << 9), -5); c[1] = dy<float>((long long)rng.below(1 << 10) - (1 << 9), -5); break;
            case 1: c[0] = from_bits<float>(0x3f000000u + uint32_t(rng.below(0x03000000u))) * (rng.below(2) ? 1.0f : -1.0f); c[1] = from_bits<float>(0x3e000000u + uint32_t(rng.below(0x05000000u))); break;
            case 2: { int e0 = 4 + int(rng.below(20)), e1 = 4 + int(rng.below(20)); c[0] = dy<float>((long long)rng.below(1 << 24), -e0); c[1] = -dy<float>((long long)rng.below(1 << 24), -e1); break; }
            case 3: c[0] = float(289 * ((long long)rng.below(7) - 3)) + dy<float>((long long)rng.below(64), -6); c[1] = float((long long)rng.below(600) - 300) + dy<float>((long long)rng.below(64), -6); break;
            default: c[0] = dy<float>((long long)rng.below(1 << 16) - (1 << 15), -12); c[1] = dy<float>((long long)rng.below(1 << 16) - (1 << 15), -12); break;
        }
        ev_perlin<2, float>(c, 1);
    }
}

static void body(int argc, char** argv) {
    g_thorough = argc > 2 && std::string(argv[2]) == "thorough";
    std::signal(SIGFPE, on_fpe);
    uint64_t seed = seed_from_env();
    reset();
    bind_event();
    fixed_sequences();
    gauss_zero<float>(); gauss_zero<double>();
    // rounds of generator groups (stateful, delimited by Reset markers) interleaved with the stateless noise events, so that the
    // chunks of the trace cost about the same
    Rng ri(seed * 77 + 1), rf(seed * 77 + 2), rd(seed * 77 + 3);
    const int G = g_thorough ? 30 : 5;
    for (int g = 0; g < G; ++g) {
        gen_random_int(ri, g); gen_random<float>(rf, g); gen_random<double>(rd, g);
        int slot = g_thorough ? (g % 5 == 0 ? g / 5 : -1) : g;
        if (slot == 0) gen_noise<2, float>(seed * 77 + 4);
        if (slot == 1) gen_noise<3, float>(seed * 77 + 5);
        if (slot == 2) gen_noise<4, float>(seed * 77 + 6);
        if (slot == 3) gen_noise<2, double>(seed * 77 + 7);
        if (slot == 4) { gen_noise<3, double>(seed * 77 + 8); gen_noise<4, double>(seed * 77 + 9); }
        if (slot == 5) gen_perlin2_exact(seed * 77 + 10);
    }
    if (!g_thorough) gen_perlin2_exact(seed * 77 + 10);
    reset();
}
int main(int argc, char** argv) { return run_main(argc, argv, body); }
