// C14 harness: ULP stepping, float distance, ULP / epsilon comparisons; float and double; scalar, vector, matrix, quaternion.
//   c14 <trace-out> events <mode>
//   c14 <trace-out> sweep            all 2^32 floats through nextFloat / prevFloat (E5)
#include "common.hpp"
#include <glm/gtc/ulp.hpp>
#include <glm/gtc/epsilon.hpp>
#include <glm/ext/scalar_ulp.hpp>
#include <glm/ext/vector_ulp.hpp>
#include <glm/ext/scalar_relational.hpp>
#include <glm/ext/vector_relational.hpp>
#include <glm/ext/matrix_relational.hpp>
#include <glm/ext/quaternion_relational.hpp>
#include <thread>
#include <atomic>
#include <mutex>
using namespace vh;
static bool g_thorough = false;
#define EV(OP, T, L) Ev(OP).str("t", TI<T>::code()).num("n", L)
// Reset markers: places where the stateful trace (walk state) may be cut into chunks
static void tick() { static unsigned n = 0; if (++n % 64 == 0) marker("Reset"); }

template<class T> struct UB; template<> struct UB<float> { typedef uint32_t u; typedef int d; }; template<> struct UB<double> { typedef uint64_t u; typedef glm::int64 d; };
template<class T> T fb(uint64_t b) { return from_bits<T>(b); }
template<int L, class T, glm::qualifier Q> glm::vec<L, T, Q> mkvec(const uint64_t* b) { glm::vec<L, T, Q> v; for (int i = 0; i < L; ++i) v[i] = from_bits<T>(b[i]); return v; }

// position on the ordered line helpers used only to CONSTRUCT inputs (never to judge)
template<class T> uint64_t step_bits(uint64_t b, long k) {
    constexpr int W = int(sizeof(T) * 8); const uint64_t SIGN = 1ull << (W - 1);
    __int128 pos = (b & SIGN) ? -(__int128)(b & (SIGN - 1)) : (__int128)(b & (SIGN - 1));
    pos += k;
    if (pos < 0) return SIGN | uint64_t(-pos); return uint64_t(pos);
}
template<class T> std::vector<uint64_t> anchors() {
    std::vector<uint64_t> v;
    constexpr int W = int(sizeof(T) * 8); constexpr int MB = W == 32 ? 23 : 52; const uint64_t SIGN = 1ull << (W - 1);
    const uint64_t EMAX = (W == 32 ? 0xFFull : 0x7FFull);
    for (uint64_t e = 0; e < EMAX; e += (e < 4 || e + 4 >= EMAX || g_thorough ? 1 : (W == 32 ? 9 : 67))) {
        uint64_t base = e << MB;
        for (long d : { 0L, 1L, 2L, -1L, -2L }) { if (e == 0 && d < 0) continue; uint64_t p = base + uint64_t(d); v.push_back(p); v.push_back(p | SIGN); }
    }
    uint64_t one = (W == 32 ? 0x3F800000ull : 0x3FF0000000000000ull), maxf = (EMAX << MB) - 1;
    const std::vector<uint64_t> extra = { one, one + 1, one - 1, maxf, maxf - 1, uint64_t(0), uint64_t(1), uint64_t(2), uint64_t(3), (uint64_t(1) << MB) - 1, (uint64_t(1) << MB), (uint64_t(1) << MB) + 1,
                        uint64_t(W == 32 ? 0x7F000000ull : 0x47F0000000000000ull), uint64_t(W == 32 ? 0x7F000001ull : 0x47F0000000000001ull), uint64_t(W == 32 ? 0x7EFFFFFFull : 0x47EFFFFFFFFFFFFFull),
                        uint64_t(W == 32 ? 0x40490FDBull : 0x400921FB54442D18ull) };
    for (uint64_t p : extra) { v.push_back(p); v.push_back(p | SIGN); }
    return v;
}

template<class T> void step_events(uint64_t b) {
    typedef typename UB<T>::d D;
    tick();
    T x = fb<T>(b);
    { T r = glm::nextFloat(x); EV("nextFloat", T, 0).arg(x).res(r).emit(); }
    { T r = glm::prevFloat(x); EV("prevFloat", T, 0).arg(x).res(r).emit(); }
    { T r = glm::next_float(x); EV("nextFloat", T, 0).arg(x).res(r).emit(); }
    { T r = glm::prev_float(x); EV("prevFloat", T, 0).arg(x).res(r).emit(); }
    for (int k : { 0, 1, 2, 3, 7, 64 }) {
        { T r = glm::nextFloat(x, k); EV("nextFloatN", T, 0).arg(x).arg(k).res(r).emit(); D d = glm::floatDistance(x, r); EV("floatDistance", T, 0).arg(x).arg(r).res(d).emit(); }
        { T r = glm::prevFloat(x, k); EV("prevFloatN", T, 0).arg(x).arg(k).res(r).emit(); D d = glm::floatDistance(r, x); EV("floatDistance", T, 0).arg(r).arg(x).res(d).emit(); }
    }
    { T r = glm::next_float(x, 5); EV("nextFloatN", T, 0).arg(x).arg(5).res(r).emit(); D d = glm::float_distance(x, r); EV("floatDistance", T, 0).arg(x).arg(r).res(d).emit(); }
    { T r = glm::prev_float(x, 5); EV("prevFloatN", T, 0).arg(x).arg(5).res(r).emit(); }
}
template<int L, class T, glm::qualifier Q> void step_vec(const uint64_t* b, int k) {
    typedef typename UB<T>::d D;
    glm::vec<L, T, Q> x = mkvec<L, T, Q>(b);
    glm::vec<L, int, Q> kv; for (int i = 0; i < L; ++i) kv[i] = (k + 3 * i) % 9;
    { auto r = glm::nextFloat(x); EV("nextFloat", T, L).arg(x).res(r).emit(); }
    { auto r = glm::prevFloat(x); EV("prevFloat", T, L).arg(x).res(r).emit(); }
    { auto r = glm::nextFloat(x, k); EV("nextFloatN", T, L).arg(x).arg(k).res(r).emit(); glm::vec<L, D, Q> d = glm::floatDistance(x, r); EV("floatDistance", T, L).arg(x).arg(r).res(d).emit(); }
    { auto r = glm::prevFloat(x, k); EV("prevFloatN", T, L).arg(x).arg(k).res(r).emit(); }
    { auto r = glm::nextFloat(x, kv); EV("nextFloatN", T, L).arg(x).arg(kv).res(r).emit(); }
    { auto r = glm::prevFloat(x, kv); EV("prevFloatN", T, L).arg(x).arg(kv).res(r).emit(); glm::vec<L, D, Q> d = glm::floatDistance(r, x); EV("floatDistance", T, L).arg(r).arg(x).res(d).emit(); }
    { auto r = glm::next_float(x, kv); EV("nextFloatN", T, L).arg(x).arg(kv).res(r).emit(); }
    { auto r = glm::prev_float(x, k); EV("prevFloatN", T, L).arg(x).arg(k).res(r).emit(); }
}

// ULP comparisons on a pair at a chosen distance
template<class T> void ulp_pair(uint64_t xb, uint64_t yb, int n) {
    tick();
    T x = fb<T>(xb), y = fb<T>(yb);
    { bool r = glm::equal(x, y, n);    EV("equalUlps", T, 0).arg(x).arg(y).arg(n).res(r).emit(); }
    { bool r = glm::notEqual(x, y, n); EV("notEqualUlps", T, 0).arg(x).arg(y).arg(n).res(r).emit(); }
}
template<int L, class T, glm::qualifier Q> void ulp_vec(const uint64_t* xb, const uint64_t* yb, int n) {
    glm::vec<L, T, Q> x = mkvec<L, T, Q>(xb), y = mkvec<L, T, Q>(yb);
    glm::vec<L, int, Q> nv; for (int i = 0; i < L; ++i) nv[i] = (n + i) % 70;
    { glm::vec<L, bool, Q> r = glm::equal(x, y, n);     EV("equalUlps", T, L).arg(x).arg(y).arg(n).res(r).emit(); }
    { glm::vec<L, bool, Q> r = glm::notEqual(x, y, n);  EV("notEqualUlps", T, L).arg(x).arg(y).arg(n).res(r).emit(); }
    { glm::vec<L, bool, Q> r = glm::equal(x, y, nv);    EV("equalUlps", T, L).arg(x).arg(y).arg(nv).res(r).emit(); }
    { glm::vec<L, bool, Q> r = glm::notEqual(x, y, nv); EV("notEqualUlps", T, L).arg(x).arg(y).arg(nv).res(r).emit(); }
}
template<int C, int R, class T> void ulp_mat(const uint64_t* xb, const uint64_t* yb, int n) {
    glm::mat<C, R, T, glm::defaultp> x, y;
    for (int c = 0; c < C; ++c) for (int r = 0; r < R; ++r) { x[c][r] = fb<T>(xb[(c * R + r) % 16]); y[c][r] = fb<T>(yb[(c * R + r) % 16]); }
    glm::vec<C, int, glm::defaultp> nv; for (int i = 0; i < C; ++i) nv[i] = (n + 2 * i) % 70;
    { glm::vec<C, bool, glm::defaultp> r = glm::equal(x, y, n);     EV("equalUlpsM", T, C).num("R", R).arg(x).arg(y).arg(n).res(r).emit(); }
    { glm::vec<C, bool, glm::defaultp> r = glm::notEqual(x, y, n);  EV("notEqualUlpsM", T, C).num("R", R).arg(x).arg(y).arg(n).res(r).emit(); }
    { glm::vec<C, bool, glm::defaultp> r = glm::equal(x, y, nv);    EV("equalUlpsM", T, C).num("R", R).arg(x).arg(y).arg(nv).res(r).emit(); }
    { glm::vec<C, bool, glm::defaultp> r = glm::notEqual(x, y, nv); EV("notEqualUlpsM", T, C).num("R", R).arg(x).arg(y).arg(nv).res(r).emit(); }
}

// epsilon comparisons
template<class T> void eps_scalar(uint64_t xb, uint64_t yb, uint64_t eb) {
    tick();
    T x = fb<T>(xb), y = fb<T>(yb), e = fb<T>(eb);
    { bool r = glm::equal(x, y, e);           EV("equalEps", T, 0).arg(x).arg(y).arg(e).res(r).emit(); }
    { bool r = glm::notEqual(x, y, e);        EV("notEqualEps", T, 0).arg(x).arg(y).arg(e).res(r).emit(); }
    { bool r = glm::epsilonEqual(x, y, e);    EV("epsilonEqual", T, 0).arg(x).arg(y).arg(e).res(r).emit(); }
    { bool r = glm::epsilonNotEqual(x, y, e); EV("epsilonNotEqual", T, 0).arg(x).arg(y).arg(e).res(r).emit(); }
}
template<int L, class T, glm::qualifier Q> void eps_vec(const uint64_t* xb, const uint64_t* yb, const uint64_t* eb) {
    glm::vec<L, T, Q> x = mkvec<L, T, Q>(xb), y = mkvec<L, T, Q>(yb), e = mkvec<L, T, Q>(eb); T es = fb<T>(eb[0]);
    { glm::vec<L, bool, Q> r = glm::equal(x, y, e);            EV("equalEps", T, L).arg(x).arg(y).arg(e).res(r).emit(); }
    { glm::vec<L, bool, Q> r = glm::equal(x, y, es);           EV("equalEps", T, L).arg(x).arg(y).arg(es).res(r).emit(); }
    { glm::vec<L, bool, Q> r = glm::notEqual(x, y, e);         EV("notEqualEps", T, L).arg(x).arg(y).arg(e).res(r).emit(); }
    { glm::vec<L, bool, Q> r = glm::notEqual(x, y, es);        EV("notEqualEps", T, L).arg(x).arg(y).arg(es).res(r).emit(); }
    { glm::vec<L, bool, Q> r = glm::epsilonEqual(x, y, e);     EV("epsilonEqual", T, L).arg(x).arg(y).arg(e).res(r).emit(); }
    { glm::vec<L, bool, Q> r = glm::epsilonEqual(x, y, es);    EV("epsilonEqual", T, L).arg(x).arg(y).arg(es).res(r).emit(); }
    { glm::vec<L, bool, Q> r = glm::epsilonNotEqual(x, y, e);  EV("epsilonNotEqual", T, L).arg(x).arg(y).arg(e).res(r).emit(); }
    { glm::vec<L, bool, Q> r = glm::epsilonNotEqual(x, y, es); EV("epsilonNotEqual", T, L).arg(x).arg(y).arg(es).res(r).emit(); }
}
template<int C, int R, class T> void eps_mat(const uint64_t* xb, const uint64_t* yb, const uint64_t* eb) {
    glm::mat<C, R, T, glm::defaultp> x, y;
    for (int c = 0; c < C; ++c) for (int r = 0; r < R; ++r) { x[c][r] = fb<T>(xb[(c * R + r) % 16]); y[c][r] = fb<T>(yb[(c * R + r) % 16]); }
    glm::vec<C, T, glm::defaultp> e; for (int i = 0; i < C; ++i) e[i] = fb<T>(eb[i % 4]); T es = fb<T>(eb[0]);
    { glm::vec<C, bool, glm::defaultp> r = glm::equal(x, y, es);    EV("equalEpsM", T, C).num("R", R).arg(x).arg(y).arg(es).res(r).emit(); }
    { glm::vec<C, bool, glm::defaultp> r = glm::equal(x, y, e);     EV("equalEpsM", T, C).num("R", R).arg(x).arg(y).arg(e).res(r).emit(); }
    { glm::vec<C, bool, glm::defaultp> r = glm::notEqual(x, y, es); EV("notEqualEpsM", T, C).num("R", R).arg(x).arg(y).arg(es).res(r).emit(); }
    { glm::vec<C, bool, glm::defaultp> r = glm::notEqual(x, y, e);  EV("notEqualEpsM", T, C).num("R", R).arg(x).arg(y).arg(e).res(r).emit(); }
}
template<class T> void eps_quat(const uint64_t* xb, const uint64_t* yb, uint64_t eb) {
    glm::qua<T, glm::defaultp> x = glm::qua<T, glm::defaultp>::wxyz(fb<T>(xb[3]), fb<T>(xb[0]), fb<T>(xb[1]), fb<T>(xb[2])), y = glm::qua<T, glm::defaultp>::wxyz(fb<T>(yb[3]), fb<T>(yb[0]), fb<T>(yb[1]), fb<T>(yb[2]));
    glm::vec<4, T, glm::defaultp> xv(x.x, x.y, x.z, x.w), yv(y.x, y.y, y.z, y.w); T e = fb<T>(eb);
    { glm::vec<4, bool, glm::defaultp> r = glm::equal(x, y, e);           EV("equalEps", T, 4).str("q", "1").arg(xv).arg(yv).arg(e).res(r).emit(); }
    { glm::vec<4, bool, glm::defaultp> r = glm::notEqual(x, y, e);        EV("notEqualEps", T, 4).str("q", "1").arg(xv).arg(yv).arg(e).res(r).emit(); }
    { glm::vec<4, bool, glm::defaultp> r = glm::epsilonEqual(x, y, e);    EV("epsilonEqual", T, 4).str("q", "1").arg(xv).arg(yv).arg(e).res(r).emit(); }
    { glm::vec<4, bool, glm::defaultp> r = glm::epsilonNotEqual(x, y, e); EV("epsilonNotEqual", T, 4).str("q", "1").arg(xv).arg(yv).arg(e).res(r).emit(); }
}

// a walk: multi-step behaviour validated statefully by the trace specification
template<class T> void walk(uint64_t start, Rng& rng, int len) {
    T cur = fb<T>(start);
    marker("Reset");
    EV("walkStart", T, 0).arg(cur).emit();
    for (int i = 0; i < len; ++i) {
        int c = int(rng.below(6));
        if (c == 0) { cur = glm::nextFloat(cur); EV("walkStep", T, 0).num("k", 1).res(cur).emit(); }
        else if (c == 1) { cur = glm::prevFloat(cur); EV("walkStep", T, 0).num("k", -1).res(cur).emit(); }
        else if (c == 2) { int k = int(rng.below(9)); cur = glm::nextFloat(cur, k); EV("walkStep", T, 0).num("k", k).res(cur).emit(); }
        else if (c == 3) { int k = int(rng.below(9)); cur = glm::prevFloat(cur, k); EV("walkStep", T, 0).num("k", -k).res(cur).emit(); }
        else if (c == 4) { cur = glm::prev_float(cur); EV("walkStep", T, 0).num("k", -1).res(cur).emit(); }
        else { int k = int(rng.below(4)); cur = glm::next_float(cur, k); EV("walkStep", T, 0).num("k", k).res(cur).emit(); }
    }
}

template<class T> void drive(Rng& rng) {
    typedef typename UB<T>::u U;
    constexpr int W = int(sizeof(T) * 8); const uint64_t SIGN = 1ull << (W - 1);
    std::vector<uint64_t> A = anchors<T>();
    for (uint64_t a : A) step_events<T>(a);
    for (size_t i = 0; i < A.size(); ++i) { uint64_t b[4] = { A[i], A[(i + 1) % A.size()], A[(i + 5) % A.size()], A[(i + 11) % A.size()] }; int k = int(i % 9);
        switch (i % 6) { case 0: step_vec<1, T, glm::defaultp>(b, k); break; case 1: step_vec<2, T, glm::defaultp>(b, k); break; case 2: step_vec<3, T, glm::defaultp>(b, k); break;
                         case 3: step_vec<4, T, glm::defaultp>(b, k); break; case 4: step_vec<3, T, glm::mediump>(b, k); break; default: step_vec<4, T, glm::lowp>(b, k); } }
    for (int i = 0; i < (g_thorough ? 20000 : 1500); ++i) { uint64_t r = rng.next(); if (W == 32) r &= 0xFFFFFFFFull; if (((r & (SIGN - 1)) >> (W == 32 ? 23 : 52)) >= (W == 32 ? 0xFFu : 0x7FFu)) continue; step_events<T>(r); }
    // ULP comparisons: pairs at distance 0..66 from anchors, including across zero, across binades, far apart (2^31, 2^32, 2^52 steps for double)
    std::vector<long> dist = { 0, 1, 2, 3, 4, 5, 8, 16, 31, 32, 33, 63, 64, 65, 66 };
    std::vector<int> ns = { 0, 1, 2, 3, 4, 16, 32, 64 };
    size_t cnt = 0;
    for (uint64_t a : A) {
        if ((a & (SIGN - 1)) >= ((W == 32 ? 0xFFull : 0x7FFull) << (W == 32 ? 23 : 52)) - 80) continue;
        for (size_t di = cnt % 3; di < dist.size(); di += 3) for (int sgn : { 1, -1 }) {
            uint64_t y = step_bits<T>(a, sgn * dist[di]);
            for (size_t ni = (cnt++) % 2; ni < ns.size(); ni += 2) {
                ulp_pair<T>(a, y, ns[ni]);
                if (cnt % 3 == 0) { uint64_t xb[4] = { a, y, step_bits<T>(a, 1), A[cnt % A.size()] }, yb[4] = { y, a, step_bits<T>(a, -2 * sgn), step_bits<T>(A[cnt % A.size()], sgn * dist[(di + 4) % dist.size()]) };
                    switch (cnt % 5) { case 0: ulp_vec<1, T, glm::defaultp>(xb, yb, ns[ni]); break; case 1: ulp_vec<2, T, glm::mediump>(xb, yb, ns[ni]); break; case 2: ulp_vec<3, T, glm::lowp>(xb, yb, ns[ni]); break; default: ulp_vec<4, T, glm::defaultp>(xb, yb, ns[ni]); } }
            }
        }
    }
    // far-apart same-sign pairs (distance >= 2^31): truncation of the distance must not make them equal
    { uint64_t one = W == 32 ? 0x3F800000ull : 0x3FF0000000000000ull;
      std::vector<uint64_t> far = { one * 1, one + (1ull << 31), one + (1ull << 32), one + (1ull << 31) + 1, uint64_t(W == 64 ? one + (1ull << 52) : one + (1ull << 23)), uint64_t(W == 64 ? one + (1ull << 33) + 3 : 0x7F000000ull), uint64_t(0), uint64_t(1ull << (W == 32 ? 23 : 52)) };
      for (uint64_t f : far) for (int n : { 0, 1, 64 }) { if (W == 32 && f > 0x7F7FFFFFull) continue; ulp_pair<T>(one, f, n); ulp_pair<T>(f | SIGN, one | SIGN, n); uint64_t xb[4] = { one, f, one, 0 }, yb[4] = { f, one, one + 1, f }; ulp_vec<4, T, glm::defaultp>(xb, yb, n); ulp_vec<3, T, glm::defaultp>(xb, yb, n); } }
    // far-apart pairs of OPPOSITE sign (x, -y): the distance across zero is the sum of two magnitudes, which must not wrap either
    { std::vector<double> mags = { 0.5, 1.0, 2.0, 3.0, 1024.0, 1e30, 3e38, 1e-30 };
      for (double m : mags) for (double m2 : { m, 2.0, 1e-3 }) for (int n : { 0, 1, 64 }) {
        uint64_t p = to_bits(T(m)), q = to_bits(T(-m2));
        ulp_pair<T>(p, q, n); ulp_pair<T>(q, p, n);
        uint64_t xb[4] = { p, q, p, q }, yb[4] = { q, p, p, q };
        ulp_vec<4, T, glm::defaultp>(xb, yb, n); ulp_vec<2, T, glm::mediump>(xb, yb, n);
        uint64_t bm[16], om[16]; for (int i = 0; i < 16; ++i) { bm[i] = p; om[i] = p; } om[5] = q; om[14] = q;
        ulp_mat<4, 4, T>(bm, om, n); ulp_mat<2, 3, T>(bm, om, n);
      } }
    // matrices: every shape; differing element placed at every (column,row) in turn
    { uint64_t base[16], oth[16]; uint64_t one = W == 32 ? 0x3F800000ull : 0x3FF0000000000000ull;
      for (int p = 0; p < 16; ++p) for (long d : { 1L, 3L, 70L }) for (int n : { 2, 64 }) {
        for (int i = 0; i < 16; ++i) { base[i] = one + uint64_t(i) * 1024; oth[i] = base[i]; }
        oth[p] = step_bits<T>(base[p], d);
        ulp_mat<2, 2, T>(base, oth, n); ulp_mat<2, 3, T>(base, oth, n); ulp_mat<2, 4, T>(base, oth, n); ulp_mat<3, 2, T>(base, oth, n); ulp_mat<3, 3, T>(base, oth, n);
        ulp_mat<3, 4, T>(base, oth, n); ulp_mat<4, 2, T>(base, oth, n); ulp_mat<4, 3, T>(base, oth, n); ulp_mat<4, 4, T>(base, oth, n);
      } }
    // epsilon comparisons: |x - y| at, just below and just above eps
    std::vector<uint64_t> E;
    for (double e : { 0.0, 1e-6, 0.001, 0.25, 0.5, 1.0, 3.0 }) E.push_back(to_bits(T(e)));
    E.push_back(W == 32 ? 0x34000000ull : 0x3CB0000000000000ull);   // machine epsilon
    std::vector<uint64_t> X;
    for (double x : { 0.0, 1.0, -1.0, 0.75, 100.0, 1e-3, -2.5, 16777216.0, 1e10 }) X.push_back(to_bits(T(x)));
    size_t ec = 0;
    for (uint64_t xb_ : X) for (uint64_t eb_ : E) {
        T x = fb<T>(xb_), e = fb<T>(eb_);
        T ys[] = { T(x + e), T(x - e), fb<T>(step_bits<T>(to_bits(T(x + e)), 1)), fb<T>(step_bits<T>(to_bits(T(x + e)), -1)), fb<T>(step_bits<T>(to_bits(T(x - e)), 1)), fb<T>(step_bits<T>(to_bits(T(x - e)), -1)), x, T(-x), T(x + e + e), T(x + e / 2) };
        for (T y : ys) { eps_scalar<T>(xb_, to_bits(y), eb_);
            if ((ec++ % 4) == 0) { uint64_t xb[4] = { xb_, to_bits(y), xb_, X[ec % X.size()] }, yb[4] = { to_bits(y), xb_, to_bits(ys[ec % 10]), to_bits(ys[(ec + 3) % 10]) }, eb[4] = { eb_, E[ec % E.size()], E[(ec + 1) % E.size()], eb_ };
                switch (ec % 5) { case 0: eps_vec<1, T, glm::defaultp>(xb, yb, eb); break; case 1: eps_vec<2, T, glm::mediump>(xb, yb, eb); break; case 2: eps_vec<3, T, glm::lowp>(xb, yb, eb); break; default: eps_vec<4, T, glm::defaultp>(xb, yb, eb); }
                eps_quat<T>(xb, yb, eb_);
                uint64_t mx[16], my[16]; for (int i = 0; i < 16; ++i) { mx[i] = X[(i + ec) % X.size()]; my[i] = mx[i]; } my[ec % 16] = to_bits(T(fb<T>(mx[ec % 16]) + e)); my[(ec + 5) % 16] = to_bits(ys[ec % 10]);
                switch (ec % 9) { case 0: eps_mat<2, 2, T>(mx, my, eb); break; case 1: eps_mat<2, 3, T>(mx, my, eb); break; case 2: eps_mat<2, 4, T>(mx, my, eb); break; case 3: eps_mat<3, 2, T>(mx, my, eb); break; case 4: eps_mat<3, 3, T>(mx, my, eb); break;
                                  case 5: eps_mat<3, 4, T>(mx, my, eb); break; case 6: eps_mat<4, 2, T>(mx, my, eb); break; case 7: eps_mat<4, 3, T>(mx, my, eb); break; default: eps_mat<4, 4, T>(mx, my, eb); } }
        }
    }
    // walks (multi-step programs)
    for (size_t i = 0; i < A.size(); i += (g_thorough ? 1 : 4)) walk<T>(A[i], rng, 24);
    for (uint64_t s : std::vector<uint64_t>{ uint64_t(3), SIGN | 3, uint64_t(0), SIGN, (uint64_t(1) << (W == 32 ? 23 : 52)) + 2 }) for (int r = 0; r < 6; ++r) walk<T>(s, rng, 40);
}

static void sweep() {
    unsigned nt = std::thread::hardware_concurrency(); if (nt == 0) nt = 4;
    std::atomic<uint64_t> bad(0), done(0); std::mutex mu; std::vector<uint32_t> badv;
    auto work = [&](unsigned t) {
        uint64_t lo = (uint64_t(1) << 32) * t / nt, hi = (uint64_t(1) << 32) * (t + 1) / nt, lb = 0; std::vector<uint32_t> lv;
        for (uint64_t x = lo; x < hi; ++x) {
            uint32_t b = uint32_t(x), m = b & 0x7FFFFFFFu; if (m >= 0x7F800000u) continue;
            uint32_t nx = to_bits(glm::nextFloat(from_bits<float>(b))), pv = to_bits(glm::prevFloat(from_bits<float>(b)));
            // class table rows (pattern space): positive: +1; negative non-zero: -1; zeros: -> 0x00000001 (prev: 0x80000001); next(-min) may be either zero
            uint32_t en = (b >> 31) == 0 ? b + 1 : (m == 0 ? 1u : b - 1), ep = (b >> 31) == 1 ? (m == 0 ? 0x80000001u : b + 1) : (m == 0 ? 0x80000001u : b - 1);
            bool okn = nx == en || ((en & 0x7FFFFFFFu) == 0 && (nx & 0x7FFFFFFFu) == 0), okp = pv == ep || ((ep & 0x7FFFFFFFu) == 0 && (pv & 0x7FFFFFFFu) == 0);
            if (!(okn && okp)) { ++lb; if (lv.size() < 40) lv.push_back(b); }
        }
        bad += lb; done += hi - lo; std::lock_guard<std::mutex> g(mu); for (uint32_t v : lv) if (badv.size() < 400) badv.push_back(v);
    };
    std::vector<std::thread> th; for (unsigned t = 0; t < nt; ++t) th.emplace_back(work, t); for (auto& t : th) t.join();
    for (uint32_t b : badv) { float x = from_bits<float>(b); { float r = glm::nextFloat(x); EV("nextFloat", float, 0).arg(x).res(r).emit(); } { float r = glm::prevFloat(x); EV("prevFloat", float, 0).arg(x).res(r).emit(); } }
    std::printf("SWEEP inputs=%llu rejected=%llu\n", (unsigned long long)done.load(), (unsigned long long)bad.load());
}

static void body(int argc, char** argv) {
    if (argc < 3) { std::fprintf(stderr, "usage\n"); std::exit(2); }
    if (std::string(argv[2]) == "sweep") { sweep(); return; }
    g_thorough = argc > 3 && std::string(argv[3]) == "thorough";
    Rng rng(seed_from_env());
    drive<float>(rng); drive<double>(rng);
}
int main(int argc, char** argv) { return run_main(argc, argv, body); }
