// C08 harness: projection builders (glm/ext/matrix_clip_space), project / unProject / pickMatrix
// (glm/ext/matrix_projection).  No expected values, no judging: every call is logged with the raw bit
// patterns of its arguments and results; the trace specification Trace_C08.tla judges.
//
// argv: <trace-out> <requested GLM_CONFIG_CLIP_CONTROL> <tier quick|thorough> <load full|part>
// build flags: -DGLM_FORCE_LEFT_HANDED / -DGLM_FORCE_DEPTH_ZERO_TO_ONE select the configuration under test;
//   -DC08_HAVE_INF_HALF   infinitePerspectiveLH / infinitePerspectiveRH are callable (they link)
//   -DC08_PROBE           compile only a probe that calls those two (used by the driver to find out)
#define VH_NO_EXT_ALL
#include "common.hpp"
#include <glm/ext/matrix_clip_space.hpp>
#include <glm/ext/matrix_projection.hpp>
#include <glm/ext/matrix_transform.hpp>
#include <glm/gtc/matrix_transform.hpp>
#include <cmath>
using namespace vh;

#ifdef C08_PROBE
int main(int argc, char** argv) {
    volatile float a = 1.0f; volatile double b = 1.0;
    glm::mat4 m1 = glm::infinitePerspectiveLH<float>(a, a, a);
    glm::mat4 m2 = glm::infinitePerspectiveRH<float>(a, a, a);
    glm::dmat4 m3 = glm::infinitePerspectiveLH<double>(b, b, b);
    glm::dmat4 m4 = glm::infinitePerspectiveRH<double>(b, b, b);
    return (m1[0][0] + m2[0][0] + float(m3[0][0] + m4[0][0])) > 0 ? 0 : 1;
}
#else

static int g_req = 0;
static bool g_thorough = false, g_full = true;

// ------------------------------------------------------------------ input construction (integer RNG + bit patterns only)
template<class T> T dy(long long m, int e) { return std::ldexp(T(m), e); }          // m * 2^e, exact for |m| < 2^24
template<class T> T rnd_mag(Rng& g, int emin, int emax) {                           // random full mantissa, exponent in [emin, emax]
    int e = emin + int(g.below(uint64_t(emax - emin + 1)));
    if constexpr (sizeof(T) == 4) return from_bits<T>((uint64_t(127 + e) << 23) | (g.next() & 0x7fffffu));
    else return from_bits<T>((uint64_t(1023 + e) << 52) | (g.next() & 0xfffffffffffffull));
}
template<class T> T rnd_signed(Rng& g, int emin, int emax) { T v = rnd_mag<T>(g, emin, emax); return (g.next() & 1) ? -v : v; }
template<class T> T next_up(T x) { return from_bits<T>(to_bits(x) + 1); }            // x > 0 finite

template<class T> struct Box { T l, r, b, t, n, f; };
template<class T> struct Fov { int tn, td; T aspect, n, f, w, h; };

template<class T> std::vector<std::pair<T, T>> lr_pairs() {
    return { {T(-1), T(1)}, {T(-2), T(3)}, {T(0), T(4)}, {T(-8), T(-2)}, {dy<T>(1, -1), dy<T>(3, -2)}, {T(-640), T(640)},
             {T(0), T(1920)}, {dy<T>(-1, -10), dy<T>(1, -10)}, {T(0.1), T(0.7)}, {T(-1) / T(3), T(5) / T(3)},
             {T(1), next_up(T(1))}, {T(-1000.5), T(-0.001)} };
}
template<class T> std::vector<std::pair<T, T>> nf_pairs() {
    return { {T(1), T(2)}, {T(0.1), T(100)}, {dy<T>(1, -1), T(1024)}, {T(1), T(1048576)}, {dy<T>(1, -10), dy<T>(1, 10)},
             {T(1), next_up(T(1))}, {T(3), T(7)}, {T(0.01), T(1000)}, {T(5), T(5.5)} };
}
static const int TFRAC[][2] = { {1, 16}, {1, 8}, {1, 4}, {1, 3}, {5, 12}, {1, 2}, {4, 7}, {2, 3}, {3, 4}, {1, 1}, {4, 3}, {3, 2},
                                {2, 1}, {12, 5}, {3, 1}, {4, 1}, {8, 1}, {16, 1}, {7, 24}, {15, 8} };
static const int NTFRAC = int(sizeof(TFRAC) / sizeof(TFRAC[0]));
template<class T> T fovy_of(int tn, int td) { return T(2.0L * std::atan((long double)tn / (long double)td)); }

#define CFGFIELDS .num("cfg", GLM_CONFIG_CLIP_CONTROL).num("req", g_req)

// ------------------------------------------------------------------ builders
template<class T> void ev_ortho(Box<T> const& p) {
    glm::mat<4, 4, T, glm::defaultp> m2 = glm::ortho(p.l, p.r, p.b, p.t);
    Ev("ortho2").str("t", TI<T>::code()) CFGFIELDS .arg(p.l).arg(p.r).arg(p.b).arg(p.t).res(m2).emit();
    auto rhno = glm::orthoRH_NO(p.l, p.r, p.b, p.t, p.n, p.f); auto rhzo = glm::orthoRH_ZO(p.l, p.r, p.b, p.t, p.n, p.f);
    auto lhno = glm::orthoLH_NO(p.l, p.r, p.b, p.t, p.n, p.f); auto lhzo = glm::orthoLH_ZO(p.l, p.r, p.b, p.t, p.n, p.f);
    auto u = glm::ortho(p.l, p.r, p.b, p.t, p.n, p.f);
    auto zo = glm::orthoZO(p.l, p.r, p.b, p.t, p.n, p.f); auto no = glm::orthoNO(p.l, p.r, p.b, p.t, p.n, p.f);
    auto lh = glm::orthoLH(p.l, p.r, p.b, p.t, p.n, p.f); auto rh = glm::orthoRH(p.l, p.r, p.b, p.t, p.n, p.f);
    Ev("ortho").str("t", TI<T>::code()) CFGFIELDS .arg(p.l).arg(p.r).arg(p.b).arg(p.t).arg(p.n).arg(p.f)
        .val("RH_NO", rhno).val("RH_ZO", rhzo).val("LH_NO", lhno).val("LH_ZO", lhzo)
        .val("U", u).val("ZO", zo).val("NO", no).val("LH", lh).val("RH", rh).emit();
}
template<class T> void ev_frustum(Box<T> const& p) {
    auto rhno = glm::frustumRH_NO(p.l, p.r, p.b, p.t, p.n, p.f); auto rhzo = glm::frustumRH_ZO(p.l, p.r, p.b, p.t, p.n, p.f);
    auto lhno = glm::frustumLH_NO(p.l, p.r, p.b, p.t, p.n, p.f); auto lhzo = glm::frustumLH_ZO(p.l, p.r, p.b, p.t, p.n, p.f);
    auto u = glm::frustum(p.l, p.r, p.b, p.t, p.n, p.f);
    auto zo = glm::frustumZO(p.l, p.r, p.b, p.t, p.n, p.f); auto no = glm::frustumNO(p.l, p.r, p.b, p.t, p.n, p.f);
    auto lh = glm::frustumLH(p.l, p.r, p.b, p.t, p.n, p.f); auto rh = glm::frustumRH(p.l, p.r, p.b, p.t, p.n, p.f);
    Ev("frustum").str("t", TI<T>::code()) CFGFIELDS .arg(p.l).arg(p.r).arg(p.b).arg(p.t).arg(p.n).arg(p.f)
        .val("RH_NO", rhno).val("RH_ZO", rhzo).val("LH_NO", lhno).val("LH_ZO", lhzo)
        .val("U", u).val("ZO", zo).val("NO", no).val("LH", lh).val("RH", rh).emit();
}
template<class T> void ev_perspective(Fov<T> const& p) {
    T fovy = fovy_of<T>(p.tn, p.td);
    auto rhno = glm::perspectiveRH_NO(fovy, p.aspect, p.n, p.f); auto rhzo = glm::perspectiveRH_ZO(fovy, p.aspect, p.n, p.f);
    auto lhno = glm::perspectiveLH_NO(fovy, p.aspect, p.n, p.f); auto lhzo = glm::perspectiveLH_ZO(fovy, p.aspect, p.n, p.f);
    auto u = glm::perspective(fovy, p.aspect, p.n, p.f);
    auto zo = glm::perspectiveZO(fovy, p.aspect, p.n, p.f); auto no = glm::perspectiveNO(fovy, p.aspect, p.n, p.f);
    auto lh = glm::perspectiveLH(fovy, p.aspect, p.n, p.f); auto rh = glm::perspectiveRH(fovy, p.aspect, p.n, p.f);
    Ev("perspective").str("t", TI<T>::code()) CFGFIELDS .num("tn", p.tn).num("td", p.td).arg(fovy).arg(p.aspect).arg(p.n).arg(p.f)
        .val("RH_NO", rhno).val("RH_ZO", rhzo).val("LH_NO", lhno).val("LH_ZO", lhzo)
        .val("U", u).val("ZO", zo).val("NO", no).val("LH", lh).val("RH", rh).emit();
}
template<class T> void ev_perspectiveFov(Fov<T> const& p) {
    T fov = fovy_of<T>(p.tn, p.td);
    auto rhno = glm::perspectiveFovRH_NO(fov, p.w, p.h, p.n, p.f); auto rhzo = glm::perspectiveFovRH_ZO(fov, p.w, p.h, p.n, p.f);
    auto lhno = glm::perspectiveFovLH_NO(fov, p.w, p.h, p.n, p.f); auto lhzo = glm::perspectiveFovLH_ZO(fov, p.w, p.h, p.n, p.f);
    auto u = glm::perspectiveFov(fov, p.w, p.h, p.n, p.f);
    auto zo = glm::perspectiveFovZO(fov, p.w, p.h, p.n, p.f); auto no = glm::perspectiveFovNO(fov, p.w, p.h, p.n, p.f);
    auto lh = glm::perspectiveFovLH(fov, p.w, p.h, p.n, p.f); auto rh = glm::perspectiveFovRH(fov, p.w, p.h, p.n, p.f);
    Ev("perspectiveFov").str("t", TI<T>::code()) CFGFIELDS .num("tn", p.tn).num("td", p.td).arg(fov).arg(p.w).arg(p.h).arg(p.n).arg(p.f)
        .val("RH_NO", rhno).val("RH_ZO", rhzo).val("LH_NO", lhno).val("LH_ZO", lhzo)
        .val("U", u).val("ZO", zo).val("NO", no).val("LH", lh).val("RH", rh).emit();
}
template<class T> void ev_infinite(Fov<T> const& p) {
    T fovy = fovy_of<T>(p.tn, p.td);
    auto rhno = glm::infinitePerspectiveRH_NO(fovy, p.aspect, p.n); auto rhzo = glm::infinitePerspectiveRH_ZO(fovy, p.aspect, p.n);
    auto lhno = glm::infinitePerspectiveLH_NO(fovy, p.aspect, p.n); auto lhzo = glm::infinitePerspectiveLH_ZO(fovy, p.aspect, p.n);
    auto u = glm::infinitePerspective(fovy, p.aspect, p.n);
    Ev e("infinitePerspective");
    e.str("t", TI<T>::code()) CFGFIELDS .num("tn", p.tn).num("td", p.td).arg(fovy).arg(p.aspect).arg(p.n)
        .val("RH_NO", rhno).val("RH_ZO", rhzo).val("LH_NO", lhno).val("LH_ZO", lhzo).val("U", u);
#ifdef C08_HAVE_INF_HALF
    auto lh = glm::infinitePerspectiveLH(fovy, p.aspect, p.n); auto rh = glm::infinitePerspectiveRH(fovy, p.aspect, p.n);
    e.val("LH", lh).val("RH", rh);
#endif
    e.emit();
    auto tw = glm::tweakedInfinitePerspective(fovy, p.aspect, p.n);
    Ev("tweaked").str("t", TI<T>::code()) CFGFIELDS .num("tn", p.tn).num("td", p.td).arg(fovy).arg(p.aspect).arg(p.n).res(tw).emit();
    const T eps[] = { T(0), std::numeric_limits<T>::epsilon(), dy<T>(1, -10), T(0.001), dy<T>(1, -2) };
    static unsigned rot = 0;
    for (int k = 0; k < 2; ++k) {
        T ep = eps[(rot++) % 5];
        auto te = glm::tweakedInfinitePerspective(fovy, p.aspect, p.n, ep);
        Ev("tweakedEp").str("t", TI<T>::code()) CFGFIELDS .num("tn", p.tn).num("td", p.td).arg(fovy).arg(p.aspect).arg(p.n).arg(ep).res(te).emit();
    }
}

template<class T> void builders(Rng& g) {
    auto lr = lr_pairs<T>(); auto nf = nf_pairs<T>();
    const size_t NL = lr.size(), NN = nf.size();
    // ---- boxes: lattice (every lr pair, every nf pair at least once) + random
    std::vector<Box<T>> boxes;
    for (size_t i = 0; i < NL; ++i) for (size_t j = 0; j < NN; ++j) {
        if (!g_full && (i + j) % 3) continue;
        if (!g_thorough && (i * 7 + j * 3) % 4 == 1 && i && j) continue;
        auto bt = lr[(i * 5 + j * 3 + 1) % NL];
        boxes.push_back({ lr[i].first, lr[i].second, bt.first, bt.second, nf[j].first, nf[j].second });
    }
    int nrand = (g_thorough ? 2400 : 160) / (g_full ? 1 : 3);
    for (int k = 0; k < nrand; ++k) {
        T a = rnd_signed<T>(g, -6, 10), b = rnd_signed<T>(g, -6, 10), c = rnd_signed<T>(g, -6, 10), d = rnd_signed<T>(g, -6, 10);
        T n = rnd_mag<T>(g, -7, 3), f = rnd_mag<T>(g, -3, 14);
        if (a == b || c == d || n == f) continue;
        if (a > b) std::swap(a, b);
        if (c > d) std::swap(c, d);
        if (n > f) std::swap(n, f);
        if (k % 8 == 0) b = -a;                                   // symmetric: the off-centre terms vanish
        if (k % 8 == 1) { d = -c; if (c > d) std::swap(c, d); }
        if (k % 8 == 0 && a > b) std::swap(a, b);
        if (a == b || c == d) continue;
        boxes.push_back({ a, b, c, d, n, f });
    }
    // outside the documented domain (constrain nothing): reversed / empty ranges, non-positive near
    boxes.push_back({ T(1), T(-1), T(-1), T(1), T(1), T(2) });
    boxes.push_back({ T(-1), T(1), T(-1), T(1), T(2), T(1) });
    boxes.push_back({ T(-1), T(1), T(-1), T(1), T(-1), T(1) });
    boxes.push_back({ T(-1), T(1), T(-1), T(1), T(0), T(1) });
    for (auto const& b : boxes) { ev_ortho(b); ev_frustum(b); }

    // ---- field-of-view families
    const T aspects[] = { T(1), T(4) / T(3), T(16) / T(9), dy<T>(1, -1), T(2), T(0.3), T(1280) / T(720) };
    const T whs[][2] = { {T(640), T(480)}, {T(1920), T(1080)}, {T(1), T(1)}, {T(3), T(7)}, {T(0.5), T(0.25)}, {T(1080), T(1920)} };
    std::vector<Fov<T>> fovs;
    int idx = 0;
    for (int ti = 0; ti < NTFRAC; ++ti) for (size_t j = 0; j < NN; ++j) {
        ++idx;
        if (!g_thorough && (ti + int(j)) % 3) continue;
        if (!g_full && idx % 3) continue;
        fovs.push_back({ TFRAC[ti][0], TFRAC[ti][1], aspects[idx % 7], nf[j].first, nf[j].second, whs[idx % 6][0], whs[idx % 6][1] });
    }
    int nr2 = (g_thorough ? 1600 : 100) / (g_full ? 1 : 3);
    for (int k = 0; k < nr2; ++k) {
        int tn = 1 + int(g.below(24)), td = 1 + int(g.below(24));
        T n = rnd_mag<T>(g, -7, 3), f = rnd_mag<T>(g, -3, 14);
        T asp = rnd_mag<T>(g, -2, 2), ww = rnd_mag<T>(g, 0, 11), hh = rnd_mag<T>(g, 0, 11);
        if (n == f) continue;
        if (n > f) std::swap(n, f);
        fovs.push_back({ tn, td, asp, n, f, ww, hh });
    }
    fovs.push_back({ 1, 1, T(1), T(2), T(1), T(1), T(1) });          // near > far: outside the domain
    for (auto const& p : fovs) { ev_perspective(p); ev_perspectiveFov(p); ev_infinite(p); }
}

// ------------------------------------------------------------------ project / unProject / pickMatrix
template<class T, class U, glm::qualifier Q>
void ev_project(const char* qn, glm::vec<3, T, Q> const& obj, glm::mat<4, 4, T, Q> const& model, glm::mat<4, 4, T, Q> const& proj, glm::vec<4, U, Q> const& vp) {
    glm::vec<3, T, Q> zo = glm::projectZO(obj, model, proj, vp), no = glm::projectNO(obj, model, proj, vp), u = glm::project(obj, model, proj, vp);
    Ev("project").str("t", TI<T>::code()).str("u", TI<U>::code()).str("q", qn) CFGFIELDS
        .arg(obj).arg(model).arg(proj).arg(vp).val("ZO", zo).val("NO", no).val("U", u).emit();
}
template<class T, class U, glm::qualifier Q>
void ev_unproject(const char* qn, glm::vec<3, T, Q> const& win, glm::mat<4, 4, T, Q> const& model, glm::mat<4, 4, T, Q> const& proj, glm::vec<4, U, Q> const& vp) {
    glm::vec<3, T, Q> zo = glm::unProjectZO(win, model, proj, vp), no = glm::unProjectNO(win, model, proj, vp), u = glm::unProject(win, model, proj, vp);
    Ev("unProject").str("t", TI<T>::code()).str("u", TI<U>::code()).str("q", qn) CFGFIELDS
        .arg(win).arg(model).arg(proj).arg(vp).val("ZO", zo).val("NO", no).val("U", u).emit();
}
template<class T, class U, glm::qualifier Q>
void ev_pick(const char* qn, glm::vec<2, T, Q> const& c, glm::vec<2, T, Q> const& d, glm::vec<4, U, Q> const& vp) {
    glm::mat<4, 4, T, Q> r = glm::pickMatrix(c, d, vp);
    Ev("pickMatrix").str("t", TI<T>::code()).str("u", TI<U>::code()).str("q", qn) CFGFIELDS .arg(c).arg(d).arg(vp).res(r).emit();
}

// small-integer / dyadic model matrices (column major): signed permutations, scalings, shears, translations
template<class T> std::vector<glm::mat<4, 4, T, glm::defaultp>> models() {
    typedef glm::mat<4, 4, T, glm::defaultp> M;
    std::vector<M> v;
    v.push_back(M(T(1)));
    v.push_back(M(T(0), T(1), T(0), T(0),  T(-1), T(0), T(0), T(0),  T(0), T(0), T(1), T(0),  T(2), T(-1), T(3), T(1)));
    v.push_back(M(T(2), T(0), T(1), T(0),  T(0), T(0.5), T(0), T(0),  T(-1), T(0), T(2), T(0),  T(0.5), T(1), T(-2), T(1)));
    v.push_back(M(T(0), T(0), T(1), T(0),  T(1), T(0), T(0), T(0),  T(0), T(1), T(0), T(0),  T(-3), T(0.25), T(5), T(1)));
    v.push_back(M(T(1), T(0), T(0), T(0),  T(0.25), T(1), T(0), T(0),  T(0), T(-0.5), T(1), T(0),  T(0), T(0), T(-10), T(1)));
    v.push_back(M(T(-3), T(0), T(0), T(0),  T(0), T(2), T(0), T(0),  T(0), T(0), T(-1), T(0),  T(7), T(-7), T(1), T(1)));
    return v;
}
// projection number k for the box / fov parameters (all families, all suffixes)
template<class T> glm::mat<4, 4, T, glm::defaultp> proj_of(int k, Box<T> const& b, Fov<T> const& p) {
    T fovy = fovy_of<T>(p.tn, p.td);
    switch (k % 14) {
        case 0: return glm::frustumRH_NO(b.l, b.r, b.b, b.t, b.n, b.f);
        case 1: return glm::frustumRH_ZO(b.l, b.r, b.b, b.t, b.n, b.f);
        case 2: return glm::frustumLH_NO(b.l, b.r, b.b, b.t, b.n, b.f);
        case 3: return glm::frustumLH_ZO(b.l, b.r, b.b, b.t, b.n, b.f);
        case 4: return glm::orthoRH_NO(b.l, b.r, b.b, b.t, b.n, b.f);
        case 5: return glm::orthoLH_ZO(b.l, b.r, b.b, b.t, b.n, b.f);
        case 6: return glm::perspectiveRH_NO(fovy, p.aspect, p.n, p.f);
        case 7: return glm::perspectiveLH_ZO(fovy, p.aspect, p.n, p.f);
        case 8: return glm::perspectiveFovRH_ZO(fovy, p.w, p.h, p.n, p.f);
        case 9: return glm::perspectiveFovLH_NO(fovy, p.w, p.h, p.n, p.f);
        case 10: return glm::infinitePerspectiveRH_NO(fovy, p.aspect, p.n);
        case 11: return glm::infinitePerspectiveLH_ZO(fovy, p.aspect, p.n);
        case 12: return glm::ortho(b.l, b.r, b.b, b.t);
        default: return glm::perspective(fovy, p.aspect, p.n, p.f);
    }
}

template<class T, class U, glm::qualifier Q> void proj_family(const char* qn, Rng& g, int count) {
    typedef glm::mat<4, 4, T, Q> M; typedef glm::vec<3, T, Q> V3; typedef glm::vec<4, U, Q> VP;
    auto ms = models<T>();
    const Box<T> boxes[] = { {T(-1), T(1), T(-1), T(1), T(1), T(8)}, {T(-2), T(3), T(-1), T(2), dy<T>(1, -1), T(16)},
                             {T(-0.1), T(0.3), T(-0.2), T(0.2), T(0.25), T(4)}, {T(0), T(4), T(0), T(3), T(2), T(3)} };
    const Fov<T> fovs[] = { {1, 1, T(1), T(1), T(8), T(640), T(480)}, {1, 2, T(4) / T(3), dy<T>(1, -1), T(16), T(1920), T(1080)},
                            {3, 4, T(16) / T(9), T(1), T(32), T(3), T(7)}, {2, 1, dy<T>(1, -1), T(2), T(5), T(1), T(1)} };
    const int vps[][4] = { {0, 0, 640, 480}, {10, 20, 800, 600}, {0, 0, 1, 1}, {-5, 7, 33, 17}, {100, -50, 1920, 1080} };
    for (int k = 0; k < count; ++k) {
        Box<T> const& b = boxes[g.below(4)]; Fov<T> const& p = fovs[g.below(4)];
        int pk = (k < 28) ? k : int(g.below(14));
        M proj(proj_of<T>(pk, b, p));
        M model(ms[(k / 2) % ms.size()]);
        const int* vi = vps[g.below(5)];
        VP vp = VP(static_cast<U>(vi[0]), static_cast<U>(vi[1]), static_cast<U>(vi[2]), static_cast<U>(vi[3]));
        if (!std::is_integral<U>::value && k % 5 == 4) vp = VP(U(vi[0]) + U(0.5), U(vi[1]) - U(0.25), U(vi[2]) * U(0.5), U(vi[3]) + U(0.75));
        // an eye-space point inside the view volume: depth between near and far, lateral position within the window
        bool fovfam = (pk % 14) >= 6 && (pk % 14) != 12;
        T n = fovfam ? p.n : b.n, f = ((pk % 14) == 10 || (pk % 14) == 11) ? p.n * T(64) : (fovfam ? p.f : b.f);
        if ((pk % 14) == 12) { n = T(-1); f = T(1); }
        bool lh = (pk % 14) == 2 || (pk % 14) == 3 || (pk % 14) == 5 || (pk % 14) == 7 || (pk % 14) == 9 || (pk % 14) == 11;
#if (GLM_CONFIG_CLIP_CONTROL & GLM_CLIP_CONTROL_LH_BIT)
        if ((pk % 14) == 13) lh = true;
#endif
        T fr = dy<T>((long long)g.below(257), -8);                               // 0 .. 1 in steps of 1/256
        T d = n + (f - n) * fr;
        T fx = dy<T>((long long)g.below(257), -8), fy = dy<T>((long long)g.below(257), -8);
        T ex, ey;
        bool orthofam = (pk % 14) == 4 || (pk % 14) == 5 || (pk % 14) == 12;
        if (orthofam) { ex = b.l + (b.r - b.l) * fx; ey = b.b + (b.t - b.b) * fy; }
        else if (!fovfam) { ex = (b.l + (b.r - b.l) * fx) * d / b.n; ey = (b.b + (b.t - b.b) * fy) * d / b.n; }
        else { T tt = T(p.tn) / T(p.td); ey = (fy * T(2) - T(1)) * tt * d; ex = (fx * T(2) - T(1)) * tt * d * (((pk % 14) == 8 || (pk % 14) == 9) ? p.w / p.h : p.aspect); }
        glm::vec<4, T, Q> eye(ex, ey, lh ? d : -d, T(1));
        glm::vec<4, T, Q> o4 = glm::inverse(model) * eye;                        // input generation only
        V3 obj(o4.x, o4.y, o4.z);
        if (k % 11 == 10) { T r1 = rnd_signed<T>(g, -3, 3), r2 = rnd_signed<T>(g, -3, 3), r3 = rnd_signed<T>(g, -3, 3); obj = V3(r1, r2, r3); }   // anywhere (possibly behind the viewer)
        ev_project<T, U, Q>(qn, obj, model, proj, vp);
        // unProject: a window point inside the viewport with depth in [0, 1] (corners and faces included) ...
        T wx = T(vp[0]) + T(vp[2]) * dy<T>((long long)g.below(17), -4);
        T wy = T(vp[1]) + T(vp[3]) * dy<T>((long long)g.below(17), -4);
        T wz = dy<T>((long long)g.below(17), -4);
        ev_unproject<T, U, Q>(qn, V3(wx, wy, wz), model, proj, vp);
        // ... and the round trips: unProject of the projected point, project of the unprojected point
        V3 w2 = glm::project(obj, model, proj, vp);
        ev_unproject<T, U, Q>(qn, w2, model, proj, vp);
        V3 o2 = glm::unProject(V3(wx, wy, wz), model, proj, vp);
        ev_project<T, U, Q>(qn, o2, model, proj, vp);
    }
    // pickMatrix
    for (int k = 0; k < count / 2 + 4; ++k) {
        const int* vi = vps[g.below(5)];
        VP vp = VP(static_cast<U>(vi[0]), static_cast<U>(vi[1]), static_cast<U>(vi[2]), static_cast<U>(vi[3]));
        T c1 = T(vi[0]) + T(vi[2]) * dy<T>((long long)g.below(33), -5), c2 = T(vi[1]) + T(vi[3]) * dy<T>((long long)g.below(33), -5);
        T d1 = dy<T>(1 + (long long)g.below(64), -2), d2 = dy<T>(1 + (long long)g.below(64), -3);
        if (k % 4 == 3) { c1 = rnd_signed<T>(g, -2, 9); c2 = rnd_signed<T>(g, -2, 9); d1 = rnd_mag<T>(g, -3, 5); d2 = rnd_mag<T>(g, -3, 5); }
        glm::vec<2, T, Q> c(c1, c2), d(d1, d2);
        if (k == 0) { c = glm::vec<2, T, Q>(T(vi[0]) + T(vi[2]) / T(2), T(vi[1]) + T(vi[3]) / T(2)); d = glm::vec<2, T, Q>(T(vi[2]), T(vi[3])); }   // whole viewport: identity
        ev_pick<T, U, Q>(qn, c, d, vp);
    }
}

static void body(int argc, char** argv) {
    g_req = argc > 2 ? std::atoi(argv[2]) : 0;
    g_thorough = argc > 3 && std::string(argv[3]) == "thorough";
    g_full = !(argc > 4 && std::string(argv[4]) == "part");
    int lhf = 0, zof = 0;
#ifdef GLM_FORCE_LEFT_HANDED
    lhf = 1;
#endif
#ifdef GLM_FORCE_DEPTH_ZERO_TO_ONE
    zof = 1;
#endif
    Ev("config").num("cfg", GLM_CONFIG_CLIP_CONTROL).num("req", g_req).num("lhf", lhf).num("zof", zof)
        .num("zo_bit", GLM_CLIP_CONTROL_ZO_BIT).num("no_bit", GLM_CLIP_CONTROL_NO_BIT).num("lh_bit", GLM_CLIP_CONTROL_LH_BIT).num("rh_bit", GLM_CLIP_CONTROL_RH_BIT)
        .num("lh_zo", GLM_CLIP_CONTROL_LH_ZO).num("lh_no", GLM_CLIP_CONTROL_LH_NO).num("rh_zo", GLM_CLIP_CONTROL_RH_ZO).num("rh_no", GLM_CLIP_CONTROL_RH_NO).emit();
#ifndef C08_HAVE_INF_HALF
    // declared in matrix_clip_space.hpp but not callable (the driver's probe does not link)
    Ev("missing").str("fn", "infinitePerspectiveLH") CFGFIELDS .emit();
    Ev("missing").str("fn", "infinitePerspectiveRH") CFGFIELDS .emit();
#endif
    Rng g(seed_from_env() * 1000 + uint64_t(g_req));
    builders<float>(g);
    builders<double>(g);
    int c = (g_thorough ? 900 : 84) / (g_full ? 1 : 3);
    proj_family<float, float, glm::defaultp>("defaultp", g, c);
    proj_family<double, double, glm::defaultp>("defaultp", g, c);
    proj_family<float, int, glm::defaultp>("defaultp", g, c / 3);
    proj_family<double, int, glm::defaultp>("defaultp", g, c / 3);
    proj_family<float, float, glm::mediump>("mediump", g, c / 3);
    proj_family<float, float, glm::lowp>("lowp", g, c / 3);
    proj_family<double, double, glm::mediump>("mediump", g, c / 6);
    proj_family<double, double, glm::lowp>("lowp", g, c / 6);
    proj_family<double, float, glm::defaultp>("defaultp", g, c / 6);
}

int main(int argc, char** argv) { return run_main(argc, argv, body); }
#endif
