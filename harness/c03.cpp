// C03 harness: one program, compiled twice -- GLM_FORCE_PURE with packed types, and GLM_FORCE_INTRINSICS with the aligned
// qualifiers at some x86 level -- on bit-identical inputs.  The two traces are related event by event by CrossCfg.tla
// (mode "simd").  Qualifier names in the events are the precision classes (highp / mediump / lowp) in both builds.
//   c03 <trace-out> <mode>
#define VH_NO_EXT_ALL
#include "common.hpp"
#ifdef C03_SIMD
#include <glm/gtc/type_aligned.hpp>
#endif
#include <glm/gtc/quaternion.hpp>
#include <glm/gtc/matrix_inverse.hpp>
#include <glm/integer.hpp>
using namespace vh;
static bool g_thorough = false;
static Rng* g_rng = nullptr;

#if defined(C03_SIMD)
#  if GLM_CONFIG_ALIGNED_GENTYPES != GLM_ENABLE || GLM_CONFIG_SIMD != GLM_ENABLE
#    error "C03_SIMD build without aligned gentypes / SIMD"
#  endif
static const glm::qualifier QH = glm::aligned_highp, QM = glm::aligned_mediump, QL = glm::aligned_lowp;
static const char* BUILD = "simd";
#else
static const glm::qualifier QH = glm::packed_highp, QM = glm::packed_mediump, QL = glm::packed_lowp;
static const char* BUILD = "pure";
#endif
template<glm::qualifier Q> const char* qn() { return (Q == QH) ? "highp" : (Q == QM) ? "mediump" : "lowp"; }
#define EV(OP, T, Q, L) Ev(OP).str("t", TI<T>::code()).str("q", qn<Q>()).num("n", L)

template<int L, class T, glm::qualifier Q> glm::vec<L, T, Q> mk(std::vector<T> const& v, size_t k) { glm::vec<L, T, Q> r; std::memset(static_cast<void*>(&r), 0xFF, sizeof r);   /* padding lanes of aligned vec3 / dvec3: a NaN pattern, never a copy of a component */
    for (int i = 0; i < L; ++i) r[i] = v[(k + size_t(i) * 3) % v.size()]; return r; }

template<class T> std::vector<T> specials() { std::vector<T> v; for (uint64_t b : lattice<T>()) v.push_back(from_bits<T>(b)); return v; }
template<class T> std::vector<T> moderate() {
    std::vector<T> v;
    for (double d : { 0.0, -0.0, 0.25, -0.25, 0.5, -0.5, 0.75, 1.0, -1.0, 1.5, -1.5, 2.0, 2.5, -2.5, 3.0, 3.5, -3.5, 0.1, -0.3, 0.7, 7.25, -6.5, 4.5, 5.5, -5.5, 0.999, 8388609.0, -8388609.0, 4194303.5, 1e-3 }) v.push_back(T(d));
    for (int i = 0; i < 60; ++i) v.push_back(T((double(g_rng->below(200001)) - 100000.0) / 16384.0));
    return v;
}
template<class T> std::vector<T> positive() { std::vector<T> v; for (double d : { 0.25, 0.5, 1.0, 2.0, 3.0, 4.0, 9.0, 10.0, 100.0, 1e-3, 0.1, 7.75, 16.0, 0.0625, 1e4 }) v.push_back(T(d)); for (int i = 0; i < 30; ++i) v.push_back(T(double(1 + g_rng->below(100000)) / 1024.0)); return v; }
template<class T> std::vector<T> ints() { std::vector<T> v = specials<T>(); return v; }
template<class T> std::vector<T> small_ints() { std::vector<T> v; for (int d : { 0, 1, 2, 3, 5, 7, 11, 100, 1000, 46340, 65535 }) { v.push_back(T(d)); if (std::is_signed<T>::value) v.push_back(T(-d)); } return v; }

// ---------------------------------------------------------------- float vector families
template<int L, glm::qualifier Q> void float_ops(size_t k, std::vector<float> const& S, std::vector<float> const& M, std::vector<float> const& P) {
    typedef glm::vec<L, float, Q> V;
    V a = mk<L, float, Q>(M, k), b = mk<L, float, Q>(M, k * 5 + 1), c = mk<L, float, Q>(M, k * 7 + 2), p = mk<L, float, Q>(P, k), s = mk<L, float, Q>(S, k), s2 = mk<L, float, Q>(S, k * 3 + 7);
    float sc = M[(k + 3) % M.size()], ps = P[(k + 1) % P.size()];
#define U1(NAME, X) { V r = glm::NAME(X); EV(#NAME, float, Q, L).arg(X).res(r).emit(); }
#define B2(NAME, X, Y) { V r = glm::NAME(X, Y); EV(#NAME, float, Q, L).arg(X).arg(Y).res(r).emit(); }
#define T3(NAME, X, Y, Z) { V r = glm::NAME(X, Y, Z); EV(#NAME, float, Q, L).arg(X).arg(Y).arg(Z).res(r).emit(); }
    U1(abs, s) U1(floor, s) U1(ceil, s) U1(round, s) U1(trunc, s) U1(fract, a) U1(sign, s) U1(floor, a) U1(ceil, a) U1(round, a) U1(fract, s)
    B2(min, s, s2) B2(max, s, s2) B2(min, a, sc) B2(max, a, sc) B2(mod, a, p) B2(mod, a, ps) B2(step, a, b) B2(step, sc, b)
    { V lo, hi; for (int i = 0; i < L; ++i) { lo[i] = (b[i] < a[i]) ? b[i] : a[i]; hi[i] = (a[i] < b[i]) ? b[i] : a[i]; } T3(clamp, s, lo, hi) T3(clamp, c, lo, hi) }
    T3(mix, a, b, c) T3(mix, a, b, sc) T3(fma, a, b, c)
    { V lo, hi; for (int i = 0; i < L; ++i) { lo[i] = ((b[i] < a[i]) ? b[i] : a[i]) - 1.0f; hi[i] = ((a[i] < b[i]) ? b[i] : a[i]) + 1.0f; } T3(smoothstep, lo, hi, c) }
    { glm::vec<L, bool, Q> m; for (int i = 0; i < L; ++i) m[i] = ((k >> i) & 1) != 0; V r = glm::mix(a, b, m); EV("mixb", float, Q, L).arg(a).arg(b).arg(m).res(r).emit(); }
    U1(sqrt, p) U1(inversesqrt, p) U1(sqrt, s)
    // operators
#define O2(NAME, O, X, Y) { V r = X O Y; EV(NAME, float, Q, L).arg(X).arg(Y).res(r).emit(); }
    O2("add", +, a, b) O2("sub", -, a, b) O2("mul", *, a, b) O2("div", /, a, p) O2("add", +, s, s2) O2("mul", *, s, s2) O2("div", /, s, s2) O2("add", +, a, sc) O2("mul", *, a, sc) O2("div", /, a, ps)
    { V r = -s; EV("neg", float, Q, L).arg(s).res(r).emit(); }
    { V r = a; r += b; EV("add", float, Q, L).arg(a).arg(b).res(r).emit(); V r2 = a; r2 *= sc; EV("mul", float, Q, L).arg(a).arg(sc).res(r2).emit(); }
    { bool e = (s == s2), n = (s != s2), e2 = (a == a), n2 = (a != a); V a2 = a; a2[L - 1] = b[0]; bool e3 = (a == a2), n3 = (a != a2);
      EV("eq", float, Q, L).arg(s).arg(s2).res(e).emit(); EV("ne", float, Q, L).arg(s).arg(s2).res(n).emit(); EV("eq", float, Q, L).arg(a).arg(a).res(e2).emit(); EV("ne", float, Q, L).arg(a).arg(a).res(n2).emit();
      EV("eq", float, Q, L).arg(a).arg(a2).res(e3).emit(); EV("ne", float, Q, L).arg(a).arg(a2).res(n3).emit(); }
    // geometric
    { float r = glm::dot(a, b); EV("dot", float, Q, L).arg(a).arg(b).res(r).emit(); }
    { float r = glm::length(a); EV("length", float, Q, L).arg(a).res(r).emit(); float d = glm::distance(a, b); EV("distance", float, Q, L).arg(a).arg(b).res(d).emit(); }
    // unit vectors are built with plain float arithmetic so that both builds feed bit-identical inputs
    // (volatile: no fused multiply-add may be formed here by -mfma builds)
    auto sq = [](V const& x) { float t = 0.0f; for (int i = 0; i < L; ++i) { volatile float m = x[i] * x[i]; t = t + m; } return t; };
    auto unit = [&](V const& x) { float inv = 1.0f / std::sqrt(sq(x)); V u; for (int i = 0; i < L; ++i) u[i] = x[i] * inv; return u; };
    if (sq(a) > 0.01f) { V r = glm::normalize(a); EV("normalize", float, Q, L).arg(a).res(r).emit(); }
    if (sq(a) > 0.01f) { V n = unit(a);
        V r = glm::reflect(b, n); EV("reflect", float, Q, L).arg(b).arg(n).res(r).emit();
        if (sq(c) > 0.01f) { V i = unit(c);
            for (float eta : { 0.5f, 0.9f, 1.0f, 1.5f, 2.5f }) { V rr = glm::refract(i, n, eta); EV("refract", float, Q, L).arg(i).arg(n).arg(eta).res(rr).emit(); } }
        V ff = glm::faceforward(n, b, c); EV("faceforward", float, Q, L).arg(n).arg(b).arg(c).res(ff).emit(); }
    // exact branch ties for faceforward: dot = 0 exactly
    { V n(0.0f), i(0.0f), nr(0.0f); n[0] = 1.0f; i[L > 1 ? 1 : 0] = 1.0f; nr[0] = (L > 1) ? 2.0f : 0.0f; V ff = glm::faceforward(n, i, nr); EV("faceforward", float, Q, L).arg(n).arg(i).arg(nr).res(ff).emit(); }
    // ... and dot = -0 exactly (every product is -0), dot = the smallest negative / positive subnormal: the decision is "dot < 0", not the sign bit
    { V n(0.0f), nr(1.0f); n[0] = 1.0f; n[L - 1] = -2.0f;
      for (uint32_t bits : { 0x80000000u, 0x00000000u, 0x80000001u, 0x00000001u }) { V i(from_bits<float>(bits)); if (L > 1 && (bits & 0x7fffffffu)) { for (int j = 1; j < L; ++j) i[j] = 0.0f; }
        V ff = glm::faceforward(n, i, nr); EV("faceforward", float, Q, L).arg(n).arg(i).arg(nr).res(ff).emit(); } }
#undef U1
#undef B2
#undef T3
#undef O2
}
template<glm::qualifier Q> void float3_extra(size_t k, std::vector<float> const& M) {
    glm::vec<3, float, Q> a = mk<3, float, Q>(M, k), b = mk<3, float, Q>(M, k * 5 + 1);
    glm::vec<3, float, Q> r = glm::cross(a, b); EV("cross", float, Q, 3).arg(a).arg(b).res(r).emit();
}

// ---------------------------------------------------------------- integer vector families
template<int L, class T, glm::qualifier Q> void int_ops(size_t k, std::vector<T> const& S, std::vector<T> const& SM) {
    typedef glm::vec<L, T, Q> V;
    V s = mk<L, T, Q>(S, k), s2 = mk<L, T, Q>(S, k * 3 + 5), a = mk<L, T, Q>(SM, k), b = mk<L, T, Q>(SM, k * 5 + 1);
    V d; for (int i = 0; i < L; ++i) d[i] = T(1 + (k + size_t(i)) % 9);
    T sh = T(k % 29);
    const bool uns = !std::is_signed<T>::value;
    V x = uns ? s : a, y = uns ? s2 : b;        // unsigned arithmetic wraps; signed operands are kept small
#define O2(NAME, O, X, Y) { V r = X O Y; EV(NAME, T, Q, L).arg(X).arg(Y).res(r).emit(); }
    O2("add", +, x, y) O2("sub", -, x, y) O2("mul", *, x, y) O2("div", /, x, d) O2("and", &, s, s2) O2("or", |, s, s2) O2("xor", ^, s, s2)
    { V r = ~s; EV("not", T, Q, L).arg(s).res(r).emit(); }
    { V nn = uns ? s : glm::abs(a); V r = nn >> sh; EV("shr", T, Q, L).arg(nn).arg(sh).res(r).emit(); V one; for (int i = 0; i < L; ++i) one[i] = T(1 + i); T sh2 = T(k % 27); V r2 = one << sh2; EV("shl", T, Q, L).arg(one).arg(sh2).res(r2).emit(); }
    { V r = glm::min(s, s2); EV("min", T, Q, L).arg(s).arg(s2).res(r).emit(); V r2 = glm::max(s, s2); EV("max", T, Q, L).arg(s).arg(s2).res(r2).emit(); V lo = glm::min(s, s2), hi = glm::max(s, s2); V r3 = glm::clamp(y, lo, hi); EV("clamp", T, Q, L).arg(y).arg(lo).arg(hi).res(r3).emit(); }
    if (!uns) { V r = glm::abs(a); EV("abs", T, Q, L).arg(a).res(r).emit(); }
    { bool e = (s == s2), n = (s != s2), e2 = (s == s); V s3 = s; s3[0] = T(s3[0] + T(1)); bool n3 = (s != s3), e3 = (s == s3);
      EV("eq", T, Q, L).arg(s).arg(s2).res(e).emit(); EV("ne", T, Q, L).arg(s).arg(s2).res(n).emit(); EV("eq", T, Q, L).arg(s).arg(s).res(e2).emit(); EV("ne", T, Q, L).arg(s).arg(s3).res(n3).emit(); EV("eq", T, Q, L).arg(s).arg(s3).res(e3).emit(); }
    { glm::vec<L, int, Q> r = glm::bitCount(s); EV("bitCount", T, Q, L).arg(s).res(r).emit(); V r2 = glm::bitfieldReverse(s); EV("bitfieldReverse", T, Q, L).arg(s).res(r2).emit(); }
    { glm::vec<L, float, Q> f(s); EV("toFloat", T, Q, L).arg(s).res(f).emit(); }
#undef O2
}
template<int L, glm::qualifier Q> void double_ops(size_t k, std::vector<double> const& M, std::vector<double> const& P) {
    typedef glm::vec<L, double, Q> V;
    V a = mk<L, double, Q>(M, k), b = mk<L, double, Q>(M, k * 5 + 1), c = mk<L, double, Q>(M, k * 7 + 2), p = mk<L, double, Q>(P, k);
#define O2(NAME, O, X, Y) { V r = X O Y; EV(NAME, double, Q, L).arg(X).arg(Y).res(r).emit(); }
    O2("add", +, a, b) O2("sub", -, a, b) O2("mul", *, a, b) O2("div", /, a, p)
    { V r = glm::fma(a, b, c); EV("fma", double, Q, L).arg(a).arg(b).arg(c).res(r).emit(); double d = glm::dot(a, b); EV("dot", double, Q, L).arg(a).arg(b).res(d).emit(); }
#undef O2
}

// ---------------------------------------------------------------- matrices and quaternions
template<glm::qualifier Q> void mat_ops(size_t k, std::vector<float> const& M) {
    typedef glm::mat<4, 4, float, Q> M4; typedef glm::mat<3, 3, float, Q> M3; typedef glm::vec<4, float, Q> V4; typedef glm::vec<3, float, Q> V3;
    M4 a, b; M3 c; for (int i = 0; i < 16; ++i) { a[i / 4][i % 4] = M[(k * 3 + size_t(i)) % M.size()]; b[i / 4][i % 4] = M[(k * 7 + size_t(i) * 5 + 1) % M.size()]; } for (int i = 0; i < 9; ++i) c[i / 3][i % 3] = M[(k * 5 + size_t(i) * 3 + 2) % M.size()];
    V4 v = mk<4, float, Q>(M, k + 11); V3 w = mk<3, float, Q>(M, k + 13);
    { M4 r = a * b; EV("mm", float, Q, 16).arg(a).arg(b).res(r).emit(); V4 r2 = a * v; EV("mv", float, Q, 16).arg(a).arg(v).res(r2).emit(); V4 r3 = v * a; EV("vm", float, Q, 16).arg(v).arg(a).res(r3).emit(); }
    { M3 c2 = glm::transpose(c) ; EV("tr", float, Q, 9).arg(c).res(c2).emit(); M4 t = glm::transpose(a); EV("tr", float, Q, 16).arg(a).res(t).emit(); M4 cm = glm::matrixCompMult(a, b); EV("cmul", float, Q, 16).arg(a).arg(b).res(cm).emit();
      M4 op = glm::outerProduct(v, mk<4, float, Q>(M, k + 17)); V4 v2 = mk<4, float, Q>(M, k + 17); EV("outer", float, Q, 16).arg(v).arg(v2).res(op).emit(); V3 r = c * w; EV("mv", float, Q, 9).arg(c).arg(w).res(r).emit(); M3 cc = c * c; EV("mm", float, Q, 9).arg(c).arg(c).res(cc).emit(); }
    { M4 s = a + b; EV("madd", float, Q, 16).arg(a).arg(b).res(s).emit(); M4 d = a - b; EV("msub", float, Q, 16).arg(a).arg(b).res(d).emit(); float sc = M[(k + 1) % M.size()]; M4 ms = a * sc; EV("mmuls", float, Q, 16).arg(a).arg(sc).res(ms).emit(); }
    // determinant / inverse on well-conditioned matrices: integer unimodular (exact) and a scaled rotation-like one
    { M4 u(1.0f); int i1 = int(k % 4), j1 = int((k / 4 + 1 + i1) % 4); if (i1 != j1) u[j1][i1] = float(int(k % 5) - 2); int i2 = int((k / 3) % 4), j2 = int((k / 7 + 2 + i2) % 4); M4 u2(1.0f); if (i2 != j2) u2[j2][i2] = float(int(k % 3) - 1); M4 m = u * u2; if (k % 2) m = glm::transpose(m);
      float d = glm::determinant(m); EV("det", float, Q, 16).arg(m).res(d).emit(); M4 inv = glm::inverse(m); EV("inverse", float, Q, 16).arg(m).res(inv).emit();
      M4 m2 = m; m2[3] = V4(float(int(k % 7) - 3), 2.0f, -1.0f, 1.0f); float sc2 = 1.0f + float(k % 4) * 0.5f; m2[0] *= sc2; M4 inv2 = glm::inverse(m2); EV("inverse", float, Q, 16).arg(m2).res(inv2).emit(); float d2 = glm::determinant(m2); EV("det", float, Q, 16).arg(m2).res(d2).emit();
      M4 ai = glm::affineInverse(m2); EV("affineInverse", float, Q, 16).arg(m2).res(ai).emit(); M4 it = glm::inverseTranspose(m2); EV("inverseTranspose", float, Q, 16).arg(m2).res(it).emit(); }
}
// double matrices: the AVX / SSE2 double specialisations of mul4x4 (splats) and mat * vec
template<glm::qualifier Q> void dmat_ops(size_t k, std::vector<double> const& M) {
    typedef glm::mat<4, 4, double, Q> M4; typedef glm::vec<4, double, Q> V4;
    M4 a, b; for (int i = 0; i < 16; ++i) { a[i / 4][i % 4] = M[(k * 3 + size_t(i)) % M.size()]; b[i / 4][i % 4] = M[(k * 7 + size_t(i) * 5 + 1) % M.size()]; }
    V4 v = mk<4, double, Q>(M, k + 11);
    { M4 r = a * b; EV("mm", double, Q, 16).arg(a).arg(b).res(r).emit(); V4 r2 = a * v; EV("mv", double, Q, 16).arg(a).arg(v).res(r2).emit(); V4 r3 = v * a; EV("vm", double, Q, 16).arg(v).arg(a).res(r3).emit(); }
    { M4 t = glm::transpose(a); EV("tr", double, Q, 16).arg(a).res(t).emit(); M4 s = a + b; EV("madd", double, Q, 16).arg(a).arg(b).res(s).emit(); }
}
template<glm::qualifier Q> void quat_ops(size_t k, std::vector<float> const& M) {
    typedef glm::qua<float, Q> Qt; typedef glm::vec<3, float, Q> V3; typedef glm::vec<4, float, Q> V4;
    static const int tuples[][4] = { {1,1,1,1}, {1,2,2,4}, {2,4,5,6}, {0,3,4,0}, {1,0,0,0}, {0,0,0,1}, {2,3,6,0}, {1,4,8,0}, {-1,1,-1,1}, {4,-2,2,-1} };
    const int* t1 = tuples[k % 10]; const int* t2 = tuples[(k / 10 + 3) % 10];
    float n1 = std::sqrt(float(t1[0] * t1[0] + t1[1] * t1[1] + t1[2] * t1[2] + t1[3] * t1[3])), n2 = std::sqrt(float(t2[0] * t2[0] + t2[1] * t2[1] + t2[2] * t2[2] + t2[3] * t2[3]));
    Qt p = Qt::wxyz(t1[0] / n1, t1[1] / n1, t1[2] / n1, t1[3] / n1), q = Qt::wxyz(t2[0] / n2, t2[1] / n2, t2[2] / n2, t2[3] / n2);
    V3 v = mk<3, float, Q>(M, k); V4 v4 = mk<4, float, Q>(M, k + 2); float sc = M[(k + 5) % M.size()] + 3.0f;
    { Qt r = p * q; EV("qmul", float, Q, 4).arg(p).arg(q).res(r).emit(); Qt s = p + q; EV("qadd", float, Q, 4).arg(p).arg(q).res(s).emit(); Qt d = p - q; EV("qsub", float, Q, 4).arg(p).arg(q).res(d).emit();
      Qt ms = p * sc; EV("qmuls", float, Q, 4).arg(p).arg(sc).res(ms).emit(); Qt ds = p / sc; EV("qdivs", float, Q, 4).arg(p).arg(sc).res(ds).emit();
      { Qt m2 = p; m2 *= sc; EV("qmuls", float, Q, 4).arg(p).arg(sc).res(m2).emit(); Qt d2 = p; d2 /= sc; EV("qdivs", float, Q, 4).arg(p).arg(sc).res(d2).emit(); Qt a2 = p; a2 += q; EV("qadd", float, Q, 4).arg(p).arg(q).res(a2).emit(); Qt s2 = p; s2 -= q; EV("qsub", float, Q, 4).arg(p).arg(q).res(s2).emit(); }
      { typedef glm::qua<double, Q> Qd; Qd pd = Qd::wxyz(double(t1[0]) / 8.0, double(t1[1]) / 8.0, double(t1[2]) / 8.0, double(t1[3]) / 8.0), qd = Qd::wxyz(double(t2[0]) / 4.0, double(t2[1]) / 4.0, double(t2[2]) / 4.0, double(t2[3]) / 4.0); double sd = double(sc);
        Qd r = pd + qd; EV("qadd", double, Q, 4).arg(pd).arg(qd).res(r).emit(); Qd d = pd - qd; EV("qsub", double, Q, 4).arg(pd).arg(qd).res(d).emit(); Qd m = pd; m *= sd; EV("qmuls", double, Q, 4).arg(pd).arg(sd).res(m).emit();
        Qd dv = pd; dv /= sd; EV("qdivs", double, Q, 4).arg(pd).arg(sd).res(dv).emit(); double dt = glm::dot(pd, qd); EV("qdot", double, Q, 4).arg(pd).arg(qd).res(dt).emit(); Qd pr = pd * qd; EV("qmul", double, Q, 4).arg(pd).arg(qd).res(pr).emit(); }
      V3 rv = p * v; EV("qrot", float, Q, 3).arg(p).arg(v).res(rv).emit(); V4 rv4 = p * v4; EV("qrot", float, Q, 4).arg(p).arg(v4).res(rv4).emit();
      float dt = glm::dot(p, q); EV("qdot", float, Q, 4).arg(p).arg(q).res(dt).emit(); float ln = glm::length(p * sc); Qt psc = p * sc; EV("qlength", float, Q, 4).arg(psc).res(ln).emit(); Qt nq = glm::normalize(psc); EV("qnormalize", float, Q, 4).arg(psc).res(nq).emit();
      Qt cj = glm::conjugate(p); EV("qconj", float, Q, 4).arg(p).res(cj).emit(); Qt iv = glm::inverse(psc); EV("qinverse", float, Q, 4).arg(psc).res(iv).emit();
      glm::mat<3, 3, float, Q> m3 = glm::mat3_cast(p); EV("qmat3", float, Q, 4).arg(p).res(m3).emit(); glm::mat<4, 4, float, Q> m4 = glm::mat4_cast(q); EV("qmat4", float, Q, 4).arg(q).res(m4).emit(); }
}

static void body(int argc, char** argv) {
    g_thorough = argc > 2 && std::string(argv[2]) == "thorough";
    Rng rng(seed_from_env()); g_rng = &rng;
    Ev("config").str("build", BUILD).num("aligned", GLM_CONFIG_ALIGNED_GENTYPES == GLM_ENABLE ? 1 : 0).num("simd", GLM_CONFIG_SIMD == GLM_ENABLE ? 1 : 0).num("sizeof_vec3", long(sizeof(glm::vec<3, float, QH>))).emit();
    auto S = specials<float>(); auto M = moderate<float>(); auto P = positive<float>();
    auto Md = moderate<double>(); auto Pd = positive<double>();
    auto Si = ints<int>(); auto Su = ints<unsigned>(); auto SMi = small_ints<int>(); auto SMu = small_ints<unsigned>();
    size_t reps = g_thorough ? 400 : 70;
    for (size_t k = 0; k < reps; ++k) {
        float_ops<4, QH>(k, S, M, P); float_ops<3, QH>(k, S, M, P); float_ops<2, QH>(k, S, M, P);
        float_ops<4, QM>(k, S, M, P); float_ops<3, QM>(k, S, M, P); float_ops<4, QL>(k, S, M, P); float_ops<3, QL>(k, S, M, P);
        float3_extra<QH>(k, M); float3_extra<QM>(k, M); float3_extra<QL>(k, M);
        int_ops<4, int, QH>(k, Si, SMi); int_ops<3, int, QH>(k, Si, SMi); int_ops<4, unsigned, QH>(k, Su, SMu); int_ops<3, unsigned, QM>(k, Su, SMu); int_ops<4, int, QL>(k, Si, SMi); int_ops<2, int, QH>(k, Si, SMi);
        double_ops<4, QH>(k, Md, Pd); double_ops<3, QH>(k, Md, Pd); double_ops<2, QM>(k, Md, Pd);
        mat_ops<QH>(k, M); mat_ops<QM>(k, M); mat_ops<QL>(k, M);
        dmat_ops<QH>(k, Md); if (k % 3 == 0) dmat_ops<QM>(k, Md);
        quat_ops<QH>(k, M); quat_ops<QM>(k, M); quat_ops<QL>(k, M);
    }
}
int main(int argc, char** argv) { return run_main(argc, argv, body); }
