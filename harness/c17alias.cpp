// C17 (and C15 / C20): conversions between aligned and packed vectors / matrices whose sources are compile-time visible.
// The conversion constructors of the intrinsic builds store through reinterpreted pointers; with the source built from constants in the
// same function, g++ -O2 / -O3 applies type-based alias analysis to those stores.  Straight-line code on purpose (no templates around the
// converted objects, no loops): one event per conversion, judged by Trace_C17 like every other constructor event.
//   c17alias <trace-out>
#define VH_NO_EXT_ALL
#include "common.hpp"
#include <glm/gtc/type_aligned.hpp>
using namespace vh;
typedef unsigned int uint_t;
#ifndef C17_CFGNAME
#define C17_CFGNAME "alias"
#endif
#define AT(T) (std::string("[\"") + TI<T>::code() + "\"]").c_str()
static void raw(Ev& e, const char* k, const char* json) { e.close_args(); e.s += ",\""; e.s += k; e.s += "\":"; e.s += json; }

#define MAT_CONV(C, R, T, QD, QS, ...) { glm::mat<C, R, T, glm::QS> a(__VA_ARGS__); glm::mat<C, R, T, glm::QD> p(a); \
    Ev e("cmat"); e.str("cfg", C17_CFGNAME).str("kind", "mat").num("C", C).num("R", R).num("C2", C).num("R2", R).str("t", TI<T>::code()).str("q", #QD).str("aq", #QS); raw(e, "at", AT(T)); e.arg(a).res(p).emit(); }
#define VEC_CONV(L, T, QD, QS, PARTS, ...) { glm::vec<L, T, glm::QS> a(__VA_ARGS__); glm::vec<L, T, glm::QD> p(a); \
    Ev e("cvec"); e.str("cfg", C17_CFGNAME).num("n", L).str("t", TI<T>::code()).str("q", #QD).str("aq", #QS); raw(e, "parts", PARTS); raw(e, "at", AT(T)); e.arg(a).res(p).emit(); }
#define ALL_SHAPES(T, QD, QS) \
    VEC_CONV(2, T, QD, QS, "[\"v2\"]", T(1), T(2)) VEC_CONV(3, T, QD, QS, "[\"v3\"]", T(1), T(2), T(3)) VEC_CONV(4, T, QD, QS, "[\"v4\"]", T(1), T(2), T(3), T(4)) \
    MAT_CONV(2, 2, T, QD, QS, T(1), T(2), T(3), T(4)) MAT_CONV(2, 3, T, QD, QS, T(1), T(2), T(3), T(4), T(5), T(6)) MAT_CONV(2, 4, T, QD, QS, T(1), T(2), T(3), T(4), T(5), T(6), T(7), T(8)) \
    MAT_CONV(3, 2, T, QD, QS, T(1), T(2), T(3), T(4), T(5), T(6)) MAT_CONV(3, 3, T, QD, QS, T(1), T(2), T(3), T(4), T(5), T(6), T(7), T(8), T(9)) \
    MAT_CONV(3, 4, T, QD, QS, T(1), T(2), T(3), T(4), T(5), T(6), T(7), T(8), T(9), T(10), T(11), T(12)) \
    MAT_CONV(4, 2, T, QD, QS, T(1), T(2), T(3), T(4), T(5), T(6), T(7), T(8)) MAT_CONV(4, 3, T, QD, QS, T(1), T(2), T(3), T(4), T(5), T(6), T(7), T(8), T(9), T(10), T(11), T(12)) \
    MAT_CONV(4, 4, T, QD, QS, T(1), T(2), T(3), T(4), T(5), T(6), T(7), T(8), T(9), T(10), T(11), T(12), T(13), T(14), T(15), T(16))

static void body(int, char**) {
#if GLM_CONFIG_ALIGNED_GENTYPES == GLM_ENABLE
    ALL_SHAPES(float, packed_highp, aligned_highp)
    ALL_SHAPES(float, aligned_highp, packed_highp)
    ALL_SHAPES(int, packed_highp, aligned_highp)
    ALL_SHAPES(int, aligned_highp, packed_highp)
    ALL_SHAPES(uint_t, packed_highp, aligned_highp)
    ALL_SHAPES(uint_t, aligned_highp, packed_highp)
    ALL_SHAPES(double, packed_highp, aligned_highp)
    ALL_SHAPES(double, aligned_highp, packed_highp)
    ALL_SHAPES(float, packed_mediump, aligned_mediump)
    ALL_SHAPES(float, packed_highp, aligned_lowp)
#endif
}
int main(int argc, char** argv) { return run_main(argc, argv, body); }
