// C01 harness: every component-wise function / operator, vector overloads versus the scalar overload per component.
//   c01 <trace-out> <mode>
// One "lift" event per vector call: a = arguments (vectors / scalars), r = the vector result, s = what the SCALAR overload
// returned for each component (scalar arguments broadcast).  The same generic callable is applied to the vectors and to
// the component values, so the harness contains no expected values: it only records both sides.
#define VH_NO_EXT_ALL
#include "common.hpp"
#include <glm/ext/vector_common.hpp>
#include <glm/ext/scalar_common.hpp>
#include <glm/ext/vector_reciprocal.hpp>
#include <glm/ext/scalar_reciprocal.hpp>
#include <glm/ext/vector_relational.hpp>
#include <glm/ext/scalar_relational.hpp>
#include <glm/ext/vector_integer.hpp>
#include <glm/ext/scalar_integer.hpp>
#include <glm/ext/matrix_common.hpp>
#include <glm/gtx/component_wise.hpp>
#include <glm/gtc/type_precision.hpp>
using namespace vh;
// -DC01_ALIGNED (intrinsic builds): the three qualifiers are the aligned ones, so the vector side runs GLM's SIMD kernels
#ifdef C01_ALIGNED
static constexpr glm::qualifier QH = glm::aligned_highp, QM = glm::aligned_mediump, QL = glm::aligned_lowp;
#define C01_CFG "simd"
#else
static constexpr glm::qualifier QH = glm::packed_highp, QM = glm::packed_mediump, QL = glm::packed_lowp;
#define C01_CFG "pure"
#endif
static bool g_thorough = false;
static size_t g_reps = 36;     // windows per (function, shape) in the quick tier; 'small' mode (cross-configuration runs) uses fewer
static Rng* g_rng = nullptr;

template<class X> struct is_vec : std::false_type {};
template<glm::length_t L, class T, glm::qualifier Q> struct is_vec<glm::vec<L, T, Q>> : std::true_type {};
template<glm::length_t L, class T, glm::qualifier Q> constexpr int veclen(glm::vec<L, T, Q> const*) { return int(L); }
template<class X> auto comp(X const& x, int i) { if constexpr (is_vec<X>::value) return x[i]; else return x; }
template<glm::qualifier Q> const char* qname() { return Q == QH ? "highp" : Q == QM ? "mediump" : "lowp"; }
template<class X> void put_arg(Ev& e, X const& x) { e.arg(x); }

// f applied to vectors (and broadcast scalars) and, component by component, to scalars
template<class T, glm::qualifier Q, class F, class... A>
void lift(const char* fname, const char* kind, F fn, A const&... a) {
    auto r = fn(a...);
    typedef decltype(r) RV; typedef typename RV::value_type RT; constexpr int L = veclen(static_cast<RV const*>(nullptr));
    glm::vec<L, RT, Q> s;
    for (int i = 0; i < L; ++i) s[i] = RT(fn(comp(a, i)...));
    Ev e("lift"); e.str("cfg", C01_CFG).str("f", fname).str("t", TI<T>::code()).str("q", qname<Q>()).num("n", L).str("k", kind);
    (put_arg(e, a), ...);
    e.val("s", s).res(r).emit();
}

// ---------------------------------------------------------------- value windows
template<class T> std::vector<T> special() {                 // full special-value lattice of the type
    std::vector<T> v; for (uint64_t b : lattice<T>()) v.push_back(from_bits<T>(b)); return v;
}
template<class T> std::vector<T> moderate() {                 // finite, moderate magnitudes (composite formulas, trig, exp ...)
    std::vector<T> v;
    if constexpr (std::is_floating_point<T>::value) { for (double d : { 0.0, -0.0, 0.25, -0.25, 0.5, -0.5, 0.75, 1.0, -1.0, 1.5, -1.5, 2.0, 2.5, -2.5, 3.0, 3.5, 0.1, -0.3, 0.7, 10.0, -7.25, 100.5, 1e-3, 1e3, 0.999, -0.999, 4.5, 5.5, -5.5, 6.25 }) v.push_back(T(d));
        for (int i = 0; i < 40; ++i) v.push_back(T((double(g_rng->below(400001)) - 200000.0) / 8192.0)); }
    else { v = special<T>(); }
    return v;
}
template<class T> std::vector<T> unit() {                     // |x| <= 1 (asin, acos, atanh ...) and >= 1 variants are derived by the caller
    std::vector<T> v; for (double d : { 0.0, -0.0, 0.25, -0.25, 0.5, -0.5, 0.75, -0.75, 1.0, -1.0, 0.1, -0.9, 0.999, 1e-3, 0.3333, -0.6 }) v.push_back(T(d)); for (int i = 0; i < 24; ++i) v.push_back(T((double(g_rng->below(20001)) - 10000.0) / 10000.0)); return v;
}
template<class T> std::vector<T> positive() {
    std::vector<T> v; for (double d : { 0.25, 0.5, 1.0, 1.5, 2.0, 3.0, 4.0, 10.0, 100.0, 1e-3, 1e3, 0.1, 7.75, 1e-10, 1e10, 2.718281828, 16.0, 0.0625 }) v.push_back(T(d)); for (int i = 0; i < 24; ++i) v.push_back(T(double(1 + g_rng->below(1000000)) / 1024.0)); return v;
}
template<class T> std::vector<T> nonzero_small() {            // divisors / shift-safe small values for integer % and /
    std::vector<T> v; for (int d : { 1, 2, 3, 5, 7, 10, 16, 100, 127 }) v.push_back(T(d)); return v;
}
template<class T> std::vector<T> shifts() { std::vector<T> v; for (int d = 0; d < int(sizeof(T) * 8) && d < 31; d += (d < 3 ? 1 : 3)) v.push_back(T(d)); return v; }

template<int L, class T, glm::qualifier Q> glm::vec<L, T, Q> win(std::vector<T> const& v, size_t k) { glm::vec<L, T, Q> r; for (int i = 0; i < L; ++i) r[i] = v[(k + size_t(i)) % v.size()]; return r; }

// run `body(lengthTag, qualifierTag, k)` over L = 1..4, the three qualifiers and a number of windows
template<class T, class B> void sweep(size_t nvals, B body) {
    size_t reps = g_thorough ? nvals : std::min<size_t>(nvals, g_reps);
    size_t step = std::max<size_t>(1, nvals / reps);
    for (size_t k = 0; k < nvals; k += step) {
        switch (k / step % 3) {
            case 0: body(std::integral_constant<int, 1>(), std::integral_constant<glm::qualifier, QH>(), k); body(std::integral_constant<int, 4>(), std::integral_constant<glm::qualifier, QM>(), k + 1);
                    body(std::integral_constant<int, 2>(), std::integral_constant<glm::qualifier, QL>(), k + 2); body(std::integral_constant<int, 3>(), std::integral_constant<glm::qualifier, QH>(), k + 3); break;
            case 1: body(std::integral_constant<int, 2>(), std::integral_constant<glm::qualifier, QH>(), k); body(std::integral_constant<int, 1>(), std::integral_constant<glm::qualifier, QM>(), k + 1);
                    body(std::integral_constant<int, 3>(), std::integral_constant<glm::qualifier, QL>(), k + 2); body(std::integral_constant<int, 4>(), std::integral_constant<glm::qualifier, QH>(), k + 3); break;
            default: body(std::integral_constant<int, 3>(), std::integral_constant<glm::qualifier, QM>(), k); body(std::integral_constant<int, 4>(), std::integral_constant<glm::qualifier, QL>(), k + 1);
                    body(std::integral_constant<int, 1>(), std::integral_constant<glm::qualifier, QL>(), k + 2); body(std::integral_constant<int, 2>(), std::integral_constant<glm::qualifier, QM>(), k + 3); break;
        }
    }
}
#define LQ(LT, QT) constexpr int L = decltype(LT)::value; constexpr glm::qualifier Q = decltype(QT)::value

template<class T, class F> void un(const char* f, std::vector<T> const& v, F fn) {
    sweep<T>(v.size(), [&](auto lt, auto qt, size_t k) { LQ(lt, qt); lift<T, Q>(f, "v", fn, win<L, T, Q>(v, k)); });
}
// binary: vv, vs, sv (sv only when requested), v with vec1
enum { BVS = 1, BSV = 2, BV1 = 4 };
template<int K, class T, class F> void bin(const char* f, std::vector<T> const& va, std::vector<T> const& vb, F fn) {
    sweep<T>(va.size(), [&](auto lt, auto qt, size_t k) { LQ(lt, qt);
        auto a = win<L, T, Q>(va, k); auto b = win<L, T, Q>(vb, k * 3 + 1);
        lift<T, Q>(f, "vv", fn, a, b);
        if constexpr ((K & BVS) != 0) lift<T, Q>(f, "vs", fn, a, vb[(k + 2) % vb.size()]);
        if constexpr ((K & BSV) != 0) lift<T, Q>(f, "sv", fn, va[(k + 5) % va.size()], b);
        if constexpr ((K & BV1) != 0) { glm::vec<1, T, Q> b1(vb[(k + 4) % vb.size()]); auto r = fn(a, b1); typedef decltype(r) RV; glm::vec<L, typename RV::value_type, Q> s; for (int i = 0; i < L; ++i) s[i] = typename RV::value_type(fn(a[i], b1.x));
            Ev e("lift"); e.str("cfg", C01_CFG).str("f", f).str("t", TI<T>::code()).str("q", qname<Q>()).num("n", L).str("k", "vv1"); e.arg(a).arg(b1).val("s", s).res(r).emit(); }
        // ... and with the vec1 FIRST (vec1 op vecL is a separate overload of every operator): first operand from va, second from vb as before
        if constexpr ((K & BV1) != 0) { glm::vec<1, T, Q> a1(va[(k + 6) % va.size()]); auto r = fn(a1, b); typedef decltype(r) RV; glm::vec<L, typename RV::value_type, Q> s; for (int i = 0; i < L; ++i) s[i] = typename RV::value_type(fn(a1.x, b[i]));
            Ev e("lift"); e.str("cfg", C01_CFG).str("f", f).str("t", TI<T>::code()).str("q", qname<Q>()).num("n", L).str("k", "v1v"); e.arg(a1).arg(b).val("s", s).res(r).emit(); }
    });
}
enum { VVV = 1, VSS = 2, VVS = 4, SSV = 8 };
template<int K, class T, class F> void tern(const char* f, std::vector<T> const& va, std::vector<T> const& vb, std::vector<T> const& vc, F fn) {
    sweep<T>(va.size(), [&](auto lt, auto qt, size_t k) { LQ(lt, qt);
        auto a = win<L, T, Q>(va, k); auto b = win<L, T, Q>(vb, k * 3 + 1); auto c = win<L, T, Q>(vc, k * 5 + 2);
        T sa = va[(k + 1) % va.size()], sb = vb[(k + 2) % vb.size()], sc = vc[(k + 3) % vc.size()];
        if constexpr ((K & VVV) != 0) lift<T, Q>(f, "vvv", fn, a, b, c);
        if constexpr ((K & VSS) != 0) lift<T, Q>(f, "vss", fn, a, sb, sc);
        if constexpr ((K & VVS) != 0) lift<T, Q>(f, "vvs", fn, a, b, sc);
        if constexpr ((K & SSV) != 0) lift<T, Q>(f, "ssv", fn, sa, sb, c);
    });
}

// ---------------------------------------------------------------- op tables
#define F1(NAME) [](auto const& x) { return glm::NAME(x); }
#define F2(NAME) [](auto const& x, auto const& y) { return glm::NAME(x, y); }
#define F3(NAME) [](auto const& x, auto const& y, auto const& z) { return glm::NAME(x, y, z); }
#define F4(NAME) [](auto const& x, auto const& y, auto const& z, auto const& w) { return glm::NAME(x, y, z, w); }
#define REL(NAME, O) [](auto const& x, auto const& y) { if constexpr (is_vec<std::decay_t<decltype(x)>>::value) return glm::NAME(x, y); else return x O y; }
#define OP2(O) [](auto const& x, auto const& y) { return x O y; }

template<class T> void float_funcs() {
    auto S = special<T>(); auto M = moderate<T>(); auto U = unit<T>(); auto P = positive<T>();
    std::vector<T> GE1; for (T p : P) if (T(1) + p > T(1)) GE1.push_back(T(1) + p);                       // strictly above 1 (acosh, acoth, upper clamp bounds)
    std::vector<T> AB1; for (T u : U) if (u != T(0)) AB1.push_back(T(1) / u); AB1.push_back(T(1)); AB1.push_back(T(-1)); AB1.push_back(T(2.5));
    std::vector<T> UO; for (T u : U) if (u > T(-1) && u < T(1)) UO.push_back(u);                                               // open interval (atanh has poles at +-1) std::vector<T> AB1; for (T u : U) if (u != T(0)) AB1.push_back(T(1) / u); AB1.push_back(T(1)); AB1.push_back(T(-1)); AB1.push_back(T(2.5));
    // common: selection / rounding / classification  (identical results required, on the whole special-value lattice)
    un<T>("abs", S, F1(abs)); un<T>("sign", S, F1(sign)); un<T>("floor", S, F1(floor)); un<T>("ceil", S, F1(ceil)); un<T>("trunc", S, F1(trunc)); un<T>("round", S, F1(round));
    un<T>("roundEven", S, F1(roundEven)); un<T>("fract", S, F1(fract)); un<T>("isnan", S, F1(isnan)); un<T>("isinf", S, F1(isinf));
    un<T>("floor", M, F1(floor)); un<T>("roundEven", M, F1(roundEven)); un<T>("fract", M, F1(fract)); un<T>("round", M, F1(round));
    bin<BVS, T>("min", S, S, F2(min)); bin<BVS, T>("max", S, S, F2(max)); bin<BSV, T>("step", S, S, F2(step)); bin<BSV, T>("step", M, M, F2(step));
    bin<BVS, T>("mod", M, P, F2(mod)); bin<BVS, T>("fmin", S, S, F2(fmin)); bin<BVS, T>("fmax", S, S, F2(fmax));
    tern<VVV|VSS, T>("clamp", S, U, GE1, F3(clamp));
    tern<VVV|VSS, T>("clampraw", M, U, GE1, F3(clamp));
    tern<VVV|VSS, T>("fclamp", S, U, GE1, F3(fclamp));
    tern<VVV|VVS, T>("mix", M, M, U, F3(mix)); tern<VVV|VVS, T>("mix", M, M, M, F3(mix));
    tern<VVV|SSV, T>("smoothstep", U, GE1, M, F3(smoothstep));
    tern<VVV, T>("fma", M, M, M, F3(fma));
    // epsilon comparisons of ext/vector_relational against ext/scalar_relational: other values, and the SAME value on both sides (infinities:
    // |x - y| is NaN there), scalar and vector epsilon
    tern<VVV|VVS, T>("equalEps", S, S, P, F3(equal)); tern<VVV|VVS, T>("notEqualEps", S, S, P, F3(notEqual));
    tern<VVV|VVS, T>("equalEps", M, M, U, F3(equal)); tern<VVV|VVS, T>("notEqualEps", M, M, U, F3(notEqual));
    sweep<T>(S.size(), [&](auto lt, auto qt, size_t k) { LQ(lt, qt); auto a = win<L, T, Q>(S, k); auto b = a; auto ev = win<L, T, Q>(P, k * 5 + 2); T es = P[(k + 3) % P.size()];
        lift<T, Q>("equalEps", "vvv", F3(equal), a, b, ev); lift<T, Q>("notEqualEps", "vvv", F3(notEqual), a, b, ev);
        lift<T, Q>("equalEps", "vvs", F3(equal), a, b, es); lift<T, Q>("notEqualEps", "vvs", F3(notEqual), a, b, es); });
    tern<VVV, T>("min3", S, S, S, F3(min)); tern<VVV, T>("max3", S, S, S, F3(max)); tern<VVV, T>("fmin3", S, S, S, F3(fmin)); tern<VVV, T>("fmax3", S, S, S, F3(fmax));
    sweep<T>(S.size(), [&](auto lt, auto qt, size_t k) { LQ(lt, qt); auto a = win<L, T, Q>(S, k), b = win<L, T, Q>(S, k * 3 + 1), c = win<L, T, Q>(S, k * 5 + 2), d = win<L, T, Q>(S, k * 7 + 3);
        lift<T, Q>("min4", "vvvv", F4(min), a, b, c, d); lift<T, Q>("max4", "vvvv", F4(max), a, b, c, d); lift<T, Q>("fmin4", "vvvv", F4(fmin), a, b, c, d); lift<T, Q>("fmax4", "vvvv", F4(fmax), a, b, c, d);
        glm::vec<L, bool, Q> m; for (int i = 0; i < L; ++i) m[i] = ((k >> i) & 1) != 0;
        lift<T, Q>("mixb", "vvb", F3(mix), a, b, m); lift<T, Q>("mixb", "vvB", F3(mix), a, b, (k & 1) != 0); });
    un<T>("texClamp", S, F1(clamp)); un<T>("texRepeat", M, F1(repeat)); un<T>("texMirrorClamp", M, F1(mirrorClamp)); un<T>("texMirrorRepeat", M, F1(mirrorRepeat));
    { std::vector<T> PI; for (T x : P) if (x < T(2147483000.0)) PI.push_back(x); un<T>("iround", PI, F1(iround)); un<T>("uround", PI, F1(uround)); }   // the documented domain: results representable
    // out-parameter functions: modf / frexp / ldexp (hand-written per-length bodies in func_common.inl)
    sweep<T>(M.size(), [&](auto lt, auto qt, size_t k) { LQ(lt, qt); auto a = win<L, T, Q>(M, k);
        { glm::vec<L, T, Q> ip(T(77)); glm::vec<L, T, Q> r = glm::modf(a, ip); glm::vec<L, T, Q> s, si; for (int i = 0; i < L; ++i) { T t = T(55); s[i] = glm::modf(a[i], t); si[i] = t; }
          Ev e("lift"); e.str("cfg", C01_CFG).str("f", "modf").str("t", TI<T>::code()).str("q", qname<Q>()).num("n", L).str("k", "v"); e.arg(a).val("s", s).res(r).emit();
          Ev e2("lift"); e2.str("cfg", C01_CFG).str("f", "modf.i").str("t", TI<T>::code()).str("q", qname<Q>()).num("n", L).str("k", "v"); e2.arg(a).val("s", si).res(ip).emit(); }
        { glm::vec<L, int, Q> ex(9999); glm::vec<L, T, Q> r = glm::frexp(a, ex); glm::vec<L, T, Q> s; glm::vec<L, int, Q> se; for (int i = 0; i < L; ++i) { int t = 4444; s[i] = glm::frexp(a[i], t); se[i] = t; }
          Ev e("lift"); e.str("cfg", C01_CFG).str("f", "frexp").str("t", TI<T>::code()).str("q", qname<Q>()).num("n", L).str("k", "v"); e.arg(a).val("s", s).res(r).emit();
          Ev e2("lift"); e2.str("cfg", C01_CFG).str("f", "frexp.e").str("t", TI<T>::code()).str("q", qname<Q>()).num("n", L).str("k", "v"); e2.arg(a).val("s", se).res(ex).emit();
          glm::vec<L, int, Q> sh; for (int i = 0; i < L; ++i) sh[i] = int((k + size_t(i) * 3) % 21) - 10; glm::vec<L, T, Q> r2 = glm::ldexp(a, sh); glm::vec<L, T, Q> s2; for (int i = 0; i < L; ++i) s2[i] = glm::ldexp(a[i], sh[i]);
          Ev e3("lift"); e3.str("cfg", C01_CFG).str("f", "ldexp").str("t", TI<T>::code()).str("q", qname<Q>()).num("n", L).str("k", "vv"); e3.arg(a).arg(sh).val("s", s2).res(r2).emit(); } });
    // exponential (single library call each)
    bin<0, T>("pow", P, M, F2(pow)); un<T>("exp", M, F1(exp)); un<T>("log", P, F1(log)); un<T>("exp2", M, F1(exp2)); un<T>("log2", P, F1(log2)); un<T>("sqrt", P, F1(sqrt)); un<T>("inversesqrt", P, F1(inversesqrt));
    un<T>("sqrt", S, F1(sqrt)); un<T>("exp", S, F1(exp));
    // trigonometric
    un<T>("radians", M, F1(radians)); un<T>("degrees", M, F1(degrees)); un<T>("sin", M, F1(sin)); un<T>("cos", M, F1(cos)); un<T>("tan", M, F1(tan)); un<T>("asin", U, F1(asin)); un<T>("acos", U, F1(acos));
    un<T>("atan", M, F1(atan)); bin<0, T>("atan2", M, M, F2(atan)); un<T>("sinh", U, F1(sinh)); un<T>("cosh", U, F1(cosh)); un<T>("tanh", M, F1(tanh)); un<T>("asinh", M, F1(asinh)); un<T>("acosh", GE1, F1(acosh)); un<T>("atanh", UO, F1(atanh));
    un<T>("sec", M, F1(sec)); un<T>("csc", P, F1(csc)); un<T>("cot", P, F1(cot)); un<T>("asec", AB1, F1(asec)); un<T>("acsc", AB1, F1(acsc)); un<T>("acot", M, F1(acot));
    un<T>("sech", U, F1(sech)); un<T>("csch", P, F1(csch)); un<T>("coth", P, F1(coth)); { std::vector<T> P01; for (T u : U) if (u > T(0)) P01.push_back(u); P01.push_back(T(1)); un<T>("asech", P01, F1(asech)); } un<T>("acsch", P, F1(acsch)); un<T>("acoth", GE1, F1(acoth));
    // relational
    bin<0, T>("lessThan", S, S, REL(lessThan, <)); bin<0, T>("lessThanEqual", S, S, REL(lessThanEqual, <=)); bin<0, T>("greaterThan", S, S, REL(greaterThan, >)); bin<0, T>("greaterThanEqual", S, S, REL(greaterThanEqual, >=));
    bin<0, T>("equal", S, S, REL(equal, ==)); bin<0, T>("notEqual", S, S, REL(notEqual, !=));
    sweep<T>(S.size(), [&](auto lt, auto qt, size_t k) { LQ(lt, qt); auto a = win<L, T, Q>(S, k); auto b = a; b[int(k % L)] = S[(k + 9) % S.size()];
        lift<T, Q>("equal", "vv", REL(equal, ==), a, b); lift<T, Q>("lessThanEqual", "vv", REL(lessThanEqual, <=), a, b); });
    // operators
    bin<BV1|BVS|BSV, T>("add", M, M, OP2(+)); bin<BV1|BVS|BSV, T>("sub", M, M, OP2(-)); bin<BV1|BVS|BSV, T>("mul", M, M, OP2(*)); bin<BV1|BVS|BSV, T>("div", M, P, OP2(/));
    bin<BVS|BSV, T>("add", S, S, OP2(+)); bin<BVS|BSV, T>("mul", S, S, OP2(*)); bin<BVS|BSV, T>("div", S, S, OP2(/));
    un<T>("neg", S, [](auto const& x) { return -x; });
    sweep<T>(M.size(), [&](auto lt, auto qt, size_t k) { LQ(lt, qt); auto a = win<L, T, Q>(M, k), b = win<L, T, Q>(P, k + 2); T sc = P[(k + 1) % P.size()];
        // compound forms: the state of the left operand afterwards
        lift<T, Q>("add", "v+=v", [](auto x, auto const& y) { x += y; return x; }, a, b); lift<T, Q>("sub", "v-=s", [](auto x, auto const& y) { x -= y; return x; }, a, sc);
        lift<T, Q>("mul", "v*=v", [](auto x, auto const& y) { x *= y; return x; }, a, b); lift<T, Q>("div", "v/=s", [](auto x, auto const& y) { x /= y; return x; }, a, sc);
        lift<T, Q>("inc", "++v", [](auto x) { ++x; return x; }, a); lift<T, Q>("dec", "v--", [](auto x) { x--; return x; }, a);
        // aliasing: the right operand is a component of the left one (the scalar is taken by value, so every component must see the old v.x)
        { auto x = a; x += x.x; glm::vec<L, T, Q> s; for (int i = 0; i < L; ++i) s[i] = a[i] + a[0]; T a0 = a[0]; Ev e("lift"); e.str("cfg", C01_CFG).str("f", "add").str("t", TI<T>::code()).str("q", qname<Q>()).num("n", L).str("k", "v+=v.x"); e.arg(a).arg(a0).val("s", s).res(x).emit(); }
        { auto x = a; x *= x[L - 1]; glm::vec<L, T, Q> s; for (int i = 0; i < L; ++i) s[i] = a[i] * a[L - 1]; T al = a[L - 1]; Ev e("lift"); e.str("cfg", C01_CFG).str("f", "mul").str("t", TI<T>::code()).str("q", qname<Q>()).num("n", L).str("k", "v*=v.last"); e.arg(a).arg(al).val("s", s).res(x).emit(); } });
    // matrix versions act per element
    for (int s = 0; s < (g_thorough ? 40 : 8); ++s) {
        glm::mat<3, 2, T, glm::defaultp> a, b; glm::mat<4, 4, T, glm::defaultp> c, d; glm::mat<3, 3, T, glm::defaultp> g, h;
        for (int i = 0; i < 6; ++i) { a[i / 2][i % 2] = S[(size_t(s) * 7 + i) % S.size()]; b[i / 2][i % 2] = M[(size_t(s) * 5 + i) % M.size()]; } for (int i = 0; i < 9; ++i) { g[i / 3][i % 3] = M[(size_t(s) * 3 + i) % M.size()]; h[i / 3][i % 3] = M[(size_t(s) * 11 + i + 2) % M.size()]; }
        for (int i = 0; i < 16; ++i) { c[i / 4][i % 4] = M[(size_t(s) * 3 + i) % M.size()]; d[i / 4][i % 4] = M[(size_t(s) * 13 + i + 5) % M.size()]; }
        T t = U[size_t(s) % U.size()];
        { auto r = glm::abs(a); decltype(r) sres; for (int i = 0; i < 6; ++i) sres[i / 2][i % 2] = glm::abs(a[i / 2][i % 2]); Ev e("lift"); e.str("cfg", C01_CFG).str("f", "abs").str("t", TI<T>::code()).str("q", "highp").num("n", 6).str("k", "m"); e.arg(a).val("s", sres).res(r).emit(); }
        { auto r = glm::abs(c); decltype(r) sres; for (int i = 0; i < 16; ++i) sres[i / 4][i % 4] = glm::abs(c[i / 4][i % 4]); Ev e("lift"); e.str("cfg", C01_CFG).str("f", "abs").str("t", TI<T>::code()).str("q", "highp").num("n", 16).str("k", "m"); e.arg(c).val("s", sres).res(r).emit(); }
        { auto r = glm::mix(c, d, t); decltype(r) sres; for (int i = 0; i < 16; ++i) sres[i / 4][i % 4] = glm::mix(c[i / 4][i % 4], d[i / 4][i % 4], t); Ev e("lift"); e.str("cfg", C01_CFG).str("f", "mix").str("t", TI<T>::code()).str("q", "highp").num("n", 16).str("k", "mms"); e.arg(c).arg(d).arg(t).val("s", sres).res(r).emit(); }
        if constexpr (std::is_floating_point<T>::value) {      // operands of very different magnitude with weights 0, 1 and in between: the error budget of mix is set by its terms
            static const double WIDE[] = { 1e8, 1.0, -3e7, 1e-4, 12345678.0, -1.0, 0.5, 65536.0, 3.0, 1e6, -1e-3, 2.0, 1e7, 7.0, -2.5e8, 0.125 };
            glm::mat<4, 4, T, glm::defaultp> cw, dw; for (int i = 0; i < 16; ++i) { cw[i / 4][i % 4] = T(WIDE[(size_t(s) + i) % 16]); dw[i / 4][i % 4] = T(WIDE[(size_t(s) * 3 + i + 1) % 16]); }
            for (T tw : { T(1), T(0), T(0.5), T(0.75) }) { auto r = glm::mix(cw, dw, tw); decltype(r) sres; for (int i = 0; i < 16; ++i) sres[i / 4][i % 4] = glm::mix(cw[i / 4][i % 4], dw[i / 4][i % 4], tw);
                Ev e("lift"); e.str("cfg", C01_CFG).str("f", "mix").str("t", TI<T>::code()).str("q", "highp").num("n", 16).str("k", "mms"); e.arg(cw).arg(dw).arg(tw).val("s", sres).res(r).emit(); }
            glm::vec<4, T, glm::defaultp> xw(cw[0]), yw(dw[0]);
            for (T tw : { T(1), T(0), T(0.5), T(0.75) }) { auto r = glm::mix(xw, yw, tw); decltype(r) sres; for (int i = 0; i < 4; ++i) sres[i] = glm::mix(xw[i], yw[i], tw);
                Ev e("lift"); e.str("cfg", C01_CFG).str("f", "mix").str("t", TI<T>::code()).str("q", "highp").num("n", 4).str("k", "vvs"); e.arg(xw).arg(yw).arg(tw).val("s", sres).res(r).emit(); }
        }
        { glm::mat<3, 3, T, glm::defaultp> w; for (int i = 0; i < 9; ++i) w[i / 3][i % 3] = U[(size_t(s) + i) % U.size()]; auto r = glm::mix(g, h, w); decltype(r) sres; for (int i = 0; i < 9; ++i) sres[i / 3][i % 3] = glm::mix(g[i / 3][i % 3], h[i / 3][i % 3], w[i / 3][i % 3]);
          Ev e("lift"); e.str("cfg", C01_CFG).str("f", "mix").str("t", TI<T>::code()).str("q", "highp").num("n", 9).str("k", "mmm"); e.arg(g).arg(h).arg(w).val("s", sres).res(r).emit(); }
    }
    // reductions of gtx/component_wise: folds of the scalar operator over the components in index order
    sweep<T>(M.size(), [&](auto lt, auto qt, size_t k) { LQ(lt, qt); auto a = win<L, T, Q>(M, k); auto b = win<L, T, Q>(S, k);
        { T r = glm::compAdd(a); T s = a[0]; for (int i = 1; i < L; ++i) s = s + a[i]; Ev e("fold"); e.str("f", "compAdd").str("t", TI<T>::code()).str("q", qname<Q>()).num("n", L); e.arg(a).val("s", s).res(r).emit(); }
        { T r = glm::compMul(a); T s = a[0]; for (int i = 1; i < L; ++i) s = s * a[i]; Ev e("fold"); e.str("f", "compMul").str("t", TI<T>::code()).str("q", qname<Q>()).num("n", L); e.arg(a).val("s", s).res(r).emit(); }
        { T r = glm::compMin(b); T s = b[0]; for (int i = 1; i < L; ++i) s = glm::min(s, b[i]); Ev e("fold"); e.str("f", "compMin").str("t", TI<T>::code()).str("q", qname<Q>()).num("n", L); e.arg(b).val("s", s).res(r).emit(); }
        { T r = glm::compMax(b); T s = b[0]; for (int i = 1; i < L; ++i) s = glm::max(s, b[i]); Ev e("fold"); e.str("f", "compMax").str("t", TI<T>::code()).str("q", qname<Q>()).num("n", L); e.arg(b).val("s", s).res(r).emit(); } });
}

template<class T> void int_funcs() {
    auto S = special<T>(); auto D = nonzero_small<T>(); auto SH = shifts<T>();
    std::vector<T> SM; for (T x : S) SM.push_back(T(x / T(4)));          // magnitudes that cannot overflow under + - and small *
    if constexpr (std::is_signed<T>::value) { std::vector<T> A; for (T x : S) if (x != std::numeric_limits<T>::min()) A.push_back(x); un<T>("abs", A, F1(abs)); un<T>("sign", S, F1(sign)); un<T>("neg", A, [](auto const& x) { return -x; }); }
    bin<BVS, T>("min", S, S, F2(min)); bin<BVS, T>("max", S, S, F2(max));
    { std::vector<T> LO, HI; for (T x : S) { LO.push_back(T(x / T(2) - T(1))); HI.push_back(T(x / T(2) + T(1))); } sweep<T>(S.size(), [&](auto lt, auto qt, size_t k) { LQ(lt, qt); auto a = win<L, T, Q>(S, k * 3); auto lo = win<L, T, Q>(LO, k); auto hi = win<L, T, Q>(HI, k); lift<T, Q>("clamp", "vvv", F3(clamp), a, lo, hi); lift<T, Q>("clamp", "vss", F3(clamp), a, LO[k % LO.size()], HI[k % HI.size()]); }); }
    bin<0, T>("lessThan", S, S, REL(lessThan, <)); bin<0, T>("lessThanEqual", S, S, REL(lessThanEqual, <=)); bin<0, T>("greaterThan", S, S, REL(greaterThan, >)); bin<0, T>("greaterThanEqual", S, S, REL(greaterThanEqual, >=));
    bin<0, T>("equal", S, S, REL(equal, ==)); bin<0, T>("notEqual", S, S, REL(notEqual, !=));
    std::vector<T> const& AR = std::is_signed<T>::value ? SM : S;         // unsigned arithmetic wraps (defined); signed operands are kept small
    bin<BV1|BVS|BSV, T>("add", AR, AR, OP2(+)); bin<BV1|BVS|BSV, T>("sub", AR, AR, OP2(-));
    if constexpr (std::is_signed<T>::value) { std::vector<T> T8; for (int d : { -11, -3, -1, 0, 1, 2, 5, 9, 11 }) T8.push_back(T(d)); bin<BV1|BVS|BSV, T>("mul", T8, T8, OP2(*)); } else bin<BV1|BVS|BSV, T>("mul", S, S, OP2(*));
    bin<BV1|BVS|BSV, T>("div", AR, D, OP2(/)); bin<BV1|BVS|BSV, T>("rem", AR, D, OP2(%));
    bin<BV1|BVS|BSV, T>("and", S, S, OP2(&)); bin<BV1|BVS|BSV, T>("or", S, S, OP2(|)); bin<BV1|BVS|BSV, T>("xor", S, S, OP2(^));
    { std::vector<T> NN; for (T x : S) if (!(x < T(0))) NN.push_back(std::is_signed<T>::value ? T(x / T(2)) : x); { std::vector<T> L3 = { T(1), T(2), T(3) }; std::vector<T> SH3; for (T c : SH) if (int(c) + 3 < int(sizeof(T) * 8)) SH3.push_back(c);   // signed: the shifted value must stay representable
      if (std::is_signed<T>::value) bin<BV1|BVS|BSV, T>("shl", L3, SH3, OP2(<<)); else bin<BV1|BVS|BSV, T>("shl", S, SH, OP2(<<)); } bin<BV1|BVS|BSV, T>("shr", NN, SH, OP2(>>)); bin<BVS, T>("shr", S, SH, OP2(>>)); }
    un<T>("not", S, [](auto const& x) { return ~x; });
    sweep<T>(AR.size(), [&](auto lt, auto qt, size_t k) { LQ(lt, qt); auto a = win<L, T, Q>(AR, k), b = win<L, T, Q>(D, k + 2); T sc = D[(k + 1) % D.size()];
        lift<T, Q>("add", "v+=v", [](auto x, auto const& y) { x += y; return x; }, a, b); lift<T, Q>("sub", "v-=s", [](auto x, auto const& y) { x -= y; return x; }, a, sc);
        lift<T, Q>("div", "v/=v", [](auto x, auto const& y) { x /= y; return x; }, a, b); lift<T, Q>("rem", "v%=s", [](auto x, auto const& y) { x %= y; return x; }, a, sc);
        lift<T, Q>("and", "v&=v", [](auto x, auto const& y) { x &= y; return x; }, a, b); lift<T, Q>("or", "v|=s", [](auto x, auto const& y) { x |= y; return x; }, a, sc); lift<T, Q>("xor", "v^=v", [](auto x, auto const& y) { x ^= y; return x; }, a, b);
        lift<T, Q>("inc", "++v", [](auto x) { ++x; return x; }, a); lift<T, Q>("dec", "--v", [](auto x) { --x; return x; }, a); });
    sweep<T>(AR.size(), [&](auto lt, auto qt, size_t k) { LQ(lt, qt); auto a = win<L, T, Q>(AR, k);
        { T r = glm::compAdd(a); T s = a[0]; for (int i = 1; i < L; ++i) s = T(s + a[i]); Ev e("fold"); e.str("f", "compAdd").str("t", TI<T>::code()).str("q", qname<Q>()).num("n", L); e.arg(a).val("s", s).res(r).emit(); }
        { T r = glm::compMin(a); T s = a[0]; for (int i = 1; i < L; ++i) s = glm::min(s, a[i]); Ev e("fold"); e.str("f", "compMin").str("t", TI<T>::code()).str("q", qname<Q>()).num("n", L); e.arg(a).val("s", s).res(r).emit(); }
        { T r = glm::compMax(a); T s = a[0]; for (int i = 1; i < L; ++i) s = glm::max(s, a[i]); Ev e("fold"); e.str("f", "compMax").str("t", TI<T>::code()).str("q", qname<Q>()).num("n", L); e.arg(a).val("s", s).res(r).emit(); } });
}
static void bool_funcs() {
    for (int m = 0; m < 16; ++m) { glm::bvec4 b4(m & 1, m & 2, m & 4, m & 8); glm::bvec3 b3(b4); glm::bvec2 b2(b4); glm::bvec1 b1(b4.x);
#define BV(V, L_) { bool any = glm::any(V), all = glm::all(V); auto nt = glm::not_(V); bool sa = false, sl = true; decltype(nt) sn; for (int i = 0; i < L_; ++i) { sa = sa || V[i]; sl = sl && V[i]; sn[i] = !V[i]; } \
        Ev e("fold"); e.str("f", "any").str("t", "b").str("q", "highp").num("n", L_); e.arg(V).val("s", sa).res(any).emit(); Ev e2("fold"); e2.str("f", "all").str("t", "b").str("q", "highp").num("n", L_); e2.arg(V).val("s", sl).res(all).emit(); \
        Ev e3("lift"); e3.str("cfg", C01_CFG).str("f", "not_").str("t", "b").str("q", "highp").num("n", L_).str("k", "v"); e3.arg(V).val("s", sn).res(nt).emit(); }
        BV(b4, 4) BV(b3, 3) BV(b2, 2) BV(b1, 1)
#undef BV
        glm::bvec4 c4((m * 7) & 1, (m * 7) & 2, (m * 7) & 4, (m * 7) & 8); auto a = b4 && c4, o = b4 || c4; glm::bvec4 sa, so; for (int i = 0; i < 4; ++i) { sa[i] = b4[i] && c4[i]; so[i] = b4[i] || c4[i]; }
        Ev e("lift"); e.str("cfg", C01_CFG).str("f", "land").str("t", "b").str("q", "highp").num("n", 4).str("k", "vv"); e.arg(b4).arg(c4).val("s", sa).res(a).emit(); Ev e2("lift"); e2.str("cfg", C01_CFG).str("f", "lor").str("t", "b").str("q", "highp").num("n", 4).str("k", "vv"); e2.arg(b4).arg(c4).val("s", so).res(o).emit(); }
}

static void body(int argc, char** argv) {
    g_thorough = argc > 2 && std::string(argv[2]) == "thorough";
    if (argc > 2 && std::string(argv[2]) == "small") g_reps = 9;
    Rng rng(seed_from_env()); g_rng = &rng;
    float_funcs<float>(); float_funcs<double>();
    int_funcs<int>(); int_funcs<unsigned int>(); int_funcs<signed char>(); int_funcs<unsigned char>(); int_funcs<short>(); int_funcs<unsigned short>(); int_funcs<long>(); int_funcs<unsigned long>();
    bool_funcs();
}
int main(int argc, char** argv) { return run_main(argc, argv, body); }
