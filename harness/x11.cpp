// X11 harness: scalar-function extras attached to C11 -- gtx/spline, gtx/easing, gtx/optimum_pow, gtx/log_base,
// gtx/associated_min_max, gtx/extended_min_max (+ the NaN-aware vector fmin/fmax it pulls in), gtc/reciprocal,
// gtx/compatibility (lerp saturate atan2 isfinite), gtx/functions (gauss), gtx/scalar_multiplication, gtx/range,
// gtx/texture (levels), gtc/integer (log2).
//   x11 <trace-out> <quick|thorough>
// The harness never judges.  Inputs: bit patterns, small integers, dyadic numbers m * 2^e built from the integer Rng,
// angles atan2l(sn, cn) of integer Pythagorean triples and k * ln 2 (input encodings, logged as small integers).
// Random operands are always bound to locals before a call (argument evaluation order differs between compilers).
#define VH_NO_EXT_ALL
#include "common.hpp"
#include <glm/gtc/constants.hpp>
#include <glm/gtc/integer.hpp>
#include <glm/gtc/reciprocal.hpp>
#include <glm/gtx/spline.hpp>
#include <glm/gtx/easing.hpp>
#include <glm/gtx/optimum_pow.hpp>
#include <glm/gtx/log_base.hpp>
#include <glm/gtx/associated_min_max.hpp>
#include <glm/gtx/extended_min_max.hpp>
#include <glm/gtx/compatibility.hpp>
#include <glm/gtx/functions.hpp>
#include <glm/gtx/scalar_multiplication.hpp>
#include <glm/gtx/range.hpp>
#include <glm/gtx/texture.hpp>
#include <cmath>
using namespace vh;
static bool g_thorough = false;
static int N(int quick, int thorough) { return g_thorough ? thorough : quick; }
#define EV(OP, T) Ev(OP).str("t", TI<T>::code())

template<class T> struct FI;
template<> struct FI<float>  { static constexpr int MB = 23; static constexpr uint64_t INF = 0x7F800000ull, NAN_ = 0x7FC00000ull, SIGN = 0x80000000ull; };
template<> struct FI<double> { static constexpr int MB = 52; static constexpr uint64_t INF = 0x7FF0000000000000ull, NAN_ = 0x7FF8000000000000ull, SIGN = 0x8000000000000000ull; };

// dyadic number  +- m * 2^e  with a `bits`-bit odd-or-even significand (exact in T for bits <= MB + 1)
template<class T> static T dyad(Rng& rng, int bits, int elo, int ehi, bool sign = true) {
    if (bits > FI<T>::MB + 1) bits = FI<T>::MB + 1;
    uint64_t m = (rng.next() >> (64 - bits)) | (uint64_t(1) << (bits - 1));
    int e = elo + int(rng.below(uint64_t(ehi - elo + 1)));
    bool neg = sign && (rng.below(2) == 1);
    T v = std::ldexp(T(m), e - (bits - 1));
    return neg ? -v : v;
}
// a moderate operand: random number of significant bits, exponent in [-4, 4]
template<class T> static T modv(Rng& rng) { int bits = 1 + int(rng.below(uint64_t(FI<T>::MB + 1))); return dyad<T>(rng, bits, -4, 4); }
template<class T> static T smallint(Rng& rng) { return T(int(rng.below(9)) - 4); }
template<glm::length_t L, class T, class G> static glm::vec<L, T> mkvec(G g) { glm::vec<L, T> v; for (glm::length_t i = 0; i < L; ++i) { T c = g(); v[i] = c; } return v; }
// a in [0, 1]: m / 2^MB-ish, exact
template<class T> static T unit01(Rng& rng) { int bits = 1 + int(rng.below(uint64_t(FI<T>::MB))); uint64_t m = rng.next() >> (64 - bits); return std::ldexp(T(m), -bits); }

// ================================================================ splines
template<glm::length_t L, class T> static void spline_case(glm::vec<L, T> const& v1, glm::vec<L, T> const& v2, glm::vec<L, T> const& v3, glm::vec<L, T> const& v4, T s) {
    { glm::vec<L, T> r = glm::catmullRom(v1, v2, v3, v4, s); EV("spline", T).str("fn", "catmullRom").arg(v1).arg(v2).arg(v3).arg(v4).arg(s).res(r).emit(); }
    { glm::vec<L, T> r = glm::hermite(v1, v2, v3, v4, s);    EV("spline", T).str("fn", "hermite").arg(v1).arg(v2).arg(v3).arg(v4).arg(s).res(r).emit(); }
    { glm::vec<L, T> r = glm::cubic(v1, v2, v3, v4, s);      EV("spline", T).str("fn", "cubic").arg(v1).arg(v2).arg(v3).arg(v4).arg(s).res(r).emit(); }
}
template<glm::length_t L, class T> static void splines(Rng& rng) {
    typedef glm::vec<L, T> V;
    const T ss[] = { T(0), T(1), T(0.5), T(0.25), T(0.75), T(-0.5), T(2), T(1.5), T(0.125) };
    for (T s : ss) for (int k = 0; k < 3; ++k) {
        V v1 = mkvec<L, T>([&] { return smallint<T>(rng); }), v2 = mkvec<L, T>([&] { return smallint<T>(rng); }), v3 = mkvec<L, T>([&] { return smallint<T>(rng); }), v4 = mkvec<L, T>([&] { return smallint<T>(rng); });
        spline_case<L, T>(v1, v2, v3, v4, s);
    }
    for (int i = 0; i < N(40, 1500); ++i) {
        V v1 = mkvec<L, T>([&] { return modv<T>(rng); }), v2 = mkvec<L, T>([&] { return modv<T>(rng); }), v3 = mkvec<L, T>([&] { return modv<T>(rng); }), v4 = mkvec<L, T>([&] { return modv<T>(rng); });
        T s = (i % 3 == 0) ? modv<T>(rng) : unit01<T>(rng);
        spline_case<L, T>(v1, v2, v3, v4, s);
    }
}

// ================================================================ easing
template<class T> static std::vector<T> ease_points(Rng& rng) {
    std::vector<T> v;
    for (int k = 0; k <= 16; ++k) v.push_back(T(k) / T(16));
    const T eps = std::numeric_limits<T>::epsilon();
    for (T c : { T(0.5), T(4.0 / 11.0), T(8.0 / 11.0), T(9.0 / 10.0), T(1) - T(4.0 / 11.0), T(1) - T(8.0 / 11.0), T(0.1), T(2.0 / 11.0), T(0.95) })
        for (int d = -2; d <= 2; ++d) { T a = c + T(d) * eps * c; if (a >= T(0) && a <= T(1)) v.push_back(a); }
    v.push_back(T(1) - eps / 2); v.push_back(eps); v.push_back(std::ldexp(T(1), -30)); v.push_back(std::ldexp(T(3), -12)); v.push_back(std::ldexp(T(1), -126)); v.push_back(std::ldexp(T(1), -149));      // float: smallest normal / subnormal (kept for double: exact judging of 1 - 2^-1074 is too expensive)
    for (int i = 0; i < N(30, 1500); ++i) v.push_back(unit01<T>(rng));
    return v;
}
#define EASE1(NAME) { T r = glm::NAME(a); EV("ease", T).str("fn", #NAME).arg(a).res(r).emit(); }
template<class T> static void easing(Rng& rng) {
    std::vector<T> pts = ease_points<T>(rng);
    for (T a : pts) {
        EASE1(linearInterpolation) EASE1(quadraticEaseIn) EASE1(quadraticEaseOut) EASE1(quadraticEaseInOut) EASE1(cubicEaseIn) EASE1(cubicEaseOut) EASE1(cubicEaseInOut)
        EASE1(quarticEaseIn) EASE1(quarticEaseOut) EASE1(quarticEaseInOut) EASE1(quinticEaseIn) EASE1(quinticEaseOut) EASE1(quinticEaseInOut)
        EASE1(sineEaseIn) EASE1(sineEaseOut) EASE1(sineEaseInOut) EASE1(circularEaseIn) EASE1(circularEaseOut) EASE1(circularEaseInOut)
        EASE1(exponentialEaseIn) EASE1(exponentialEaseOut) EASE1(exponentialEaseInOut) EASE1(elasticEaseIn) EASE1(elasticEaseOut) EASE1(elasticEaseInOut)
        EASE1(backEaseIn) EASE1(backEaseOut) EASE1(backEaseInOut) EASE1(bounceEaseIn) EASE1(bounceEaseOut) EASE1(bounceEaseInOut)
    }
    // back easing with an explicit overshoot
    for (size_t i = 0; i < pts.size(); i += 2) {
        T a = pts[i]; T o = (i % 4 == 0) ? T(int(rng.below(7)) - 2) * T(0.5) : modv<T>(rng);
        { T r = glm::backEaseIn(a, o);    EV("ease", T).str("fn", "backEaseIn2").arg(a).arg(o).res(r).emit(); }
        { T r = glm::backEaseOut(a, o);   EV("ease", T).str("fn", "backEaseOut2").arg(a).arg(o).res(r).emit(); }
        { T r = glm::backEaseInOut(a, o); EV("ease", T).str("fn", "backEaseInOut2").arg(a).arg(o).res(r).emit(); }
    }
    // monotone pieces: the pure monomials a^n are monotone in floating point as well (every rounding is monotone)
    for (int i = 0; i < N(40, 2000); ++i) {
        T a1 = unit01<T>(rng), a2 = (i % 2) ? unit01<T>(rng) : T(a1 + std::numeric_limits<T>::epsilon() * a1);
        if (a2 > T(1)) a2 = T(1);
        if (a2 < a1) { T t = a1; a1 = a2; a2 = t; }
#define MONO(NAME) { T r1 = glm::NAME(a1); T r2 = glm::NAME(a2); EV("easeMono", T).str("fn", #NAME).arg(a1).arg(a2).res(glm::vec<2, T>(r1, r2)).emit(); }
        MONO(linearInterpolation) MONO(quadraticEaseIn) MONO(cubicEaseIn) MONO(quarticEaseIn) MONO(quinticEaseIn)
#undef MONO
    }
}

// ================================================================ optimum_pow
template<class V> static void pows(const char* t, V const& x) {
    { V r = glm::pow2(x); Ev("pow").str("t", t).num("n", 2).arg(x).res(r).emit(); }
    { V r = glm::pow3(x); Ev("pow").str("t", t).num("n", 3).arg(x).res(r).emit(); }
    { V r = glm::pow4(x); Ev("pow").str("t", t).num("n", 4).arg(x).res(r).emit(); }
}
template<class T> static void pow_float(Rng& rng) {
    for (T x : { T(0), T(-0.0), T(1), T(-1), T(2), T(-3), T(0.5), T(1.5), T(-2.5), T(10), T(0.1), T(1e-3), T(1000) }) pows<T>(TI<T>::code(), x);
    for (int i = 0; i < N(60, 3000); ++i) { T x = (i % 2) ? modv<T>(rng) : dyad<T>(rng, FI<T>::MB + 1, -20, 20); pows<T>(TI<T>::code(), x); }
    for (int i = 0; i < N(10, 400); ++i) { glm::vec<3, T> v = mkvec<3, T>([&] { return modv<T>(rng); }); pows<glm::vec<3, T>>(TI<T>::code(), v); }
}
static void pow_int(Rng& rng) {
    for (int x = -12; x <= 12; ++x) pows<int>("i32", x);
    for (int x : { 100, -100, 181, -181, 215, 1290, -1290, 46340, -46340 }) pows<int>("i32", x % 200);      // products stay inside int: no signed overflow is executed
    for (int i = 0; i < N(20, 300); ++i) { int x = int(rng.below(401)) - 200; pows<int>("i32", x); }
    for (unsigned x : { 0u, 1u, 2u, 255u, 256u, 65535u, 65536u, 1625u, 40000u, 4000000000u }) pows<unsigned>("u32", x);       // unsigned arithmetic wraps (defined); the specification skips results that overflow
    for (int i = 0; i < N(10, 200); ++i) { glm::ivec2 v(int(rng.below(201)) - 100, int(rng.below(201)) - 100); pows<glm::ivec2>("i32", v); }
}

// ================================================================ compatibility: lerp saturate atan2 isfinite
template<class T> static std::vector<uint64_t> special_lattice() {
    std::vector<uint64_t> v;
    for (double d : { 0.0, -0.0, 1.0, -1.0, 0.5, -0.5, 0.25, 1.5, 2.0, -3.0, 0.1, 100.0, 1e6, -1e6, 3.999999 }) v.push_back(to_bits(T(d)));
    const uint64_t inf = FI<T>::INF, nan = FI<T>::NAN_, SIGN = FI<T>::SIGN, minnorm = uint64_t(1) << FI<T>::MB;
    for (uint64_t p : { inf, nan, uint64_t(1), minnorm, minnorm - 1, inf - 1, to_bits(T(1)) + 1, to_bits(T(1)) - 1 }) { v.push_back(p); v.push_back(p | SIGN); }
    return v;
}
template<class T> static void compat(Rng& rng) {
    std::vector<uint64_t> S = special_lattice<T>();
    for (uint64_t b : S) {
        T x = from_bits<T>(b);
        { T r = glm::saturate(x);    EV("saturate", T).arg(x).res(r).emit(); }
        { bool r = glm::isfinite(x); EV("isfinite", T).arg(x).res(r).emit(); }
    }
    for (size_t i = 0; i + 3 < S.size(); i += 3) {
        glm::vec<3, T> v(from_bits<T>(S[i]), from_bits<T>(S[i + 1]), from_bits<T>(S[i + 2])); glm::vec<4, T> w(v, from_bits<T>(S[i + 3])); glm::vec<2, T> u(v.z, v.x);
        { glm::vec<3, T> r = glm::saturate(v); EV("saturate", T).arg(v).res(r).emit(); } { glm::vec<4, T> r = glm::saturate(w); EV("saturate", T).arg(w).res(r).emit(); } { glm::vec<2, T> r = glm::saturate(u); EV("saturate", T).arg(u).res(r).emit(); }
        { glm::vec<3, bool> r = glm::isfinite(v); EV("isfinite", T).arg(v).res(r).emit(); } { glm::vec<4, bool> r = glm::isfinite(w); EV("isfinite", T).arg(w).res(r).emit(); } { glm::vec<2, bool> r = glm::isfinite(u); EV("isfinite", T).arg(u).res(r).emit(); }
        { glm::vec<1, T> o(v.y); glm::vec<1, bool> r = glm::isfinite(o); EV("isfinite", T).arg(o).res(r).emit(); }
    }
    for (int i = 0; i < N(30, 1000); ++i) { T x = (i % 2) ? modv<T>(rng) : unit01<T>(rng); T r = glm::saturate(x); EV("saturate", T).arg(x).res(r).emit(); }
    // lerp
    for (int i = 0; i < N(60, 3000); ++i) {
        T x = modv<T>(rng), y = modv<T>(rng), a = (i % 3 == 0) ? modv<T>(rng) : unit01<T>(rng);
        if (i % 7 == 0) a = T(i % 2); if (i % 11 == 0) y = x;
        { T r = glm::lerp(x, y, a); EV("lerp", T).arg(x).arg(y).arg(a).res(r).emit(); }
        if (i % 3 == 0) {
            glm::vec<3, T> vx = mkvec<3, T>([&] { return modv<T>(rng); }), vy = mkvec<3, T>([&] { return modv<T>(rng); }), va = mkvec<3, T>([&] { return unit01<T>(rng); });
            { glm::vec<3, T> r = glm::lerp(vx, vy, a);  EV("lerp", T).arg(vx).arg(vy).arg(a).res(r).emit(); }
            { glm::vec<3, T> r = glm::lerp(vx, vy, va); EV("lerp", T).arg(vx).arg(vy).arg(va).res(r).emit(); }
            glm::vec<2, T> ux(vx), uy(vy), ua(va); glm::vec<4, T> wx(vx, x), wy(vy, y), wa(va, a);
            { glm::vec<2, T> r = glm::lerp(ux, uy, a);  EV("lerp", T).arg(ux).arg(uy).arg(a).res(r).emit(); }
            { glm::vec<2, T> r = glm::lerp(ux, uy, ua); EV("lerp", T).arg(ux).arg(uy).arg(ua).res(r).emit(); }
            { glm::vec<4, T> r = glm::lerp(wx, wy, a);  EV("lerp", T).arg(wx).arg(wy).arg(a).res(r).emit(); }
            { glm::vec<4, T> r = glm::lerp(wx, wy, wa); EV("lerp", T).arg(wx).arg(wy).arg(wa).res(r).emit(); }
        }
    }
    // atan2(y, x): the eight principal directions at several scales, small ratios, random quadrants
    for (int e : { -20, -1, 0, 3, 17 }) for (int dy = -1; dy <= 1; ++dy) for (int dx = -1; dx <= 1; ++dx) {
        if (!dy && !dx) continue;
        T y = std::ldexp(T(dy) * T(3), e), x = std::ldexp(T(dx) * T(3), e);
        { T r = glm::atan2(y, x); EV("atan2", T).arg(y).arg(x).res(r).emit(); }
    }
    for (int i = 0; i < N(60, 3000); ++i) {
        T y = modv<T>(rng), x = modv<T>(rng);
        if (i % 3 == 0) y = std::ldexp(y, -8 - int(rng.below(20)));          // small ratio: judged through the series enclosure
        if (i % 9 == 0) x = T(0); if (i % 13 == 0) y = T(0);
        if (x == T(0) && y == T(0)) continue;
        { T r = glm::atan2(y, x); EV("atan2", T).arg(y).arg(x).res(r).emit(); }
        if (i % 4 == 0) {
            glm::vec<3, T> vy(y, x, -y), vx(x, y, x); { glm::vec<3, T> r = glm::atan2(vy, vx); EV("atan2", T).arg(vy).arg(vx).res(r).emit(); }
            glm::vec<2, T> uy(y, -y), ux(-x, x);      { glm::vec<2, T> r = glm::atan2(uy, ux); EV("atan2", T).arg(uy).arg(ux).res(r).emit(); }
            glm::vec<4, T> wy(y, -y, x, y), wx(x, x, y, -x); { glm::vec<4, T> r = glm::atan2(wy, wx); EV("atan2", T).arg(wy).arg(wx).res(r).emit(); }
        }
    }
}
static void compat_int() {
    for (int x : { 0, 1, -1, 2147483647, -2147483647 - 1, 12345 }) { bool r = glm::isfinite(x); EV("isfinite", int).arg(x).res(r).emit(); }
}

// ================================================================ scalar_multiplication
template<class V, class S> static void smul_case(const char* shape, V const& v, S s) {
    { V r = s * v; Ev("smul").str("t", "f32").str("k", "mul_sv").str("ts", TI<S>::code()).str("shape", shape).val("s", s).arg(v).res(r).emit(); }
    { V r = v * s; Ev("smul").str("t", "f32").str("k", "mul_vs").str("ts", TI<S>::code()).str("shape", shape).val("s", s).arg(v).res(r).emit(); }
    if (s != S(0)) { V r = v / s; Ev("smul").str("t", "f32").str("k", "div_vs").str("ts", TI<S>::code()).str("shape", shape).val("s", s).arg(v).res(r).emit(); }
}
template<class V, class G> static V fill(G g) { V m; for (float* p = glm::begin(m); p != glm::end(m); ++p) { float c = g(); *p = c; } return m; }
static void smul(Rng& rng) {
    for (int i = 0; i < N(24, 600); ++i) {
        int si = (i < 8) ? (i - 3) : int(rng.below(2001)) - 1000; double sd = (i % 2) ? double(modv<float>(rng)) : modv<double>(rng);
        auto g = [&] { return modv<float>(rng); };
        glm::vec2 v2 = fill<glm::vec2>(g); glm::vec3 v3 = fill<glm::vec3>(g); glm::vec4 v4 = fill<glm::vec4>(g);
        smul_case("vec2", v2, si); smul_case("vec3", v3, si); smul_case("vec4", v4, si); smul_case("vec3", v3, sd); smul_case("vec4", v4, sd);
        if (i % 3 == 0) {
            glm::mat2 m2 = fill<glm::mat2>(g); glm::mat3x2 m32 = fill<glm::mat3x2>(g); glm::mat4 m4 = fill<glm::mat4>(g); glm::mat2x3 m23 = fill<glm::mat2x3>(g); glm::mat3 m3 = fill<glm::mat3>(g);
            smul_case("mat2", m2, si); smul_case("mat3x2", m32, si); smul_case("mat4", m4, sd); smul_case("mat2x3", m23, sd); smul_case("mat3", m3, si);
            unsigned su = unsigned(rng.below(50)) + 1; smul_case("vec2", v2, su); long sl = long(rng.below(101)) - 50; smul_case("vec4", v4, sl);
        }
    }
}

// ================================================================ associated min / max
// keys K, values U; the values are pairwise distinct so that the selected pair is identified by the result
template<class K> static std::vector<K> key_pool(Rng& rng);
template<> std::vector<int> key_pool<int>(Rng& rng) { std::vector<int> v = { 0, 1, -1, 2, 2, -7, 5, 5, 2147483647, -2147483647 - 1 }; for (int i = 0; i < 6; ++i) v.push_back(int(rng.below(7)) - 3); return v; }
template<> std::vector<float> key_pool<float>(Rng& rng) { std::vector<float> v = { 0.f, -0.f, 1.f, 1.f, -1.f, 2.5f, 2.5f, from_bits<float>(0x7F800000u), from_bits<float>(0xFF800000u), from_bits<float>(0x7FC00000u), 1e-40f };
    for (int i = 0; i < 6; ++i) v.push_back(float(int(rng.below(5)) - 2) * 0.5f); return v; }
template<> std::vector<double> key_pool<double>(Rng& rng) { std::vector<double> v = { 0.0, -0.0, 1.0, 1.0, -1.0, 2.5, from_bits<double>(0x7FF0000000000000ull), from_bits<double>(0x7FF8000000000000ull) };
    for (int i = 0; i < 6; ++i) v.push_back(double(int(rng.below(5)) - 2) * 0.5); return v; }
template<class U> static U distinct_val(int j, int salt);
template<> float distinct_val<float>(int j, int salt) { return float(10 * (j + 1) + (salt % 7)) + 0.5f; }       // never an integer: a conversion through the key type is visible
template<> double distinct_val<double>(int j, int salt) { return double(10 * (j + 1) + (salt % 7)) + 0.25; }
template<> int distinct_val<int>(int j, int salt) { return 100 * (j + 1) + (salt % 13); }

#define RT(expr) typename std::decay<decltype((expr)[0])>::type
template<class K, class U> static void assoc_scalar(Rng& rng, int reps) {
    std::vector<K> P = key_pool<K>(rng);
    for (int it = 0; it < reps; ++it) {
        K x = P[rng.below(P.size())], y = P[rng.below(P.size())], z = P[rng.below(P.size())], w = P[rng.below(P.size())];
        U a = distinct_val<U>(0, it), b = distinct_val<U>(1, it), c = distinct_val<U>(2, it), d = distinct_val<U>(3, it);
#define SS(OP, FN) \
        { auto r = glm::FN(x, a, y, b); Ev e(OP); e.str("form", "ss").num("n", 2).str("tk", TI<K>::code()).str("t", TI<U>::code()).str("tr", TI<decltype(r)>::code()).num("lk", 1).val("k", glm::vec<2, K>(x, y)).arg(a).arg(b).res(r).emit(); } \
        { auto r = glm::FN(x, a, y, b, z, c); Ev e(OP); e.str("form", "ss").num("n", 3).str("tk", TI<K>::code()).str("t", TI<U>::code()).str("tr", TI<decltype(r)>::code()).num("lk", 1).val("k", glm::vec<3, K>(x, y, z)).arg(a).arg(b).arg(c).res(r).emit(); } \
        { auto r = glm::FN(x, a, y, b, z, c, w, d); Ev e(OP); e.str("form", "ss").num("n", 4).str("tk", TI<K>::code()).str("t", TI<U>::code()).str("tr", TI<decltype(r)>::code()).num("lk", 1).val("k", glm::vec<4, K>(x, y, z, w)).arg(a).arg(b).arg(c).arg(d).res(r).emit(); }
        SS("assocMin", associatedMin) SS("assocMax", associatedMax)
#undef SS
    }
}
// keys are logged as "k": one list of key components per pair is flattened: pair j, component i sits at index j * LK + i (LK = "lk")
template<class K, glm::length_t LK> static void put_keys(Ev& e, std::vector<glm::vec<LK, K>> const& ks) {
    e.num("lk", LK); e.close_args(); e.s += ",\"k\":["; bool first = true;
    for (auto const& k : ks) for (glm::length_t i = 0; i < LK; ++i) { if (!first) e.s.push_back(','); first = false; put_word(e.s, K(k[i])); }
    e.s += "]";
}
template<class K, class U, glm::length_t L> static void assoc_vec(Rng& rng, int reps) {
    std::vector<K> P = key_pool<K>(rng);
    typedef glm::vec<L, K> VK; typedef glm::vec<L, U> VU; typedef glm::vec<1, K> K1;
    for (int it = 0; it < reps; ++it) {
        VK x = mkvec<L, K>([&] { return P[rng.below(P.size())]; }), y = mkvec<L, K>([&] { return P[rng.below(P.size())]; }), z = mkvec<L, K>([&] { return P[rng.below(P.size())]; }), w = mkvec<L, K>([&] { return P[rng.below(P.size())]; });
        int c0 = 0; VU a = mkvec<L, U>([&] { return distinct_val<U>(0, it + 3 * c0++); }); c0 = 0; VU b = mkvec<L, U>([&] { return distinct_val<U>(1, it + 3 * c0++); });
        c0 = 0; VU c = mkvec<L, U>([&] { return distinct_val<U>(2, it + 3 * c0++); }); c0 = 0; VU d = mkvec<L, U>([&] { return distinct_val<U>(3, it + 3 * c0++); });
        K sx = x[0], sy = y[0], sz = z[0], sw = w[0]; U sa = a[0], sb = b[0], sc = c[0], sd = d[0];
#define HEAD(OP, FORM, NN, R) Ev e(OP); e.str("form", FORM).num("n", NN).str("tk", TI<K>::code()).str("t", TI<U>::code()).str("tr", TI<RT(R)>::code());
#define VV(OP, FN) \
        { auto r = glm::FN(x, a, y, b);             HEAD(OP, "vv", 2, r) put_keys<K, L>(e, { x, y });       e.arg(a).arg(b).res(r).emit(); } \
        { auto r = glm::FN(x, a, y, b, z, c);       HEAD(OP, "vv", 3, r) put_keys<K, L>(e, { x, y, z });    e.arg(a).arg(b).arg(c).res(r).emit(); } \
        { auto r = glm::FN(x, a, y, b, z, c, w, d); HEAD(OP, "vv", 4, r) put_keys<K, L>(e, { x, y, z, w }); e.arg(a).arg(b).arg(c).arg(d).res(r).emit(); } \
        { auto r = glm::FN(sx, a, sy, b);           HEAD(OP, "sv", 2, r) put_keys<K, 1>(e, { K1(sx), K1(sy) }); e.arg(a).arg(b).res(r).emit(); } \
        { auto r = glm::FN(sx, a, sy, b, sz, c, sw, d); HEAD(OP, "sv", 4, r) put_keys<K, 1>(e, { K1(sx), K1(sy), K1(sz), K1(sw) }); e.arg(a).arg(b).arg(c).arg(d).res(r).emit(); } \
        { auto r = glm::FN(x, sa, y, sb);           HEAD(OP, "vs", 2, r) put_keys<K, L>(e, { x, y });       e.arg(sa).arg(sb).res(r).emit(); } \
        { auto r = glm::FN(x, sa, y, sb, z, sc, w, sd); HEAD(OP, "vs", 4, r) put_keys<K, L>(e, { x, y, z, w }); e.arg(sa).arg(sb).arg(sc).arg(sd).res(r).emit(); }
        VV("assocMin", associatedMin) VV("assocMax", associatedMax)
#undef VV
        // three pairs with scalar keys / scalar values exist for associatedMax only
        { auto r = glm::associatedMax(sx, a, sy, b, sz, c); HEAD("assocMax", "sv", 3, r) put_keys<K, 1>(e, { K1(sx), K1(sy), K1(sz) }); e.arg(a).arg(b).arg(c).res(r).emit(); }
        { auto r = glm::associatedMax(x, sa, y, sb, z, sc); HEAD("assocMax", "vs", 3, r) put_keys<K, L>(e, { x, y, z }); e.arg(sa).arg(sb).arg(sc).res(r).emit(); }
#undef HEAD
    }
}

// ================================================================ extended min / max, vector fmin / fmax
// gtx/extended_min_max.hpp pulls in ext/scalar_common.hpp, whose min(T, T, T) makes a plain scalar call glm::min(a, b, c) ambiguous
// (probed by the driver); the gtx overloads are selected here by their exact signature.
template<class T> static void minmax_scalar(T x, T y, T z, T w) {
    typedef T (*F3)(T const&, T const&, T const&); typedef T (*F4)(T const&, T const&, T const&, T const&);
    F3 min3 = static_cast<F3>(&glm::min<T>), max3 = static_cast<F3>(&glm::max<T>); F4 min4 = static_cast<F4>(&glm::min<T>), max4 = static_cast<F4>(&glm::max<T>);
    { T r = min3(x, y, z);    EV("min", T).str("via", "gtx").arg(x).arg(y).arg(z).res(r).emit(); }
    { T r = max3(x, y, z);    EV("max", T).str("via", "gtx").arg(x).arg(y).arg(z).res(r).emit(); }
    { T r = min4(x, y, z, w); EV("min", T).str("via", "gtx").arg(x).arg(y).arg(z).arg(w).res(r).emit(); }
    { T r = max4(x, y, z, w); EV("max", T).str("via", "gtx").arg(x).arg(y).arg(z).arg(w).res(r).emit(); }
}
template<glm::length_t L, class T> static void minmax_vec(glm::vec<L, T> const& x, glm::vec<L, T> const& y, glm::vec<L, T> const& z, glm::vec<L, T> const& w, bool flt) {
    { auto r = glm::min(x, y, z);    EV("min", T).str("via", "vec").arg(x).arg(y).arg(z).res(r).emit(); }
    { auto r = glm::max(x, y, z);    EV("max", T).str("via", "vec").arg(x).arg(y).arg(z).res(r).emit(); }
    { auto r = glm::min(x, y, z, w); EV("min", T).str("via", "vec").arg(x).arg(y).arg(z).arg(w).res(r).emit(); }
    { auto r = glm::max(x, y, z, w); EV("max", T).str("via", "vec").arg(x).arg(y).arg(z).arg(w).res(r).emit(); }
    (void)flt;
}
template<glm::length_t L, class T> static void fminmax_vec(glm::vec<L, T> const& x, glm::vec<L, T> const& y, glm::vec<L, T> const& z, glm::vec<L, T> const& w) {
    { auto r = glm::fmin(x, y);       EV("fmin", T).arg(x).arg(y).res(r).emit(); }
    { auto r = glm::fmax(x, y);       EV("fmax", T).arg(x).arg(y).res(r).emit(); }
    { auto r = glm::fmin(x, y, z);    EV("fmin", T).arg(x).arg(y).arg(z).res(r).emit(); }
    { auto r = glm::fmax(x, y, z);    EV("fmax", T).arg(x).arg(y).arg(z).res(r).emit(); }
    { auto r = glm::fmin(x, y, z, w); EV("fmin", T).arg(x).arg(y).arg(z).arg(w).res(r).emit(); }
    { auto r = glm::fmax(x, y, z, w); EV("fmax", T).arg(x).arg(y).arg(z).arg(w).res(r).emit(); }
    { T s = y[0]; auto r = glm::fmin(x, s); EV("fmin", T).arg(x).arg(glm::vec<L, T>(s)).res(r).emit(); }
    { T s = y[0]; auto r = glm::fmax(x, s); EV("fmax", T).arg(x).arg(glm::vec<L, T>(s)).res(r).emit(); }
}
template<class T> static void minmax_float(Rng& rng) {
    std::vector<uint64_t> S = special_lattice<T>(); size_t n = S.size();
    auto pick = [&] { return from_bits<T>(S[rng.below(n)]); };
    for (size_t i = 0; i < n; ++i) for (size_t j = i % 3; j < n; j += (g_thorough ? 2 : 5)) { T x = from_bits<T>(S[i]), y = from_bits<T>(S[j]), z = pick(), w = pick(); minmax_scalar<T>(x, y, z, w); }
    for (int i = 0; i < N(60, 3000); ++i) {
        T x = modv<T>(rng), y = modv<T>(rng), z = modv<T>(rng), w = modv<T>(rng); if (i % 5 == 0) z = x; if (i % 7 == 0) w = y;
        minmax_scalar<T>(x, y, z, w);
    }
    for (int i = 0; i < N(60, 2000); ++i) {
        auto g = [&] { return (rng.below(3) == 0) ? pick() : T(int(rng.below(5)) - 2); };
        glm::vec<3, T> x = mkvec<3, T>(g), y = mkvec<3, T>(g), z = mkvec<3, T>(g), w = mkvec<3, T>(g);
        minmax_vec<3, T>(x, y, z, w, true); fminmax_vec<3, T>(x, y, z, w);
        if (i % 3 == 0) { glm::vec<4, T> a = mkvec<4, T>(g), b = mkvec<4, T>(g), c = mkvec<4, T>(g), d = mkvec<4, T>(g); minmax_vec<4, T>(a, b, c, d, true); fminmax_vec<4, T>(a, b, c, d);
                          glm::vec<2, T> p(a), q(b), s(c), t(d); minmax_vec<2, T>(p, q, s, t, true); fminmax_vec<2, T>(p, q, s, t); }
    }
    // every pattern of NaN positions for the vector fmin / fmax
    { const T nan = from_bits<T>(FI<T>::NAN_); const T vals[4] = { T(1), T(-2), T(0.5), T(3) };
      for (int rot = 0; rot < 4; ++rot) { glm::vec<4, T> a[4]; for (int k = 0; k < 4; ++k) for (int c = 0; c < 4; ++c) { int mask = 4 * rot + c; a[k][c] = ((mask + k * (c + 1)) >> k) & 1 ? nan : vals[(k + rot) % 4]; }
          fminmax_vec<4, T>(a[0], a[1], a[2], a[3]); }
      for (int mask = 0; mask < 16; ++mask) { glm::vec<2, T> a[4]; for (int k = 0; k < 4; ++k) { a[k][0] = (mask >> k) & 1 ? nan : vals[k]; a[k][1] = (mask >> k) & 1 ? vals[k] : nan; } fminmax_vec<2, T>(a[0], a[1], a[2], a[3]); } }
}
static void minmax_int(Rng& rng) {
    std::vector<int> P = { 0, 1, -1, 7, 7, -9, 2147483647, -2147483647 - 1, 100 };
    for (int i = 0; i < N(60, 2000); ++i) {
        int x = P[rng.below(P.size())], y = P[rng.below(P.size())], z = (i % 2) ? P[rng.below(P.size())] : int(rng.below(21)) - 10, w = (i % 3) ? P[rng.below(P.size())] : int(rng.below(21)) - 10;
        minmax_scalar<int>(x, y, z, w);
        if (i % 4 == 0) { glm::ivec3 a(x, y, z), b(y, z, w), c(z, w, x), d(w, x, y); minmax_vec<3, int>(a, b, c, d, false); }
    }
}

// ================================================================ log_base: exact powers
template<class T> static void logbase() {
    struct B { int n, d, kmax; };
    for (B b : { B{2, 1, 20}, B{3, 1, 12}, B{10, 1, 9}, B{5, 1, 9}, B{7, 1, 7}, B{1, 2, 20}, B{1, 4, 10}, B{4, 1, 10}, B{8, 1, 7}, B{16, 1, 5}, B{3, 2, 8}, B{1, 8, 6}, B{5, 2, 6} }) {
        T base = T(b.n) / T(b.d);
        for (int k = -b.kmax; k <= b.kmax; ++k) {
            if (b.d != 1 && b.n != 1 && (k < 0)) continue;
            // x = base^k exactly: integer powers of small integers are exact in T (the specification re-checks and skips otherwise)
            T x = T(1); for (int i = 0; i < (k < 0 ? -k : k); ++i) x *= (k < 0 ? T(b.d) / T(b.n) : base);
            if (b.d == 1 && b.n != 2 && b.n != 4 && b.n != 8 && b.n != 16 && k < 0) continue;     // 3^-k is not representable
            { T r = glm::log(x, base); EV("logb", T).num("bn", b.n).num("bd", b.d).num("k", k).arg(x).arg(base).res(r).emit(); }
            if (k % 3 == 0) { glm::vec<3, T> vx(x, base, T(1)), vb(base); glm::vec<3, T> r = glm::log(vx, vb); EV("logbv", T).num("bn", b.n).num("bd", b.d).num("k", k).arg(vx).arg(vb).res(r).emit(); }
        }
    }
}

// ================================================================ reciprocal trigonometric functions
struct Tri { int c, s, d; };
static const Tri kTri[] = { {3, 4, 5}, {4, 3, 5}, {5, 12, 13}, {12, 5, 13}, {8, 15, 17}, {15, 8, 17}, {7, 24, 25}, {24, 7, 25}, {20, 21, 29}, {21, 20, 29}, {9, 40, 41}, {40, 9, 41}, {1, 0, 1}, {0, 1, 1},
                            {119, 120, 169}, {28, 45, 53}, {33, 56, 65}, {63, 16, 65}, {11, 60, 61}, {60, 11, 61} };
template<class T> static void reciprocal(Rng& rng) {
    // Pythagorean angles in the four quadrants: cos = cn/d, sin = sn/d exactly
    for (Tri t : kTri) for (int q = 0; q < 4; ++q) {
        int cn = (q == 1 || q == 2) ? -t.c : t.c, sn = (q >= 2) ? -t.s : t.s;
        if ((t.s == 0 && q >= 2) || (t.c == 0 && (q == 1 || q == 3))) continue;       // axis directions: no duplicates
        T x = T(atan2l((long double)sn, (long double)cn));
#define PY(FN) { T r = glm::FN(x); EV("recip", T).str("fn", #FN).str("enc", "pyth").num("cn", cn).num("sn", sn).num("d", t.d).arg(x).res(r).emit(); }
        PY(sec) PY(csc) PY(cot)
#undef PY
    }
    // small dyadic angles +-2^-j (exact inputs): series enclosures
    for (int j = 3; j <= (sizeof(T) == 4 ? 40 : 60); j += (g_thorough ? 1 : 2)) for (int sg = -1; sg <= 1; sg += 2) for (int m : { 1, 3 }) {
        T x = std::ldexp(T(sg * m), -j - (m == 3 ? 2 : 0));
#define SM(FN) { T r = glm::FN(x); EV("recip", T).str("fn", #FN).str("enc", "small").arg(x).res(r).emit(); }
        SM(sec) SM(csc) SM(cot) SM(acot)
#undef SM
    }
    // inverse functions: exact points and large powers of two
    for (T x : { T(1), T(-1), T(2), T(-2) }) {
#define PT(FN) { T r = glm::FN(x); EV("recip", T).str("fn", #FN).str("enc", "point").arg(x).res(r).emit(); }
        PT(asec) PT(acsc) PT(acot)
    }
    { T x = T(0); PT(acot) }
#undef PT
    for (int k = 3; k <= (sizeof(T) == 4 ? 40 : 60); k += (g_thorough ? 1 : 3)) for (int sg = -1; sg <= 1; sg += 2) {
        T x = std::ldexp(T(sg), k);
#define BG(FN) { T r = glm::FN(x); EV("recip", T).str("fn", #FN).str("enc", "big").arg(x).res(r).emit(); }
        BG(asec) BG(acsc) BG(acot)
#undef BG
    }
    // round trips  sec(asec(x)) = x,  csc(acsc(x)) = x   for 1 <= |x| <= 8
    for (int i = 0; i < N(40, 2000); ++i) {
        T x = dyad<T>(rng, 1 + int(rng.below(uint64_t(FI<T>::MB + 1))), 0, 2);
        { T m = glm::asec(x); T r = glm::sec(m); EV("recipRT", T).str("fn", "sec").arg(x).val("mid", m).res(r).emit(); }
        { T m = glm::acsc(x); T r = glm::csc(m); EV("recipRT", T).str("fn", "csc").arg(x).val("mid", m).res(r).emit(); }
    }
    // hyperbolic functions at k * ln 2:  cosh = (4^k + 1) / 2^(k+1),  sinh = (4^k - 1) / 2^(k+1)
    for (int k = -8; k <= 8; ++k) {
        if (k == 0) { T x = T(0); T r = glm::sech(x); EV("recip", T).str("fn", "sech").str("enc", "ln2").num("k", 0).arg(x).res(r).emit(); continue; }
        T x = T((long double)k * 0.693147180559945309417232121458176568L);
#define HY(FN) { T r = glm::FN(x); EV("recip", T).str("fn", #FN).str("enc", "ln2").num("k", k).arg(x).res(r).emit(); }
        HY(sech) HY(csch) HY(coth)
#undef HY
        int ak = k < 0 ? -k : k; long long p4 = 1; for (int i = 0; i < ak; ++i) p4 *= 4; long long p2 = 1ll << ak;
        T sgn = k < 0 ? T(-1) : T(1);
        { T X = T(2 * p2) / T(p4 + 1);           if (k > 0) { T r = glm::asech(X); EV("recip", T).str("fn", "asech").str("enc", "ln2").num("k", k).arg(X).res(r).emit(); } }
        { T X = sgn * (T(2 * p2) / T(p4 - 1));   T r = glm::acsch(X); EV("recip", T).str("fn", "acsch").str("enc", "ln2").num("k", k).arg(X).res(r).emit(); }
        if (ak <= 4) { T X = sgn * (T(p4 + 1) / T(p4 - 1)); T r = glm::acoth(X); EV("recip", T).str("fn", "acoth").str("enc", "ln2").num("k", k).arg(X).res(r).emit(); }
    }
    // vector overloads (ext/vector_reciprocal): component-wise, i.e. bit-identical to the scalar function on every component
    for (int i = 0; i < N(12, 300); ++i) {
        glm::vec<3, T> v = mkvec<3, T>([&] { return modv<T>(rng); }); glm::vec<3, T> big = mkvec<3, T>([&] { return dyad<T>(rng, 8, 0, 3); }); glm::vec<3, T> sm = mkvec<3, T>([&] { return dyad<T>(rng, 8, -4, -1, false); }); glm::vec<3, T> bigp = mkvec<3, T>([&] { return dyad<T>(rng, 8, 0, 3, false); });
        glm::vec<4, T> v4(v, modv<T>(rng)); glm::vec<2, T> v2(v);
#define VR(FN, ARG, LL) { glm::vec<LL, T> a = ARG; glm::vec<LL, T> r = glm::FN(a); glm::vec<LL, T> rs; for (int c = 0; c < LL; ++c) { T ac = a[c]; rs[c] = glm::FN(ac); } EV("recipVec", T).str("fn", #FN).arg(a).val("rs", rs).res(r).emit(); }
        VR(sec, v, 3) VR(csc, v, 3) VR(cot, v, 3) VR(asec, big, 3) VR(acsc, big, 3) VR(acot, v, 3) VR(sech, v, 3) VR(csch, v, 3) VR(coth, v, 3) VR(asech, sm, 3) VR(acsch, v, 3) VR(acoth, bigp + T(1), 3)
        VR(sec, v4, 4) VR(cot, v4, 4) VR(acot, v4, 4) VR(csc, v2, 2) VR(sech, v2, 2) VR(coth, v4, 4)
#undef VR
    }
}

// ================================================================ gauss
template<class T> static void gauss(Rng& rng) {
    for (int i = 0; i < N(40, 1500); ++i) {
        T mu = modv<T>(rng), sigma = dyad<T>(rng, 1 + int(rng.below(12)), -3, 3, false);
        { T x = mu; T r = glm::gauss(x, mu, sigma); EV("gauss1", T).str("enc", "gen").arg(x).arg(mu).arg(sigma).res(r).emit(); }
        // symmetric pair: mu +- d with d a dyadic on mu's grid, so that both differences are exact
        T d = std::ldexp(T(1 + rng.below(15)), -3 - int(rng.below(6))); T x1 = mu + d, x2 = mu - d;
        { T r1 = glm::gauss(x1, mu, sigma); T r2 = glm::gauss(x2, mu, sigma); EV("gauss1", T).str("enc", "sym").arg(x1).arg(x2).arg(mu).arg(sigma).res(glm::vec<2, T>(r1, r2)).emit(); }
        { T x = mu + std::ldexp(sigma, -3 - int(rng.below(8))); T r = glm::gauss(x, mu, sigma); EV("gauss1", T).str("enc", "gen").arg(x).arg(mu).arg(sigma).res(r).emit(); }
        { T x = modv<T>(rng); T r = glm::gauss(x, mu, sigma); EV("gauss1", T).str("enc", "gen").arg(x).arg(mu).arg(sigma).res(r).emit(); }
        glm::vec<2, T> m2(mu, modv<T>(rng)), s2(sigma, dyad<T>(rng, 4, -2, 2, false));
        { glm::vec<2, T> c = m2; T r = glm::gauss(c, m2, s2); EV("gauss2", T).str("enc", "gen").arg(c).arg(m2).arg(s2).res(r).emit(); }
        { glm::vec<2, T> c(m2.x + std::ldexp(s2.x, -4 - int(rng.below(6))), m2.y - std::ldexp(s2.y, -3 - int(rng.below(6)))); T r = glm::gauss(c, m2, s2); EV("gauss2", T).str("enc", "gen").arg(c).arg(m2).arg(s2).res(r).emit(); }
        { glm::vec<2, T> c1(m2.x + d, m2.y - d), c2(m2.x - d, m2.y + d); T r1 = glm::gauss(c1, m2, s2); T r2 = glm::gauss(c2, m2, s2); EV("gauss2", T).str("enc", "sym").arg(c1).arg(c2).arg(m2).arg(s2).res(glm::vec<2, T>(r1, r2)).emit(); }
        { glm::vec<2, T> c(modv<T>(rng), modv<T>(rng)); T r = glm::gauss(c, m2, s2); EV("gauss2", T).str("enc", "gen").arg(c).arg(m2).arg(s2).res(r).emit(); }
    }
}

// ================================================================ levels, integer log2, range
static void levels_log2(Rng& rng) {
    std::vector<int> P; for (int k = 0; k < 31; ++k) { P.push_back(1 << k); if (k > 1) { P.push_back((1 << k) - 1); P.push_back((1 << k) + 1); } } P.push_back(2147483647); P.push_back(3); P.push_back(5); P.push_back(100); P.push_back(1000);
    for (int i = 0; i < N(30, 1000); ++i) P.push_back(int(rng.below(1u << (1 + rng.below(30)))) + 1);
    for (size_t i = 0; i < P.size(); ++i) {
        int x = P[i], y = P[(i * 7 + 3) % P.size()], z = P[(i * 13 + 5) % P.size()], w = P[(i * 29 + 11) % P.size()];
        { int r = glm::log2(x); EV("log2i", int).arg(x).res(r).emit(); }
        { unsigned u = unsigned(x) * 2u + (i % 2); unsigned r = glm::log2(u); EV("log2i", unsigned).arg(u).res(r).emit(); }
        { glm::ivec3 v(x, y, z); glm::ivec3 r = glm::log2(v); EV("log2i", int).arg(v).res(r).emit(); }
        { int r = glm::levels(x); EV("levels", int).str("form", "s").arg(x).res(r).emit(); }
        { glm::ivec1 v(x); int r = glm::levels(v); EV("levels", int).str("form", "v").arg(v).res(r).emit(); }
        { glm::ivec2 v(x, y); int r = glm::levels(v); EV("levels", int).str("form", "v").arg(v).res(r).emit(); }
        { glm::ivec3 v(x, y, z); int r = glm::levels(v); EV("levels", int).str("form", "v").arg(v).res(r).emit(); }
        if (i % 3 == 0) { glm::ivec4 v(x, y, z, w); int r = glm::levels(v); EV("levels", int).str("form", "v").arg(v).res(r).emit(); }
        if (x <= (1 << 24)) {
            float fx = float(x), fy = float(y > (1 << 24) ? 7 : y);
            { float r = glm::levels(fx); EV("levels", float).str("form", "s").arg(fx).res(r).emit(); }
            { glm::vec2 v(fx, fy); float r = glm::levels(v); EV("levels", float).str("form", "v").arg(v).res(r).emit(); }
            { double dx = x, dy = y, dz = z; glm::dvec3 v(dx, dy, dz); double r = glm::levels(v); EV("levels", double).str("form", "v").arg(v).res(r).emit(); }
            { glm::vec1 v(fx); float r = glm::levels(v); EV("levels", float).str("form", "v").arg(v).res(r).emit(); }
        }
    }
}
template<class V> static void range_case(const char* shape, V const& v0) {
    typedef typename V::value_type S;
    V v = v0; V const& cv = v;
    const S* cb = glm::begin(cv); const S* ce = glm::end(cv); S* mb = glm::begin(v); S* me = glm::end(v);
    const S* first = reinterpret_cast<const S*>(&cv[0]);
    Ev e("range"); e.str("t", TI<S>::code()).str("shape", shape).num("n", (long long)(ce - cb)).num("nm", (long long)(me - mb)).num("off", (long long)(cb - first)).num("offm", (long long)(mb - first)).num("sz", (long long)(sizeof(V) / sizeof(S)));
    e.arg(v0); e.close_args(); e.s += ",\"r\":["; bool f = true; for (const S* p = cb; p != ce; ++p) { if (!f) e.s.push_back(','); f = false; put_word(e.s, *p); } e.s += "]"; e.emit();
}
static void ranges(Rng& rng) {
    for (int i = 0; i < N(4, 60); ++i) {
        auto g = [&] { return modv<float>(rng); };
        range_case("vec1", glm::vec1(g())); range_case("vec2", fill<glm::vec2>(g)); range_case("vec3", fill<glm::vec3>(g)); range_case("vec4", fill<glm::vec4>(g));
        range_case("mat2", fill<glm::mat2>(g)); range_case("mat2x3", fill<glm::mat2x3>(g)); range_case("mat3", fill<glm::mat3>(g)); range_case("mat4x2", fill<glm::mat4x2>(g)); range_case("mat4", fill<glm::mat4>(g));
        range_case("ivec3", glm::ivec3(int(rng.below(100)), -int(rng.below(100)), int(rng.below(7)))); range_case("dvec2", glm::dvec2(modv<double>(rng), modv<double>(rng)));
    }
}

static void body(int argc, char** argv) {
    g_thorough = argc > 2 && std::string(argv[2]) == "thorough";
    Rng rng(seed_from_env());
    splines<3, float>(rng); splines<2, double>(rng); splines<4, float>(rng); splines<1, double>(rng);
    easing<float>(rng); easing<double>(rng);
    pow_float<float>(rng); pow_float<double>(rng); pow_int(rng);
    compat<float>(rng); compat<double>(rng); compat_int();
    smul(rng);
    assoc_scalar<float, int>(rng, N(40, 1500)); assoc_scalar<int, float>(rng, N(40, 1500)); assoc_scalar<float, float>(rng, N(20, 600)); assoc_scalar<double, double>(rng, N(10, 300)); assoc_scalar<int, int>(rng, N(10, 300));
    assoc_vec<float, float, 3>(rng, N(15, 500)); assoc_vec<int, float, 3>(rng, N(15, 500)); assoc_vec<float, int, 2>(rng, N(10, 300)); assoc_vec<int, int, 4>(rng, N(8, 300)); assoc_vec<double, double, 4>(rng, N(6, 200));
    minmax_float<float>(rng); minmax_float<double>(rng); minmax_int(rng);
    logbase<float>(); logbase<double>();
    reciprocal<float>(rng); reciprocal<double>(rng);
    gauss<float>(rng); gauss<double>(rng);
    levels_log2(rng); ranges(rng);
}
int main(int argc, char** argv) { return run_main(argc, argv, body); }
