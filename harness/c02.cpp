// C02 harness: matrix operators and functions for all nine shapes.
//   c02 <trace-out> <mode>
#include "common.hpp"
#include <glm/gtc/matrix_access.hpp>
#include <glm/gtx/matrix_major_storage.hpp>
#include <glm/gtx/matrix_cross_product.hpp>
#include <glm/ext/matrix_integer.hpp>
using namespace vh;
static bool g_thorough = false;
static Rng* g_rng = nullptr;

template<int C, int R, class T> using M = glm::mat<C, R, T, glm::defaultp>;
template<int L, class T> using V = glm::vec<L, T, glm::defaultp>;

#define EVM(OP, T) Ev(OP).str("t", TI<T>::code())

// ---------------------------------------------------------------- input families (values as small exact numbers)
template<class T> T val(long n, int den = 1) { return den == 1 ? T(n) : T(double(n) / double(den)); }
static const long PRIMES[] = { 2, 3, 5, 7, 11, 13, 17, 19, 23, 29, 31, 37, 41, 43, 47, 53, 59, 61, 67, 71, 73, 79, 83, 89, 97, 101, 103, 107, 109, 113, 127, 131 };

template<int C, int R, class T> M<C, R, T> basis(int k, long v = 3) { M<C, R, T> m(T(0)); for (int c = 0; c < C; ++c) for (int r = 0; r < R; ++r) m[c][r] = T(0); m[k / R][k % R] = T(v); return m; }
template<int C, int R, class T> M<C, R, T> dense(int seed) {
    M<C, R, T> m; for (int c = 0; c < C; ++c) for (int r = 0; r < R; ++r) { long p = PRIMES[(seed * 7 + c * R + r) % 32]; bool neg = std::numeric_limits<T>::is_signed && ((seed + c + 2 * r) % 3 == 0); m[c][r] = T(neg ? -p : p); }
    return m;
}
template<int C, int R, class T> M<C, R, T> fractional(int seed) {     // exact dyadic fractions (floating types), small ints otherwise
    M<C, R, T> m; for (int c = 0; c < C; ++c) for (int r = 0; r < R; ++r) { long p = PRIMES[(seed * 5 + c * R + r + 3) % 32];
        if (std::numeric_limits<T>::is_integer) m[c][r] = T(p % 11); else m[c][r] = T(double(((seed + c + r) % 2) ? -p : p) / double(1 << ((seed + c * 3 + r) % 5))); }
    return m;
}
template<int C, int R, class T> M<C, R, T> randomm() {               // arbitrary floats (tolerance path) / wrapping integers (unsigned only)
    M<C, R, T> m; for (int c = 0; c < C; ++c) for (int r = 0; r < R; ++r) {
        if constexpr (std::is_floating_point<T>::value) { uint64_t b = g_rng->next(); int e = int(g_rng->below(24)) - 12; double mant = 1.0 + double(b & 0xFFFFFF) / double(1 << 24); m[c][r] = T(((b >> 40) & 1 ? -1.0 : 1.0) * std::ldexp(mant, e)); }
        else if constexpr (std::is_unsigned<T>::value) m[c][r] = T(g_rng->next());
        else m[c][r] = T(long(g_rng->below(2001)) - 1000);
    }
    return m;
}
template<int L, class T> V<L, T> vecd(int seed) { V<L, T> v; for (int i = 0; i < L; ++i) { long p = PRIMES[(seed * 3 + i + 9) % 32]; v[i] = T((std::numeric_limits<T>::is_signed && (seed + i) % 2) ? -p : p); } return v; }
template<int L, class T> V<L, T> vecb(int k, long v = 5) { V<L, T> r(T(0)); r[k] = T(v); return r; }
template<int L, class T> V<L, T> vecr() { M<1 + (L > 1), 2 + (L > 2) + (L > 3), T> dummy; (void)dummy; V<L, T> v; for (int i = 0; i < L; ++i) { if constexpr (std::is_floating_point<T>::value) v[i] = T((double(g_rng->below(200001)) - 100000.0) / 1024.0); else if constexpr (std::is_unsigned<T>::value) v[i] = T(g_rng->next()); else v[i] = T(long(g_rng->below(2001)) - 1000); } return v; }

// ---------------------------------------------------------------- products
template<int C1, int R1, int C2, class T> void mm_one(M<C1, R1, T> const& a, M<C2, C1, T> const& b) {
    M<C2, R1, T> r = a * b;
    EVM("mm", T).num("c1", C1).num("r1", R1).num("c2", C2).arg(a).arg(b).res(r).emit();
}
template<int C1, int R1, int C2, class T> void mm_all() {
    for (int i = 0; i < C1 * R1; ++i) for (int j = 0; j < C2 * C1; ++j) mm_one<C1, R1, C2, T>(basis<C1, R1, T>(i, 3), basis<C2, C1, T>(j, 5));
    for (int s = 0; s < (g_thorough ? 24 : 5); ++s) { mm_one<C1, R1, C2, T>(dense<C1, R1, T>(s), dense<C2, C1, T>(s + 11)); mm_one<C1, R1, C2, T>(fractional<C1, R1, T>(s), fractional<C2, C1, T>(s + 4)); }
    for (int s = 0; s < (g_thorough ? 200 : 12); ++s) { auto ra = randomm<C1, R1, T>(); auto rb = randomm<C2, C1, T>(); mm_one<C1, R1, C2, T>(ra, rb); }   // operands bound first: argument evaluation order is unspecified
}
template<int C, int R, class T> void mv_all() {
    auto mv = [](M<C, R, T> const& m, V<C, T> const& v) { V<R, T> r = m * v; EVM("mv", T).num("C", C).num("R", R).arg(m).arg(v).res(r).emit(); };
    // vec * mat is implemented with dot(), which GLM restricts to floating-point types: for integer matrices the operator does not compile (census)
    auto vm = [](V<R, T> const& v, M<C, R, T> const& m) { if constexpr (std::is_floating_point<T>::value) { V<C, T> r = v * m; EVM("vm", T).num("C", C).num("R", R).arg(v).arg(m).res(r).emit(); } };
    for (int i = 0; i < C * R; ++i) { for (int j = 0; j < C; ++j) mv(basis<C, R, T>(i, 3), vecb<C, T>(j)); for (int j = 0; j < R; ++j) vm(vecb<R, T>(j), basis<C, R, T>(i, 3)); }
    for (int s = 0; s < (g_thorough ? 30 : 6); ++s) { mv(dense<C, R, T>(s), vecd<C, T>(s)); vm(vecd<R, T>(s), dense<C, R, T>(s + 1)); mv(fractional<C, R, T>(s), vecd<C, T>(s + 2)); vm(vecd<R, T>(s + 5), fractional<C, R, T>(s)); }
    for (int s = 0; s < (g_thorough ? 200 : 12); ++s) { auto m1 = randomm<C, R, T>(); auto v1 = vecr<C, T>(); mv(m1, v1); auto v2 = vecr<R, T>(); auto m2 = randomm<C, R, T>(); vm(v2, m2); }
    // aliasing: the result overwrites an operand
    for (int s = 0; s < 4; ++s) {
        if constexpr (C == R) { M<C, R, T> m = dense<C, R, T>(s); V<C, T> v = vecd<C, T>(s); V<C, T> v0 = v; v = m * v; EVM("mv", T).num("C", C).num("R", R).str("alias", "v=m*v").arg(m).arg(v0).res(v).emit();
            M<C, R, T> m2 = dense<C, R, T>(s + 3), m0 = m2; m2[C - 1] = m2 * m2[C - 1]; V<R, T> col = m2[C - 1]; V<C, T> c0 = m0[C - 1]; EVM("mv", T).num("C", C).num("R", R).str("alias", "m[i]=m*m[i]").arg(m0).arg(c0).res(col).emit();
            if constexpr (std::is_floating_point<T>::value) { V<R, T> w = vecd<R, T>(s + 1), w0 = w; w = w * m; EVM("vm", T).num("C", C).num("R", R).str("alias", "v=v*m").arg(w0).arg(m).res(w).emit(); } }
    }
}

// ---------------------------------------------------------------- per-shape element-wise operators, transposes, accessors
template<int C, int R, class T> void shape_ops() {
    typedef M<C, R, T> MT;
    std::vector<MT> ms; for (int s = 0; s < (g_thorough ? 10 : 3); ++s) { ms.push_back(dense<C, R, T>(s)); ms.push_back(fractional<C, R, T>(s)); ms.push_back(randomm<C, R, T>()); }
    for (int i = 0; i < C * R; i += (g_thorough ? 1 : 2)) ms.push_back(basis<C, R, T>(i, 7));
    std::vector<T> ss = { T(2), T(3), T(1), T(7) }; if (std::numeric_limits<T>::is_signed) ss.push_back(T(-5)); if (std::is_floating_point<T>::value) { ss.push_back(T(0.375)); ss.push_back(T(1) / T(3)); }
    size_t k = 0;
    for (MT const& a : ms) {
        MT const& b = ms[(k * 5 + 1) % ms.size()]; T s = ss[k % ss.size()]; ++k;
        { auto r = glm::transpose(a); EVM("tr", T).num("C", C).num("R", R).arg(a).res(r).emit(); }
        { MT r = glm::matrixCompMult(a, b); EVM("cmul", T).num("C", C).num("R", R).arg(a).arg(b).res(r).emit(); }
        { MT r = a + b; EVM("add", T).num("C", C).num("R", R).arg(a).arg(b).res(r).emit(); }
        { MT r = a - b; EVM("sub", T).num("C", C).num("R", R).arg(a).arg(b).res(r).emit(); }
        { MT r = a + s; EVM("adds", T).num("C", C).num("R", R).arg(a).arg(s).res(r).emit(); }
        { MT r = a - s; EVM("subs", T).num("C", C).num("R", R).arg(a).arg(s).res(r).emit(); }
        { MT r = a * s; EVM("muls", T).num("C", C).num("R", R).arg(a).arg(s).res(r).emit(); }
        { MT r = s * a; EVM("muls", T).num("C", C).num("R", R).arg(a).arg(s).res(r).emit(); }
        { MT r = a / s; EVM("divs", T).num("C", C).num("R", R).arg(a).arg(s).res(r).emit(); }
        { bool nz = true; for (int c = 0; c < C; ++c) for (int r = 0; r < R; ++r) if (a[c][r] == T(0)) nz = false; if (nz) { MT r = s / a; EVM("sdiv", T).num("C", C).num("R", R).arg(a).arg(s).res(r).emit(); } }
        if (std::numeric_limits<T>::is_signed) { MT r = -a; EVM("neg", T).num("C", C).num("R", R).arg(a).res(r).emit(); }
        { MT r = +a; EVM("pos", T).num("C", C).num("R", R).arg(a).res(r).emit(); }
        { bool r = (a == b); EVM("eq", T).num("C", C).num("R", R).arg(a).arg(b).res(r).emit(); bool r2 = (a == a); MT a2 = a; EVM("eq", T).num("C", C).num("R", R).arg(a).arg(a2).res(r2).emit();
          bool r3 = (a != b); EVM("ne", T).num("C", C).num("R", R).arg(a).arg(b).res(r3).emit(); MT d = a; d[C - 1][R - 1] = T(d[C - 1][R - 1] + T(1)); bool r4 = (a != d), r5 = (a == d); EVM("ne", T).num("C", C).num("R", R).arg(a).arg(d).res(r4).emit(); EVM("eq", T).num("C", C).num("R", R).arg(a).arg(d).res(r5).emit(); }
        // compound assignment: the logged result is the state of the left operand after the operation
        { MT r = a; r += b; EVM("add", T).num("C", C).num("R", R).str("form", "+=").arg(a).arg(b).res(r).emit(); }
        { MT r = a; r -= b; EVM("sub", T).num("C", C).num("R", R).str("form", "-=").arg(a).arg(b).res(r).emit(); }
        { MT r = a; r += s; EVM("adds", T).num("C", C).num("R", R).str("form", "+=").arg(a).arg(s).res(r).emit(); }
        { MT r = a; r -= s; EVM("subs", T).num("C", C).num("R", R).str("form", "-=").arg(a).arg(s).res(r).emit(); }
        { MT r = a; r *= s; EVM("muls", T).num("C", C).num("R", R).str("form", "*=").arg(a).arg(s).res(r).emit(); }
        { MT r = a; r /= s; EVM("divs", T).num("C", C).num("R", R).str("form", "/=").arg(a).arg(s).res(r).emit(); }
        { MT r = a; r += r; EVM("add", T).num("C", C).num("R", R).str("form", "m+=m").arg(a).arg(a).res(r).emit(); }
        { MT r = a; MT q = ++r; EVM("adds", T).num("C", C).num("R", R).str("form", "++m").arg(a).arg(T(1)).res(r).emit(); EVM("adds", T).num("C", C).num("R", R).str("form", "++m value").arg(a).arg(T(1)).res(q).emit(); }
        { MT r = a; MT q = r--; EVM("subs", T).num("C", C).num("R", R).str("form", "m--").arg(a).arg(T(1)).res(r).emit(); EVM("pos", T).num("C", C).num("R", R).str("form", "m-- value").arg(a).res(q).emit(); }
        { MT r = a; MT q = r++; EVM("adds", T).num("C", C).num("R", R).str("form", "m++").arg(a).arg(T(1)).res(r).emit(); EVM("pos", T).num("C", C).num("R", R).str("form", "m++ value").arg(a).res(q).emit(); }
        { MT r = a; MT q = --r; EVM("subs", T).num("C", C).num("R", R).str("form", "--m").arg(a).arg(T(1)).res(q).emit(); }
        // accessors
        for (int i = 0; i < R; ++i) { auto r = glm::row(a, i); EVM("rowget", T).num("C", C).num("R", R).num("i", i).arg(a).res(r).emit(); V<C, T> x = vecd<C, T>(i + int(k)); MT r2 = glm::row(a, i, x); EVM("rowset", T).num("C", C).num("R", R).num("i", i).arg(a).arg(x).res(r2).emit(); }
        for (int i = 0; i < C; ++i) { auto r = glm::column(a, i); EVM("colget", T).num("C", C).num("R", R).num("i", i).arg(a).res(r).emit(); V<R, T> x = vecd<R, T>(i + int(k)); MT r2 = glm::column(a, i, x); EVM("colset", T).num("C", C).num("R", R).num("i", i).arg(a).arg(x).res(r2).emit();
            V<R, T> col = a[i]; EVM("colget", T).num("C", C).num("R", R).num("i", i).str("form", "m[i]").arg(a).res(col).emit(); }
        // outer product giving this shape: outerProduct(c (R entries), r (C entries)) -> mat<C, R>
        { V<R, T> cv = vecd<R, T>(int(k)); V<C, T> rv = vecd<C, T>(int(k) + 2); MT r = glm::outerProduct(cv, rv); EVM("outer", T).num("C", C).num("R", R).arg(cv).arg(rv).res(r).emit(); }
    }
    // scalar and diagonal construction are C17's; shape conversions are exercised here because the property lists them
}
template<int C, int R, int C2, int R2, class T> void conv_one() {
    for (int s = 0; s < 2; ++s) { M<C2, R2, T> src = dense<C2, R2, T>(s + C + R); M<C, R, T> r(src); EVM("conv", T).num("C", C).num("R", R).num("c2", C2).num("r2", R2).arg(src).res(r).emit(); }
}
template<int C, int R, class T> void conv_all() {
    conv_one<C, R, 2, 2, T>(); conv_one<C, R, 2, 3, T>(); conv_one<C, R, 2, 4, T>(); conv_one<C, R, 3, 2, T>(); conv_one<C, R, 3, 3, T>(); conv_one<C, R, 3, 4, T>(); conv_one<C, R, 4, 2, T>(); conv_one<C, R, 4, 3, T>(); conv_one<C, R, 4, 4, T>();
}
template<int N, class T> void square_ops() {
    typedef M<N, N, T> MT;
    for (int s = 0; s < (g_thorough ? 12 : 4); ++s) {
        MT a = s % 2 ? dense<N, N, T>(s) : fractional<N, N, T>(s), b = dense<N, N, T>(s + 7); T sc = T(3 + s);
        { MT r = a; r *= b; EVM("mm", T).num("c1", N).num("r1", N).num("c2", N).str("form", "*=").arg(a).arg(b).res(r).emit(); }
        { MT r = a; r *= r; EVM("mm", T).num("c1", N).num("r1", N).num("c2", N).str("form", "m*=m").arg(a).arg(a).res(r).emit(); }
        { MT r = a; r = r * r; EVM("mm", T).num("c1", N).num("r1", N).num("c2", N).str("form", "m=m*m").arg(a).arg(a).res(r).emit(); }
        { MT r = sc + a; EVM("adds", T).num("C", N).num("R", N).str("form", "s+m").arg(a).arg(sc).res(r).emit(); }
        { MT r = sc - a; EVM("ssub", T).num("C", N).num("R", N).arg(a).arg(sc).res(r).emit(); }
    }
}
template<class T> void gtx_ops() {
    for (int s = 0; s < 6; ++s) {
        V<2, T> a2 = vecd<2, T>(s), b2 = vecd<2, T>(s + 1); V<3, T> a3 = vecd<3, T>(s), b3 = vecd<3, T>(s + 1), c3 = vecd<3, T>(s + 2); V<4, T> a4 = vecd<4, T>(s), b4 = vecd<4, T>(s + 1), c4 = vecd<4, T>(s + 2), d4 = vecd<4, T>(s + 3);
        { auto r = glm::rowMajor2(a2, b2); EVM("rowMajorV", T).num("n", 2).arg(a2).arg(b2).res(r).emit(); auto c = glm::colMajor2(a2, b2); EVM("colMajorV", T).num("n", 2).arg(a2).arg(b2).res(c).emit(); }
        { auto r = glm::rowMajor3(a3, b3, c3); EVM("rowMajorV", T).num("n", 3).arg(a3).arg(b3).arg(c3).res(r).emit(); auto c = glm::colMajor3(a3, b3, c3); EVM("colMajorV", T).num("n", 3).arg(a3).arg(b3).arg(c3).res(c).emit(); }
        { auto r = glm::rowMajor4(a4, b4, c4, d4); EVM("rowMajorV", T).num("n", 4).arg(a4).arg(b4).arg(c4).arg(d4).res(r).emit(); auto c = glm::colMajor4(a4, b4, c4, d4); EVM("colMajorV", T).num("n", 4).arg(a4).arg(b4).arg(c4).arg(d4).res(c).emit(); }
        { M<2, 2, T> m = dense<2, 2, T>(s); auto r = glm::rowMajor2(m); EVM("tr", T).num("C", 2).num("R", 2).str("form", "rowMajor").arg(m).res(r).emit(); auto c = glm::colMajor2(m); EVM("pos", T).num("C", 2).num("R", 2).str("form", "colMajor").arg(m).res(c).emit(); }
        { M<3, 3, T> m = dense<3, 3, T>(s); auto r = glm::rowMajor3(m); EVM("tr", T).num("C", 3).num("R", 3).str("form", "rowMajor").arg(m).res(r).emit(); auto c = glm::colMajor3(m); EVM("pos", T).num("C", 3).num("R", 3).str("form", "colMajor").arg(m).res(c).emit(); }
        { M<4, 4, T> m = dense<4, 4, T>(s); auto r = glm::rowMajor4(m); EVM("tr", T).num("C", 4).num("R", 4).str("form", "rowMajor").arg(m).res(r).emit(); auto c = glm::colMajor4(m); EVM("pos", T).num("C", 4).num("R", 4).str("form", "colMajor").arg(m).res(c).emit(); }
        if (std::numeric_limits<T>::is_signed) { auto r = glm::matrixCross3(a3); EVM("matrixCross", T).num("n", 3).arg(a3).res(r).emit(); auto q = glm::matrixCross4(a3); EVM("matrixCross", T).num("n", 4).arg(a3).res(q).emit(); }
    }
}

template<class T> void drive() {
#define SH(C, R) shape_ops<C, R, T>(); mv_all<C, R, T>(); conv_all<C, R, T>();
    SH(2, 2) SH(2, 3) SH(2, 4) SH(3, 2) SH(3, 3) SH(3, 4) SH(4, 2) SH(4, 3) SH(4, 4)
#undef SH
#define MMX(C1, R1) mm_all<C1, R1, 2, T>(); mm_all<C1, R1, 3, T>(); mm_all<C1, R1, 4, T>();
    MMX(2, 2) MMX(2, 3) MMX(2, 4) MMX(3, 2) MMX(3, 3) MMX(3, 4) MMX(4, 2) MMX(4, 3) MMX(4, 4)
#undef MMX
    square_ops<2, T>(); square_ops<3, T>(); square_ops<4, T>();
    gtx_ops<T>();
}
static void body(int argc, char** argv) {
    g_thorough = argc > 2 && std::string(argv[2]) == "thorough";
    Rng rng(seed_from_env()); g_rng = &rng;
    const bool simd = argc > 2 && std::string(argv[2]) == "simd";      // SIMD builds: the element types that have intrinsic specialisations
    if (argc > 2 && std::string(argv[2]) == "simdd") { drive<double>(); return; }   // AVX builds: the double specialisations (__m256d) only
    drive<float>(); drive<int>(); if (!simd) { drive<double>(); drive<unsigned int>(); }
    if (g_thorough) { drive<short>(); drive<unsigned char>(); }
}
int main(int argc, char** argv) { return run_main(argc, argv, body); }
