// C11 sweep (engine E5): every one of the 2^32 binary32 patterns through the unary common functions, compared with the class table
// derived and verified by TLC (spec/glm/GlmCommonTable.tla, spec/mc/MC_C11T.tla).  The table is data: K[e] = number of mantissa-field
// bits below the binary point for exponent field e, B[op][s][fz][cmp][odd] = "the rounding moves to the next integer in magnitude".
// This file only interprets it (RowApply of GlmCommonTable.tla).  It renders no verdict: patterns whose GLM result differs from the
// table's are logged as ordinary C11 events and judged again by TLC against the definitions (Trace_C11); the interpreter itself is
// logged on the class-boundary lattice as events with "src":"table" and judged by the same trace specification.
//   c11sweep <rejects-out> <table.txt> sweep [stride]      -> prints "SWEEP inputs=<n> calls=<n> rejected=<n>"
//   c11sweep <events-out>  <table.txt> selfcheck
// Builds: pure (scalar overloads), or -DSWEEP_SIMD with GLM_FORCE_INTRINSICS (aligned vec4 overloads, four patterns per call).
#define VH_NO_EXT_ALL
#include "common.hpp"
#include <glm/ext/scalar_common.hpp>
#include <glm/ext/vector_common.hpp>
#include <thread>
#include <mutex>
#include <atomic>
using namespace vh;

static int K[256];
static unsigned char B[5][2][2][3][2];
enum { TRUNC = 0, FLOOR, CEIL, ROUND, ROUNDEVEN, FRACT, ABS, SIGN, ISNAN, ISINF, MODF, FREXP, IROUND, UROUND, NOPS };
static const char* OPN[NOPS] = { "trunc", "floor", "ceil", "round", "roundEven", "fract", "abs", "sign", "isnan", "isinf", "modf", "frexp", "iround", "uround" };

static void load_table(const char* path) {
    FILE* f = std::fopen(path, "r"); if (!f) { std::perror(path); std::exit(2); }
    char t; int nk = 0, nb = 0; int a, b, c, d, e, g;
    for (int i = 0; i < 256; ++i) K[i] = -1;
    while (std::fscanf(f, " %c", &t) == 1) {
        if (t == 'K') { if (std::fscanf(f, "%d %d", &a, &b) != 2) std::exit(2); K[a] = b; ++nk; }
        else if (t == 'B') { if (std::fscanf(f, "%d %d %d %d %d %d", &a, &b, &c, &d, &e, &g) != 6) std::exit(2); B[a][b][c][d][e] = (unsigned char)g; ++nb; }
        else std::exit(2);
    }
    std::fclose(f);
    if (nk != 256 || nb != 120) { std::fprintf(stderr, "table: %d K rows, %d B rows\n", nk, nb); std::exit(2); }
}

struct Feat { int k, fz, cmp, odd; };
static inline Feat feat(uint32_t p) {
    uint32_t e = (p >> 23) & 255u, m = p & 0x7fffffu; Feat f; f.k = K[e];
    if (f.k >= 1 && f.k <= 23) { uint32_t fr = m & ((1u << f.k) - 1u), h = 1u << (f.k - 1); f.fz = fr == 0; f.cmp = fr < h ? 0 : fr == h ? 1 : 2; f.odd = f.k == 23 ? 1 : int((m >> f.k) & 1u); }
    else { f.fz = e == 0 && m == 0; f.cmp = e == 126 ? (m == 0 ? 1 : 2) : 0; f.odd = 0; }
    return f;
}
// RowApply: the pattern a rounding operation returns
static inline uint32_t row_apply(int op, uint32_t p) {
    uint32_t s = p >> 31, e = (p >> 23) & 255u, m = p & 0x7fffffu;
    if (e == 255u || K[e] == 0) return p;
    Feat f = feat(p); bool bump = B[op][s][f.fz][f.cmp][f.odd] != 0;
    if (f.k <= 23) { uint32_t t = (p & 0x7fffffffu) - (m & ((1u << f.k) - 1u)); return (s << 31) | (bump ? t + (1u << f.k) : t); }
    return (s << 31) | (bump ? 0x3f800000u : 0u);
}
static inline bool fin(uint32_t p) { return ((p >> 23) & 255u) != 255u; }
static inline bool isnanp(uint32_t p) { return !fin(p) && (p & 0x7fffffu) != 0; }
static inline bool same(uint32_t a, uint32_t b) { return a == b || (isnanp(a) && isnanp(b)) || (((a | b) & 0x7fffffffu) == 0); }
static inline uint32_t fsubp(uint32_t a, uint32_t b) { volatile float x = from_bits<float>(a), y = from_bits<float>(b); volatile float r = x - y; return uint32_t(to_bits<float>(r)); }
// integer value of a non-negative finite pattern truncated (k >= 0), as 64-bit
static inline uint64_t trunc_u64(uint32_t p) { uint32_t e = (p >> 23) & 255u, m = p & 0x7fffffu; if (e == 0) return 0; uint64_t sig = m | 0x800000u; int sh = int(e) - 150; return sh >= 0 ? (sh < 40 ? sig << sh : ~0ull) : (sh > -64 ? sig >> (-sh) : 0); }

struct Rej { uint8_t op; uint32_t p; };

// what the table expects of op at p, compared with the observed GLM outputs; true = consistent
struct Obs { uint32_t r = 0; uint32_t aux = 0; int e = 0; bool b = false; };

static inline bool consistent(int op, uint32_t p, Obs const& o, bool& in_domain) {
    in_domain = true;
    switch (op) {
    case TRUNC: case FLOOR: case CEIL: case ROUND: case ROUNDEVEN: return same(o.r, row_apply(op, p));
    case FRACT: if (!fin(p)) { in_domain = false; return true; } return same(o.r, fsubp(p, row_apply(FLOOR, p)));
    case ABS: return same(o.r, p & 0x7fffffffu);
    case SIGN: if (isnanp(p)) { in_domain = false; return true; } return same(o.r, (p & 0x7fffffffu) == 0 ? 0u : ((p & 0x80000000u) | 0x3f800000u));
    case ISNAN: return o.b == isnanp(p);
    case ISINF: return o.b == (!fin(p) && !isnanp(p));
    case MODF: if (!fin(p)) { in_domain = false; return true; } { uint32_t ip = row_apply(TRUNC, p); return same(o.aux, ip) && same(o.r, fsubp(p, ip)); }
    case FREXP: if (!fin(p)) { in_domain = false; return true; } {
        uint32_t e = (p >> 23) & 255u, m = p & 0x7fffffu, s = p & 0x80000000u;
        if (e == 0 && m == 0) return same(o.r, p) && o.e == 0;
        if (e > 0) return o.r == (s | (126u << 23) | m) && o.e == int(e) - 126;
        int b = 32 - __builtin_clz(m); return o.r == (s | (126u << 23) | ((m << (24 - b)) & 0x7fffffu)) && o.e == -149 + b; }
    case IROUND: case UROUND: {
        uint64_t t = trunc_u64(p); Feat f = feat(p); uint64_t lim = op == IROUND ? 0x7fffffffull : 0xffffffffull;
        if (!fin(p) || (p >> 31) || t >= lim) { in_domain = false; return true; }
        uint64_t got = op == IROUND ? uint64_t(int64_t(int32_t(o.r))) : uint64_t(o.r);
        if (f.k == 0) return got == t;
        return f.cmp == 0 ? got == t : f.cmp == 2 ? got == t + 1 : (got == t || got == t + 1); }
    }
    return false;
}

#ifndef SWEEP_SIMD
static inline Obs call(int op, uint32_t p) {
    float x = from_bits<float>(p); Obs o;
    switch (op) {
    case TRUNC: o.r = uint32_t(to_bits(glm::trunc(x))); break;
    case FLOOR: o.r = uint32_t(to_bits(glm::floor(x))); break;
    case CEIL: o.r = uint32_t(to_bits(glm::ceil(x))); break;
    case ROUND: o.r = uint32_t(to_bits(glm::round(x))); break;
    case ROUNDEVEN: o.r = uint32_t(to_bits(glm::roundEven(x))); break;
    case FRACT: o.r = uint32_t(to_bits(glm::fract(x))); break;
    case ABS: o.r = uint32_t(to_bits(glm::abs(x))); break;
    case SIGN: o.r = uint32_t(to_bits(glm::sign(x))); break;
    case ISNAN: o.b = glm::isnan(x); break;
    case ISINF: o.b = glm::isinf(x); break;
    case MODF: { float i = 77.f; float r = glm::modf(x, i); o.r = uint32_t(to_bits(r)); o.aux = uint32_t(to_bits(i)); } break;
    case FREXP: { int e = 12345; float r = glm::frexp(x, e); o.r = uint32_t(to_bits(r)); o.e = e; } break;
    case IROUND: if (fin(p) && !(p >> 31) && trunc_u64(p) < 0x7fffffffull) o.r = uint32_t(glm::iround(x)); break;
    case UROUND: if (fin(p) && !(p >> 31) && trunc_u64(p) < 0xffffffffull) o.r = uint32_t(glm::uround(x)); break;
    }
    return o;
}
static const int OPS[] = { TRUNC, FLOOR, CEIL, ROUND, ROUNDEVEN, FRACT, ABS, SIGN, ISNAN, ISINF, MODF, FREXP, IROUND, UROUND };
static const int NOPSRUN = 14;
static inline void run_block(uint32_t p0, std::vector<Rej>& rej, uint64_t& calls) {      // one pattern
    for (int i = 0; i < NOPSRUN; ++i) { int op = OPS[i]; bool dom; Obs o = call(op, p0); ++calls; if (!consistent(op, p0, o, dom) && rej.size() < 4000) rej.push_back({ uint8_t(op), p0 }); }
}
static const uint32_t STEP = 1;
#else
typedef glm::vec<4, float, glm::aligned_highp> V4;
typedef glm::vec<4, bool, glm::aligned_highp> B4;
static inline V4 mk(uint32_t p0) { return V4(from_bits<float>(p0), from_bits<float>(p0 + 1), from_bits<float>(p0 + 2), from_bits<float>(p0 + 3)); }
static const int OPS[] = { TRUNC, FLOOR, CEIL, ROUND, ROUNDEVEN, FRACT, ABS, SIGN, ISNAN, ISINF };
static const int NOPSRUN = 10;
static inline void call4(int op, uint32_t p0, Obs o[4]) {
    V4 x = mk(p0), r(0); B4 b(false);
    switch (op) {
    case TRUNC: r = glm::trunc(x); break; case FLOOR: r = glm::floor(x); break; case CEIL: r = glm::ceil(x); break;
    case ROUND: r = glm::round(x); break; case ROUNDEVEN: r = glm::roundEven(x); break; case FRACT: r = glm::fract(x); break;
    case ABS: r = glm::abs(x); break; case SIGN: r = glm::sign(x); break;
    case ISNAN: b = glm::isnan(x); break; case ISINF: b = glm::isinf(x); break;
    }
    for (int i = 0; i < 4; ++i) { o[i].r = uint32_t(to_bits<float>(r[i])); o[i].b = b[i]; }
}
static inline Obs call(int op, uint32_t p) { Obs o[4]; call4(op, p & ~3u, o); return o[p & 3u]; }
static inline void run_block(uint32_t p0, std::vector<Rej>& rej, uint64_t& calls) {      // four patterns p0 .. p0+3
    for (int i = 0; i < NOPSRUN; ++i) { int op = OPS[i]; Obs o[4]; call4(op, p0, o); ++calls;
        for (int j = 0; j < 4; ++j) { bool dom; if (!consistent(op, p0 + j, o[j], dom) && rej.size() < 4000) rej.push_back({ uint8_t(op), p0 + uint32_t(j) }); } }
}
static const uint32_t STEP = 4;
#endif

static void emit_event(int op, uint32_t p, Obs const& o, const char* src) {
    float x = from_bits<float>(p);
    Ev ev(OPN[op]); ev.str("t", "f32").num("n", 0); if (src) ev.str("src", src);
    ev.arg(x);
    if (op == ISNAN || op == ISINF) ev.res(o.b);
    else if (op == IROUND) ev.res(int(o.r));
    else if (op == UROUND) ev.res(glm::uint(o.r));
    else ev.res(from_bits<float>(o.r));
    if (op == MODF) ev.val("i", from_bits<float>(o.aux));
    if (op == FREXP) ev.val("e", o.e);
    ev.emit();
}

// the table interpreter's own answer for op at p, as an observation (selfcheck: judged by TLC like an implementation)
static bool table_obs(int op, uint32_t p, Obs& o) {
    switch (op) {
    case TRUNC: case FLOOR: case CEIL: case ROUND: case ROUNDEVEN: o.r = row_apply(op, p); return true;
    case FRACT: if (!fin(p)) return false; o.r = fsubp(p, row_apply(FLOOR, p)); return true;
    case ABS: o.r = p & 0x7fffffffu; return true;
    case SIGN: if (isnanp(p)) return false; o.r = (p & 0x7fffffffu) == 0 ? 0u : ((p & 0x80000000u) | 0x3f800000u); return true;
    case ISNAN: o.b = isnanp(p); return true;
    case ISINF: o.b = !fin(p) && !isnanp(p); return true;
    case MODF: if (!fin(p)) return false; o.aux = row_apply(TRUNC, p); o.r = fsubp(p, o.aux); return true;
    case FREXP: { if (!fin(p)) return false; uint32_t e = (p >> 23) & 255u, m = p & 0x7fffffu, s = p & 0x80000000u;
        if (e == 0 && m == 0) { o.r = p; o.e = 0; } else if (e > 0) { o.r = s | (126u << 23) | m; o.e = int(e) - 126; }
        else { int b = 32 - __builtin_clz(m); o.r = s | (126u << 23) | ((m << (24 - b)) & 0x7fffffu); o.e = -149 + b; } return true; }
    case IROUND: case UROUND: { uint64_t t = trunc_u64(p); Feat f = feat(p); uint64_t lim = op == IROUND ? 0x7fffffffull : 0xffffffffull;
        if (!fin(p) || (p >> 31) || t >= lim) return false; o.r = uint32_t((f.k != 0 && f.cmp >= 1) ? t + 1 : t); return true; }
    }
    return false;
}

static void body(int argc, char** argv) {
    if (argc < 4) { std::fprintf(stderr, "usage: c11sweep <out> <table> sweep|selfcheck [stride]\n"); std::exit(2); }
    load_table(argv[2]);
    std::string mode = argv[3];
    if (mode == "selfcheck") {
        Rng rng(seed_from_env());
        std::vector<uint32_t> pats;
        for (uint32_t e = 0; e < 256; ++e) for (uint32_t s = 0; s < 2; ++s) {
            uint32_t base = (s << 31) | (e << 23); int k = K[e];
            for (uint32_t m : { 0u, 1u, 0x400000u, 0x400001u, 0x3fffffu, 0x7fffffu, 0x600000u, uint32_t(rng.next() & 0x7fffffu) }) pats.push_back(base | m);
            if (k >= 1 && k <= 23) for (uint32_t n : { 0u, 1u, 2u, 3u, 6u, uint32_t(rng.below(1000)) }) {
                uint32_t ip = (n << k) & 0x7fffffu, h = 1u << (k - 1);
                for (uint32_t m : { ip, ip + h, ip + h + 1, ip + h - 1, ip + 1, ip + (1u << k) - 1 }) pats.push_back(base | (m & 0x7fffffu));
            }
        }
        for (uint32_t p : pats) for (int op = 0; op < NOPS; ++op) { Obs o; if (table_obs(op, p, o)) emit_event(op, p, o, "table"); }
        return;
    }
    uint64_t stride = argc > 4 ? std::strtoull(argv[4], nullptr, 10) : 1;      // stride > 1: only every stride-th block of 4096 patterns (debugging)
    unsigned nth = std::thread::hardware_concurrency(); if (nth == 0) nth = 4; if (const char* j = std::getenv("VERIF_JOBS")) nth = unsigned(std::atoi(j)) ? unsigned(std::atoi(j)) : nth;
    std::vector<std::vector<Rej>> rejs(nth); std::vector<uint64_t> calls(nth, 0), inputs(nth, 0);
    std::atomic<uint32_t> nextblk(0);
    const uint32_t NBLK = 1u << 20;            // blocks of 4096 patterns
    std::vector<std::thread> th;
    for (unsigned t = 0; t < nth; ++t) th.emplace_back([&, t]() {
        for (;;) { uint32_t b = nextblk.fetch_add(1); if (b >= NBLK) break; if (b % stride) continue;
            uint32_t p0 = b << 12;
            for (uint32_t i = 0; i < 4096; i += STEP) run_block(p0 + i, rejs[t], calls[t]);
            inputs[t] += 4096; }
    });
    for (auto& x : th) x.join();
    uint64_t ni = 0, nc = 0, nr = 0; for (unsigned t = 0; t < nth; ++t) { ni += inputs[t]; nc += calls[t]; nr += rejs[t].size(); }
    // rejected patterns are re-executed sequentially and logged as ordinary events for TLC (at most 300 per operation)
    int per[NOPS] = { 0 };
    for (unsigned t = 0; t < nth; ++t) for (Rej const& r : rejs[t]) { if (per[r.op]++ >= 300) continue; Obs o = call(r.op, r.p); emit_event(r.op, r.p, o, nullptr); }
    std::printf("SWEEP inputs=%llu calls=%llu rejected=%llu\n", (unsigned long long)ni, (unsigned long long)nc, (unsigned long long)nr);
}
int main(int argc, char** argv) { return run_main(argc, argv, body); }
