// C07 harness: float <-> half conversion.
//   c07 <trace-out> events <table> <mode>   structured events for TLC (E3/E4)
//   c07 <trace-out> sweep  <table>          all 2^32 packHalf1x16 results against the TLC-derived interval table (E5);
//                                           inputs the table rejects are written as events so that TLC is the judge
#include "common.hpp"
#include <glm/gtc/packing.hpp>
#include <glm/packing.hpp>
#include <fstream>
#include <thread>
#include <atomic>
#include <mutex>
using namespace vh;

struct Row { uint32_t lo, hi; };
static std::vector<Row> g_tab;      // index = half magnitude 0..0x7C00

static void load_table(const char* path) {
    g_tab.assign(0x7C01, Row{ 1, 0 });
    std::ifstream in(path); long h, lo, hi; size_t n = 0;
    while (in >> h >> lo >> hi) { if (h < 0 || h > 0x7C00) continue; g_tab[size_t(h)] = Row{ uint32_t(lo), uint32_t(hi) }; ++n; }
    if (n < 0x7C01) { std::fprintf(stderr, "table incomplete (%zu rows)\n", n); std::exit(2); }
}

static void ev_pack1(uint32_t fb) {
    float f = from_bits<float>(fb);
    glm::uint16 h = glm::packHalf1x16(f);
    Ev("packHalf1x16").arg(f).res(h).emit();
}
static void ev_unpack1(uint16_t h) {
    float f = glm::unpackHalf1x16(h);
    glm::uint16 p = glm::packHalf1x16(f);
    Ev("unpackHalf1x16").arg(glm::uint16(h)).res(f).val("p", p).emit();
}
static void ev_vectors(const uint32_t* fb) {
    glm::vec4 v(from_bits<float>(fb[0]), from_bits<float>(fb[1]), from_bits<float>(fb[2]), from_bits<float>(fb[3]));
    { glm::vec2 v2(v.x, v.y); glm::uint r = glm::packHalf2x16(v2); Ev("packHalfN").num("n", 2).arg(v2).res(r).emit();
      glm::vec2 u = glm::unpackHalf2x16(r); Ev("unpackHalfN").num("n", 2).arg(r).res(u).emit(); }
    { glm::uint64 r = glm::packHalf4x16(v); Ev("packHalfN").num("n", 4).arg(v).res(r).emit();
      glm::vec4 u = glm::unpackHalf4x16(r); Ev("unpackHalfN").num("n", 4).arg(r).res(u).emit(); }
    { glm::vec<1, float, glm::defaultp> a(v.x); auto r = glm::packHalf(a); Ev("packHalfV").num("n", 1).arg(a).res(r).emit(); auto u = glm::unpackHalf(r); Ev("unpackHalfV").num("n", 1).arg(r).res(u).emit(); }
    { glm::vec<2, float, glm::mediump> a(v.y, v.x); auto r = glm::packHalf(a); Ev("packHalfV").num("n", 2).arg(a).res(r).emit(); auto u = glm::unpackHalf(r); Ev("unpackHalfV").num("n", 2).arg(r).res(u).emit(); }
    { glm::vec<3, float, glm::lowp> a(v.z, v.x, v.y); auto r = glm::packHalf(a); Ev("packHalfV").num("n", 3).arg(a).res(r).emit(); auto u = glm::unpackHalf(r); Ev("unpackHalfV").num("n", 3).arg(r).res(u).emit(); }
    { glm::vec<4, float, glm::defaultp> a(v.w, v.z, v.y, v.x); auto r = glm::packHalf(a); Ev("packHalfV").num("n", 4).arg(a).res(r).emit(); auto u = glm::unpackHalf(r); Ev("unpackHalfV").num("n", 4).arg(r).res(u).emit(); }
}

static void events(bool thorough) {
    for (uint32_t h = 0; h < 65536; ++h) ev_unpack1(uint16_t(h));
    Rng rng(seed_from_env());
    size_t step = thorough ? 1 : 3;
    for (size_t h = 0; h <= 0x7C00; ++h) {
        if (!(h % step == 0 || h < 1100 || h > 31600 || (h % 1024) < 2 || (h % 1024) > 1021)) continue;
        Row r = g_tab[h];
        uint32_t pts[6] = { r.lo, r.hi, r.lo + 1, r.hi ? r.hi - 1 : 0, r.lo + (r.hi - r.lo) / 2, uint32_t(r.lo + rng.below(uint64_t(r.hi - r.lo) + 1)) };
        for (uint32_t p : pts) { if (p > 0x7F800000u) continue; ev_pack1(p); ev_pack1(p | 0x80000000u); }
    }
    const uint32_t nans[] = { 0x7F800001u, 0x7FC00000u, 0x7FFFFFFFu, 0x7F801FFFu, 0x7F802000u, 0x7FA00000u, 0x7F800000u, 0x7F7FFFFFu, 0x477FEFFFu, 0x477FF000u, 0x477FF001u, 0x47800000u, 0x33000000u, 0x33000001u, 0x32FFFFFFu, 0x00000001u, 0x007FFFFFu, 0x00800000u };
    for (uint32_t n : nans) { ev_pack1(n); ev_pack1(n | 0x80000000u); }
    for (int i = 0; i < (thorough ? 200000 : 20000); ++i) ev_pack1(uint32_t(rng.next()));
    // vector forms: distinct components, every component position sees specials
    std::vector<uint32_t> sp = { 0u, 0x80000000u, 0x3F800000u, 0xBF800000u, 0x477FE000u, 0xC77FE000u, 0x7F800000u, 0xFF800000u, 0x7FC00000u, 0x33800000u, 0x38800000u, 0x387FC000u, 0x3E200000u, 0x40490FDBu, 0x477FF000u, 0x33000000u };
    for (size_t i = 0; i < sp.size(); ++i) for (size_t j = 0; j < sp.size(); j += 3) { uint32_t fb[4] = { sp[i], sp[(i + j + 1) % sp.size()], sp[(i + 2 * j + 2) % sp.size()], sp[(j + 5) % sp.size()] }; ev_vectors(fb); }
    for (int i = 0; i < (thorough ? 40000 : 3000); ++i) { uint32_t fb[4]; for (auto& x : fb) { uint64_t r = rng.next(); x = (uint32_t(r) & 0x807FFFFFu) | ((uint32_t(96 + (r >> 40) % 50)) << 23); } ev_vectors(fb); }
}

static void sweep() {
    unsigned nt = std::thread::hardware_concurrency(); if (nt == 0) nt = 4;
    std::atomic<uint64_t> bad(0), done(0);
    std::mutex mu;
    std::vector<uint32_t> badv;
    auto work = [&](unsigned t) {
        uint64_t lo = (uint64_t(1) << 32) * t / nt, hi = (uint64_t(1) << 32) * (t + 1) / nt;
        uint64_t lb = 0; std::vector<uint32_t> lv;
        for (uint64_t x = lo; x < hi; ++x) {
            uint32_t fb = uint32_t(x);
            uint16_t h = glm::packHalf1x16(from_bits<float>(fb));
            uint32_t fm = fb & 0x7FFFFFFFu, hm = h & 0x7FFFu;
            bool ok = ((h >> 15) == (fb >> 31));
            if (fm > 0x7F800000u) ok = ok && hm > 0x7C00u;
            else ok = ok && hm <= 0x7C00u && g_tab[hm].lo <= fm && fm <= g_tab[hm].hi;
            if (!ok) { ++lb; if (lv.size() < 64) lv.push_back(fb); }
        }
        bad += lb; done += hi - lo;
        std::lock_guard<std::mutex> g(mu); for (uint32_t v : lv) if (badv.size() < 600) badv.push_back(v);
    };
    std::vector<std::thread> th; for (unsigned t = 0; t < nt; ++t) th.emplace_back(work, t); for (auto& t : th) t.join();
    for (uint32_t v : badv) ev_pack1(v);
    std::printf("SWEEP inputs=%llu rejected=%llu\n", (unsigned long long)done.load(), (unsigned long long)bad.load());
}

static void body(int argc, char** argv) {
    if (argc < 4) { std::fprintf(stderr, "usage\n"); std::exit(2); }
    load_table(argv[3]);
    if (std::string(argv[2]) == "sweep") sweep(); else events(argc > 4 && std::string(argv[4]) == "thorough");
}
int main(int argc, char** argv) { return run_main(argc, argv, body); }
